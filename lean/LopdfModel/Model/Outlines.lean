import LopdfModel.Model.Queries
/-
  C13 — models of `get_named_destinations` (src/destinations.rs), `get_outline`,
  `build_outline_result`, `get_outlines` (src/outlines.rs) and `get_toc` (src/toc.rs).

  `get_named_destinations` recurses over `Kids` and `get_outlines` recurses over `First` without
  any guard in the code (no visited set, no depth limit): these two recursions carry EXPLICIT
  FUEL; `none` = fuel exhausted, and `Thm/C13.lean` shows that cyclic documents exhaust every fuel.
  The `loop` of `get_outlines` over `Next` is guarded by the `seen_next` set since 79a3229: it is
  defined WITHOUT fuel, by well-founded recursion on (objects not yet in `seen_next`, size of an
  inline `Next` dictionary).
-/
namespace Lopdf.Q13
open Gen

/-- `IndexMap<Vec<u8>, Destination>`: key ↦ `.dict <Title, Page, Type>` in insertion order -/
abbrev Named := Dict

/-- `Destination::new(title, page, typ)` -/
def mkDest (title page typ : Obj) : Dict :=
  Dict.set (Dict.set (Dict.set [] K_Title title) PAGE page) TYPE typ

/-! ### get_named_destinations -/

/-- `insert_destination`: pairs with a non-string key or fewer than two array elements are skipped -/
def insertDest (key : Obj) (val : List Obj) (named : Named) : Named :=
  match key, val with
  | .str s _, v0 :: v1 :: _ => Dict.set named s (.dict (mkDest key v0 v1))
  | _, _ => named

/-- `if let Ok(val) = dict.get(b"D") { insert_destination(named, key, val.as_array()?) }` -/
def insertDestFromDict (key : Obj) (d : Dict) (named : Named) : Outcome Named :=
  match d.get K_D with
  | none => .ok named
  | some dv =>
    match dv.asArr with
    | none => E
    | some val => .ok (insertDest key val named)

/-- one (key, value) pair of the `Names` array -/
def destOfPair (os : Objects) (key val : Obj) (named : Named) : Outcome Named :=
  match val with
  | .ref a b =>
    match getDictionary os (a, b) with
    | some d => insertDestFromDict key d named
    | none =>
      match getObject os (a, b) with
      | some (.arr v) => .ok (insertDest key v named)
      | _ => .ok named
  | .dict d => insertDestFromDict key d named
  | _ => .ok named

/-- the `Names` loop: consumes (key, value) pairs -/
def namesLoop (os : Objects) : List Obj → Named → Outcome Named
  | key :: val :: rest, named =>
    match destOfPair os key val named with
    | .ok named' => namesLoop os rest named'
    | .err e => .err e
    | .panic s => .panic s
  | _, named => .ok named

/-- the part of `get_named_destinations` after the `Kids` recursion -/
def namesPart (os : Objects) (tree : Dict) (named : Named) : Outcome Named :=
  match tree.get K_Names with
  | none => .ok named
  | some names =>
    match names.asArr with
    | none => E
    | some l => namesLoop os l named

/-- `Document::get_named_destinations` with explicit fuel (`none` = out of fuel):
the recursion over `Kids` is unguarded in the code. -/
def namedDests (os : Objects) : Nat → Dict → Named → Option (Outcome Named)
  | 0, _, _ => none
  | fuel + 1, tree, named =>
    let afterKids : Option (Outcome Named) :=
      match tree.get KIDS with
      | none => some (.ok named)
      | some kids =>
        match kids.asArr with
        | none => some E
        | some ks =>
          ks.foldl (fun (acc : Option (Outcome Named)) (kid : Obj) =>
            match acc with
            | some (.ok nm) =>
              match kid.asRef.bind (getDictionary os) with
              | some kd => namedDests os fuel kd nm
              | none => some (.ok nm)
            | other => other) (some (.ok named))
    match afterKids with
    | some (.ok named1) => some (namesPart os tree named1)
    | other => other

/-! ### outlines -/

inductive Outline where
  | dest (d : Dict)
  | sub (items : List Outline)
  deriving Repr

/-- `build_outline_result` on a destination that is not a reference -/
def buildDirect (dest title : Obj) (named : Named) : Outcome (Option Outline × Named) :=
  match dest with
  | .arr a =>
    match a with
    | p :: t :: _ => .ok (some (.dest (mkDest title p t)), named)
    | _ => E
  | .str key _ =>
    match named.get key with
    | some (.dict dd) =>
      let dd' := Dict.set dd K_Title title
      .ok (some (.dest dd'), Dict.set named key (.dict dd'))
    | _ => .ok (none, named)
  | _ => E

/-- `Document::build_outline_result`. The `Reference` arm calls itself on `get_object(id)?`,
which is never a reference (`getObject_not_ref`), so the recursion has depth ≤ 1; the model
unfolds it once. -/
def buildOutlineResult (os : Objects) (dest title : Obj) (named : Named) : Outcome (Option Outline × Named) :=
  match dest with
  | .ref a b =>
    match getObject os (a, b) with
    | none => E
    | some d' => buildDirect d' title named
  | d => buildDirect d title named

/-- `Document::get_outline` -/
def getOutline (os : Objects) (node : Dict) (named : Named) : Outcome (Option Outline × Named) :=
  match getDictInDict os node K_A with
  | none =>
    match node.get K_Dest with
    | none => E
    | some dest =>
      match node.get K_Title with
      | none => E
      | some title => buildOutlineResult os dest title named
  | some action =>
    match (action.get K_S).bind Obj.asName with
    | none => E
    | some cmd =>
      if cmd ≠ K_GoTo ∧ cmd ≠ K_GoToR then E else
      match node.get K_Title with
      | none => E
      | some titleObj =>
        match titleObj with
        | .ref a b =>
          match action.get K_D with
          | none => E
          | some d =>
            match getObject os (a, b) with
            | none => E
            | some t => buildOutlineResult os d t named
        | .str _ _ =>
          match action.get K_D with
          | none => E
          | some d => buildOutlineResult os d titleObj named
        | _ => E

/-- resolution of the `node` argument of a recursive `get_outlines` call -/
def outlineNode (os : Objects) (first : Obj) : Option Dict :=
  match first with
  | .dict d => some d
  | o => (o.asRef.bind (getObject os)).bind Obj.asDict

abbrev WalkRes := Option (Outcome (List Outline × Named))

/-- `if let Ok(Some(outline)) = self.get_outline(node, named) { outlines.push(outline) }` -/
def pushOutline (r : Outcome (Option Outline × Named)) (acc : List Outline) (named : Named) : List Outline × Named :=
  match r with
  | .ok (some o, nm) => (acc ++ [o], nm)
  | .ok (none, nm) => (acc, nm)
  | _ => (acc, named)

/-- `if let Ok(first) = node.get(b"First") { … self.get_outlines(Some(first.clone()), Some(vec![]), named)? … }`;
`sub` is the recursive call on the `First` object -/
def firstStep (sub : Obj → Named → WalkRes) (node : Dict) (st : List Outline × Named) : WalkRes :=
  match node.get K_First with
  | none => some (.ok st)
  | some first =>
    match sub first st.2 with
    | some (.ok (subs, nm)) => some (.ok (if subs.isEmpty then st.1 else st.1 ++ [.sub subs], nm))
    | other => other

theorem Dict.sizeOf_get_lt {d : Dict} {k : Bytes} {v : Obj} (h : d.get k = some v) : sizeOf v < sizeOf d := by
  induction d with
  | nil => simp [Dict.get] at h
  | cons p rest ih =>
    obtain ⟨k', v'⟩ := p
    unfold Dict.get at h
    split at h
    · cases h; simp; omega
    · have := ih h; simp; omega

/-- the `loop` of `get_outlines`: one iteration per outline item of a level, following `Next`.
`seen` is the `seen_next` set of the code; no fuel: a reference either was seen (→ `Err`), is
dangling / not a dictionary (→ `break`), or enlarges `seen` by an existing object; an inline
`Next` dictionary is a strict sub-term of the current node. -/
def nextLoop (os : Objects) (sub : Obj → Named → WalkRes) (node : Dict) (acc : List Outline)
    (named : Named) (seen : List ObjId) : WalkRes :=
  match getOutline os node named with
  | .panic s => some (.panic s)
  | r =>
    match firstStep sub node (pushOutline r acc named) with
    | some (.ok (acc2, named2)) =>
      match hn : node.get K_Next with
      | some (.ref a b) =>
        if hs : (a, b) ∈ seen then some E
        else
          match hd : getDictionary os (a, b) with
          | some next => nextLoop os sub next acc2 named2 ((a, b) :: seen)
          | none => some (.ok (acc2, named2))
      | some (.dict d) => nextLoop os sub d acc2 named2 seen
      | _ => some (.ok (acc2, named2))
    | other => other
termination_by (unseen os seen, sizeOf node)
decreasing_by
  · obtain ⟨o, hm⟩ := getDictionary_mem hd
    exact Prod.Lex.left _ _ (unseen_lt os seen (a, b) o hm hs)
  · apply Prod.Lex.right
    have := Dict.sizeOf_get_lt hn
    simp at this; omega

/-- `get_outlines` after the node has been resolved. The recursion over `First` is UNGUARDED in
the code: `fuel` bounds its nesting depth only (the `Next` loop needs none). -/
def walkOutlines (os : Objects) : Nat → Dict → List Outline → Named → WalkRes
  | 0, _, _, _ => none
  | fuel + 1, node, acc, named =>
    nextLoop os (fun first nm =>
      match outlineNode os first with
      | none => some E
      | some sub => walkOutlines os fuel sub [] nm) node acc named []

/-- the destination name tree `get_outlines` loads first -/
def destTree (os : Objects) (cat : Dict) : Option Dict :=
  match getDictInDict os cat K_Dests with
  | some t => some t
  | none => (getDictInDict os cat K_Names).bind fun n => getDictInDict os n K_Dests

/-- `Document::get_outlines(None, None, &mut named)` -/
def getOutlines (trailer : Dict) (os : Objects) (fuel : Nat) : Option (Outcome (List Outline × Named)) :=
  match catalog trailer os with
  | none => some E
  | some cat =>
    match getDictInDict os cat K_Outlines with
    | none => some E
    | some outl =>
      let node := match getDictInDict os outl K_First with
        | some f => f
        | none => outl
      let named : Option (Outcome Named) := match destTree os cat with
        | none => some (.ok [])
        | some t => namedDests os fuel t []
      match named with
      | none => none
      | some (.err e) => some (.err e)
      | some (.panic s) => some (.panic s)
      | some (.ok nm) => walkOutlines os fuel node [] nm

/-! ### table of contents (src/toc.rs) -/

/-- `IndexMap::insert` -/
def tocInsert (k : Bytes) (v : ObjId × Nat) : List (Bytes × (ObjId × Nat)) → List (Bytes × (ObjId × Nat))
  | [] => [(k, v)]
  | (k', v') :: rest => if k' = k then (k, v) :: rest else (k', v') :: tocInsert k v rest

/- `setup_outline_page_ids`: title ↦ (page id, level) in `IndexMap` order; `none` = `Err` -/
mutual
def tocIdsOne (level : Nat) : Outline → List (Bytes × (ObjId × Nat)) → Option (List (Bytes × (ObjId × Nat)))
  | .dest d, acc =>
    match (d.get K_Title).bind Obj.asStr with
    | none => none
    | some title =>
      match (d.get PAGE).bind Obj.asRef with
      | none => none
      | some pid => some (tocInsert title (pid, level) acc)
  | .sub items, acc => tocIdsList (level + 1) items acc
def tocIdsList (level : Nat) : List Outline → List (Bytes × (ObjId × Nat)) → Option (List (Bytes × (ObjId × Nat)))
  | [], acc => some acc
  | o :: rest, acc =>
    match tocIdsOne level o acc with
    | none => none
    | some acc' => tocIdsList level rest acc'
end

/-- page number of a page id: the LAST position (1-based) at which `get_pages` lists it
(`setup_page_id_to_num` overwrites) -/
def pageNumOf (pages : List ObjId) (id : ObjId) : Option Nat :=
  (pages.zipIdx.foldl (fun (acc : Option Nat) (p : ObjId × Nat) => if p.1 = id then some (p.2 + 1) else acc) none)

/-- is the title reported as an error (`toc.errors`): UTF-16 BOM with odd length -/
def tocTitleBad (t : Bytes) : Bool :=
  match t with
  | 0xfe :: 0xff :: _ => t.length % 2 = 1
  | 0xff :: 0xfe :: _ => t.length % 2 = 1
  | _ => false

/-- `Document::get_toc`: the (level, page number) entries and the number of title errors -/
def getToc (memMax : Nat) (trailer : Dict) (os : Objects) (fuel : Nat) :
    Option (Outcome (List (Nat × Nat) × Nat)) :=
  match getOutlines trailer os fuel with
  | none => none
  | some (.err e) => some (.err e)
  | some (.panic s) => some (.panic s)
  | some (.ok (outlines, _)) =>
    match tocIdsList 1 outlines [] with
    | none => some E
    | some ids =>
      match getPages memMax trailer os with
      | .err e => some (.err e)
      | .panic s => some (.panic s)
      | .ok pages =>
        some (.ok (ids.foldl (fun (acc : List (Nat × Nat) × Nat) (p : Bytes × (ObjId × Nat)) =>
          match pageNumOf pages p.2.1 with
          | none => acc
          | some n => if tocTitleBad p.1 then (acc.1, acc.2 + 1) else (acc.1 ++ [(p.2.2, n)], acc.2)) ([], 0)))

end Lopdf.Q13
