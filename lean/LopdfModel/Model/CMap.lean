import LopdfModel.Model.Basic
import LopdfModel.Gen.CMapConsts
/-
  C15 — executable model of lopdf's ToUnicode CMap machinery.

  * `RangeMap`  : `rangemap::RangeInclusiveMap<u32, V>` (rangemap 1.8.0) as the list of
    its stored runs in key order (what iterating the inner `BTreeMap` yields).
    `rmInsert` is `insert`: runs strictly before / after the new range are kept,
    touching (overlapping or adjacent) runs with an EQUAL value are absorbed into the new
    range, touching runs with a different value are truncated or split.
    `rmGetKV` is `get_key_value`: the last run whose start is `<= key`, if it contains the key.
  * `UMap` = `ToUnicodeCMap.bf_ranges` (one range map per code length 1..4),
    `put`, `putChar`, `get`, `getOrReplacement`, `fromSections` as written in
    src/encodings/cmap.rs — stored targets carry the start of their own definition, `get` counts the
    offset from it (`as u16` truncation, wrapping `u16` add, checked `u32` subtraction, `.get()` indexing).
  * `segment` / `bytesToUnits` : the code segmentation loop of `Encoding::bytes_to_string`.
  * `decodeUnits` : `encoding_rs::UTF_16BE.decode_without_bom_handling` of the units.

  Codes are `u32` in Rust and `Nat` here; all theorems carry `code < 2^32` where it matters.
-/
namespace Lopdf.CMap
open Lopdf Lopdf.Gen

/-! ## rangemap::RangeInclusiveMap -/

/-- a stored run `lo..=hi ↦ v` -/
abbrev Run (V : Type) := Nat × Nat × V
/-- the stored runs in `BTreeMap` (start) order -/
abbrev RangeMap (V : Type) := List (Run V)

/-- `RangeInclusiveMap::insert(lo..=hi, v)` (caller guarantees `lo <= hi`). -/
def rmInsert {V : Type} [DecidableEq V] : RangeMap V → Nat → Nat → V → RangeMap V
  | [], lo, hi, v => [(lo, hi, v)]
  | (a, b, w) :: rest, lo, hi, v =>
    if b + 1 < lo then (a, b, w) :: rmInsert rest lo hi v            -- strictly before: untouched
    else if hi + 1 < a then (lo, hi, v) :: (a, b, w) :: rest          -- strictly after: done
    else if w = v then rmInsert rest (min a lo) (max b hi) v          -- touching, equal value: adopt
    else if a < lo then
      -- touching, different value: keep the piece left of the new range …
      if hi < b then (a, lo - 1, w) :: (lo, hi, v) :: (hi + 1, b, w) :: rest   -- … and the piece right of it
      else (a, lo - 1, w) :: rmInsert rest lo hi v
    else
      if hi < b then (lo, hi, v) :: (hi + 1, b, w) :: rest
      else rmInsert rest lo hi v

/-- last stored run whose start is `<= key` (`btm.range(..=key).next_back()`). -/
def rmLastLE {V : Type} : RangeMap V → Nat → Option (Run V)
  | [], _ => none
  | (a, b, w) :: rest, c =>
    if a ≤ c then
      match rmLastLE rest c with
      | some r => some r
      | none => some (a, b, w)
    else rmLastLE rest c

/-- `RangeInclusiveMap::get_key_value`. -/
def rmGetKV {V : Type} (m : RangeMap V) (c : Nat) : Option (Run V) :=
  match rmLastLE m c with
  | some (a, b, w) => if c ≤ b then some (a, b, w) else none
  | none => none

/-! ## ToUnicodeCMap -/

/-- `BfRangeTarget` -/
inductive Target where
  | hex (start : Nat) (v : List Nat)            -- HexString { start: u32, value: Vec<u16> }
  | cp (offset : Nat)                           -- UTF16CodePoint { offset: u32 }
  | arr (start : Nat) (vs : List (List Nat))    -- ArrayOfHexStrings { start: u32, values: Vec<Vec<u16>> }
  deriving DecidableEq, Repr

def U32 : Nat := 4294967296
def U16 : Nat := 65536

/-- `u32::wrapping_sub(a, b)` for `a, b < 2^32` -/
def wrappingSub (a b : Nat) : Nat := (a + U32 - b) % U32
/-- `u32::wrapping_add(a, b)` -/
def wrappingAdd (a b : Nat) : Nat := (a + b) % U32

/-- `bf_ranges`, indexed by the code length (1..4); other indices are never read or written. -/
abbrev UMap := Nat → RangeMap Target

def UMap.empty : UMap := fun _ => []

def badLen (len : Nat) : Bool := decide (len > CMAP_MAX_CODE_LEN) || decide (len = CMAP_BAD_CODE_LEN)

/-- `ToUnicodeCMap::put` -/
def put (m : UMap) (lo hi len : Nat) (t : Target) : UMap :=
  if badLen len then m
  else fun l => if l = len then rmInsert (m len) lo hi t else m l

/-- `ToUnicodeCMap::put_char` -/
def putChar (m : UMap) (code len : Nat) (dst : List Nat) : UMap :=
  match dst with
  | [u] => put m code code len (.cp (wrappingSub u code))
  | _ => put m code code len (.hex code dst)

/-- the closure of `get`: the value for `code` given the stored target of the run that contains it.
The stored target carries the start of its own definition; `code - start` is a `u32` subtraction with
overflow checks on, so the model makes the panic explicit (`cmap_get_no_panic` proves it unreachable). -/
def targetAt (code : Nat) : Target → Outcome (Option (List Nat))
  | .hex start v =>
    match v.getLast? with
    | none => .ok none                                           -- `ret_vec.last_mut()?`
    | some last =>
      if code < start then .panic CMAP_SITE_SUB_HEX
      else .ok (some (v.dropLast ++ [(last + (code - start) % U16) % U16]))   -- wrapping_add((code - start) as u16)
  | .cp off => .ok (some [wrappingAdd code off % U16])
  | .arr start vs =>
    if code < start then .panic CMAP_SITE_SUB_ARR
    else .ok vs[code - start]?                                   -- values.get(..).cloned()

/-- `ToUnicodeCMap::get` (`bf_ranges_map.get(&code)` = value of `get_key_value`) -/
def get (m : UMap) (code len : Nat) : Outcome (Option (List Nat)) :=
  if badLen len then .ok none
  else
    match rmGetKV (m len) code with
    | none => .ok none
    | some (_, _, t) => targetAt code t

/-- `ToUnicodeCMap::get_or_replacement_char` -/
def getOrReplacement (m : UMap) (code len : Nat) : Outcome (List Nat) :=
  match get m code len with
  | .ok (some v) => .ok v
  | .ok none => .ok [CMAP_REPLACEMENT_CHAR]
  | .err e => .err e
  | .panic s => .panic s

/-- `CMapSection` -/
inductive Section where
  | csRange (rs : List (Nat × Nat × Nat))
  | bfChar (ms : List ((Nat × Nat) × List Nat))
  | bfRange (ms : List ((Nat × Nat × Nat) × List (List Nat)))
  deriving Repr

/-- one `bfrange` line inside `from_sections`: `none` = `Err(InvalidCodeRange)` -/
def putRangeLine (m : UMap) (line : (Nat × Nat × Nat) × List (List Nat)) : Option UMap :=
  let ((start, stop, len), dsts) := line
  if stop < start then none
  else
    match dsts with
    | [] => none
    | [[u]] => some (put m start stop len (.cp (wrappingSub u start)))
    | [t] => some (put m start stop len (.hex start t))
    | _ => some (put m start stop len (.arr start dsts))

def putRangeLines : UMap → List ((Nat × Nat × Nat) × List (List Nat)) → Option UMap
  | m, [] => some m
  | m, l :: ls => match putRangeLine m l with
    | none => none
    | some m' => putRangeLines m' ls

def putCharLines : UMap → List ((Nat × Nat) × List Nat) → UMap
  | m, [] => m
  | m, ((code, len), dst) :: ls => putCharLines (putChar m code len dst) ls

/-- `ToUnicodeCMap::from_sections` (continuing from `m`; the Rust function starts from `new()`). -/
def fromSectionsFrom : UMap → List Section → Option UMap
  | m, [] => some m
  | m, .csRange _ :: ss => fromSectionsFrom m ss
  | m, .bfChar ms :: ss => fromSectionsFrom (putCharLines m ms) ss
  | m, .bfRange ms :: ss =>
    match putRangeLines m ms with
    | none => none
    | some m' => fromSectionsFrom m' ss

def fromSections (ss : List Section) : Option UMap := fromSectionsFrom UMap.empty ss

/-! ## Encoding::bytes_to_string — segmentation -/

/-- state of the loop: (bytes_in_considered_code, considered_source_code, output so far — reversed chunks) -/
def segStep (m : UMap) (st : Nat × Nat) (byte : Nat) : Outcome ((Nat × Nat) × List Nat) :=
  let (n, code) := st
  -- flush a 4-byte code that matched nothing
  let pre : Outcome ((Nat × Nat) × List Nat) :=
    if n = CMAP_SEG_MAX then
      match getOrReplacement m code CMAP_SEG_MAX with
      | .ok v => .ok ((0, 0), v)
      | .err e => .err e
      | .panic s => .panic s
    else .ok ((n, code), [])
  match pre with
  | .ok ((n, code), out) =>
    let n := n + 1
    let code := code * 256 + byte   -- u32 arithmetic; n ≤ 4 here, so the value stays below 256^4
    match get m code n with
    | .ok (some v) => .ok ((0, 0), out ++ v)
    | .ok none => .ok ((n, code), out)
    | .err e => .err e
    | .panic s => .panic s
  | .err e => .err e
  | .panic s => .panic s

/-- the `for byte in bytes` loop followed by the final flush; result = `output_bytes` (UTF-16 units). -/
def segLoop (m : UMap) : (Nat × Nat) → List Nat → Outcome (List Nat)
  | (n, code), [] =>
    if n > 0 then getOrReplacement m code n else .ok []
  | st, b :: bs =>
    match segStep m st b with
    | .ok (st', out) =>
      match segLoop m st' bs with
      | .ok rest => .ok (out ++ rest)
      | .err e => .err e
      | .panic s => .panic s
    | .err e => .err e
    | .panic s => .panic s

def bytesToUnits (m : UMap) (bytes : List Nat) : Outcome (List Nat) := segLoop m (0, 0) bytes

/-! ## UTF-16BE decoding as done by `encoding_rs::UTF_16BE.decode` (with BOM sniffing) -/

def isHighSur (u : Nat) : Bool := decide (0xD800 ≤ u) && decide (u ≤ 0xDBFF)
def isLowSur (u : Nat) : Bool := decide (0xDC00 ≤ u) && decide (u ≤ 0xDFFF)
def surScalar (h l : Nat) : Nat := 0x10000 + (h - 0xD800) * 0x400 + (l - 0xDC00)

/-- UTF-16 units → scalar values, the WHATWG UTF-16 decoder: state = pending lead surrogate;
an unpaired surrogate becomes U+FFFD. -/
def utf16Go : Option Nat → List Nat → List Nat
  | none, [] => []
  | some _, [] => [0xFFFD]
  | none, u :: rest =>
    if isHighSur u then utf16Go (some u) rest
    else if isLowSur u then 0xFFFD :: utf16Go none rest
    else u :: utf16Go none rest
  | some h, u :: rest =>
    if isLowSur u then surScalar h u :: utf16Go none rest
    else if isHighSur u then 0xFFFD :: utf16Go (some u) rest
    else 0xFFFD :: u :: utf16Go none rest

def utf16Scalars (us : List Nat) : List Nat := utf16Go none us

/-- `UTF_16BE.decode_without_bom_handling(bytes).0`: plain UTF-16BE decoding, nothing is sniffed or dropped. -/
def decodeUnits (us : List Nat) : List Nat := utf16Scalars us

end Lopdf.CMap
