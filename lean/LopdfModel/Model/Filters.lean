import LopdfModel.Model.Obj
import LopdfModel.Gen.Consts
import LopdfModel.Gen.Filters
/-
  C09 — executable model of lopdf's stream filters (src/object.rs `impl Stream`,
  src/filters/png.rs, `Document::{compress,decompress}` in src/processor.rs).
  Written by hand from the Rust source; every datum (filter names, keys, ranges,
  defaults, the compress margin) comes from `Gen/`.  flate2 and weezl are
  PARAMETERS (`Ext`), never re-implemented and never axiomatised.
-/
namespace Lopdf
open Gen


/-! ## ASCII85Decode — `Stream::decode_ascii85` -/

def A85_U32_MAX : Nat := 4294967295

/-- `u8::is_ascii_whitespace`: SPACE, TAB, LF, FF, CR (not VT, not NUL) -/
def isAsciiWhitespace (b : UInt8) : Bool := b == 32 || b == 9 || b == 10 || b == 12 || b == 13

/-- `if input.len() >= 2 && &input[input.len() - 2..] == b"~>" { &input[..input.len() - 2] } else { input }` -/
def stripEod (input : Bytes) : Bytes :=
  if 2 ≤ input.length ∧ input.drop (input.length - 2) = A85_EOD then input.take (input.length - 2) else input

/-- `u32::to_be_bytes` -/
def be4 (v : Nat) : Bytes :=
  [(v / 16777216 % 256).toUInt8, (v / 65536 % 256).toUInt8, (v / 256 % 256).toUInt8, (v % 256).toUInt8]

/-- `buffer.checked_mul(85)?.checked_add(d)?` on `u32`; `none` = the `DecompressError` -/
def a85Step (buf d : Nat) : Option Nat :=
  if buf * A85_BASE > A85_U32_MAX then none
  else if buf * A85_BASE + d > A85_U32_MAX then none
  else some (buf * A85_BASE + d)

/-- the padding loop `for _ in count..5` -/
def a85Pad : Nat → Nat → Option Nat
  | 0, buf => some buf
  | k + 1, buf => (a85Step buf A85_PAD).bind (a85Pad k)

/-- code after the main loop -/
def a85Finish (buf count : Nat) : Outcome Bytes :=
  if count > 0 then
    match a85Pad (5 - count) buf with
    | none => .err "ascii85 overflow"
    | some v => .ok ((be4 v).take (count - 1))
  else .ok []

/-- the main loop; the result is what is appended to `output` from here on -/
def a85Loop : Bytes → Nat → Nat → Outcome Bytes
  | [], buf, count => a85Finish buf count
  | ch :: rest, buf, count =>
    if ch = A85_Z then
      if count ≠ 0 then .err "z character is not allowed in the middle of a group"
      else (a85Loop rest buf count).map ([0, 0, 0, 0] ++ ·)
    else if isAsciiWhitespace ch then a85Loop rest buf count
    else if !(A85_LO ≤ ch && ch ≤ A85_HI) then a85Finish buf count     -- `break`
    else
      match a85Step buf (ch - A85_LO).toNat with
      | none => .err "ascii85 overflow"
      | some v =>
        if count + 1 = 5 then (a85Loop rest 0 0).map (be4 v ++ ·)
        else a85Loop rest v (count + 1)

def a85Decode (input : Bytes) : Outcome Bytes := a85Loop (stripEod input) 0 0

/-! ## PNG predictors — src/filters/png.rs -/

inductive PngFilter where | none | sub | up | avg | paeth
  deriving Repr, DecidableEq

def PngFilter.ofIdx : Nat → Option PngFilter
  | 0 => some .none | 1 => some .sub | 2 => some .up | 3 => some .avg | 4 => some .paeth
  | _ => Option.none

/-- `FilterType::try_from(u8)` -/
def PngFilter.ofByte (b : UInt8) : Option PngFilter :=
  (PNG_TYPE_BYTES.findIdx? (· == b)).bind PngFilter.ofIdx

/-- checked `i16` result (overflow checks are on): `none` = arithmetic panic -/
def i16 (x : Int) : Option Int := if -32768 ≤ x ∧ x ≤ 32767 then some x else none
/-- `i16::abs` -/
def i16abs (x : Int) : Option Int := if x = -32768 then none else some (if x < 0 then -x else x)

/-- `paeth_predict` with its `i16` arithmetic; `none` = overflow panic -/
def paethPredictO (left above upperleft : UInt8) : Option UInt8 := do
  let el : Int := left.toNat
  let ea : Int := above.toNat
  let eu : Int := upperleft.toNat
  let s ← i16 (el + ea)
  let init ← i16 (s - eu)
  let dl ← (i16 (init - el)).bind i16abs
  let da ← (i16 (init - ea)).bind i16abs
  let du ← (i16 (init - eu)).bind i16abs
  pure (if dl ≤ da ∧ dl ≤ du then left else if da ≤ du then above else upperleft)

/-- value of `paeth_predict` (theorem `paeth_eq_spec`: the `none` case never occurs) -/
def paethPredict (left above upperleft : UInt8) : UInt8 := (paethPredictO left above upperleft).getD 0

/-- the value `decode_row` adds to the filtered byte `x` at position `i`;
`done` = the bytes `0..i` of `current`, already decoded (the loops run left to right
and `current[i - bpp]` has been finalised when `i` is reached). `bpp` is already
`bpp.min(len)`; for `bpp = 0` the code reads `current[i]` itself, not yet updated. -/
def rowPred (t : PngFilter) (bpp : Nat) (prev done : Bytes) (i : Nat) (x : UInt8) : UInt8 :=
  let left := if bpp = 0 then x else done.getD (i - bpp) 0
  match t with
  | .none => 0
  | .sub => if i < bpp then 0 else left
  | .up => prev.getD i 0
  | .avg =>
    if i < bpp then prev.getD i 0 / 2
    else ((left.toNat + (prev.getD i 0).toNat) / 2).toUInt8
  | .paeth =>
    if i < bpp then paethPredict 0 (prev.getD i 0) 0
    else paethPredict left (prev.getD i 0) (prev.getD (i - bpp) 0)

def rowLoop (t : PngFilter) (bpp : Nat) (prev : Bytes) : Nat → Bytes → Bytes → Bytes
  | _, done, [] => done
  | i, done, x :: rest => rowLoop t bpp prev (i + 1) (done ++ [x + rowPred t bpp prev done i x]) rest

/-- `decode_row` (for `previous.len() >= current.len()`) -/
def decodeRow (t : PngFilter) (bpp : Nat) (prev cur : Bytes) : Bytes :=
  rowLoop t (min bpp cur.length) prev 0 [] cur

/-- `decode_row` as a public function: `previous[i]` is indexed for every `i < len`
by Up, Avg and Paeth — a shorter `previous` is a slice-index panic. -/
def decodeRowO (t : PngFilter) (bpp : Nat) (prev cur : Bytes) : Outcome Bytes :=
  if (t = .up ∨ t = .avg ∨ t = .paeth) ∧ prev.length < cur.length then .panic "png.rs index"
  else .ok (decodeRow t bpp prev cur)

def FLT_USIZE_MAX : Nat := 18446744073709551615
def FLT_ISIZE_MAX : Nat := 9223372036854775807

/-- the `while pos < content.len()` loop of `decode_frame` -/
def frameLoop (bpp rowLen : Nat) (content prev : Bytes) : Outcome Bytes :=
  match content with
  | [] => .ok []
  | t :: rest =>
    match PngFilter.ofByte t with
    | Option.none => .err "invalid PNG filter type"
    | some ft =>
      if rest.length < rowLen then .err "failed to fill whole buffer"
      else
        let cur := decodeRow ft bpp prev (rest.take rowLen)
        (frameLoop bpp rowLen (rest.drop rowLen) cur).map (cur ++ ·)
termination_by content.length
decreasing_by simp; omega

/-- `decode_frame` (usize = 64 bit; `try_reserve` beyond `isize::MAX` is an error;
allocation failure below that is not modelled) -/
def decodeFrame (content : Bytes) (bpp ppr : Nat) : Outcome Bytes :=
  if bpp * ppr > FLT_USIZE_MAX then .err "PNG row length is out of range"          -- `checked_mul` (fix 1aee36f)
  else if bpp * ppr > FLT_ISIZE_MAX then .err "capacity overflow"
  else frameLoop bpp (bpp * ppr) content (List.replicate (bpp * ppr) 0)

/-! ## `decompress_predictor` -/

/-- `params.get(key).and_then(Object::as_i64).unwrap_or(dflt)` -/
def getI64Or (d : Dict) (k : Bytes) (dflt : Int) : Int :=
  match (d.get k).bind Obj.asInt with
  | some v => v
  | none => dflt

structure PredGeom where
  predictor : Int
  columns : Nat
  colors : Nat
  bits : Nat
  deriving Repr, DecidableEq

def predGeom (p : Dict) : PredGeom :=
  { predictor := getI64Or p K_PREDICTOR PREDICTOR_DEFAULT
    columns := (max COLUMNS_MIN (getI64Or p K_COLUMNS COLUMNS_DEFAULT)).toNat
    colors := (max COLORS_MIN (getI64Or p K_COLORS COLORS_DEFAULT)).toNat
    bits := (max BITS_MIN (getI64Or p K_BITS BITS_DEFAULT)).toNat }

def PredGeom.active (g : PredGeom) : Bool := PNG_LO ≤ g.predictor && g.predictor ≤ PNG_HI
def PredGeom.bpp (g : PredGeom) : Nat := g.colors * g.bits / BPP_DIV

def decompressPredictor (data : Bytes) (params : Option Dict) : Outcome Bytes :=
  match params with
  | none => .ok data
  | some p =>
    let g := predGeom p
    if g.active then
      if g.colors * g.bits > FLT_USIZE_MAX then .err "predictor parameters are out of range"   -- `checked_mul` (fix 1aee36f)
      else decodeFrame data g.bpp g.columns
    else .ok data

/-! ## the filter chain — `Stream::{filters, decompressed_content, get_plain_content}` -/

/-- results of the external decoders as lopdf calls them: `flate2::read::ZlibDecoder::read_to_end`
(an error is only logged; what was read stays in the buffer) and `weezl` `decode_all` with
(`true`) / without (`false`) the TIFF size switch (error only logged). -/
structure Ext where
  inflate : Bytes → Bytes
  lzw : Bool → Bytes → Bytes

structure Strm where
  dict : Dict
  content : Bytes
  deriving Repr

/-- `Stream::filters`; `none` = `Err` -/
def streamFilters (d : Dict) : Option (List Bytes) :=
  match d.get K_FILTER with
  | none => none
  | some (.name n) => some [n]
  | some (.arr items) => items.mapM Obj.asName
  | some _ => none

/-- parameters of stage `i` (`decompressed_content`, since the repair of F-C09-b): a DICTIONARY holds the
parameters of every stage; an ARRAY is parallel to the filters — its `i`-th element, when that is a dictionary
(`null`, anything else, or a missing element: no parameters); any other object: no parameters. -/
def stageParms (d : Dict) (i : Nat) : Option Dict :=
  match d.get K_DECODEPARMS with
  | some (.dict p) => some p
  | some (.arr items) => (items[i]?).bind Obj.asDict
  | _ => none

def earlyChange (params : Option Dict) : Bool :=
  match (params.bind (fun p => p.get K_EARLYCHANGE)).bind Obj.asInt with
  | some v => v != 0
  | none => true

def applyFilter (ext : Ext) (params : Option Dict) (name input : Bytes) : Outcome Bytes :=
  if name = F_FLATE then decompressPredictor (if input.isEmpty then [] else ext.inflate input) params
  else if name = F_LZW then decompressPredictor (ext.lzw (earlyChange params) input) params
  else if name = F_A85 then a85Decode input
  else .err "unimplemented"

/-- the `for (index, filter) in filters.into_iter().enumerate()` loop: `output` of one stage is the `input`
of the next; stage `index` is decoded with `parms index`. -/
def filterLoop (ext : Ext) (parms : Nat → Option Dict) : Nat → List Bytes → Bytes → Outcome Bytes
  | _, [], output => .ok output
  | i, f :: fs, input => (applyFilter ext (parms i) f input).bind (filterLoop ext parms (i + 1) fs)

def decompressedContent (ext : Ext) (s : Strm) : Outcome Bytes :=
  match streamFilters s.dict with
  | none => .err "filter"
  | some [] => .ok s.content                -- an empty filter array: the content is not encoded at all (lopdf 70e5e99)
  | some fs => filterLoop ext (stageParms s.dict) 0 fs s.content

def getPlainContent (ext : Ext) (s : Strm) : Outcome Bytes :=
  match streamFilters s.dict with
  | some (_ :: _) => decompressedContent ext s
  | _ => .ok s.content

def isCompressed (s : Strm) : Bool := s.dict.has K_FILTER

/-! ## content-changing operations -/

def lenObj (c : Bytes) : Obj := .int c.length

/-- `Stream::set_content` -/
def setContent (s : Strm) (c : Bytes) : Strm := { dict := s.dict.set K_LENGTH (lenObj c), content := c }

def removeKeysSeq (d : Dict) : List Bytes → Dict
  | [] => d
  | k :: ks => removeKeysSeq (d.remove k) ks

/-- `Stream::set_plain_content` -/
def setPlainContent (s : Strm) (c : Bytes) : Strm :=
  { dict := (removeKeysSeq s.dict (SET_PLAIN_KEYS.take 2)).set (SET_PLAIN_KEYS.getD 2 []) (lenObj c), content := c }

/-- `Stream::compress`; `deflate` = `ZlibEncoder::new(_, Compression::best())` + `finish`.
Since fix 7763e3b a (stale) `DecodeParms` entry is removed before `Filter` is set. -/
def compress (deflate : Bytes → Bytes) (s : Strm) : Strm :=
  if s.dict.has COMPRESS_GUARD_KEY then s
  else
    let c := deflate s.content
    if c.length + COMPRESS_MARGIN < s.content.length then
      setContent { s with dict := (s.dict.remove COMPRESS_REMOVE_KEY).set COMPRESS_SET_KEY (.name COMPRESS_SET_NAME) } c
    else s

/-- `Stream::decompress` -/
def decompress (ext : Ext) (s : Strm) : Outcome Strm :=
  (decompressedContent ext s).map (fun data => setContent { s with dict := removeKeysSeq s.dict DECOMPRESS_KEYS } data)

/-- `Document::compress`: every stream object with `allows_compression` -/
def docCompress (deflate : Bytes → Bytes) (allows : ObjId → Bool) (os : Objects) : Objects :=
  os.map fun (id, o) =>
    match o with
    | .stream d c => if allows id then let s := compress deflate ⟨d, c⟩; (id, .stream s.dict s.content) else (id, o)
    | _ => (id, o)

/-- `Document::decompress`: every stream object; errors are ignored (object unchanged) -/
def docDecompress (ext : Ext) (os : Objects) : Objects :=
  os.map fun (id, o) =>
    match o with
    | .stream d c =>
      match decompress ext ⟨d, c⟩ with
      | .ok s => (id, .stream s.dict s.content)
      | _ => (id, o)
    | _ => (id, o)

end Lopdf
