import LopdfModel.Model.Obj
import LopdfModel.Gen.Consts
/-
  Model of `Writer::{write_object, write_name, write_string, write_array,
  write_dictionary, write_stream, need_separator, need_end_separator}`
  (src/writer.rs). Output bytes are meant to be *identical* to the real
  writer's (checked by the `write_obj` correspondence).
-/
namespace Lopdf
open Gen

/-- `{:02X}` -/
def hex2U (b : UInt8) : Bytes := [hexDigitU (b >>> 4), hexDigitU (b &&& 15)]

/-- `write_name` escapes this byte as `#XX`. -/
def nameEscaped (b : UInt8) : Bool :=
  NAME_ESCAPED.contains b || !(NAME_RAW_LO ≤ b.toNat && b.toNat ≤ NAME_RAW_HI)

def writeNameBody : Bytes → Bytes
  | [] => []
  | b :: rest => (if nameEscaped b then 35 :: hex2U b else [b]) ++ writeNameBody rest

/-- `Writer::write_name` -/
def writeName (n : Bytes) : Bytes := 47 :: writeNameBody n

/-- `itoa` of an `i64` / `Display` of integers -/
def writeInt (i : Int) : Bytes :=
  match i with
  | .ofNat n => natDigits n
  | .negSucc n => 45 :: natDigits (n + 1)

/- literal strings: first pass of `write_string` — indices to escape.
`scan idx stack acc text`: `stack` = indices of currently unmatched '(' (innermost first),
`acc` = indices to escape collected so far. -/
def litScan : Nat → List Nat → List Nat → Bytes → List Nat
  | _, stack, acc, [] => acc ++ stack
  | i, stack, acc, b :: rest =>
    if b = 40 then
      if stack.length ≥ MAX_BRACKET then litScan (i + 1) stack (i :: acc) rest
      else litScan (i + 1) (i :: stack) acc rest
    else if b = 41 then
      match stack with
      | _ :: st => litScan (i + 1) st acc rest
      | [] => litScan (i + 1) [] (i :: acc) rest
    else if b = 92 || b = 13 then litScan (i + 1) stack (i :: acc) rest
    else litScan (i + 1) stack acc rest

/-- second pass: emit with a backslash before escaped indices, CR as `\r` -/
def litEmit (esc : List Nat) : Nat → Bytes → Bytes
  | _, [] => []
  | i, b :: rest =>
    (if esc.contains i then [92, if b = 13 then 114 else b] else [b]) ++ litEmit esc (i + 1) rest

def writeHexBody : Bytes → Bytes
  | [] => []
  | b :: rest => hex2U b ++ writeHexBody rest

/-- `Writer::write_string` -/
def writeString (s : Bytes) : StrFmt → Bytes
  | .lit => [40] ++ litEmit (litScan 0 [] [] s) 0 s ++ [41]
  | .hex => [60] ++ writeHexBody s ++ [62]

/-- `Real(value)` branch of `write_object`: `Display` text, with `.0` appended when the VALUE is
outside the i64 range (`value >= 2^63 || value < -2^63`). `t` is the `Display` text of a finite
f32 `v` (shortest decimal that rounds to `v`), so the test on `v` is a test on the text:
`v ≥ 2^63` iff the text denotes ≥ 2^63 − 2^38 (the midpoint below 2^63, ties to even go up), and
`v < −2^63` iff its magnitude is > 2^63 + 2^39 (the midpoint above 2^63, ties to even go down).
Such values are integral and their text has no `.`. -/
def writeReal (t : Bytes) : Bytes :=
  let outside : Bool := match t with
    | 45 :: ds => ds.all isDigit && digitsVal ds > 9223372586610589696
    | ds => ds.all isDigit && digitsVal ds ≥ 9223371761976868864
  if outside then t ++ [46, 48] else t

/-- `Writer::need_separator` -/
def needSeparator : Obj → Bool
  | .null | .bool _ | .int _ | .real _ | .ref _ _ => true
  | _ => false

/-- `Writer::need_end_separator` -/
def needEndSeparator : Obj → Bool
  | .null | .bool _ | .int _ | .real _ | .name _ | .ref _ _ | .stream _ _ => true
  | _ => false

def STREAM_KW : Bytes := [115, 116, 114, 101, 97, 109, 10]                 -- "stream\n"
def ENDSTREAM_KW : Bytes := [10, 101, 110, 100, 115, 116, 114, 101, 97, 109] -- "\nendstream"

mutual
/-- `Writer::write_object` -/
def writeObj : Obj → Bytes
  | .null => [110, 117, 108, 108]
  | .bool true => [116, 114, 117, 101]
  | .bool false => [102, 97, 108, 115, 101]
  | .int i => writeInt i
  | .real t => writeReal t
  | .name n => writeName n
  | .str s f => writeString s f
  | .arr items => [91] ++ writeArr true items ++ [93]
  | .dict es => [60, 60] ++ writeDictBody es ++ [62, 62]
  | .stream es c => [60, 60] ++ writeDictBody es ++ [62, 62] ++ STREAM_KW ++ c ++ ENDSTREAM_KW
  | .ref n g => natDigits n ++ [32] ++ natDigits g ++ [32, 82]
/-- `write_array` loop; `first` = no separator before the first item -/
def writeArr : Bool → List Obj → Bytes
  | _, [] => []
  | first, o :: rest =>
    (if !first && needSeparator o then [32] else []) ++ writeObj o ++ writeArr false rest
/-- `write_dictionary` loop -/
def writeDictBody : List (Bytes × Obj) → Bytes
  | [] => []
  | (k, v) :: rest =>
    writeName k ++ (if needSeparator v then [32] else []) ++ writeObj v ++ writeDictBody rest
end

/-- `Writer::write_indirect_object` (bytes only; the xref bookkeeping is in `Model/File`) -/
def writeIndirect (num gen : Nat) (o : Obj) : Bytes :=
  natDigits num ++ [32] ++ natDigits gen ++ [32, 111, 98, 106, 10] ++
  (if needSeparator o then [32] else []) ++ writeObj o ++
  (if needEndSeparator o then [32] else []) ++ [10, 101, 110, 100, 111, 98, 106, 10]

end Lopdf
