import LopdfModel.Model.Renumber
import LopdfModel.Model.Filters
/-
  C11 — the public editing calls as a state machine `step : Doc → Op → Outcome (Doc × Out)`:
  new_object_id, add_object, set_object (src/creator.rs); delete_object, prune_objects,
  delete_zero_length_streams, delete_pages, renumber_objects_with (src/processor.rs);
  add_page_contents (src/document.rs).  Each as written, including what `delete_object`'s
  action does NOT look at (direct entries of the trailer and of stream dictionaries, later
  duplicates in an array).
-/
namespace Lopdf

/-! ### `delete_object`'s action -/

def isRefTo (id : ObjId) : Obj → Bool
  | .ref n g => (n, g) = id
  | _ => false

/-- `if let Some(index) = array.iter().position(is ref to id) { array.remove(index) }` — the FIRST match only -/
def eraseFirstRef (id : ObjId) : List Obj → List Obj
  | [] => []
  | x :: xs => if isRefTo id x then xs else x :: eraseFirstRef id xs

/-- `for key in keys { dict.remove(&key) }` with `keys` = all keys whose value is a reference to `id`
(collected first, in order); `remove` is `swap_remove`. -/
def removeKeys (d : Dict) (ks : List Bytes) : Dict := ks.foldl Dict.remove d

/-- `strip_dict`: remove every direct entry whose value is a reference to `id` -/
def stripDict (id : ObjId) (es : Dict) : Dict := removeKeys es ((es.filter (fun kv => isRefTo id kv.2)).map (·.1))

/-- since the fix of F-C11-a: EVERY array occurrence, plain dictionaries and a stream's own dictionary -/
def delFn (id : ObjId) : Obj → Obj
  | .arr items => .arr (items.filter (fun o => !isRefTo id o))
  | .dict es => .dict (stripDict id es)
  | .stream es c => .stream (stripDict id es) c
  | o => o

theorem sizeL_filter (p : Obj → Bool) (items : List Obj) : Obj.sizeL (items.filter p) ≤ Obj.sizeL items := by
  induction items with
  | nil => simp
  | cons x xs ih =>
    simp only [List.filter_cons]; split
    · simp only [Obj.sizeL]; omega
    · simp only [Obj.sizeL]; omega

theorem sizeL_eraseFirstRef (id : ObjId) (items : List Obj) : Obj.sizeL (eraseFirstRef id items) ≤ Obj.sizeL items := by
  induction items with
  | nil => simp [eraseFirstRef]
  | cons x xs ih =>
    simp only [eraseFirstRef]; split
    · simp only [Obj.sizeL]; omega
    · simp only [Obj.sizeL]; omega

theorem sizeD_append (a b : Dict) : Obj.sizeD (a ++ b) = Obj.sizeD a + Obj.sizeD b := by
  induction a with
  | nil => simp [Obj.sizeD]
  | cons p rest ih => obtain ⟨k, v⟩ := p; simp [Obj.sizeD, ih]; omega

theorem sizeD_set_le (d : List (Bytes × Obj)) (i : Nat) (kv : Bytes × Obj) :
    Obj.sizeD (List.set d i kv) ≤ Obj.sizeD d + (1 + kv.2.size) := by
  induction d generalizing i with
  | nil => simp [Obj.sizeD]
  | cons p rest ih =>
    obtain ⟨k, v⟩ := p
    cases i with
    | zero => obtain ⟨k2, v2⟩ := kv; simp [List.set, Obj.sizeD]; omega
    | succ j => simp only [List.set, Obj.sizeD]; have := ih j; omega

theorem sizeD_dropLast_getLast (d : List (Bytes × Obj)) (last : Bytes × Obj) (h : d.getLast? = some last) :
    Obj.sizeD d = Obj.sizeD d.dropLast + (1 + last.2.size) := by
  obtain ⟨ys, rfl⟩ := List.getLast?_eq_some_iff.mp h
  obtain ⟨k, v⟩ := last
  simp [sizeD_append, Obj.sizeD]

theorem sizeD_remove (d : Dict) (k : Bytes) : Obj.sizeD (d.remove k) ≤ Obj.sizeD d := by
  unfold Dict.remove
  split
  · exact Nat.le_refl _
  · split
    · exact Nat.le_refl _
    · rename_i _ i _ _ last hl
      have := sizeD_dropLast_getLast d last hl
      simp only
      split
      · omega
      · have := sizeD_set_le (List.dropLast d) i last; omega

theorem sizeD_removeKeys (d : Dict) (ks : List Bytes) : Obj.sizeD (removeKeys d ks) ≤ Obj.sizeD d := by
  induction ks generalizing d with
  | nil => simp [removeKeys]
  | cons k rest ih =>
    simp only [removeKeys, List.foldl_cons]
    exact Nat.le_trans (ih (d.remove k)) (sizeD_remove d k)

theorem delFn_size (id : ObjId) (o : Obj) : (delFn id o).size ≤ o.size := by
  cases o <;> simp [delFn, Obj.size, stripDict]
  · exact sizeL_filter _ _
  · exact sizeD_removeKeys _ _
  · exact sizeD_removeKeys _ _

def delAct (id : ObjId) : Action := ⟨delFn id, delFn_size id⟩

/-- `|_| {}` -/
def idAct : Action := ⟨fun o => o, fun _ => Nat.le_refl _⟩

/-! ### the operations -/

inductive Op where
  | newId
  | add (o : Obj)
  | set (id : ObjId) (o : Obj)
  | del (id : ObjId)
  | prune
  | delZero
  | renumber (start : Nat)
  | delPages (nums : List Nat)
  | addContent (page : ObjId) (content : Bytes)
  | removeAnnot (id : ObjId)
  | addXObject (page : ObjId) (name : Bytes) (xid : ObjId)
  | addGState (page : ObjId) (name : Bytes) (gid : ObjId)
  | changeStream (sid : ObjId) (content deflated : Bytes)
  | changePage (page : ObjId) (content deflated : Bytes)
  | compress (deflate : Bytes → Bytes)
  | decompress (ext : Ext)

inductive Out where
  | unit
  | id (i : ObjId)
  | obj (o : Option Obj)
  | ids (l : List ObjId)
  | err

/-- `Document::delete_object` -/
def deleteObject (d : Doc) (id : ObjId) : Doc × Option Obj :=
  -- references held directly in the trailer are stripped first (they are not values of a visited object)
  let r := traverse (delAct id) (stripDict id d.trailer) d.objects
  ({ d with trailer := r.1, objects := r.2.1.remove id }, r.2.1.get id)

/-- `Document::prune_objects` -/
def pruneObjects (d : Doc) : Doc × List ObjId :=
  let r := traverse idAct d.trailer d.objects
  let ids := r.2.1.keys.filter (fun k => !r.2.2.contains k)
  ({ d with trailer := r.1, objects := ids.foldl Objects.remove r.2.1 }, ids)

def isEmptyStream : Option Obj → Bool
  | some (.stream _ c) => c.isEmpty
  | _ => false

/-- `Document::delete_zero_length_streams` -/
def deleteZeroLengthStreams (d : Doc) : Doc × List ObjId :=
  let ids := d.objects.keys.filter (fun k => isEmptyStream (d.objects.get k))
  (ids.foldl (fun d id => (deleteObject d id).1) d, ids)

def COUNT : Bytes := [67, 111, 117, 110, 116]
def PARENT : Bytes := [80, 97, 114, 101, 110, 116]
def CONTENTS : Bytes := [67, 111, 110, 116, 101, 110, 116, 115]
def LENGTHE : Bytes := [76, 101, 110, 103, 116, 104]

/-- decrement `Count` of one `Pages` dictionary, if it has an integer one -/
def decCount (pt : Dict) : Dict :=
  match (Dict.get pt COUNT).bind Obj.asInt with
  | some c => Dict.set pt COUNT (.int (c - 1))
  | none => pt

theorem unvisited_cons_lt (os : Objects) (seen : List ObjId) (id : ObjId) (v : Obj)
    (hk : id ∈ os.keys) (hs : seen.contains id = false) :
    unvisited (os.set id v) (id :: seen) < unvisited os seen := by
  unfold unvisited
  rw [Objects.keys_set]
  apply filter_length_lt _ _ _ id hk
  · simpa using hs
  · simp
  · intro y hy
    simp only [Bool.not_eq_true', List.contains_eq_mem, decide_eq_false_iff_not, List.mem_cons, not_or] at hy ⊢
    exact hy.2

/-- the `while let Ok(page_tree_id) = page_tree_ref` loop of `delete_pages` with its seen-set (fix of
F-C11-c): an ancestor id met a second time ends the walk. No fuel: every iteration marks an object that
had not been marked before. -/
def decCounts (os : Objects) (seen : List ObjId) (r : Option ObjId) : Objects :=
  match r with
  | none => os
  | some id =>
    if hs : seen.contains id then os
    else
      match hg : os.get id with
      | some (.dict pt) =>
        decCounts (os.set id (.dict (decCount pt))) (id :: seen) ((Dict.get (decCount pt) PARENT).bind Obj.asRef)
      | _ => os
termination_by unvisited os seen
decreasing_by
  exact unvisited_cons_lt os seen id _ (Objects.mem_keys_of_get hg) (by simpa using hs)

theorem decCounts_none (os : Objects) (seen : List ObjId) : decCounts os seen none = os := by rw [decCounts]

theorem decCounts_seen (os : Objects) (seen : List ObjId) (id : ObjId) (hs : seen.contains id = true) :
    decCounts os seen (some id) = os := by
  rw [decCounts]; simp only [hs, dite_true]

theorem decCounts_dict (os : Objects) (seen : List ObjId) (id : ObjId) (pt : Dict)
    (hs : seen.contains id = false) (hg : os.get id = some (.dict pt)) :
    decCounts os seen (some id) =
      decCounts (os.set id (.dict (decCount pt))) (id :: seen) ((Dict.get (decCount pt) PARENT).bind Obj.asRef) := by
  rw [decCounts]
  simp only [hs, Bool.false_eq_true, dite_false]
  split
  · rename_i pt' hg'; rw [hg] at hg'; cases hg'; rfl
  · rename_i hne; exact absurd hg (hne pt)

theorem decCounts_other (os : Objects) (seen : List ObjId) (id : ObjId)
    (hs : seen.contains id = false) (hg : ∀ pt, os.get id ≠ some (.dict pt)) :
    decCounts os seen (some id) = os := by
  rw [decCounts]
  simp only [hs, Bool.false_eq_true, dite_false]

/-- one iteration of `delete_pages`: delete page number `n` (of the page list taken at entry), then
decrement the `Count` of its ancestors -/
def deletePage1 (pages : List ObjId) (d : Doc) (n : Nat) : Doc :=
  match (if n = 0 then none else pages[n - 1]?) with
  | none => d
  | some pid =>
    match deleteObject d pid with
    | (d', some page) =>
      let parent := (page.asDict.bind fun pd => Dict.get pd PARENT).bind Obj.asRef
      { d' with objects := decCounts d'.objects [] parent }
    | (d', none) => d'

/-- `Document::delete_pages` -/
def deletePages (d : Doc) (nums : List Nat) : Doc :=
  let pages := pageIter d.trailer d.objects
  nums.foldl (fun acc n => deletePage1 pages acc n) d

/-- id of the last object of a reference chain (`dereference`'s first component, or the start id) -/
def derefIdAux (os : Objects) : Nat → ObjId → Obj → Option ObjId
  | n, _, .ref a b =>
    match os.get (a, b) with
    | none => none
    | some o' => match n with
      | 0 => none
      | n + 1 => derefIdAux os n (a, b) o'
  | _, cur, _ => some cur

/-- `get_object_mut(id)`: the id whose object is finally borrowed (last id of the reference chain) -/
def objectMutId (os : Objects) (id : ObjId) : Option ObjId :=
  (os.get id).bind fun o => derefIdAux os Gen.DEREF_LIMIT id o

/-- `self.get_object_mut(id).and_then(Object::as_dict_mut)` followed by `dict.set(key, value)` -/
def setDictEntry (d : Doc) (id : ObjId) (key : Bytes) (v : Obj) : Doc × Out :=
  match objectMutId d.objects id with
  | none => (d, .err)
  | some target =>
    match d.objects.get target with
    | some (.dict pd) => ({ d with objects := d.objects.set target (.dict (Dict.set pd key v)) }, .unit)
    | _ => (d, .err)

/-- the current content list as `add_page_contents` reads it -/
def contentsList (page : Dict) : List Obj :=
  match Dict.get page CONTENTS with
  | some (.ref n g) => [.ref n g]
  | some (.arr a) => a
  | _ => []

/-- `Document::add_object` -/
def addObject (d : Doc) (o : Obj) : Doc := { d with maxId := d.maxId + 1, objects := d.objects.insert (d.maxId + 1, 0) o }

/-- `Stream::new(dict, content)` -/
def streamNew (dict : Dict) (content : Bytes) : Obj := .stream (Dict.set dict LENGTHE (.int content.length)) content

/-- `Document::add_page_contents` -/
def addPageContents (d : Doc) (pageId : ObjId) (content : Bytes) : Outcome (Doc × Out) :=
  match getDictionary d.objects pageId with
  | none => .ok (d, .err)
  | some page =>
    if d.maxId + 1 > U32_MAXE then .panic "add" else
    .ok (setDictEntry (addObject d (streamNew [] content)) pageId CONTENTS
          (.arr (contentsList page ++ [.ref (d.maxId + 1) 0])))

/-! ### annotations, resources, content replacement -/

def kAnnots : Bytes := [65, 110, 110, 111, 116, 115]
def kResources : Bytes := [82, 101, 115, 111, 117, 114, 99, 101, 115]
def kXObject : Bytes := [88, 79, 98, 106, 101, 99, 116]
def kExtGState : Bytes := [69, 120, 116, 71, 83, 116, 97, 116, 101]
def kFilter : Bytes := [70, 105, 108, 116, 101, 114]
def kDecodeParms : Bytes := [68, 101, 99, 111, 100, 101, 80, 97, 114, 109, 115]
def kFlateDecode : Bytes := [70, 108, 97, 116, 101, 68, 101, 99, 111, 100, 101]

/-- `annots.retain(|o| o is not a reference to id)` -/
def retainNotRef (id : ObjId) (a : List Obj) : List Obj := a.filter (fun o => !isRefTo id o)

/-- `Document::remove_object` (removes an annotation reference from every page's `Annots`); the first
page whose (dereferenced) object is no dictionary or has no direct `Annots` array ends the call with `Err` -/
def removeAnnot (id : ObjId) : List ObjId → Doc → Doc × Out
  | [], d => (d, .unit)
  | pid :: rest, d =>
    match objectMutId d.objects pid with
    | none => (d, .err)
    | some t =>
      match d.objects.get t with
      | some (.dict pd) =>
        match Dict.get pd kAnnots with
        | some (.arr a) =>
          removeAnnot id rest { d with objects := d.objects.set t (.dict (Dict.set pd kAnnots (.arr (retainNotRef id a)))) }
        | _ => (d, .err)
      | _ => (d, .err)

/-- where `get_or_create_resources` found the resource object: an object of its own, or the direct
`Resources` entry of the page dictionary stored at `page` -/
inductive ResLoc where
  | obj (id : ObjId)
  | entry (page : ObjId)

def readLoc (os : Objects) : ResLoc → Option Obj
  | .obj id => os.get id
  | .entry t => match os.get t with
    | some (.dict pd) => Dict.get pd kResources
    | _ => none

def writeLoc (os : Objects) (loc : ResLoc) (v : Obj) : Objects :=
  match loc with
  | .obj id => os.set id v
  | .entry t => match os.get t with
    | some (.dict pd) => os.set t (.dict (Dict.set pd kResources v))
    | _ => os

/-- `Document::inherited_resources`: the nearest `Resources` entry up the `Parent` chain (direct
dictionary or reference to one). The code guards against cycles with a seen-set; a chain of distinct
existing ids is at most `|objects|` long, so the bound below is exact. -/
def inheritedResAux (os : Objects) : Nat → Option ObjId → Option Dict
  | 0, _ => none
  | _, none => none
  | fuel + 1, some id =>
    match getDictionary os id with
    | none => none
    | some anc =>
      match Dict.get anc kResources with
      | some (.ref n g) => getDictionary os (n, g)
      | some (.dict r) => some r
      | some _ => none
      | none => inheritedResAux os fuel ((Dict.get anc PARENT).bind Obj.asRef)

def inheritedRes (os : Objects) (node : Dict) : Dict :=
  (inheritedResAux os (os.length + 1) ((Dict.get node PARENT).bind Obj.asRef)).getD []

/-- `Document::get_or_create_resources`; `none` = `Err` -/
def getOrCreateResources (d : Doc) (pageId : ObjId) : Option (Doc × ResLoc) :=
  match getDictionary d.objects pageId with
  | none => none
  | some page =>
    let resId := if Dict.has page kResources then (Dict.get page kResources).bind Obj.asRef else none
    match resId with
    | some rid => (objectMutId d.objects rid).map fun t => (d, .obj t)
    | none =>
      match objectMutId d.objects pageId with
      | none => none
      | some t =>
        match d.objects.get t with
        | some (.dict pd) =>
          if Dict.has pd kResources then some (d, .entry t)
          else some ({ d with objects := d.objects.set t (.dict (Dict.set pd kResources (.dict (inheritedRes d.objects page)))) }, .entry t)
        | _ => none

/-- `Document::add_xobject` -/
def addXObject (d : Doc) (pageId : ObjId) (name : Bytes) (xid : ObjId) : Doc × Out :=
  match getOrCreateResources d pageId with
  | none => (d, .unit)
  | some (d1, loc) =>
    match readLoc d1.objects loc with
    | some (.dict res) =>
      let res1 := if Dict.has res kXObject then res else Dict.set res kXObject (.dict [])
      match Dict.get res1 kXObject with
      | some (.ref n g) =>
        match objectMutId d1.objects (n, g) with
        | none => (d1, .err)
        | some t =>
          match d1.objects.get t with
          | some (.dict xd) => ({ d1 with objects := d1.objects.set t (.dict (Dict.set xd name (.ref xid.1 xid.2))) }, .unit)
          | _ => (d1, .err)
      | some (.dict xd) =>
        ({ d1 with objects := writeLoc d1.objects loc (.dict (Dict.set res1 kXObject (.dict (Dict.set xd name (.ref xid.1 xid.2))))) }, .unit)
      | _ => (d1, .err)
    | _ => (d1, .unit)

/-- `Document::add_graphics_state` -/
def addGraphicsState (d : Doc) (pageId : ObjId) (name : Bytes) (gid : ObjId) : Doc × Out :=
  match getOrCreateResources d pageId with
  | none => (d, .unit)
  | some (d1, loc) =>
    match readLoc d1.objects loc with
    | some (.dict res) =>
      let res1 := if Dict.has res kExtGState then res else Dict.set res kExtGState (.dict [])
      match Dict.get res1 kExtGState with
      | some (.dict sd) =>
        ({ d1 with objects := writeLoc d1.objects loc (.dict (Dict.set res1 kExtGState (.dict (Dict.set sd name (.ref gid.1 gid.2))))) }, .unit)
      | _ => (d1, .err)
    | _ => (d1, .unit)

/-- `Stream::set_plain_content` then `Stream::compress` on a stream's parts. `deflated` is what
`ZlibEncoder(best)` returns for `content` (external codec: a parameter, never re-implemented). -/
def plainThenCompress (deflated : Bytes) (dict : Dict) (content : Bytes) : Obj :=
  let d1 := Dict.set (Dict.remove (Dict.remove dict kDecodeParms) kFilter) LENGTHE (.int content.length)
  if deflated.length + Gen.COMPRESS_MARGIN < content.length then
    .stream (Dict.set (Dict.set (Dict.remove d1 kDecodeParms) kFilter (.name kFlateDecode)) LENGTHE (.int deflated.length)) deflated
  else .stream d1 content

/-- `Document::change_content_stream` -/
def changeContentStream (deflate : Bytes → Bytes) (d : Doc) (sid : ObjId) (content : Bytes) : Doc :=
  match d.objects.get sid with
  | some (.stream dict _) => { d with objects := d.objects.set sid (plainThenCompress (deflate content) dict content) }
  | _ => d

/-- `Document::change_page_content` -/
def changePageContent (deflate : Bytes → Bytes) (d : Doc) (pageId : ObjId) (content : Bytes) : Outcome (Doc × Out) :=
  match (getDictionary d.objects pageId).bind fun page => Dict.get page CONTENTS with
  | none => .ok (d, .err)
  | some (.ref n g) => .ok (changeContentStream deflate d (n, g) content, .unit)
  | some (.arr [.ref n g]) => .ok (changeContentStream deflate d (n, g) content, .unit)
  | some (.arr [_]) => .ok (d, .unit)
  | some (.arr _) =>
    if d.maxId + 1 > U32_MAXE then .panic "add" else
    let d1 := addObject d (streamNew [] content)
    -- `if let Ok(Object::Dictionary(dict)) = self.get_object_mut(page_id) { dict.set("Contents", new_stream) }`
    .ok ((setDictEntry d1 pageId CONTENTS (.ref (d.maxId + 1) 0)).1, .unit)
  | some _ => .ok (d, .unit)

/-- one editing call -/
def step (d : Doc) : Op → Outcome (Doc × Out)
  | .newId => if d.maxId + 1 > U32_MAXE then .panic "add" else .ok ({ d with maxId := d.maxId + 1 }, .id (d.maxId + 1, 0))
  | .add o => if d.maxId + 1 > U32_MAXE then .panic "add" else .ok (addObject d o, .id (d.maxId + 1, 0))
  | .set id o => .ok ({ d with maxId := max d.maxId id.1, objects := d.objects.insert id o }, .unit)
  | .del id => let r := deleteObject d id; .ok (r.1, .obj r.2)
  | .prune => let r := pruneObjects d; .ok (r.1, .ids r.2)
  | .delZero => let r := deleteZeroLengthStreams d; .ok (r.1, .ids r.2)
  | .renumber start => match renumber d start with
    | .ok d' => .ok (d', .unit)
    | .err e => .err e
    | .panic s => .panic s
  | .delPages nums => .ok (deletePages d nums, .unit)
  | .addContent page content => addPageContents d page content
  | .removeAnnot id => .ok (removeAnnot id (pageIter d.trailer d.objects) d)
  | .addXObject page name xid => .ok (addXObject d page name xid)
  | .addGState page name gid => .ok (addGraphicsState d page name gid)
  | .changeStream sid content deflated => .ok (changeContentStream (fun _ => deflated) d sid content, .unit)
  | .changePage page content deflated => changePageContent (fun _ => deflated) d page content
  -- `Document::compress` / `Document::decompress` (model of C09; every stream the harness builds allows compression)
  | .compress deflate => .ok ({ d with objects := docCompress deflate (fun _ => true) d.objects }, .unit)
  | .decompress ext => .ok ({ d with objects := docDecompress ext d.objects }, .unit)

/-- a program -/
def runOps (d : Doc) : List Op → Outcome Doc
  | [] => .ok d
  | op :: rest => match step d op with
    | .ok (d', _) => runOps d' rest
    | .err e => .err e
    | .panic s => .panic s

end Lopdf
