import LopdfModel.Model.Text
import LopdfModel.Model.Content
/-
  C16 — `extract_text` from the page's content bytes: `Content::decode(&content_data)?` followed by
  the operation loop (src/parser_aux.rs, `extract_text_chunks_from_page`).
-/
namespace Lopdf

/-- the loop's view of decoded operations: operator text and operands -/
def opsView (ops : List Operation) : List (Bytes × List Obj) := ops.map fun op => (op.operator, op.operands)

/-- `extract_text` of one page given its fonts and its (decompressed) content bytes -/
def extractTextOfContent (fonts : List (Bytes × Dict)) (content : Bytes) : Outcome UStr :=
  match decodeContent content with
  | .ok ops => extractText fonts (opsView ops)
  | .err e => .err e
  | .panic s => .panic s

end Lopdf
