import LopdfModel.Model.Obj
import LopdfModel.Gen.Consts
/-
  Model of the object-level grammar of src/parser/mod.rs (nom combinators
  unfolded): `space`, `comment`, `integer`, `real`, `name`, `literal_string`,
  `hexadecimal_string`, `boolean`, `null`, `reference`, `array`, `dictionary`,
  `_direct_objects`, `_direct_object`.  A parser is `Bytes → Option (α × Bytes)`
  (`none` = nom `Error`; none of these produces `Failure`).
  Recursion over nested arrays / dictionaries / parentheses takes a fuel argument
  (one unit per nesting level); `parseDirect` supplies more than any input can use.
-/
namespace Lopdf
open Gen

abbrev P (α : Type) := Bytes → Option (α × Bytes)

def isWhitespace (b : UInt8) : Bool := WHITESPACE.contains b
def isDelimiter (b : UInt8) : Bool := DELIMITERS.contains b
def isRegular (b : UInt8) : Bool := !isWhitespace b && !isDelimiter b
def isDirectLit (b : UInt8) : Bool := !NOT_DIRECT_LITERAL.contains b

/-- `take_while(p)`: longest prefix satisfying `p`, and the rest -/
def spanP (p : UInt8 → Bool) : Bytes → Bytes × Bytes
  | [] => ([], [])
  | b :: rest => if p b then let (a, r) := spanP p rest; (b :: a, r) else ([], b :: rest)

/-- `tag(t)` -/
def tag (t : Bytes) (inp : Bytes) : Option Bytes :=
  match t, inp with
  | [], r => some r
  | _ :: _, [] => none
  | x :: xs, y :: ys => if x = y then tag xs ys else none

/-- `eol`: `\r\n` | `\n` | `\r` ; returns the matched bytes -/
def eol : P Bytes
  | 13 :: 10 :: r => some ([13, 10], r)
  | 10 :: r => some ([10], r)
  | 13 :: r => some ([13], r)
  | _ => none

/-- `comment`: `%` … eol (the eol is REQUIRED) -/
def comment (inp : Bytes) : Option Bytes :=
  match inp with
  | 37 :: r =>
    let (_, r') := spanP (fun b => b != 13 && b != 10) r
    (eol r').map (·.2)
  | _ => none

/-- `white_space` -/
def whiteSpace (inp : Bytes) : Bytes := (spanP isWhitespace inp).2

/-- `space` = fold_many0(alt(take_while1(ws), comment)). Fuel bounds the number of rounds
(each round consumes at least one byte, so `inp.length + 1` rounds always suffice). -/
def spaceF : Nat → Bytes → Bytes
  | 0, inp => inp
  | f + 1, inp =>
    match spanP isWhitespace inp with
    | (_ :: _, r) => spaceF f r
    | ([], _) =>
      match comment inp with
      | some r => spaceF f r
      | none => inp

def space (inp : Bytes) : Bytes := spaceF (inp.length + 1) inp

/-- `digit1` -/
def digit1 (inp : Bytes) : Option (Bytes × Bytes) :=
  match spanP isDigit inp with
  | ([], _) => none
  | (ds, r) => some (ds, r)

def I64_MAX : Nat := 9223372036854775807
def U32_MAX : Nat := 4294967295
def U16_MAX : Nat := 65535

/-- `integer`: opt(sign) digit1, then `i64::from_str` (overflow = Error) -/
def pInteger : P Int
  | 43 :: r => (digit1 r).bind fun (ds, r') =>
      let v := digitsVal ds; if v ≤ I64_MAX then some (Int.ofNat v, r') else none
  | 45 :: r => (digit1 r).bind fun (ds, r') =>
      let v := digitsVal ds; if v ≤ I64_MAX + 1 then some (-(Int.ofNat v), r') else none
  | inp => (digit1 inp).bind fun (ds, r') =>
      let v := digitsVal ds; if v ≤ I64_MAX then some (Int.ofNat v, r') else none

/-- `opt(one_of("+-"))` -/
def optSign : Bytes → Bytes × Bytes
  | 43 :: r => ([43], r)
  | 45 :: r => ([45], r)
  | r => ([], r)

/-- `real`: opt(sign) (digit1 "." digit0 | "." digit1); result = the matched text
(`f32::from_str` never fails on this shape). -/
def pReal (inp : Bytes) : Option (Bytes × Bytes) :=
  let (sign, r0) : Bytes × Bytes := optSign inp
  match spanP isDigit r0 with
  | (d1@(_ :: _), 46 :: r1) =>
    let (d2, r2) := spanP isDigit r1
    some (sign ++ d1 ++ [46] ++ d2, r2)
  | ([], 46 :: r1) =>
    match spanP isDigit r1 with
    | ([], _) => none
    | (d2, r2) => some (sign ++ [46] ++ d2, r2)
  | _ => none

/-- `unsigned_int::<T>`: digit1 then `T::from_str` with bound `mx` -/
def pUnsigned (mx : Nat) (inp : Bytes) : Option (Nat × Bytes) :=
  (digit1 inp).bind fun (ds, r) => let v := digitsVal ds; if v ≤ mx then some (v, r) else none

/-- `reference`: u32 space u16 space `R` -/
def pReference (inp : Bytes) : Option (Obj × Bytes) :=
  (pUnsigned U32_MAX inp).bind fun (n, r1) =>
    (pUnsigned U16_MAX (space r1)).bind fun (g, r2) =>
      match space r2 with
      | 82 :: r3 => some (.ref n g, r3)
      | _ => none

/-- body of `name`: many0(alt(`#` hex hex, regular byte other than `#`)) -/
def nameBody : Nat → Bytes → Bytes × Bytes
  | 0, inp => ([], inp)
  | f + 1, inp =>
    match inp with
    | 35 :: h1 :: h2 :: r =>
      if isHexDigit h1 && isHexDigit h2 then
        let (n, r') := nameBody f r
        ((hexVal h1 <<< 4 ||| hexVal h2) :: n, r')
      else ([], inp)
    | b :: r =>
      if b != 35 && isRegular b then
        let (n, r') := nameBody f r
        (b :: n, r')
      else ([], inp)
    | [] => ([], [])

/-- `name` -/
def pName : P Bytes
  | 47 :: r => some (nameBody (r.length + 1) r)
  | _ => none

/-- `oct_char`: 1–3 octal digits, value mod 256 -/
def octChar (inp : Bytes) : Option (UInt8 × Bytes) :=
  match inp with
  | a :: r1 =>
    if isOctDigit a then
      match r1 with
      | b :: r2 =>
        if isOctDigit b then
          match r2 with
          | c :: r3 =>
            if isOctDigit c then
              some ((((a - 48).toNat * 64 + (b - 48).toNat * 8 + (c - 48).toNat) % 256).toUInt8, r3)
            else some (((a - 48) * 8 + (b - 48)), r2)
          | [] => some (((a - 48) * 8 + (b - 48)), r2)
        else some (a - 48, r1)
      | [] => some (a - 48, r1)
    else none
  | [] => none

/-- `escape_sequence` (after the backslash): `some (some b)` a byte, `some none` a line continuation -/
def escapeSeq (inp : Bytes) : Option (Option UInt8 × Bytes) :=
  match octChar inp with
  | some (v, r) => some (some v, r)
  | none =>
    match eol inp with
    | some (_, r) => some (none, r)
    | none =>
      match inp with
      | 110 :: r => some (some 10, r)
      | 114 :: r => some (some 13, r)
      | 116 :: r => some (some 9, r)
      | 98 :: r => some (some 8, r)
      | 102 :: r => some (some 12, r)
      | b :: r => some (some b, r)
      | [] => none

/-- `inner_literal_string(depth)`; `fuel` bounds the number of items (each consumes ≥ 1 byte).
Returns the accumulated bytes and the rest (fold_many0 never fails). -/
def innerLit : Nat → Nat → Bytes → Bytes × Bytes
  | 0, _, inp => ([], inp)
  | fuel + 1, depth, inp =>
    match inp with
    | [] => ([], [])
    | 92 :: r =>                                     -- escape
      match escapeSeq r with
      | some (ob, r') =>
        let (out, r'') := innerLit fuel depth r'
        ((match ob with | some b => [b] | none => []) ++ out, r'')
      | none => ([], inp)
    | 13 :: 10 :: r => let (out, r') := innerLit fuel depth r; (13 :: 10 :: out, r')
    | 13 :: r => let (out, r') := innerLit fuel depth r; (13 :: out, r')
    | 10 :: r => let (out, r') := innerLit fuel depth r; (10 :: out, r')
    | 40 :: r =>                                     -- nested
      match depth with
      | 0 => ([], inp)
      | d + 1 =>
        let (inner, r1) := innerLit fuel d r
        match r1 with
        | 41 :: r2 =>
          let (out, r3) := innerLit fuel depth r2
          ([40] ++ inner ++ [41] ++ out, r3)
        | _ => ([], inp)
    | 41 :: _ => ([], inp)
    | b :: r => let (out, r') := innerLit fuel depth r; (b :: out, r')

/-- `literal_string` -/
def pLiteral : P Bytes
  | 40 :: r =>
    let (out, r1) := innerLit (r.length + 1) MAX_BRACKET r
    match r1 with
    | 41 :: r2 => some (out, r2)
    | _ => none
  | _ => none

/-- fold of `preceded(white_space, hex_digit)`: (bytes so far, pending high nibble) -/
def hexBody : Nat → Bytes → Option UInt8 → Bytes → Bytes × Bytes
  | 0, inp, _, acc => (acc, inp)
  | f + 1, inp, pending, acc =>
    match whiteSpace inp with
    | d :: r =>
      if isHexDigit d then
        match pending with
        | none => hexBody f r (some (hexVal d <<< 4)) acc
        | some hi => hexBody f r none (acc ++ [hi ||| hexVal d])
      else (match pending with | none => acc | some hi => acc ++ [hi], inp)
    | [] => (match pending with | none => acc | some hi => acc ++ [hi], inp)

/-- `hexadecimal_string` -/
def pHexString : P Bytes
  | 60 :: r =>
    let (out, r1) := hexBody (r.length + 1) r none []
    match whiteSpace r1 with
    | 62 :: r2 => some (out, r2)
    | _ => none
  | _ => none

def NULL_KW : Bytes := [110, 117, 108, 108]
def TRUE_KW : Bytes := [116, 114, 117, 101]
def FALSE_KW : Bytes := [102, 97, 108, 115, 101]

/-- nom result of the recursive object grammar: `error` is recoverable (`alt`, `many0` stop),
`failure` (nesting deeper than `MAX_NESTING`) aborts the whole parse -/
inductive PRes (α : Type) where
  | ok (a : α) (rest : Bytes)
  | error
  | failure
  deriving Repr

mutual
/-- `_direct_objects` (the `alt` in source order). `depth` = arrays/dictionaries currently open
(`NESTING_DEPTH`). -/
def directObjects : Nat → Nat → Bytes → PRes Obj
  | 0, _, _ => .error
  | fuel + 1, depth, inp =>
    match tag NULL_KW inp with
    | some r => .ok .null r
    | none =>
    match tag TRUE_KW inp with
    | some r => .ok (.bool true) r
    | none =>
    match tag FALSE_KW inp with
    | some r => .ok (.bool false) r
    | none =>
    match pReference inp with
    | some (o, r) => .ok o r
    | none =>
    match pReal inp with
    | some (t, r) => .ok (.real t) r
    | none =>
    match pInteger inp with
    | some (i, r) => .ok (.int i) r
    | none =>
    match pName inp with
    | some (n, r) => .ok (.name n) r
    | none =>
    match pLiteral inp with
    | some (s, r) => .ok (.str s .lit) r
    | none =>
    match pHexString inp with
    | some (s, r) => .ok (.str s .hex) r
    | none =>
    match inp with
    | 91 :: r =>                                                -- array
      if depth ≥ MAX_NESTING then .failure else
      (match manyObjects fuel (depth + 1) fuel (space r) with
       | none => .failure
       | some (items, r1) =>
         (match r1 with
          | 93 :: r2 => .ok (.arr items) r2
          | _ => .error))
    | 60 :: 60 :: r =>                                          -- dictionary
      if depth ≥ MAX_NESTING then .failure else
      (match dictEntries fuel (depth + 1) fuel (space r) [] with
       | none => .failure
       | some (es, r1) =>
         (match r1 with
          | 62 :: 62 :: r2 => .ok (.dict es) r2
          | _ => .error))
    | _ => .error
/-- `_direct_object` = terminated(_direct_objects, space) -/
def directObject : Nat → Nat → Bytes → PRes Obj
  | fuel, depth, inp =>
    match directObjects fuel depth inp with
    | .ok o r => .ok o (space r)
    | .error => .error
    | .failure => .failure
/-- `many0(_direct_object)`; `n` bounds the item count; `none` = failure -/
def manyObjects : Nat → Nat → Nat → Bytes → Option (List Obj × Bytes)
  | _, _, 0, inp => some ([], inp)
  | fuel, depth, n + 1, inp =>
    match directObject fuel depth inp with
    | .ok o r => (manyObjects fuel depth n r).map fun (os, r') => (o :: os, r')
    | .error => some ([], inp)
    | .failure => none
/-- `inner_dictionary`: fold_many0(pair(terminated(name, space), _direct_object)) with
`Dictionary::set`; `none` = failure -/
def dictEntries : Nat → Nat → Nat → Bytes → Dict → Option (Dict × Bytes)
  | _, _, 0, inp, acc => some (acc, inp)
  | fuel, depth, n + 1, inp, acc =>
    match pName inp with
    | some (k, r) =>
      (match directObject fuel depth (space r) with
       | .ok v r' => dictEntries fuel depth n r' (acc.set k v)
       | .error => some (acc, inp)
       | .failure => none)
    | none => some (acc, inp)
end

/-- `parser::direct_object` (fuel that no input can exhaust: one unit per nesting level,
item counts bounded by the input length). -/
def parseDirect (inp : Bytes) : Option (Obj × Bytes) :=
  match directObject (inp.length + 1) 0 inp with
  | .ok o r => some (o, r)
  | _ => none

end Lopdf
