import LopdfModel.Model.Obj
import LopdfModel.Gen.Tables
import LopdfModel.Gen.Fonts
/-
  C16 — model of lopdf's text layer.

  * `src/encodings/mod.rs`            bytes_to_string, string_to_bytes, encode_utf16_be, encode_utf8,
                                      Encoding::{bytes_to_string,string_to_bytes}
  * `src/common_data_structures/mod.rs` text_string, decode_text_string
  * `src/object.rs`                   Dictionary::get_font_encoding
  * `src/parser_aux.rs`               extract_text: the Tf / Tj / TJ / ET loop and collect_text

  A Rust `String` / `&str` is modelled as the list of its Unicode scalar values
  (`UStr`).  `str::encode_utf16`, `String::from_utf16`, `str::bytes` and
  `String::from_utf8` are std functions; they are modelled here (`stdEncodeUtf16`, …)
  as the code lopdf links against and are related to the independent specifications
  of `Spec/Utf16.lean` by theorems.  Tables and the `/Encoding` name map are generated.
-/
namespace Lopdf
open Gen

/-- `CodedCharacterSet = [Option<u16>; 256]` -/
abbrev Table := List (Option Nat)
/-- a Rust string as the list of its scalar values -/
abbrev UStr := List Nat

def isScalar (c : Nat) : Bool := c < 0xD800 || (0xE000 ≤ c && c < 0x110000)

/-! ### std: UTF-16 -/

/-- one `char` through `char::encode_utf16` -/
def encUnit (c : Nat) : List Nat :=
  if c < 0x10000 then [c] else [0xD800 + (c - 0x10000) / 1024, 0xDC00 + (c - 0x10000) % 1024]

/-- `str::encode_utf16` -/
def stdEncodeUtf16 : UStr → List Nat
  | [] => []
  | c :: cs => encUnit c ++ stdEncodeUtf16 cs

/-- `String::from_utf16` (strict: any unpaired surrogate is an error) -/
def stdFromUtf16 : List Nat → Option UStr
  | [] => some []
  | u :: rest =>
    if u < 0xD800 || 0xE000 ≤ u then (stdFromUtf16 rest).map (u :: ·)
    else if 0xDC00 ≤ u then none
    else
      match rest with
      | [] => none
      | u2 :: rest2 =>
        if 0xDC00 ≤ u2 && u2 < 0xE000 then
          (stdFromUtf16 rest2).map ((0x10000 + (u - 0xD800) * 1024 + (u2 - 0xDC00)) :: ·)
        else none

/-! ### std: UTF-8 -/

/-- one `char` through `char::encode_utf8`, as numbers < 256 -/
def enc8 (c : Nat) : List Nat :=
  if c < 0x80 then [c]
  else if c < 0x800 then [0xC0 + c / 64, 0x80 + c % 64]
  else if c < 0x10000 then [0xE0 + c / 4096, 0x80 + c / 64 % 64, 0x80 + c % 64]
  else [0xF0 + c / 262144, 0x80 + c / 4096 % 64, 0x80 + c / 64 % 64, 0x80 + c % 64]

def enc8s : UStr → List Nat
  | [] => []
  | c :: cs => enc8 c ++ enc8s cs

/-- `str::bytes` / `str::as_bytes` -/
def stdUtf8 (s : UStr) : Bytes := (enc8s s).map Nat.toUInt8

def isCont (b : Nat) : Bool := 0x80 ≤ b && b ≤ 0xBF

/-- `String::from_utf8` validation + decoding (Unicode Table 3-7: no overlong forms,
no surrogates, nothing above U+10FFFF), over byte values as numbers -/
def dec8 : List Nat → Option UStr
  | [] => some []
  | b0 :: r0 =>
    if b0 < 0x80 then (dec8 r0).map (b0 :: ·)
    else if b0 < 0xC2 then none
    else if b0 < 0xE0 then
      match r0 with
      | b1 :: r1 =>
        if isCont b1 then (dec8 r1).map (((b0 - 0xC0) * 64 + (b1 - 0x80)) :: ·) else none
      | _ => none
    else if b0 < 0xF0 then
      match r0 with
      | b1 :: b2 :: r2 =>
        if (if b0 = 0xE0 then 0xA0 else 0x80) ≤ b1 && b1 ≤ (if b0 = 0xED then 0x9F else 0xBF) && isCont b2 then
          (dec8 r2).map (((b0 - 0xE0) * 4096 + (b1 - 0x80) * 64 + (b2 - 0x80)) :: ·)
        else none
      | _ => none
    else if b0 < 0xF5 then
      match r0 with
      | b1 :: b2 :: b3 :: r3 =>
        if (if b0 = 0xF0 then 0x90 else 0x80) ≤ b1 && b1 ≤ (if b0 = 0xF4 then 0x8F else 0xBF)
            && isCont b2 && isCont b3 then
          (dec8 r3).map (((b0 - 0xF0) * 262144 + (b1 - 0x80) * 4096 + (b2 - 0x80) * 64 + (b3 - 0x80)) :: ·)
        else none
      | _ => none
    else none

/-- `String::from_utf8` -/
def stdFromUtf8 (bs : Bytes) : Option UStr := dec8 (bs.map UInt8.toNat)

/-! ### one-byte encodings (src/encodings/mod.rs) -/

/-- `encoding[byte as usize]` -/
def Table.cell (t : Table) (b : UInt8) : Option Nat :=
  match t[b.toNat]? with
  | some c => c
  | none => none

/-- the `filter_map` of `bytes_to_string` -/
def bytesToUnits (t : Table) (bs : Bytes) : List Nat := bs.filterMap t.cell

def PANIC_FROM_UTF16 : String := "src/encodings/mod.rs:18"

/-- `encodings::bytes_to_string`: `String::from_utf16(..).expect(..)` -/
def bytesToString (t : Table) (bs : Bytes) : Outcome UStr :=
  match stdFromUtf16 (bytesToUnits t bs) with
  | some s => .ok s
  | none => .panic PANIC_FROM_UTF16

/-- `encoding.iter().position(|&code| code == Some(ch))` -/
def position : Table → Nat → Option Nat
  | [], _ => none
  | c :: rest, u => if c = some u then some 0 else (position rest u).map (· + 1)

/-- the `filter_map … map(|byte| byte as u8)` of `string_to_bytes` -/
def unitsToBytes (t : Table) (us : List Nat) : Bytes :=
  us.filterMap (fun u => (position t u).map Nat.toUInt8)

/-- `encodings::string_to_bytes` -/
def stringToBytes (t : Table) (s : UStr) : Bytes := unitsToBytes t (stdEncodeUtf16 s)

/-! ### text strings -/

/-- `u16::to_be_bytes` -/
def beBytes (u : Nat) : Bytes := [(u / 256).toUInt8, (u % 256).toUInt8]

def unitsBe : List Nat → Bytes
  | [] => []
  | u :: us => beBytes u ++ unitsBe us

/-- `encodings::encode_utf16_be` -/
def encodeUtf16Be (s : UStr) : Bytes := beBytes WRITE_BOM_UTF16 ++ unitsBe (stdEncodeUtf16 s)

/-- `encodings::encode_utf8` -/
def encodeUtf8 (s : UStr) : Bytes := WRITE_BOM_UTF8 ++ stdUtf8 s

/-- the test of `text_string`: every UTF-8 byte of the text lies in `TEXT_LITERAL_LO..TEXT_LITERAL_HI` -/
def isLiteralText (s : UStr) : Bool := (enc8s s).all (fun b => TEXT_LITERAL_LO ≤ b && b < TEXT_LITERAL_HI)

/-- `text_string` -/
def textString (s : UStr) : Obj :=
  if isLiteralText s then .str (stdUtf8 s) .lit else .str (encodeUtf16Be s) .hex

/-- the `chunks(2)` mapping of `decode_text_string`: a trailing single byte `c` becomes `[c, 0]` -/
def chunkUnits : Bytes → List Nat
  | [] => []
  | [c] => [c.toNat * 256]
  | a :: b :: rest => (a.toNat * 256 + b.toNat) :: chunkUnits rest

/-- `decode_text_string` -/
def decodeTextString (o : Obj) : Outcome UStr :=
  match o with
  | .str s _ =>
    if TEXT_BOM_UTF16.isPrefixOf s then
      match stdFromUtf16 (chunkUnits (s.drop TEXT_UTF16_SKIP)) with
      | some r => .ok r
      | none => .err "TextStringDecode"
    else if TEXT_BOM_UTF8.isPrefixOf s then
      match stdFromUtf8 (s.drop TEXT_UTF8_SKIP) with
      | some r => .ok r
      | none => .err "TextStringDecode"
    else bytesToString TEXT_DEFAULT_ENCODING s
  | _ => .err "Type"

/-! ### fonts -/

inductive Enc where
  | oneByte (t : Table)
  | simple (name : Bytes)
  /-- a ToUnicode CMap would be parsed: outside this model (property C15) -/
  | cmap
  deriving DecidableEq

def FONT : Bytes := [70, 111, 110, 116]                                   -- "Font"
def ENCODING : Bytes := [69, 110, 99, 111, 100, 105, 110, 103]            -- "Encoding"
def TOUNICODE : Bytes := [84, 111, 85, 110, 105, 99, 111, 100, 101]       -- "ToUnicode"

def lookupName (n : Bytes) : List (Bytes × Table) → Option Table
  | [] => none
  | (k, t) :: rest => if k = n then some t else lookupName n rest

/-- `Dictionary::get_font_encoding`; `none` = `Err`. Whenever the code would look at
`ToUnicode` and the key is present the model answers `cmap` (not modelled further). -/
def getFontEncoding (font : Dict) : Option Enc :=
  if (font.get TYPE).bind Obj.asName != some FONT then none
  else
    match (font.get ENCODING).bind Obj.asName with
    | some n =>
      match lookupName n FONT_ENCODINGS with
      | some t => some (.oneByte t)
      | none =>
        if FONT_TOUNICODE_NAMES.contains n then
          (if font.has TOUNICODE then some .cmap else none)
        else some (.simple n)
    | none =>
      if font.has TOUNICODE then some .cmap else some (.oneByte FONT_FALLBACK_ENCODING)

/-- `Document::decode_text` = `Encoding::bytes_to_string` -/
def decodeText (e : Enc) (bs : Bytes) : Outcome UStr :=
  match e with
  | .oneByte t => bytesToString t bs
  | .simple n =>
    if SIMPLE_UTF16_NAMES.contains n then .err "out-of-model:encoding_rs"
    else .err "CharacterEncoding"
  | .cmap => .err "out-of-model:cmap"

/-- `Document::encode_text` = `Encoding::string_to_bytes` (`none`: outside the model) -/
def encodeText (e : Enc) (s : UStr) : Option Bytes :=
  match e with
  | .oneByte t => some (stringToBytes t s)
  | .simple n =>
    if SIMPLE_UTF16_NAMES.contains n then some (encodeUtf16Be s)
    else some (stdUtf8 s)
  | .cmap => none

/-! ### extraction (src/parser_aux.rs) -/

mutual
/-- `collect_text` on one operand -/
def collectObj (e : Enc) (text : UStr) : Obj → Outcome UStr
  | .str bs _ =>
    match decodeText e bs with
    | .ok s => .ok (text ++ s)
    | .err x => .err x
    | .panic x => .panic x
  | .arr items =>
    match collectList e text items with
    | .ok t => .ok (t ++ [32])
    | .err x => .err x
    | .panic x => .panic x
  | .int i => .ok (if i < -100 then text ++ [32] else text)
  | _ => .ok text
/-- `collect_text` -/
def collectList (e : Enc) (text : UStr) : List Obj → Outcome UStr
  | [] => .ok text
  | o :: os =>
    match collectObj e text o with
    | .ok t => collectList e t os
    | .err x => .err x
    | .panic x => .panic x
end

def lookupEnc (n : Bytes) : List (Bytes × Enc) → Option Enc
  | [] => none
  | (k, e) :: rest => if k = n then some e else lookupEnc n rest

/-- encodings of the page's fonts; `none` when some `get_font_encoding` fails
(the error chunk makes `extract_text` fail as a whole) -/
def fontEncodings : List (Bytes × Dict) → Option (List (Bytes × Enc))
  | [] => some []
  | (n, f) :: rest =>
    match getFontEncoding f, fontEncodings rest with
    | some e, some es => some ((n, e) :: es)
    | _, _ => none

structure XState where
  cur : Option Enc        -- `current_encoding`
  done : UStr             -- chunks already pushed, concatenated
  text : UStr             -- `current_text`

def OP_TF : Bytes := [84, 102]        -- "Tf"
def OP_TJ : Bytes := [84, 106]        -- "Tj"
def OP_TJ_ARR : Bytes := [84, 74]     -- "TJ"
def OP_ET : Bytes := [69, 84]         -- "ET"

/-- the operation loop of `extract_text_chunks_from_page`, as seen through `extract_text`
(which fails as soon as any chunk is an error) -/
def extractLoop (encs : List (Bytes × Enc)) : List (Bytes × List Obj) → XState → Outcome UStr
  | [], st => .ok (st.done ++ st.text)
  | (op, operands) :: rest, st =>
    if op = OP_TF then
      match operands with
      | [] => .err "Syntax"
      | f :: _ =>
        match f.asName with
        | none => .err "Type"
        | some n => extractLoop encs rest { cur := lookupEnc n encs, done := st.done ++ st.text, text := [] }
    else if op = OP_TJ || op = OP_TJ_ARR then
      match st.cur with
      | none => extractLoop encs rest st
      | some e =>
        match collectList e st.text operands with
        | .ok t => extractLoop encs rest { st with text := t }
        | .err x => .err x
        | .panic x => .panic x
    else if op = OP_ET then
      extractLoop encs rest { st with text := if st.text.getLast? = some 10 then st.text else st.text ++ [10] }
    else extractLoop encs rest st

/-- `Document::extract_text` of one page, given the page's fonts (by resource name, in
`BTreeMap` order) and its decoded content operations -/
def extractText (fonts : List (Bytes × Dict)) (ops : List (Bytes × List Obj)) : Outcome UStr :=
  match fontEncodings fonts with
  | none => .err "font"
  | some encs => extractLoop encs ops { cur := none, done := [], text := [] }

end Lopdf
