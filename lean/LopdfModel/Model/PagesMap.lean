import LopdfModel.Model.Pages
/-
  C12 — `Document::get_pages`:
  `page_iter().enumerate().map(|(i, p)| ((i + 1) as u32, p)).collect::<BTreeMap<u32, ObjectId>>()`.
  The `BTreeMap` is the key-sorted association list with overwriting insert, `as u32` is
  reduction mod 2^32.
-/
namespace Lopdf

/-- `BTreeMap<u32, ObjectId>::insert` on the key-sorted association list -/
def pmInsert (k : Nat) (v : ObjId) : List (Nat × ObjId) → List (Nat × ObjId)
  | [] => [(k, v)]
  | (k', v') :: rest =>
    if k < k' then (k, v) :: (k', v') :: rest
    else if k = k' then (k, v) :: rest
    else (k', v') :: pmInsert k v rest

/-- the fold behind `collect()`: the page with index `i` (counted from `start`) goes under
`(i + 1) as u32` -/
def collectNumbered : List ObjId → Nat → List (Nat × ObjId) → List (Nat × ObjId)
  | [], _, m => m
  | p :: rest, i, m => collectNumbered rest (i + 1) (pmInsert ((i + 1) % 4294967296) p m)

/-- `Document::get_pages` on the ids `page_iter` yields -/
def getPagesMap (ids : List ObjId) : List (Nat × ObjId) := collectNumbered ids 0 []

end Lopdf
