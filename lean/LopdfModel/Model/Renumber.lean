import LopdfModel.Model.Doc
import LopdfModel.Model.Pages
/-
  C10 — `Document::renumber_objects_with(starting_id)` (src/processor.rs) exactly as
  written: the page-order pass (enumerate `page_iter`, stable sort by id,
  `needs_ordering`, zip of page order with id order, temporary map, *sequential*
  `renumber_bookmarks`, `traverse_objects` with the rename action, `replace.clear()`),
  then the dense pass (sorted ids, `replace` only for ids whose number changes,
  remove / temporary map / re-insert, sequential `renumber_bookmarks`, traversal)
  and `max_id = new_id - 1`.  `u32` arithmetic carries its panics (overflow checks on).
-/
namespace Lopdf

def U32_MAXE : Nat := 4294967295

/-- insertion into a list sorted by `le`, before the first element that is not smaller
(so that a right-to-left insertion sort is stable, like `slice::sort_by`). -/
def insertBy {α} (le : α → α → Bool) (x : α) : List α → List α
  | [] => [x]
  | y :: ys => if le x y then x :: y :: ys else y :: insertBy le x ys

/-- stable sort (`slice::sort_by`) -/
def sortBy {α} (le : α → α → Bool) (l : List α) : List α := l.foldr (insertBy le) []

def idLeE (a b : ObjId) : Bool := !idLt b a

/-- `BTreeMap<ObjectId, ObjectId>::get` on the `replace` map -/
def lookupId (m : List (ObjId × ObjId)) (k : ObjId) : Option ObjId :=
  match m with
  | [] => none
  | (a, b) :: rest => if a = k then some b else lookupId rest k

/-- the closure `|object| if let Reference(id) = object { if replace.contains_key(id) { *id = replace[id] } }` -/
def renameFn (m : List (ObjId × ObjId)) : Obj → Obj
  | .ref n g => match lookupId m (n, g) with
    | some (n', g') => .ref n' g'
    | none => .ref n g
  | o => o

theorem renameFn_size (m : List (ObjId × ObjId)) (o : Obj) : (renameFn m o).size ≤ o.size := by
  cases o <;> simp [renameFn, Obj.size]
  split <;> simp [Obj.size]

def renameAct (m : List (ObjId × ObjId)) : Action := ⟨renameFn m, renameFn_size m⟩

/-- `update_bookmark_pages`: depth-first over the bookmark tree; an id missing from the
table abandons the current list (`return`). `depth` bounds the recursion *depth* only
(bookmark tables built by `add_bookmark` are forests; on a cyclic table the real code
overflows the stack — outside the modelled domain). -/
def updatePages : Nat → BkTable → List Nat → ObjId → ObjId → BkTable
  | 0, t, _, _, _ => t
  | depth + 1, t, ids, old, new =>
    (ids.foldl (fun (st : BkTable × Bool) id =>
      if st.2 then st else
      match st.1.get id with
      | none => (st.1, true)
      | some b =>
        let t1 := if b.page = old then st.1.setPage id new else st.1
        let t2 := if b.children.isEmpty then t1 else updatePages depth t1 b.children old new
        (t2, false)) (t, false)).1

/-- `renumber_bookmarks` -/
def renumberBookmarks (bookmarks : List Nat) (t : BkTable) (old new : ObjId) : BkTable :=
  if bookmarks.isEmpty then t
  else updatePages (t.length + 1) t bookmarks old new

/-- `for (old, new) in … { if let Some(object) = self.objects.remove(old) { objects.insert(new, object); [replace.insert(old, new)] } if old != new { renumber_bookmarks } }`
state: remaining objects, temporary map, `replace` entries recorded (in order), bookmark table -/
structure MoveSt where
  objects : Objects
  tmp : Objects
  replace : List (ObjId × ObjId)
  bm : BkTable

/-- `if let Some(object) = self.objects.remove(old) { objects.insert(new, object); replace.insert(old, new) }` -/
def moveObj (st : MoveSt) (p : ObjId × ObjId) : MoveSt :=
  match st.objects.get p.1 with
  | some o => { st with objects := st.objects.remove p.1, tmp := st.tmp.insert p.2 o,
                        replace := st.replace ++ [(p.1, p.2)] }
  | none => st

/-- since the fix of F-C10-a the move loop no longer touches the bookmarks -/
def moveStep (_bookmarks : List Nat) (st : MoveSt) (p : ObjId × ObjId) : MoveSt := moveObj st p

/-- `rename_bookmark_pages`: every bookmark target goes through the COMPLETE map, once -/
def renameBkPages (replace : List (ObjId × ObjId)) (t : BkTable) : BkTable :=
  t.map fun (i, b) => (i, { b with page := (lookupId replace b.page).getD b.page })

/-- move all pairs, then re-insert the temporary map -/
def movePass (bookmarks : List Nat) (os : Objects) (bm : BkTable) (pairs : List (ObjId × ObjId)) : MoveSt :=
  let st := pairs.foldl (moveStep bookmarks) ⟨os, [], [], bm⟩
  { st with objects := st.tmp.foldl (fun acc kv => acc.insert kv.1 kv.2) st.objects,
            bm := renameBkPages st.replace st.bm }

/-- pairs of the page-order pass: k-th page in page order  ↦  (number of the k-th smallest page id, own generation) -/
def pagePairs (pages : List ObjId) : Option (List (ObjId × ObjId)) :=
  let pageOrder : List (Nat × ObjId) := (List.range pages.length).zip pages |>.map (fun (i, id) => (i + 1, id))
  let sorted := sortBy (fun a b => idLeE a.2 b.2) pageOrder
  let needs := ((List.range sorted.length).zip sorted).any (fun (j, a) => a.1 ≠ j + 1)
  if needs then
    let pages' := sortBy (fun (a b : Nat × ObjId) => a.1 ≤ b.1) sorted
    some ((pages'.zip sorted).map (fun (old, new) => (old.2, (new.2.1, old.2.2))))
  else none

/-- pairs of the dense pass: sorted ids, consecutive numbers from `start`, only ids whose number changes.
Returns the pairs and `start + n`; `none` = a number to hand out does not fit into `u32`. -/
def densePairs : List ObjId → Nat → List (ObjId × ObjId) → Option (List (ObjId × ObjId) × Nat)
  | [], newId, acc => some (acc, newId)
  | id :: rest, newId, acc =>
    let acc' := if id.1 ≠ newId then acc ++ [(id, (newId, id.2))] else acc
    -- `starting_id + offset as u32`: the number handed out must fit (overflow checks on); the cursor is
    -- never moved past the last one (fix of F-C10-c)
    if newId > U32_MAXE then none else densePairs rest (newId + 1) acc'

/-- `.filter(|id| listed.insert(*id))`: every id once, at its first position (fix of F-C11-d) -/
def firstOccAux (seen : List ObjId) : List ObjId → List ObjId
  | [] => []
  | x :: xs => if seen.contains x then firstOccAux seen xs else x :: firstOccAux (x :: seen) xs

def firstOcc (l : List ObjId) : List ObjId := firstOccAux [] l

/-- first half of `renumber_objects_with`: put the pages in page order (only when they are not); a page
the tree lists more than once is taken once -/
def pagePass (d : Doc) : Doc :=
  match pagePairs (firstOcc (pageIter d.trailer d.objects)) with
  | some pairs =>
    let st := movePass d.bookmarks d.objects d.bmTable pairs
    let r := traverse (renameAct st.replace) d.trailer st.objects
    { d with trailer := r.1, objects := r.2.1, bmTable := st.bm }
  | none => d

/-- second half: consecutive numbers from `start`, `max_id` = the last number handed out -/
def densePass (d1 : Doc) (start : Nat) : Outcome Doc :=
  match densePairs (sortBy idLeE d1.objects.keys) start [] with
  | none => .panic "add"
  | some (pairs, newId) =>
    let st := movePass d1.bookmarks d1.objects d1.bmTable pairs
    let r := traverse (renameAct st.replace) d1.trailer st.objects
    -- `last_id.unwrap_or_else(|| starting_id.saturating_sub(1))`; `newId = start + n`
    .ok { d1 with trailer := r.1, objects := r.2.1, bmTable := st.bm, maxId := newId - 1 }

/-- `Document::renumber_objects_with` -/
def renumber (d : Doc) (start : Nat) : Outcome Doc := densePass (pagePass d) start

end Lopdf
