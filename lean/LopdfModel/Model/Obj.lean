import LopdfModel.Model.Basic
/-
  The object model shared by all properties: `Obj` mirrors `lopdf::Object`,
  dictionaries are association lists in `IndexMap` order, a document is an
  association list of objects sorted by id (as `BTreeMap<ObjectId, Object>`).
-/
namespace Lopdf

inductive StrFmt where | lit | hex
  deriving Repr, DecidableEq, BEq

/-- `lopdf::Object`. Reals are carried as the decimal text Rust's `Display`
prints / the parser read (see DESIGN §4); the harness canonicalises them through
`f32` when comparing. -/
inductive Obj where
  | null
  | bool (b : Bool)
  | int (i : Int)
  | real (text : Bytes)
  | name (n : Bytes)
  | str (s : Bytes) (f : StrFmt)
  | arr (items : List Obj)
  | dict (entries : List (Bytes × Obj))
  | stream (entries : List (Bytes × Obj)) (content : Bytes)
  | ref (num : Nat) (gen : Nat)
  deriving Repr, Inhabited

abbrev Dict := List (Bytes × Obj)
abbrev ObjId := Nat × Nat

namespace Dict
/-- `Dictionary::get`. -/
def get (d : Dict) (k : Bytes) : Option Obj :=
  match d with
  | [] => none
  | (k', v) :: rest => if k' = k then some v else get rest k

def has (d : Dict) (k : Bytes) : Bool := (get d k).isSome

/-- `Dictionary::set` = `IndexMap::insert`: overwrite in place, else append. -/
def set (d : Dict) (k : Bytes) (v : Obj) : Dict :=
  match d with
  | [] => [(k, v)]
  | (k', v') :: rest => if k' = k then (k, v) :: rest else (k', v') :: set rest k v

/-- position of a key -/
def idxOf (d : Dict) (k : Bytes) : Option Nat :=
  match d with
  | [] => none
  | (k', _) :: rest => if k' = k then some 0 else (idxOf rest k).map (· + 1)

/-- `Dictionary::remove` = `IndexMap::swap_remove`: the last entry moves into the hole. -/
def remove (d : Dict) (k : Bytes) : Dict :=
  match idxOf d k with
  | none => d
  | some i =>
    match d.getLast? with
    | none => d
    | some last =>
      let d' := d.dropLast
      if i = d'.length then d' else d'.set i last

def keys (d : Dict) : List Bytes := d.map (·.1)
end Dict

namespace Obj
def asName : Obj → Option Bytes
  | .name n => some n
  | _ => none
def asRef : Obj → Option ObjId
  | .ref n g => some (n, g)
  | _ => none
def asArr : Obj → Option (List Obj)
  | .arr a => some a
  | _ => none
def asDict : Obj → Option Dict
  | .dict d => some d
  | _ => none
def asInt : Obj → Option Int
  | .int i => some i
  | _ => none
end Obj

def TYPE : Bytes := [84, 121, 112, 101]             -- "Type"
def LINEARIZED : Bytes := [76, 105, 110, 101, 97, 114, 105, 122, 101, 100]

/-- `Dictionary::get_type` including the `Linearized` fallback. -/
def Dict.getType (d : Dict) : Option Bytes :=
  match (d.get TYPE).bind Obj.asName with
  | some n => some n
  | none => if d.has LINEARIZED then some LINEARIZED else none

/-- objects of a document, sorted by id in the real code; the model only looks up. -/
abbrev Objects := List (ObjId × Obj)

def Objects.get (os : Objects) (id : ObjId) : Option Obj :=
  match os with
  | [] => none
  | (i, o) :: rest => if i = id then some o else Objects.get rest id

end Lopdf
