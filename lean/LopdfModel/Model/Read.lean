import LopdfModel.Model.Parse
import LopdfModel.Model.File
/-
  Model of the reader: `Reader::read` (src/reader.rs), `parser::{header, binary_mark, xref,
  trailer, xref_and_trailer, xref_start, indirect_object, stream}` (src/parser/mod.rs),
  `decode_xref_stream` (src/parser_aux.rs), `ObjectStream::new` (src/object_stream.rs),
  `Xref::merge`.  Panic-explicit where attacker-chosen numbers meet unchecked arithmetic.
  Filters (flate/LZW) on structural streams and encryption are outside this model: such
  inputs yield `err "ext"` and are covered by the oracle only.
-/
namespace Lopdf
open Gen

/-! ### cross-reference data -/

inductive XEntry where
  | normal (offset gen : Nat)
  | compressed (container index : Nat)
  deriving Repr, DecidableEq

/-- `Xref.entries` as an association list; the first binding of a key is the valid one -/
abbrev XTable := List (Nat × XEntry)

def XTable.get (x : XTable) (n : Nat) : Option XEntry :=
  match x with
  | [] => none
  | (k, v) :: rest => if k = n then some v else XTable.get rest n

/-- `BTreeMap::insert` (overwrite) -/
def XTable.insert (x : XTable) (n : Nat) (v : XEntry) : XTable :=
  match x with
  | [] => [(n, v)]
  | (k, v') :: rest => if k = n then (k, v) :: rest else (k, v') :: XTable.insert rest n v

/-- `Xref::merge`: only add entries that do not exist already -/
def XTable.merge (x y : XTable) : XTable :=
  y.foldl (fun acc (k, v) => match acc.get k with | some _ => acc | none => acc ++ [(k, v)]) x

def insertSorted (k : Nat) (v : XEntry) : XTable → XTable
  | [] => [(k, v)]
  | (k', v') :: rest =>
    if k < k' then (k, v) :: (k', v') :: rest
    else if k = k' then (k, v) :: rest                 -- a map has one binding per key
    else (k', v') :: insertSorted k v rest

/-- ascending key order (BTreeMap iteration); of several bindings of a key the first (valid) one -/
def XTable.sorted (x : XTable) : XTable := x.foldr (fun (k, v) acc => insertSorted k v acc) []

def XTable.maxId (x : XTable) : Nat := x.foldl (fun m (k, _) => max m k) 0

/-- `stream.dict.has_type(t)`: `Type` is the name `t` (no Linearized fallback) -/
def Dict.getTypeIs (d : Dict) (t : Bytes) : Bool :=
  match (d.get TYPE).bind Obj.asName with
  | some n => n == t
  | none => false

def U64 : Nat := 18446744073709551616
def U32 : Nat := 4294967296

/-! ### header -/

def notEol (b : UInt8) : Bool := b != 13 && b != 10

/-- `many0_count(comment)` -/
def skipComments : Nat → Bytes → Bytes
  | 0, inp => inp
  | n + 1, inp => match comment inp with | some r => skipComments n r | none => inp

/-- is the byte string valid UTF-8 (`str::from_utf8`) -/
def validUtf8 : Bytes → Bool
  | [] => true
  | b :: rest =>
    if b < 128 then validUtf8 rest
    else if 194 ≤ b && b ≤ 223 then
      match rest with
      | c :: r => (128 ≤ c && c ≤ 191) && validUtf8 r
      | _ => false
    else if 224 ≤ b && b ≤ 239 then
      match rest with
      | c :: d :: r =>
        let lo : UInt8 := if b = 224 then 160 else 128
        let hi : UInt8 := if b = 237 then 159 else 191
        (lo ≤ c && c ≤ hi) && (128 ≤ d && d ≤ 191) && validUtf8 r
      | _ => false
    else if 240 ≤ b && b ≤ 244 then
      match rest with
      | c :: d :: e :: r =>
        let lo : UInt8 := if b = 240 then 144 else 128
        let hi : UInt8 := if b = 244 then 143 else 191
        (lo ≤ c && c ≤ hi) && (128 ≤ d && d ≤ 191) && (128 ≤ e && e ≤ 191) && validUtf8 r
      | _ => false
    else false

/-- `parser::header`: `%PDF-` text eol comment* ; the text must be UTF-8 -/
def pHeader (inp : Bytes) : Option Bytes :=
  (tag PDF_KW inp).bind fun r =>
    let (v, r1) := spanP notEol r
    (eol r1).bind fun _ => if validUtf8 v then some v else none

/-- `parser::binary_mark`: `%` bytes eol -/
def pBinaryMark (inp : Bytes) : Option Bytes :=
  match inp with
  | 37 :: r =>
    let (v, r1) := spanP notEol r
    (eol r1).map fun _ => v
  | _ => none

/-- first index of `pat` in `b` at or after `from` (naive search) -/
def findFrom (pat : Bytes) : Nat → Bytes → Nat → Option Nat
  | 0, _, _ => none
  | fuel + 1, b, i =>
    match b with
    | [] => none
    | _ :: rest => if pat.isPrefixOf b then some i else findFrom pat fuel rest (i + 1)

/-- last index of `pat` in `b` at or after `start` — what `Reader::search_substring` returns
(it recurses to the last occurrence) -/
def searchLast (pat : Bytes) (b : Bytes) (start : Nat) : Option Nat :=
  let tail := b.drop start
  let rec go : Nat → Bytes → Nat → Option Nat → Option Nat
    | 0, _, _, acc => acc
    | fuel + 1, t, i, acc =>
      match t with
      | [] => acc
      | _ :: rest => go fuel rest (i + 1) (if pat.isPrefixOf t then some i else acc)
  go (tail.length + 1) tail start none

def EOF_MARK : Bytes := [37, 37, 69, 79, 70]
def STARTXREF : Bytes := [115, 116, 97, 114, 116, 120, 114, 101, 102]

/-- `many0(tag(" "))` -/
def skipSpaces (inp : Bytes) : Bytes := (spanP (· == 32) inp).2

/-- `parser::xref_start`: `startxref` eol spaces integer spaces eol `%%EOF` space -/
def pXrefStart (inp : Bytes) : Option Int :=
  (tag STARTXREF inp).bind fun r0 => (eol r0).bind fun (_, r1) =>
    (pInteger (skipSpaces r1)).bind fun (v, r2) =>
      (eol (skipSpaces r2)).bind fun (_, r3) => (tag EOF_MARK r3).map fun _ => v

/-- `Reader::get_xref_start` -/
def getXrefStart (b : Bytes) : Option Nat :=
  let seek := b.length - min b.length 512
  (searchLast EOF_MARK b seek).bind fun eofPos =>
    if eofPos > 25 then
      (searchLast STARTXREF b (eofPos - 25)).bind fun xp =>
        (pXrefStart (b.drop xp)).map fun v => if v < 0 then U64 - (v.natAbs % U64) else v.toNat
    else none

/-! ### cross-reference table -/

def xrefEol : Bytes → Option Bytes
  | 32 :: 13 :: r => some r
  | 32 :: 10 :: r => some r
  | 13 :: 10 :: r => some r
  | _ => none

/-- one table entry: `<u32> <u32> [nf]` xref_eol -/
def pXrefEntry (inp : Bytes) : Option ((Nat × Nat × Bool) × Bytes) :=
  (pUnsigned U32_MAX inp).bind fun (off, r1) =>
    match r1 with
    | 32 :: r2 =>
      (pUnsigned U32_MAX r2).bind fun (g, r3) =>
        match r3 with
        | 32 :: k :: r4 =>
          if k = 110 || k = 102 then (xrefEol r4).map fun r5 => ((off, g, k == 110), r5) else none
        | _ => none
    | _ => none

def manyXrefEntries : Nat → Bytes → List (Nat × Nat × Bool) × Bytes
  | 0, inp => ([], inp)
  | n + 1, inp =>
    match pXrefEntry inp with
    | some (e, r) => let (es, r') := manyXrefEntries n r; (e :: es, r')
    | none => ([], inp)

def USIZE_MAX : Nat := 18446744073709551615

/-- section header `<usize> <u32>` opt(" ") eol, then the entries -/
def pXrefSection (inp : Bytes) : Option ((Nat × List (Nat × Nat × Bool)) × Bytes) :=
  (pUnsigned USIZE_MAX inp).bind fun (start, r1) =>
    match r1 with
    | 32 :: r2 =>
      (pUnsigned U32_MAX r2).bind fun (_, r3) =>
        let r4 := match r3 with | 32 :: r => r | r => r
        (eol r4).map fun (_, r5) =>
          let (es, r6) := manyXrefEntries (r5.length + 1) r5
          ((start, es), r6)
    | _ => none

/-- insert the in-use entries of one section; `start + index` is checked `usize` arithmetic -/
def addSection (x : XTable) (start : Nat) : List (Nat × Nat × Bool) → Nat → Outcome XTable
  | [], _ => .ok x
  | (off, g, isN) :: rest, idx =>
    if isN then
      if g ≤ U16_MAX then
        -- `start.checked_add(index)`: entries whose number does not fit `usize` are skipped
        if start + idx ≥ U64 then addSection x start rest (idx + 1)
        else addSection (x.insert ((start + idx) % U32) (.normal off g)) start rest (idx + 1)
      else addSection x start rest (idx + 1)
    else addSection x start rest (idx + 1)

/-- `fold_many1(xref_section)` -/
def foldSections : Nat → Bytes → XTable → Bool → Outcome (Option (XTable × Bytes))
  | 0, inp, x, any => .ok (if any then some (x, inp) else none)
  | n + 1, inp, x, any =>
    match pXrefSection inp with
    | some ((start, es), r) =>
      (match addSection x start es 0 with
       | .ok x' => foldSections n r x' true
       | .err e => .err e
       | .panic s => .panic s)
    | none => .ok (if any then some (x, inp) else none)

/-- `xref`: `xref` eol section+ space -/
def pXref (inp : Bytes) : Outcome (Option (XTable × Bytes)) :=
  match (tag XREF_WORD inp).bind fun r => (eol r).map (·.2) with
  | none => .ok none
  | some r =>
    match foldSections (r.length + 1) r [] false with
    | .ok (some (x, r')) => .ok (some (x, space r'))
    | o => o
where XREF_WORD : Bytes := [120, 114, 101, 102]

def TRAILER_WORD : Bytes := [116, 114, 97, 105, 108, 101, 114]

/-- `dictionary` -/
def pDictionary (inp : Bytes) : Option (Dict × Bytes) :=
  match inp with
  | 60 :: 60 :: r =>
    let fuel := inp.length + 1
    (match dictEntries fuel 1 fuel (space r) [] with
     | some (es, r1) =>
       (match r1 with
        | 62 :: 62 :: r2 => some (es, r2)
        | _ => none)
     | none => none)
  | _ => none

/-- `trailer`: `trailer` space dictionary space -/
def pTrailer (inp : Bytes) : Option (Dict × Bytes) :=
  (tag TRAILER_WORD inp).bind fun r => (pDictionary (space r)).map fun (d, r') => (d, space r')

/-! ### indirect objects and streams -/

def OBJ_WORD : Bytes := [111, 98, 106]
def ENDOBJ_WORD : Bytes := [101, 110, 100, 111, 98, 106]
def STREAM_WORD : Bytes := [115, 116, 114, 101, 97, 109]
def ENDSTREAM_WORD : Bytes := [101, 110, 100, 115, 116, 114, 101, 97, 109]

/-- `space0`: spaces and tabs -/
def space0 (inp : Bytes) : Bytes := (spanP (fun b => b == 32 || b == 9) inp).2

/-- a loaded object: streams without a usable Length carry the position of their data -/
inductive LObj where
  | plain (o : Obj)
  | pending (d : Dict) (startPos : Nat)      -- `Stream::with_position`
  deriving Repr

/-- result of the `stream` parser: `error` lets `alt` fall back to `_direct_objects` -/
inductive SR where
  | ok (o : LObj) (rest : Bytes)
  | error
  | failure
  deriving Repr

/-- `stream(input, reader, already_seen)`. `len` resolves an indirect Length
(`reader.get_object(id).as_i64()`), `none` = lookup failed. `consumedBase` = bytes of the
enclosing input before `inp` (only used for the recorded position). -/
def pStream (len : ObjId → Option Int) (inp : Bytes) : SR :=
  match pDictionary inp with
  | none => .error
  | some (d, r0) =>
    match tag STREAM_WORD (space r0) with
    | none => .error
    | some r1 =>
      match eol (space0 r1) with
      | none => .error
      | some (_, r2) =>
        let length : Option Int :=
          match d.get LENGTH with
          | some (.ref n g) => len (n, g)
          | some (.int i) => some i
          | _ => none
        match length with
        | some l =>
          if l < 0 then .failure
          else
            let n := l.toNat
            if r2.length < n then .error
            else
              let data := r2.take n
              let r3 := r2.drop n
              let r4 := match eol r3 with | some (_, r) => r | none => r3
              match tag ENDSTREAM_WORD r4 with
              | some r5 => .ok (.plain (.stream (d.set LENGTH (.int data.length)) data)) r5
              | none => .error
        | none => .ok (.pending d (inp.length - r2.length)) r2

/-- `_indirect_object(input, offset, expected_id, …)`: returns the id found in the file and the
object; `none` = `Error::IndirectObject` / id mismatch. `base` = offset of `inp` in the file
(stream positions are absolute after `offset_stream`). -/
def pIndirect (len : ObjId → Option Int) (expected : Option ObjId) (base : Nat) (inp : Bytes) :
    Option (ObjId × LObj) :=
  (pUnsigned U32_MAX (space inp)).bind fun (n, r1) =>
    (pUnsigned U16_MAX (space r1)).bind fun (g, r2) =>
      (tag OBJ_WORD (space r2)).bind fun r3 =>
        let r4 := space r3
        let idOk := match expected with | some e => e = (n, g) | none => true
        if !idOk then none else
        let objectOffset := inp.length - r4.length
        match pStream len r4 with
        | .ok (.plain o) _ => some ((n, g), .plain o)
        | .ok (.pending d p) _ => some ((n, g), .pending d (base + objectOffset + p))
        | .failure => none
        | .error =>
          (match directObjects (r4.length + 1) 0 r4 with
           | .ok o _ => some ((n, g), .plain o)
           | _ => none)

/-! ### cross-reference streams (`decode_xref_stream`) -/

def intArray (o : Obj) : Option (List Int) :=
  match o with
  | .arr items => items.mapM Obj.asInt
  | _ => none

/-- `read_big_endian_integer` over `w` bytes: value mod 2^32, `none` = unexpected end -/
def readBE (w : Nat) (data : Bytes) : Option (Nat × Bytes) :=
  if data.length < w then none
  else some ((data.take w).foldl (fun acc (b : UInt8) => (acc * 256 + b.toNat) % U32) 0, data.drop w)

def I64_MIN_ABS : Nat := 9223372036854775808

/-- rows of one `Index` pair. `j` counts up to `count`; `start + j` is unchecked `i64` addition. -/
def xrefRows (w1 w2 w3 : Nat) (start : Int) : Nat → Nat → Bytes → XTable → Outcome (XTable × Bytes)
  | 0, _, data, x => .ok (x, data)
  | todo + 1, j, data, x =>
    let ty : Option (Nat × Bytes) := if w1 = 0 then some (1, data) else readBE w1 data
    match ty with
    | none => .err "eof"
    | some (t, d1) =>
      if t = 0 then
        match readBE w2 d1 with
        | none => .err "eof"
        | some (_, d2) =>
          match readBE w3 d2 with
          | none => .err "eof"
          | some (_, d3) => xrefRows w1 w2 w3 start todo (j + 1) d3 x
      else if t = 1 then
        match readBE w2 d1 with
        | none => .err "eof"
        | some (off, d2) =>
          let g : Option (Nat × Bytes) := if w3 = 0 then some (0, d2) else readBE w3 d2
          match g with
          | none => .err "eof"
          | some (gen, d3) =>
            if start + j > (I64_MAX : Int) then .err "InvalidXref"
            else
              let id := ((start + j) % (U32 : Int)).toNat
              xrefRows w1 w2 w3 start todo (j + 1) d3 (x.insert id (.normal off (gen % 65536)))
      else if t = 2 then
        match readBE w2 d1 with
        | none => .err "eof"
        | some (cont, d2) =>
          match readBE w3 d2 with
          | none => .err "eof"
          | some (idx, d3) =>
            if start + j > (I64_MAX : Int) then .err "InvalidXref"
            else
              let id := ((start + j) % (U32 : Int)).toNat
              xrefRows w1 w2 w3 start todo (j + 1) d3 (x.insert id (.compressed cont (idx % 65536)))
      else
        -- undefined type: a reference to the null object; the other two fields are skipped
        match readBE w2 d1 with
        | none => .err "eof"
        | some (_, d2) =>
          match readBE w3 d2 with
          | none => .err "eof"
          | some (_, d3) => xrefRows w1 w2 w3 start todo (j + 1) d3 x

def xrefSections (w1 w2 w3 : Nat) : List Int → Bytes → XTable → Outcome XTable
  | start :: count :: rest, data, x =>
    (match xrefRows w1 w2 w3 start count.toNat 0 data x with
     | .ok (x', d') => xrefSections w1 w2 w3 rest d' x'
     | .err e => .err e
     | .panic s => .panic s)
  | _, _, x => .ok x

/-- `section_indice.chunks_exact(2).any(|s| s[1] > 0)` -/
def anyPositiveCount : List Int → Bool
  | _ :: count :: rest => count > 0 || anyPositiveCount rest
  | _ => false

/-- `decode_xref_stream` for an unfiltered stream: (entries, Size as u32, trailer dictionary) -/
def decodeXrefStream (d : Dict) (content : Bytes) : Outcome (XTable × Nat × Dict) :=
  if d.has FILTER then .err "ext" else
  match (d.get SIZE).bind Obj.asInt with
  | none => .err "InvalidXref"
  | some size =>
    let index : List Int := match (d.get INDEX).bind intArray with | some l => l | none => [0, size]
    match (d.get W_KEY).bind intArray with
    | some (a :: b :: c :: _) =>
      if a < 0 || b < 0 || c < 0 then .err "InvalidXref" else
      -- widths are bounded by the data; rows without width cannot be counted against the data
      if a > (content.length : Int) || b > (content.length : Int) || c > (content.length : Int)
          || ((a == 0 && b == 0 && c == 0) && anyPositiveCount index) then .err "InvalidXref" else
      (match xrefSections a.toNat b.toNat c.toNat index content [] with
       | .ok x =>
         let d1 := ((d.remove LENGTH).remove W_KEY).remove INDEX
         .ok (x, (size % (U32 : Int)).toNat, d1)
       | .err e => .err e
       | .panic s => .panic s)
    | _ => .err "InvalidXref"

/-- `xref_and_trailer` at the given input (reader with an empty reference table: an indirect
Length cannot be resolved): (entries, size, trailer) -/
def xrefAndTrailer (inp : Bytes) : Outcome (XTable × Nat × Dict) :=
  match pXref inp with
  | .panic s => .panic s
  | .err e => .err e
  | .ok (some (x, r)) =>
    (match pTrailer r with
     | some (tr, _) =>
       (match (tr.get SIZE).bind Obj.asInt with
        | some size => .ok (x, (size % (U32 : Int)).toNat, tr)
        | none => .err "InvalidTrailer")
     | none => xrefStreamAlt inp)
  | .ok none => xrefStreamAlt inp
where
  xrefStreamAlt (inp : Bytes) : Outcome (XTable × Nat × Dict) :=
    match pIndirect (fun _ => none) none 0 inp with
    | some (_, .plain (.stream d c)) => decodeXrefStream d c
    | some (_, .pending d _) => decodeXrefStream d []
    | _ => .err "InvalidTrailer"

def PREV : Bytes := [80, 114, 101, 118]
def XREFSTM : Bytes := [88, 82, 101, 102, 83, 116, 109]

/-- hybrid-reference files: merge the cross-reference stream named by `XRefStm` -/
def hybridMerge (buf : Bytes) (x1 : XTable) (stm : Option Obj) : Outcome XTable :=
  match stm.bind Obj.asInt with
  | none => .ok x1
  | some p =>
    if p < 0 || p.toNat > buf.length then .err "StreamStart"
    else match xrefAndTrailer (buf.drop p.toNat) with
      | .ok (sx, _, _) => .ok (x1.merge sx)
      | .err e => .err e
      | .panic s => .panic s

/-- the `Prev` loop of `Reader::read`: `seen` = already visited offsets; fuel = number of
possible distinct offsets + 1 (the `already_seen` guard makes every round use a new offset) -/
def prevLoop (buf : Bytes) : Nat → Option Obj → List Int → XTable → Dict → Outcome (XTable × Dict)
  | 0, _, _, x, tr => .ok (x, tr)
  | fuel + 1, prevObj, seen, x, tr =>
    match prevObj.bind Obj.asInt with
    | none => .ok (x, tr)
    | some prev =>
      if seen.contains prev then .ok (x, tr)
      else if prev < 0 || prev.toNat > buf.length then .err "PrevStart"
      else
        match xrefAndTrailer (buf.drop prev.toNat) with
        | .panic s => .panic s
        | .err e => .err e
        | .ok (px, _, ptr) =>
          let x1 := x.merge px
          -- hybrid-reference: `trailer.remove(XRefStm)` on the NEWEST trailer
          let stm := tr.get XREFSTM
          let tr1 := tr.remove XREFSTM
          let x2 : Outcome XTable := hybridMerge buf x1 stm
          match x2 with
          | .ok x3 => prevLoop buf fuel (ptr.get PREV) (prev :: seen) x3 tr1
          | .err e => .err e
          | .panic s => .panic s

/-! ### objects -/

/-- `Reader::get_object(id, already_seen)` restricted to what `stream` needs: the integer
value of the object `id` (for an indirect Length). Fuel = entries not yet seen. -/
def lengthOf (buf : Bytes) (x : XTable) : Nat → List ObjId → ObjId → Option Int
  | 0, _, _ => none
  | fuel + 1, seen, id =>
    if seen.contains id then none else
    match x.get id.1 with
    | some (.normal off g) =>
      if g ≠ id.2 then none
      else if off > buf.length then none
      else
        match pIndirect (lengthOf buf x fuel (id :: seen)) (some id) off (buf.drop off) with
        | some (_, .plain (.int i)) => some i
        | _ => none
    | _ => none

def N_KEY : Bytes := [78]
def FIRST : Bytes := [70, 105, 114, 115, 116]

def isUnicodeWs (b : UInt8) : Bool := b == 32 || (9 ≤ b && b ≤ 13)

/-- `split_whitespace` on an ASCII index block (non-ASCII blocks: see `objStmObjects`) -/
def splitWs : Nat → Bytes → List Bytes
  | 0, _ => []
  | f + 1, inp =>
    let r := (spanP isUnicodeWs inp).2
    match spanP (fun b => !isUnicodeWs b) r with
    | ([], _) => []
    | (w, r') => w :: splitWs f r'

/-- `u32::from_str`: optional `+`, digits, ≤ u32::MAX -/
def u32FromStr (w : Bytes) : Option Nat :=
  let ds := match w with | 43 :: r => r | r => r
  if ds.isEmpty || !ds.all isDigit then none
  else let v := digitsVal ds; if v ≤ U32_MAX then some v else none

/-- `collect::<BTreeMap<_,_>>()` of (id, object) pairs: later pairs overwrite earlier ones
(kept at the position of the first occurrence; the order is irrelevant for the merge) -/
def dedupLast (l : List (ObjId × Obj)) : List (ObjId × Obj) :=
  l.foldl (fun (acc : List (ObjId × Obj)) (p : ObjId × Obj) =>
    if acc.any (fun q => q.1 == p.1) then acc.map (fun q => if q.1 == p.1 then (q.1, p.2) else q) else acc ++ [p]) []

/-- `ObjectStream::new` on an unfiltered stream: the (id, object) pairs in index order -/
def objStmObjects (d : Dict) (content : Bytes) : Outcome (List (ObjId × Obj)) :=
  if d.has FILTER then .err "ext" else
  if content.isEmpty then .ok [] else
  match (d.get FIRST).bind Obj.asInt with
  | none => .err "First"
  | some f =>
    if f < 0 then .err "NumericCast" else
    let first := f.toNat
    if first > content.length then .err "InvalidOffset" else
    let block := content.take first
    if !(block.all fun b => b < 128) then .err "ext" else     -- non-ASCII index: Unicode white-space rules, not modelled
    match (d.get N_KEY).bind Obj.asInt with
    | none => .err "N"
    | some _ =>
      let nums := (splitWs (block.length + 1) block).map u32FromStr
      -- the pairs are collected into a `BTreeMap`: a number listed twice keeps its LAST object
      .ok (dedupLast (pairs first nums []))
where
  /-- `seen`: the offsets listed so far (`seen_offsets`, filled from every pair whose offset is a number, whatever its
  object number): an offset that is listed again is ignored (lopdf fix: an object is stored once) -/
  pairs (first : Nat) : List (Option Nat) → List Nat → List (ObjId × Obj)
    | a :: b :: rest, seen =>
      match b with
      | none => pairs first rest seen
      | some off =>
        let dup := seen.contains off
        let tail := pairs first rest (if dup then seen else off :: seen)
        match a with
        | none => tail
        | some id =>
          let o := first + off
          if dup then tail
          else if o ≥ content.length then tail
          else match parseDirect (content.drop o) with
            | some (obj, _) => ((id, 0), obj) :: tail
            | none => tail
    | _, _ => []

abbrev LObjects := List (ObjId × LObj)

def LObjects.get (os : LObjects) (id : ObjId) : Option LObj :=
  match os with
  | [] => none
  | (i, o) :: rest => if i = id then some o else LObjects.get rest id

/-- `BTreeMap` insert (overwrite) keeping first position -/
def LObjects.insert (os : LObjects) (id : ObjId) (o : LObj) : LObjects :=
  match os with
  | [] => [(id, o)]
  | (i, o') :: rest => if i = id then (i, o) :: rest else (i, o') :: LObjects.insert rest id o

def idLe (a b : ObjId) : Bool := a.1 < b.1 || (a.1 = b.1 && a.2 ≤ b.2)

def insertSortedO (k : ObjId) (v : Obj) : Objects → Objects
  | [] => [(k, v)]
  | (k', v') :: rest => if idLe k k' then (k, v) :: (k', v') :: rest else (k', v') :: insertSortedO k v rest

structure Loaded where
  version : Bytes
  binaryMark : Bytes
  trailer : Dict
  objects : Objects
  maxId : Nat
  xrefStart : Nat
  deriving Repr

def ENCRYPT : Bytes := [69, 110, 99, 114, 121, 112, 116]
def DEFAULT_MARK : Bytes := [187, 173, 192, 222]

/-- `Document::dereference`-based `get_stream_length` on the loaded objects -/
def derefL (os : LObjects) : Nat → Obj → Option Obj
  | n, .ref a b =>
    match os.get (a, b) with
    | some (.plain o') => (match n with | 0 => none | n + 1 => derefL os n o')
    | some (.pending d _) => (match n with | 0 => none | _ + 1 => some (.stream d []))
    | none => none
  | _, o => some o

/-- one block of object-stream members: the number under which the cross-reference table lists
the container, and the container's (id, object) pairs -/
abbrev Block := Nat × List (ObjId × Obj)

/-- `entry(id).or_insert(..)` over the blocks in the given order — never replacing an object that
is already there. -/
def mergeBlocks (os : LObjects) (blocks : List Block) : LObjects :=
  (blocks.map (·.2)).flatten.foldl (fun (acc : LObjects) (p : ObjId × Obj) =>
    match acc.get p.1 with | some _ => acc | none => acc ++ [(p.1, .plain p.2)]) os

def insertBlockSorted (b : Block) : List Block → List Block
  | [] => [b]
  | b' :: rest => if b.1 ≤ b'.1 then b :: b' :: rest else b' :: insertBlockSorted b rest

/-- blocks in container order (`sort_by_key`, stable) -/
def sortBlocks (bs : List Block) : List Block := bs.foldr insertBlockSorted []

/-- the cross-reference table does not place the current version of `id` in ANOTHER container -/
def xrefAllows (x : XTable) (cont : Nat) (id : ObjId) : Bool :=
  match x.get id.1 with
  | some (.compressed c _) => c == cont
  | _ => true

def filterBlock (x : XTable) (b : Block) : Block := (b.1, b.2.filter fun p => xrefAllows x b.1 p.1)

/-- the final merge of `Reader::read`: the members arrive block by block in the order in which the
worker threads finished (`arrived`); they are sorted by container, members whose current version
the cross-reference table places in another container are skipped, the rest is `or_insert`ed. -/
def mergeBlocksX (x : XTable) (os : LObjects) (arrived : List Block) : LObjects :=
  mergeBlocks os ((sortBlocks arrived).map (filterBlock x))

/-- hook H1 (`verif_hooks::reorder_blocks`): the blocks named by `order` (indices into the
container-sorted blocks; a slot is taken at most once), then the blocks not named -/
def permuteGo (slots : List (Option Block)) : List Nat → List Block
  | [] => slots.filterMap id
  | i :: rest =>
    match slots[i]? with
    | some (some b) => b :: permuteGo (slots.set i none) rest
    | _ => permuteGo slots rest

def permuteBlocks (bs : List Block) (order : List Nat) : List Block :=
  permuteGo ((sortBlocks bs).map some) order

/-- what `Reader::read_stream_content` makes of the deferred stream `id` (a stream whose Length
could not be resolved while parsing): the content is read through the Length that is known now;
`none`: the stream stays as it is (no usable Length) -/
def completed (buf : Bytes) (os : LObjects) (id : ObjId) : Option LObj :=
  match os.get id with
  | some (.pending d start) =>
    (match ((d.get LENGTH).bind (derefL os DEREF_LIMIT)).bind Obj.asInt with
     | some l =>
       if l < 0 then none
       else if start + l.toNat > buf.length then none
       else
         let c := (buf.drop start).take l.toNat
         some (.plain (.stream (d.set LENGTH (.int c.length)) c))
     | none => none)
  | _ => none

def completeOne (buf : Bytes) (os : LObjects) (id : ObjId) : LObjects :=
  match completed buf os id with
  | some v => os.insert id v
  | none => os

/-- ids of the deferred streams, in the order the sequential reader records them -/
def pendingIds (os : LObjects) : List ObjId :=
  os.filterMap fun (p : ObjId × LObj) => match p.2 with | .pending _ _ => some p.1 | .plain _ => none

/-- hook H2 (`verif_hooks::reorder_zero_length`): ascending ids rotated by `k`, reversed when `k` is odd -/
def insertId (a : ObjId) : List ObjId → List ObjId
  | [] => [a]
  | b :: r => if idLe a b then a :: b :: r else b :: insertId a r

def sortIds (l : List ObjId) : List ObjId := l.foldr insertId []

def reorderZero (k : Nat) (ids : List ObjId) : List ObjId :=
  let s := sortIds ids
  let m := if s.isEmpty then 0 else k % s.length
  let r := s.drop m ++ s.take m              -- `rotate_left(m)`
  if k % 2 = 1 then r.reverse else r

/-- one step of the object-loading pass of `Reader::read`: read the object of an in-use entry
(container objects also contribute a block of members) -/
def loadStep (buf : Bytes) (x : XTable) (nEntries : Nat) (acc : Outcome (LObjects × List Block)) (e : Nat × XEntry) :
    Outcome (LObjects × List Block) :=
  match acc with
  | .ok (os, fromStm) =>
    (match e.2 with
     | .normal off _ =>
       if off > buf.length then .ok (os, fromStm) else
       (match pIndirect (lengthOf buf x (nEntries + 1) []) none off (buf.drop off) with
        | none => .ok (os, fromStm)
        | some (id, lo) =>
          (match lo with
           | .plain (.stream d c) =>
             if Dict.getTypeIs d OBJSTM then
               (match objStmObjects d c with
                | .ok objs => .ok (os.insert id lo, fromStm ++ [(e.1, objs)])
                | .err "ext" => .err "ext"
                | .err _ => .ok (os, fromStm)       -- `ObjectStream::new(..).ok()?` drops the container too
                | .panic s => .panic s)
             else .ok (os.insert id lo, fromStm)
           | .pending d _ =>
             -- a container whose content could not be delimited while parsing: `ObjectStream::new` runs on the still-empty
             -- stream (no members) and the stream is NOT put on the deferred list (that happens in the `else` branch of the
             -- ObjStm test): it stays empty. With a `Filter` the in-place `decompress()` also rewrites the dictionary: `ext`.
             if Dict.getTypeIs d OBJSTM then
               (if d.has FILTER then .err "ext" else .ok (os.insert id (.plain (.stream d [])), fromStm ++ [(e.1, [])]))
             else .ok (os.insert id lo, fromStm)
           | _ => .ok (os.insert id lo, fromStm)))
     | .compressed _ _ => .ok (os, fromStm))
  | o => o

/-- `Reader::read`; `arr` and `arr2` are the schedule: they map the object-stream blocks, and the
ids of the deferred streams, from the order in which the sequential reader records them (ascending
cross-reference key) to the order in which the worker threads record them -/
def loadDocWith (arr : List Block → List Block) (arr2 : List ObjId → List ObjId) (file : Bytes) : Outcome Loaded :=
  let offset := match findFrom PDF_KW (file.length + 1) file 0 with | some i => i | none => 0
  let buf := file.drop offset
  match pHeader buf with
  | none => .err "InvalidFileHeader"
  | some version =>
    let mark : Bytes :=
      match findFrom [10] (buf.length + 1) buf 0 with
      | some pos =>
        (match pBinaryMark (buf.drop (pos + 1)) with
         | some m => if m.all (fun b => b ≥ 128) then m else DEFAULT_MARK
         | none => DEFAULT_MARK)
      | none => DEFAULT_MARK
    match getXrefStart buf with
    | none => .err "XrefStart"
    | some xs =>
      if xs > buf.length then .err "XrefStart" else
      match xrefAndTrailer (buf.drop xs) with
      | .panic s => .panic s
      | .err e => .err e
      | .ok (x0, size0, tr0) =>
        let prevObj := tr0.get PREV
        let tr1 := tr0.remove PREV
        match prevLoop buf (buf.length + 2) prevObj [] x0 tr1 with
        | .panic s => .panic s
        | .err e => .err e
        | .ok (x, tr) =>
          if x.maxId + 1 ≥ U32 then .err "InvalidXref" else
          let size := x.maxId + 1
          let _ := size0
          if tr.has ENCRYPT then .err "ext" else
          let xs' := x.sorted
          let nEntries := xs'.length
          -- read every in-use object
          match xs'.foldl (loadStep buf x nEntries) (.ok ([], [])) with
          | .panic s => .panic s
          | .err e => .err e
          | .ok (os, fromStm) =>
            -- object-stream members never replace an object already loaded
            let arrived := arr fromStm
            let os1 := mergeBlocksX x os arrived
            -- zero-length streams: read the content through the (now known) Length, one stream after
            -- the other in the order in which their ids were recorded
            let os2 := (arr2 (pendingIds os1)).foldl (completeOne buf) os1
            let fin := os2.map fun (p : ObjId × LObj) =>
              match p.2 with
              | .plain o => (p.1, o)
              | .pending d _ => (p.1, Obj.stream d [])
            let objects := fin.foldr (fun (p : ObjId × Obj) acc => insertSortedO p.1 p.2 acc) []
            .ok { version := version, binaryMark := mark, trailer := tr, objects := objects,
                  maxId := size - 1, xrefStart := xs }

/-- `order = none`: the sequential order; `some p`: the arrival order chosen through hook H1;
`zero = some k`: the completion order chosen through hook H2 -/
def loadDocOrd2 (order : Option (List Nat)) (zero : Option Nat) (file : Bytes) : Outcome Loaded :=
  loadDocWith (match order with | none => id | some p => fun bs => permuteBlocks bs p)
    (match zero with | none => id | some k => reorderZero k) file

def loadDocOrd (order : Option (List Nat)) (file : Bytes) : Outcome Loaded := loadDocOrd2 order none file

def loadDoc (file : Bytes) : Outcome Loaded := loadDocOrd none file

end Lopdf
