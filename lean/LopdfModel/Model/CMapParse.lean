import LopdfModel.Model.CMap
import LopdfModel.Gen.Consts
/-
  C15 — model of the ToUnicode CMap grammar of src/parser/cmap_parser.rs
  (`cmap_stream` and everything below it), production by production, with nom's
  three outcomes: success, recoverable `Error` (tried alternatives / end of a `many`)
  and `Failure` (propagates: produced by `create_code_len_err`).

  Restriction (stated, not hidden): the value of `/CIDSystemInfo` is parsed by lopdf's
  general PDF object parser (`dictionary` / `dict_dup`). Here only the simple shapes
  are modelled — `<< (/Name value)* >>` and `N dict dup begin (/Name value def)* end`
  with values that are unescaped literal strings, unsigned integers or names.
  On anything else the model answers `error`, which the correspondence would flag as a
  disagreement rather than silently accept.

  `many` loops take the input length as fuel: every iteration consumes at least one
  byte (nom itself reports an error on a non-consuming iteration), so the fuel never
  runs out; no termination claim rests on this file.
-/
namespace Lopdf.CMap
open Lopdf Lopdf.Gen

inductive PR (α : Type) where
  | ok (a : α) (rest : Bytes)
  | error
  | failure
  deriving Repr

namespace PR
def bind {α β} (x : PR α) (f : α → Bytes → PR β) : PR β :=
  match x with
  | ok a r => f a r
  | error => error
  | failure => failure
end PR

/-- `tag(t)` -/
def ptag (t : Bytes) (i : Bytes) : PR Unit :=
  if t.isPrefixOf i then .ok () (i.drop t.length) else .error

def ptagS (s : String) (i : Bytes) : PR Unit := ptag (strBytes s) i

/-- `alt((a, b))`: `b` only after a recoverable error of `a` -/
def palt {α} (a b : Bytes → PR α) (i : Bytes) : PR α :=
  match a i with
  | .error => b i
  | r => r

/-- sequencing that drops the unit result -/
def pthen {α} (a : Bytes → PR Unit) (b : Bytes → PR α) (i : Bytes) : PR α :=
  (a i).bind fun _ r => b r

infixr:60 " >>> " => pthen

/-- `space0`: `[ \t]*` -/
def space0 : Bytes → Bytes
  | b :: rest => if b = 32 ∨ b = 9 then space0 rest else b :: rest
  | [] => []

def pspace0 (i : Bytes) : PR Unit := .ok () (space0 i)

/-- `space1`: `[ \t]+` -/
def pspace1 (i : Bytes) : PR Unit :=
  match i with
  | b :: rest => if b = 32 ∨ b = 9 then .ok () (space0 rest) else .error
  | [] => .error

/-- `comment` = `%` take_while(not CR/LF) eol; returns the input AT the eol (the caller's
loop consumes the eol bytes as white space, which is the same set of consumed bytes). -/
def skipToEol : Bytes → Option Bytes
  | [] => none                    -- no eol: `comment` fails
  | b :: rest => if b = 10 ∨ b = 13 then some (b :: rest) else skipToEol rest

/-- `multispace0`: spaces, tabs, eols and comments -/
def msGo : Nat → Bytes → Bytes
  | 0, i => i
  | fuel + 1, i =>
    match i with
    | [] => []
    | b :: rest =>
      if b = 32 ∨ b = 9 ∨ b = 10 ∨ b = 13 then msGo fuel rest
      else if b = 37 then
        match skipToEol rest with
        | some r => msGo fuel r
        | none => i
      else i

def multispace0 (i : Bytes) : Bytes := msGo (i.length + 1) i
def pms0 (i : Bytes) : PR Unit := .ok () (multispace0 i)
def pms1 (i : Bytes) : PR Unit :=
  let r := multispace0 i
  if r.length < i.length then .ok () r else .error

/-- PDF `space` of parser/mod.rs: `is_whitespace` bytes and comments -/
def pdfSpaceGo : Nat → Bytes → Bytes
  | 0, i => i
  | fuel + 1, i =>
    match i with
    | [] => []
    | b :: rest =>
      if WHITESPACE.contains b then pdfSpaceGo fuel rest
      else if b = 37 then
        match skipToEol rest with
        | some (_ :: r) => pdfSpaceGo fuel r     -- comment incl. one eol byte; a following LF is white space anyway
        | _ => i
      else i
def pdfSpace (i : Bytes) : Bytes := pdfSpaceGo (i.length + 1) i

/-- `digit1` -/
def takeDigits : Bytes → Bytes
  | b :: rest => if isDigit b then takeDigits rest else b :: rest
  | [] => []
def pdigit1 (i : Bytes) : PR Unit :=
  match i with
  | b :: _ => if isDigit b then .ok () (takeDigits i) else .error
  | [] => .error

/-- `hex_char`: exactly two hex digits -/
def phexChar (i : Bytes) : PR Nat :=
  match i with
  | a :: b :: rest =>
    if isHexDigit a && isHexDigit b then .ok ((hexVal a).toNat * 16 + (hexVal b).toNat) rest else .error
  | _ => .error

/-- `many_m_n(1, max, p)` for a consuming `p` that never fails hard -/
def manyUpTo {α} (p : Bytes → PR α) : Nat → Bytes → List α × Bytes
  | 0, i => ([], i)
  | n + 1, i =>
    match p i with
    | .ok a r => let (as, r') := manyUpTo p n r; (a :: as, r')
    | _ => ([], i)

/-- `source_code`: `<` 1..4 hex bytes `>` → (value, length) -/
def psourceCode (i : Bytes) : PR (Nat × Nat) :=
  (ptagS "<" i).bind fun _ r =>
    let (bs, r') := manyUpTo phexChar CMAP_SRC_MAX r
    if bs.length < CMAP_SRC_MIN then .error
    else (ptagS ">" r').bind fun _ r'' =>
      .ok (bs.foldl (fun acc b => acc * 256 + b) 0, bs.length) r''

/-- `terminated(hex_u16, multispace0)` -/
def pu16ms (i : Bytes) : PR Nat :=
  (phexChar i).bind fun h1 r => (phexChar r).bind fun h2 r' => .ok (h1 * 256 + h2) (multispace0 r')

/-- `target_string` -/
def ptargetString (i : Bytes) : PR (List Nat) :=
  (ptagS "<" i).bind fun _ r =>
    let (us, r') := manyUpTo pu16ms CMAP_DST_MAX r
    if us.length < CMAP_DST_MIN then .error
    else (ptagS ">" r').bind fun _ r'' => .ok us r''

/-- `code_range_pair`: a length mismatch is a hard `Failure` -/
def pcodeRangePair (i : Bytes) : PR (Nat × Nat × Nat) :=
  (psourceCode i).bind fun (lo, l1) r =>
    (psourceCode (space0 r)).bind fun (hi, l2) r' =>
      if l1 ≠ l2 then .failure else .ok (lo, hi, l1) r'

/-- `separated_list1(space1, target_string)`: after a separator that is not followed by an
element the list ends BEFORE that separator. -/
def sepListGo : Nat → Bytes → List (List Nat) × Bytes
  | 0, i => ([], i)
  | fuel + 1, i =>
    match pspace1 i with
    | .ok _ r =>
      match ptargetString r with
      | .ok t r' => let (ts, r'') := sepListGo fuel r'; (t :: ts, r'')
      | _ => ([], i)
    | _ => ([], i)

def prangeTargetArray (i : Bytes) : PR (List (List Nat)) :=
  (ptagS "[" i).bind fun _ r =>
    (ptargetString (space0 r)).bind fun t r' =>
      let (ts, r'') := sepListGo r'.length r'
      (ptagS "]" (space0 r'')).bind fun _ r3 => .ok (t :: ts) r3

/-- `target_string.map(|res| vec![res])` -/
def ptargetSingle (i : Bytes) : PR (List (List Nat)) :=
  (ptargetString i).bind fun t k => .ok [t] k

/-- `bf_range_line` -/
def pbfRangeLine (i : Bytes) : PR ((Nat × Nat × Nat) × List (List Nat)) :=
  (pcodeRangePair (space0 i)).bind fun rng r =>
    let r := space0 r
    (palt ptargetSingle prangeTargetArray r).bind fun dsts r' =>
      (pms1 r').bind fun _ r'' => .ok (rng, dsts) r''

/-- `bf_char_line` -/
def pbfCharLine (i : Bytes) : PR ((Nat × Nat) × List Nat) :=
  (psourceCode (space0 i)).bind fun code r =>
    (ptargetString (space0 r)).bind fun t r' =>
      (pms1 r').bind fun _ r'' => .ok (code, t) r''

/-- codespace line -/
def pcsLine (i : Bytes) : PR (Nat × Nat × Nat) :=
  (pcodeRangePair (space0 i)).bind fun rng r => (pms1 r).bind fun _ r' => .ok rng r'

/-- `many0(p)`: stops at a recoverable error, propagates a failure -/
def many0Go {α} (p : Bytes → PR α) : Nat → Bytes → PR (List α)
  | 0, i => .ok [] i
  | fuel + 1, i =>
    match p i with
    | .ok a r =>
      if r.length ≥ i.length then .error          -- nom: non-consuming iteration
      else (many0Go p fuel r).bind fun as r' => .ok (a :: as) r'
    | .error => .ok [] i
    | .failure => .failure

/-- `many1(p)` -/
def pmany1 {α} (p : Bytes → PR α) (i : Bytes) : PR (List α) :=
  (p i).bind fun a r =>
    if r.length ≥ i.length then .error
    else (many0Go p r.length r).bind fun as r' => .ok (a :: as) r'

def psectionOf {α} (beginKw endKw : String) (line : Bytes → PR α) (i : Bytes) : PR (List α) :=
  (pdigit1 >>> pspace1 >>> ptagS beginKw >>> pms1 >>> pmany1 line) i |>.bind fun ls r =>
    (ptagS endKw >>> pms1) r |>.bind fun _ r' => .ok ls r'

def pcsSection (i : Bytes) : PR Section :=
  (psectionOf "begincodespacerange" "endcodespacerange" pcsLine i).bind fun ls r => .ok (.csRange ls) r
def pbfCharSection (i : Bytes) : PR Section :=
  (psectionOf "beginbfchar" "endbfchar" pbfCharLine i).bind fun ls r => .ok (.bfChar ls) r
def pbfRangeSection (i : Bytes) : PR Section :=
  (psectionOf "beginbfrange" "endbfrange" pbfRangeLine i).bind fun ls r => .ok (.bfRange ls) r

/-- `cmap_codespace_and_mappings` -/
def psections (i : Bytes) : PR (List Section) :=
  pmany1 (palt pcsSection (palt pbfCharSection pbfRangeSection)) i

/-! metadata -/

def isRegular (b : UInt8) : Bool := !(WHITESPACE.contains b) && !(DELIMITERS.contains b)

/-- body of `name` after the `/` -/
def nameBody : Bytes → Bytes
  | [] => []
  | b :: rest =>
    if b = 35 then
      match rest with
      | x :: y :: rest' => if isHexDigit x && isHexDigit y then nameBody rest' else b :: rest
      | _ => b :: rest
    else if isRegular b then nameBody rest else b :: rest

def pname (i : Bytes) : PR Unit := (ptagS "/" i).bind fun _ r => .ok () (nameBody r)

/-- restricted `_direct_object`: unescaped literal string | unsigned integer | name, then PDF `space` -/
def simpleLit : Bytes → Option Bytes
  | [] => none
  | b :: rest => if b = 41 then some rest else if NOT_DIRECT_LITERAL.contains b then none else simpleLit rest

def psimpleValue (i : Bytes) : PR Unit :=
  match i with
  | [] => .error
  | b :: rest =>
    if b = 40 then
      match simpleLit rest with
      | some r => .ok () (pdfSpace r)
      | none => .error
    else if isDigit b then
      let r := takeDigits i
      -- `reference` / `real` come before `integer` in the real parser: stay out of their way
      match pdfSpace r with
      | c :: _ => if isDigit c ∨ c = 46 then .error else .ok () (pdfSpace r)
      | [] => .ok () []
    else if b = 47 then .ok () (pdfSpace (nameBody rest))
    else .error

def pdictEntry (i : Bytes) : PR Unit :=
  (pname i).bind fun _ r => psimpleValue (pdfSpace r)

def pdictionary (i : Bytes) : PR Unit :=
  (ptagS "<<" i).bind fun _ r =>
    (many0Go pdictEntry r.length (pdfSpace r)).bind fun _ r' => ptagS ">>" r'

def pdictDupEntry (i : Bytes) : PR Unit :=
  (pdictEntry >>> ptagS "def" >>> pms1) i

def pdictDup (i : Bytes) : PR Unit :=
  (pdigit1 >>> pspace1 >>> ptagS "dict" >>> pspace1 >>> ptagS "dup" >>> pspace1 >>> ptagS "begin" >>> pms1) i
    |>.bind fun _ r => (many0Go pdictDupEntry r.length r).bind fun _ r' => ptagS "end" r'

def pcidSystemInfo : Bytes → PR Unit :=
  ptagS "/CIDSystemInfo" >>> pms0 >>> palt pdictionary pdictDup >>> pms1 >>> ptagS "def" >>> pms1
def pcmapName : Bytes → PR Unit :=
  ptagS "/CMapName" >>> pspace0 >>> pname >>> pspace1 >>> ptagS "def" >>> pms1
def pcmapType : Bytes → PR Unit :=
  ptagS "/CMapType" >>> pspace1 >>> pdigit1 >>> pspace1 >>> ptagS "def" >>> pms1

def pmetaItem : Bytes → PR Unit := palt pcidSystemInfo (palt pcmapName pcmapType)

/-- `fold_many_m_n(1, 4, …)` -/
def pmetaGo : Nat → Bytes → PR Nat
  | 0, i => .ok 0 i
  | n + 1, i =>
    match pmetaItem i with
    | .ok _ r => if r.length ≥ i.length then .error else (pmetaGo n r).bind fun k r' => .ok (k + 1) r'
    | .error => .ok 0 i
    | .failure => .failure

def pmetadata (i : Bytes) : PR Unit :=
  (pmetaGo 4 i).bind fun k r => if k < 1 then .error else .ok () r

def pcmapEnd : Bytes → PR Unit :=
  ptagS "endcmap" >>> pms1 >>> ptagS "CMapName" >>> pspace1 >>> ptagS "currentdict" >>> pspace1 >>>
  ptagS "/CMap" >>> pspace1 >>> ptagS "defineresource" >>> pspace1 >>> ptagS "pop" >>> pms1

def pcmapData (i : Bytes) : PR (List Section) :=
  (ptagS "begincmap" >>> pms1 >>> pmetadata) i |>.bind fun _ r =>
    (psections r).bind fun ss r' => (pcmapEnd r').bind fun _ r'' => .ok ss r''

def pcidinitProcset : Bytes → PR Unit :=
  pms0 >>> ptagS "/CIDInit" >>> pspace0 >>> palt (ptagS "/ProcSet") (ptagS "/Procset") >>> pspace1 >>>
  ptagS "findresource" >>> pspace1 >>> ptagS "begin" >>> pms1

def presourceDict (i : Bytes) : PR (List Section) :=
  (pdigit1 >>> pspace1 >>> ptagS "dict" >>> pspace1 >>> ptagS "begin" >>> pms1) i |>.bind fun _ r =>
    (pcmapData r).bind fun ss r' => (ptagS "end" >>> pms1) r' |>.bind fun _ r'' => .ok ss r''

/-- `cmap_stream`; trailing input is ignored by `parse` -/
def pcmapStream (i : Bytes) : PR (List Section) :=
  (pcidinitProcset i).bind fun _ r =>
    (presourceDict r).bind fun ss r' => (ptagS "end" >>> pms0) r' |>.bind fun _ r'' => .ok ss r''

/-- `cmap_parser::parse`: `none` = `CMapParseError` -/
def parseCMap (text : Bytes) : Option (List Section) :=
  match pcmapStream text with
  | .ok ss _ => some ss
  | _ => none

end Lopdf.CMap
