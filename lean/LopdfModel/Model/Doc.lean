import LopdfModel.Model.Obj
/-
  C10 / C11 — the document as the editing functions see it:
  * `Objects` as a `BTreeMap<ObjectId, Object>`: association list kept sorted by
    id; `insert` (overwrite or sorted insert), `remove`, `set` (`get_mut` + write).
  * `Doc` = trailer + objects + `max_id` + bookmark tree (`bookmarks`, `bookmark_table`).
  * `Document::traverse_objects` as the work-list algorithm it is: the action is
    applied to an object *before* its variant is inspected; a reference is pushed
    to `refs` unless it is already there; objects are processed in the order in
    which their ids were pushed. No fuel: `travLoop` terminates by the
    lexicographic measure (objects not yet processed, refs.length - index).
  Import-free (core Lean only).
-/
namespace Lopdf

/-! ### BTreeMap<ObjectId, Object> -/

/-- `Ord` on `(u32, u16)`: lexicographic. -/
def idLt (a b : ObjId) : Bool := a.1 < b.1 || (a.1 == b.1 && a.2 < b.2)

namespace Objects

/-- `BTreeMap::insert`: overwrite an existing key, else insert at the sorted position. -/
def insert (os : Objects) (k : ObjId) (v : Obj) : Objects :=
  match os with
  | [] => [(k, v)]
  | (k', v') :: rest =>
    if k' = k then (k, v) :: rest
    else if idLt k k' then (k, v) :: (k', v') :: rest
    else (k', v') :: insert rest k v

/-- `BTreeMap::remove` -/
def remove (os : Objects) (k : ObjId) : Objects :=
  match os with
  | [] => []
  | (k', v') :: rest => if k' = k then remove rest k else (k', v') :: remove rest k

/-- write through `get_mut(&k)`: keys and order unchanged -/
def set (os : Objects) (k : ObjId) (v : Obj) : Objects :=
  match os with
  | [] => []
  | (k', v') :: rest => if k' = k then (k', v) :: set rest k v else (k', v') :: set rest k v

def keys (os : Objects) : List ObjId := os.map (·.1)

def has (os : Objects) (k : ObjId) : Bool := (os.get k).isSome

end Objects

/-! ### object size (termination measure of the traversal) -/

mutual
def Obj.size : Obj → Nat
  | .arr items => 1 + Obj.sizeL items
  | .dict es => 1 + Obj.sizeD es
  | .stream es _ => 1 + Obj.sizeD es
  | _ => 1
def Obj.sizeL : List Obj → Nat
  | [] => 0
  | x :: xs => 1 + x.size + Obj.sizeL xs
def Obj.sizeD : List (Bytes × Obj) → Nat
  | [] => 0
  | (_, v) :: es => 1 + v.size + Obj.sizeD es
end

/-- An action passed to `traverse_objects`: a function on objects that never
makes the object it is applied to larger (all three actions lopdf uses — none,
rename a reference, strip references to a deleted id — are of this kind). The
bound is what makes the recursive descent into the *rewritten* object total. -/
structure Action where
  f : Obj → Obj
  le : ∀ o, (f o).size ≤ o.size

/-- `if !refs.contains(id) { refs.push(*id) }` -/
def pushRef (refs : List ObjId) (id : ObjId) : List ObjId :=
  if refs.contains id then refs else refs ++ [id]

mutual
/-- `traverse_object`: apply the action, then descend into what the object now is. -/
def travObj (a : Action) (o : Obj) (refs : List ObjId) : Obj × List ObjId :=
  match _h : a.f o with
  | .arr items =>
    let r := travList a items refs
    (.arr r.1, r.2)
  | .dict es =>
    let r := travDict a es refs
    (.dict r.1, r.2)
  | .stream es c =>
    let r := travDict a es refs
    (.stream r.1 c, r.2)
  | .ref n g => (.ref n g, pushRef refs (n, g))
  | o' => (o', refs)
termination_by o.size
decreasing_by
  all_goals (have hle := a.le o; rw [_h] at hle; simp only [Obj.size] at hle; omega)
/-- `traverse_array` -/
def travList (a : Action) (items : List Obj) (refs : List ObjId) : List Obj × List ObjId :=
  match items with
  | [] => ([], refs)
  | x :: xs =>
    let r := travObj a x refs
    let r' := travList a xs r.2
    (r.1 :: r'.1, r'.2)
termination_by Obj.sizeL items
decreasing_by
  all_goals (simp only [Obj.sizeL]; omega)
/-- `traverse_dictionary` (values in `IndexMap` order) -/
def travDict (a : Action) (es : List (Bytes × Obj)) (refs : List ObjId) : List (Bytes × Obj) × List ObjId :=
  match es with
  | [] => ([], refs)
  | (k, v) :: rest =>
    let r := travObj a v refs
    let r' := travDict a rest r.2
    ((k, r.1) :: r'.1, r'.2)
termination_by Obj.sizeD es
decreasing_by
  all_goals (simp only [Obj.sizeD]; omega)
end

/-! ### what the traversal computes, as plain functions -/

mutual
/-- the object after the action has been applied top-down, once per node -/
def deepObj (a : Action) (o : Obj) : Obj :=
  match _h : a.f o with
  | .arr items => .arr (deepList a items)
  | .dict es => .dict (deepDict a es)
  | .stream es c => .stream (deepDict a es) c
  | o' => o'
termination_by o.size
decreasing_by
  all_goals (have hle := a.le o; rw [_h] at hle; simp only [Obj.size] at hle; omega)
def deepList (a : Action) (items : List Obj) : List Obj :=
  match items with
  | [] => []
  | x :: xs => deepObj a x :: deepList a xs
termination_by Obj.sizeL items
decreasing_by
  all_goals (simp only [Obj.sizeL]; omega)
def deepDict (a : Action) (es : List (Bytes × Obj)) : List (Bytes × Obj) :=
  match es with
  | [] => []
  | (k, v) :: rest => (k, deepObj a v) :: deepDict a rest
termination_by Obj.sizeD es
decreasing_by
  all_goals (simp only [Obj.sizeD]; omega)
end

mutual
/-- references inside an object, in traversal order (with repetitions) -/
def refsOf : Obj → List ObjId
  | .arr items => refsOfL items
  | .dict es => refsOfD es
  | .stream es _ => refsOfD es
  | .ref n g => [(n, g)]
  | _ => []
def refsOfL : List Obj → List ObjId
  | [] => []
  | x :: xs => refsOf x ++ refsOfL xs
def refsOfD : List (Bytes × Obj) → List ObjId
  | [] => []
  | (_, v) :: es => refsOf v ++ refsOfD es
end

def pushAll (refs : List ObjId) (ids : List ObjId) : List ObjId := ids.foldl pushRef refs

theorem pushAll_append (refs a b : List ObjId) : pushAll refs (a ++ b) = pushAll (pushAll refs a) b := by
  simp [pushAll, List.foldl_append]

/-! ### the traversal computes exactly `deepObj` and pushes exactly `refsOf` of the result -/

theorem deepObj_arr {a : Action} {o items} (h : a.f o = .arr items) : deepObj a o = .arr (deepList a items) := by
  rw [deepObj]; split <;> simp_all
theorem deepObj_dict {a : Action} {o es} (h : a.f o = .dict es) : deepObj a o = .dict (deepDict a es) := by
  rw [deepObj]; split <;> simp_all
theorem deepObj_stream {a : Action} {o es c} (h : a.f o = .stream es c) : deepObj a o = .stream (deepDict a es) c := by
  rw [deepObj]; split <;> simp_all
theorem deepObj_other {a : Action} {o}
    (h1 : ∀ items, a.f o ≠ .arr items) (h2 : ∀ es, a.f o ≠ .dict es) (h3 : ∀ es c, a.f o ≠ .stream es c) :
    deepObj a o = a.f o := by
  rw [deepObj]; split <;> simp_all
theorem travObj_arr {a : Action} {o items refs} (h : a.f o = .arr items) :
    travObj a o refs = (.arr (travList a items refs).1, (travList a items refs).2) := by
  rw [travObj]; split <;> simp_all
theorem travObj_dict {a : Action} {o es refs} (h : a.f o = .dict es) :
    travObj a o refs = (.dict (travDict a es refs).1, (travDict a es refs).2) := by
  rw [travObj]; split <;> simp_all
theorem travObj_stream {a : Action} {o es c refs} (h : a.f o = .stream es c) :
    travObj a o refs = (.stream (travDict a es refs).1 c, (travDict a es refs).2) := by
  rw [travObj]; split <;> simp_all
theorem travObj_ref {a : Action} {o n g refs} (h : a.f o = .ref n g) :
    travObj a o refs = (.ref n g, pushRef refs (n, g)) := by
  rw [travObj]; split <;> simp_all
theorem travObj_other {a : Action} {o refs}
    (h1 : ∀ items, a.f o ≠ .arr items) (h2 : ∀ es, a.f o ≠ .dict es) (h3 : ∀ es c, a.f o ≠ .stream es c)
    (h4 : ∀ n g, a.f o ≠ .ref n g) :
    travObj a o refs = (a.f o, refs) := by
  rw [travObj]; split <;> simp_all

theorem trav_eq (a : Action) :
    (∀ o refs, travObj a o refs = (deepObj a o, pushAll refs (refsOf (deepObj a o)))) ∧
    (∀ es refs, travDict a es refs = (deepDict a es, pushAll refs (refsOfD (deepDict a es)))) ∧
    (∀ items refs, travList a items refs = (deepList a items, pushAll refs (refsOfL (deepList a items)))) := by
  apply travObj.mutual_induct a
    (motive1 := fun o refs => travObj a o refs = (deepObj a o, pushAll refs (refsOf (deepObj a o))))
    (motive2 := fun es refs => travDict a es refs = (deepDict a es, pushAll refs (refsOfD (deepDict a es))))
    (motive3 := fun items refs => travList a items refs = (deepList a items, pushAll refs (refsOfL (deepList a items))))
  · intro o refs items h ih
    rw [travObj_arr h, deepObj_arr h, ih]; simp [refsOf]
  · intro o refs es h ih
    rw [travObj_dict h, deepObj_dict h, ih]; simp [refsOf]
  · intro o refs es c h ih
    rw [travObj_stream h, deepObj_stream h, ih]; simp [refsOf]
  · intro o refs n g h
    have hd : deepObj a o = .ref n g := by
      rw [deepObj_other] <;> simp [h]
    rw [travObj_ref h, hd]; simp [refsOf, pushAll]
  · intro o refs h1 h2 h3 h4
    have e1 : ∀ items, a.f o ≠ .arr items := fun i hh => h1 i hh
    have e2 : ∀ es, a.f o ≠ .dict es := fun i hh => h2 i hh
    have e3 : ∀ es c, a.f o ≠ .stream es c := fun i c hh => h3 i c hh
    have e4 : ∀ n g, a.f o ≠ .ref n g := fun n g hh => h4 n g hh
    rw [travObj_other e1 e2 e3 e4, deepObj_other e1 e2 e3]
    cases hf : a.f o <;> simp_all [refsOf, pushAll]
  · intro refs; rw [travDict, deepDict]; simp [refsOfD, pushAll]
  · intro refs k v es ih1 ih2
    rw [travDict, deepDict]; simp only [ih1, ih2, refsOfD, pushAll_append] at *
    simp_all
  · intro refs; rw [travList, deepList]; simp [refsOfL, pushAll]
  · intro refs x xs ih1 ih2
    rw [travList, deepList]; simp only [ih1, ih2, refsOfL, pushAll_append] at *
    simp_all

/-! ### facts the definition of the work-list loop needs -/

theorem pushRef_prefix (refs : List ObjId) (id : ObjId) : ∃ ext, pushRef refs id = refs ++ ext := by
  unfold pushRef; split
  · exact ⟨[], by simp⟩
  · exact ⟨[id], rfl⟩

theorem pushRef_nodup (refs : List ObjId) (id : ObjId) (h : refs.Nodup) : (pushRef refs id).Nodup := by
  unfold pushRef; split
  · exact h
  · rename_i hc
    rw [List.nodup_append]
    refine ⟨h, by simp, ?_⟩
    intro a ha b hb
    simp at hb; subst hb
    intro e; subst e
    exact hc (by simpa using ha)

theorem pushAll_prefix (ids refs : List ObjId) : ∃ ext, pushAll refs ids = refs ++ ext := by
  induction ids generalizing refs with
  | nil => exact ⟨[], by simp [pushAll]⟩
  | cons x xs ih =>
    obtain ⟨e1, h1⟩ := pushRef_prefix refs x
    obtain ⟨e2, h2⟩ := ih (pushRef refs x)
    refine ⟨e1 ++ e2, ?_⟩
    simp only [pushAll, List.foldl_cons] at *
    rw [h2, h1]; simp

theorem pushAll_nodup (ids refs : List ObjId) (h : refs.Nodup) : (pushAll refs ids).Nodup := by
  induction ids generalizing refs with
  | nil => simpa [pushAll]
  | cons x xs ih =>
    simp only [pushAll, List.foldl_cons]
    exact ih _ (pushRef_nodup refs x h)

theorem travObj_prefix (a : Action) (o : Obj) (refs : List ObjId) : ∃ ext, (travObj a o refs).2 = refs ++ ext := by
  rw [(trav_eq a).1 o refs]; exact pushAll_prefix _ _
theorem travObj_nodup (a : Action) (o : Obj) (refs : List ObjId) (h : refs.Nodup) : (travObj a o refs).2.Nodup := by
  rw [(trav_eq a).1 o refs]; exact pushAll_nodup _ _ h
theorem travDict_prefix (a : Action) (d : Dict) (refs : List ObjId) : ∃ ext, (travDict a d refs).2 = refs ++ ext := by
  rw [(trav_eq a).2.1 d refs]; exact pushAll_prefix _ _
theorem travDict_nodup (a : Action) (d : Dict) (refs : List ObjId) (h : refs.Nodup) : (travDict a d refs).2.Nodup := by
  rw [(trav_eq a).2.1 d refs]; exact pushAll_nodup _ _ h

/-- number of objects whose id has not been processed yet -/
def unvisited (os : Objects) (done : List ObjId) : Nat :=
  (os.keys.filter (fun k => !done.contains k)).length

theorem Objects.keys_set (os : Objects) (k : ObjId) (v : Obj) : (os.set k v).keys = os.keys := by
  induction os with
  | nil => rfl
  | cons p rest ih =>
    obtain ⟨k', v'⟩ := p
    simp only [Objects.set, Objects.keys] at *
    split <;> simp [ih]

theorem Objects.mem_keys_of_get {os : Objects} {k : ObjId} {v : Obj} (h : os.get k = some v) : k ∈ os.keys := by
  induction os with
  | nil => simp [Objects.get] at h
  | cons p rest ih =>
    obtain ⟨k', v'⟩ := p
    simp only [Objects.get] at h
    simp only [Objects.keys, List.map_cons, List.mem_cons]
    split at h
    · rename_i e; exact Or.inl e.symm
    · exact Or.inr (ih h)

theorem filter_length_le {α} (l : List α) (p q : α → Bool) (himp : ∀ y, q y = true → p y = true) :
    (l.filter q).length ≤ (l.filter p).length := by
  induction l with
  | nil => simp
  | cons z zs ihz =>
    simp only [List.filter_cons]
    cases hqz : q z
    · cases hpz : p z <;> simp <;> omega
    · simp [himp z hqz]; exact ihz

theorem filter_length_lt {α} (l : List α) (p q : α → Bool) (x : α) (hx : x ∈ l)
    (hp : p x = true) (hq : q x = false) (himp : ∀ y, q y = true → p y = true) :
    (l.filter q).length < (l.filter p).length := by
  induction l with
  | nil => simp at hx
  | cons y ys ih =>
    have hle := filter_length_le ys p q himp
    simp only [List.mem_cons] at hx
    simp only [List.filter_cons]
    rcases hx with rfl | hx
    · simp [hp, hq]; omega
    · have := ih hx
      cases hqy : q y
      · cases hpy : p y <;> simp <;> omega
      · simp [himp y hqy]; exact this

theorem unvisited_lt (os : Objects) (refs : List ObjId) (index : Nat) (hn : refs.Nodup)
    (hi : index < refs.length) (hk : refs[index] ∈ os.keys) (refs' : List ObjId) (ext : List ObjId)
    (he : refs' = refs ++ ext) (os' : Objects) (hkeys : os'.keys = os.keys) :
    unvisited os' (refs'.take (index + 1)) < unvisited os (refs.take index) := by
  unfold unvisited
  rw [hkeys]
  subst he
  have htake : (refs ++ ext).take (index + 1) = refs.take (index + 1) := by
    rw [List.take_append_of_le_length (by omega)]
  rw [htake]
  apply filter_length_lt _ _ _ refs[index] hk
  · -- not yet processed
    simp only [Bool.not_eq_true', List.contains_eq_mem, decide_eq_false_iff_not]
    intro hm
    rw [List.mem_take_iff_getElem] at hm
    obtain ⟨j, hj, hjeq⟩ := hm
    have hjl : j < refs.length := by omega
    have h2 : refs[j]? = refs[index]? := by
      rw [List.getElem?_eq_getElem hjl, List.getElem?_eq_getElem hi]
      rw [hjeq]
    have := (List.getElem?_inj hjl hn).mp h2
    omega
  · simp only [Bool.not_eq_false', List.contains_eq_mem, decide_eq_true_eq]
    rw [List.mem_take_iff_getElem]
    exact ⟨index, by omega, rfl⟩
  · intro y hy
    simp only [Bool.not_eq_true', List.contains_eq_mem, decide_eq_false_iff_not] at *
    intro hm; apply hy
    rw [List.mem_take_iff_getElem] at hm ⊢
    obtain ⟨j, hj, e⟩ := hm
    exact ⟨j, by omega, e⟩

/-! ### the work list -/

/-- `while index < refs.len() { if let Some(object) = objects.get_mut(&refs[index]) { traverse_object(..) } index += 1 }`.
`refs` never contains an id twice (`pushRef`), which is what bounds the loop: every
iteration either processes an object that had not been processed before, or
consumes one entry of `refs` without adding any. -/
def travLoop (a : Action) (os : Objects) (refs : List ObjId) (index : Nat) (hn : refs.Nodup) :
    Objects × List ObjId :=
  if hi : index < refs.length then
    match hg : os.get refs[index] with
    | some o =>
      travLoop a (os.set refs[index] (travObj a o refs).1) (travObj a o refs).2 (index + 1)
        (travObj_nodup a o refs hn)
    | none => travLoop a os refs (index + 1) hn
  else (os, refs)
termination_by (unvisited os (refs.take index), refs.length - index)
decreasing_by
  · apply Prod.Lex.left
    obtain ⟨ext, he⟩ := travObj_prefix a o refs
    exact unvisited_lt os refs index hn hi (Objects.mem_keys_of_get hg) _ ext he _ (Objects.keys_set _ _ _)
  · have : List.take (index + 1) refs = List.take index refs ++ [refs[index]] := by
      rw [List.take_add_one]; simp [List.getElem?_eq_getElem hi]
    have hu : unvisited os (List.take (index + 1) refs) ≤ unvisited os (List.take index refs) := by
      unfold unvisited
      apply filter_length_le
      intro y hy
      simp only [Bool.not_eq_true', List.contains_eq_mem, decide_eq_false_iff_not] at *
      intro hm; apply hy; rw [this]; exact List.mem_append_left _ hm
    rcases Nat.lt_or_ge (unvisited os (List.take (index + 1) refs)) (unvisited os (List.take index refs)) with h | h
    · exact Prod.Lex.left _ _ h
    · have e : unvisited os (List.take (index + 1) refs) = unvisited os (List.take index refs) := by omega
      rw [e]; apply Prod.Lex.right; omega

/-- `Document::traverse_objects(action)`: new trailer, new objects, the ids pushed (in order). -/
def traverse (a : Action) (trailer : Dict) (os : Objects) : Dict × Objects × List ObjId :=
  let r := travDict a trailer []
  let l := travLoop a os r.2 0 (travDict_nodup a trailer [] List.nodup_nil)
  (r.1, l.1, l.2)

/-! ### bookmarks and the document -/

/-- the fields of `lopdf::Bookmark` the editing functions touch -/
structure Bookmark where
  children : List Nat
  page : ObjId
  deriving Repr, DecidableEq

/-- `HashMap<u32, Bookmark>`; only looked up and updated in place -/
abbrev BkTable := List (Nat × Bookmark)

def BkTable.get (t : BkTable) (id : Nat) : Option Bookmark :=
  match t with
  | [] => none
  | (i, b) :: rest => if i = id then some b else BkTable.get rest id

def BkTable.setPage (t : BkTable) (id : Nat) (page : ObjId) : BkTable :=
  t.map (fun (i, b) => if i = id then (i, { b with page := page }) else (i, b))

structure Doc where
  trailer : Dict
  objects : Objects
  maxId : Nat
  bookmarks : List Nat
  bmTable : BkTable
  deriving Repr

end Lopdf
