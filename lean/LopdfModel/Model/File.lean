import LopdfModel.Model.Write
/-
  Model of `Document::save_internal`, `write_cross_reference_stream`, `write_trailer`,
  `Writer::{write_xref, create_xref_steam, write_binary_mark}`, `XrefSection`/`XrefEntry`
  printing (src/writer.rs, src/xref.rs).  `saveDoc` returns the bytes written and the
  document as `save` leaves it (trailer and max_id are mutated by saving).
-/
namespace Lopdf
open Gen

inductive XrefKind where | table | stream
  deriving Repr, DecidableEq

structure SDoc where
  version : Bytes
  binaryMark : Bytes
  trailer : Dict
  objects : Objects          -- sorted by (num, gen), as BTreeMap iteration
  maxId : Nat
  xrefKind : XrefKind
  deriving Repr

/-- the in-use entries the writer records: object number ↦ (offset, generation).
Later insertions for the same number overwrite (BTreeMap::insert). -/
abbrev XrefMap := List (Nat × (Nat × Nat))

def XrefMap.get (x : XrefMap) (n : Nat) : Option (Nat × Nat) :=
  match x with
  | [] => none
  | (k, v) :: rest => if k = n then some v else XrefMap.get rest n

def XrefMap.insert (x : XrefMap) (n : Nat) (v : Nat × Nat) : XrefMap :=
  match x with
  | [] => [(n, v)]
  | (k, v') :: rest => if k = n then (k, v) :: rest else (k, v') :: XrefMap.insert rest n v

/-- left-pad with '0' to width `w` (`{:>0w}`) -/
def padZero (w : Nat) (ds : Bytes) : Bytes := List.replicate (w - ds.length) 48 ++ ds

def OBJSTM : Bytes := [79, 98, 106, 83, 116, 109]
def XREF_NAME : Bytes := [88, 82, 101, 102]

/-- `Object::type_name` ∈ {ObjStm, XRef, Linearized}: such objects are not written -/
def skippedOnSave : Obj → Bool
  | .dict d | .stream d _ =>
    match Dict.getType d with
    | some t => t = OBJSTM || t = XREF_NAME || t = LINEARIZED
    | none => false
  | _ => false

/-- the object loop of `save_internal`: bytes so far (reversed concatenation avoided: we
carry the running output) and the xref map. `pos` = bytes_written. -/
def writeObjects : Objects → Bytes → XrefMap → Bytes × XrefMap
  | [], out, x => (out, x)
  | ((n, g), o) :: rest, out, x =>
    if skippedOnSave o then writeObjects rest out x
    else writeObjects rest (out ++ writeIndirect n g o) (x.insert n (out.length % 4294967296, g))

/-- one table entry line -/
def xrefEntryLine : Option (Nat × Nat) → Bytes
  | some (off, g) => padZero 10 (natDigits off) ++ [32] ++ padZero 5 (natDigits g) ++ [32, 110, 32, 10]
  | none => padZero 10 (natDigits 0) ++ [32] ++ padZero 5 (natDigits 65535) ++ [32, 102, 32, 10]

/-- `XrefSection::write_xref_section` (only called on non-empty sections) -/
def xrefSectionBytes (start : Nat) (entries : List (Option (Nat × Nat))) : Bytes :=
  natDigits start ++ [32] ++ natDigits entries.length ++ [10] ++ (entries.map xrefEntryLine).flatten

/-- the loop `for obj_id in 1..xref.size` of `Writer::write_xref`. State: current section
(start, entries in order). `ids` = the remaining object numbers. -/
def xrefTableLoop (x : XrefMap) : List Nat → Nat → List (Option (Nat × Nat)) → Bytes → Bytes
  | [], start, entries, out => if entries.isEmpty then out else out ++ xrefSectionBytes start entries
  | id :: rest, start, entries, out =>
    let start' := if entries.isEmpty then id else start
    match x.get id with
    | some e => xrefTableLoop x rest start' (entries ++ [some e]) out
    | none =>
      if entries.isEmpty then xrefTableLoop x rest start' entries out
      else xrefTableLoop x rest id [] (out ++ xrefSectionBytes start' entries)

def XREF_KW : Bytes := [120, 114, 101, 102, 10]                         -- "xref\n"
def TRAILER_KW : Bytes := [116, 114, 97, 105, 108, 101, 114, 10]       -- "trailer\n"
def STARTXREF_KW : Bytes := [10, 115, 116, 97, 114, 116, 120, 114, 101, 102, 10]  -- "\nstartxref\n"
def EOF_KW : Bytes := [10, 37, 37, 69, 79, 70]                          -- "\n%%EOF"
def PDF_KW : Bytes := [37, 80, 68, 70, 45]                              -- "%PDF-"

/-- `Writer::write_xref`: section 0 starts with the unusable free entry -/
def writeXrefTable (x : XrefMap) (size : Nat) : Bytes :=
  XREF_KW ++ xrefTableLoop x ((List.range size).drop 1) 0 [none] []

def SIZE : Bytes := [83, 105, 122, 101]
def W_KEY : Bytes := [87]
def INDEX : Bytes := [73, 110, 100, 101, 120]
def FILTER : Bytes := [70, 105, 108, 116, 101, 114]
def LENGTH : Bytes := [76, 101, 110, 103, 116, 104]

/-- big-endian bytes of `n` in `w` bytes (`to_be_bytes`, value reduced mod 256^w) -/
def beBytesW : Nat → Nat → Bytes
  | 0, _ => []
  | w + 1, n => beBytesW w (n / 256) ++ [(n % 256).toUInt8]

/-- sections of `create_xref_steam`: loop `for obj_id in 1..size+1`, no entry for object 0 -/
def xrefStreamLoop (x : XrefMap) : List Nat → Nat → List (Nat × Nat) → List (Nat × List (Nat × Nat)) → List (Nat × List (Nat × Nat))
  | [], start, entries, acc => if entries.isEmpty then acc else acc ++ [(start, entries)]
  | id :: rest, start, entries, acc =>
    let start' := if entries.isEmpty then id else start
    match x.get id with
    | some e => xrefStreamLoop x rest start' (entries ++ [e]) acc
    | none =>
      if entries.isEmpty then xrefStreamLoop x rest start' entries acc
      else xrefStreamLoop x rest id [] (acc ++ [(start', entries)])

def xrefStreamContent (secs : List (Nat × List (Nat × Nat))) : Bytes :=
  (secs.map fun (_, es) => (es.map fun (off, g) => [1] ++ beBytesW 4 off ++ beBytesW 2 g).flatten).flatten

def xrefStreamIndex (secs : List (Nat × List (Nat × Nat))) : Obj :=
  .arr (secs.map fun (s, es) => [Obj.int s, Obj.int es.length]).flatten

/-- `save_internal` after `pre` bytes have already been written (`pre = []` for a plain save,
the previous revisions for an incremental one): `none` when the binary mark is invalid (the
only error the writer raises itself) -/
def saveFrom (pre : Bytes) (d : SDoc) : Option (Bytes × SDoc) :=
  if !(d.binaryMark.all fun b => b ≥ 128) then none else
  let header := pre ++ PDF_KW ++ d.version ++ [10] ++ [37] ++ d.binaryMark ++ [10]
  let (body, x) := writeObjects d.objects header []
  let xrefStart := body.length
  match d.xrefKind with
  | .table =>
    let tr := d.trailer.set SIZE (.int (d.maxId + 1))
    let out := body ++ writeXrefTable x (d.maxId + 1) ++ TRAILER_KW ++ writeObj (.dict tr)
      ++ STARTXREF_KW ++ natDigits xrefStart ++ EOF_KW
    some (out, { d with trailer := tr })
  | .stream =>
    let newId := d.maxId + 1
    let x1 := x.insert newId (xrefStart % 4294967296, 0)
    let tr1 := d.trailer.set TYPE (.name XREF_NAME)
    let tr2 := tr1.set SIZE (.int (newId + 1))
    let tr3 := tr2.set W_KEY (.arr (XREF_W.map fun (w : Nat) => Obj.int (Int.ofNat w)))
    let secs := xrefStreamLoop x1 ((List.range (d.maxId + 2)).drop 1) 0 [] []
    let content := xrefStreamContent secs
    let tr4 := tr3.set INDEX (xrefStreamIndex secs)
    let tr5 := tr4.remove FILTER
    let tr6 := tr5.set LENGTH (.int content.length)
    let out := body ++ writeIndirect newId 0 (.stream tr6 content)
      ++ STARTXREF_KW ++ natDigits xrefStart ++ EOF_KW
    some (out, { d with trailer := tr6, maxId := newId })

/-- `Document::save_to` -/
def saveDoc (d : SDoc) : Option (Bytes × SDoc) := saveFrom [] d

/-- `IncrementalDocument::save_to`: the previously loaded bytes unchanged, a newline if they do
not end with one, then the new revision (`d` = `new_document`, whose trailer carries `Prev`) -/
def saveIncr (prev : Bytes) (d : SDoc) : Option (Bytes × SDoc) :=
  saveFrom (prev ++ (match prev.getLast? with | none => [] | some b => if b = 10 then [] else [10])) d

end Lopdf
