import LopdfModel.Model.Read
/-
  `IncrementalDocument::save_to` for previous bytes that carry something in front of the `%PDF-`
  header (allowed: the reader skips it, and counts every offset from the header). Since fix
  "fix: an incremental update counts its offsets from the %PDF- header" the appended section's
  offsets are counted from the header too: the bytes in front of it are copied and do not count.
  With nothing in front of the header this is `saveIncr` (`saveIncrJ_of_header`).
-/
namespace Lopdf
open Gen

/-- `prev.windows(5).position(|w| w == b"%PDF-").unwrap_or(0)` -/
def headerOffset (prev : Bytes) : Nat :=
  match findFrom PDF_KW (prev.length + 1) prev 0 with | some i => i | none => 0

def saveIncrJ (prev : Bytes) (d : SDoc) : Option (Bytes × SDoc) :=
  match saveIncr (prev.drop (headerOffset prev)) d with
  | some (out, d') => some (prev.take (headerOffset prev) ++ out, d')
  | none => none

theorem saveIncrJ_of_header (prev : Bytes) (d : SDoc) (h : headerOffset prev = 0) : saveIncrJ prev d = saveIncr prev d := by
  unfold saveIncrJ
  rw [h]
  simp only [List.drop_zero, List.take_zero, List.nil_append]
  cases saveIncr prev d with
  | none => rfl
  | some p => rfl

end Lopdf
