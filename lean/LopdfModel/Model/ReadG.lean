import LopdfModel.Model.Read
import LopdfModel.Model.Filters
import LopdfModel.Spec.Inflate
import LopdfModel.Spec.Lzw
/-
  `Reader::read` with FILTERED structural streams inside the model.

  `Model/Read.lean` answers `err "ext"` for a cross-reference stream or an object stream that
  carries a `Filter`. Here the reader is written once more, GENERIC in how structural streams are
  decoded (`StructDec`), and instantiated twice:
  * `plainDec`  — `decodeXrefStream` / `objStmObjects` as they are: `loadDocWithG plainDec` is
    `loadDocWith` (theorem `loadDocWithG_plain`, Thm/ReadG.lean), so every theorem about the
    reader is a theorem about this code;
  * `flateDec`  — `Stream::decompress` (Model/Filters.lean: filter chain, per-stage DecodeParms,
    PNG predictors, ASCII85) over the SPECIFICATION decoders `Spec/Inflate.zlibInflate`
    (RFC 1950/1951) and `Spec/Lzw.decode`, then the same unfiltered decoding. What flate2 / weezl
    return for damaged data is not specified: a Flate stage whose input is not a complete zlib
    stream, or an LZW stage that does not end cleanly, still answers `err "ext"`.
  The driver's `load` operations run `flateDec`, so Flate / LZW / ASCII85-coded cross-reference
  streams and object streams (the common case in real files) are compared with lopdf field by
  field like plain ones.
-/
namespace Lopdf
open Gen

/-- how the reader decodes structural streams: `decode_xref_stream`, and `ObjectStream::new`
(which decompresses the container IN PLACE: the container object the document keeps is the
returned dictionary / content) -/
structure StructDec where
  xref : Dict → Bytes → Outcome (XTable × Nat × Dict)
  objstm : Dict → Bytes → Outcome (Dict × Bytes × List (ObjId × Obj))
  /-- an object-stream container whose content could NOT be delimited while parsing (no usable Length):
  `some (d', c')` = `ObjectStream::new` ran on the still-empty stream — it is kept as `d'` / `c'`, contributes no members
  and is NOT completed later (lopdf: the deferred list is filled only in the `else` branch of the ObjStm test);
  `none` = deferred like any other such stream (not used by the two instances) -/
  deferred : Dict → Outcome (Option (Dict × Bytes))

def plainDec : StructDec :=
  { xref := decodeXrefStream,
    objstm := fun d c => match objStmObjects d c with
      | .ok l => .ok (d, c, l) | .err e => .err e | .panic s => .panic s,
    deferred := fun d => if d.has FILTER then .err "ext" else .ok (some (d, [])) }

/-! ### the specification codecs as `Ext` -/

def specExt : Ext :=
  { inflate := fun b => (Inflate.zlibInflate b).getD [],
    lzw := fun ec b => (Spec.Lzw.decode ec b).1 }

/-- every Flate stage of the chain sees a complete zlib stream and every LZW stage ends cleanly
— exactly the inputs on which the specification codecs define the answer -/
def chainComplete (parms : Nat → Option Dict) : Nat → List Bytes → Bytes → Bool
  | _, [], _ => true
  | i, f :: fs, input =>
    (if f = F_FLATE then input.isEmpty || (Inflate.zlibInflate input).isSome
     else if f = F_LZW then (Spec.Lzw.decode (earlyChange (parms i)) input).2 == .eod
     else true) &&
    (match applyFilter specExt (parms i) f input with
     | .ok out => chainComplete parms (i + 1) fs out
     | _ => true)

def streamComplete (d : Dict) (c : Bytes) : Bool :=
  match streamFilters d with
  | some fs => chainComplete (stageParms d) 0 fs c
  | none => true

def flateDec : StructDec :=
  { xref := fun d c =>
      if d.has FILTER then
        if !streamComplete d c then .err "ext" else
        match decompress specExt ⟨d, c⟩ with          -- `if stream.is_compressed() { stream.decompress()?; }`
        | .ok s => decodeXrefStream s.dict s.content
        | .err e => .err e
        | .panic s => .panic s
      else decodeXrefStream d c,
    objstm := fun d c =>
      if d.has FILTER then
        if !streamComplete d c then .err "ext" else
        match decompress specExt ⟨d, c⟩ with          -- `let _ = stream.decompress();`
        | .ok s =>
          (match objStmObjects s.dict s.content with
           | .ok l => .ok (s.dict, s.content, l) | .err e => .err e | .panic p => .panic p)
        | _ => .err "ext"                              -- undecodable container read raw: not modelled
      else match objStmObjects d c with
        | .ok l => .ok (d, c, l) | .err e => .err e | .panic s => .panic s,
    deferred := fun d =>
      -- `ObjectStream::new` on the empty stream: `let _ = stream.decompress()` (an empty input decodes to nothing; without a
      -- Filter, or with one that fails, nothing changes), then `content.is_empty()` => no members
      if d.has FILTER then
        if !streamComplete d [] then .err "ext" else
        match decompress specExt ⟨d, []⟩ with
        | .ok s => if s.content.isEmpty then .ok (some (s.dict, [])) else .err "ext"
        | .err _ => .ok (some (d, []))
        | .panic p => .panic p
      else .ok (some (d, [])) }

/-! ### the reader, generic in `StructDec` (same code as Model/Read.lean) -/

def xrefStreamAltG (sd : StructDec) (inp : Bytes) : Outcome (XTable × Nat × Dict) :=
  match pIndirect (fun _ => none) none 0 inp with
  | some (_, .plain (.stream d c)) => sd.xref d c
  | some (_, .pending d _) => sd.xref d []
  | _ => .err "InvalidTrailer"

def xrefAndTrailerG (sd : StructDec) (inp : Bytes) : Outcome (XTable × Nat × Dict) :=
  match pXref inp with
  | .panic s => .panic s
  | .err e => .err e
  | .ok (some (x, r)) =>
    (match pTrailer r with
     | some (tr, _) =>
       (match (tr.get SIZE).bind Obj.asInt with
        | some size => .ok (x, (size % (U32 : Int)).toNat, tr)
        | none => .err "InvalidTrailer")
     | none => xrefStreamAltG sd inp)
  | .ok none => xrefStreamAltG sd inp

def hybridMergeG (sd : StructDec) (buf : Bytes) (x1 : XTable) (stm : Option Obj) : Outcome XTable :=
  match stm.bind Obj.asInt with
  | none => .ok x1
  | some p =>
    if p < 0 || p.toNat > buf.length then .err "StreamStart"
    else match xrefAndTrailerG sd (buf.drop p.toNat) with
      | .ok (sx, _, _) => .ok (x1.merge sx)
      | .err e => .err e
      | .panic s => .panic s

def prevLoopG (sd : StructDec) (buf : Bytes) : Nat → Option Obj → List Int → XTable → Dict → Outcome (XTable × Dict)
  | 0, _, _, x, tr => .ok (x, tr)
  | fuel + 1, prevObj, seen, x, tr =>
    match prevObj.bind Obj.asInt with
    | none => .ok (x, tr)
    | some prev =>
      if seen.contains prev then .ok (x, tr)
      else if prev < 0 || prev.toNat > buf.length then .err "PrevStart"
      else
        match xrefAndTrailerG sd (buf.drop prev.toNat) with
        | .panic s => .panic s
        | .err e => .err e
        | .ok (px, _, ptr) =>
          let x1 := x.merge px
          let stm := tr.get XREFSTM
          let tr1 := tr.remove XREFSTM
          let x2 : Outcome XTable := hybridMergeG sd buf x1 stm
          match x2 with
          | .ok x3 => prevLoopG sd buf fuel (ptr.get PREV) (prev :: seen) x3 tr1
          | .err e => .err e
          | .panic s => .panic s

def loadStepG (sd : StructDec) (buf : Bytes) (x : XTable) (nEntries : Nat) (acc : Outcome (LObjects × List Block)) (e : Nat × XEntry) :
    Outcome (LObjects × List Block) :=
  match acc with
  | .ok (os, fromStm) =>
    (match e.2 with
     | .normal off _ =>
       if off > buf.length then .ok (os, fromStm) else
       (match pIndirect (lengthOf buf x (nEntries + 1) []) none off (buf.drop off) with
        | none => .ok (os, fromStm)
        | some (id, lo) =>
          (match lo with
           | .plain (.stream d c) =>
             if Dict.getTypeIs d OBJSTM then
               (match sd.objstm d c with
                | .ok (d', c', objs) => .ok (os.insert id (.plain (.stream d' c')), fromStm ++ [(e.1, objs)])
                | .err "ext" => .err "ext"
                | .err _ => .ok (os, fromStm)
                | .panic s => .panic s)
             else .ok (os.insert id lo, fromStm)
           | .pending d _ =>
             if Dict.getTypeIs d OBJSTM then
               (match sd.deferred d with
                | .ok none => .ok (os.insert id lo, fromStm)
                | .ok (some (d', c')) => .ok (os.insert id (.plain (.stream d' c')), fromStm ++ [(e.1, [])])
                | .err "ext" => .err "ext"
                | .err _ => .ok (os, fromStm)
                | .panic s => .panic s)
             else .ok (os.insert id lo, fromStm)
           | _ => .ok (os.insert id lo, fromStm)))
     | .compressed _ _ => .ok (os, fromStm))
  | o => o

def loadDocWithG (sd : StructDec) (arr : List Block → List Block) (arr2 : List ObjId → List ObjId) (file : Bytes) : Outcome Loaded :=
  let offset := match findFrom PDF_KW (file.length + 1) file 0 with | some i => i | none => 0
  let buf := file.drop offset
  match pHeader buf with
  | none => .err "InvalidFileHeader"
  | some version =>
    let mark : Bytes :=
      match findFrom [10] (buf.length + 1) buf 0 with
      | some pos =>
        (match pBinaryMark (buf.drop (pos + 1)) with
         | some m => if m.all (fun b => b ≥ 128) then m else DEFAULT_MARK
         | none => DEFAULT_MARK)
      | none => DEFAULT_MARK
    match getXrefStart buf with
    | none => .err "XrefStart"
    | some xs =>
      if xs > buf.length then .err "XrefStart" else
      match xrefAndTrailerG sd (buf.drop xs) with
      | .panic s => .panic s
      | .err e => .err e
      | .ok (x0, size0, tr0) =>
        let prevObj := tr0.get PREV
        let tr1 := tr0.remove PREV
        match prevLoopG sd buf (buf.length + 2) prevObj [] x0 tr1 with
        | .panic s => .panic s
        | .err e => .err e
        | .ok (x, tr) =>
          if x.maxId + 1 ≥ U32 then .err "InvalidXref" else
          let size := x.maxId + 1
          let _ := size0
          if tr.has ENCRYPT then .err "ext" else
          let xs' := x.sorted
          let nEntries := xs'.length
          match xs'.foldl (loadStepG sd buf x nEntries) (.ok ([], [])) with
          | .panic s => .panic s
          | .err e => .err e
          | .ok (os, fromStm) =>
            let arrived := arr fromStm
            let os1 := mergeBlocksX x os arrived
            let os2 := (arr2 (pendingIds os1)).foldl (completeOne buf) os1
            let fin := os2.map fun (p : ObjId × LObj) =>
              match p.2 with
              | .plain o => (p.1, o)
              | .pending d _ => (p.1, Obj.stream d [])
            let objects := fin.foldr (fun (p : ObjId × Obj) acc => insertSortedO p.1 p.2 acc) []
            .ok { version := version, binaryMark := mark, trailer := tr, objects := objects,
                  maxId := size - 1, xrefStart := xs }

/-- the reader with Flate / LZW / ASCII85-coded structural streams decoded by the specification codecs -/
def loadDocF2 (order : Option (List Nat)) (zero : Option Nat) (file : Bytes) : Outcome Loaded :=
  loadDocWithG flateDec (match order with | none => id | some p => fun bs => permuteBlocks bs p)
    (match zero with | none => id | some k => reorderZero k) file

def loadDocF (file : Bytes) : Outcome Loaded := loadDocF2 none none file

end Lopdf
