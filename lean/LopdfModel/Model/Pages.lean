import LopdfModel.Model.Obj
import LopdfModel.Gen.Consts
/-
  C12 — model of `Document::{dereference,get_object,get_dictionary,catalog}` and
  of `PageTreeIter` (src/document.rs), verbatim: `kids`, `stack`, `iter_limit`,
  the depth limit, `get_type` with the `Linearized` fallback, `Kids` held
  directly or behind references.
  No fuel: `run` terminates by the lexicographic measure
  (iter_limit, stack size, remaining kids) — the guards the Rust code has.
-/
namespace Lopdf
open Gen

/-- `Document::dereference`: `n` = number of hops still allowed. Fails on a
dangling reference and once more than `DEREF_LIMIT` hops were made. -/
def derefAux (os : Objects) : Nat → Obj → Option Obj
  | n, .ref a b =>
    match os.get (a, b) with
    | none => none
    | some o' => match n with
      | 0 => none
      | n + 1 => derefAux os n o'
  | _, o => some o

def deref (os : Objects) (o : Obj) : Option Obj := derefAux os DEREF_LIMIT o

/-- `Document::get_object`: lookup, then dereference. -/
def getObject (os : Objects) (id : ObjId) : Option Obj := (os.get id).bind (deref os)

/-- `Document::get_dictionary` -/
def getDictionary (os : Objects) (id : ObjId) : Option Dict := (getObject os id).bind Obj.asDict

def KIDS : Bytes := [75, 105, 100, 115]
def PAGE : Bytes := [80, 97, 103, 101]
def PAGES : Bytes := [80, 97, 103, 101, 115]
def ROOT : Bytes := [82, 111, 111, 116]

/-- `PageTreeIter::kids`: `get_dictionary(id)?.get_deref(Kids)?.as_array()` -/
def kidsOf (os : Objects) (id : ObjId) : Option (List Obj) :=
  (getDictionary os id).bind fun d => (d.get KIDS).bind fun k => (deref os k).bind Obj.asArr

/-- what the iterator learns about one kid entry -/
inductive Cls where
  | skip                                   -- not a reference / no dictionary / other type
  | page (id : ObjId)
  | pages (kids : Option (List Obj))      -- `Self::kids(doc, kid_id)`
  deriving Repr

def classify (os : Objects) (kid : Obj) : Cls :=
  match kid.asRef with
  | none => .skip
  | some id =>
    match (getDictionary os id).bind Dict.getType with
    | none => .skip
    | some t =>
      if t = PAGE then .page id
      else if t = PAGES then .pages (kidsOf os id)
      else .skip

/-- The drained iterator: all ids `next()` yields until the first `None`.
`cls` abstracts the document; `kids`/`stack`/`limit` are the iterator's fields. -/
def run (cls : Obj → Cls) : Option (List Obj) → List (List Obj) → Nat → List ObjId
  | some (kid :: rest), stack, limit =>
    if limit = 0 then [] else
    match cls kid with
    | .skip => run cls (some rest) stack (limit - 1)
    | .page id => id :: run cls (some rest) stack (limit - 1)
    | .pages ks =>
      if stack.length < PAGE_TREE_DEPTH_LIMIT then
        run cls ks (if rest.isEmpty then stack else rest :: stack) (limit - 1)
      else run cls (some rest) stack (limit - 1)
  | some [], top :: st, limit => run cls (some top) st limit
  | none, top :: st, limit => run cls (some top) st limit
  | some [], [], _ => []
  | none, [], _ => []
termination_by k s l => (l, s.length, match k with | some x => x.length + 1 | none => 0)
decreasing_by
  all_goals simp_wf
  all_goals first
    | (apply Prod.Lex.left; omega)
    | (apply Prod.Lex.right; apply Prod.Lex.left; simp)
    | skip

/-- `PageTreeIter::new` + drain = `Document::page_iter().collect()` -/
def pageIter (trailer : Dict) (os : Objects) : List ObjId :=
  let root : Option ObjId :=
    ((trailer.get ROOT).bind Obj.asRef).bind fun cat =>
      (getDictionary os cat).bind fun d => (d.get PAGES).bind Obj.asRef
  match root with
  | some pid => run (classify os) (kidsOf os pid) [] os.length
  | none => []

end Lopdf
