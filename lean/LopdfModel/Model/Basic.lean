/-
  Shared basics of the executable model: bytes, the `Outcome` type used by
  panic-explicit models.  Import-free (core Lean only) so that the protocol
  driver links as a native executable.
-/
namespace Lopdf

abbrev Bytes := List UInt8

/-- Result of a model function whose Rust counterpart can fail *or panic*.
`panic site` carries a short site label (`file:line`-like) that the
correspondence compares with the real panic location class. -/
inductive Outcome (α : Type) where
  | ok (a : α)
  | err (e : String)
  | panic (site : String)
  deriving Repr, DecidableEq

namespace Outcome
def bind {α β} (x : Outcome α) (f : α → Outcome β) : Outcome β :=
  match x with
  | ok a => f a
  | err e => err e
  | panic s => panic s
def isPanic {α} : Outcome α → Bool
  | panic _ => true
  | _ => false
def map {α β} (f : α → β) : Outcome α → Outcome β
  | ok a => ok (f a)
  | err e => err e
  | panic s => panic s
instance : Monad Outcome where
  pure := Outcome.ok
  bind := Outcome.bind
end Outcome

/-- ASCII helpers (bytes). -/
def isDigit (b : UInt8) : Bool := 48 ≤ b && b ≤ 57
def isOctDigit (b : UInt8) : Bool := 48 ≤ b && b ≤ 55
def isHexDigit (b : UInt8) : Bool :=
  (48 ≤ b && b ≤ 57) || (65 ≤ b && b ≤ 70) || (97 ≤ b && b ≤ 102)
def isAlpha (b : UInt8) : Bool := (65 ≤ b && b ≤ 90) || (97 ≤ b && b ≤ 122)

/-- value of a hex digit (only meaningful when `isHexDigit`). -/
def hexVal (b : UInt8) : UInt8 :=
  if 48 ≤ b && b ≤ 57 then b - 48
  else if 65 ≤ b && b ≤ 70 then b - 55
  else if 97 ≤ b && b ≤ 102 then b - 87
  else 0

/-- upper-case hex digit of a nibble (`{:02X}` in Rust). -/
def hexDigitU (n : UInt8) : UInt8 := if n < 10 then 48 + n else 55 + n
/-- lower-case hex digit of a nibble (protocol text). -/
def hexDigitL (n : UInt8) : UInt8 := if n < 10 then 48 + n else 87 + n

def strBytes (s : String) : Bytes := s.toUTF8.toList

/-- decimal digits of a natural number, most significant first (`itoa`,
`{}` on unsigned integers). Own definition (not `toString`) so that theorems
can unfold it. -/
def natDigits (n : Nat) : Bytes :=
  if h : n < 10 then [48 + n.toUInt8]
  else natDigits (n / 10) ++ [48 + (n % 10).toUInt8]
termination_by n
decreasing_by omega

/-- value of a (possibly empty) digit string, most significant first. -/
def digitsVal (ds : Bytes) : Nat := ds.foldl (fun acc d => acc * 10 + (d - 48).toNat) 0

end Lopdf
