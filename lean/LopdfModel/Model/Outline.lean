import LopdfModel.Model.Pages
import LopdfModel.Model.Outlines
import LopdfModel.Gen.Consts
/-
  C17 — model of the bookmark / outline code, written from
    src/bookmarks.rs   Bookmark, add_bookmark, outline_child, build_outline
    src/document.rs    recursive_fix_pages / adjust_zero_pages
    src/outlines.rs    get_outline, get_outlines, build_outline_result
    src/toc.rs         setup_outline_page_ids, setup_page_id_to_num, get_toc (title decoding)
  A Rust `String` is its list of Unicode scalar values (`List Nat`); `u16` code units are `Nat`s.
  `HashMap`s (`bookmark_table`, `processed`) are association lists with *prepend* as insert and
  first-match lookup, which is `HashMap::insert`/`get` semantics (a later insert shadows).
  Key names, the `GoTo`/`Fit` names and the byte-order mark come from `Gen/Consts.lean`
  (regenerated from src/bookmarks.rs, src/toc.rs, src/outlines.rs).

  Fuel: `outline_child` and `recursive_fix_pages` have NO guard in the Rust code (a cyclic
  `bookmark_table` overflows the stack), so their model cannot be defined by well-founded recursion
  on a guard of the code.  (`get_outlines` has a guard since bca5e67 and is modelled fuel-free.)  The functions
  below take fuel; `none`/`.fuel` is "did not finish".  The theorems quantify over all sufficient
  fuel and show sufficient fuel exists for every forest built through `add_bookmark`.
  Arithmetic is on `Nat`: the model assumes `max_id + 1 + 2·#bookmarks ≤ u32::MAX` and fewer than
  2^32 `add_bookmark` calls (beyond that the real code panics on overflow).
-/
namespace Lopdf
open Gen

/-! ## Bookmarks -/

/-- `lopdf::Bookmark`; `color` = the three reals as decimal text. -/
structure Bm where
  children : List Nat
  title : List Nat
  format : Nat
  color : List Bytes
  page : ObjId
  id : Nat
  deriving Repr, Inhabited

abbrev BmTable := List (Nat × Bm)

namespace BmTable
def get (t : BmTable) (k : Nat) : Option Bm :=
  match t with
  | [] => none
  | (k', b) :: r => if k' = k then some b else get r k
/-- `HashMap::insert` -/
def put (t : BmTable) (k : Nat) (b : Bm) : BmTable := (k, b) :: t
/-- `get_mut(k)` followed by an in-place update (no-op when absent) -/
def modify (t : BmTable) (k : Nat) (f : Bm → Bm) : BmTable :=
  match t with
  | [] => []
  | (k', b) :: r => if k' = k then (k', f b) :: r else (k', b) :: modify r k f
end BmTable

/-- the bookmark part of `Document` -/
structure BmState where
  maxBm : Nat
  roots : List Nat
  table : BmTable
  deriving Repr, Inhabited

def BmState.empty : BmState := { maxBm := 0, roots := [], table := [] }

/-- `Document::add_bookmark` -/
def addBookmark (s : BmState) (b : Bm) (parent : Option Nat) : BmState × Nat :=
  let id := s.maxBm + 1
  let b := { b with id := id }
  match parent with
  | some p =>
    let table := match s.table.get p with
      | some _ => s.table.modify p (fun pb => { pb with children := pb.children ++ [id] })
      | none => s.table
    ({ maxBm := id, roots := s.roots, table := table.put id b }, id)
  | none => ({ maxBm := id, roots := s.roots ++ [id], table := s.table.put id b }, id)

/-- a sequence of `add_bookmark` calls (what the public API allows) -/
def addAll (s : BmState) : List (Bm × Option Nat) → BmState
  | [] => s
  | (b, p) :: rest => addAll (addBookmark s b p).1 rest

/-- `bookmark.page = objectid` after the recursive call (`none` = the call did not finish) -/
def setPage (id : Nat) (r : Option (BmTable × ObjId)) : Option (BmTable × ObjId) :=
  match r with
  | none => none
  | some (t', oid) => some (t'.modify id (fun x => { x with page := oid }), oid)

/-- `Document::recursive_fix_pages` -/
def fixPages : Nat → BmTable → List Nat → Bool → Option (BmTable × ObjId)
  | _, t, [], _ => some (t, (0, 0))
  | 0, _, _ :: _, _ => none
  | f + 1, t, id :: rest, first =>
    match t.get id with
    | none => some (t, (0, 0))
    | some b =>
      -- `if 0 == page.0 && !children.is_empty() { … bookmark.page = objectid; page = objectid }`
      (if b.page.1 = 0 ∧ b.children.isEmpty = false then setPage id (fixPages f t b.children false)
       else some (t, b.page)).bind fun s1 =>
        -- `if !first && 0 != page.0 { return page; }`
        if first = false ∧ s1.2.1 ≠ 0 then some s1
        else
          -- `if first && !children.is_empty() { self.recursive_fix_pages(&children[..], first); }`
          (if first = true ∧ b.children.isEmpty = false then (fixPages f s1.1 b.children first).map (·.1)
           else some s1.1).bind fun t2 => fixPages f t2 rest first

/-- `Document::adjust_zero_pages` -/
def adjustZeroPages (fuel : Nat) (s : BmState) : Option BmState :=
  (fixPages fuel s.table s.roots true).map fun (t, _) => { s with table := t }

/-! ## Titles: `String::is_ascii`, `encode_utf16`, `u16::to_be_bytes`; `from_utf16_lossy` -/

/-- `str::encode_utf16` on scalar values -/
def utf16Units : List Nat → List Nat
  | [] => []
  | c :: cs =>
    if c < 0x10000 then c :: utf16Units cs
    else (0xD800 + (c - 0x10000) / 1024) :: (0xDC00 + (c - 0x10000) % 1024) :: utf16Units cs

def unitsBE : List Nat → Bytes
  | [] => []
  | u :: us => (u / 256).toUInt8 :: (u % 256).toUInt8 :: unitsBE us

def isAsciiTitle (t : List Nat) : Bool := t.all (· < 128)

/-- the `title_bytes` expression of `outline_child` -/
def titleBytes (t : List Nat) : Bytes :=
  if isAsciiTitle t then t.map Nat.toUInt8
  else OUTLINE_BOM ++ unitsBE (utf16Units t)

/-- `char::decode_utf16` + `unwrap_or(REPLACEMENT_CHARACTER)` = `String::from_utf16_lossy` -/
def utf16Lossy : List Nat → List Nat
  | [] => []
  | [u] => if u < 0xD800 ∨ 0xDFFF < u then [u] else [0xFFFD]
  | u :: u2 :: rest2 =>
    if u < 0xD800 ∨ 0xDFFF < u then u :: utf16Lossy (u2 :: rest2)
    else if 0xDC00 ≤ u then 0xFFFD :: utf16Lossy (u2 :: rest2)
    else if 0xDC00 ≤ u2 ∧ u2 ≤ 0xDFFF then
      (0x10000 + (u - 0xD800) * 1024 + (u2 - 0xDC00)) :: utf16Lossy rest2
    else 0xFFFD :: utf16Lossy (u2 :: rest2)

/-- `chunks(2)…map(|x| (x[0] << 8) | x[1])` on an even-length slice -/
def pairsBE : Bytes → List Nat
  | a :: b :: r => (a.toNat * 256 + b.toNat) :: pairsBE r
  | _ => []
def pairsLE : Bytes → List Nat
  | a :: b :: r => (b.toNat * 256 + a.toNat) :: pairsLE r
  | _ => []

inductive TitleRes where
  | ok (cs : List Nat)
  | badLen                 -- pushed to `toc.errors`, entry skipped
  | unsupported            -- non-ASCII bytes without BOM: `String::from_utf8_lossy`, outside the model
  deriving Repr, DecidableEq

/-- the title decoding of `get_toc` -/
def decodeTitle (b : Bytes) : TitleRes :=
  let plain : TitleRes := if b.all (fun (x : UInt8) => x < 128) then .ok (b.map UInt8.toNat) else .unsupported
  match b with
  | a :: c :: rest =>
    if [a, c] = TOC_BOM_BE then
      if b.length % 2 ≠ 0 then .badLen else .ok (utf16Lossy (pairsBE rest))
    else if [a, c] = TOC_BOM_LE then
      if b.length % 2 ≠ 0 then .badLen else .ok (utf16Lossy (pairsLE rest))
    else plain
  | _ => plain

/-! ## `outline_child` / `build_outline` -/

abbrev Proc := List (ObjId × Dict)

namespace Proc
def get (p : Proc) (k : ObjId) : Option Dict :=
  match p with
  | [] => none
  | (k', d) :: r => if k' = k then some d else get r k
def put (p : Proc) (k : ObjId) (d : Dict) : Proc := (k, d) :: p
def modify (p : Proc) (k : ObjId) (f : Dict → Dict) : Proc :=
  match p with
  | [] => []
  | (k', d) :: r => if k' = k then (k', f d) :: r else (k', d) :: modify r k f
end Proc

def oref (id : ObjId) : Obj := .ref id.1 id.2

/-- the `info` action dictionary -/
def infoDict (page : ObjId) : Dict :=
  [(OL_D, .arr [oref page, .name OL_FIT]), (OL_S, .name OL_GOTO)]

/-- the five unconditional `child.set` calls -/
def baseItem (parent : ObjId) (title : List Nat) (format : Nat) (color : List Bytes) (infoId : ObjId) : Dict :=
  ((((Dict.set [] OL_PARENT (oref parent)).set OL_TITLE (.str (titleBytes title) .lit)).set OL_A (oref infoId)).set
    OL_F (.int format)).set OL_C (.arr (color.map Obj.real))

def setOpt (d : Dict) (k : Bytes) (v : Option ObjId) : Dict :=
  match v with
  | some n => d.set k (oref n)
  | none => d

/-- the `if first.is_none() { first = Some(id) } else if let Some(x) = last { … }` step of the loop:
new `first`, `processed` with `Next` patched into the previous sibling, `child` with `Prev`.
`none` = `processed.get_mut(&x).unwrap()` panics. -/
def linkStep (first last : Option ObjId) (pr : Proc) (child : Dict) (id : ObjId) :
    Option (Option ObjId × Proc × Dict) :=
  match first with
  | none => some (some id, pr, child)
  | some _ =>
    match last with
    | some x =>
      match pr.get x with
      | none => none
      | some _ => some (first, pr.modify x (fun d => d.set OL_NEXT (oref id)), child.set OL_PREV (oref x))
    | none => some (first, pr, child)

/-- `Document::outline_child`: the `for` loop over `parent.1`, with the loop state
(`first`, `last`, `*maxid`, `processed`) as arguments.  `none` = `unwrap` panic or out of fuel. -/
def ocLoop (t : BmTable) :
    Nat → Nat → ObjId → List Nat → Option ObjId → Option ObjId → Proc →
      Option (Nat × Option ObjId × Option ObjId × Proc)
  | _, m, _, [], first, last, pr => some (m, first, last, pr)
  | 0, _, _, _ :: _, _, _, _ => none
  | f + 1, m, parent, i :: rest, first, last, pr =>
    match t.get i with
    | none => none
    | some b =>
      let id : ObjId := (m + 1, 0)
      let infoId : ObjId := (m + 2, 0)
      match linkStep first last pr (baseItem parent b.title b.format b.color infoId) id with
      | none => none
      | some (first', pr1, child1) =>
        if b.children.isEmpty then
          ocLoop t f (m + 2) parent rest first' (some id) ((pr1.put id child1).put infoId (infoDict b.page))
        else
          match ocLoop t f (m + 2) id b.children none none pr1 with
          | none => none
          | some (m', cf, cl, pr2) =>
            let child2 := ((setOpt (setOpt child1 OL_FIRST cf) OL_LAST cl).set OL_COUNT (.int b.children.length))
            ocLoop t f m' parent rest first' (some id) ((pr2.put id child2).put infoId (infoDict b.page))

structure Built where
  root : ObjId
  maxId : Nat
  objs : Proc           -- every object `build_outline` inserts, most recent insert first
  deriving Repr

/-- `Document::build_outline`: `some none` = returned `None` (no bookmarks, nothing changed). -/
def buildOutline (fuel : Nat) (s : BmState) (maxId : Nat) : Option (Option Built) :=
  if s.roots.isEmpty then some none
  else
    let id : ObjId := (maxId + 1, 0)
    match ocLoop s.table fuel (maxId + 1) id s.roots none none [] with
    | none => none
    | some (m', first, last, pr) =>
      let outline := (setOpt (setOpt [] OLR_FIRST first) OLR_LAST last).set OLR_COUNT (.int s.roots.length)
      some (some { root := id, maxId := m', objs := pr.put id outline })

/-- `self.objects.insert(..)` for all built objects (first match wins on lookup) -/
def installObjs (os : Objects) (new : Proc) : Objects :=
  new.map (fun (k, d) => (k, Obj.dict d)) ++ os

/-- "Outlines": the key the caller sets (examples/merge.rs, README) -/
def CAT_OUTLINES : Bytes := [79, 117, 116, 108, 105, 110, 101, 115]

/-- the documented use: `catalog.set("Outlines", Reference(outline_id))` -/
def setOutlines (os : Objects) (cat : ObjId) (root : ObjId) : Objects :=
  match getDictionary os cat with
  | some d => (cat, .dict (d.set CAT_OUTLINES (oref root))) :: os
  | none => os

/-! ## Readers

`get_outline`, `build_outline_result`, `get_outlines` (the walk over `First`/`Next` guarded by ONE
`seen` set threaded through the recursion, lopdf bca5e67), `get_named_destinations` and
`setup_outline_page_ids` are modelled once, fuel-free, in `Model/Outlines.lean` (namespace
`Lopdf.Q13`, property C13).  `get_toc` below is that walk followed by the title decoding and the
page-number map of src/toc.rs.  No fuel: termination is the walker's own guard. -/

/-- `setup_page_id_to_num` + lookup: a later page number overrides (IndexMap insert). -/
def pageNumIn (pages : List ObjId) (start : Nat) (p : ObjId) : Option Nat :=
  match pages with
  | [] => none
  | q :: rest =>
    match pageNumIn rest (start + 1) p with
    | some n => some n
    | none => if q = p then some start else none

def pageNum (trailer : Dict) (os : Objects) (p : ObjId) : Option Nat :=
  pageNumIn (pageIter trailer os) 1 p

structure TocEntry where
  level : Nat
  title : List Nat
  page : Nat
  deriving Repr, DecidableEq

inductive TocRes where
  | ok (toc : List TocEntry) (nErrors : Nat)
  | err
  | panic
  | unsupported        -- a title that is neither ASCII nor BOM-prefixed (`from_utf8_lossy`), outside the model
  deriving Repr

def tocEntries (trailer : Dict) (os : Objects) :
    List (Bytes × ObjId × Nat) → List TocEntry → Nat → Option (List TocEntry × Nat)
  | [], acc, ne => some (acc, ne)
  | (title, page, lvl) :: rest, acc, ne =>
    match pageNum trailer os page with
    | none => tocEntries trailer os rest acc ne
    | some n =>
      match decodeTitle title with
      | .ok s => tocEntries trailer os rest (acc ++ [{ level := lvl, title := s, page := n }]) ne
      | .badLen => tocEntries trailer os rest acc (ne + 1)
      | .unsupported => none

/-- `Document::get_toc` -/
def getToc (trailer : Dict) (os : Objects) : TocRes :=
  match Q13.getOutlines trailer os with
  | .err _ => .err
  | .panic _ => .panic
  | .ok (outlines, _) =>
    match Q13.tocIdsList 1 outlines [] with
    | none => .err
    | some ids =>
      match tocEntries trailer os ids [] 0 with
      | some (toc, ne) => .ok toc ne
      | none => .unsupported

end Lopdf
