import LopdfModel.Model.Pages
import LopdfModel.Gen.SitesC13
/-
  C13 — panic-explicit models of the read-only queries of `Document`
  (src/document.rs, src/outlines.rs, src/destinations.rs, src/toc.rs, src/object.rs).

  * `Outcome` = ok / err / panic <site>.  Slice indexing, `unwrap`, the checked `usize` sum of
    `PageTreeIter::size_hint` and `Vec` growth are the operations that can yield `panic`; the
    sites are regenerated from the Rust source (`Gen/SitesC13.lean`).
  * Walkers that have a guard in the code are defined by well-founded / structural recursion on
    that guard (`nb_deref`, `already_seen`, `iter_limit`) — no fuel.
  * `get_outlines` (loop over `Next`, recursion over `First`) and `get_named_destinations`
    (recursion over `Kids`) have NO guard in the code: they cannot be defined without fuel.
    They carry explicit fuel and return `none` when it runs out; `Thm/C13.lean` proves that on
    cyclic documents they return `none` for EVERY fuel (non-termination of the real code).
-/
namespace Lopdf
open Gen

namespace Outcome
def ofOpt {α} : Option α → Outcome α
  | some a => .ok a
  | none => .err "e"
end Outcome

namespace Obj
def asStr : Obj → Option Bytes
  | .str s _ => some s
  | _ => none
def asStream : Obj → Option (Dict × Bytes)
  | .stream d c => some (d, c)
  | _ => none
def isRef : Obj → Bool
  | .ref _ _ => true
  | _ => false
end Obj

/-- `Dictionary::has_type` -/
def Dict.hasType (d : Dict) (t : Bytes) : Bool := (d.get TYPE).bind Obj.asName == some t

namespace Q13

def K_Contents : Bytes := [67, 111, 110, 116, 101, 110, 116, 115]  -- "Contents"
def K_Resources : Bytes := [82, 101, 115, 111, 117, 114, 99, 101, 115]  -- "Resources"
def K_Parent : Bytes := [80, 97, 114, 101, 110, 116]  -- "Parent"
def K_Font : Bytes := [70, 111, 110, 116]  -- "Font"
def K_XObject : Bytes := [88, 79, 98, 106, 101, 99, 116]  -- "XObject"
def K_ColorSpace : Bytes := [67, 111, 108, 111, 114, 83, 112, 97, 99, 101]  -- "ColorSpace"
def K_Annots : Bytes := [65, 110, 110, 111, 116, 115]  -- "Annots"
def K_Outlines : Bytes := [79, 117, 116, 108, 105, 110, 101, 115]  -- "Outlines"
def K_First : Bytes := [70, 105, 114, 115, 116]  -- "First"
def K_Next : Bytes := [78, 101, 120, 116]  -- "Next"
def K_Dest : Bytes := [68, 101, 115, 116]  -- "Dest"
def K_A : Bytes := [65]  -- "A"
def K_D : Bytes := [68]  -- "D"
def K_S : Bytes := [83]  -- "S"
def K_Title : Bytes := [84, 105, 116, 108, 101]  -- "Title"
def K_Names : Bytes := [78, 97, 109, 101, 115]  -- "Names"
def K_Dests : Bytes := [68, 101, 115, 116, 115]  -- "Dests"
def K_Encoding : Bytes := [69, 110, 99, 111, 100, 105, 110, 103]  -- "Encoding"
def K_ToUnicode : Bytes := [84, 111, 85, 110, 105, 99, 111, 100, 101]  -- "ToUnicode"
def K_Filter : Bytes := [70, 105, 108, 116, 101, 114]  -- "Filter"
def K_Subtype : Bytes := [83, 117, 98, 116, 121, 112, 101]  -- "Subtype"
def K_Width : Bytes := [87, 105, 100, 116, 104]  -- "Width"
def K_Height : Bytes := [72, 101, 105, 103, 104, 116]  -- "Height"
def K_BitsPerComponent : Bytes := [66, 105, 116, 115, 80, 101, 114, 67, 111, 109, 112, 111, 110, 101, 110, 116]  -- "BitsPerComponent"
def K_Count : Bytes := [67, 111, 117, 110, 116]  -- "Count"
def K_Encrypt : Bytes := [69, 110, 99, 114, 121, 112, 116]  -- "Encrypt"
def K_CF : Bytes := [67, 70]  -- "CF"
def K_CFM : Bytes := [67, 70, 77]  -- "CFM"
def K_Image : Bytes := [73, 109, 97, 103, 101]  -- "Image"
def K_GoTo : Bytes := [71, 111, 84, 111]  -- "GoTo"
def K_GoToR : Bytes := [71, 111, 84, 111, 82]  -- "GoToR"
def K_CryptFilter : Bytes := [67, 114, 121, 112, 116, 70, 105, 108, 116, 101, 114]  -- "CryptFilter"
def K_V2 : Bytes := [86, 50]  -- "V2"
def K_AESV2 : Bytes := [65, 69, 83, 86, 50]  -- "AESV2"
def K_AESV3 : Bytes := [65, 69, 83, 86, 51]  -- "AESV3"
def K_Identity : Bytes := [73, 100, 101, 110, 116, 105, 116, 121]  -- "Identity"
def K_StandardEncoding : Bytes := [83, 116, 97, 110, 100, 97, 114, 100, 69, 110, 99, 111, 100, 105, 110, 103]  -- "StandardEncoding"
def K_MacRomanEncoding : Bytes := [77, 97, 99, 82, 111, 109, 97, 110, 69, 110, 99, 111, 100, 105, 110, 103]  -- "MacRomanEncoding"
def K_MacExpertEncoding : Bytes := [77, 97, 99, 69, 120, 112, 101, 114, 116, 69, 110, 99, 111, 100, 105, 110, 103]  -- "MacExpertEncoding"
def K_WinAnsiEncoding : Bytes := [87, 105, 110, 65, 110, 115, 105, 69, 110, 99, 111, 100, 105, 110, 103]  -- "WinAnsiEncoding"
def K_PDFDocEncoding : Bytes := [80, 68, 70, 68, 111, 99, 69, 110, 99, 111, 100, 105, 110, 103]  -- "PDFDocEncoding"
def K_Identity_H : Bytes := [73, 100, 101, 110, 116, 105, 116, 121, 45, 72]  -- "Identity-H"
def K_Identity_V : Bytes := [73, 100, 101, 110, 116, 105, 116, 121, 45, 86]  -- "Identity-V"

/-- every `Err(_)` of lopdf is one class -/
abbrev E {α} : Outcome α := .err "e"

/-! ### dereference / lookup (src/document.rs 144-218) -/

/-- `Document::dereference` including the id it returns: the last id of the chain,
`none` when the object was not a reference. `n` = hops still allowed. -/
def derefIdAux (os : Objects) : Nat → Option ObjId → Obj → Option (Option ObjId × Obj)
  | n, _, .ref a b =>
    match os.get (a, b) with
    | none => none
    | some o' => match n with
      | 0 => none
      | n + 1 => derefIdAux os n (some (a, b)) o'
  | _, id, o => some (id, o)

def derefId (os : Objects) (o : Obj) : Option (Option ObjId × Obj) := derefIdAux os DEREF_LIMIT none o

/-- `Document::get_object_mut`: `self.objects.get_mut(&ref_id.unwrap_or(id)).unwrap()` -/
def getObjectMut (os : Objects) (id : ObjId) : Outcome Obj :=
  match os.get id with
  | none => E
  | some o =>
    match derefId os o with
    | none => E
    | some (rid, _) =>
      match os.get (rid.getD id) with
      | none => .panic S_GET_OBJECT_MUT
      | some o' => .ok o'

/-- `Document::get_dict_in_dict` -/
def getDictInDict (os : Objects) (node : Dict) (key : Bytes) : Option Dict :=
  match node.get key with
  | some (.ref a b) => getDictionary os (a, b)
  | some (.dict d) => some d
  | _ => none

/-- `Dictionary::get_deref` -/
def getDeref (os : Objects) (d : Dict) (key : Bytes) : Option Obj := (d.get key).bind (deref os)

/-- `Document::catalog` -/
def catalog (trailer : Dict) (os : Objects) : Option Dict :=
  ((trailer.get ROOT).bind Obj.asRef).bind (getDictionary os)

/-- `Document::get_encrypted`: the encryption dictionary given directly in the trailer, or by reference -/
def getEncrypted (trailer : Dict) (os : Objects) : Option Dict :=
  match trailer.get K_Encrypt with
  | some (.dict d) => some d
  | some o => o.asRef.bind (getDictionary os)
  | none => none

/-! ### sorted maps (`BTreeMap<Vec<u8>, _>`) -/

def bytesLt : Bytes → Bytes → Bool
  | [], [] => false
  | [], _ :: _ => true
  | _ :: _, [] => false
  | a :: as, b :: bs => a < b || (a == b && bytesLt as bs)

/-- insert into a key-sorted association list; an existing key is kept (`keep = true`,
`if !contains_key { insert }`) or overwritten (`BTreeMap::insert`). -/
def insertSorted {α} (keep : Bool) (k : Bytes) (v : α) : List (Bytes × α) → List (Bytes × α)
  | [] => [(k, v)]
  | (k', v') :: rest =>
    if k' = k then (if keep then (k', v') :: rest else (k, v) :: rest)
    else if bytesLt k k' then (k, v) :: (k', v') :: rest
    else (k', v') :: insertSorted keep k v rest

/-- `Document::get_crypt_filters`: the names that end up in the map (sorted) with the filter kind -/
def getCryptFilters (trailer : Dict) (os : Objects) : List (Bytes × String) :=
  match ((getEncrypted trailer os).bind (fun d => d.get K_CF)).bind Obj.asDict with
  | none => []
  | some filters =>
    filters.foldl (fun acc (p : Bytes × Obj) =>
      match p.2.asDict with
      | none => acc
      | some f =>
        if (f.get TYPE).isSome && !(f.hasType K_CryptFilter) then acc
        else
          match (f.get K_CFM).bind Obj.asName with
          | none => insertSorted false p.1 "identity" acc
          | some m =>
            if m = K_V2 then insertSorted false p.1 "rc4" acc
            else if m = K_AESV2 then insertSorted false p.1 "aes128" acc
            else if m = K_AESV3 then insertSorted false p.1 "aes256" acc
            else if m = K_Identity then insertSorted false p.1 "identity" acc
            else acc) []

/-! ### page content (src/document.rs 555-624) -/

/-- the `loop` of `get_page_contents`; `fuel` = number of `continue`s still allowed
(`nb_deref += 1; if nb_deref < DEREF_LIMIT { continue }`) -/
def contentsAux (os : Objects) : Nat → Obj → List ObjId
  | fuel, .ref a b =>
    match os.get (a, b) with
    | none => [(a, b)]
    | some (.stream _ _) => [(a, b)]
    | some o =>
      match fuel with
      | 0 => []
      | f + 1 => contentsAux os f o
  | _, .arr items => items.filterMap Obj.asRef
  | _, _ => []

/-- `Document::get_page_contents` -/
def getPageContents (os : Objects) (pid : ObjId) : List ObjId :=
  match getDictionary os pid with
  | none => []
  | some page =>
    match page.get K_Contents with
    | none => []
    | some c => contentsAux os (DEREF_LIMIT - 1) c

/-- `Document::get_page_content`; `decomp` stands for `Stream::decompressed_content` (filters:
property C09, `decompressedContent` of `Model/Filters.lean`) — on `Err` the raw content is used; a
panic inside it would unwind through the query. Writing into a `Vec` cannot fail, so the result is
`Ok` whenever the filters do not panic. -/
def getPageContent (decomp : Dict → Bytes → Outcome Bytes) (os : Objects) (pid : ObjId) : Outcome Bytes :=
  (getPageContents os pid).foldl (fun (acc : Outcome Bytes) id =>
    match acc with
    | .ok sofar =>
      match (getObject os id).bind Obj.asStream with
      | none => .ok sofar
      | some (d, c) =>
        match decomp d c with
        | .ok data => .ok (sofar ++ data)
        | .err _ => .ok (sofar ++ c)
        | .panic s => .panic s
    | other => other) (.ok [])

/-! ### resources (src/document.rs 626-653): recursion guarded by `already_seen` -/

/-- number of objects of the document not yet in `seen`: the measure behind `already_seen` -/
def unseen (os : Objects) (seen : List ObjId) : Nat :=
  (os.filter (fun p => decide (p.1 ∉ seen))).length

theorem unseen_le (seen : List ObjId) (pid : ObjId) (l : Objects) :
    unseen l (pid :: seen) ≤ unseen l seen := by
  unfold unseen
  induction l with
  | nil => simp
  | cons q l ih =>
    simp only [List.filter_cons]
    by_cases h1 : q.1 ∈ seen
    · have h2 : q.1 ∈ pid :: seen := List.mem_cons_of_mem _ h1
      simp only [h1, h2, not_true_eq_false, decide_false]
      exact ih
    · by_cases h2 : q.1 ∈ pid :: seen
      · simp only [h1, h2, not_true_eq_false, not_false_eq_true, decide_false, decide_true]
        simp at ih ⊢; omega
      · simp only [h1, h2, not_false_eq_true, decide_true]
        simp at ih ⊢; omega

theorem unseen_lt (os : Objects) (seen : List ObjId) (pid : ObjId) (o : Obj)
    (hmem : (pid, o) ∈ os) (hs : pid ∉ seen) :
    unseen os (pid :: seen) < unseen os seen := by
  induction os with
  | nil => simp at hmem
  | cons p rest ih =>
    rcases List.mem_cons.mp hmem with h | h
    · subst h
      have hle := unseen_le seen pid rest
      unfold unseen at hle ⊢
      simp only [List.filter_cons]
      have h2 : pid ∈ pid :: seen := List.mem_cons_self
      simp only [hs, h2, not_true_eq_false, not_false_eq_true, decide_false, decide_true]
      simp at hle ⊢; omega
    · have := ih h
      unfold unseen at this ⊢
      simp only [List.filter_cons]
      by_cases h1 : p.1 ∈ seen
      · have h2 : p.1 ∈ pid :: seen := List.mem_cons_of_mem _ h1
        simp only [h1, h2, not_true_eq_false, decide_false]
        exact this
      · by_cases h2 : p.1 ∈ pid :: seen
        · simp only [h1, h2, not_true_eq_false, not_false_eq_true, decide_false, decide_true]
          simp at this ⊢; omega
        · simp only [h1, h2, not_false_eq_true, decide_true]
          simp at this ⊢; omega

theorem Objects.get_mem {os : Objects} {id : ObjId} {o : Obj} (h : os.get id = some o) :
    (id, o) ∈ os := by
  induction os with
  | nil => simp [Objects.get] at h
  | cons p rest ih =>
    obtain ⟨i, o'⟩ := p
    unfold Objects.get at h
    split at h
    · rename_i heq; cases h; simp [heq]
    · exact List.mem_cons_of_mem _ (ih h)

theorem getDictionary_mem {os : Objects} {id : ObjId} {d : Dict} (h : getDictionary os id = some d) :
    ∃ o, (id, o) ∈ os := by
  unfold getDictionary getObject at h
  cases hg : os.get id with
  | none => simp [hg] at h
  | some o => exact ⟨o, Objects.get_mem hg⟩

/-- `collect_resources`: `none` = `Err` (reference cycle / parent is not a dictionary) -/
def collectResources (os : Objects) (node : Dict) (seen : List ObjId) (acc : List ObjId) :
    Option (List ObjId) :=
  let acc1 := match (node.get K_Resources).bind Obj.asRef with
    | some r => acc ++ [r]
    | none => acc
  match (node.get K_Parent).bind Obj.asRef with
  | none => some acc1
  | some pid =>
    if hs : pid ∈ seen then none
    else
      match hd : getDictionary os pid with
      | none => none
      | some pd => collectResources os pd (pid :: seen) acc1
termination_by unseen os seen
decreasing_by
  obtain ⟨o, hm⟩ := getDictionary_mem hd
  exact unseen_lt os seen pid o hm hs

/-- `Document::get_page_resources`: (is there a direct resource dictionary, resource ids) -/
def getPageResources (os : Objects) (pid : ObjId) : Outcome (Option Dict × List ObjId) :=
  match getDictionary os pid with
  | none => .ok (none, [])
  | some page =>
    match collectResources os page [] [] with
    | none => E
    | some ids => .ok ((page.get K_Resources).bind Obj.asDict, ids)

/-- `collect_fonts_from_resources` -/
def collectFonts (os : Objects) (resources : Dict) (fonts : List (Bytes × Dict)) : List (Bytes × Dict) :=
  match resources.get K_Font with
  | none => fonts
  | some f =>
    let fd : Option Dict := match f with
      | .ref a b => (getObject os (a, b)).bind Obj.asDict
      | .dict d => some d
      | _ => none
    match fd with
    | none => fonts
    | some fd =>
      fd.foldl (fun acc (p : Bytes × Obj) =>
        let font : Option Dict := match p.2 with
          | .ref a b => getDictionary os (a, b)
          | .dict d => some d
          | _ => none
        match font with
        | some ft => insertSorted true p.1 ft acc
        | none => acc) fonts

/-- `Document::get_page_fonts` (key-sorted as the `BTreeMap`) -/
def getPageFonts (os : Objects) (pid : ObjId) : Outcome (List (Bytes × Dict)) :=
  match getPageResources os pid with
  | .ok (rd, ids) =>
    let f0 := match rd with
      | some r => collectFonts os r []
      | none => []
    .ok (ids.foldl (fun acc id =>
      match getDictionary os id with
      | some r => collectFonts os r acc
      | none => acc) f0)
  | .err e => .err e
  | .panic s => .panic s

/-- `Document::get_page_annotations` (number of annotation dictionaries) -/
def getPageAnnotations (os : Objects) (pid : ObjId) : Outcome Nat :=
  let cnt := fun (a : List Obj) => ((a.filterMap Obj.asRef).filter (fun id => (getDictionary os id).isSome)).length
  match getDictionary os pid with
  | none => .ok 0
  | some page =>
    match page.get K_Annots with
    | some (.ref a b) =>
      match (getObject os (a, b)).bind Obj.asArr with
      | none => E
      | some arr => .ok (cnt arr)
    | some (.arr a) => .ok (cnt a)
    | _ => .ok 0

/-! ### images (src/document.rs 719-775) -/

structure Img where
  id : ObjId
  width : Int
  height : Int
  hasCs : Bool
  bpc : Option Int
  nfilters : Nat
  deriving Repr, DecidableEq

/-- the `color_space` match: `array.first()` — an empty array gives `None` -/
def imageColorSpace (dict : Dict) : Outcome Bool :=
  match dict.get K_ColorSpace with
  | some (.arr []) => .ok false
  | some (.arr (x :: _)) => match x.asName with
    | some _ => .ok true
    | none => E
  | some (.name _) => .ok true
  | _ => .ok false

def imageFilters (dict : Dict) : Outcome Nat :=
  match dict.get K_Filter with
  | some (.arr a) => if a.all (fun o => o.asName.isSome) then .ok a.length else E
  | some (.name _) => .ok 1
  | _ => .ok 0

/-- `match dict.get(b"BitsPerComponent") { Ok(bpc) => Some(bpc.as_i64()?), Err(_) => None }` -/
def imageBpc (dict : Dict) : Outcome (Option Int) :=
  match dict.get K_BitsPerComponent with
  | some b => (match b.asInt with
    | some i => .ok (some i)
    | none => E)
  | none => .ok none

/-- one pass of the `for (_, xvalue) in xobject.iter()` loop: `none` = `continue` -/
def imageOf (os : Objects) (xv : Obj) : Outcome (Option Img) :=
  match xv.asRef with
  | none => E
  | some id =>
    match (getObject os id).bind Obj.asStream with
    | none => E
    | some (dict, _) =>
      match (dict.get K_Subtype).bind Obj.asName with
      | none => E
      | some st =>
        if st ≠ K_Image then .ok none else
        match (dict.get K_Width).bind Obj.asInt with
        | none => E
        | some w =>
          match (dict.get K_Height).bind Obj.asInt with
          | none => E
          | some h =>
            match imageColorSpace dict with
            | .panic s => .panic s
            | .err e => .err e
            | .ok cs =>
              match imageBpc dict with
              | .panic s => .panic s
              | .err e => .err e
              | .ok bpc =>
                match imageFilters dict with
                | .panic s => .panic s
                | .err e => .err e
                | .ok nf => .ok (some ⟨id, w, h, cs, bpc, nf⟩)

def imagesLoop (os : Objects) : List (Bytes × Obj) → Outcome (List Img)
  | [] => .ok []
  | (_, xv) :: rest =>
    match imageOf os xv with
    | .panic s => .panic s
    | .err e => .err e
    | .ok none => imagesLoop os rest
    | .ok (some i) => (imagesLoop os rest).map (i :: ·)

/-- `Document::get_page_images` -/
def getPageImages (os : Objects) (pid : ObjId) : Outcome (List Img) :=
  match getDictionary os pid with
  | none => .ok []
  | some page =>
    match getDictInDict os page K_Resources with
    | none => E
    | some res =>
      match getDictInDict os res K_XObject with
      | none => E
      | some xo => imagesLoop os xo

/-! ### font encoding (src/object.rs 407-455) -/

inductive EncKind where
  | one (table : String)
  | simple (name : Bytes)
  /-- `get_encoding_from_to_unicode_cmap` was reached (filters + CMap parser: C09, C15) -/
  | toUnicode
  deriving Repr

def toUnicodeStream (os : Objects) (font : Dict) : Option (Dict × Bytes) :=
  (getDeref os font K_ToUnicode).bind Obj.asStream

/-- `Dictionary::get_font_encoding` up to the call of the CMap parser -/
def getFontEncoding (os : Objects) (font : Dict) : Outcome EncKind :=
  if !font.hasType K_Font then E else
  match (font.get K_Encoding).bind Obj.asName with
  | some n =>
    if n = K_StandardEncoding then .ok (.one "Standard")
    else if n = K_MacRomanEncoding then .ok (.one "MacRoman")
    else if n = K_MacExpertEncoding then .ok (.one "MacExpert")
    else if n = K_WinAnsiEncoding then .ok (.one "WinAnsi")
    else if n = K_PDFDocEncoding then .ok (.one "PDFDoc")
    else if n = K_Identity_H || n = K_Identity_V then
      match toUnicodeStream os font with
      | some _ => .ok .toUnicode
      | none => E
    else .ok (.simple n)
  | none =>
    match toUnicodeStream os font with
    | some _ => .ok .toUnicode
    | none => .ok (.one "Standard")

/-! ### get_pages: `collect()` over `PageTreeIter` (src/document.rs 547-549, 877-899)

`size_hint` now reports the lower bound `SIZE_HINT_LOWER` (= 0, regenerated from the source) and
folds the `Count` values with `saturating_add`, so neither the sum nor the reservation depends on
the file any more; what remains is std's `Vec` growth. -/

def USIZE : Nat := 2 ^ 64
def ISIZE_MAX : Nat := 2 ^ 63 - 1
def S_CAP : String := "alloc:capacity-overflow"
def S_ALLOC : String := "abort:alloc"

def satAdd1 (n : Nat) : Nat := if n + 1 < USIZE then n + 1 else USIZE - 1

/-- allocation of `cap` elements of `esz` bytes: `capacity overflow` panic beyond `isize::MAX`
bytes; beyond `memMax` bytes (an environment parameter: the memory the process may still
obtain) the allocator fails and the process aborts. -/
def allocCheck (esz memMax cap : Nat) : Outcome Unit :=
  if cap * esz > ISIZE_MAX then .panic S_CAP
  else if cap * esz > memMax then .panic S_ALLOC
  else .ok ()

/-- capacity after `Vec::from_iter` / `extend_desugared` made room for one more element:
the first element allocates `max(4, lower+1)`, later ones `reserve(lower+1)` when full
(amortised doubling). `lower` = the iterator's `size_hint().0`. -/
def growCap (esz memMax len cap lower : Nat) : Outcome Nat :=
  if len = 0 then
    let c := max 4 (satAdd1 lower)
    match allocCheck esz memMax c with
    | .ok _ => .ok c
    | .err e => .err e
    | .panic s => .panic s
  else
    let req := len + satAdd1 lower
    if req ≥ USIZE then .panic S_CAP
    else
      let c := max (max (2 * cap) req) 4
      match allocCheck esz memMax c with
      | .ok _ => .ok c
      | .err e => .err e
      | .panic s => .panic s

/-- what `collect` does right after the iterator yielded an element: room is made for the first
element and whenever the vector is full, with the lower bound `size_hint` reports. -/
def afterYield (esz memMax len cap : Nat) : Outcome Nat :=
  if len = 0 ∨ len = cap then growCap esz memMax len cap SIZE_HINT_LOWER
  else .ok cap

/-- `page_iter().collect::<Vec<_>>()` with the vector's capacity made explicit — the same
recursion (and the same fuel-free termination measure) as `run` of C12. Result: the ids and the
final capacity of the vector. -/
def runCap (cls : Obj → Cls) (esz memMax : Nat) :
    Option (List Obj) → List (List Obj) → Nat → Nat → Nat → Outcome (List ObjId × Nat)
  | some (kid :: rest), stack, limit, len, cap =>
    if limit = 0 then .ok ([], cap) else
    match cls kid with
    | .skip => runCap cls esz memMax (some rest) stack (limit - 1) len cap
    | .page id =>
      match afterYield esz memMax len cap with
      | .panic s => .panic s
      | .err e => .err e
      | .ok cap' =>
        match runCap cls esz memMax (some rest) stack (limit - 1) (len + 1) cap' with
        | .ok (l, c) => .ok (id :: l, c)
        | .err e => .err e
        | .panic s => .panic s
    | .pages ks =>
      if stack.length < PAGE_TREE_DEPTH_LIMIT then
        runCap cls esz memMax ks (if rest.isEmpty then stack else rest :: stack) (limit - 1) len cap
      else runCap cls esz memMax (some rest) stack (limit - 1) len cap
  | some [], top :: st, limit, len, cap => runCap cls esz memMax (some top) st limit len cap
  | none, top :: st, limit, len, cap => runCap cls esz memMax (some top) st limit len cap
  | some [], [], _, _, cap => .ok ([], cap)
  | none, [], _, _, cap => .ok ([], cap)
termination_by k s l => (l, s.length, match k with | some x => x.length + 1 | none => 0)
decreasing_by
  all_goals simp_wf
  all_goals first
    | (apply Prod.Lex.left; omega)
    | (apply Prod.Lex.right; apply Prod.Lex.left; simp)
    | skip

def pageRoot (trailer : Dict) (os : Objects) : Option ObjId :=
  ((trailer.get ROOT).bind Obj.asRef).bind fun cat =>
    (getDictionary os cat).bind fun d => (d.get PAGES).bind Obj.asRef

/-- `page_iter().…collect()`: `esz` = 12 for `get_pages` (`(u32, ObjectId)`), 8 for a `Vec<ObjectId>`;
the ids and the capacity of the collected vector -/
def collectPages (esz memMax : Nat) (trailer : Dict) (os : Objects) : Outcome (List ObjId × Nat) :=
  match pageRoot trailer os with
  | some pid => runCap (classify os) esz memMax (kidsOf os pid) [] os.length 0 0
  | none => .ok ([], 0)

/-- `Document::get_pages` (page number n ↦ n-th element) -/
def getPages (memMax : Nat) (trailer : Dict) (os : Objects) : Outcome (List ObjId) :=
  (collectPages 12 memMax trailer os).map (·.1)

def objectPageLoop (os : Objects) (id : ObjId) : List ObjId → Outcome ObjId
  | [] => E
  | p :: rest =>
    match (getObject os p).bind Obj.asDict with
    | none => E
    | some page =>
      match (page.get K_Annots).bind Obj.asArr with
      | none => E
      | some annots =>
        if annots.any (fun o => o.asRef == some id) then .ok p else objectPageLoop os id rest

/-- `Document::get_object_page` -/
def getObjectPage (memMax : Nat) (trailer : Dict) (os : Objects) (id : ObjId) : Outcome ObjId :=
  match getPages memMax trailer os with
  | .ok pages => objectPageLoop os id pages
  | .err e => .err e
  | .panic s => .panic s

end Q13
end Lopdf
