import LopdfModel.Model.Queries
import LopdfModel.Model.Filters
import LopdfModel.Model.Content
import LopdfModel.Model.Text
import LopdfModel.Model.CMap
import LopdfModel.Model.CMapParse
/-
  C13 — `Document::extract_text` (src/parser_aux.rs) as the composition of the models of the
  other properties: page lookup and fonts (C13, `Model/Queries.lean`), stream filters (C09,
  `Model/Filters.lean`, flate2 / weezl as the parameter `ext`), the content-stream parser (C14 /
  C04, `Model/Content.lean`) and the text loop with the font encodings (C16, `Model/Text.lean`).
  and the ToUnicode CMap machinery (C15, `Model/CMap.lean`, `Model/CMapParse.lean`: parser,
  `from_sections`, segmentation, UTF-16 decoding). Still outside: the two `UniGB-*` simple
  encodings, which lopdf decodes with encoding_rs' BOM-sniffing `UTF_16BE.decode` (C16 reports
  them as `err "out-of-model:encoding_rs"`).
-/
namespace Lopdf.Q13
open Gen

/-- `Stream::decompressed_content` as the `decomp` argument of `getPageContent` -/
def decompOf (ext : Ext) (d : Dict) (c : Bytes) : Outcome Bytes := decompressedContent ext ⟨d, c⟩

/-! ### font encodings with the document at hand (`Dictionary::get_font_encoding`) -/

/-- `Encoding`: a one-byte table / simple name (C16's `Enc`) or a parsed ToUnicode CMap (C15's `UMap`) -/
inductive FontEnc where
  | std (e : Enc)
  | cmap (m : CMap.UMap)

/-- `Encoding::UnicodeMapEncoding(cmap).bytes_to_string` -/
def cmapDecode (m : CMap.UMap) (bs : Bytes) : Outcome UStr :=
  (CMap.bytesToUnits m (bs.map UInt8.toNat)).map CMap.decodeUnits

/-- `Document::decode_text` = `Encoding::bytes_to_string` -/
def FontEnc.decode : FontEnc → Bytes → Outcome UStr
  | .std e, bs => decodeText e bs
  | .cmap m, bs => cmapDecode m bs

/-- `get_encoding_from_to_unicode_cmap`: `stream.get_plain_content()?` (filters: C09) then
`ToUnicodeCMap::parse` (grammar + `from_sections`: C15) -/
def cmapOfStream (ext : Ext) (d : Dict) (c : Bytes) : Outcome FontEnc :=
  match getPlainContent ext ⟨d, c⟩ with
  | .err e => .err e
  | .panic s => .panic s
  | .ok text =>
    match (CMap.parseCMap text).bind CMap.fromSections with
    | some m => .ok (.cmap m)
    | none => E

/-- `Dictionary::get_font_encoding(doc)` with everything it can return -/
def fontEnc (ext : Ext) (os : Objects) (font : Dict) : Outcome FontEnc :=
  if !font.hasType K_Font then E else
  match (font.get K_Encoding).bind Obj.asName with
  | some n =>
    match lookupName n FONT_ENCODINGS with
    | some t => .ok (.std (.oneByte t))
    | none =>
      if FONT_TOUNICODE_NAMES.contains n then
        match toUnicodeStream os font with
        | some (d, c) => cmapOfStream ext d c
        | none => E
      else .ok (.std (.simple n))
  | none =>
    match toUnicodeStream os font with
    | some (d, c) => cmapOfStream ext d c
    | none => .ok (.std (.oneByte FONT_FALLBACK_ENCODING))

/-- the encodings of the page's fonts; an `Err` of any font fails `extract_text` as a whole, a
panic unwinds -/
def fontEncs (ext : Ext) (os : Objects) : List (Bytes × Dict) → Outcome (List (Bytes × FontEnc))
  | [] => .ok []
  | (n, f) :: rest =>
    match fontEnc ext os f, fontEncs ext os rest with
    | .panic s, _ => .panic s
    | _, .panic s => .panic s
    | .err e, _ => .err e
    | _, .err e => .err e
    | .ok e, .ok es => .ok ((n, e) :: es)

/-! ### the text loop of `extract_text_chunks_from_page` (as C16's `extractLoop`, over `FontEnc`) -/

mutual
/-- `collect_text` on one operand -/
def collectObjF (e : FontEnc) (text : UStr) : Obj → Outcome UStr
  | .str bs _ =>
    match e.decode bs with
    | .ok s => .ok (text ++ s)
    | .err x => .err x
    | .panic x => .panic x
  | .arr items =>
    match collectListF e text items with
    | .ok t => .ok (t ++ [32])
    | .err x => .err x
    | .panic x => .panic x
  | .int i => .ok (if i < -100 then text ++ [32] else text)
  | _ => .ok text
/-- `collect_text` -/
def collectListF (e : FontEnc) (text : UStr) : List Obj → Outcome UStr
  | [] => .ok text
  | o :: os =>
    match collectObjF e text o with
    | .ok t => collectListF e t os
    | .err x => .err x
    | .panic x => .panic x
end

def lookupFontEnc (n : Bytes) : List (Bytes × FontEnc) → Option FontEnc
  | [] => none
  | (k, e) :: rest => if k = n then some e else lookupFontEnc n rest

structure XStateF where
  cur : Option FontEnc    -- `current_encoding`
  done : UStr             -- chunks already pushed, concatenated
  text : UStr             -- `current_text`

/-- the operation loop, as seen through `extract_text` (which fails at the first error chunk) -/
def extractLoopF (encs : List (Bytes × FontEnc)) : List (Bytes × List Obj) → XStateF → Outcome UStr
  | [], st => .ok (st.done ++ st.text)
  | (op, operands) :: rest, st =>
    if op = OP_TF then
      match operands with
      | [] => .err "Syntax"
      | f :: _ =>
        match f.asName with
        | none => .err "Type"
        | some n => extractLoopF encs rest { cur := lookupFontEnc n encs, done := st.done ++ st.text, text := [] }
    else if op = OP_TJ || op = OP_TJ_ARR then
      match st.cur with
      | none => extractLoopF encs rest st
      | some e =>
        match collectListF e st.text operands with
        | .ok t => extractLoopF encs rest { st with text := t }
        | .err x => .err x
        | .panic x => .panic x
    else if op = OP_ET then
      extractLoopF encs rest { st with text := if st.text.getLast? = some 10 then st.text else st.text ++ [10] }
    else extractLoopF encs rest st

/-- `extract_text_chunks_from_page` as `extract_text` sees it (any error chunk fails the call) -/
def extractPage (ext : Ext) (os : Objects) (pid : ObjId) : Outcome UStr :=
  match getPageFonts os pid with
  | .err e => .err e
  | .panic s => .panic s
  | .ok fonts =>
    match fontEncs ext os fonts with
    | .panic s => .panic s
    | encs =>
      match getPageContent (decompOf ext) os pid with
      | .err e => .err e
      | .panic s => .panic s
      | .ok data =>
        match decodeContent data with
        | .err e => .err e
        | .panic s => .panic s
        | .ok ops =>
          match encs with
          | .ok encs => extractLoopF encs (ops.map fun o => (o.operator, o.operands)) { cur := none, done := [], text := [] }
          | .err e => .err e
          | .panic s => .panic s

/-- `pages.get(&page_number)` on the `BTreeMap` `get_pages` returns (keys 1..n) -/
def pageByNumber (pages : List ObjId) (n : Nat) : Option ObjId := if n = 0 then none else pages[n - 1]?

/-- `extract_text_chunks` computes the chunks of ALL requested pages before `extract_text` looks at
them: a panic on any page wins; otherwise the first error; otherwise the concatenation. -/
def joinPages : List (Outcome UStr) → Outcome UStr
  | [] => .ok []
  | r :: rest =>
    match r, joinPages rest with
    | .panic s, _ => .panic s
    | _, .panic s => .panic s
    | .err e, _ => .err e
    | .ok t, .ok u => .ok (t ++ u)
    | .ok _, .err e => .err e

/-- `Document::extract_text(page_numbers)` -/
def extractTextDoc (memMax : Nat) (ext : Ext) (trailer : Dict) (os : Objects) (nums : List Nat) : Outcome UStr :=
  match getPages memMax trailer os with
  | .err e => .err e
  | .panic s => .panic s
  | .ok pages =>
    joinPages (nums.map fun n =>
      match pageByNumber pages n with
      | none => E
      | some pid => extractPage ext os pid)

end Lopdf.Q13
