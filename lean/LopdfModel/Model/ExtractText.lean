import LopdfModel.Model.Queries
import LopdfModel.Model.Filters
import LopdfModel.Model.Content
import LopdfModel.Model.Text
/-
  C13 — `Document::extract_text` (src/parser_aux.rs) as the composition of the models of the
  other properties: page lookup and fonts (C13, `Model/Queries.lean`), stream filters (C09,
  `Model/Filters.lean`, flate2 / weezl as the parameter `ext`), the content-stream parser (C14 /
  C04, `Model/Content.lean`) and the text loop with the font encodings (C16, `Model/Text.lean`).
  ToUnicode CMaps stay outside (C15): C16's `Enc.cmap` makes the page an error.
-/
namespace Lopdf.Q13
open Gen

/-- `Stream::decompressed_content` as the `decomp` argument of `getPageContent` -/
def decompOf (ext : Ext) (d : Dict) (c : Bytes) : Outcome Bytes := decompressedContent ext ⟨d, c⟩

/-- `extract_text_chunks_from_page` as `extract_text` sees it (any error chunk fails the call) -/
def extractPage (ext : Ext) (os : Objects) (pid : ObjId) : Outcome UStr :=
  match getPageFonts os pid with
  | .err e => .err e
  | .panic s => .panic s
  | .ok fonts =>
    match getPageContent (decompOf ext) os pid with
    | .err e => .err e
    | .panic s => .panic s
    | .ok data =>
      match decodeContent data with
      | .err e => .err e
      | .panic s => .panic s
      | .ok ops => extractText fonts (ops.map fun o => (o.operator, o.operands))

/-- `pages.get(&page_number)` on the `BTreeMap` `get_pages` returns (keys 1..n) -/
def pageByNumber (pages : List ObjId) (n : Nat) : Option ObjId := if n = 0 then none else pages[n - 1]?

/-- `extract_text_chunks` computes the chunks of ALL requested pages before `extract_text` looks at
them: a panic on any page wins; otherwise the first error; otherwise the concatenation. -/
def joinPages : List (Outcome UStr) → Outcome UStr
  | [] => .ok []
  | r :: rest =>
    match r, joinPages rest with
    | .panic s, _ => .panic s
    | _, .panic s => .panic s
    | .err e, _ => .err e
    | .ok t, .ok u => .ok (t ++ u)
    | .ok _, .err e => .err e

/-- `Document::extract_text(page_numbers)` -/
def extractTextDoc (memMax : Nat) (ext : Ext) (trailer : Dict) (os : Objects) (nums : List Nat) : Outcome UStr :=
  match getPages memMax trailer os with
  | .err e => .err e
  | .panic s => .panic s
  | .ok pages =>
    joinPages (nums.map fun n =>
      match pageByNumber pages n with
      | none => E
      | some pid => extractPage ext os pid)

end Lopdf.Q13
