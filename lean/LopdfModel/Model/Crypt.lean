import LopdfModel.Model.Obj
import LopdfModel.Model.Pages
import LopdfModel.Model.Read
import LopdfModel.Gen.Crypt
import LopdfModel.Gen.Tables
/-
  C05 / C06 — model of lopdf's standard security handler as coded:
  src/encryption/rc4.rs (KSA + PRGA), src/encryption/pkcs5.rs, the CBC chaining of the
  `cbc` crate over an abstract block cipher, src/encryption/crypt_filters.rs (four filters,
  `compute_key` with `sAlT`, IV ‖ CBC ‖ PKCS#5), src/encryption.rs (`encrypt_object` /
  `decrypt_object` walkers with the XRef and Metadata exemptions, per-stream `Crypt`
  override, default string / stream filters with the RC4 fall-back, `EncryptionState::
  {try_from, encode, decode}`), src/encryption/algorithms.rs (`PasswordAlgorithm`) and
  `Document::{encrypt, decrypt_raw, authenticate_raw_password}` (src/document.rs).

  External crates are PARAMETERS (`Prims`): MD5, SHA-256, the AES block functions and the
  hardened hash of Algorithm 2.B (for revision 6).  Nothing is assumed about them here;
  theorems state their hypotheses explicitly.
-/
namespace Lopdf.Crypt
open Lopdf Lopdf.Gen

/-! ## RC4 (src/encryption/rc4.rs) -/

abbrev RState := Array UInt8

def rc4Init : RState := (List.range 256).toArray.map (fun n => n.toUInt8)

/-- `initial_state.swap(i, j)` -/
def swapAt (s : RState) (i j : Nat) : RState :=
  let a := s[i]!
  let b := s[j]!
  (s.set! i b).set! j a

/-- key-scheduling loop `for i in 0..256`; `n` = iterations left. -/
def ksa (key : Array UInt8) : Nat → Nat → UInt8 → RState → RState
  | 0, _, _, s => s
  | n + 1, i, j, s =>
    let j' := j + s[i]! + key[i % key.size]!
    ksa key n (i + 1) j' (swapAt s i j'.toNat)

/-- `Rc4::new` asserts this; with an empty key Rust panics. -/
def rc4KeyOk (key : Bytes) : Bool := !key.isEmpty && key.length ≤ 256

def rc4New (key : Bytes) : RState := ksa key.toArray 256 0 0 rc4Init

/-- `apply_keystream`: the state evolution does not look at the data. -/
def prga (s : RState) (i j : UInt8) : Bytes → Bytes
  | [] => []
  | b :: rest =>
    let i' := i + 1
    let j' := j + s[i'.toNat]!
    let s' := swapAt s i'.toNat j'.toNat
    let k := s'[(s'[i'.toNat]! + s'[j'.toNat]!).toNat]!
    (b ^^^ k) :: prga s' i' j' rest

/-- `Rc4::new(key).encrypt(data)` = `.decrypt(data)` -/
def rc4 (key data : Bytes) : Bytes := prga (rc4New key) 0 0 data

/-! ## PKCS#5 (src/encryption/pkcs5.rs) and CBC -/

def padLen (n : Nat) : Nat := 16 - n % 16

/-- `raw_pad` on the last block: `16 - M mod 16` bytes of that value (a whole block when M mod 16 = 0). -/
def pkcs5Pad (d : Bytes) : Bytes :=
  d ++ List.replicate (padLen d.length) (padLen d.length).toUInt8

/-- `Pkcs5::unpad(block, strict = true)` applied by `decrypt_padded_mut` to the last block,
written over the whole decrypted buffer (whose length is a positive multiple of 16). -/
def pkcs5Unpad (d : Bytes) : Option Bytes :=
  match d.getLast? with
  | none => none
  | some n =>
    if n = 0 || n.toNat > 16 then none
    else
      let s := d.length - n.toNat
      if ((d.drop s).dropLast).all (fun (b : UInt8) => b == n) then some (d.take s) else none

def xorB (a b : Bytes) : Bytes := List.zipWith (fun (x y : UInt8) => x ^^^ y) a b

/-- CBC encryption of `n` blocks with block function `E` (no padding). -/
def cbcEncN (E : Bytes → Bytes) : Nat → Bytes → Bytes → Bytes
  | 0, _, _ => []
  | n + 1, iv, d =>
    let c := E (xorB (d.take 16) iv)
    c ++ cbcEncN E n c (d.drop 16)

def cbcDecN (D : Bytes → Bytes) : Nat → Bytes → Bytes → Bytes
  | 0, _, _ => []
  | n + 1, iv, d =>
    let c := d.take 16
    xorB (D c) iv ++ cbcDecN D n c (d.drop 16)

def cbcEnc (E : Bytes → Bytes) (iv d : Bytes) : Bytes := cbcEncN E (d.length / 16) iv d
def cbcDec (D : Bytes → Bytes) (iv d : Bytes) : Bytes := cbcDecN D (d.length / 16) iv d

/-! ## External primitives -/

structure Prims where
  md5 : Bytes → Bytes
  sha256 : Bytes → Bytes
  /-- AES block encryption `key → block → block` (key of 16 or 32 bytes) -/
  aesEnc : Bytes → Bytes → Bytes
  aesDec : Bytes → Bytes → Bytes
  sha384 : Bytes → Bytes
  sha512 : Bytes → Bytes

inductive Err where
  | invalidKeyLength | invalidCipherTextLength | padding | incorrectPassword
  | alreadyEncrypted | notEncrypted | invalidRevision | unsupportedRevision
  | other (what : String)
  deriving Repr, DecidableEq

/-! ## Crypt filters (src/encryption/crypt_filters.rs) -/

inductive CF where | identity | rc4 | aes128 | aes256
  deriving Repr, DecidableEq

def CF.method : CF → Bytes
  | .identity => CFM_IDENTITY | .rc4 => CFM_RC4 | .aes128 => CFM_AES128 | .aes256 => CFM_AES256

/-- little-endian low-order bytes `n.to_le_bytes()[..k]` -/
def leBytes : Nat → Nat → Bytes
  | 0, _ => []
  | k + 1, n => (n % 256).toUInt8 :: leBytes k (n / 256)

def objSalt (id : ObjId) : Bytes := leBytes OBJ_NUM_BYTES id.1 ++ leBytes OBJ_GEN_BYTES id.2

/-- `compute_key` -/
def CF.computeKey (P : Prims) (f : CF) (key : Bytes) (id : ObjId) : Bytes :=
  match f with
  | .identity => key
  | .rc4 => (P.md5 (key ++ objSalt id)).take (min (key.length + KEY_EXTRA) KEY_CAP)
  | .aes128 => (P.md5 (key ++ objSalt id ++ AES_SALT)).take (min (key.length + KEY_EXTRA) KEY_CAP)
  | .aes256 => key

def aesEncrypt (P : Prims) (klen : Nat) (key iv pt : Bytes) : Except Err Bytes :=
  if key.length ≠ klen then .error .invalidKeyLength
  else .ok (iv ++ cbcEnc (P.aesEnc key) iv (pkcs5Pad pt))

def aesDecrypt (P : Prims) (klen : Nat) (key ct : Bytes) : Except Err Bytes :=
  if key.length ≠ klen then .error .invalidKeyLength
  else if ct.length % 16 ≠ 0 then .error .invalidCipherTextLength
  else if ct.isEmpty || ct.length = 16 then .ok []
  else
    match pkcs5Unpad (cbcDec (P.aesDec key) (ct.take 16) (ct.drop 16)) with
    | some pt => .ok pt
    | none => .error .padding

/-- `encrypt(key, plaintext)`; `iv` is what `rand` produced (used by the AES filters only). -/
def CF.encrypt (P : Prims) (f : CF) (key iv pt : Bytes) : Except Err Bytes :=
  match f with
  | .identity => .ok pt
  | .rc4 => .ok (Crypt.rc4 key pt)
  | .aes128 => aesEncrypt P 16 key iv pt
  | .aes256 => aesEncrypt P 32 key iv pt

def CF.decrypt (P : Prims) (f : CF) (key ct : Bytes) : Except Err Bytes :=
  match f with
  | .identity => .ok ct
  | .rc4 => .ok (Crypt.rc4 key ct)
  | .aes128 => aesDecrypt P 16 key ct
  | .aes256 => aesDecrypt P 32 key ct

def CF.usesIv : CF → Bool
  | .aes128 | .aes256 => true
  | _ => false

/-! ## EncryptionState and the object walkers (src/encryption.rs) -/

structure EncState where
  version : Nat
  revision : Nat
  keyLength : Option Nat
  encryptMetadata : Bool
  /-- `BTreeMap<Vec<u8>, Arc<dyn CryptFilter>>` as an association list -/
  cryptFilters : List (Bytes × CF)
  fileKey : Bytes
  stmF : Bytes
  strF : Bytes
  ownerValue : Bytes
  ownerEncrypted : Bytes
  userValue : Bytes
  userEncrypted : Bytes
  /-- `Permissions` bits (subset of PERM_ALL) -/
  permissions : Nat
  permsEncrypted : Bytes
  deriving Repr

def lookupCF (fs : List (Bytes × CF)) (name : Bytes) : Option CF :=
  match fs with
  | [] => none
  | (n, f) :: rest => if n = name then some f else lookupCF rest name

/-- fall-back of `get_stream_filter` / `get_string_filter` for a name that is not in `crypt_filters`:
the predefined name `Identity` selects the identity filter, anything else RC4. -/
def fallbackCF (name : Bytes) : CF := if name = PREDEFINED_IDENTITY then .identity else .rc4
def EncState.streamFilter (st : EncState) : CF := (lookupCF st.cryptFilters st.stmF).getD (fallbackCF st.stmF)
def EncState.stringFilter (st : EncState) : CF := (lookupCF st.cryptFilters st.strF).getD (fallbackCF st.strF)

def K_CF : Bytes := [67, 70]   -- CF
def K_CFM : Bytes := [67, 70, 77]   -- CFM
def K_CRYPTFILTER : Bytes := [67, 114, 121, 112, 116, 70, 105, 108, 116, 101, 114]   -- CryptFilter
def K_ENCRYPTMETADATA : Bytes := [69, 110, 99, 114, 121, 112, 116, 77, 101, 116, 97, 100, 97, 116, 97]   -- EncryptMetadata
def K_O : Bytes := [79]   -- O
def K_OE : Bytes := [79, 69]   -- OE
def K_P : Bytes := [80]   -- P
def K_PERMS : Bytes := [80, 101, 114, 109, 115]   -- Perms
def K_R : Bytes := [82]   -- R
def K_STANDARD : Bytes := [83, 116, 97, 110, 100, 97, 114, 100]   -- Standard
def K_STMF : Bytes := [83, 116, 109, 70]   -- StmF
def K_STRF : Bytes := [83, 116, 114, 70]   -- StrF
def K_U : Bytes := [85]   -- U
def K_UE : Bytes := [85, 69]   -- UE
def K_V : Bytes := [86]   -- V
def K_TYPE : Bytes := [84, 121, 112, 101]   -- Type
def K_XREF : Bytes := [88, 82, 101, 102]   -- XRef
def K_METADATA : Bytes := [77, 101, 116, 97, 100, 97, 116, 97]   -- Metadata
def K_FILTER : Bytes := [70, 105, 108, 116, 101, 114]   -- Filter
def K_CRYPT : Bytes := [67, 114, 121, 112, 116]   -- Crypt
def K_DECODEPARMS : Bytes := [68, 101, 99, 111, 100, 101, 80, 97, 114, 109, 115]   -- DecodeParms
def K_NAME : Bytes := [78, 97, 109, 101]   -- Name
def K_LENGTH : Bytes := [76, 101, 110, 103, 116, 104]   -- Length

/-- `Dictionary::has_type` (no `Linearized` fall-back) -/
def hasType (d : Dict) (t : Bytes) : Bool := (d.get K_TYPE).bind Obj.asName == some t

def allNames : List Obj → Option (List Bytes)
  | [] => some []
  | o :: rest => match o.asName, allNames rest with
    | some n, some ns => some (n :: ns)
    | _, _ => none

/-- what `Stream::filters` makes of the `Filter` entry: a name, or an array of names -/
def filterNames : Option Obj → Option (List Bytes)
  | some (.name n) => some [n]
  | some (.arr items) => allNames items
  | _ => none

/-- `Stream::filters` -/
def streamFilters (d : Dict) : Option (List Bytes) := filterNames (d.get K_FILTER)

/-- `filters.iter().position(|f| f == name)` -/
def indexOfName : List Bytes → Bytes → Option Nat
  | [], _ => none
  | n :: rest, x => if n = x then some 0 else (indexOfName rest x).map (· + 1)

def nameOfParams (p : Dict) : Option Bytes := (p.get K_NAME).bind Obj.asName

/-- the `Name` entry of the decode parameters of filter number `idx`: `DecodeParms` is a dictionary,
or an array with one entry per filter -/
def paramsName : Option Obj → Nat → Option Bytes
  | some (.arr items), idx => ((items[idx]?).bind Obj.asDict).bind nameOfParams
  | some (.dict p), _ => nameOfParams p
  | _, _ => none

/-- `crypt_filter_override` for a stream dictionary: a `Crypt` filter selects the crypt filter named
in its decode parameters, `Identity` when there are none (or no such filter is known). -/
def overrideFilter (st : EncState) (d : Dict) : Option CF :=
  match streamFilters d with
  | none => none
  | some fs =>
    match indexOfName fs K_CRYPT with
    | none => none
    | some idx => some (((paramsName (d.get K_DECODEPARMS) idx).bind (lookupCF st.cryptFilters)).getD .identity)

/-- `Object::type_name().ok() == Some(b"Metadata") && !state.encrypt_metadata` -/
def metadataExempt (st : EncState) (o : Obj) : Bool :=
  !st.encryptMetadata &&
  (match o with
   | .dict d => Dict.getType d == some K_METADATA
   | .stream d _ => Dict.getType d == some K_METADATA
   | _ => false)

def isXrefStream : Obj → Bool
  | .stream d _ => hasType d K_XREF
  | _ => false

/-- filter applied to a stream with dictionary `d` -/
def streamCF (st : EncState) (d : Dict) : CF := (overrideFilter st d).getD st.streamFilter

/-- `Stream::set_content`: replaces the content and sets `Length` -/
def setContent (d : Dict) (c : Bytes) : Obj := .stream (d.set K_LENGTH (.int c.length)) c

/-- the supply of random IVs: the `k`-th call of `rand::rng().fill(&mut iv)` -/
abbrev IVs := Nat → Bytes

/- `encrypt_object`: returns the new object and the number of IVs consumed so far. -/
mutual
def encObj (P : Prims) (st : EncState) (id : ObjId) (ivs : IVs) : Obj → Nat → Except Err (Obj × Nat)
  | .arr items, k =>
    match encList P st id ivs items k with
    | .ok (items', k') => .ok (.arr items', k')
    | .error e => .error e
  | .dict es, k =>
    if metadataExempt st (.dict es) then .ok (.dict es, k) else
    match encDict P st id ivs es k with
    | .ok (es', k') => .ok (.dict es', k')
    | .error e => .error e
  | .str s f, k =>
    let cf := st.stringFilter
    match cf.encrypt P (cf.computeKey P st.fileKey id) (ivs k) s with
    | .ok c => .ok (.str c f, if cf.usesIv then k + 1 else k)
    | .error e => .error e
  | .stream d c, k =>
    if isXrefStream (.stream d c) then .ok (.stream d c, k) else
    -- the strings of the stream dictionary first (as for any dictionary) …
    match encDict P st id ivs d k with
    | .error e => .error e
    | .ok (d', k1) =>
      -- … then the data, unless it is the exempt Metadata stream
      if metadataExempt st (.stream d' c) then .ok (.stream d' c, k1) else
      let cf := streamCF st d'
      match cf.encrypt P (cf.computeKey P st.fileKey id) (ivs k1) c with
      | .ok c' => .ok (setContent d' c', if cf.usesIv then k1 + 1 else k1)
      | .error e => .error e
  | o, k => .ok (o, k)
def encList (P : Prims) (st : EncState) (id : ObjId) (ivs : IVs) : List Obj → Nat → Except Err (List Obj × Nat)
  | [], k => .ok ([], k)
  | o :: rest, k =>
    match encObj P st id ivs o k with
    | .error e => .error e
    | .ok (o', k') =>
      match encList P st id ivs rest k' with
      | .error e => .error e
      | .ok (rest', k'') => .ok (o' :: rest', k'')
def encDict (P : Prims) (st : EncState) (id : ObjId) (ivs : IVs) : List (Bytes × Obj) → Nat → Except Err (List (Bytes × Obj) × Nat)
  | [], k => .ok ([], k)
  | (key, o) :: rest, k =>
    match encObj P st id ivs o k with
    | .error e => .error e
    | .ok (o', k') =>
      match encDict P st id ivs rest k' with
      | .error e => .error e
      | .ok (rest', k'') => .ok ((key, o') :: rest', k'')
end

/- `decrypt_object` -/
mutual
def decObj (P : Prims) (st : EncState) (id : ObjId) : Obj → Except Err Obj
  | .arr items =>
    match decList P st id items with
    | .ok items' => .ok (.arr items')
    | .error e => .error e
  | .dict es =>
    if metadataExempt st (.dict es) then .ok (.dict es) else
    match decDict P st id es with
    | .ok es' => .ok (.dict es')
    | .error e => .error e
  | .str s f =>
    let cf := st.stringFilter
    match cf.decrypt P (cf.computeKey P st.fileKey id) s with
    | .ok c => .ok (.str c f)
    | .error e => .error e
  | .stream d c =>
    if isXrefStream (.stream d c) then .ok (.stream d c) else
    match decDict P st id d with
    | .error e => .error e
    | .ok d' =>
      if metadataExempt st (.stream d' c) then .ok (.stream d' c) else
      let cf := streamCF st d'
      match cf.decrypt P (cf.computeKey P st.fileKey id) c with
      | .ok c' => .ok (setContent d' c')
      | .error e => .error e
  | o => .ok o
def decList (P : Prims) (st : EncState) (id : ObjId) : List Obj → Except Err (List Obj)
  | [] => .ok []
  | o :: rest =>
    match decObj P st id o with
    | .error e => .error e
    | .ok o' =>
      match decList P st id rest with
      | .error e => .error e
      | .ok rest' => .ok (o' :: rest')
def decDict (P : Prims) (st : EncState) (id : ObjId) : List (Bytes × Obj) → Except Err (List (Bytes × Obj))
  | [] => .ok []
  | (key, o) :: rest =>
    match decObj P st id o with
    | .error e => .error e
    | .ok o' =>
      match decDict P st id rest with
      | .error e => .error e
      | .ok rest' => .ok ((key, o') :: rest')
end

/- What a round trip leaves behind: `set_content` has rewritten `Length` of every stream
that was processed (not exempt). -/
mutual
def normLen (st : EncState) : Obj → Obj
  | .arr items => .arr (normLenList st items)
  | .dict es => if metadataExempt st (.dict es) then .dict es else .dict (normLenDict st es)
  | .stream d c =>
    if isXrefStream (.stream d c) then .stream d c
    else if metadataExempt st (.stream d c) then .stream (normLenDict st d) c
    else setContent (normLenDict st d) c
  | o => o
def normLenList (st : EncState) : List Obj → List Obj
  | [] => []
  | o :: rest => normLen st o :: normLenList st rest
def normLenDict (st : EncState) : List (Bytes × Obj) → List (Bytes × Obj)
  | [] => []
  | (k, o) :: rest => (k, normLen st o) :: normLenDict st rest
end

/-! ## Password algorithms as coded (src/encryption/algorithms.rs) -/

/-- `Permissions::p_value` on the flag bits -/
def pValue (perms : Nat) : Nat := perms ||| P_RESERVED
/-- `Permissions::from_bits_truncate` -/
def permsTruncate (p : Nat) : Nat := p &&& PERM_ALL

/-- "pad or truncate to 32 bytes" -/
def padPw (pw : Bytes) : Bytes := pw.take 32 ++ PAD_BYTES.take (32 - min pw.length 32)

def iter {α} (f : α → α) : Nat → α → α
  | 0, x => x
  | n + 1, x => iter f n (f x)

/-- key length in bytes used by revisions 2–4 -/
def keyBytes (revision : Nat) (length : Option Nat) : Nat :=
  if revision ≥ 3 then (length.getD 40) / 8 else 5

structure Alg where
  encryptMetadata : Bool
  length : Option Nat
  version : Nat
  revision : Nat
  ownerValue : Bytes
  ownerEncrypted : Bytes
  userValue : Bytes
  userEncrypted : Bytes
  permissions : Nat
  permsEncrypted : Bytes
  deriving Repr

/-- `compute_file_encryption_key_r4` (`fileId` = first element of the trailer's ID) -/
def Alg.fileKeyR4 (P : Prims) (a : Alg) (fileId pw : Bytes) : Except Err Bytes :=
  let h0 := P.md5 (padPw pw ++ a.ownerValue ++ leBytes 4 (pValue a.permissions % 4294967296) ++ fileId ++
    (if a.revision ≥ 4 && !a.encryptMetadata then [255, 255, 255, 255] else []))
  let n := keyBytes a.revision a.length
  if n > 16 then .error .invalidKeyLength
  else
    let h := if a.revision ≥ 3 then iter (fun h => P.md5 (h.take n)) MD5_ROUNDS h0 else h0
    .ok (h.take n)

def xorKey (key : Bytes) (i : Nat) : Bytes := key.map (fun (b : UInt8) => b ^^^ i.toUInt8)

/-- RC4 with keys `key ^ i` for `i = from, from+1, …` (`cnt` steps) -/
def rc4Up (key : Bytes) : Nat → Nat → Bytes → Bytes
  | 0, _, d => d
  | cnt + 1, i, d => rc4Up key cnt (i + 1) (rc4 (xorKey key i) d)
/-- RC4 with keys `key ^ i` for `i = from, from-1, …` (`cnt` steps) -/
def rc4Down (key : Bytes) : Nat → Nat → Bytes → Bytes
  | 0, _, d => d
  | cnt + 1, i, d => rc4Down key cnt (i - 1) (rc4 (xorKey key i) d)

/-- the RC4 key derived from the owner password in Algorithms 3 and 7 -/
def Alg.ownerKey (P : Prims) (a : Alg) (ownerPw : Bytes) : Bytes :=
  let h0 := P.md5 (padPw ownerPw)
  let h := if a.revision ≥ 3 then iter P.md5 MD5_ROUNDS h0 else h0
  h.take (keyBytes a.revision a.length)

/-- the owner password Algorithm 3 works with: the user password when none (an empty one) is given -/
def effOwner (ownerPw userPw : Bytes) : Bytes := if ownerPw.isEmpty then userPw else ownerPw

/-- `compute_hashed_owner_password_r4(Some(owner), user)` -/
def Alg.computeO (P : Prims) (a : Alg) (ownerPw userPw : Bytes) : Except Err Bytes :=
  if keyBytes a.revision a.length > 16 then .error .invalidKeyLength
  else
    -- "if there is no owner password, use the user password instead": none given = an empty one
    let k := a.ownerKey P (effOwner ownerPw userPw)
    let r := rc4 k (padPw userPw)
    .ok (if a.revision ≥ 3 then rc4Up k RC4_ROUNDS 1 r else r)

/-- `compute_hashed_user_password_r2` -/
def Alg.computeU2 (P : Prims) (a : Alg) (fileId userPw : Bytes) : Except Err Bytes :=
  match a.fileKeyR4 P fileId userPw with
  | .error e => .error e
  | .ok k => .ok (rc4 k PAD_BYTES)

/-- first 16 bytes of `compute_hashed_user_password_r3_r4` (the other 16 are random) -/
def Alg.computeU34 (P : Prims) (a : Alg) (fileId userPw : Bytes) : Except Err Bytes :=
  match a.fileKeyR4 P fileId userPw with
  | .error e => .error e
  | .ok k => .ok (rc4Up k RC4_ROUNDS 1 (rc4 k (P.md5 (PAD_BYTES ++ fileId))))

/-- `authenticate_user_password_r4` -/
def Alg.authUserR4 (P : Prims) (a : Alg) (fileId pw : Bytes) : Except Err Unit :=
  if a.revision = 2 then
    match a.computeU2 P fileId pw with
    | .error e => .error e
    | .ok u => if a.userValue.length < u.length then .error (.other "InvalidHashLength")
               else if u = a.userValue.take u.length then .ok () else .error .incorrectPassword
  else if a.revision = 3 || a.revision = 4 then
    match a.computeU34 P fileId pw with
    | .error e => .error e
    | .ok u => if a.userValue.length < 16 then .error (.other "InvalidHashLength")
               else if u.take 16 = a.userValue.take 16 then .ok () else .error .incorrectPassword
  else .error .invalidRevision

/-- the user password Algorithm 7 recovers from `O` -/
def Alg.recoverUser (P : Prims) (a : Alg) (ownerPw : Bytes) : Bytes :=
  let k := a.ownerKey P ownerPw
  let r := if a.revision ≥ 3 then rc4Down k RC4_ROUNDS RC4_ROUNDS a.ownerValue else a.ownerValue
  rc4 k r

/-- `authenticate_owner_password_r4` -/
def Alg.authOwnerR4 (P : Prims) (a : Alg) (fileId pw : Bytes) : Except Err Unit :=
  if keyBytes a.revision a.length > 16 then .error .invalidKeyLength
  else a.authUserR4 P fileId (a.recoverUser P pw)

def repBytes : Nat → Bytes → Bytes
  | 0, _ => []
  | n + 1, b => b ++ repBytes n b

/-- one round of the loop of `compute_hash`: `K1` = 64 × (password ‖ K ‖ user key), AES-128-CBC (no
padding, `chunks_exact_mut(16)`) with key `K[..16]` and IV `K[16..32]`, then SHA-256 / 384 / 512 of `E`
selected by `(sum of E[..16]) % 3` — the code adds the 16 bytes as `u32` instead of reading them as a
big-endian integer. Returns the new `K` and the last byte of `E` (`unwrap_or(0)`). -/
def hash2BRound (P : Prims) (pw udata k : Bytes) : Bytes × Nat :=
  let k1 := repBytes 64 (pw ++ k ++ udata)
  let e := cbcEnc (P.aesEnc (k.take 16)) ((k.drop 16).take 16) k1
  let m := ((e.take 16).foldl (fun (acc : Nat) (b : UInt8) => acc + b.toNat) 0) % 3
  (if m = 0 then P.sha256 e else if m = 1 then P.sha384 e else P.sha512 e, (e.getLast?.getD 0).toNat)

/-- `for round in 1.. { … if round >= 64 && last <= round - 32 { break } }`.  The Rust loop has no
upper bound; since `last ≤ 255` it stops in round 287 at the latest, so 287 available rounds (`left`)
are never exhausted — `hash2BLoop_stable` (Thm/C06) proves that any larger supply gives the same
result, i.e. `left` is a real bound, not fuel. -/
def hash2BLoop (P : Prims) (pw udata : Bytes) : Nat → Nat → Bytes → Bytes
  | 0, _, k => k
  | left + 1, round, k =>
    let r := hash2BRound P pw udata k
    if round ≥ 64 && r.2 ≤ round - 32 then r.1 else hash2BLoop P pw udata left (round + 1) r.1

/-- `compute_hash` for revision 6 (Algorithm 2.B as coded): `k.truncate(32)` at the end -/
def hash2B (P : Prims) (pw salt udata : Bytes) : Bytes :=
  (hash2BLoop P pw udata 287 1 (P.sha256 (pw ++ salt ++ udata))).take 32

/-- `compute_hash` (Algorithm 2.B; revision 5 = plain SHA-256) -/
def Alg.hash (P : Prims) (a : Alg) (pw salt udata : Bytes) : Bytes :=
  if a.revision = 5 then P.sha256 (pw ++ salt ++ udata) else hash2B P pw salt udata

def slice (b : Bytes) (off len : Nat) : Bytes := (b.drop off).take len

/-- AES-256 CBC, zero IV, no padding, over all complete blocks (`chunks_exact_mut(16)`) -/
def cbc0Enc (P : Prims) (key d : Bytes) : Bytes := cbcEnc (P.aesEnc key) (List.replicate 16 0) d
def cbc0Dec (P : Prims) (key d : Bytes) : Bytes := cbcDec (P.aesDec key) (List.replicate 16 0) d

def trunc127 (pw : Bytes) : Bytes := pw.take R6_PW_MAX

/-- `compute_hashed_user_password_r6`: `salts` = the 16 random bytes; the password is truncated to
127 bytes like in every check (since /repo 422f3cc). -/
def Alg.computeU6 (P : Prims) (a : Alg) (fileKey pw0 salts : Bytes) : Bytes × Bytes :=
  let pw := trunc127 pw0
  let vs := salts.take 8
  let ks := slice salts 8 8
  (a.hash P pw vs [] ++ vs ++ ks, cbc0Enc P (a.hash P pw ks []) fileKey)

/-- `compute_hashed_owner_password_r6` (uses `a.userValue`) -/
def Alg.computeO6 (P : Prims) (a : Alg) (fileKey pw0 salts : Bytes) : Bytes × Bytes :=
  let pw := trunc127 pw0
  let vs := salts.take 8
  let ks := slice salts 8 8
  (a.hash P pw vs a.userValue ++ vs ++ ks, cbc0Enc P (a.hash P pw ks a.userValue) fileKey)

/-- the 16-byte block of `compute_permissions` before encryption: P (64 bit, low-order byte first),
`T`/`F`, `adb`, 4 random bytes -/
def Alg.permsPlain (a : Alg) (rnd : Bytes) : Bytes :=
  leBytes 8 (pValue a.permissions) ++ [if a.encryptMetadata then 84 else 70] ++ PERMS_TAG ++ rnd.take 4

/-- `compute_permissions`: AES-256 ECB of that block under the file key (`rnd` = 4 random bytes) -/
def Alg.computePerms (P : Prims) (a : Alg) (fileKey rnd : Bytes) : Bytes :=
  P.aesEnc fileKey (a.permsPlain rnd)

/-- `validate_permissions`: decrypt `Perms` with the file key, then check `adb`, the low 3 bytes
of P and the `T`/`F` byte -/
def Alg.validatePerms (P : Prims) (a : Alg) (fileKey : Bytes) : Except Err Unit :=
  let b := P.aesDec fileKey a.permsEncrypted
  if slice b 9 3 ≠ PERMS_TAG then .error .incorrectPassword
  else if b.take 3 ≠ (leBytes 8 (pValue a.permissions)).take 3 then .error .incorrectPassword
  else if slice b 8 1 ≠ [if a.encryptMetadata then 84 else 70] then .error .incorrectPassword
  else .ok ()


/-- `compute_file_encryption_key_r6` -/
def Alg.fileKeyR6 (P : Prims) (a : Alg) (pw0 : Bytes) : Except Err Bytes :=
  let pw := trunc127 pw0
  if a.hash P pw (slice a.ownerValue 32 8) a.userValue = a.ownerValue.take 32 then
    .ok (cbc0Dec P (a.hash P pw (slice a.ownerValue 40 8) a.userValue) a.ownerEncrypted)
  else if a.hash P pw (slice a.userValue 32 8) [] = a.userValue.take 32 then
    let k := cbc0Dec P (a.hash P pw (slice a.userValue 40 8) []) a.userEncrypted
    match a.validatePerms P k with
    | .error e => .error e
    | .ok () => .ok k
  else .error .incorrectPassword

def Alg.authUserR6 (P : Prims) (a : Alg) (pw0 : Bytes) : Except Err Unit :=
  if a.hash P (trunc127 pw0) (slice a.userValue 32 8) [] = a.userValue.take 32 then .ok () else .error .incorrectPassword
def Alg.authOwnerR6 (P : Prims) (a : Alg) (pw0 : Bytes) : Except Err Unit :=
  if a.hash P (trunc127 pw0) (slice a.ownerValue 32 8) a.userValue = a.ownerValue.take 32 then .ok () else .error .incorrectPassword

def okB {ε α} : Except ε α → Bool
  | .ok _ => true
  | .error _ => false

/-- `compute_file_encryption_key`: for R2–R4 the key is always derived from the USER password; when
the password given recovers (Algorithm 7) a password that authenticates as the user password, that
one is used. -/
def Alg.fileKey (P : Prims) (a : Alg) (fileId pw : Bytes) : Except Err Bytes :=
  if 2 ≤ a.revision && a.revision ≤ 4 then
    (if keyBytes a.revision a.length ≤ 16 && okB (a.authUserR4 P fileId (a.recoverUser P pw))
     then a.fileKeyR4 P fileId (a.recoverUser P pw) else a.fileKeyR4 P fileId pw)
  else if a.revision = 5 || a.revision = 6 then a.fileKeyR6 P pw
  else .error .unsupportedRevision
def Alg.authUser (P : Prims) (a : Alg) (fileId pw : Bytes) : Except Err Unit :=
  if 2 ≤ a.revision && a.revision ≤ 4 then a.authUserR4 P fileId pw
  else if a.revision = 5 || a.revision = 6 then a.authUserR6 P pw
  else .error .unsupportedRevision
def Alg.authOwner (P : Prims) (a : Alg) (fileId pw : Bytes) : Except Err Unit :=
  if 2 ≤ a.revision && a.revision ≤ 4 then a.authOwnerR4 P fileId pw
  else if a.revision = 5 || a.revision = 6 then a.authOwnerR6 P pw
  else .error .unsupportedRevision

/-- `authenticate_raw_password`: owner `.or` user -/
def Alg.authAny (P : Prims) (a : Alg) (fileId pw : Bytes) : Except Err Unit :=
  match a.authOwner P fileId pw with
  | .ok () => .ok ()
  | .error _ => a.authUser P fileId pw

/-! ## `EncryptionState::try_from(EncryptionVersion)` -/

/-- random inputs of one `try_from`: tail of `U` (R3/R4), the salts of U and O and the 4
random bytes of Perms (R5/R6). -/
structure Rand where
  uTail : Bytes := []
  uSalts : Bytes := []
  oSalts : Bytes := []
  permsRnd : Bytes := []

inductive Version where
  | v1 | v2 (keyLength : Nat) | v4 | r5 | v5
  deriving Repr, DecidableEq

structure Config where
  ver : Version
  encryptMetadata : Bool := true
  cryptFilters : List (Bytes × CF) := []
  stmF : Bytes := []
  strF : Bytes := []
  /-- supplied file encryption key (R5 / V5 only) -/
  fileKey : Bytes := []
  ownerPw : Bytes
  userPw : Bytes
  permissions : Nat

def stateOfConfig (P : Prims) (c : Config) (fileId : Bytes) (rnd : Rand) : Except Err EncState :=
  match c.ver with
  | .v1 | .v2 _ | .v4 =>
    let (version, revision, length, em) : Nat × Nat × Option Nat × Bool := match c.ver with
      | .v1 => (1, 2, none, true)
      | .v2 l => (2, 3, some l, true)
      | _ => (4, 4, some 128, c.encryptMetadata)
    let a0 : Alg := { encryptMetadata := em, length := length, version := version, revision := revision,
                      ownerValue := [], ownerEncrypted := [], userValue := [], userEncrypted := [],
                      permissions := c.permissions, permsEncrypted := [] }
    match a0.computeO P c.ownerPw c.userPw with
    | .error e => .error e
    | .ok o =>
      let a1 := { a0 with ownerValue := o }
      match (if revision = 2 then a1.computeU2 P fileId c.userPw
             else (a1.computeU34 P fileId c.userPw).map (fun u => u ++ rnd.uTail.take 16)) with
      | .error e => .error e
      | .ok u =>
        match a1.fileKeyR4 P fileId c.userPw with
        | .error e => .error e
        | .ok k =>
          .ok { version := version, revision := revision, keyLength := length, encryptMetadata := em,
                cryptFilters := if version = 4 then c.cryptFilters else [],
                fileKey := k,
                stmF := if version = 4 then c.stmF else [], strF := if version = 4 then c.strF else [],
                ownerValue := o, ownerEncrypted := [], userValue := u, userEncrypted := [],
                permissions := c.permissions, permsEncrypted := [] }
  | .r5 | .v5 =>
    if c.fileKey.length ≠ 32 then .error .invalidKeyLength else
    let revision := if c.ver = .r5 then 5 else 6
    let a0 : Alg := { encryptMetadata := c.encryptMetadata, length := none, version := 5, revision := revision,
                      ownerValue := [], ownerEncrypted := [], userValue := [], userEncrypted := [],
                      permissions := c.permissions, permsEncrypted := [] }
    let (u, ue) := a0.computeU6 P c.fileKey c.userPw rnd.uSalts
    let a1 := { a0 with userValue := u, userEncrypted := ue }
    let (o, oe) := a1.computeO6 P c.fileKey c.ownerPw rnd.oSalts
    .ok { version := 5, revision := revision, keyLength := none, encryptMetadata := c.encryptMetadata,
          cryptFilters := c.cryptFilters, fileKey := c.fileKey, stmF := c.stmF, strF := c.strF,
          ownerValue := o, ownerEncrypted := oe, userValue := u, userEncrypted := ue,
          permissions := c.permissions, permsEncrypted := a1.computePerms P c.fileKey rnd.permsRnd }

/-! ## `EncryptionState::encode` / `decode`, `Document::{encrypt, decrypt_raw}` -/

def K_ENCRYPT : Bytes := [69, 110, 99, 114, 121, 112, 116]   -- Encrypt
def K_ID : Bytes := [73, 68]   -- ID

/-- two's-complement reading of `p_value() as i64` -/
def pAsI64 (p : Nat) : Int := if p ≥ 2 ^ 63 then (p : Int) - 2 ^ 64 else p

def cfDict (fs : List (Bytes × CF)) : Dict :=
  fs.foldl (fun d (nf : Bytes × CF) =>
    d.set nf.1 (.dict [(K_TYPE, .name K_CRYPTFILTER), (K_CFM, .name nf.2.method)])) []

/-- `EncryptionState::encode` (the `Dictionary::set` sequence of the code) -/
def EncState.encode (st : EncState) : Dict :=
  let d : Dict := [(K_FILTER, .name K_STANDARD), (K_V, .int st.version), (K_R, .int st.revision)]
  let d := match st.keyLength with
    | some l => d.set K_LENGTH (.int l)
    | none => d
  let d := if st.version ≥ 4 then d.set K_ENCRYPTMETADATA (.bool st.encryptMetadata) else d
  let d := d.set K_O (.str st.ownerValue .lit)
  let d := d.set K_U (.str st.userValue .lit)
  let d := d.set K_P (.int (pAsI64 (pValue st.permissions)))
  let d := if st.revision ≥ 4 then
      ((d.set K_CF (.dict (cfDict st.cryptFilters))).set K_STMF (.name st.stmF)).set K_STRF (.name st.strF)
    else d
  if st.revision ≥ 5 then
    ((d.set K_OE (.str st.ownerEncrypted .lit)).set K_UE (.str st.userEncrypted .lit)).set K_PERMS (.str st.permsEncrypted .lit)
  else d

structure Doc where
  trailer : Dict
  objects : Objects
  maxId : Nat
  deriving Repr

def Doc.getEncrypted (d : Doc) : Option Dict :=
  match d.trailer.get K_ENCRYPT with
  | some (.dict e) => some e                                  -- given directly in the trailer
  | some o => o.asRef.bind (getDictionary d.objects)
  | none => none

def Doc.fileId (d : Doc) : Option Bytes :=
  match d.trailer.get K_ID with
  | some (.arr (.str s _ :: _)) => some s
  | _ => none

/-- walk all objects in `BTreeMap` order threading the IV counter -/
def encObjects (P : Prims) (st : EncState) (ivs : IVs) : Objects → Nat → Except Err (Objects × Nat)
  | [], k => .ok ([], k)
  | (id, o) :: rest, k =>
    match encObj P st id ivs o k with
    | .error e => .error e
    | .ok (o', k') =>
      match encObjects P st ivs rest k' with
      | .error e => .error e
      | .ok (rest', k'') => .ok ((id, o') :: rest', k'')

def decObjects (P : Prims) (st : EncState) (skip : Option ObjId) : Objects → Except Err Objects
  | [] => .ok []
  | (id, o) :: rest =>
    match (if some id = skip then .ok o else decObj P st id o) with
    | .error e => .error e
    | .ok o' =>
      match decObjects P st skip rest with
      | .error e => .error e
      | .ok rest' => .ok ((id, o') :: rest')

/-- sorted insert of a fresh id (`BTreeMap::insert`) -/
def Objects.insert (os : Objects) (id : ObjId) (o : Obj) : Objects :=
  match os with
  | [] => [(id, o)]
  | (i, x) :: rest =>
    if i = id then (id, o) :: rest
    else if id.1 < i.1 || (id.1 = i.1 && id.2 < i.2) then (id, o) :: (i, x) :: rest
    else (i, x) :: Objects.insert rest id o

def Objects.erase (os : Objects) (id : ObjId) : Objects := os.filter (fun e => e.1 ≠ id)

/-- `Document::encrypt` -/
def Doc.encrypt (P : Prims) (d : Doc) (st : EncState) (ivs : IVs) : Except Err Doc :=
  if d.getEncrypted.isSome then .error .alreadyEncrypted else
  match encObjects P st ivs d.objects 0 with
  | .error e => .error e
  | .ok (os, _) =>
    let id : ObjId := (d.maxId + 1, 0)
    .ok { trailer := d.trailer.set K_ENCRYPT (.ref id.1 id.2),
          objects := Objects.insert os id (.dict st.encode), maxId := d.maxId + 1 }

def cfOfMethod (m : Option Bytes) : Option CF :=
  match m with
  | none => some .identity
  | some n => if n = CFM_RC4 then some .rc4 else if n = CFM_AES128 then some .aes128
              else if n = CFM_AES256 then some .aes256 else if n = CFM_IDENTITY then some .identity else none

/-- `Document::get_crypt_filters` as a name-sorted association list (BTreeMap): here in dictionary
order; later entries with the same name cannot occur in a dictionary. -/
def getCryptFilters (enc : Dict) : List (Bytes × CF) :=
  match (enc.get K_CF).bind Obj.asDict with
  | none => []
  | some cf => cf.filterMap fun (nf : Bytes × Obj) =>
      match nf.2.asDict with
      | none => none
      | some f =>
        if (f.get K_TYPE).isSome && !hasType f K_CRYPTFILTER then none
        else (cfOfMethod ((f.get K_CFM).bind Obj.asName)).map (fun c => (nf.1, c))

def Obj.asStr : Obj → Option Bytes
  | .str s _ => some s
  | _ => none

/-- `PasswordAlgorithm::try_from(&Document)` on a well-typed dictionary (type / length errors
collapse to `other`). -/
def algOfDict (enc : Dict) : Except Err Alg :=
  let em := match enc.get K_ENCRYPTMETADATA with
    | none => some true
    | some (.bool b) => some b
    | some _ => none
  let length : Option (Option Nat) := match enc.get K_LENGTH with
    | none => some none
    | some (.int i) => if i ≥ 0 then some (some i.toNat) else none
    | some _ => none
  match em, length, (enc.get K_V).bind Obj.asInt, (enc.get K_R).bind Obj.asInt,
        (enc.get K_O).bind Obj.asStr, (enc.get K_U).bind Obj.asStr, (enc.get K_P).bind Obj.asInt with
  | some em, some length, some v, some r, some o, some u, some p =>
    if v ≠ 1 ∧ v ≠ 2 ∧ v ≠ 4 ∧ v ≠ 5 then .error (.other "version") else
    -- `Length` is ignored when V = 5; absent with V = 4 it means 128 bits (since /repo fecae65, 12516c9)
    let length : Option Nat := if v = (LENGTH_IGNORED_V : Int) then none else length
    let length : Option Nat := if v = (LENGTH_DEFAULT_V : Int) && length.isNone then some LENGTH_DEFAULT_BITS else length
    if length.isSome && v < 2 then .error .invalidKeyLength else
    if (match length with | some l => l % 8 ≠ 0 || l < 40 || l > 128 | none => false) then .error .invalidKeyLength else
    let oe := ((enc.get K_OE).bind Obj.asStr).getD []
    let ue := ((enc.get K_UE).bind Obj.asStr).getD []
    let pe := ((enc.get K_PERMS).bind Obj.asStr).getD []
    if r ≤ 4 && (o.length ≠ 32 || u.length ≠ 32) then .error (.other "InvalidHashLength") else
    if r ≥ 5 && (o.length ≠ 48 || u.length ≠ 48) then .error (.other "InvalidHashLength") else
    if r ≥ 5 && (oe.length ≠ 32 || ue.length ≠ 32 || pe.length ≠ 16) then .error .invalidCipherTextLength else
    .ok { encryptMetadata := em, length := length, version := v.toNat, revision := r.toNat,
          ownerValue := o, ownerEncrypted := oe, userValue := u, userEncrypted := ue,
          permissions := permsTruncate (p % (2 ^ 64 : Int)).toNat, permsEncrypted := pe }
  | _, _, _, _, _, _, _ => .error (.other "dict")

/-- `EncryptionState::decode(document, password)` — the key is derived from `pw` as given. -/
def decodeState (P : Prims) (enc : Dict) (fileId pw : Bytes) : Except Err EncState :=
  match algOfDict enc with
  | .error e => .error e
  | .ok a =>
    match a.fileKey P fileId pw with
    | .error e => .error e
    | .ok k =>
      let useNames := a.version = 4 || a.version = 5
      .ok { version := a.version, revision := a.revision, keyLength := a.length, encryptMetadata := a.encryptMetadata,
            cryptFilters := if a.version < 4 then [] else getCryptFilters enc,
            fileKey := k,
            stmF := if useNames then ((enc.get K_STMF).bind Obj.asName).getD [] else [],
            strF := if useNames then ((enc.get K_STRF).bind Obj.asName).getD [] else [],
            ownerValue := a.ownerValue, ownerEncrypted := a.ownerEncrypted, userValue := a.userValue,
            userEncrypted := a.userEncrypted, permissions := a.permissions, permsEncrypted := a.permsEncrypted }

/-- is this a stream with `/Type /ObjStm` (`stream.dict.has_type(b"ObjStm")`) -/
def isObjStmStream : Obj → Bool
  | .stream d _ => hasType d OBJSTM
  | _ => false

/-- the members `decrypt_raw` collects from the (now decrypted) object streams, container by
container in `BTreeMap` order: `object_streams.extend(obj_stream.objects)`; a container that
`ObjectStream::new` cannot read contributes nothing.  `none`: a container carries a `Filter` or a
non-ASCII index (outside the model of `ObjectStream::new`, Model/Read.lean). -/
def objStmExtras : Objects → Option (List (ObjId × Obj))
  | [] => some []
  | (_, o) :: rest =>
    match objStmExtras rest with
    | none => none
    | some tail =>
      match o with
      | .stream d c =>
        if hasType d OBJSTM then
          match objStmObjects d c with
          | .ok objs => some (objs ++ tail)
          | .err "ext" => none
          | _ => some tail
        else some tail
      | _ => some tail

/-- `self.objects.entry(id).or_insert(entry)`: only add, never replace -/
def orInsertAll (os : Objects) : List (ObjId × Obj) → Objects
  | [] => os
  | (id, o) :: rest => orInsertAll (if (Objects.get os id).isSome then os else Objects.insert os id o) rest

/-- `Document::decrypt_raw`: authenticate, decode the state, decrypt every object but the encryption
dictionary, re-expand the object streams (members never replace existing objects), drop the
Encrypt entry and object. -/
def Doc.decryptRaw (P : Prims) (d : Doc) (pw : Bytes) : Except Err Doc :=
  match d.getEncrypted with
  | some enc =>
    -- id of the encryption dictionary when it is an indirect object
    let encId : Option ObjId := (d.trailer.get K_ENCRYPT).bind Obj.asRef
    let fileId := d.fileId.getD []
    match algOfDict enc with
    | .error e => .error e
    | .ok a =>
      if a.revision ≤ 4 && d.fileId.isNone then .error (.other "MissingFileID") else
      if (enc.get K_FILTER).bind Obj.asName ≠ some K_STANDARD then .error (.other "UnsupportedSecurityHandler") else
      match a.authAny P fileId pw with
      | .error e => .error e
      | .ok () =>
        match decodeState P enc fileId pw with
        | .error e => .error e
        | .ok st =>
          match decObjects P st encId d.objects with
          | .error e => .error e
          | .ok os =>
            match objStmExtras os with
            | none => .error (.other "ext")
            | some extras =>
              let os := orInsertAll os extras
              .ok { trailer := d.trailer.remove K_ENCRYPT,
                    objects := (match encId with | some id => Objects.erase os id | none => os), maxId := d.maxId }
  | none => .error .notEncrypted

/-- `sanitize_password_r4` on the UTF-16 code units of the password: every unit is looked up in
PDFDocEncoding (first position); a unit that is not in the table is an ERROR
(`DecryptionError::UnrepresentablePassword`, `none` here) — it is never dropped. -/
def sanitizeR4 : List Nat → Option Bytes
  | [] => some []
  | u :: rest =>
    match PDF_DOC_ENCODING.findIdx? (fun c => c == some u), sanitizeR4 rest with
    | some i, some bs => some (i.toUInt8 :: bs)
    | _, _ => none

end Lopdf.Crypt
