import LopdfModel.Model.Basic
/-
  C19 — model of how `save` talks to its sink: the list of `write_all` requests it issues
  (`chunks`, one element per call-site execution, taken from the real run), `CountingWrite`
  (counter += whole buffer on `write_all`, before delegating), and
  `std::io::Write::write_all`'s documented loop (retry `Interrupted`, `Ok(0)` ⇒ `WriteZero`,
  short writes continue with the remainder). A sink is an arbitrary finite script of
  responses; once the script is exhausted the sink accepts everything.
-/
namespace Lopdf

inductive Resp where
  | accept (k : Nat)      -- `Ok(min k len)`; `accept 0` is a zero-length write
  | interrupted           -- `Err(ErrorKind::Interrupted)`: retried transparently
  | fail                  -- any other `Err`
  deriving Repr, DecidableEq

structure WA where
  ok : Bool
  delivered : Bytes
  script : List Resp
  deriving Repr

/-- `Write::write_all(buf)` against a scripted sink (structural recursion on the script) -/
def writeAllS : List Resp → Bytes → WA
  | [], buf => { ok := true, delivered := buf, script := [] }
  | r :: s, buf =>
    if buf.isEmpty then { ok := true, delivered := [], script := r :: s } else
    match r with
    | .accept k =>
      if k = 0 then { ok := false, delivered := [], script := s }
      else
        let w := writeAllS s (buf.drop k)
        { w with delivered := buf.take k ++ w.delivered }
    | .interrupted => writeAllS s buf
    | .fail => { ok := false, delivered := [], script := s }

def writeAll (buf : Bytes) (s : List Resp) : WA := writeAllS s buf

structure SaveRun where
  ok : Bool
  delivered : Bytes
  /-- `CountingWrite.bytes_written` when the run ended -/
  counter : Nat
  /-- number of `write_all` requests issued (the failing one included) -/
  issued : Nat
  deriving Repr

/-- `save`: issue the requests in order, stop at the first error (`?`) -/
def saveRun : List Bytes → List Resp → SaveRun
  | [], _ => { ok := true, delivered := [], counter := 0, issued := 0 }
  | c :: cs, s =>
    let w := writeAll c s
    if w.ok then
      let r := saveRun cs w.script
      { ok := r.ok, delivered := w.delivered ++ r.delivered, counter := c.length + r.counter, issued := r.issued + 1 }
    else { ok := false, delivered := w.delivered, counter := c.length, issued := 1 }

end Lopdf
