import LopdfModel.Model.Write
import LopdfModel.Model.Parse
/-
  C14 — model of `Content::encode` (src/content.rs) and of the content-stream grammar
  `_content`, `operation`, `operand`, `operator`, `inline_image`, `image_data_stream`
  (src/parser/mod.rs).  nom's Error / Failure distinction matters here (`cut` in
  `inline_image`), so results are three-valued.
-/
namespace Lopdf
open Gen

structure Operation where
  operator : Bytes
  operands : List Obj
  deriving Repr

/-- `Content::encode` -/
def encodeOperation (op : Operation) : Bytes :=
  let plain := (op.operands.map fun o => writeObj o ++ [32]).flatten ++ op.operator
  if op.operator = [66, 73] then
    match op.operands with
    | [.stream d content] =>
      -- inline image: `BI <entries> ID <data> EI`
      [66, 73, 32] ++ (d.map fun (k, v) => writeName k ++ [32] ++ writeObj v ++ [32]).flatten
        ++ [73, 68, 32] ++ content ++ [32, 69, 73]
    | _ => plain
  else plain

def encodeContent : List Operation → Bytes
  | [] => []
  | [op] => encodeOperation op
  | op :: rest => encodeOperation op ++ [10] ++ encodeContent rest

/-- nom result: `error` = recoverable (alt / many0 stop), `failure` = `cut`, `panic` = arithmetic -/
inductive PR (α : Type) where
  | ok (a : α) (rest : Bytes)
  | error
  | failure
  | panic (site : String)
  deriving Repr

def isContentSpace (b : UInt8) : Bool := CONTENT_SPACE.contains b
def contentSpace (inp : Bytes) : Bytes := (spanP isContentSpace inp).2

def isOperatorByte (b : UInt8) : Bool := isAlpha b || OPERATOR_EXTRA.contains b

/-- `operator`: take_while1 over the operator alphabet (always valid UTF-8: ASCII) -/
def pOperator (inp : Bytes) : Option (Bytes × Bytes) :=
  match spanP isOperatorByte inp with
  | ([], _) => none
  | (op, r) => some (op, r)

/-- `operand` before the trailing `content_space`: the `alt` of `operand` — like
`_direct_objects` but WITHOUT the `reference` alternative; arrays and dictionaries recurse
through `_direct_object` (which does know references). -/
def operandObj (inp : Bytes) : Option (Obj × Bytes) :=
  match tag NULL_KW inp with
  | some r => some (.null, r)
  | none =>
  match tag TRUE_KW inp with
  | some r => some (.bool true, r)
  | none =>
  match tag FALSE_KW inp with
  | some r => some (.bool false, r)
  | none =>
  match pReal inp with
  | some (t, r) => some (.real t, r)
  | none =>
  match pInteger inp with
  | some (i, r) => some (.int i, r)
  | none =>
  match pName inp with
  | some (n, r) => some (.name n, r)
  | none =>
  match pLiteral inp with
  | some (s, r) => some (.str s .lit, r)
  | none =>
  match pHexString inp with
  | some (s, r) => some (.str s .hex, r)
  | none =>
  let fuel := inp.length + 1
  match inp with
  | 91 :: r =>
    let (items, r1) := manyObjects fuel fuel (space r)
    (match r1 with
     | 93 :: r2 => some (.arr items, r2)
     | _ => none)
  | 60 :: 60 :: r =>
    let (es, r1) := dictEntries fuel fuel (space r) []
    (match r1 with
     | 62 :: 62 :: r2 => some (.dict es, r2)
     | _ => none)
  | _ => none

def pOperand (inp : Bytes) : Option (Obj × Bytes) :=
  (operandObj inp).map fun (o, r) => (o, contentSpace r)

/-- `many0(operand)` -/
def manyOperands : Nat → Bytes → List Obj × Bytes
  | 0, inp => ([], inp)
  | n + 1, inp =>
    match pOperand inp with
    | some (o, r) => let (os, r') := manyOperands n r; (o :: os, r')
    | none => ([], inp)

/-- `many0(comment)` -/
def manyComments : Nat → Bytes → Bytes
  | 0, inp => inp
  | n + 1, inp => match comment inp with | some r => manyComments n r | none => inp

def USIZE : Nat := 18446744073709551616
/-- `i64 as usize` -/
def asUsize (i : Int) : Nat := if i < 0 then (USIZE - i.natAbs % USIZE) % USIZE else i.toNat % USIZE

def getAbbr (d : Dict) (abbr key : Bytes) : Option Obj :=
  match d.get abbr with | some o => some o | none => d.get key

/-- `image_data_stream`: `error` for every `Err` (it is wrapped in `cut` by the caller) -/
def imageDataStream (inp : Bytes) (d : Dict) : PR Obj :=
  match (getAbbr d [87] [87, 105, 100, 116, 104]).bind Obj.asInt,
        (getAbbr d [72] [72, 101, 105, 103, 104, 116]).bind Obj.asInt with
  | some w, some h =>
    -- BPC / BitsPerComponent, CS / ColorSpace
    match (getAbbr d [66, 80, 67] (strBytes "BitsPerComponent")).bind Obj.asInt,
          (getAbbr d [67, 83] (strBytes "ColorSpace")).bind Obj.asName with
    | some bpc, some cs =>
      let colors : Option Nat :=
        if cs = strBytes "DeviceGray" || cs = strBytes "Gray" then some 1
        else if cs = strBytes "DeviceRGB" || cs = strBytes "RGB" then some 3
        else if cs = strBytes "DeviceRGBA" || cs = strBytes "RGBA" then some 4
        else if cs = strBytes "DeviceCMYK" || cs = strBytes "CMYK" then some 4
        else none
      match colors with
      | none => .error
      | some nc =>
        let width := asUsize w; let height := asUsize h; let bits := asUsize bpc
        if nc * bits ≥ USIZE then .panic "mul" else
        if width * (nc * bits) ≥ USIZE then .panic "mul" else
        if width * (nc * bits) + 7 ≥ USIZE then .panic "add" else
        let stride := (width * (nc * bits) + 7) / 8
        if height * stride ≥ USIZE then .panic "mul" else
        let length := height * stride
        match getAbbr d [70] FILTER_KEY with
        | some _ => .error
        | none =>
          if inp.length < length then .error
          else
            let content := inp.take length
            .ok (.stream (d.set LENGTH_KEY (.int content.length)) content) (inp.drop length)
    | _, _ => .error
  | _, _ => .error
where
  FILTER_KEY : Bytes := [70, 105, 108, 116, 101, 114]
  LENGTH_KEY : Bytes := [76, 101, 110, 103, 116, 104]

/-- `inline_image` after `BI content_space` (inside `cut`: every error is a failure) -/
def inlineImageImpl (inp : Bytes) : PR Operation :=
  let fuel := inp.length + 1
  let (d, r1) := dictEntries fuel fuel inp []
  match tag [73, 68] r1 with                         -- "ID"
  | none => .failure
  | some r2 =>
    match imageDataStream (contentSpace r2) d with
    | .ok st r3 =>
      (match tag [69, 73] (contentSpace r3) with    -- "EI"
       | some r4 => .ok { operator := [66, 73], operands := [st] } (contentSpace r4)
       | none => .failure)
    | .panic s => .panic s
    | _ => .failure

/-- `operation` -/
def pOperation (inp : Bytes) : PR Operation :=
  let inp1 := manyComments (inp.length + 1) inp
  match tag [66, 73] inp1 with                       -- "BI"
  | some r => inlineImageImpl (contentSpace r)
  | none =>
    let (operands, r1) := manyOperands (inp1.length + 1) inp1
    match pOperator r1 with
    | some (op, r2) => .ok { operator := op, operands := operands } (contentSpace r2)
    | none => .error

/-- `many0(operation)` -/
def manyOperations : Nat → Bytes → Outcome (List Operation)
  | 0, _ => .ok []
  | n + 1, inp =>
    match pOperation inp with
    | .ok op r =>
      (match manyOperations n r with
       | .ok ops => .ok (op :: ops)
       | e => e)
    | .error => .ok []
    | .failure => .err "failure"
    | .panic s => .panic s

/-- `Content::decode` (`_content`; trailing unparsable bytes are ignored by `strip_nom`) -/
def decodeContent (inp : Bytes) : Outcome (List Operation) :=
  let r := contentSpace inp
  manyOperations (r.length + 1) r

end Lopdf
