import LopdfModel.Model.Text
import LopdfModel.Gen.Dates
/-
  C18 — model of src/datetime.rs.

  What is lopdf's own: the format strings (regenerated, interpreted here as token lists),
  `convert_utc_offset` (last ':' becomes '\''), `Object::datetime_string` (drop 'D', ':', '\''),
  and the order of the parse alternatives of each backend.
  What is the libraries' (chrono / jiff / time): turning an instant into broken-down fields and
  printing / scanning the fields.  The libraries enter as a parameter `DateLib`; `specLib` is the
  field-wise zero-padded reading of the format strings, used by the driver and by the hypotheses
  of the theorems.
-/
namespace Lopdf
open Gen

/-- broken-down local date-time with its UTC offset (sign, hours, minutes) -/
structure Fields where
  year : Nat
  month : Nat
  day : Nat
  hour : Nat
  minute : Nat
  second : Nat
  offNeg : Bool
  offH : Nat
  offM : Nat
  deriving DecidableEq, Repr

/-- tokens of a format string (both syntaxes) -/
inductive Tok where
  | lit (b : UInt8)
  | year | month | day | hour | minute | second
  | offColon          -- `%:z`            ±HH:MM
  | offPermissive     -- `%#z`  (parsing) ±HHMM, chrono also `Z`
  | offHourSigned     -- `[offset_hour sign:mandatory]`  ±HH
  | offMinute         -- `[offset_minute]`               MM
  | bad               -- a specifier this model does not know
  deriving DecidableEq, Repr

/-- strftime / strptime syntax (chrono, jiff) -/
def tokStrftime : Bytes → List Tok
  | [] => []
  | 37 :: 58 :: 122 :: rest => .offColon :: tokStrftime rest          -- %:z
  | 37 :: 35 :: 122 :: rest => .offPermissive :: tokStrftime rest     -- %#z
  | 37 :: 89 :: rest => .year :: tokStrftime rest                     -- %Y
  | 37 :: 109 :: rest => .month :: tokStrftime rest                   -- %m
  | 37 :: 100 :: rest => .day :: tokStrftime rest                     -- %d
  | 37 :: 72 :: rest => .hour :: tokStrftime rest                     -- %H
  | 37 :: 77 :: rest => .minute :: tokStrftime rest                   -- %M
  | 37 :: 83 :: rest => .second :: tokStrftime rest                   -- %S
  | 37 :: rest => .bad :: tokStrftime rest
  | b :: rest => .lit b :: tokStrftime rest

def compTok (name : Bytes) : Tok :=
  if name = [121, 101, 97, 114] then .year                                   -- year
  else if name = [109, 111, 110, 116, 104] then .month                       -- month
  else if name = [100, 97, 121] then .day                                    -- day
  else if name = [104, 111, 117, 114] then .hour                             -- hour
  else if name = [109, 105, 110, 117, 116, 101] then .minute                 -- minute
  else if name = [115, 101, 99, 111, 110, 100] then .second                  -- second
  else if name = [111, 102, 102, 115, 101, 116, 95, 104, 111, 117, 114, 32, 115, 105, 103, 110, 58, 109, 97, 110,
                  100, 97, 116, 111, 114, 121] then .offHourSigned           -- offset_hour sign:mandatory
  else if name = [111, 102, 102, 115, 101, 116, 95, 109, 105, 110, 117, 116, 101] then .offMinute   -- offset_minute
  else .bad

/-- `time` format-description syntax: `[component modifiers]` and literals; `acc = some n` while inside brackets -/
def tokTimeFd : Bytes → Option Bytes → List Tok
  | [], none => []
  | [], some _ => [.bad]
  | b :: rest, none => if b = 91 then tokTimeFd rest (some []) else .lit b :: tokTimeFd rest none
  | b :: rest, some acc => if b = 93 then compTok acc :: tokTimeFd rest none else tokTimeFd rest (some (acc ++ [b]))

/-- decimal digit as an ASCII byte -/
def digit (d : Nat) : UInt8 := (48 + d % 10).toUInt8
def pad2 (n : Nat) : Bytes := [digit (n / 10), digit n]
def pad4 (n : Nat) : Bytes := [digit (n / 1000), digit (n / 100), digit (n / 10), digit n]
def signByte (neg : Bool) : UInt8 := if neg then 45 else 43

/-- field-wise zero-padded printing of one token (`none`: not a printing token) -/
def renderTok (f : Fields) : Tok → Option Bytes
  | .lit b => some [b]
  | .year => some (pad4 f.year)
  | .month => some (pad2 f.month)
  | .day => some (pad2 f.day)
  | .hour => some (pad2 f.hour)
  | .minute => some (pad2 f.minute)
  | .second => some (pad2 f.second)
  | .offColon => some (signByte f.offNeg :: pad2 f.offH ++ 58 :: pad2 f.offM)
  | .offHourSigned => some (signByte f.offNeg :: pad2 f.offH)
  | .offMinute => some (pad2 f.offM)
  | .offPermissive => none
  | .bad => none

def renderToks (f : Fields) : List Tok → Option Bytes
  | [] => some []
  | t :: ts =>
    match renderTok f t, renderToks f ts with
    | some a, some b => some (a ++ b)
    | _, _ => none

def num2 (a b : UInt8) : Option Nat :=
  if isDigit a && isDigit b then some ((a.toNat - 48) * 10 + (b.toNat - 48)) else none

/-- field-wise scanning of one token -/
def parseTok (zOk : Bool) (t : Tok) (f : Fields) (inp : Bytes) : Option (Fields × Bytes) :=
  match t, inp with
  | .lit b, c :: rest => if b = c then some (f, rest) else none
  | .year, a :: b :: c :: d :: rest =>
    match num2 a b, num2 c d with
    | some x, some y => some ({ f with year := x * 100 + y }, rest)
    | _, _ => none
  | .month, a :: b :: rest => (num2 a b).map fun v => ({ f with month := v }, rest)
  | .day, a :: b :: rest => (num2 a b).map fun v => ({ f with day := v }, rest)
  | .hour, a :: b :: rest => (num2 a b).map fun v => ({ f with hour := v }, rest)
  | .minute, a :: b :: rest => (num2 a b).map fun v => ({ f with minute := v }, rest)
  | .second, a :: b :: rest => (num2 a b).map fun v => ({ f with second := v }, rest)
  | .offPermissive, s :: a :: b :: c :: d :: rest =>
    if s = 43 || s = 45 then
      match num2 a b, num2 c d with
      | some x, some y => some ({ f with offNeg := (s = 45), offH := x, offM := y }, rest)
      | _, _ => none
    else if zOk && (s = 90 || s = 122) then some ({ f with offNeg := false, offH := 0, offM := 0 }, a :: b :: c :: d :: rest)
    else none
  | .offPermissive, s :: rest =>
    if zOk && (s = 90 || s = 122) then some ({ f with offNeg := false, offH := 0, offM := 0 }, rest) else none
  | .offHourSigned, s :: a :: b :: rest =>
    if s = 43 || s = 45 then (num2 a b).map fun v => ({ f with offNeg := (s = 45), offH := v }, rest) else none
  | .offMinute, a :: b :: rest => (num2 a b).map fun v => ({ f with offM := v }, rest)
  | _, _ => none

def parseToks (zOk : Bool) : List Tok → Fields → Bytes → Option Fields
  | [], f, [] => some f
  | [], _, _ :: _ => none                     -- trailing input
  | t :: ts, f, inp =>
    match parseTok zOk t f inp with
    | some (f', rest) => parseToks zOk ts f' rest
    | none => none

def zeroFields : Fields := { year := 0, month := 1, day := 1, hour := 0, minute := 0, second := 0, offNeg := false, offH := 0, offM := 0 }

/-- proleptic Gregorian leap year (all three libraries use the proleptic Gregorian calendar) -/
def isLeap (y : Nat) : Bool := y % 4 = 0 && (y % 100 != 0 || y % 400 = 0)

/-- days of month `m` (1–12) in year `y` -/
def daysInMonth (y m : Nat) : Nat :=
  if m = 2 then (if isLeap y then 29 else 28)
  else if m = 4 || m = 6 || m = 9 || m = 11 then 30 else 31

/-- the check the libraries apply to scanned fields before they build a value: ranges and the
calendar validity of the day (30 February, 29 February of a common year … are rejected) -/
def fieldsInRangeH (maxOffH : Nat) (f : Fields) : Bool :=
  1 ≤ f.month && f.month ≤ 12 && 1 ≤ f.day && f.day ≤ daysInMonth f.year f.month
    && f.hour < 24 && f.minute < 60 && f.second < 60 && f.offH < maxOffH && f.offM < 60

/-- chrono: `FixedOffset` is strictly within ±24:00 -/
def fieldsInRange (f : Fields) : Bool := fieldsInRangeH 24 f
/-- jiff `Offset` and time `UtcOffset` reach ±25:59:59 (outside the property's ±23:59 both behave alike) -/
def fieldsInRangeWide (f : Fields) : Bool := fieldsInRangeH 26 f

/-! ### instants (civil/epoch arithmetic is the libraries'; executable here for protocol replies and for
the reading of `with_timezone`, nothing is proved about it) -/

/-- days from 1970-01-01 of a proleptic Gregorian date (Hinnant's `days_from_civil`) -/
def daysFromCivil (y m d : Nat) : Int :=
  let y' : Int := if m ≤ 2 then (y : Int) - 1 else y
  let era : Int := (if y' ≥ 0 then y' else y' - 399) / 400
  let yoe : Int := y' - era * 400
  let mp : Int := ((m : Int) + 9) % 12
  let doy : Int := (153 * mp + 2) / 5 + (d : Int) - 1
  let doe : Int := yoe * 365 + yoe / 4 - yoe / 100 + doy
  era * 146097 + doe - 719468

def offsetSeconds (f : Fields) : Int :=
  let v : Int := (f.offH * 3600 + f.offM * 60 : Nat)
  if f.offNeg then -v else v

def epochOf (f : Fields) : Int :=
  daysFromCivil f.year f.month f.day * 86400 + (f.hour * 3600 + f.minute * 60 + f.second : Nat) - offsetSeconds f

/-- the civil fields of instant `e` at UTC offset `off` seconds (Hinnant's `civil_from_days`);
years before 0 are outside the model (result clamped at 0) -/
def fieldsOfEpoch (e : Int) (off : Int) : Fields :=
  let loc := e + off
  let days := Int.fdiv loc 86400
  let sod := (Int.fmod loc 86400).toNat
  let z := days + 719468
  let era : Int := Int.fdiv z 146097
  let doe : Nat := (z - era * 146097).toNat
  let yoe : Nat := (doe - doe / 1460 + doe / 36524 - doe / 146096) / 365
  let doy : Nat := doe - (365 * yoe + yoe / 4 - yoe / 100)
  let mp : Nat := (5 * doy + 2) / 153
  let d : Nat := doy - (153 * mp + 2) / 5 + 1
  let m : Nat := if mp < 10 then mp + 3 else mp - 9
  let y : Int := (yoe : Int) + era * 400 + (if m ≤ 2 then 1 else 0)
  let a := off.natAbs
  { year := y.toNat, month := m, day := d, hour := sod / 3600, minute := sod / 60 % 60, second := sod % 60,
    offNeg := decide (off < 0), offH := a / 3600, offM := a / 60 % 60 }

/-- the date-time libraries as a parameter -/
structure DateLib where
  /-- chrono `format` / jiff `strftime` -/
  strftime : Bytes → Fields → Option Bytes
  /-- `time::format_description::parse` + `format` -/
  timeFormat : Bytes → Fields → Option Bytes
  /-- `parse_from_str` / `strptime`; the flag says whether `%#z` also accepts `Z` (chrono) -/
  strptime : Bool → Bytes → Bytes → Option Fields
  /-- `time` parsing -/
  timeParse : Bytes → Bytes → Option Fields
  /-- chrono `DateTime::with_timezone`: the same instant expressed at another UTC offset (seconds) -/
  toOffset : Int → Fields → Fields

/-- the libraries read as field-wise zero-padded printing / scanning -/
def specLib : DateLib where
  strftime fmt f := renderToks f (tokStrftime fmt)
  timeFormat fmt f := renderToks f (tokTimeFd fmt none)
  strptime zOk fmt s := (parseToks zOk (tokStrftime fmt) zeroFields s).bind fun f =>
    -- chrono and jiff scan a leap second `60` and hold it as second 59 (chrono: plus a second of nanoseconds,
    -- which `timestamp()` does not show); outside the property — no producer prints 60
    let f := if f.second = 60 then { f with second := 59 } else f
    if (if zOk then fieldsInRange f else fieldsInRangeWide f) then some f else none
  timeParse fmt s := (parseToks false (tokTimeFd fmt none) zeroFields s).bind fun f => if fieldsInRangeWide f then some f else none
  toOffset off f := fieldsOfEpoch (epochOf f) off

/-! ### lopdf's own code -/

/-- replace the first occurrence -/
def replaceFirst (a b : UInt8) : Bytes → Bytes
  | [] => []
  | c :: rest => if c = a then b :: rest else c :: replaceFirst a b rest

/-- `convert_utc_offset`: scan from the end, turn the last `:` into `'` -/
def convertUtcOffset (bs : Bytes) : Bytes := (replaceFirst OFFSET_FROM OFFSET_TO bs.reverse).reverse

/-- `From<DateTime<Local>> for Object` -/
def chronoLocalString (lib : DateLib) (f : Fields) : Option Bytes :=
  (lib.strftime CHRONO_LOCAL_FMT f).map convertUtcOffset
/-- `From<DateTime<Utc>> for Object` (fields are UTC) -/
def chronoUtcString (lib : DateLib) (f : Fields) : Option Bytes := lib.strftime CHRONO_UTC_FMT f
/-- `From<Zoned> for Object` -/
def jiffZonedString (lib : DateLib) (f : Fields) : Option Bytes :=
  (lib.strftime JIFF_ZONED_FMT f).map convertUtcOffset
/-- `From<Timestamp> for Object` -/
def jiffTimestampString (lib : DateLib) (f : Fields) : Option Bytes := lib.strftime JIFF_TS_FMT f
/-- `From<OffsetDateTime> for Object` -/
def timeOdtString (lib : DateLib) (f : Fields) : Option Bytes := lib.timeFormat TIME_ODT_FMT f

/-- the byte filter of `Object::datetime_string` -/
def stripDate (bs : Bytes) : Bytes := bs.filter (fun b => !DATE_STRIP.contains b)

/-- `Object::as_datetime` / `datetime_string`: only strings, and the filtered bytes must be UTF-8 -/
def asDatetime (o : Obj) : Option Bytes :=
  match o with
  | .str bs _ => if (stdFromUtf8 (stripDate bs)).isSome then some (stripDate bs) else none
  | _ => none

/-- apply the kind of an alternative: 0 keeps the scanned offset, 1 and 2 mean UTC -/
def applyKind (kind : Nat) (f : Fields) : Fields :=
  if kind = 0 then f else { f with offNeg := false, offH := 0, offM := 0 }

/-- `a.or_else(|_| b).or_else(…)` over the alternatives in source order -/
def firstAlt (lib : DateLib) (zOk : Bool) (s : Bytes) : List (Nat × Bytes) → Option Fields
  | [] => none
  | (kind, fmt) :: rest =>
    match lib.strptime zOk fmt s with
    | some f => some (applyKind kind f)
    | none => firstAlt lib zOk s rest

/-- `TryFrom<DateTime> for chrono::DateTime<Local>` before the conversion to the local zone: the
`DateTime<FixedOffset>` the alternatives produce -/
def chronoParse (lib : DateLib) (s : Bytes) : Option Fields := firstAlt lib true s CHRONO_PARSE
/-- … and the whole conversion: `.map(|date| date.with_timezone(&Local))`. `localOff` is the UTC offset
(seconds) the `Local` zone has at that instant — the environment's (`TZ`), a parameter here. The parsed
offset is NOT kept: only the instant is. -/
def chronoTryFrom (lib : DateLib) (localOff : Int) (s : Bytes) : Option Fields :=
  (chronoParse lib s).map (lib.toOffset localOff)
/-- `TryFrom<DateTime> for jiff::Zoned` -/
def jiffParse (lib : DateLib) (s : Bytes) : Option Fields := firstAlt lib false s JIFF_PARSE
/-- the same over the `time` backend's own format syntax -/
def firstAltTime (lib : DateLib) (s : Bytes) : List (Nat × Bytes) → Option Fields
  | [] => none
  | (kind, fmt) :: rest =>
    match lib.timeParse fmt s with
    | some f => some (applyKind kind f)
    | none => firstAltTime lib s rest

/-- `TryFrom<DateTime> for time::OffsetDateTime`: the alternatives in source order -/
def timeParse (lib : DateLib) (s : Bytes) : Option Fields := firstAltTime lib s TIME_PARSE

/-- `From<time::Time> for Object`: `OffsetDateTime::now_utc().replace_time(time)` formatted as a `Z`
date. `today` stands for `now_utc()`: ASSUMED of the clock/library is only that it returns a date-time at
offset UTC whose calendar date is valid with a year in 0000–9999 (`time` without `large-dates` cannot
represent others) and that `replace_time` replaces exactly hour / minute / second (and the sub-second
part, which the format does not print) keeping date and offset. Which date it is, is the environment's. -/
def timeTimeString (lib : DateLib) (today : Fields) (h mi s : Nat) : Option Bytes :=
  lib.timeFormat TIME_TIME_FMT
    { today with hour := h, minute := mi, second := s, offNeg := false, offH := 0, offM := 0 }

end Lopdf
