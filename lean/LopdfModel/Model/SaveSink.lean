import LopdfModel.Model.Sink
import LopdfModel.Model.File
/-
  C19 — `Document::save_to` / `IncrementalDocument::save_to` against a scripted sink, as a
  function of the DOCUMENT (not of a recorded request list): which bytes are requested
  (`saveFrom`, the writer model of C01/C03), where in the request stream `save` mutates the
  document (`write_trailer` sets `Size` just before it writes `trailer\n`;
  `write_cross_reference_stream` raises `max_id` and rewrites the trailer just before it writes
  the cross-reference stream object — in both cases one block of assignments with no write in
  between), and what the caller holds afterwards: the untouched document when the sink failed
  before that point, the document as a complete save leaves it otherwise.
  How `write!` / `writeln!` cut the bytes into `write_all` requests is std's business: the
  theorems quantify over EVERY cut of the bytes before / after the mutation point.
-/
namespace Lopdf
open Gen

/-- `saveRun` that also hands back the part of the script not yet consumed -/
def saveRunS : List Bytes → List Resp → SaveRun × List Resp
  | [], s => ({ ok := true, delivered := [], counter := 0, issued := 0 }, s)
  | c :: cs, s =>
    let w := writeAll c s
    if w.ok then
      let r := saveRunS cs w.script
      ({ ok := r.1.ok, delivered := w.delivered ++ r.1.delivered, counter := c.length + r.1.counter,
         issued := r.1.issued + 1 }, r.2)
    else ({ ok := false, delivered := w.delivered, counter := c.length, issued := 1 }, w.script)

/-- number of bytes `save` has requested when it mutates the document (after `pre` bytes of
earlier revisions): table kind — header, objects and the `xref` section; stream kind — header
and objects -/
def mutationOffset (pre : Bytes) (d : SDoc) : Nat :=
  let header := pre ++ PDF_KW ++ d.version ++ [10] ++ [37] ++ d.binaryMark ++ [10]
  let (body, x) := writeObjects d.objects header []
  match d.xrefKind with
  | .table => (body ++ writeXrefTable x (d.maxId + 1)).length
  | .stream => body.length

structure SinkSave where
  ok : Bool
  delivered : Bytes
  /-- the document's trailer / max_id have been updated -/
  mutated : Bool
  deriving Repr

/-- the run: requests `before` the mutation point, then — only if all of them went through —
the mutation and the requests `after` it -/
def saveSink (before after : List Bytes) (s : List Resp) : SinkSave :=
  let r1 := saveRunS before s
  if r1.1.ok then
    let r2 := saveRun after r1.2
    { ok := r2.ok, delivered := r1.1.delivered ++ r2.delivered, mutated := true }
  else { ok := false, delivered := r1.1.delivered, mutated := false }

/-- what the caller holds after the run -/
def docAfter (d d' : SDoc) (r : SinkSave) : SDoc := if r.mutated then d' else d

/-- cut a recorded request list at byte offset `n` (must be a request boundary) -/
def splitRequests : List Bytes → Nat → Option (List Bytes × List Bytes)
  | cs, 0 => some ([], cs)
  | [], _ + 1 => none
  | c :: cs, n + 1 =>
    if c.length ≤ n + 1 then
      match splitRequests cs (n + 1 - c.length) with
      | some (a, b) => some (c :: a, b)
      | none => none
    else none

end Lopdf
