import LopdfModel.Model.Parse
/-
  C03 — an independent STRICT structural reader (the Lean twin of `harness/src/strict.rs`).
  It follows ONLY the file structure and rejects on any inconsistency:

  R1  the file ends with `\nstartxref\n<decimal x>\n%%EOF` (canonical decimal, nothing after);
  R2  at `x` stands the cross-reference section: either `xref` EOL, subsections
      `<start> <count>` EOL with exactly 20-byte entries `dddddddddd ddddd [nf]` + 2-byte EOL,
      then `trailer`, white space, a dictionary with an integer `Size` — or an object `n g obj`
      that is an unfiltered `/Type /XRef` stream with `W` (3 widths ≤ 8), `Size`, `Index` (pairs),
      `Length = rows × row width`, entry types 0/1 only, listing ITSELF at its own offset;
  R3  no object number twice in one section; generations ≤ 65535; `Size` exceeds every number of the section, and the
      newest trailer's `Size` exceeds the number of every object of the file;
  R4  the section ends exactly where `\nstartxref\n` begins;
  R5  every in-use entry points at exactly `n g obj` EOL; the object body parses; a stream is
      `dict` immediately followed by `stream` LF|CRLF, `Length` bytes (direct or resolved inside
      the same revision), optional EOL, `endstream`; then white space, `endobj`, EOL;
  R6  TILING: header, objects, cross-reference section and tail cover the file without gap or
      overlap — walking from the end of the header, at each position exactly one entry of the
      revision starts, its object ends where the next starts, the last ends at `x`, and no entry
      is left over;
  R7  the oldest revision starts at offset 0 with `%PDF-<version>` EOL and a `%…` comment line;
      an appended revision (`Prev = p < x`) follows the previous `%%EOF` after optional EOLs with
      its own two header lines, and the previous revision's `startxref` value is exactly `p`.

  Independent of `Model/Read.lean` (lopdf's reader model).  The ONLY code shared with the model of
  lopdf's parser is `directObjects` (the grammar of one direct object, `Model/Parse.lean`) for
  object bodies and the trailer dictionary — listed in the trusted base of C03.
  Objects are returned in file order, newest revision first (a number seen in a newer revision
  shadows older ones).
-/
namespace Lopdf.Strict
open Lopdf

abbrev Res := Except String

structure StrictDoc where
  version : Bytes
  objects : List (ObjId × Obj)
  trailer : Dict
  revisions : Nat
  xrefStreamIds : List Nat
  deriving Repr

/-! ### byte utilities -/

def isWs (b : UInt8) : Bool := b == 0 || b == 9 || b == 10 || b == 12 || b == 13 || b == 32

def skipWs : Bytes → Bytes
  | [] => []
  | b :: r => if isWs b then skipWs r else b :: r

def isEolByte (b : UInt8) : Bool := b == 10 || b == 13

def skipEols : Bytes → Bytes
  | [] => []
  | b :: r => if isEolByte b then skipEols r else b :: r

/-- `p` is a prefix: the rest -/
def stripPrefix : Bytes → Bytes → Option Bytes
  | [], r => some r
  | _ :: _, [] => none
  | x :: xs, y :: ys => if x = y then stripPrefix xs ys else none

/-- CRLF | LF | CR -/
def dropEol : Bytes → Option Bytes
  | 13 :: 10 :: r => some r
  | 10 :: r => some r
  | 13 :: r => some r
  | _ => none

/-- LF | CRLF (after `stream`) -/
def dropStreamEol : Bytes → Option Bytes
  | 13 :: 10 :: r => some r
  | 10 :: r => some r
  | _ => none

def isDig (b : UInt8) : Bool := 48 ≤ b && b ≤ 57

def spanDigits : Bytes → Bytes × Bytes
  | [] => ([], [])
  | b :: r => if isDig b then let (a, r') := spanDigits r; (b :: a, r') else ([], b :: r)

def spanLine : Bytes → Bytes × Bytes
  | [] => ([], [])
  | b :: r => if isEolByte b then ([], b :: r) else let (a, r') := spanLine r; (b :: a, r')

/-- 1–19 decimal digits -/
def number (s : Bytes) : Option (Nat × Bytes) :=
  let (ds, r) := spanDigits s
  if ds.isEmpty || ds.length > 19 then none else some (digitsVal ds, r)

def STREAM : Bytes := [115, 116, 114, 101, 97, 109]
def ENDSTREAM : Bytes := [101, 110, 100, 115, 116, 114, 101, 97, 109]
def ENDOBJ : Bytes := [101, 110, 100, 111, 98, 106]
def OBJ : Bytes := [32, 111, 98, 106]
def XREF : Bytes := [120, 114, 101, 102]
def TRAILER : Bytes := [116, 114, 97, 105, 108, 101, 114]
def STARTXREF_LINE : Bytes := [10, 115, 116, 97, 114, 116, 120, 114, 101, 102, 10]
def EOF_LINE : Bytes := [10, 37, 37, 69, 79, 70]
def PDF : Bytes := [37, 80, 68, 70, 45]
def kLength : Bytes := [76, 101, 110, 103, 116, 104]
def kSize : Bytes := [83, 105, 122, 101]
def kPrev : Bytes := [80, 114, 101, 118]
def kType : Bytes := [84, 121, 112, 101]
def kXRef : Bytes := [88, 82, 101, 102]
def kFilter : Bytes := [70, 105, 108, 116, 101, 114]
def kW : Bytes := [87]
def kIndex : Bytes := [73, 110, 100, 101, 120]

/-! ### objects -/

/-- `endobj` part: white space, `endobj`, EOL; returns the end offset -/
def finishObj (total : Nat) (o : Obj) (r : Bytes) : Res (Obj × Nat) :=
  match stripPrefix ENDOBJ (skipWs r) with
  | none => .error "missing `endobj`"
  | some r' =>
    match dropEol r' with
    | none => .error "no EOL after `endobj`"
    | some r'' => .ok (o, total - r''.length)

/-- the `Length` of a stream dictionary: direct, or resolved through `resolve` -/
def streamLength (resolve : ObjId → Option Int) (d : Dict) : Option Int :=
  match Dict.get d kLength with
  | some (.int n) => some n
  | some (.ref n g) => resolve (n, g)
  | _ => none

/-- R5: the object whose entry says `off`, `num`, `gen`; returns the object and its end offset -/
def objectAt (b : Bytes) (off num gen : Nat) (resolve : ObjId → Option Int) : Res (Obj × Nat) :=
  if off > b.length then .error "entry offset beyond the file" else
  match stripPrefix (natDigits num ++ 32 :: natDigits gen ++ OBJ) (b.drop off) with
  | none => .error "entry offset is not at the object's own `n g obj` header"
  | some r0 =>
    match dropEol r0 with
    | none => .error "no EOL after `obj`"
    | some r1 =>
      let r2 := skipWs r1
      match directObjects (r2.length + 1) 0 r2 with
      | .ok (.dict d) r3 =>
        (match stripPrefix STREAM r3 with
         | some r4 =>
           (match dropStreamEol r4 with
            | none => .error "`stream` not followed by LF or CRLF"
            | some r5 =>
              match streamLength resolve d with
              | none => .error "stream without usable Length"
              | some len =>
                if len < 0 || r5.length < len.toNat then .error "stream Length out of range" else
                let content := r5.take len.toNat
                let r6 := r5.drop len.toNat
                let r7 := match dropEol r6 with | some r => r | none => r6
                match stripPrefix ENDSTREAM r7 with
                | none => .error "stream Length does not match the bytes up to `endstream`"
                | some r8 => finishObj b.length (.stream d content) r8)
         | none =>
           if (stripPrefix STREAM (skipWs r3)).isSome then .error "white space between stream dictionary and `stream`"
           else finishObj b.length (.dict d) r3)
      | .ok o r3 => finishObj b.length o r3
      | _ => .error "object body does not parse"

/-! ### cross-reference sections -/

/-- (object number, offset, generation) -/
abbrev Entry := Nat × Nat × Nat

structure Rev where
  entries : List Entry
  trailer : Dict
  secEnd : Nat
  prev : Option Nat
  size : Int
  selfId : Option Nat
  deriving Repr

def hasNum (es : List Entry) (n : Nat) : Bool := es.any fun e => e.1 == n

/-- R2: one 20-byte table entry: (offset, generation, in use) -/
def tableEntry (s : Bytes) : Option ((Nat × Nat × Bool) × Bytes) :=
  let d1 := s.take 10
  match s.drop 10 with
  | 32 :: s1 =>
    let d2 := s1.take 5
    (match s1.drop 5 with
     | 32 :: k :: e1 :: e2 :: r =>
       if d1.length = 10 && d1.all isDig && d2.length = 5 && d2.all isDig && (k == 110 || k == 102)
          && ((e1 == 32 && e2 == 10) || (e1 == 32 && e2 == 13) || (e1 == 13 && e2 == 10))
       then some ((digitsVal d1, digitsVal d2, k == 110), r) else none
     | _ => none)
  | _ => none

/-- the entries of one subsection -/
def tableEntries : Nat → Nat → Bytes → List Entry → Res (List Entry × Bytes)
  | 0, _, s, acc => .ok (acc, s)
  | c + 1, num, s, acc =>
    match tableEntry s with
    | none => .error "xref table entry is not 20 bytes of the form `dddddddddd ddddd [nf] EOL`"
    | some ((off, gen, inUse), r) =>
      if inUse then
        if gen > 65535 then .error "generation > 65535"
        else if hasNum acc num then .error "object number listed twice in one section"
        else tableEntries c (num + 1) r (acc ++ [(num, off, gen)])
      else tableEntries c (num + 1) r acc

/-- subsections until something that is not a digit -/
def subsections : Nat → Bytes → List Entry → Nat → Res (List Entry × Bytes × Nat)
  | 0, _, _, _ => .error "xref table too long"
  | fuel + 1, s, acc, count =>
    match s with
    | b :: _ =>
      if isDig b then
        match number s with
        | none => .error "bad subsection header"
        | some (start, s1) =>
          match s1 with
          | 32 :: s2 =>
            (match number s2 with
             | none => .error "bad subsection header"
             | some (cnt, s3) =>
               match dropEol s3 with
               | none => .error "bad subsection header EOL"
               | some s4 =>
                 match tableEntries cnt start s4 acc with
                 | .error e => .error e
                 | .ok (acc', s5) => subsections fuel s5 acc' (count + 1))
          | _ => .error "bad subsection header"
      else .ok (acc, s, count)
    | [] => .ok (acc, s, count)

def prevOf (d : Dict) : Res (Option Nat) :=
  match Dict.get d kPrev with
  | none => .ok none
  | some (.int n) => if n ≥ 0 then .ok (some n.toNat) else .error "bad Prev"
  | some _ => .error "bad Prev"

/-- R2, classic table at `s = b.drop x` (after the keyword `xref`) -/
def tableSection (total : Nat) (s : Bytes) : Res Rev :=
  match dropEol s with
  | none => .error "no EOL after `xref`"
  | some s1 =>
    match subsections (s1.length + 1) s1 [] 0 with
    | .error e => .error e
    | .ok (entries, s2, count) =>
      if count = 0 then .error "xref table without subsections" else
      match stripPrefix TRAILER s2 with
      | none => .error "`trailer` does not follow the last subsection"
      | some s3 =>
        let s4 := skipWs s3
        match directObjects (s4.length + 1) 0 s4 with
        | .ok (.dict tr) s5 =>
          (match Dict.get tr kSize with
           | some (.int size) =>
             (match prevOf tr with
              | .error e => .error e
              | .ok prev => .ok { entries := entries, trailer := tr, secEnd := total - s5.length, prev := prev,
                                  size := size, selfId := none })
           | _ => .error "trailer without Size")
        | _ => .error "trailer dictionary does not parse"

def intList (o : Option Obj) : Option (List Int) :=
  match o with
  | some (.arr items) => items.mapM fun (x : Obj) => match x with | .int i => some i | _ => none
  | _ => none

/-- big-endian field of `n` bytes (`default` when the width is 0) -/
def field (n : Nat) (default : Nat) (s : Bytes) : Nat × Bytes :=
  if n = 0 then (default, s) else ((s.take n).foldl (fun acc (b : UInt8) => acc * 256 + b.toNat) 0, s.drop n)

def streamRows (w1 w2 w3 : Nat) : Nat → Nat → Bytes → List Entry → Res (List Entry × Bytes)
  | 0, _, s, acc => .ok (acc, s)
  | c + 1, num, s, acc =>
    let (t, s1) := field w1 1 s
    let (f2, s2) := field w2 0 s1
    let (f3, s3) := field w3 0 s2
    if t = 1 then
      if f3 > 65535 then .error "generation > 65535"
      else if hasNum acc num then .error "object number listed twice in one section"
      else streamRows w1 w2 w3 c (num + 1) s3 (acc ++ [(num, f2, f3)])
    else if t = 0 then streamRows w1 w2 w3 c (num + 1) s3 acc
    else if t = 2 then .error "strict reader: compressed entries not expected in files written by lopdf"
    else .error "unknown xref entry type"

def streamSections (w1 w2 w3 : Nat) : List Int → Bytes → List Entry → Res (List Entry)
  | start :: count :: rest, s, acc =>
    (match streamRows w1 w2 w3 count.toNat start.toNat s acc with
     | .error e => .error e
     | .ok (acc', s') => streamSections w1 w2 w3 rest s' acc')
  | _, _, acc => .ok acc

def rowCount : List Int → Int
  | _ :: count :: rest => count + rowCount rest
  | _ => 0

/-- R2, cross-reference stream: the object at `x` -/
def streamSection (b : Bytes) (x : Nat) : Res Rev :=
  match number (b.drop x) with
  | none => .error "startxref points neither at `xref` nor at an object header"
  | some (num, s1) =>
    match s1 with
    | 32 :: s2 =>
      (match number s2 with
       | none => .error "startxref points at no object header"
       | some (gen, _) =>
         match objectAt b x num gen (fun _ => none) with
         | .error e => .error e
         | .ok (.stream d content, e) =>
           if !(match Dict.get d kType with | some (.name n) => n == kXRef | _ => false) then .error "startxref object is not /Type /XRef" else
           if (Dict.get d kFilter).isSome then .error "strict reader: filtered xref stream not supported" else
           (match intList (Dict.get d kW), Dict.get d kSize with
            | some [w1, w2, w3], some (.int size) =>
              if w1 < 0 || w1 > 8 || w2 < 0 || w2 > 8 || w3 < 0 || w3 > 8 then .error "bad W" else
              let index := match intList (Dict.get d kIndex) with | some l => l | none => [0, size]
              if index.length % 2 != 0 || index.any (· < 0) then .error "bad Index" else
              if rowCount index * (w1 + w2 + w3) != (content.length : Int) then
                .error "W, Index and Length are inconsistent (Length != rows * row width)" else
              (match streamSections w1.toNat w2.toNat w3.toNat index content [] with
               | .error e => .error e
               | .ok entries =>
                 match prevOf d with
                 | .error e => .error e
                 | .ok prev =>
                   if entries.any (fun en => en.1 == num && en.2.1 == x) then
                     .ok { entries := entries, trailer := d, secEnd := e, prev := prev, size := size, selfId := some num }
                   else .error "xref stream does not list itself at its own offset")
            | _, _ => .error "xref stream without W (3 integers) or Size")
         | .ok _ => .error "startxref object is not a stream")
    | _ => .error "startxref points at no object header"

/-- R2: the cross-reference section at offset `x` -/
def sectionAt (b : Bytes) (x : Nat) : Res Rev :=
  if x > b.length then .error "startxref beyond the file" else
  match stripPrefix XREF (b.drop x) with
  | some s => tableSection b.length s
  | none => streamSection b x

/-! ### tail, header, tiling -/

/-- R1/R4: `\nstartxref\n<x>\n%%EOF` at `pos`; returns the end -/
def tailAt (b : Bytes) (pos x : Nat) : Res Nat :=
  if pos > b.length then .error "cross-reference section beyond the file" else
  match stripPrefix (STARTXREF_LINE ++ natDigits x ++ EOF_LINE) (b.drop pos) with
  | none => .error "bytes between cross-reference section and `startxref`, or the offset differs"
  | some r => .ok (b.length - r.length)

/-- R1: the offset stated at the very end of the file -/
def lastXref (b : Bytes) : Res Nat :=
  match stripPrefix EOF_LINE.reverse b.reverse with
  | none => .error "file does not end with `%%EOF`"
  | some r1 =>
    let (ds, r2) := spanDigits r1
    if ds.isEmpty then .error "no offset before %%EOF" else
    if ds.length > 19 then .error "startxref offset" else
    match stripPrefix STARTXREF_LINE.reverse r2 with
    | none => .error "`startxref` keyword missing before the offset"
    | some _ => .ok (digitsVal ds.reverse)

/-- R7: `%PDF-<version>` EOL `%…` EOL; returns version and the rest -/
def headerAt (s : Bytes) : Res (Bytes × Bytes) :=
  match stripPrefix PDF s with
  | none => .error "missing %PDF- header"
  | some s1 =>
    let (v, s2) := spanLine s1
    match dropEol s2 with
    | none => .error "header EOL"
    | some s3 =>
      match s3 with
      | 37 :: s4 =>
        let (_, s5) := spanLine s4
        (match dropEol s5 with
         | none => .error "binary comment EOL"
         | some s6 => .ok (v, s6))
      | _ => .error "binary comment line missing after the header"

/-- resolve an indirect Length inside the revision: the object must be an integer -/
def resolveIn (b : Bytes) (entries : List Entry) (id : ObjId) : Option Int :=
  match entries.find? (fun e => e.1 == id.1) with
  | some (n, off, g) =>
    if g = id.2 then
      match objectAt b off n g (fun _ => none) with
      | .ok (.int i, _) => some i
      | _ => none
    else none
  | none => none

/-- R6: walk the object area from `pos` to `stop`; exactly one entry starts at each position -/
def walk (b : Bytes) (resolve : ObjId → Option Int) :
    Nat → List Entry → Nat → Nat → List (ObjId × Obj) → Res (List (ObjId × Obj))
  | 0, _, _, _, _ => .error "walk: more steps than bytes"
  | fuel + 1, ents, pos, stop, acc =>
    if pos = stop then
      (if ents.isEmpty then .ok acc.reverse else .error "an entry does not point into the object area of its revision")
    else
      match ents.filter (fun e => e.2.1 == pos) with
      | [e] =>
        (match objectAt b e.2.1 e.1 e.2.2 resolve with
         | .error m => .error m
         | .ok (o, en) =>
           if en ≤ pos then .error "empty object" else
           walk b resolve fuel (ents.filter fun e' => e'.2.1 != pos) en stop (((e.1, e.2.2), o) :: acc))
      | [] => .error "bytes are not accounted for (no entry starts here)"
      | _ => .error "two entries at one offset"

structure RevData where
  rev : Rev
  objs : List (ObjId × Obj)
  deriving Repr

/-- R3: `Size` exceeds every object number -/
def sizeOk (r : Rev) : Bool := r.entries.all fun e => (e.1 : Int) < r.size

/-- the revisions from the one whose section is at `x` back to the oldest; returns them newest
first, the version of the oldest header and the end offset of the revision at `x` -/
def revisions (b : Bytes) : Nat → Nat → Res (List RevData × Bytes × Nat)
  | 0, _ => .error "Prev chain too long"
  | fuel + 1, x =>
    match sectionAt b x with
    | .error e => .error e
    | .ok rev =>
      match tailAt b rev.secEnd x with
      | .error e => .error e
      | .ok endPos =>
        if !sizeOk rev then .error "Size does not exceed every object number" else
        let older : Res (List RevData × Bytes × Nat) :=
          match rev.prev with
          | none =>
            (match headerAt b with
             | .error e => .error e
             | .ok (v, r) => .ok ([], v, b.length - r.length))
          | some p =>
            if p ≥ x then .error "Prev does not point backwards" else
            match revisions b fuel p with
            | .error e => .error e
            | .ok (older, v, prevEnd) =>
              match headerAt (skipEols (b.drop prevEnd)) with
              | .error _ => .error "unaccounted bytes between revisions"
              | .ok (_, r) => .ok (older, v, b.length - r.length)
        match older with
        | .error e => .error e
        | .ok (olderRevs, v, objStart) =>
          let ents := rev.entries.filter fun e => some e.1 != rev.selfId
          match walk b (resolveIn b rev.entries) (b.length + 1) ents objStart x [] with
          | .error e => .error e
          | .ok objs => .ok ({ rev := rev, objs := objs } :: olderRevs, v, endPos)

/-- newest first: an object number seen in a newer revision (or taken by its cross-reference
stream) shadows older objects of that number -/
def mergeRevs : List RevData → List Nat → List (ObjId × Obj) → List (ObjId × Obj)
  | [], _, acc => acc
  | r :: rest, seen, acc =>
    let seen1 := match r.rev.selfId with | some n => if seen.contains n then seen else n :: seen | none => seen
    let fresh := r.objs.filter fun p => !seen1.contains p.1.1
    mergeRevs rest (seen1 ++ fresh.map (·.1.1)) (acc ++ fresh)

/-- **the strict reader** -/
def strictLoad (b : Bytes) : Res StrictDoc :=
  match lastXref b with
  | .error e => .error e
  | .ok x =>
    match revisions b (b.length + 1) x with
    | .error e => .error e
    | .ok (revs, version, endPos) =>
      if endPos != b.length then .error "bytes after the final %%EOF" else
      match revs with
      | [] => .error "no revision"
      | newest :: _ =>
        -- R3 for the whole file: the `Size` a reader uses is the newest trailer's, and it exceeds the number of every
        -- object the file defines (in any revision)
        match Dict.get newest.rev.trailer kSize with
        | some (.int sz) =>
          if !((mergeRevs revs [] []).all fun p => (p.1.1 : Int) < sz) then
            .error "Size of the newest trailer does not exceed every object number of the file"
          else
          .ok { version := version, objects := mergeRevs revs [] [], trailer := newest.rev.trailer,
                revisions := revs.length, xrefStreamIds := revs.filterMap (·.rev.selfId) }
        | _ => .error "trailer without Size"

end Lopdf.Strict
