import LopdfModel.Model.Parse
/-
  Declarative lexical grammar of ISO 32000-1 §7.3 (the part proved so far): inductive
  relations that enumerate EVERY legal spelling of a name and of a hexadecimal string.
  `DerivesName n bs`  : `bs` is a spelling of the name body with value `n`
  `DerivesHex  s bs`  : `bs` is a spelling of the hexadecimal-string body with value `s`
-/
namespace Lopdf

/-- one byte of a name: written raw when it is a regular character other than `#`, or as
`#hh` with ANY two hexadecimal digits (upper or lower case) — the producer's choice. -/
inductive DerivesName : Bytes → Bytes → Prop where
  | nil : DerivesName [] []
  | raw (b : UInt8) (n bs : Bytes) : (b != 35) = true → isRegular b = true →
      DerivesName n bs → DerivesName (b :: n) (b :: bs)
  | esc (h1 h2 : UInt8) (n bs : Bytes) : isHexDigit h1 = true → isHexDigit h2 = true →
      DerivesName n bs → DerivesName ((hexVal h1 <<< 4 ||| hexVal h2) :: n) (35 :: h1 :: h2 :: bs)

/-- white space that may be interleaved in a hexadecimal string -/
def AllWs (w : Bytes) : Prop := ∀ b ∈ w, isWhitespace b = true

/-- body of a hexadecimal string (between `<` and `>`): pairs of digits, each digit preceded by
any white space; a final unpaired digit stands for the high nibble (low nibble 0). -/
inductive DerivesHex : Bytes → Bytes → Prop where
  | nil (w : Bytes) : AllWs w → DerivesHex [] w
  | odd (w1 w2 : Bytes) (h : UInt8) : AllWs w1 → AllWs w2 → isHexDigit h = true →
      DerivesHex [hexVal h <<< 4] (w1 ++ h :: w2)
  | pair (w1 w2 : Bytes) (h1 h2 : UInt8) (s bs : Bytes) : AllWs w1 → AllWs w2 →
      isHexDigit h1 = true → isHexDigit h2 = true → DerivesHex s bs →
      DerivesHex ((hexVal h1 <<< 4 ||| hexVal h2) :: s) (w1 ++ h1 :: (w2 ++ h2 :: bs))

end Lopdf
