import LopdfModel.Spec.GrammarTokens
import LopdfModel.Model.Read
/-
  Declarative grammar of the cross-reference table (ISO 32000-1 §7.5.4) and the reference
  encoder of cross-reference streams (§7.5.8), with the tables they DENOTE.
  (The only items of the reader model mentioned here are the data types `XEntry`/`XTable` with
  `XTable.insert`/`XTable.get` — the map the theorems compare against; its look-up behaviour
  is characterised by `tableOf_get` in Thm/C02Xref.lean.)
-/
namespace Lopdf.Grammar
open Lopdf Gen

/-- one line of a cross-reference table: (offset, generation, in use) -/
abbrev TEntry := Nat × Nat × Bool
/-- one subsection: first object number and its lines -/
abbrev TSub := Nat × List TEntry

/-- the three two-byte line ends of an entry: SP CR, SP LF, CR LF -/
inductive IsEntryEol : Bytes → Prop where
  | spCr : IsEntryEol [32, 13]
  | spLf : IsEntryEol [32, 10]
  | crLf : IsEntryEol [13, 10]

/-- **One entry**: offset SP generation SP `n`|`f` + two-byte line end. ISO fixes the digit
counts (10 and 5, leading zeros); lopdf accepts one or more digits and values within `u32` —
the relation follows lopdf on the digit counts and keeps the value ranges of a valid file
(generation ≤ 65535). -/
inductive DerivesXrefEntry : TEntry → Bytes → Prop where
  | mk (off gen : Nat) (inUse : Bool) (d1 d2 e : Bytes) :
      DerivesNat off d1 → off ≤ 4294967295 → DerivesNat gen d2 → gen ≤ 65535 → IsEntryEol e →
      DerivesXrefEntry (off, gen, inUse) (d1 ++ [32] ++ d2 ++ [32, if inUse then 110 else 102] ++ e)

inductive DerivesXrefEntries : List TEntry → Bytes → Prop where
  | nil : DerivesXrefEntries [] []
  | cons (e : TEntry) (es : List TEntry) (b bs : Bytes) :
      DerivesXrefEntry e b → DerivesXrefEntries es bs → DerivesXrefEntries (e :: es) (b ++ bs)

/-- optional single space before the end of the subsection header line (lopdf's tolerance) -/
inductive IsOptSp : Bytes → Prop where
  | none : IsOptSp []
  | sp : IsOptSp [32]

/-- **One subsection**: `start SP count [SP] EOL` and `count` entries; the object numbers
`start … start+count-1` are below 2^32. -/
inductive DerivesXrefSub : TSub → Bytes → Prop where
  | mk (start : Nat) (es : List TEntry) (d1 d2 sp e ebs : Bytes) :
      DerivesNat start d1 → DerivesNat es.length d2 → es.length ≤ 4294967295 →
      start + es.length ≤ 4294967296 → IsOptSp sp → IsEol e → DerivesXrefEntries es ebs →
      DerivesXrefSub (start, es) (d1 ++ [32] ++ d2 ++ sp ++ e ++ ebs)

/-- one or more subsections -/
inductive DerivesXrefSubs : List TSub → Bytes → Prop where
  | one (s : TSub) (b : Bytes) : DerivesXrefSub s b → DerivesXrefSubs [s] b
  | cons (s : TSub) (ss : List TSub) (b bs : Bytes) :
      DerivesXrefSub s b → DerivesXrefSubs ss bs → DerivesXrefSubs (s :: ss) (b ++ bs)

/-- **Cross-reference table**: the keyword `xref`, an end-of-line marker, the subsections -/
inductive DerivesXrefTable : List TSub → Bytes → Prop where
  | mk (secs : List TSub) (e body : Bytes) : IsEol e → DerivesXrefSubs secs body →
      DerivesXrefTable secs ([120, 114, 101, 102] ++ e ++ body)

/-! ### what a table denotes -/

/-- entries of a subsection with their object numbers -/
def numbered : Nat → List TEntry → List (Nat × TEntry)
  | _, [] => []
  | n, e :: es => (n, e) :: numbered (n + 1) es

/-- the in-use entries of the table, in file order -/
def inUseOf (secs : List TSub) : List (Nat × XEntry) :=
  secs.flatMap fun (s : TSub) =>
    (numbered s.1 s.2).filterMap fun (p : Nat × TEntry) =>
      if p.2.2.2 then some (p.1, XEntry.normal p.2.1 p.2.2.1) else none

/-- bindings applied in order to a map -/
def bindAll (x : XTable) (l : List (Nat × XEntry)) : XTable :=
  l.foldl (fun acc (p : Nat × XEntry) => acc.insert p.1 p.2) x

/-- the map a table denotes: every in-use entry, a later line for the same number replacing
an earlier one -/
def tableOf (secs : List TSub) : XTable := bindAll [] (inUseOf secs)

/-- declarative look-up: the LAST binding of `n` in file order -/
def lastBinding (l : List (Nat × XEntry)) (n : Nat) : Option XEntry :=
  (l.reverse.find? fun p => p.1 == n).map (·.2)

/-! ### cross-reference streams: reference encoder -/

/-- big-endian encoding of `v` in exactly `w` bytes (the low `w` bytes of `v`) -/
def beBytes : Nat → Nat → Bytes
  | 0, _ => []
  | w + 1, v => beBytes w (v / 256) ++ [(v % 256).toUInt8]

/-- one row: (type, field 2, field 3) -/
abbrev SRow := Nat × Nat × Nat

/-- a row is well formed for the widths: each field fits its width (a width may exceed 4 bytes)
and 32 bits; with `w1 = 0` the type is the default 1; the third field fits 16 bits; the type is
one of the three DEFINED types 0, 1, 2.
DEVIATION (finding F-C02-b): Table 18 says "any other value shall be interpreted as a reference
to the null object"; lopdf reads only the type field of such a row and NOT its other two
fields, so every later row is misread (`unknownType_desync` in Thm/C02XrefStm.lean). Rows of an
undefined type are therefore outside the relation. -/
def RowOk (w1 w2 w3 : Nat) (r : SRow) : Prop :=
  (if w1 = 0 then r.1 = 1 else r.1 < 256 ^ w1 ∧ r.1 ≤ 2) ∧
  r.2.1 < 256 ^ w2 ∧ r.2.1 < 4294967296 ∧ r.2.2 < 256 ^ w3 ∧ r.2.2 < 65536

def encodeRow (w1 w2 w3 : Nat) (r : SRow) : Bytes :=
  beBytes w1 r.1 ++ beBytes w2 r.2.1 ++ beBytes w3 r.2.2

def encodeRows (w1 w2 w3 : Nat) (rows : List SRow) : Bytes :=
  rows.flatMap (encodeRow w1 w2 w3)

/-- a subsection of a cross-reference stream: first object number (one `Index` pair) and rows -/
abbrev SSub := Nat × List SRow

def encodeSubs (w1 w2 w3 : Nat) (subs : List SSub) : Bytes :=
  subs.flatMap fun s => encodeRows w1 w2 w3 s.2

/-- the `Index` array of the subsections: pairs (first number, count) -/
def indexInts (subs : List SSub) : List Int :=
  subs.flatMap fun s => [(s.1 : Int), (s.2.length : Int)]

def indexOf (subs : List SSub) : List Obj := (indexInts subs).map Obj.int

/-- the entry a row denotes (§7.5.8.3 Table 18): type 0 = free (nothing to load), type 1 =
object at an offset, type 2 = object in an object stream, any other type = null reference -/
def rowEntry (r : SRow) : Option XEntry :=
  if r.1 = 1 then some (.normal r.2.1 r.2.2)
  else if r.1 = 2 then some (.compressed r.2.1 r.2.2)
  else none

def numberedRows : Nat → List SRow → List (Nat × SRow)
  | _, [] => []
  | n, e :: es => (n, e) :: numberedRows (n + 1) es

def rowBindings (start : Nat) (rows : List SRow) : List (Nat × XEntry) :=
  (numberedRows start rows).filterMap fun (p : Nat × SRow) => (rowEntry p.2).map fun e => (p.1, e)

def streamBindings (subs : List SSub) : List (Nat × XEntry) :=
  subs.flatMap fun (s : SSub) => rowBindings s.1 s.2

/-- well-formed subsections for the widths: rows fit, object numbers below 2^32 -/
def SubsOk (w1 w2 w3 : Nat) (subs : List SSub) : Prop :=
  ∀ s ∈ subs, (∀ r ∈ s.2, RowOk w1 w2 w3 r) ∧ s.1 + s.2.length ≤ 4294967296

def totalRows (subs : List SSub) : Nat := (subs.map fun s => s.2.length).sum

/-- the map a cross-reference stream denotes -/
def streamTableOf (subs : List SSub) : XTable := bindAll [] (streamBindings subs)

end Lopdf.Grammar
