/-
  Independent specification of the UTF-16 encoding form (Unicode §3.9, D91; RFC 2781),
  as a relation between a sequence of Unicode scalar values and a sequence of 16-bit
  code units.  Written without reference to the model's encoder / decoder.
-/
namespace Lopdf.Spec

/-- a Unicode scalar value: a code point that is not a surrogate -/
def Scalar (c : Nat) : Prop := c < 0xD800 ∨ (0xE000 ≤ c ∧ c < 0x110000)

instance (c : Nat) : Decidable (Scalar c) := by unfold Scalar; exact inferInstance

/-- `Utf16 s us`: `us` is the UTF-16 encoding form of `s`.
* a scalar below U+10000 is one unit with the same value (necessarily not a surrogate);
* a scalar `0x10000 + x`, `x < 2^20`, is the pair `0xD800 + x / 2^10`, `0xDC00 + x % 2^10`. -/
inductive Utf16 : List Nat → List Nat → Prop
  | nil : Utf16 [] []
  | bmp (c : Nat) (s us : List Nat) :
      (c < 0xD800 ∨ (0xE000 ≤ c ∧ c < 0x10000)) → Utf16 s us → Utf16 (c :: s) (c :: us)
  | pair (h l : Nat) (s us : List Nat) :
      0xD800 ≤ h → h < 0xDC00 → 0xDC00 ≤ l → l < 0xE000 → Utf16 s us →
      Utf16 ((0x10000 + (h - 0xD800) * 1024 + (l - 0xDC00)) :: s) (h :: l :: us)

end Lopdf.Spec
