import LopdfModel.Model.Basic
/-
  PNG filter algorithms as the PNG specification (ISO/IEC 15948 §9, W3C PNG §9.2–9.4)
  states them, written as an ENCODER plus the abstract predictor functions:

    Filt(x) = Orig(x) − Pred(Orig(x−bpp), Prior(x), Prior(x−bpp))      (mod 256)

  where bytes to the left of the row and the row above the first row are 0,
  `bpp` is the number of bytes per complete pixel rounded up to 1, and
    None: 0     Sub: a     Up: b     Average: floor((a+b)/2)     Paeth: PaethPredictor(a,b,c)
  with a = left, b = above, c = upper left.  All arithmetic for Average and Paeth
  "shall be performed exactly, without overflow" — hence `Nat`/`Int` here.
-/
namespace Lopdf.Spec.Png
open Lopdf

inductive FilterType where | none | sub | up | avg | paeth
  deriving Repr, DecidableEq

/-- PaethPredictor of the PNG specification, over unbounded integers. -/
def paeth (a b c : UInt8) : UInt8 :=
  let p : Int := (a.toNat : Int) + b.toNat - c.toNat
  let pa := (p - a.toNat).natAbs
  let pb := (p - b.toNat).natAbs
  let pc := (p - c.toNat).natAbs
  if pa ≤ pb ∧ pa ≤ pc then a else if pb ≤ pc then b else c

/-- the predictor of each filter type (a = left, b = above, c = upper left) -/
def pred : FilterType → UInt8 → UInt8 → UInt8 → UInt8
  | .none, _, _, _ => 0
  | .sub, a, _, _ => a
  | .up, _, b, _ => b
  | .avg, a, b, _ => ((a.toNat + b.toNat) / 2).toUInt8
  | .paeth, a, b, c => paeth a b c

/-- `Orig(x - bpp)` / `Prior(x - bpp)`: 0 left of the row -/
def leftOf (row : Bytes) (bpp i : Nat) : UInt8 := if i < bpp then 0 else row.getD (i - bpp) 0

/-- the filtered byte at position `i` -/
def filtAt (t : FilterType) (bpp : Nat) (prev cur : Bytes) (i : Nat) : UInt8 :=
  cur.getD i 0 - pred t (leftOf cur bpp i) (prev.getD i 0) (leftOf prev bpp i)

/-- `[g i, g (i+1), …]`, `n` items -/
def tabulateFrom (g : Nat → UInt8) : Nat → Nat → Bytes
  | _, 0 => []
  | i, n + 1 => g i :: tabulateFrom g (i + 1) n

/-- filter one row -/
def encodeRow (t : FilterType) (bpp : Nat) (prev cur : Bytes) : Bytes :=
  tabulateFrom (filtAt t bpp prev cur) 0 cur.length

def typeByte : FilterType → UInt8
  | .none => 0 | .sub => 1 | .up => 2 | .avg => 3 | .paeth => 4

/-- filter a frame: each row is preceded by its filter-type byte; the row above the first is zero -/
def encodeFrame (bpp : Nat) : Bytes → List (FilterType × Bytes) → Bytes
  | _, [] => []
  | prev, (t, row) :: rest => typeByte t :: encodeRow t bpp prev row ++ encodeFrame bpp row rest

/-- bytes per complete pixel, rounded up to 1 (PNG §9.2) -/
def bppSpec (colors bits : Nat) : Nat := max 1 ((colors * bits + 7) / 8)
/-- bytes per row (PNG: scanline of `columns` pixels, packed, rounded up to whole bytes) -/
def rowBytesSpec (columns colors bits : Nat) : Nat := (columns * colors * bits + 7) / 8

end Lopdf.Spec.Png
