import LopdfModel.Spec.GrammarObj
import LopdfModel.Spec.GrammarXref
/-
  Declarative grammar of the file structure (ISO 32000-1 §7.5), classic (table) style, one
  revision: indirect objects, and what it means for a file to DEFINE an object under the number
  its cross-reference table lists.
-/
namespace Lopdf.Grammar
open Lopdf Gen

/-- LF or CR LF after the keyword `stream` (§7.3.8.1: not CR alone) -/
inductive IsStreamEolG : Bytes → Prop where
  | lf : IsStreamEolG [10]
  | crlf : IsStreamEolG [13, 10]

/-- optional end-of-line marker before `endstream` (not counted in `Length`) -/
inductive IsOptEolG : Bytes → Prop where
  | none : IsOptEolG []
  | some (e : Bytes) : IsEol e → IsOptEolG e

/-- dictionary, `stream`, optional blanks, end-of-line marker, data, optional end-of-line marker,
`endstream` -/
def streamSpelling (sp ebs sp5 bl e data e' : Bytes) : Bytes :=
  (60 :: 60 :: sp ++ ebs ++ [62, 62]) ++ (sp5 ++ ([115, 116, 114, 101, 97, 109] ++ (bl ++ (e ++ (data ++ (e' ++
    [101, 110, 100, 115, 116, 114, 101, 97, 109]))))))

/-- **Indirect object** `n g obj … endobj`, spelled from the first digit of the object number:
white space / comments REQUIRED between the numbers and before `obj`, free everywhere else; the
value is a direct object in any spelling, or a stream whose dictionary has a direct `Length`
equal to the number of data bytes (the data are ANY bytes). -/
inductive DerivesIndirect : ObjId → Obj → Bytes → Prop where
  | plain (d n g : Nat) (o : Obj) (d1 sp1 d2 sp2 sp3 bs sp4 : Bytes) :
      DerivesNat n d1 → n ≤ 4294967295 → IsGapG sp1 → DerivesNat g d2 → g ≤ 65535 → IsGapG sp2 →
      DerivesSpace sp3 → DerivesObj d o bs → d ≤ MAX_NESTING → DerivesSpace sp4 →
      (NeedsStop o = true → sp4 ≠ []) →
      DerivesIndirect (n, g) o
        (d1 ++ (sp1 ++ (d2 ++ (sp2 ++ ([111, 98, 106] ++ (sp3 ++ (bs ++ (sp4 ++ [101, 110, 100, 111, 98, 106]))))))))
  | stream (d n g : Nat) (es : List (Bytes × Obj)) (d1 sp1 d2 sp2 sp3 sp ebs sp5 bl e data e' sp6 : Bytes) :
      DerivesNat n d1 → n ≤ 4294967295 → IsGapG sp1 → DerivesNat g d2 → g ≤ 65535 → IsGapG sp2 →
      DerivesSpace sp3 → DerivesSpace sp → DerivesEntries d es ebs → 1 + d ≤ MAX_NESTING →
      DerivesSpace sp5 → (∀ b ∈ bl, (b == 32 || b == 9) = true) → IsStreamEolG e →
      (setEntries [] es).get [76, 101, 110, 103, 116, 104] = some (.int data.length) → IsOptEolG e' →
      DerivesSpace sp6 →
      DerivesIndirect (n, g) (.stream (setEntries [] es) data)
        (d1 ++ (sp1 ++ (d2 ++ (sp2 ++ ([111, 98, 106] ++ (sp3 ++
          (streamSpelling sp ebs sp5 bl e data e' ++ (sp6 ++ [101, 110, 100, 111, 98, 106]))))))))

/-- not an object stream (object streams belong to the cross-reference-stream style) -/
def NotObjStm (o : Obj) : Prop :=
  ∀ (d : Dict) (c : Bytes), o = .stream d c → d.get [84, 121, 112, 101] ≠ some (Obj.name [79, 98, 106, 83, 116, 109])

/-- the file DEFINES object `(k, g) = o` at byte offset `off`: there, after any white space /
comments, stands a spelling of the indirect object -/
def DefinesAt (file : Bytes) (off k g : Nat) (o : Obj) : Prop :=
  off ≤ file.length ∧ ∃ sp ibs rest, file.drop off = sp ++ (ibs ++ rest) ∧ DerivesSpace sp ∧
    DerivesIndirect (k, g) o ibs ∧ NotObjStm o

end Lopdf.Grammar
