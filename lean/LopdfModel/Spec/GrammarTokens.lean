import LopdfModel.Model.Parse
import LopdfModel.Spec.Grammar
/-
  Declarative lexical grammar of ISO 32000-1 §7.2–§7.3, continued (round 1b, builder `grammar`):
  inductive relations enumerating EVERY legal spelling of
    * the white space / comments that may stand between two tokens   (`DerivesSpace`)
    * an unsigned decimal numeral, leading zeros allowed             (`DerivesNat`)
    * an integer object within the i64 range                         (`DerivesInt`)
    * a real object                                                  (`DerivesReal`)
    * the body of a literal string, nesting at most `d` deep         (`DerivesLit`)
  The relations mention only byte classes (`isWhitespace`, `isDigit`, `isOctDigit`), never a
  function of the lexer model.
-/
namespace Lopdf.Grammar
open Lopdf Gen

/-- the three end-of-line markers of §7.2.3 -/
inductive IsEol : Bytes → Prop where
  | cr : IsEol [13]
  | lf : IsEol [10]
  | crlf : IsEol [13, 10]

/-- no CR and no LF in the text (the body of a comment) -/
def NoEolByte (body : Bytes) : Prop := ∀ b ∈ body, (b != 13 && b != 10) = true

/-- **White space between tokens** (§7.2.2–7.2.3): any sequence of the six white-space bytes
(NUL, HT, LF, FF, CR, SP) and of comments `%` … end-of-line. The comment must be terminated
by an end-of-line marker (a comment running into the end of the file is outside the relation:
lopdf's `comment` requires the marker). -/
inductive DerivesSpace : Bytes → Prop where
  | nil : DerivesSpace []
  | ws (b : UInt8) (bs : Bytes) : isWhitespace b = true → DerivesSpace bs → DerivesSpace (b :: bs)
  | comment (body e bs : Bytes) : NoEolByte body → IsEol e → DerivesSpace bs →
      DerivesSpace (37 :: body ++ e ++ bs)

/-- **Unsigned decimal numeral**: one or more digits, most significant first; leading zeros are
legal. `DerivesNat n ds`: the digit string `ds` denotes `n`. -/
inductive DerivesNat : Nat → Bytes → Prop where
  | one (d : UInt8) : isDigit d = true → DerivesNat (d - 48).toNat [d]
  | snoc (n : Nat) (ds : Bytes) (d : UInt8) : DerivesNat n ds → isDigit d = true →
      DerivesNat (n * 10 + (d - 48).toNat) (ds ++ [d])

/-- `i64::MAX` -/
def I64MAX : Nat := 9223372036854775807

/-- **Integer objects** (§7.3.3): optional sign, one or more digits (any number of leading
zeros), value within the range of `i64` (the range of `Object::Integer`). -/
inductive DerivesInt : Int → Bytes → Prop where
  | unsigned (n : Nat) (ds : Bytes) : DerivesNat n ds → n ≤ I64MAX → DerivesInt (Int.ofNat n) ds
  | plus (n : Nat) (ds : Bytes) : DerivesNat n ds → n ≤ I64MAX → DerivesInt (Int.ofNat n) (43 :: ds)
  | minus (n : Nat) (ds : Bytes) : DerivesNat n ds → n ≤ I64MAX + 1 →
      DerivesInt (-(Int.ofNat n)) (45 :: ds)

/-- a (possibly empty) run of decimal digits -/
def AllDigits (ds : Bytes) : Prop := ∀ b ∈ ds, isDigit b = true

/-- the optional sign of a number -/
inductive IsSign : Bytes → Prop where
  | none : IsSign []
  | plus : IsSign [43]
  | minus : IsSign [45]

/-- **Real objects** (§7.3.3): optional sign, digits with ONE decimal point somewhere — `4.`,
`.5`, `-.5`, `+1.50`, `007.250` — at least one digit in total. The value lopdf keeps is the
text (`f32::from_str` is applied to exactly this text), so the relation is unary. -/
inductive DerivesReal : Bytes → Prop where
  | mk (sign d1 d2 : Bytes) : IsSign sign → AllDigits d1 → AllDigits d2 → (d1 ≠ [] ∨ d2 ≠ []) →
      DerivesReal (sign ++ d1 ++ [46] ++ d2)

/-- what follows a short octal escape must not be an octal digit (otherwise the digit would
belong to the escape: §7.3.4.2, "the greedy rule") -/
def NoOctAhead (bs : Bytes) : Prop := ∀ b r, bs = b :: r → isOctDigit b = false

/-- not the start of the two-byte marker's second half -/
def NoLfAhead (bs : Bytes) : Prop := ∀ r, bs ≠ 10 :: r

/-- value of a one-, two-, three-digit octal escape; high-order overflow is ignored
(§7.3.4.2) -/
def oct1 (a : UInt8) : UInt8 := a - 48
def oct2 (a b : UInt8) : UInt8 := (a - 48) * 8 + (b - 48)
def oct3 (a b c : UInt8) : UInt8 :=
  (((a - 48).toNat * 64 + (b - 48).toNat * 8 + (c - 48).toNat) % 256).toUInt8

/-- the characters with a named escape in Table 3, and their values -/
def namedEscape : UInt8 → Option UInt8
  | 110 => some 10   -- \n
  | 114 => some 13   -- \r
  | 116 => some 9    -- \t
  | 98 => some 8     -- \b
  | 102 => some 12   -- \f
  | 40 => some 40    -- \(
  | 41 => some 41    -- \)
  | 92 => some 92    -- \\
  | _ => none

/-- **Body of a literal string** (§7.3.4.2, Table 3), between the outer parentheses.
`DerivesLit d s bs`: the spelling `bs`, whose raw parentheses nest at most `d` deep, denotes the
byte string `s`.
  * `raw`   any byte other than `(`, `)`, `\`, CR stands for itself (this includes a raw LF);
  * `rawCR`/`rawCRLF` a raw CR (not followed by LF) stands for ITSELF and a raw CR LF for CR LF —
            this is lopdf's reading.
            DEVIATION (registered finding F-C02-a, open): ISO 32000-1 §7.3.4.2 says an
            end-of-line marker inside a literal string, however written, is read as one LF
            (every other rule is the ISO rule: a derivation that uses neither of the two is a
            derivation of the ISO value);
  * `named` `\n \r \t \b \f \( \) \\`;
  * `other` a backslash before any other character that is neither an octal digit nor CR/LF is
            ignored: the character stands for itself;
  * `octal1/2/3` `\d`, `\dd`, `\ddd`; the short forms only when no octal digit follows (in the
            spelling, or — at its end — the closing parenthesis follows, which is none);
  * `contLF/contCRLF/contCR` backslash + end-of-line marker denotes nothing (line continuation);
            a lone CR only when no LF follows (otherwise it is the CR LF marker);
  * `nested` a balanced pair of raw parentheses around a spelling that nests `d` deep stands
            for itself, one level deeper. -/
inductive DerivesLit : Nat → Bytes → Bytes → Prop where
  | nil (d : Nat) : DerivesLit d [] []
  | raw (d : Nat) (b : UInt8) (s bs : Bytes) : b ≠ 40 → b ≠ 41 → b ≠ 92 → b ≠ 13 →
      DerivesLit d s bs → DerivesLit d (b :: s) (b :: bs)
  | rawCR (d : Nat) (s bs : Bytes) : NoLfAhead bs → DerivesLit d s bs → DerivesLit d (13 :: s) (13 :: bs)
  | rawCRLF (d : Nat) (s bs : Bytes) : DerivesLit d s bs → DerivesLit d (13 :: 10 :: s) (13 :: 10 :: bs)
  | named (d : Nat) (c v : UInt8) (s bs : Bytes) : namedEscape c = some v →
      DerivesLit d s bs → DerivesLit d (v :: s) (92 :: c :: bs)
  | other (d : Nat) (c : UInt8) (s bs : Bytes) : namedEscape c = none → isOctDigit c = false →
      c ≠ 13 → c ≠ 10 → DerivesLit d s bs → DerivesLit d (c :: s) (92 :: c :: bs)
  | octal3 (d : Nat) (a b c : UInt8) (s bs : Bytes) : isOctDigit a = true → isOctDigit b = true →
      isOctDigit c = true → DerivesLit d s bs → DerivesLit d (oct3 a b c :: s) (92 :: a :: b :: c :: bs)
  | octal2 (d : Nat) (a b : UInt8) (s bs : Bytes) : isOctDigit a = true → isOctDigit b = true →
      NoOctAhead bs → DerivesLit d s bs → DerivesLit d (oct2 a b :: s) (92 :: a :: b :: bs)
  | octal1 (d : Nat) (a : UInt8) (s bs : Bytes) : isOctDigit a = true →
      NoOctAhead bs → DerivesLit d s bs → DerivesLit d (oct1 a :: s) (92 :: a :: bs)
  | contLF (d : Nat) (s bs : Bytes) : DerivesLit d s bs → DerivesLit d s (92 :: 10 :: bs)
  | contCRLF (d : Nat) (s bs : Bytes) : DerivesLit d s bs → DerivesLit d s (92 :: 13 :: 10 :: bs)
  | contCR (d : Nat) (s bs : Bytes) : NoLfAhead bs → DerivesLit d s bs → DerivesLit d s (92 :: 13 :: bs)
  | nested (d : Nat) (inner ibs s bs : Bytes) : DerivesLit d inner ibs → DerivesLit (d + 1) s bs →
      DerivesLit (d + 1) (40 :: inner ++ 41 :: s) (40 :: ibs ++ 41 :: bs)

end Lopdf.Grammar
