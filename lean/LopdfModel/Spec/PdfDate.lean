/-
  The PDF date form of ISO 32000-1 §7.9.4, `D:YYYYMMDDHHmmSSOHH'mm'` (and the `Z` form),
  written out directly as bytes from a tuple of numbers — the reference the model's
  date strings are compared with.
-/
namespace Lopdf.Spec

def D1 (n : Nat) : UInt8 := UInt8.ofNat (48 + n % 10)
def D2 (n : Nat) : List UInt8 := [D1 (n / 10), D1 n]
def D4 (n : Nat) : List UInt8 := [D1 (n / 1000), D1 (n / 100), D1 (n / 10), D1 n]

/-- `D:YYYYMMDDHHmmSS±HH'mm'` -/
def pdfDate (y mo d h mi s : Nat) (neg : Bool) (oh om : Nat) : List UInt8 :=
  [68, 58] ++ D4 y ++ D2 mo ++ D2 d ++ D2 h ++ D2 mi ++ D2 s ++ [if neg then 45 else 43] ++ D2 oh ++ [39] ++ D2 om ++ [39]

/-- `D:YYYYMMDDHHmmSSZ` -/
def pdfDateZ (y mo d h mi s : Nat) : List UInt8 :=
  [68, 58] ++ D4 y ++ D2 mo ++ D2 d ++ D2 h ++ D2 mi ++ D2 s ++ [90]

end Lopdf.Spec
