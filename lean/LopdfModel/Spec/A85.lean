import LopdfModel.Model.Basic
/-
  ASCII base-85 ENCODER as ISO 32000-1 §7.4.3 describes it (independent of the
  decoder model): groups of 4 bytes become 5 digits `!`..`u` of the base-85
  representation of the big-endian 32-bit value, an all-zero group becomes `z`,
  a final partial group of n ∈ {1,2,3} bytes is padded with zero bytes, encoded
  and only its first n+1 digits are written; `~>` ends the data.
-/
namespace Lopdf.Spec.A85
open Lopdf

/-- big-endian value of four bytes -/
def val4 (a b c d : UInt8) : Nat :=
  a.toNat * 16777216 + b.toNat * 65536 + c.toNat * 256 + d.toNat

/-- the base-85 digit character of a digit value -/
def digit (n : Nat) : UInt8 := (n % 85 + 33).toUInt8

/-- the five base-85 digits of a 32-bit value, most significant first -/
def digits5 (v : Nat) : Bytes :=
  [digit (v / 52200625), digit (v / 614125), digit (v / 7225), digit (v / 85), digit v]

def encGroups : Bytes → Bytes
  | a :: b :: c :: d :: rest =>
    (if val4 a b c d = 0 then [122] else digits5 (val4 a b c d)) ++ encGroups rest
  | [a, b, c] => (digits5 (val4 a b c 0)).take 4
  | [a, b] => (digits5 (val4 a b 0 0)).take 3
  | [a] => (digits5 (val4 a 0 0 0)).take 2
  | [] => []

/-- `~>` -/
def EOD : Bytes := [126, 62]

def encode (x : Bytes) : Bytes := encGroups x ++ EOD

end Lopdf.Spec.A85
