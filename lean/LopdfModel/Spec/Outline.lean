import LopdfModel.Model.Outline
/-
  C17 — abstract bookmark forests (independent of the table representation of the code):
  the forest denoted by a sequence of `add_bookmark` calls, "the table represents the forest",
  sizes, and the preorder listing a table of contents is expected to show.
-/
namespace Lopdf

/-- a bookmark with its children, in insertion order -/
inductive BT where
  | node (id : Nat) (title : List Nat) (format : Nat) (color : List Bytes) (page : ObjId) (kids : List BT)
  deriving Repr, Inhabited

mutual
def BT.size : BT → Nat
  | .node _ _ _ _ _ ks => 1 + BT.sizeL ks
def BT.sizeL : List BT → Nat
  | [] => 0
  | t :: ts => t.size + BT.sizeL ts
end

def BT.page : BT → ObjId
  | .node _ _ _ _ p _ => p
def BT.title : BT → List Nat
  | .node _ t _ _ _ _ => t
def BT.kids : BT → List BT
  | .node _ _ _ _ _ ks => ks

/- preorder listing with levels: (level, title, page) -/
mutual
def BT.pre (lvl : Nat) : BT → List (Nat × List Nat × ObjId)
  | .node _ title _ _ page ks => (lvl, title, page) :: BT.preL (lvl + 1) ks
def BT.preL (lvl : Nat) : List BT → List (Nat × List Nat × ObjId)
  | [] => []
  | t :: ts => t.pre lvl ++ BT.preL lvl ts
end

/- attach `new` as the last child of the node with bookmark id `p` -/
mutual
def BT.insertUnder (p : Nat) (new : BT) : BT → BT
  | .node id title f c page ks =>
    if id = p then .node id title f c page (ks ++ [new])
    else .node id title f c page (BT.insertUnderL p new ks)
def BT.insertUnderL (p : Nat) (new : BT) : List BT → List BT
  | [] => []
  | t :: ts => BT.insertUnder p new t :: BT.insertUnderL p new ts
end

def forestStep (st : Nat × List BT) (op : Bm × Option Nat) : Nat × List BT :=
  let id := st.1 + 1
  let n := BT.node id op.1.title op.1.format op.1.color op.1.page []
  match op.2 with
  | none => (id, st.2 ++ [n])
  | some p => (id, BT.insertUnderL p n st.2)

/-- the forest a sequence of `add_bookmark(bookmark, parent)` calls denotes (a bookmark whose
parent id does not exist — or is itself unreachable — is not part of the forest) -/
def forestOfOps (ops : List (Bm × Option Nat)) : List BT := (ops.foldl forestStep (0, [])).2

/- `repL t ids ts`: the bookmark table holds the forest `ts` at the ids `ids` -/
mutual
def repN (t : BmTable) (i : Nat) : BT → Bool
  | .node id title f c page ks =>
    match t.get i with
    | some b =>
      decide (id = i) && decide (b.title = title) && decide (b.format = f) && decide (b.color = c) &&
        decide (b.page = page) && repL t b.children ks
    | none => false
def repL (t : BmTable) : List Nat → List BT → Bool
  | [], [] => true
  | i :: is, n :: ns => repN t i n && repL t is ns
  | _, _ => false
end

end Lopdf
