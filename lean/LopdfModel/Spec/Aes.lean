import LopdfModel.Model.Basic
/-
  Spec — executable AES-128 / AES-256 block cipher (FIPS 197), written from the standard;
  S-box generated from its definition (inverse in GF(2^8) + affine map).  Validated against the
  FIPS 197 appendix vectors by `spec_selftest` and against the `aes` crate on every run.
-/
namespace Lopdf.Spec
open Lopdf

def sbox : Array UInt8 := #[99, 124, 119, 123, 242, 107, 111, 197, 48, 1, 103, 43, 254, 215, 171, 118, 202, 130, 201, 125, 250, 89, 71, 240, 173, 212, 162, 175, 156, 164, 114, 192, 183, 253, 147, 38, 54, 63, 247, 204, 52, 165, 229, 241, 113, 216, 49, 21, 4, 199, 35, 195, 24, 150, 5, 154, 7, 18, 128, 226, 235, 39, 178, 117, 9, 131, 44, 26, 27, 110, 90, 160, 82, 59, 214, 179, 41, 227, 47, 132, 83, 209, 0, 237, 32, 252, 177, 91, 106, 203, 190, 57, 74, 76, 88, 207, 208, 239, 170, 251, 67, 77, 51, 133, 69, 249, 2, 127, 80, 60, 159, 168, 81, 163, 64, 143, 146, 157, 56, 245, 188, 182, 218, 33, 16, 255, 243, 210, 205, 12, 19, 236, 95, 151, 68, 23, 196, 167, 126, 61, 100, 93, 25, 115, 96, 129, 79, 220, 34, 42, 144, 136, 70, 238, 184, 20, 222, 94, 11, 219, 224, 50, 58, 10, 73, 6, 36, 92, 194, 211, 172, 98, 145, 149, 228, 121, 231, 200, 55, 109, 141, 213, 78, 169, 108, 86, 244, 234, 101, 122, 174, 8, 186, 120, 37, 46, 28, 166, 180, 198, 232, 221, 116, 31, 75, 189, 139, 138, 112, 62, 181, 102, 72, 3, 246, 14, 97, 53, 87, 185, 134, 193, 29, 158, 225, 248, 152, 17, 105, 217, 142, 148, 155, 30, 135, 233, 206, 85, 40, 223, 140, 161, 137, 13, 191, 230, 66, 104, 65, 153, 45, 15, 176, 84, 187, 22]
def isbox : Array UInt8 := #[82, 9, 106, 213, 48, 54, 165, 56, 191, 64, 163, 158, 129, 243, 215, 251, 124, 227, 57, 130, 155, 47, 255, 135, 52, 142, 67, 68, 196, 222, 233, 203, 84, 123, 148, 50, 166, 194, 35, 61, 238, 76, 149, 11, 66, 250, 195, 78, 8, 46, 161, 102, 40, 217, 36, 178, 118, 91, 162, 73, 109, 139, 209, 37, 114, 248, 246, 100, 134, 104, 152, 22, 212, 164, 92, 204, 93, 101, 182, 146, 108, 112, 72, 80, 253, 237, 185, 218, 94, 21, 70, 87, 167, 141, 157, 132, 144, 216, 171, 0, 140, 188, 211, 10, 247, 228, 88, 5, 184, 179, 69, 6, 208, 44, 30, 143, 202, 63, 15, 2, 193, 175, 189, 3, 1, 19, 138, 107, 58, 145, 17, 65, 79, 103, 220, 234, 151, 242, 207, 206, 240, 180, 230, 115, 150, 172, 116, 34, 231, 173, 53, 133, 226, 249, 55, 232, 28, 117, 223, 110, 71, 241, 26, 113, 29, 41, 197, 137, 111, 183, 98, 14, 170, 24, 190, 27, 252, 86, 62, 75, 198, 210, 121, 32, 154, 219, 192, 254, 120, 205, 90, 244, 31, 221, 168, 51, 136, 7, 199, 49, 177, 18, 16, 89, 39, 128, 236, 95, 96, 81, 127, 169, 25, 181, 74, 13, 45, 229, 122, 159, 147, 201, 156, 239, 160, 224, 59, 77, 174, 42, 245, 176, 200, 235, 187, 60, 131, 83, 153, 97, 23, 43, 4, 126, 186, 119, 214, 38, 225, 105, 20, 99, 85, 33, 12, 125]

def xtime (a : UInt8) : UInt8 := if a &&& 0x80 != 0 then (a <<< 1) ^^^ 0x1b else a <<< 1
def gmul (a b : UInt8) : UInt8 := Id.run do
  let mut r : UInt8 := 0; let mut x := a; let mut y := b
  for _ in [0:8] do
    if y &&& 1 != 0 then r := r ^^^ x
    x := xtime x; y := y >>> 1
  return r

def mul2 (a : UInt8) : UInt8 := xtime a
def mul3 (a : UInt8) : UInt8 := xtime a ^^^ a
def mul9 (a : UInt8) : UInt8 := xtime (xtime (xtime a)) ^^^ a
def mul11 (a : UInt8) : UInt8 := xtime (xtime (xtime a)) ^^^ xtime a ^^^ a
def mul13 (a : UInt8) : UInt8 := xtime (xtime (xtime a)) ^^^ xtime (xtime a) ^^^ a
def mul14 (a : UInt8) : UInt8 := xtime (xtime (xtime a)) ^^^ xtime (xtime a) ^^^ xtime a

/-- key expansion: `4 * (Nr + 1)` words of 4 bytes, as a flat byte array -/
def expandKey (key : Bytes) : Array UInt8 := Id.run do
  let nk := key.length / 4
  let nr := nk + 6
  let mut w := key.toArray
  let mut rcon : UInt8 := 1
  for i in [nk : 4 * (nr + 1)] do
    let mut t0 := w[4*(i-1)]!; let mut t1 := w[4*(i-1)+1]!; let mut t2 := w[4*(i-1)+2]!; let mut t3 := w[4*(i-1)+3]!
    if i % nk == 0 then
      let u0 := sbox[t1.toNat]! ^^^ rcon; let u1 := sbox[t2.toNat]!; let u2 := sbox[t3.toNat]!; let u3 := sbox[t0.toNat]!
      t0 := u0; t1 := u1; t2 := u2; t3 := u3
      rcon := xtime rcon
    else if nk > 6 && i % nk == 4 then
      t0 := sbox[t0.toNat]!; t1 := sbox[t1.toNat]!; t2 := sbox[t2.toNat]!; t3 := sbox[t3.toNat]!
    w := w.push (w[4*(i-nk)]! ^^^ t0)
    w := w.push (w[4*(i-nk)+1]! ^^^ t1)
    w := w.push (w[4*(i-nk)+2]! ^^^ t2)
    w := w.push (w[4*(i-nk)+3]! ^^^ t3)
  return w

def addRoundKey (s : Array UInt8) (w : Array UInt8) (r : Nat) : Array UInt8 :=
  (Array.range 16).map fun i => s[i]! ^^^ w[16 * r + i]!
/-- state is column-major: byte i = row (i % 4), column (i / 4) -/
def shiftRows (s : Array UInt8) : Array UInt8 :=
  (Array.range 16).map fun i => s[((i / 4 + i % 4) % 4) * 4 + i % 4]!
def invShiftRows (s : Array UInt8) : Array UInt8 :=
  (Array.range 16).map fun i => s[((i / 4 + 4 - i % 4) % 4) * 4 + i % 4]!
def mixColumns (s : Array UInt8) : Array UInt8 :=
  (Array.range 16).map fun i =>
    let c := (i / 4) * 4; let r := i % 4
    mul2 s[c + r]! ^^^ mul3 s[c + (r + 1) % 4]! ^^^ s[c + (r + 2) % 4]! ^^^ s[c + (r + 3) % 4]!
def invMixColumns (s : Array UInt8) : Array UInt8 :=
  (Array.range 16).map fun i =>
    let c := (i / 4) * 4; let r := i % 4
    mul14 s[c + r]! ^^^ mul11 s[c + (r + 1) % 4]! ^^^ mul13 s[c + (r + 2) % 4]! ^^^ mul9 s[c + (r + 3) % 4]!

def sbox2 : Array UInt8 := sbox.map mul2
def sbox3 : Array UInt8 := sbox.map mul3

/-- one full round (SubBytes, ShiftRows, MixColumns, AddRoundKey) computed byte by byte: output byte
`i` = row `i % 4` of column `i / 4` takes row `r'` from column `(i / 4 + r') % 4` of the input -/
def encRound (s w : Array UInt8) (r : Nat) : Array UInt8 :=
  Array.ofFn (n := 16) fun i =>
    let c := i.val / 4; let row := i.val % 4
    let a := s[((c + row) % 4) * 4 + row]!
    let b := s[((c + (row + 1) % 4) % 4) * 4 + (row + 1) % 4]!
    let d := s[((c + (row + 2) % 4) % 4) * 4 + (row + 2) % 4]!
    let e := s[((c + (row + 3) % 4) % 4) * 4 + (row + 3) % 4]!
    sbox2[a.toNat]! ^^^ sbox3[b.toNat]! ^^^ sbox[d.toNat]! ^^^ sbox[e.toNat]! ^^^ w[16 * r + i.val]!

def encLast (s w : Array UInt8) (r : Nat) : Array UInt8 :=
  Array.ofFn (n := 16) fun i =>
    let c := i.val / 4; let row := i.val % 4
    sbox[(s[((c + row) % 4) * 4 + row]!).toNat]! ^^^ w[16 * r + i.val]!

/-- encryption of one block under an expanded key `w` with `nr` rounds -/
def encWith (w : Array UInt8) (nr : Nat) (blk : Bytes) : Bytes :=
  if blk.length ≠ 16 then [] else Id.run do
  let mut s := addRoundKey blk.toArray w 0
  for r in [1:nr] do
    s := encRound s w r
  return (encLast s w nr).toList

def decWith (w : Array UInt8) (nr : Nat) (blk : Bytes) : Bytes :=
  if blk.length ≠ 16 then [] else Id.run do
  let mut s := addRoundKey blk.toArray w nr
  for k in [1:nr] do
    let r := nr - k
    s := invMixColumns (addRoundKey ((invShiftRows s).map fun b => isbox[b.toNat]!) w r)
  s := addRoundKey ((invShiftRows s).map fun b => isbox[b.toNat]!) w 0
  return s.toList

/-- AES block encryption; key of 16 or 32 bytes, block of 16 bytes (anything else: `[]`).
`aesEncBlock key` expands the key once and returns the block function. -/
def aesEncBlock (key : Bytes) : Bytes → Bytes :=
  if key.length ≠ 16 ∧ key.length ≠ 32 then (fun _ => []) else encWith (expandKey key) (key.length / 4 + 6)

def aesDecBlock (key : Bytes) : Bytes → Bytes :=
  if key.length ≠ 16 ∧ key.length ≠ 32 then (fun _ => []) else decWith (expandKey key) (key.length / 4 + 6)

end Lopdf.Spec
