import LopdfModel.Spec.GrammarObj
/-
  Declarative grammar of the content of an (unfiltered) OBJECT STREAM (ISO 32000-1 §7.5.7):
  an index block of `N` pairs `number offset` separated by white space, `First` bytes long, then
  the member objects, each at its offset (relative to `First`).
-/
namespace Lopdf.Grammar
open Lopdf Gen

/-- the white space that separates the integers of the index block: SP, HT, LF, VT, FF, CR
(what Rust's `split_whitespace` skips among ASCII bytes) -/
def AllUws (w : Bytes) : Prop := ∀ b ∈ w, (b == 32 || (9 ≤ b && b ≤ 13)) = true

/-- the integers of the index block, each terminated by non-empty white space except possibly
the last one -/
inductive DerivesToks : List Nat → Bytes → Prop where
  | nil : DerivesToks [] []
  | last (n : Nat) (ds : Bytes) : DerivesNat n ds → n ≤ 4294967295 → DerivesToks [n] ds
  | cons (n : Nat) (ns : List Nat) (ds w bs : Bytes) : DerivesNat n ds → n ≤ 4294967295 → AllUws w → w ≠ [] →
      DerivesToks ns bs → DerivesToks (n :: ns) (ds ++ w ++ bs)

/-- `number offset` pairs flattened -/
def flatPairs : List (Nat × Nat) → List Nat
  | [] => []
  | (a, b) :: r => a :: b :: flatPairs r

/-- the member objects: `DerivesMembers d pos ms bs` — `bs` starts at position `pos` of the member
area and spells the objects of `ms`, each recorded with the position of its first byte; the
objects are separated as tokens are (white space / comments, empty where a delimiter separates) -/
inductive DerivesMembers : Nat → Nat → List (Obj × Nat) → Bytes → Prop where
  | nil (d pos : Nat) : DerivesMembers d pos [] []
  | cons (d pos : Nat) (o : Obj) (ms : List (Obj × Nat)) (b sp bs : Bytes) : DerivesObj d o b → DerivesSpace sp →
      DerivesMembers d (pos + b.length + sp.length) ms bs → (NeedsStop o = true → StopHead (sp ++ bs)) →
      DerivesMembers d pos ((o, pos) :: ms) (b ++ sp ++ bs)

/-- **Content of an object stream**: `members` = (object number, object) in index order;
`first` = length of the index block. The index block may start with white space; the member area
may start with any white space / comments (`pre`). -/
inductive DerivesObjStm : List (Nat × Obj) → Nat → Bytes → Prop where
  | mk (d : Nat) (nums : List Nat) (ms : List (Obj × Nat)) (w0 tb pre mb : Bytes) :
      d ≤ MAX_NESTING → nums.length = ms.length → AllUws w0 → DerivesSpace pre →
      DerivesToks (flatPairs (nums.zip (ms.map (·.2)))) tb → DerivesMembers d pre.length ms mb →
      (∀ n ∈ nums, n ≤ 4294967295) →
      DerivesObjStm (nums.zip (ms.map (·.1))) (w0 ++ tb).length ((w0 ++ tb) ++ (pre ++ mb))

end Lopdf.Grammar
