import LopdfModel.Model.CMap
/-
  C15 — a canonical writer of the bfchar / bfrange / codespacerange sections of a CMap
  (what a producer emits): upper-case hex, one blank between tokens, LF at the end of a
  line. Used to state that the grammar model reads back what was written.
-/
namespace Lopdf.CMapRender
open Lopdf Lopdf.CMap

/-- two upper-case hex digits of a byte -/
def hex2 (b : Nat) : Bytes := [hexDigitU (b / 16).toUInt8, hexDigitU (b % 16).toUInt8]

/-- big-endian bytes of a code of the given length -/
def codeBytes : Nat → Nat → List Nat
  | 0, _ => []
  | n + 1, c => codeBytes n (c / 256) ++ [c % 256]

def renderCode (c len : Nat) : Bytes := 60 :: ((codeBytes len c).flatMap hex2 ++ [62])

def unitHex (u : Nat) : Bytes := hex2 (u / 256) ++ hex2 (u % 256)

def renderUnits (us : List Nat) : Bytes := 60 :: (us.flatMap unitHex ++ [62])

/-- ` <t2> <t3> …` -/
def renderMore : List (List Nat) → Bytes
  | [] => []
  | t :: ts => 32 :: (renderUnits t ++ renderMore ts)

def renderTargets : List (List Nat) → Bytes
  | [] => []
  | [t] => renderUnits t
  | t :: ts => 91 :: (renderUnits t ++ renderMore ts ++ [93])

def renderCharLine (l : (Nat × Nat) × List Nat) : Bytes :=
  renderCode l.1.1 l.1.2 ++ 32 :: (renderUnits l.2 ++ [10])

def renderRangeLine (l : (Nat × Nat × Nat) × List (List Nat)) : Bytes :=
  renderCode l.1.1 l.1.2.2 ++ 32 :: (renderCode l.1.2.1 l.1.2.2 ++ 32 :: (renderTargets l.2 ++ [10]))

def renderCsLine (l : Nat × Nat × Nat) : Bytes :=
  renderCode l.1 l.2.2 ++ 32 :: (renderCode l.2.1 l.2.2 ++ [10])

/-- `<count> begin<kw>\n lines end<kw>\n` ; the count is not interpreted by lopdf -/
def renderSection (s : Section) : Bytes :=
  match s with
  | .csRange ls => strBytes "1 begincodespacerange\n" ++ ls.flatMap renderCsLine ++ strBytes "endcodespacerange\n"
  | .bfChar ls => strBytes "1 beginbfchar\n" ++ ls.flatMap renderCharLine ++ strBytes "endbfchar\n"
  | .bfRange ls => strBytes "1 beginbfrange\n" ++ ls.flatMap renderRangeLine ++ strBytes "endbfrange\n"

def header : Bytes :=
  strBytes "/CIDInit /ProcSet findresource begin\n" ++ (strBytes "12 dict begin\n" ++ (strBytes "begincmap\n" ++
  (strBytes "/CMapName /Adobe-Identity-UCS def\n" ++ strBytes "/CMapType 2 def\n")))
def trailer : Bytes :=
  strBytes "endcmap\n" ++ (strBytes "CMapName currentdict /CMap defineresource pop\n" ++ (strBytes "end\n" ++ strBytes "end\n"))

/-- a complete ToUnicode CMap stream -/
def renderCMap (ss : List Section) : Bytes := header ++ ss.flatMap renderSection ++ trailer

end Lopdf.CMapRender
