import LopdfModel.Model.Basic
/-
  Spec — ISO 32000 standard security handler, transcribed from the algorithm text
  (ISO 32000-1 §7.6.3–7.6.4 Algorithms 1–7, ISO 32000-2 §7.6.4 Algorithms 1.A, 2.A, 2.B, 8–13),
  over abstract primitives `SPrims` (hashes, AES block functions, RC4).  Independent of
  Model/Crypt.lean (the model of lopdf's code): nothing is imported from it.
-/
namespace Lopdf.Spec.Sec
open Lopdf

structure SPrims where
  md5 : Bytes → Bytes
  sha256 : Bytes → Bytes
  sha384 : Bytes → Bytes
  sha512 : Bytes → Bytes
  /-- AES block functions, `key → block → block` -/
  aesEnc : Bytes → Bytes → Bytes
  aesDec : Bytes → Bytes → Bytes
  /-- RC4 `key → data → data` -/
  rc4 : Bytes → Bytes → Bytes

def xorBlock (a b : Bytes) : Bytes := List.zipWith (fun (x y : UInt8) => x ^^^ y) a b

/-- CBC without padding over `n` 16-byte blocks -/
def cbcE (E : Bytes → Bytes) : Nat → Bytes → Bytes → Bytes
  | 0, _, _ => []
  | n + 1, iv, d => let c := E (xorBlock (d.take 16) iv); c ++ cbcE E n c (d.drop 16)
def cbcD (D : Bytes → Bytes) : Nat → Bytes → Bytes → Bytes
  | 0, _, _ => []
  | n + 1, iv, d => let c := d.take 16; xorBlock (D c) iv ++ cbcD D n c (d.drop 16)

def repeatBytes : Nat → Bytes → Bytes
  | 0, _ => []
  | n + 1, b => b ++ repeatBytes n b

/-- Algorithm 2.B, rounds `round, round+1, …`.  The loop stops at the latest in round 287
(the last byte of E is at most 255 = 287 − 32), so `left` = 287 − round + 1 is a real bound,
not fuel: `alg2B` starts with 287 rounds available. -/
def alg2BLoop (S : SPrims) (pw udata : Bytes) : Nat → Nat → Bytes → Bytes
  | 0, _, k => k
  | left + 1, round, k =>
    let k1 := repeatBytes 64 (pw ++ k ++ udata)
    let e := cbcE (S.aesEnc (k.take 16)) (k1.length / 16) ((k.drop 16).take 16) k1
    let m := ((e.take 16).foldl (fun (acc : Nat) (b : UInt8) => acc * 256 + b.toNat) 0) % 3   -- big-endian integer mod 3
    let k' := if m = 0 then S.sha256 e else if m = 1 then S.sha384 e else S.sha512 e
    if round ≥ 64 && (e.getLast?.getD 0).toNat ≤ round - 32 then k'
    else alg2BLoop S pw udata left (round + 1) k'

/-- Algorithm 2.B: input = password ‖ salt ‖ (48-byte U string when handling the owner password) -/
def alg2B (S : SPrims) (pw salt udata : Bytes) : Bytes :=
  (alg2BLoop S pw udata 287 1 (S.sha256 (pw ++ salt ++ udata))).take 32

end Lopdf.Spec.Sec
