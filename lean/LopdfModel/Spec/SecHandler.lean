import LopdfModel.Model.Basic
/-
  Spec — ISO 32000 standard security handler, transcribed from the algorithm text
  (ISO 32000-1 §7.6.3–7.6.4 Algorithms 1–7, ISO 32000-2 §7.6.4 Algorithms 1.A, 2.A, 2.B, 8–13),
  over abstract primitives `SPrims` (hashes, AES block functions, RC4).  Independent of
  Model/Crypt.lean (the model of lopdf's code): nothing is imported from it.
-/
namespace Lopdf.Spec.Sec
open Lopdf

structure SPrims where
  md5 : Bytes → Bytes
  sha256 : Bytes → Bytes
  sha384 : Bytes → Bytes
  sha512 : Bytes → Bytes
  /-- AES block functions, `key → block → block` -/
  aesEnc : Bytes → Bytes → Bytes
  aesDec : Bytes → Bytes → Bytes
  /-- RC4 `key → data → data` -/
  rc4 : Bytes → Bytes → Bytes

def xorBlock (a b : Bytes) : Bytes := List.zipWith (fun (x y : UInt8) => x ^^^ y) a b

/-- CBC without padding over `n` 16-byte blocks -/
def cbcE (E : Bytes → Bytes) : Nat → Bytes → Bytes → Bytes
  | 0, _, _ => []
  | n + 1, iv, d => let c := E (xorBlock (d.take 16) iv); c ++ cbcE E n c (d.drop 16)
def cbcD (D : Bytes → Bytes) : Nat → Bytes → Bytes → Bytes
  | 0, _, _ => []
  | n + 1, iv, d => let c := d.take 16; xorBlock (D c) iv ++ cbcD D n c (d.drop 16)

def repeatBytes : Nat → Bytes → Bytes
  | 0, _ => []
  | n + 1, b => b ++ repeatBytes n b

/-- Algorithm 2.B, rounds `round, round+1, …`.  The loop stops at the latest in round 287
(the last byte of E is at most 255 = 287 − 32), so `left` = 287 − round + 1 is a real bound,
not fuel: `alg2B` starts with 287 rounds available. -/
def alg2BLoop (S : SPrims) (pw udata : Bytes) : Nat → Nat → Bytes → Bytes
  | 0, _, k => k
  | left + 1, round, k =>
    let k1 := repeatBytes 64 (pw ++ k ++ udata)
    let e := cbcE (S.aesEnc (k.take 16)) (k1.length / 16) ((k.drop 16).take 16) k1
    let m := ((e.take 16).foldl (fun (acc : Nat) (b : UInt8) => acc * 256 + b.toNat) 0) % 3   -- big-endian integer mod 3
    let k' := if m = 0 then S.sha256 e else if m = 1 then S.sha384 e else S.sha512 e
    if round ≥ 64 && (e.getLast?.getD 0).toNat ≤ round - 32 then k'
    else alg2BLoop S pw udata left (round + 1) k'

/-- Algorithm 2.B: input = password ‖ salt ‖ (48-byte U string when handling the owner password) -/
def alg2B (S : SPrims) (pw salt udata : Bytes) : Bytes :=
  (alg2BLoop S pw udata 287 1 (S.sha256 (pw ++ salt ++ udata))).take 32


/-! ## ISO 32000-1 Algorithms 1–7 (revisions 2–4) -/

/-- Algorithm 2 step (a): the padding string -/
def PAD : Bytes := [0x28, 0xBF, 0x4E, 0x5E, 0x4E, 0x75, 0x8A, 0x41, 0x64, 0x00, 0x4E, 0x56, 0xFF, 0xFA, 0x01, 0x08,
  0x2E, 0x2E, 0x00, 0xB6, 0xD0, 0x68, 0x3E, 0x80, 0x2F, 0x0C, 0xA9, 0xFE, 0x64, 0x53, 0x69, 0x7A]

/-- "pad or truncate the password string to exactly 32 bytes" -/
def padPassword (pw : Bytes) : Bytes := (pw ++ PAD).take 32

/-- `k` low-order bytes of `n`, low-order byte first -/
def le : Nat → Nat → Bytes
  | 0, _ => []
  | k + 1, n => (n % 256).toUInt8 :: le k (n / 256)

def iterate {α} (f : α → α) : Nat → α → α
  | 0, x => x
  | n + 1, x => iterate f n (f x)

/-- parameters of a revision 2–4 encryption dictionary. `p` = the P integer as an unsigned 32-bit
number, `n` = key length in bytes (5 for R2), `fileId` = first element of the ID array. -/
structure Params where
  r : Nat
  n : Nat
  p : Nat
  fileId : Bytes
  encryptMetadata : Bool

/-- Algorithm 2: computing a file encryption key -/
def alg2 (S : SPrims) (q : Params) (o pw : Bytes) : Bytes :=
  let h0 := S.md5 (padPassword pw ++ o ++ le 4 q.p ++ q.fileId ++
    (if q.r ≥ 4 ∧ !q.encryptMetadata then [0xFF, 0xFF, 0xFF, 0xFF] else []))
  let h := if q.r ≥ 3 then iterate (fun h => S.md5 (h.take q.n)) 50 h0 else h0
  h.take q.n

def xorWith (key : Bytes) (i : Nat) : Bytes := key.map fun (b : UInt8) => b ^^^ i.toUInt8

/-- RC4 under keys `key ⊕ i` for the counters in `is`, in that order -/
def rc4Seq (S : SPrims) (key : Bytes) : List Nat → Bytes → Bytes
  | [], d => d
  | i :: rest, d => rc4Seq S key rest (S.rc4 (xorWith key i) d)

/-- Algorithm 3 steps (a)–(d): the RC4 key from the owner password -/
def ownerKey (S : SPrims) (q : Params) (ownerPw : Bytes) : Bytes :=
  let h0 := S.md5 (padPassword ownerPw)
  (if q.r ≥ 3 then iterate S.md5 50 h0 else h0).take q.n

/-- Algorithm 3: the O value. `ownerPw = none`: "if there is no owner password, use the user password" -/
def alg3 (S : SPrims) (q : Params) (ownerPw : Option Bytes) (userPw : Bytes) : Bytes :=
  let k := ownerKey S q (ownerPw.getD userPw)
  let x := S.rc4 k (padPassword userPw)
  if q.r ≥ 3 then rc4Seq S k (List.range' 1 19) x else x

/-- Algorithm 4 (R2): the U value -/
def alg4 (S : SPrims) (q : Params) (o userPw : Bytes) : Bytes := S.rc4 (alg2 S q o userPw) PAD

/-- Algorithm 5 (R3, R4): the first 16 bytes of the U value (16 arbitrary bytes follow) -/
def alg5 (S : SPrims) (q : Params) (o userPw : Bytes) : Bytes :=
  let k := alg2 S q o userPw
  rc4Seq S k (List.range' 1 19) (S.rc4 k (S.md5 (PAD ++ q.fileId)))

/-- Algorithm 6: authenticating the user password; `some key` when accepted -/
def alg6 (S : SPrims) (q : Params) (o u pw : Bytes) : Option Bytes :=
  if q.r = 2 then (if alg4 S q o pw = u then some (alg2 S q o pw) else none)
  else (if alg5 S q o pw = u.take 16 then some (alg2 S q o pw) else none)

/-- Algorithm 7 step (a)–(b): the user password an owner password decrypts out of O -/
def alg7User (S : SPrims) (q : Params) (o ownerPw : Bytes) : Bytes :=
  let k := ownerKey S q ownerPw
  if q.r = 2 then S.rc4 k o else rc4Seq S k ((List.range' 0 20).reverse) o

/-- Algorithm 7: authenticating the owner password; `some key` when accepted -/
def alg7 (S : SPrims) (q : Params) (o u ownerPw : Bytes) : Option Bytes :=
  alg6 S q o u (alg7User S q o ownerPw)

/-- Algorithm 1: per-object key (RC4) and, with the `sAlT` suffix, Algorithm 1 for AESV2 -/
def objectKey (S : SPrims) (fileKey : Bytes) (num gen : Nat) (aes : Bool) : Bytes :=
  (S.md5 (fileKey ++ le 3 num ++ le 2 gen ++ (if aes then [0x73, 0x41, 0x6C, 0x54] else []))).take (min (fileKey.length + 5) 16)

/-- PKCS#5 padding as quoted in 7.6.2: 16 − (M mod 16) bytes of that value -/
def pad16 (d : Bytes) : Bytes := let n := 16 - d.length % 16; d ++ List.replicate n n.toUInt8

/-- AES-CBC encryption of string / stream data: IV ‖ CBC(pad(data)) (Algorithm 1 step d / 1.A) -/
def aesData (S : SPrims) (key iv d : Bytes) : Bytes :=
  let p := pad16 d
  iv ++ cbcE (S.aesEnc key) (p.length / 16) iv p

/-! ## ISO 32000-2 Algorithms 2.A, 8–13 (revision 6; revision 5 = the same with SHA-256 for 2.B) -/

def hashR (S : SPrims) (r : Nat) (pw salt udata : Bytes) : Bytes :=
  if r = 5 then S.sha256 (pw ++ salt ++ udata) else alg2B S pw salt udata

def trunc (pw : Bytes) : Bytes := pw.take 127
def zeroIV : Bytes := List.replicate 16 0

/-- Algorithm 8: U and UE from the (prepared, truncated) password, the file key and 16 salt bytes -/
def alg8 (S : SPrims) (r : Nat) (pw fileKey salts : Bytes) : Bytes × Bytes :=
  let vs := salts.take 8; let ks := (salts.drop 8).take 8
  (hashR S r (trunc pw) vs [] ++ vs ++ ks, cbcE (S.aesEnc (hashR S r (trunc pw) ks [])) 2 zeroIV fileKey)

/-- Algorithm 9: O and OE (uses the 48-byte U) -/
def alg9 (S : SPrims) (r : Nat) (pw fileKey salts u : Bytes) : Bytes × Bytes :=
  let vs := salts.take 8; let ks := (salts.drop 8).take 8
  (hashR S r (trunc pw) vs u ++ vs ++ ks, cbcE (S.aesEnc (hashR S r (trunc pw) ks u)) 2 zeroIV fileKey)

/-- Algorithm 10: Perms = AES-256-ECB(file key, P ‖ FFFFFFFF ‖ T/F ‖ "adb" ‖ 4 random bytes) -/
def permsBlock (p : Nat) (encryptMetadata : Bool) (rnd : Bytes) : Bytes :=
  le 4 p ++ [0xFF, 0xFF, 0xFF, 0xFF] ++ [if encryptMetadata then 0x54 else 0x46] ++ [0x61, 0x64, 0x62] ++ rnd.take 4
def alg10 (S : SPrims) (p : Nat) (encryptMetadata : Bool) (fileKey rnd : Bytes) : Bytes :=
  S.aesEnc fileKey (permsBlock p encryptMetadata rnd)

/-- Algorithm 13: validating Perms -/
def alg13 (S : SPrims) (p : Nat) (fileKey perms : Bytes) : Bool :=
  let b := S.aesDec fileKey perms
  (b.drop 9).take 3 == [0x61, 0x64, 0x62] && b.take 4 == le 4 p

/-- Algorithm 2.A (with 11, 12): the file key from a password; owner test first -/
def alg2A (S : SPrims) (r : Nat) (o u oe ue pw : Bytes) : Option Bytes :=
  let pw := trunc pw
  if hashR S r pw ((o.drop 32).take 8) (u.take 48) = o.take 32 then
    some (cbcD (S.aesDec (hashR S r pw ((o.drop 40).take 8) (u.take 48))) 2 zeroIV oe)
  else if hashR S r pw ((u.drop 32).take 8) [] = u.take 32 then
    some (cbcD (S.aesDec (hashR S r pw ((u.drop 40).take 8) [])) 2 zeroIV ue)
  else none

end Lopdf.Spec.Sec
