import LopdfModel.Model.CMapParse
/-
  C15 — declarative grammar of the TEXT of a ToUnicode CMap as lopdf's `cmap_parser` accepts it:
  every freedom of white space, comments, hexadecimal case, counts, section order and metadata
  that the parser tolerates is a parameter of the relations below; the frame it insists on is
  spelled out literally (see `DerivesCMapText`).
-/
namespace Lopdf.CMapText
open Lopdf Lopdf.CMap

/-- blanks: SP and HT (`space0`) -/
def Blank0 (w : Bytes) : Prop := ∀ b ∈ w, b = 32 ∨ b = 9
/-- at least one blank (`space1`) -/
def Blank1 (w : Bytes) : Prop := Blank0 w ∧ w ≠ []

/-- `multispace`: blanks, end-of-line bytes and comments `%…` up to (and including) an
end-of-line byte -/
inductive MS : Bytes → Prop where
  | nil : MS []
  | ws (b : UInt8) (bs : Bytes) : (b = 32 ∨ b = 9 ∨ b = 10 ∨ b = 13) → MS bs → MS (b :: bs)
  | comment (body : Bytes) (e : UInt8) (bs : Bytes) : (∀ b ∈ body, b ≠ 10 ∧ b ≠ 13) → (e = 10 ∨ e = 13) →
      MS bs → MS (37 :: body ++ e :: bs)
/-- non-empty `multispace` (`multispace1`) -/
def MS1 (w : Bytes) : Prop := MS w ∧ w ≠ []

/-- bytes written as pairs of hexadecimal digits of either case, no white space inside -/
inductive DHexBytes : List Nat → Bytes → Prop where
  | nil : DHexBytes [] []
  | cons (a b : UInt8) (vs : List Nat) (bs : Bytes) : isHexDigit a = true → isHexDigit b = true → DHexBytes vs bs →
      DHexBytes (((hexVal a).toNat * 16 + (hexVal b).toNat) :: vs) (a :: b :: bs)

/-- **source code** `<hh…>`: 1 to 4 bytes; value and length -/
inductive DSrc : Nat × Nat → Bytes → Prop where
  | mk (vs : List Nat) (bs : Bytes) : DHexBytes vs bs → 1 ≤ vs.length → vs.length ≤ 4 →
      DSrc (vs.foldl (fun acc b => acc * 256 + b) 0, vs.length) (60 :: bs ++ [62])

/-- UTF-16 units of a target: four hexadecimal digits each, any `multispace` AFTER each unit -/
inductive DUnits : List Nat → Bytes → Prop where
  | nil : DUnits [] []
  | cons (h1 h2 : Nat) (hb1 hb2 w : Bytes) (us : List Nat) (bs : Bytes) : DHexBytes [h1] hb1 → DHexBytes [h2] hb2 →
      MS w → DUnits us bs → DUnits ((h1 * 256 + h2) :: us) (hb1 ++ hb2 ++ w ++ bs)

/-- **target string** `<hhhh hhhh …>`: 1 to 256 units -/
inductive DTarget : List Nat → Bytes → Prop where
  | mk (us : List Nat) (bs : Bytes) : DUnits us bs → 1 ≤ us.length → us.length ≤ 256 → DTarget us (60 :: bs ++ [62])

/-- **code range pair**: two source codes of the SAME length, optional blanks between -/
inductive DPair : Nat × Nat × Nat → Bytes → Prop where
  | mk (lo hi len : Nat) (s1 w s2 : Bytes) : DSrc (lo, len) s1 → Blank0 w → DSrc (hi, len) s2 →
      DPair (lo, hi, len) (s1 ++ w ++ s2)

/-- further targets of an array, each preceded by at least one blank -/
inductive DMoreTargets : List (List Nat) → Bytes → Prop where
  | nil : DMoreTargets [] []
  | cons (t : List Nat) (ts : List (List Nat)) (w tb bs : Bytes) : Blank1 w → DTarget t tb → DMoreTargets ts bs →
      DMoreTargets (t :: ts) (w ++ tb ++ bs)

/-- targets of a `bfrange` line: one target string, or an array `[ t1 t2 … ]` -/
inductive DTargets : List (List Nat) → Bytes → Prop where
  | single (t : List Nat) (tb : Bytes) : DTarget t tb → DTargets [t] tb
  | array (t : List Nat) (ts : List (List Nat)) (w1 tb more w2 : Bytes) : Blank0 w1 → DTarget t tb →
      DMoreTargets ts more → Blank0 w2 → DTargets (t :: ts) (91 :: w1 ++ tb ++ more ++ w2 ++ [93])

/-- the three kinds of lines; each ends with non-empty `multispace` (which also absorbs the
indentation of the next line) -/
inductive DCharLine : (Nat × Nat) × List Nat → Bytes → Prop where
  | mk (c : Nat × Nat) (t : List Nat) (s w tb m : Bytes) : DSrc c s → Blank0 w → DTarget t tb → MS1 m →
      DCharLine (c, t) (s ++ w ++ tb ++ m)
inductive DRangeLine : (Nat × Nat × Nat) × List (List Nat) → Bytes → Prop where
  | mk (p : Nat × Nat × Nat) (ts : List (List Nat)) (pb w tb m : Bytes) : DPair p pb → Blank0 w → DTargets ts tb →
      MS1 m → DRangeLine (p, ts) (pb ++ w ++ tb ++ m)
inductive DCsLine : Nat × Nat × Nat → Bytes → Prop where
  | mk (p : Nat × Nat × Nat) (pb m : Bytes) : DPair p pb → MS1 m → DCsLine p (pb ++ m)

/-- concatenation of the spellings of a list of items -/
inductive DList {α : Type} (D : α → Bytes → Prop) : List α → Bytes → Prop where
  | nil : DList D [] []
  | cons (a : α) (as : List α) (b bs : Bytes) : D a b → DList D as bs → DList D (a :: as) (b ++ bs)

def AllDigitsC (ds : Bytes) : Prop := (∀ b ∈ ds, isDigit b = true) ∧ ds ≠ []

/-- **a section**: any count (not interpreted by lopdf), at least one blank, the keyword,
non-empty `multispace`, ONE OR MORE lines, the end keyword, non-empty `multispace` -/
inductive DSection : Section → Bytes → Prop where
  | cs (ls : List (Nat × Nat × Nat)) (n w m1 lb m2 : Bytes) : AllDigitsC n → Blank1 w → MS1 m1 → ls ≠ [] →
      DList DCsLine ls lb → MS1 m2 →
      DSection (.csRange ls) (n ++ w ++ strBytes "begincodespacerange" ++ m1 ++ lb ++ strBytes "endcodespacerange" ++ m2)
  | bfChar (ls : List ((Nat × Nat) × List Nat)) (n w m1 lb m2 : Bytes) : AllDigitsC n → Blank1 w → MS1 m1 → ls ≠ [] →
      DList DCharLine ls lb → MS1 m2 →
      DSection (.bfChar ls) (n ++ w ++ strBytes "beginbfchar" ++ m1 ++ lb ++ strBytes "endbfchar" ++ m2)
  | bfRange (ls : List ((Nat × Nat × Nat) × List (List Nat))) (n w m1 lb m2 : Bytes) : AllDigitsC n → Blank1 w →
      MS1 m1 → ls ≠ [] → DList DRangeLine ls lb → MS1 m2 →
      DSection (.bfRange ls) (n ++ w ++ strBytes "beginbfrange" ++ m1 ++ lb ++ strBytes "endbfrange" ++ m2)

/-- a name body without `#` escapes -/
def PlainName (bs : Bytes) : Prop := ∀ b ∈ bs, isRegular b = true ∧ b ≠ 35

/-- PDF white space (the six white-space bytes) and comments, as lopdf's object parser skips it
inside the `/CIDSystemInfo` dictionary -/
inductive PS : Bytes → Prop where
  | nil : PS []
  | ws (b : UInt8) (bs : Bytes) : (b = 32 ∨ b = 9 ∨ b = 10 ∨ b = 13 ∨ b = 0 ∨ b = 12) → PS bs → PS (b :: bs)
  | comment (body : Bytes) (e : UInt8) (bs : Bytes) : (∀ b ∈ body, b ≠ 10 ∧ b ≠ 13) → (e = 10 ∨ e = 13) →
      PS bs → PS (37 :: body ++ e :: bs)

/-- a value of the `/CIDSystemInfo` dictionary: a literal string without escapes, parentheses
or end-of-line bytes; an unsigned integer; a name -/
inductive DSimpleValue : Bytes → Prop where
  | lit (cs : Bytes) : (∀ c ∈ cs, c ≠ 40 ∧ c ≠ 41 ∧ c ≠ 92 ∧ c ≠ 13 ∧ c ≠ 10) → DSimpleValue (40 :: cs ++ [41])
  | int (n : Bytes) : AllDigitsC n → DSimpleValue n
  | name (nm : Bytes) : PlainName nm → DSimpleValue (47 :: nm)

/-- an entry `/Key value`: PDF white space between them (may be empty in front of `(` or `/`)
and after the value -/
inductive DDictEntry : Bytes → Prop where
  | mk (nm sp1 v sp2 : Bytes) : PlainName nm → PS sp1 → DSimpleValue v →
      (sp1 ≠ [] ∨ (∃ t, v = 40 :: t) ∨ (∃ t, v = 47 :: t)) → PS sp2 → DDictEntry (47 :: nm ++ sp1 ++ v ++ sp2)

/-- **a metadata item** (`def` line): `/CIDSystemInfo << … >> def`, `/CMapName /name def`,
`/CMapType n def` -/
inductive DMeta : Bytes → Prop where
  | cid (m0 sp0 ents m1 m2 : Bytes) (el : List Unit) : MS m0 → PS sp0 → DList (fun (_ : Unit) => DDictEntry) el ents →
      MS1 m1 → MS1 m2 →
      DMeta (strBytes "/CIDSystemInfo" ++ m0 ++ [60, 60] ++ sp0 ++ ents ++ [62, 62] ++ m1 ++ strBytes "def" ++ m2)
  | name (w0 nm w1 m : Bytes) : Blank0 w0 → PlainName nm → Blank1 w1 → MS1 m →
      DMeta (strBytes "/CMapName" ++ w0 ++ 47 :: nm ++ w1 ++ strBytes "def" ++ m)
  | type (w0 n w1 m : Bytes) : Blank1 w0 → AllDigitsC n → Blank1 w1 → MS1 m →
      DMeta (strBytes "/CMapType" ++ w0 ++ n ++ w1 ++ strBytes "def" ++ m)

/-- **The text of a ToUnicode CMap as `cmap_parser::parse` accepts it.**
The FRAME is fixed: `/CIDInit /ProcSet findresource begin`, `<n> dict begin`, `begincmap`,
1 to 4 metadata items (`/CIDSystemInfo` with a `<< >>` dictionary of simple values, `/CMapName`,
`/CMapType`), one or more sections (any kinds, any order), `endcmap`,
`CMapName currentdict /CMap defineresource pop`, `end`, `end`; the separators between the words
of the frame are free within the class the parser uses at that place (blank / multispace).
Anything may follow the final `end`. -/
inductive DerivesCMapText : List Section → Bytes → Prop where
  | mk (ss : List Section) (m0 b1 ps b2 b3 m1 n b4 b5 m2 m3 metas secs m4 b6 b7 b8 b9 m5 m6 trail : Bytes)
      (metaL : List Unit) :
      MS m0 → Blank0 b1 → (ps = strBytes "/ProcSet" ∨ ps = strBytes "/Procset") → Blank1 b2 → Blank1 b3 → MS1 m1 →
      AllDigitsC n → Blank1 b4 → Blank1 b5 → MS1 m2 → MS1 m3 →
      DList (fun (_ : Unit) => DMeta) metaL metas → 1 ≤ metaL.length → metaL.length ≤ 4 →
      ss ≠ [] → DList DSection ss secs →
      MS1 m4 → Blank1 b6 → Blank1 b7 → Blank1 b8 → Blank1 b9 → MS1 m5 → MS1 m6 →
      DerivesCMapText ss
        (m0 ++ strBytes "/CIDInit" ++ b1 ++ ps ++ b2 ++ strBytes "findresource" ++ b3 ++ strBytes "begin" ++ m1 ++
         n ++ b4 ++ strBytes "dict" ++ b5 ++ strBytes "begin" ++ m2 ++
         strBytes "begincmap" ++ m3 ++ metas ++ secs ++
         strBytes "endcmap" ++ m4 ++ strBytes "CMapName" ++ b6 ++ strBytes "currentdict" ++ b7 ++ strBytes "/CMap" ++ b8 ++
         strBytes "defineresource" ++ b9 ++ strBytes "pop" ++ m5 ++
         strBytes "end" ++ m6 ++ strBytes "end" ++ trail)

end Lopdf.CMapText
