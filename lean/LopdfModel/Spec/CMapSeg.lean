/-
  C15 — declarative specification of how a byte string shown with a ToUnicode font is cut into
  codes, for ARBITRARY bytes (mapped or not, prefix-free or not).

  At the current position the code lengths 1, 2, 3, 4 are tried IN THIS ORDER (as far as bytes are
  left); the first length whose big-endian code is mapped wins: its target is emitted and decoding
  restarts after it. If none of the (at most four) prefixes is mapped, ONE U+FFFD is emitted for the
  up to four bytes together and decoding restarts after them. This is "shortest match first", not
  "longest match", and an unmapped byte is never skipped on its own: it drags up to three followers
  with it (see the examples in Thm/C15Total.lean).
-/
namespace Lopdf.CMapSpec

/-- big-endian value of a code given as its bytes -/
def codeOfBytes (bs : List Nat) : Nat := bs.foldl (fun acc b => acc * 256 + b) 0

/-- first `k ∈ {j, j+1, …}` (at most `tries` of them, `k < |bs|`) such that the first `k+1` bytes are a
mapped code; with its target. A position beyond the end of the string stops the search. -/
def firstMapped (f : Nat → Nat → Option (List Nat)) (bs : List Nat) : Nat → Nat → Option (Nat × List Nat)
  | _, 0 => none
  | j, tries + 1 =>
    if j < bs.length then
      match f (codeOfBytes (bs.take (j + 1))) (j + 1) with
      | some v => some (j, v)
      | none => firstMapped f bs (j + 1) tries
    else none

/-- **the UTF-16 units a byte string denotes** under the lookup `f code len` -/
def segSpec (f : Nat → Nat → Option (List Nat)) (bs : List Nat) : List Nat :=
  if h : bs = [] then []
  else
    match firstMapped f bs 0 4 with
    | some (k, v) => v ++ segSpec f (bs.drop (k + 1))
    | none => 0xFFFD :: segSpec f (bs.drop 4)
termination_by bs.length
decreasing_by
  all_goals
    simp only [List.length_drop]
    have : 0 < bs.length := by cases bs with | nil => exact absurd rfl h | cons _ _ => simp
    omega

/-- "longest match" reading, for comparison only: the longest mapped prefix of up to four bytes wins -/
def lastMapped (f : Nat → Nat → Option (List Nat)) (bs : List Nat) : Nat → Option (Nat × List Nat)
  | 0 => none
  | k + 1 =>
    if k < bs.length then
      match f (codeOfBytes (bs.take (k + 1))) (k + 1) with
      | some v => some (k, v)
      | none => lastMapped f bs k
    else lastMapped f bs k

end Lopdf.CMapSpec
