/-
  C15 — specification side: what a ToUnicode CMap *defines*, independent of how lopdf
  stores it.  A CMap is the list of its definitions in file order; a code (with its byte
  length) maps to the target given by the LAST definition that covers it; a range adds
  the offset within the range to the last UTF-16 unit of its target; an array target is
  indexed by that offset.  UTF-16 → scalar values is specified separately.
-/
namespace Lopdf.CMapSpec

/-- one line of a `bfchar` / `bfrange` section -/
inductive Def where
  | char (code len : Nat) (dst : List Nat)
  | range (lo hi len : Nat) (dsts : List (List Nat))
  deriving Repr, DecidableEq

namespace Def
def lo : Def → Nat
  | char c _ _ => c
  | range l _ _ _ => l
def hi : Def → Nat
  | char c _ _ => c
  | range _ h _ _ => h
def len : Def → Nat
  | char _ l _ => l
  | range _ _ l _ => l

def covers (d : Def) (code len : Nat) : Bool :=
  decide (d.len = len) && decide (d.lo ≤ code) && decide (code ≤ d.hi)

/-- the target the definition gives to a code it covers -/
def target (d : Def) (code : Nat) : Option (List Nat) :=
  match d with
  | char _ _ dst => some dst
  | range lo _ _ [t] =>
    match t.getLast? with
    | none => none
    | some last => some (t.dropLast ++ [last + (code - lo)])
  | range lo _ _ dsts => dsts[code - lo]?

/-- single-unit target (bfchar `<c> <uuuu>`, bfrange `<a> <b> <uuuu>`) -/
def single : Def → Bool
  | char _ _ [_] => true
  | range _ _ _ [[_]] => true
  | _ => false

/-- Well-formed definition: code length 1..4, codes fit the length, `lo ≤ hi`, UTF-16
units are 16-bit, targets are non-empty, an incrementing target stays inside its last
unit, an array target has one entry per code of the range. -/
def wf : Def → Prop
  | char code len dst =>
    1 ≤ len ∧ len ≤ 4 ∧ code < 256 ^ len ∧ dst ≠ [] ∧ ∀ u ∈ dst, u < 65536
  | range lo hi len dsts =>
    1 ≤ len ∧ len ≤ 4 ∧ lo ≤ hi ∧ hi < 256 ^ len ∧ dsts ≠ [] ∧
    (∀ t ∈ dsts, t ≠ [] ∧ ∀ u ∈ t, u < 65536) ∧
    (match dsts with
     | [t] => ∀ last, t.getLast? = some last → last + (hi - lo) < 65536
     | _ => dsts.length = hi - lo + 1)
end Def

/-- last definition covering the code, scanning in file order with the current answer -/
def lastCoveringFrom (acc : Option Def) : List Def → Nat → Nat → Option Def
  | [], _, _ => acc
  | d :: ds, c, l => lastCoveringFrom (if d.covers c l then some d else acc) ds c l

def lastCovering (ds : List Def) (code len : Nat) : Option Def := lastCoveringFrom none ds code len

/-- **what the CMap defines** for a code of a given byte length -/
def defines (ds : List Def) (code len : Nat) : Option (List Nat) :=
  (lastCovering ds code len).bind (·.target code)

/-! UTF-16 -/

def isScalar (c : Nat) : Prop := c < 0xD800 ∨ (0xE000 ≤ c ∧ c < 0x110000)

/-- reference UTF-16 encoder of one scalar value -/
def encodeScalar (c : Nat) : List Nat :=
  if c < 0x10000 then [c]
  else [0xD800 + (c - 0x10000) / 0x400, 0xDC00 + (c - 0x10000) % 0x400]

def encodeUtf16 (cs : List Nat) : List Nat := cs.flatMap encodeScalar

end Lopdf.CMapSpec
