/-
  LZW DECODER as ISO 32000-1 §7.4.4 (and the TIFF 6.0 specification it refers to) describe it — an executable
  reference, independent of weezl, used to VALIDATE the `Ext.lzw` parameter of the filter model: the
  correspondence sends every LZW input the harness ships together with weezl's result through `lzwspec`.

  * codes are packed most-significant-bit first, 9 to 12 bits wide;
  * 0–255 are the bytes, 256 is the clear-table marker, 257 the end-of-data marker, new sequences get 258, 259, …;
  * every code after the first one following a clear adds `previous sequence ++ first byte of this sequence`
    (until 4096 entries exist);
  * `EarlyChange 1` (the default): the code length grows one code early — as soon as the table holds
    2^width − 1 entries; `EarlyChange 0`: when it holds 2^width entries.
-/
namespace Lopdf.Spec.Lzw

structure St where
  /-- sequences of the codes 258, 259, … -/
  table : Array (Array UInt8)
  width : Nat
  prev : Option (Array UInt8)
  out : Array UInt8

def St.init (out : Array UInt8) : St := { table := #[], width := 9, prev := none, out := out }

/-- `width` (≤ 16) bits starting at bit position `pos`, most significant bit first -/
def bits (inp : Array UInt8) (pos width : Nat) : Nat :=
  let i := pos / 8
  let v := (inp.getD i 0).toNat * 65536 + (inp.getD (i + 1) 0).toNat * 256 + (inp.getD (i + 2) 0).toNat
  (v / 2 ^ (24 - pos % 8 - width)) % 2 ^ width

inductive End where | eod | truncated | invalid
  deriving Repr, DecidableEq

def go (inp : Array UInt8) (early : Bool) (pos : Nat) (st : St) : Array UInt8 × End :=
  if h : pos + st.width ≤ inp.size * 8 ∧ 0 < st.width then
    let code := bits inp pos st.width
    let pos' := pos + st.width
    if code = 256 then go inp early pos' (St.init st.out)
    else if code = 257 then (st.out, .eod)
    else
      match st.prev with
      | none =>
        if code < 256 then go inp early pos' { st with prev := some #[code.toUInt8], out := st.out.push code.toUInt8 }
        else (st.out, .invalid)
      | some p =>
        let next := 258 + st.table.size
        let entry? : Option (Array UInt8) :=
          if code < 256 then some #[code.toUInt8]
          else if code < next then st.table[code - 258]?
          else if code = next then some (p.push (p.getD 0 0))
          else none
        match entry? with
        | none => (st.out, .invalid)
        | some e =>
          let table' := if next < 4096 then st.table.push (p.push (e.getD 0 0)) else st.table
          let next' := 258 + table'.size
          let width' := if st.width < 12 ∧ next' + (if early then 1 else 0) ≥ 2 ^ st.width then st.width + 1 else st.width
          go inp early pos' { table := table', width := width', prev := some e, out := st.out ++ e }
  else (st.out, .truncated)
termination_by inp.size * 8 - pos
decreasing_by all_goals omega

/-- decode a whole LZW stream -/
def decode (early : Bool) (inp : List UInt8) : List UInt8 × End :=
  let r := go inp.toArray early 0 (St.init #[])
  (r.1.toList, r.2)

end Lopdf.Spec.Lzw
