import LopdfModel.Spec.GrammarFile
import LopdfModel.Spec.GrammarObjStm
/-
  File grammar, cross-reference-stream style: what it means for a file to define an OBJECT STREAM
  container at an offset.
-/
namespace Lopdf.Grammar
open Lopdf Gen

/-- the file defines at `off` the object-stream container `(k, g)`: an indirect stream object in
any spelling whose dictionary has `Type /ObjStm`, no `Filter`, integer `First` and `N`, and whose
data derive from the object-stream grammar with the members `members` (pairwise different
numbers, at least one) -/
def DefinesContainerAt (file : Bytes) (off k g : Nat) (dct : Dict) (content : Bytes)
    (members : List (Nat × Obj)) : Prop :=
  off ≤ file.length ∧ ∃ sp ibs rest, ∃ (first : Nat) (nval : Int),
    file.drop off = sp ++ (ibs ++ rest) ∧ DerivesSpace sp ∧
    DerivesIndirect (k, g) (.stream dct content) ibs ∧
    dct.get [84, 121, 112, 101] = some (Obj.name [79, 98, 106, 83, 116, 109]) ∧
    dct.get [70, 105, 108, 116, 101, 114] = none ∧
    dct.get [70, 105, 114, 115, 116] = some (.int first) ∧ dct.get [78] = some (.int nval) ∧
    DerivesObjStm members first content ∧ members ≠ [] ∧ (members.map (·.1)).Nodup

/-- **Indirect stream object whose `Length` is a reference** `ln lg R` (to an integer object of
the same file): as `DerivesIndirect.stream`, the dictionary entry being the reference -/
inductive DerivesIndirectRef : ObjId → ObjId → Dict → Bytes → Bytes → Prop where
  | mk (d n g ln lg : Nat) (es : List (Bytes × Obj)) (d1 sp1 d2 sp2 sp3 sp ebs sp5 bl e data e' sp6 : Bytes) :
      DerivesNat n d1 → n ≤ 4294967295 → IsGapG sp1 → DerivesNat g d2 → g ≤ 65535 → IsGapG sp2 →
      DerivesSpace sp3 → DerivesSpace sp → DerivesEntries d es ebs → 1 + d ≤ MAX_NESTING →
      DerivesSpace sp5 → (∀ b ∈ bl, (b == 32 || b == 9) = true) → IsStreamEolG e →
      (setEntries [] es).get [76, 101, 110, 103, 116, 104] = some (.ref ln lg) → IsOptEolG e' →
      DerivesSpace sp6 →
      DerivesIndirectRef (n, g) (ln, lg) (setEntries [] es) data
        (d1 ++ (sp1 ++ (d2 ++ (sp2 ++ ([111, 98, 106] ++ (sp3 ++
          (streamSpelling sp ebs sp5 bl e data e' ++ (sp6 ++ [101, 110, 100, 111, 98, 106]))))))))

/-- the file defines at `off` the stream `(k, g)` with dictionary `dct` (its `Length` a reference
to `lid`) and data `data` -/
def DefinesStreamRefAt (file : Bytes) (off k g : Nat) (lid : ObjId) (dct : Dict) (data : Bytes) : Prop :=
  off ≤ file.length ∧ ∃ sp ibs rest, file.drop off = sp ++ (ibs ++ rest) ∧ DerivesSpace sp ∧
    DerivesIndirectRef (k, g) lid dct data ibs

/-- what the file provides for a binding of the cross-reference map `x`:
an ordinary object; an object-stream container; or a stream whose `Length` is a reference to an
integer object that `x` binds and the file defines, with the value = number of data bytes (the
loaded dictionary then carries that number as a direct `Length`, as `Reader::read` stores it) -/
def BindingDefined (file : Bytes) (x : XTable) (val : Nat → Nat × Obj) (cont : Nat → List (Nat × Obj)) (k : Nat) :
    XEntry → Prop
  | .normal off g =>
    g = (val k).1 ∧
    ((DefinesAt file off k g (val k).2 ∧ cont k = []) ∨
     (∃ dct content, (val k).2 = .stream dct content ∧ DefinesContainerAt file off k g dct content (cont k)) ∨
     (∃ (lid : ObjId) (loff : Nat) (dct : Dict) (data : Bytes),
        (val k).2 = .stream (dct.set [76, 101, 110, 103, 116, 104] (.int data.length)) data ∧
        DefinesStreamRefAt file off k g lid dct data ∧
        x.get lid.1 = some (.normal loff lid.2) ∧ DefinesAt file loff lid.1 lid.2 (.int data.length) ∧
        NotObjStm (val k).2 ∧ cont k = []))
  | .compressed _ _ => True

end Lopdf.Grammar
