import LopdfModel.Spec.GrammarFile
import LopdfModel.Spec.GrammarObjStm
/-
  File grammar, cross-reference-stream style: what it means for a file to define an OBJECT STREAM
  container at an offset.
-/
namespace Lopdf.Grammar
open Lopdf Gen

/-- the file defines at `off` the object-stream container `(k, g)`: an indirect stream object in
any spelling whose dictionary has `Type /ObjStm`, no `Filter`, integer `First` and `N`, and whose
data derive from the object-stream grammar with the members `members` (pairwise different
numbers, at least one) -/
def DefinesContainerAt (file : Bytes) (off k g : Nat) (dct : Dict) (content : Bytes)
    (members : List (Nat × Obj)) : Prop :=
  off ≤ file.length ∧ ∃ sp ibs rest, ∃ (first : Nat) (nval : Int),
    file.drop off = sp ++ (ibs ++ rest) ∧ DerivesSpace sp ∧
    DerivesIndirect (k, g) (.stream dct content) ibs ∧
    dct.get [84, 121, 112, 101] = some (Obj.name [79, 98, 106, 83, 116, 109]) ∧
    dct.get [70, 105, 108, 116, 101, 114] = none ∧
    dct.get [70, 105, 114, 115, 116] = some (.int first) ∧ dct.get [78] = some (.int nval) ∧
    DerivesObjStm members first content ∧ members ≠ [] ∧ (members.map (·.1)).Nodup

/-- what the file provides for a binding of the cross-reference map -/
def BindingDefined (file : Bytes) (val : Nat → Nat × Obj) (cont : Nat → List (Nat × Obj)) (k : Nat) : XEntry → Prop
  | .normal off g =>
    g = (val k).1 ∧
    ((DefinesAt file off k g (val k).2 ∧ cont k = []) ∨
     (∃ dct content, (val k).2 = .stream dct content ∧ DefinesContainerAt file off k g dct content (cont k)))
  | .compressed _ _ => True

end Lopdf.Grammar
