import LopdfModel.Spec.GrammarTokens
/-
  Declarative grammar of DIRECT OBJECTS (ISO 32000-1 §7.3): the atomic objects of
  Spec/Grammar.lean / Spec/GrammarTokens.lean composed into arrays and dictionaries with
  arbitrary white space and comments between the tokens.
  `DerivesObj d o bs` : `bs` is a spelling of the object `o` whose arrays / dictionaries nest at
                        most `d` deep
  `DerivesItems d os bs`   : `bs` spells the items `os` of an array (between `[`+space and `]`)
  `DerivesEntries d es bs` : `bs` spells the key/value pairs `es` of a dictionary, in file order
  Token separation (§7.2.2): a token that ends in a regular character (number, name, keyword,
  `R`) must be followed by white space, a comment or a delimiter (`StopHead`); everywhere else
  the separating text may be empty.
-/
namespace Lopdf.Grammar
open Lopdf Gen

/-- the object's last token ends in a regular character, so the token has to be terminated by
white space or a delimiter -/
def NeedsStop : Obj → Bool
  | .str _ _ => false
  | .arr _ => false
  | .dict _ => false
  | .stream _ _ => false
  | _ => true

/-- the text is empty or starts with a byte that is not regular (white space or delimiter) -/
def StopHead (bs : Bytes) : Prop := ∀ b r, bs = b :: r → isRegular b = false

/-- white space / comments that really separate two numerals: derivable and not empty -/
def IsGapG (sp : Bytes) : Prop := DerivesSpace sp ∧ sp ≠ []

/-- `Dictionary::set` for every pair in file order: a repeated key keeps its first position and
takes the last value (ISO leaves repeated keys undefined) -/
def setEntries (acc : Dict) : List (Bytes × Obj) → Dict
  | [] => acc
  | (k, v) :: r => setEntries (acc.set k v) r

mutual
inductive DerivesObj : Nat → Obj → Bytes → Prop where
  | null (d : Nat) : DerivesObj d .null [110, 117, 108, 108]
  | true (d : Nat) : DerivesObj d (.bool true) [116, 114, 117, 101]
  | false (d : Nat) : DerivesObj d (.bool false) [102, 97, 108, 115, 101]
  | int (d : Nat) (i : Int) (bs : Bytes) : DerivesInt i bs → DerivesObj d (.int i) bs
  | real (d : Nat) (bs : Bytes) : DerivesReal bs → DerivesObj d (.real bs) bs
  | name (d : Nat) (n bs : Bytes) : DerivesName n bs → DerivesObj d (.name n) (47 :: bs)
  | lit (d : Nat) (s bs : Bytes) : DerivesLit MAX_BRACKET s bs → DerivesObj d (.str s .lit) (40 :: bs ++ [41])
  | hex (d : Nat) (s bs : Bytes) : DerivesHex s bs → DerivesObj d (.str s .hex) (60 :: bs ++ [62])
  /-- `n g R`: white space / comments are REQUIRED between the numbers, optional before `R` -/
  | ref (d : Nat) (n g : Nat) (d1 sp1 d2 sp2 : Bytes) : DerivesNat n d1 → n ≤ 4294967295 →
      DerivesNat g d2 → g ≤ 65535 → IsGapG sp1 → DerivesSpace sp2 →
      DerivesObj d (.ref n g) (d1 ++ sp1 ++ d2 ++ sp2 ++ [82])
  | arr (d : Nat) (items : List Obj) (sp bs : Bytes) : DerivesSpace sp → DerivesItems d items bs →
      DerivesObj (d + 1) (.arr items) (91 :: sp ++ bs ++ [93])
  | dict (d : Nat) (es : List (Bytes × Obj)) (sp bs : Bytes) : DerivesSpace sp → DerivesEntries d es bs →
      DerivesObj (d + 1) (.dict (setEntries [] es)) (60 :: 60 :: sp ++ bs ++ [62, 62])
inductive DerivesItems : Nat → List Obj → Bytes → Prop where
  | nil (d : Nat) : DerivesItems d [] []
  /-- an item, the separating text, the remaining items -/
  | cons (d : Nat) (o : Obj) (os : List Obj) (b sp bs : Bytes) : DerivesObj d o b → DerivesSpace sp →
      DerivesItems d os bs → (NeedsStop o = true → StopHead (sp ++ bs)) →
      DerivesItems d (o :: os) (b ++ sp ++ bs)
inductive DerivesEntries : Nat → List (Bytes × Obj) → Bytes → Prop where
  | nil (d : Nat) : DerivesEntries d [] []
  /-- key, separating text, value, separating text, the remaining pairs. The key (a name) must
  be terminated; the value is always followed by `/` or `>>`, both delimiters. -/
  | cons (d : Nat) (k kbs : Bytes) (v : Obj) (es : List (Bytes × Obj)) (sp1 vb sp2 bs : Bytes) :
      DerivesName k kbs → DerivesSpace sp1 → StopHead (sp1 ++ vb) → DerivesObj d v vb →
      DerivesSpace sp2 → DerivesEntries d es bs →
      DerivesEntries d ((k, v) :: es) (47 :: kbs ++ sp1 ++ vb ++ sp2 ++ bs)
end

end Lopdf.Grammar
