import LopdfModel.Model.Basic
/-
  Spec — executable reference implementations of MD5 (RFC 1321), SHA-256 / SHA-384 / SHA-512
  (FIPS 180-4) written from the standards; constants generated from their definitions
  (sines, cube / square roots of primes).  Used to instantiate the `Prims` parameters of the
  crypt model in the protocol driver and by the ISO 32000 reference of C06.  Validated against
  the RFC / FIPS test vectors by the driver operation `spec_selftest` and, on every run, against
  the md-5 / sha2 crates on the sampled inputs.  No theorem depends on these definitions.
-/
namespace Lopdf.Spec
open Lopdf

def md5K : Array UInt32 := #[3614090360, 3905402710, 606105819, 3250441966, 4118548399, 1200080426, 2821735955, 4249261313, 1770035416, 2336552879, 4294925233, 2304563134, 1804603682, 4254626195, 2792965006, 1236535329, 4129170786, 3225465664, 643717713, 3921069994, 3593408605, 38016083, 3634488961, 3889429448, 568446438, 3275163606, 4107603335, 1163531501, 2850285829, 4243563512, 1735328473, 2368359562, 4294588738, 2272392833, 1839030562, 4259657740, 2763975236, 1272893353, 4139469664, 3200236656, 681279174, 3936430074, 3572445317, 76029189, 3654602809, 3873151461, 530742520, 3299628645, 4096336452, 1126891415, 2878612391, 4237533241, 1700485571, 2399980690, 4293915773, 2240044497, 1873313359, 4264355552, 2734768916, 1309151649, 4149444226, 3174756917, 718787259, 3951481745]
def md5S : Array UInt32 := #[7, 12, 17, 22, 7, 12, 17, 22, 7, 12, 17, 22, 7, 12, 17, 22, 5, 9, 14, 20, 5, 9, 14, 20, 5, 9, 14, 20, 5, 9, 14, 20, 4, 11, 16, 23, 4, 11, 16, 23, 4, 11, 16, 23, 4, 11, 16, 23, 6, 10, 15, 21, 6, 10, 15, 21, 6, 10, 15, 21, 6, 10, 15, 21]
def sha256K : Array UInt32 := #[1116352408, 1899447441, 3049323471, 3921009573, 961987163, 1508970993, 2453635748, 2870763221, 3624381080, 310598401, 607225278, 1426881987, 1925078388, 2162078206, 2614888103, 3248222580, 3835390401, 4022224774, 264347078, 604807628, 770255983, 1249150122, 1555081692, 1996064986, 2554220882, 2821834349, 2952996808, 3210313671, 3336571891, 3584528711, 113926993, 338241895, 666307205, 773529912, 1294757372, 1396182291, 1695183700, 1986661051, 2177026350, 2456956037, 2730485921, 2820302411, 3259730800, 3345764771, 3516065817, 3600352804, 4094571909, 275423344, 430227734, 506948616, 659060556, 883997877, 958139571, 1322822218, 1537002063, 1747873779, 1955562222, 2024104815, 2227730452, 2361852424, 2428436474, 2756734187, 3204031479, 3329325298]
def sha256H : Array UInt32 := #[1779033703, 3144134277, 1013904242, 2773480762, 1359893119, 2600822924, 528734635, 1541459225]
def sha512K : Array UInt64 := #[4794697086780616226, 8158064640168781261, 13096744586834688815, 16840607885511220156, 4131703408338449720, 6480981068601479193, 10538285296894168987, 12329834152419229976, 15566598209576043074, 1334009975649890238, 2608012711638119052, 6128411473006802146, 8268148722764581231, 9286055187155687089, 11230858885718282805, 13951009754708518548, 16472876342353939154, 17275323862435702243, 1135362057144423861, 2597628984639134821, 3308224258029322869, 5365058923640841347, 6679025012923562964, 8573033837759648693, 10970295158949994411, 12119686244451234320, 12683024718118986047, 13788192230050041572, 14330467153632333762, 15395433587784984357, 489312712824947311, 1452737877330783856, 2861767655752347644, 3322285676063803686, 5560940570517711597, 5996557281743188959, 7280758554555802590, 8532644243296465576, 9350256976987008742, 10552545826968843579, 11727347734174303076, 12113106623233404929, 14000437183269869457, 14369950271660146224, 15101387698204529176, 15463397548674623760, 17586052441742319658, 1182934255886127544, 1847814050463011016, 2177327727835720531, 2830643537854262169, 3796741975233480872, 4115178125766777443, 5681478168544905931, 6601373596472566643, 7507060721942968483, 8399075790359081724, 8693463985226723168, 9568029438360202098, 10144078919501101548, 10430055236837252648, 11840083180663258601, 13761210420658862357, 14299343276471374635, 14566680578165727644, 15097957966210449927, 16922976911328602910, 17689382322260857208, 500013540394364858, 748580250866718886, 1242879168328830382, 1977374033974150939, 2944078676154940804, 3659926193048069267, 4368137639120453308, 4836135668995329356, 5532061633213252278, 6448918945643986474, 6902733635092675308, 7801388544844847127]
def sha512H : Array UInt64 := #[7640891576956012808, 13503953896175478587, 4354685564936845355, 11912009170470909681, 5840696475078001361, 11170449401992604703, 2270897969802886507, 6620516959819538809]
def sha384H : Array UInt64 := #[14680500436340154072, 7105036623409894663, 10473403895298186519, 1526699215303891257, 7436329637833083697, 10282925794625328401, 15784041429090275239, 5167115440072839076]

def rotl32 (x : UInt32) (n : UInt32) : UInt32 := (x <<< n) ||| (x >>> (32 - n))
def rotr32 (x : UInt32) (n : UInt32) : UInt32 := (x >>> n) ||| (x <<< (32 - n))
def rotr64 (x : UInt64) (n : UInt64) : UInt64 := (x >>> n) ||| (x <<< (64 - n))

def leBytes64 (n : Nat) : Bytes := (List.range 8).map fun i => (n >>> (8 * i)).toUInt8
def beBytes64 (n : Nat) : Bytes := (List.range 8).reverse.map fun i => (n >>> (8 * i)).toUInt8
def beBytes128 (n : Nat) : Bytes := (List.range 16).reverse.map fun i => (n >>> (8 * i)).toUInt8

def wordsLE : Bytes → List UInt32
  | b0 :: b1 :: b2 :: b3 :: rest =>
    (b0.toUInt32 ||| (b1.toUInt32 <<< 8) ||| (b2.toUInt32 <<< 16) ||| (b3.toUInt32 <<< 24)) :: wordsLE rest
  | _ => []
def wordsBE : Bytes → List UInt32
  | b0 :: b1 :: b2 :: b3 :: rest =>
    (b3.toUInt32 ||| (b2.toUInt32 <<< 8) ||| (b1.toUInt32 <<< 16) ||| (b0.toUInt32 <<< 24)) :: wordsBE rest
  | _ => []
def words64BE : Bytes → List UInt64
  | b0 :: b1 :: b2 :: b3 :: b4 :: b5 :: b6 :: b7 :: rest =>
    (b7.toUInt64 ||| (b6.toUInt64 <<< 8) ||| (b5.toUInt64 <<< 16) ||| (b4.toUInt64 <<< 24) |||
     (b3.toUInt64 <<< 32) ||| (b2.toUInt64 <<< 40) ||| (b1.toUInt64 <<< 48) ||| (b0.toUInt64 <<< 56)) :: words64BE rest
  | _ => []
def le32 (w : UInt32) : Bytes := [w.toUInt8, (w >>> 8).toUInt8, (w >>> 16).toUInt8, (w >>> 24).toUInt8]
def be32 (w : UInt32) : Bytes := [(w >>> 24).toUInt8, (w >>> 16).toUInt8, (w >>> 8).toUInt8, w.toUInt8]
def be64 (w : UInt64) : Bytes := [(w >>> 56).toUInt8, (w >>> 48).toUInt8, (w >>> 40).toUInt8, (w >>> 32).toUInt8,
  (w >>> 24).toUInt8, (w >>> 16).toUInt8, (w >>> 8).toUInt8, w.toUInt8]

/-- message ‖ 0x80 ‖ 0… ‖ length, to a multiple of `block` bytes (`lenBytes` = encoded bit length) -/
def mdPad (msg : Bytes) (block lenLen : Nat) (lenBytes : Bytes) : Bytes :=
  let l := msg.length + 1
  let z := (block - (l + lenLen) % block) % block
  msg ++ [0x80] ++ List.replicate z 0 ++ lenBytes

/-- the complete `n`-byte chunks of `bs`, in order (`cnt` = how many are left to take) -/
def chunksN (n : Nat) : Nat → Bytes → List Bytes
  | 0, _ => []
  | cnt + 1, bs => bs.take n :: chunksN n cnt (bs.drop n)
def chunks (n : Nat) (bs : Bytes) : List Bytes := chunksN n (bs.length / n) bs

def md5Block (st : UInt32 × UInt32 × UInt32 × UInt32) (blk : Bytes) : UInt32 × UInt32 × UInt32 × UInt32 := Id.run do
  let m := (wordsLE blk).toArray
  let (a0, b0, c0, d0) := st
  let mut a := a0; let mut b := b0; let mut c := c0; let mut d := d0
  for i in [0:64] do
    let (f, g) : UInt32 × Nat :=
      if i < 16 then ((b &&& c) ||| ((~~~ b) &&& d), i)
      else if i < 32 then ((d &&& b) ||| ((~~~ d) &&& c), (5 * i + 1) % 16)
      else if i < 48 then (b ^^^ c ^^^ d, (3 * i + 5) % 16)
      else (c ^^^ (b ||| (~~~ d)), (7 * i) % 16)
    let f2 := f + a + md5K[i]! + m[g]!
    a := d; d := c; c := b
    b := b + rotl32 f2 md5S[i]!
  return (a0 + a, b0 + b, c0 + c, d0 + d)

def md5 (msg : Bytes) : Bytes :=
  let padded := mdPad msg 64 8 (leBytes64 (msg.length * 8))
  let (a, b, c, d) := (chunks 64 padded).foldl md5Block (0x67452301, 0xefcdab89, 0x98badcfe, 0x10325476)
  le32 a ++ le32 b ++ le32 c ++ le32 d

def sha256Block (h : Array UInt32) (blk : Bytes) : Array UInt32 := Id.run do
  let mut w := (wordsBE blk).toArray
  for i in [16:64] do
    let s0 := rotr32 w[i-15]! 7 ^^^ rotr32 w[i-15]! 18 ^^^ (w[i-15]! >>> 3)
    let s1 := rotr32 w[i-2]! 17 ^^^ rotr32 w[i-2]! 19 ^^^ (w[i-2]! >>> 10)
    w := w.push (w[i-16]! + s0 + w[i-7]! + s1)
  let mut a := h[0]!; let mut b := h[1]!; let mut c := h[2]!; let mut d := h[3]!
  let mut e := h[4]!; let mut f := h[5]!; let mut g := h[6]!; let mut hh := h[7]!
  for i in [0:64] do
    let s1 := rotr32 e 6 ^^^ rotr32 e 11 ^^^ rotr32 e 25
    let ch := (e &&& f) ^^^ ((~~~ e) &&& g)
    let t1 := hh + s1 + ch + sha256K[i]! + w[i]!
    let s0 := rotr32 a 2 ^^^ rotr32 a 13 ^^^ rotr32 a 22
    let maj := (a &&& b) ^^^ (a &&& c) ^^^ (b &&& c)
    let t2 := s0 + maj
    hh := g; g := f; f := e; e := d + t1; d := c; c := b; b := a; a := t1 + t2
  return #[h[0]! + a, h[1]! + b, h[2]! + c, h[3]! + d, h[4]! + e, h[5]! + f, h[6]! + g, h[7]! + hh]

def sha256 (msg : Bytes) : Bytes :=
  let padded := mdPad msg 64 8 (beBytes64 (msg.length * 8))
  let h := (chunks 64 padded).foldl sha256Block sha256H
  h.toList.flatMap be32

def sha512Block (h : Array UInt64) (blk : Bytes) : Array UInt64 := Id.run do
  let mut w := (words64BE blk).toArray
  for i in [16:80] do
    let s0 := rotr64 w[i-15]! 1 ^^^ rotr64 w[i-15]! 8 ^^^ (w[i-15]! >>> 7)
    let s1 := rotr64 w[i-2]! 19 ^^^ rotr64 w[i-2]! 61 ^^^ (w[i-2]! >>> 6)
    w := w.push (w[i-16]! + s0 + w[i-7]! + s1)
  let mut a := h[0]!; let mut b := h[1]!; let mut c := h[2]!; let mut d := h[3]!
  let mut e := h[4]!; let mut f := h[5]!; let mut g := h[6]!; let mut hh := h[7]!
  for i in [0:80] do
    let s1 := rotr64 e 14 ^^^ rotr64 e 18 ^^^ rotr64 e 41
    let ch := (e &&& f) ^^^ ((~~~ e) &&& g)
    let t1 := hh + s1 + ch + sha512K[i]! + w[i]!
    let s0 := rotr64 a 28 ^^^ rotr64 a 34 ^^^ rotr64 a 39
    let maj := (a &&& b) ^^^ (a &&& c) ^^^ (b &&& c)
    let t2 := s0 + maj
    hh := g; g := f; f := e; e := d + t1; d := c; c := b; b := a; a := t1 + t2
  return #[h[0]! + a, h[1]! + b, h[2]! + c, h[3]! + d, h[4]! + e, h[5]! + f, h[6]! + g, h[7]! + hh]

def sha512With (iv : Array UInt64) (outLen : Nat) (msg : Bytes) : Bytes :=
  let padded := mdPad msg 128 16 (beBytes128 (msg.length * 8))
  let h := (chunks 128 padded).foldl sha512Block iv
  (h.toList.flatMap be64).take outLen

def sha512 (msg : Bytes) : Bytes := sha512With sha512H 64 msg
def sha384 (msg : Bytes) : Bytes := sha512With sha384H 48 msg

end Lopdf.Spec
