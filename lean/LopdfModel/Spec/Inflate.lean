import LopdfModel.Model.Basic
/-
  Specification decoder for zlib streams (RFC 1950) with DEFLATE data (RFC 1951), written from
  the RFCs: stored, fixed-Huffman and dynamic-Huffman blocks, canonical code construction,
  length / distance tables, LZ77 copies (overlapping allowed). Import-free and executable: the
  driver runs it on every Flate-coded structural stream and on the C09 cases, and the harness
  compares it with flate2 on every well-formed stream it produces (all compression levels).

  Scope: `zlibInflate` answers `some out` exactly for a COMPLETE stream: valid header (CM = 8,
  window ≤ 32 K, no preset dictionary, FCHECK), blocks up to the final one. An Adler-32 trailer that is present must be right
  (flate2 reports a wrong one together with the last output, which is then lost); a missing or cut trailer is
  tolerated (lopdf ignores what flate2 reports after the data has been produced). Anything else is `none`: how much output
  flate2 has produced when it meets damaged data is its own business and is not specified here.

  Bits are consumed least-significant first (RFC 1951 §3.1.1); the input is the list of bits.
-/
namespace Lopdf.Inflate

/-- the bits of one byte, least significant first -/
def byteBits (b : UInt8) : List Bool :=
  [b &&& 1 != 0, b &&& 2 != 0, b &&& 4 != 0, b &&& 8 != 0, b &&& 16 != 0, b &&& 32 != 0, b &&& 64 != 0, b &&& 128 != 0]

def bitsOf : Bytes → List Bool
  | [] => []
  | b :: rest => byteBits b ++ bitsOf rest

/-- `n` bits as a number, first bit = least significant -/
def readBits : Nat → List Bool → Option (Nat × List Bool)
  | 0, bs => some (0, bs)
  | _ + 1, [] => none
  | n + 1, b :: bs =>
    match readBits n bs with
    | some (v, rest) => some ((if b then 1 else 0) + 2 * v, rest)
    | none => none

/-- one byte from a byte-aligned position -/
def readByte (bs : List Bool) : Option (UInt8 × List Bool) :=
  match readBits 8 bs with
  | some (v, rest) => some (UInt8.ofNat v, rest)
  | none => none

def readBytes : Nat → List Bool → Option (Bytes × List Bool)
  | 0, bs => some ([], bs)
  | n + 1, bs =>
    match readByte bs with
    | some (b, rest) =>
      match readBytes n rest with
      | some (l, rest') => some (b :: l, rest')
      | none => none
    | none => none

/-! ### canonical Huffman codes (RFC 1951 §3.2.2) -/

structure Huff where
  /-- number of codes of each length 0..15 -/
  count : List Nat
  /-- symbols ordered by code length, then by value -/
  symbol : List Nat
  deriving Repr

def countLen (lengths : List Nat) (len : Nat) : Nat := (lengths.filter (· == len)).length

def symbolsOfLen (lengths : List Nat) (len : Nat) : List Nat :=
  (lengths.zipIdx.filter (fun p => p.1 == len)).map (·.2)

/-- `left` after assigning all lengths: negative (`none`) = over-subscribed -/
def checkLeft : List Nat → Nat → Option Nat
  | [], left => some left
  | c :: cs, left => if 2 * left < c then none else checkLeft cs (2 * left - c)

/-- build the decoding table; `none` for an over-subscribed set of lengths -/
def construct (lengths : List Nat) : Option Huff :=
  let count := (List.range 16).map (countLen lengths)
  match checkLeft (count.drop 1) 1 with
  | none => none
  | some _ => some { count := count, symbol := ((List.range 16).drop 1).flatMap (symbolsOfLen lengths) }

/-- decode one symbol: the canonical-code walk (length 1, 2, … 15) -/
def decodeSym (h : Huff) : (len : Nat) → (code first index : Nat) → List Bool → Option (Nat × List Bool)
  | 0, _, _, _, _ => none
  | _ + 1, _, _, _, [] => none
  | fuel + 1, code, first, index, b :: bs =>
    let len := 16 - (fuel + 1)
    let code := code + (if b then 1 else 0)
    let count := h.count.getD len 0
    if code < first + count then (h.symbol[index + (code - first)]?).map (fun s => (s, bs))
    else decodeSym h fuel (2 * code) (2 * (first + count)) (index + count) bs

def decode (h : Huff) (bs : List Bool) : Option (Nat × List Bool) := decodeSym h 15 0 0 0 bs

/-! ### tables -/

def LEN_BASE : List Nat := [3,4,5,6,7,8,9,10,11,13,15,17,19,23,27,31,35,43,51,59,67,83,99,115,131,163,195,227,258]
def LEN_EXTRA : List Nat := [0,0,0,0,0,0,0,0,1,1,1,1,2,2,2,2,3,3,3,3,4,4,4,4,5,5,5,5,0]
def DIST_BASE : List Nat := [1,2,3,4,5,7,9,13,17,25,33,49,65,97,129,193,257,385,513,769,1025,1537,2049,3073,4097,6145,8193,12289,16385,24577]
def DIST_EXTRA : List Nat := [0,0,0,0,1,1,2,2,3,3,4,4,5,5,6,6,7,7,8,8,9,9,10,10,11,11,12,12,13,13]
def CLEN_ORDER : List Nat := [16,17,18,0,8,7,9,6,10,5,11,4,12,3,13,2,14,1,15]

def fixedLitLengths : List Nat :=
  List.replicate 144 8 ++ List.replicate 112 9 ++ List.replicate 24 7 ++ List.replicate 8 8
def fixedDistLengths : List Nat := List.replicate 30 5

/-! ### LZ77 -/

/-- append `len` bytes, each copied from `dist` positions back (overlap allowed) -/
def copyBack : Nat → Nat → Array UInt8 → Option (Array UInt8)
  | 0, _, out => some out
  | n + 1, dist, out =>
    if dist = 0 ∨ dist > out.size then none
    else copyBack n dist (out.push (out.getD (out.size - dist) 0))

/-- the symbols of one compressed block, up to its end-of-block code. Fuel: every symbol
consumes at least one bit. -/
def codes (lit dist : Huff) : Nat → List Bool → Array UInt8 → Option (Array UInt8 × List Bool)
  | 0, _, _ => none
  | fuel + 1, bs, out =>
    match decode lit bs with
    | none => none
    | some (sym, bs) =>
      if sym < 256 then codes lit dist fuel bs (out.push (UInt8.ofNat sym))
      else if sym = 256 then some (out, bs)
      else
        let i := sym - 257
        match LEN_BASE[i]?, LEN_EXTRA[i]? with
        | some lb, some le =>
          match readBits le bs with
          | none => none
          | some (ev, bs) =>
            match decode dist bs with
            | none => none
            | some (ds, bs) =>
              match DIST_BASE[ds]?, DIST_EXTRA[ds]? with
              | some db, some de =>
                match readBits de bs with
                | none => none
                | some (dv, bs) =>
                  match copyBack (lb + ev) (db + dv) out with
                  | none => none
                  | some out => codes lit dist fuel bs out
              | _, _ => none
        | _, _ => none

/-! ### dynamic block header (RFC 1951 §3.2.7) -/

def readClens : Nat → List Bool → Option (List Nat × List Bool)
  | 0, bs => some ([], bs)
  | n + 1, bs =>
    match readBits 3 bs with
    | none => none
    | some (v, bs) =>
      match readClens n bs with
      | some (l, rest) => some (v :: l, rest)
      | none => none

/-- lengths of the code-length alphabet in symbol order 0..18 -/
def clenLengths (vals : List Nat) : List Nat :=
  (List.range 19).map fun s =>
    match CLEN_ORDER.idxOf? s with
    | some i => vals.getD i 0
    | none => 0

/-- the `total` literal/length and distance code lengths, run-length coded -/
def readLengths (h : Huff) (total : Nat) : Nat → List Nat → List Bool → Option (List Nat × List Bool)
  | 0, _, _ => none
  | fuel + 1, acc, bs =>
    if acc.length ≥ total then (if acc.length = total then some (acc, bs) else none) else
    match decode h bs with
    | none => none
    | some (sym, bs) =>
      if sym < 16 then readLengths h total fuel (acc ++ [sym]) bs
      else if sym = 16 then
        match acc.getLast?, readBits 2 bs with
        | some prev, some (r, bs) => readLengths h total fuel (acc ++ List.replicate (3 + r) prev) bs
        | _, _ => none
      else if sym = 17 then
        match readBits 3 bs with
        | some (r, bs) => readLengths h total fuel (acc ++ List.replicate (3 + r) 0) bs
        | none => none
      else
        match readBits 7 bs with
        | some (r, bs) => readLengths h total fuel (acc ++ List.replicate (11 + r) 0) bs
        | none => none

def dynamicTables (bs : List Bool) : Option (Huff × Huff × List Bool) :=
  match readBits 5 bs with
  | none => none
  | some (hlit, bs) =>
    match readBits 5 bs with
    | none => none
    | some (hdist, bs) =>
      match readBits 4 bs with
      | none => none
      | some (hclen, bs) =>
        let nlen := hlit + 257
        let ndist := hdist + 1
        if nlen > 286 ∨ ndist > 30 then none else
        match readClens (hclen + 4) bs with
        | none => none
        | some (vals, bs) =>
          match construct (clenLengths vals) with
          | none => none
          | some ch =>
            match readLengths ch (nlen + ndist) (nlen + ndist + 1) [] bs with
            | none => none
            | some (ls, bs) =>
              if ls.getD 256 0 = 0 then none else      -- no end-of-block code
              match construct (ls.take nlen), construct (ls.drop nlen) with
              | some lit, some dist => some (lit, dist, bs)
              | _, _ => none

/-! ### blocks -/

/-- skip to the next byte boundary: `consumed` bits have been read from the byte stream -/
def alignDrop (bs : List Bool) : List Bool := bs.drop (bs.length % 8)

/-- a stored block after its 3 header bits (RFC 1951 §3.2.4) -/
def stored (bs : List Bool) (out : Array UInt8) : Option (Array UInt8 × List Bool) :=
  let bs := alignDrop bs
  match readBits 16 bs with
  | none => none
  | some (len, bs) =>
    match readBits 16 bs with
    | none => none
    | some (nlen, bs) =>
      if len + nlen ≠ 65535 then none else
      match readBytes len bs with
      | none => none
      | some (data, bs) => some (out ++ data.toArray, bs)

/-- the sequence of blocks. Fuel: every block consumes at least its 3 header bits. -/
def blocks : Nat → List Bool → Array UInt8 → Option (Array UInt8 × List Bool)
  | 0, _, _ => none
  | fuel + 1, bs, out =>
    match readBits 1 bs with
    | none => none
    | some (final, bs) =>
      match readBits 2 bs with
      | none => none
      | some (btype, bs) =>
        let r : Option (Array UInt8 × List Bool) :=
          if btype = 0 then stored bs out
          else if btype = 1 then
            match construct fixedLitLengths, construct fixedDistLengths with
            | some lit, some dist => codes lit dist (bs.length + 1) bs out
            | _, _ => none
          else if btype = 2 then
            match dynamicTables bs with
            | some (lit, dist, bs) => codes lit dist (bs.length + 1) bs out
            | none => none
          else none
        match r with
        | none => none
        | some (out, bs) => if final = 1 then some (out, bs) else blocks fuel bs out

/-- raw DEFLATE -/
def inflateRaw (data : Bytes) : Option (Bytes × List Bool) :=
  let bs := bitsOf data
  (blocks (bs.length + 1) bs #[]).map fun (o, r) => (o.toList, r)

def adlerStep (p : Nat × Nat) (x : UInt8) : Nat × Nat :=
  ((p.1 + x.toNat) % 65521, (p.2 + (p.1 + x.toNat) % 65521) % 65521)

def adler32 (data : Bytes) : Nat := (data.foldl adlerStep (1, 0)).2 * 65536 + (data.foldl adlerStep (1, 0)).1

/-- zlib (RFC 1950): header, DEFLATE data, Adler-32. A trailer that is PRESENT (four bytes) must match: flate2 reports
the mismatch from the very call that produced the last output, which `read_to_end` then drops (nothing is lost
when there is no output). A trailer that is
missing or cut short leaves the data complete (the error comes from a later call). -/
def zlibInflate (data : Bytes) : Option Bytes :=
  match data with
  | cmf :: flg :: rest =>
    if cmf &&& 15 ≠ 8 ∨ cmf >>> 4 > 7 ∨ (cmf.toNat * 256 + flg.toNat) % 31 ≠ 0 ∨ flg &&& 32 ≠ 0 then none
    else
      match inflateRaw rest with
      | none => none
      | some (out, r) =>
        match readBytes 4 (alignDrop r) with
        | some ([a, b, c, d], _) =>
          if a.toNat * 16777216 + b.toNat * 65536 + c.toNat * 256 + d.toNat = adler32 out ∨ out = [] then some out else none
        | _ => some out
  | _ => none

/-! ### a reference encoder: stored blocks only (RFC 1951 §3.2.4), for the round-trip theorem -/

def le16 (n : Nat) : Bytes := [UInt8.ofNat (n % 256), UInt8.ofNat (n / 256 % 256)]

/-- stored blocks of at most 65535 bytes; fuel = number of bytes + 1 -/
def storedBlocks : Nat → Bytes → Bytes
  | 0, _ => []
  | fuel + 1, data =>
    if data.length ≤ 65535 then [1] ++ le16 data.length ++ le16 (65535 - data.length) ++ data
    else [0] ++ le16 65535 ++ le16 0 ++ data.take 65535 ++ storedBlocks fuel (data.drop 65535)

def zlibStored (data : Bytes) : Bytes :=
  let a := adler32 data
  [0x78, 0x01] ++ storedBlocks (data.length + 1) data
    ++ [UInt8.ofNat (a / 16777216 % 256), UInt8.ofNat (a / 65536 % 256), UInt8.ofNat (a / 256 % 256), UInt8.ofNat (a % 256)]

end Lopdf.Inflate
