import LopdfModel.Model.Basic
/-
  PDF LZW (ISO 32000-1 §7.4.4) as a proof-friendly pair: reference ENCODER `lzwEncode` and list-based reference
  DECODER `lzwDecode` (same algorithm as the array-based `Spec.Lzw.go`, which the driver runs side by side with
  it), over an explicit bit layer.  Thm/C09Lzw.lean proves `lzwDecode ec (lzwEncode ec x) = some x` for every x.

  * codes are 9–12 bits wide, packed most-significant-bit first; the last byte is padded with zero bits;
  * 256 = clear table (the encoder starts with it and emits it again when the table is full), 257 = end of data;
  * new sequences get the codes 258, 259, …, 4095;
  * `EarlyChange` (`ec = true`, the default): the width grows one code early.
-/
namespace Lopdf.Spec.LzwC
open Lopdf

/-! ### bit layer -/

/-- the `w` low bits of `c`, most significant first -/
def codeBits : Nat → Nat → List Bool
  | 0, _ => []
  | w + 1, c => decide (c / 2 ^ w % 2 = 1) :: codeBits w (c % 2 ^ w)

/-- read `w` bits, most significant first -/
def readBits : Nat → List Bool → Option (Nat × List Bool)
  | 0, bs => some (0, bs)
  | _ + 1, [] => none
  | w + 1, b :: bs =>
    match readBits w bs with
    | none => none
    | some (v, r) => some ((if b then 2 ^ w else 0) + v, r)

theorem readBits_length : ∀ (w : Nat) (bs : List Bool) (v : Nat) (r : List Bool),
    readBits w bs = some (v, r) → r.length + w = bs.length := by
  intro w
  induction w with
  | zero => intro bs v r h; simp [readBits] at h; simp [h.2]
  | succ w ih =>
    intro bs v r h
    cases bs with
    | nil => simp [readBits] at h
    | cons b bs =>
      simp only [readBits] at h
      split at h
      · simp at h
      · rename_i v' r' h'
        simp only [Option.some.injEq, Prod.mk.injEq] at h
        obtain ⟨_, rfl⟩ := h
        have := ih bs v' r' h'
        simp only [List.length_cons]; omega

def toBits : Bytes → List Bool
  | [] => []
  | b :: rest => codeBits 8 b.toNat ++ toBits rest

/-- value of (at most 8) bits, padded on the right with zero bits to a whole byte -/
def byteOfBits (bs : List Bool) : UInt8 :=
  match readBits 8 (bs ++ List.replicate (8 - bs.length) false) with
  | some (v, _) => v.toUInt8
  | none => 0

def ofBits (bs : List Bool) : Bytes :=
  if h : bs = [] then [] else byteOfBits (bs.take 8) :: ofBits (bs.drop 8)
termination_by bs.length
decreasing_by
  cases bs with
  | nil => exact absurd rfl h
  | cons a t => simp; omega

/-! ### code layer -/

/-- sequences of the codes 258, 259, … (entry `i` ↔ code `258 + i`) -/
abbrev Table := List Bytes

def CLEAR : Nat := 256
def EOD : Nat := 257
def FIRST : Nat := 258
/-- number of table entries when all 12-bit codes are used -/
def FULL : Nat := 3838

/-- the decoder's width rule after it has `next` codes assigned: grow when `next (+1 if early) ≥ 2^width` -/
def bump (ec : Bool) (wd next : Nat) : Nat :=
  if wd < 12 ∧ next + (if ec then 1 else 0) ≥ 2 ^ wd then wd + 1 else wd

/-- code of a sequence the encoder holds: a byte, or the first table entry equal to it -/
def codeOf (t : Table) (w : Bytes) : Nat :=
  match w with
  | [b] => b.toNat
  | _ => FIRST + t.findIdx (· == w)

/-- encoder main loop: `w` is the current (non-empty) phrase -/
def encLoop (ec : Bool) : Bytes → Table → Nat → Bytes → List Bool
  | [], t, wd, w => codeBits wd (codeOf t w) ++ codeBits (bump ec wd (FIRST + t.length)) EOD
  | b :: rest, t, wd, w =>
    if t.contains (w ++ [b]) then encLoop ec rest t wd (w ++ [b])
    else
      let wd' := bump ec wd (FIRST + t.length)
      let t' := t ++ [w ++ [b]]
      codeBits wd (codeOf t w) ++
        (if t'.length = FULL then codeBits wd' CLEAR ++ encLoop ec rest [] 9 [b]
         else encLoop ec rest t' wd' [b])

def encBits (ec : Bool) : Bytes → List Bool
  | [] => codeBits 9 CLEAR ++ codeBits 9 EOD
  | b :: rest => codeBits 9 CLEAR ++ encLoop ec rest [] 9 [b]

/-- **reference encoder** -/
def lzwEncode (ec : Bool) (x : Bytes) : Bytes := ofBits (encBits ec x)

inductive End where | eod | truncated | invalid
  deriving Repr, DecidableEq

/-- decoder loop over the bit stream; returns what is decoded from here on and how the stream ended -/
def decLoop (ec : Bool) (bits : List Bool) (t : Table) (wd : Nat) (prev : Option Bytes) : Bytes × End :=
  if hw : wd = 0 then ([], .invalid) else
  match hr : readBits wd bits with
  | none => ([], .truncated)
  | some (code, rest) =>
    if code = CLEAR then decLoop ec rest [] 9 none
    else if code = EOD then ([], .eod)
    else
      match prev with
      | none =>
        if code < 256 then
          let r := decLoop ec rest t wd (some [code.toUInt8])
          (code.toUInt8 :: r.1, r.2)
        else ([], .invalid)
      | some p =>
        let next := FIRST + t.length
        let entry? : Option Bytes :=
          if code < 256 then some [code.toUInt8]
          else if code < next then t[code - FIRST]?
          else if code = next then some (p ++ [p.headD 0])
          else none
        match entry? with
        | none => ([], .invalid)
        | some e =>
          let t' := if next < 4096 then t ++ [p ++ [e.headD 0]] else t
          let r := decLoop ec rest t' (bump ec wd (FIRST + t'.length)) (some e)
          (e ++ r.1, r.2)
termination_by bits.length
decreasing_by
  all_goals
    have := readBits_length wd bits code rest hr
    omega

def lzwDecodeFull (ec : Bool) (inp : Bytes) : Bytes × End := decLoop ec (toBits inp) [] 9 none

/-- **reference decoder**: `some x` iff the stream ends with the end-of-data code and decodes to `x` -/
def lzwDecode (ec : Bool) (inp : Bytes) : Option Bytes :=
  match lzwDecodeFull ec inp with
  | (out, .eod) => some out
  | _ => none

end Lopdf.Spec.LzwC
