import LopdfModel.Model.ExtractText
import LopdfModel.Thm.C15Total
import LopdfModel.Thm.C15Text
/-
  C15 — end to end through `Dictionary::get_font_encoding` (model `Q13.fontEnc`, Model/ExtractText.lean):
  a font dictionary whose ToUnicode stream holds the text of a well-formed CMap decodes the bytes shown
  with it exactly as the CMap defines — for EVERY shown byte string (`segSpec`), and in particular
  strings of mapped prefix-free codes to the defined text (`cmap_decode_text`).
-/
namespace Lopdf.CMap
open Lopdf Lopdf.Gen Lopdf.CMapSpec Lopdf.Q13

/-- the font makes lopdf look at its ToUnicode CMap: `/Type /Font` and `/Encoding` absent (or not a
name) or one of the names regenerated from the source (`Identity-H`, `Identity-V`) -/
def UsesToUnicode (font : Dict) : Prop :=
  font.hasType K_Font = true ∧
  ((font.get K_Encoding).bind Obj.asName = none ∨
   ∃ n, n ∈ FONT_TOUNICODE_NAMES ∧ (font.get K_Encoding).bind Obj.asName = some n)

theorem tounicode_names_not_tables : ∀ n ∈ FONT_TOUNICODE_NAMES, lookupName n FONT_ENCODINGS = none := by
  decide

/-- the dispatch of `get_font_encoding` for such a font: the CMap of the stream, parsed and built -/
theorem fontEnc_tounicode (ext : Ext) (os : Objects) (font d : Dict) (c text : Bytes) (ss : List Section) (m : UMap)
    (hf : UsesToUnicode font) (hs : toUnicodeStream os font = some (d, c))
    (hp : getPlainContent ext ⟨d, c⟩ = .ok text) (hparse : parseCMap text = some ss)
    (hm : fromSections ss = some m) :
    fontEnc ext os font = .ok (.cmap m) := by
  obtain ⟨ht, henc⟩ := hf
  have hc : cmapOfStream ext d c = .ok (.cmap m) := by
    simp [cmapOfStream, hp, hparse, hm]
  unfold fontEnc
  simp only [ht, Bool.not_true, Bool.false_eq_true, if_false]
  rcases henc with h | ⟨n, hn, h⟩
  · simp only [h, hs, hc]
  · have hcont : FONT_TOUNICODE_NAMES.contains n = true := by simpa using hn
    simp only [h, tounicode_names_not_tables n hn, hcont, if_true, hs, hc]

/-- an unfiltered stream is its content -/
theorem getPlainContent_plain (ext : Ext) (d : Dict) (c : Bytes) (h : d.get K_FILTER = none) :
    getPlainContent ext ⟨d, c⟩ = .ok c := by
  simp [getPlainContent, streamFilters, h]

/-- **font_decode_total** — through `get_font_encoding` and `decode_text`, for EVERY shown byte string: if the
font's ToUnicode stream (after its filters) is a text the CMap parser reads as the well-formed sections
`ss`, then the font's encoding is that CMap and `decode_text` of any bytes is the UTF-16 decoding of
`segSpec (defines ss)` — shortest mapped code first, U+FFFD per up to four unmatched bytes. -/
theorem font_decode_total (ext : Ext) (os : Objects) (font d : Dict) (c text : Bytes) (ss : List Section)
    (hf : UsesToUnicode font) (hs : toUnicodeStream os font = some (d, c))
    (hp : getPlainContent ext ⟨d, c⟩ = .ok text) (hparse : parseCMap text = some ss)
    (hwf : ∀ d ∈ defsOf ss, d.wf) :
    ∃ m, fontEnc ext os font = .ok (.cmap m) ∧
      ∀ shown : Bytes, (FontEnc.cmap m).decode shown =
        .ok (utf16Scalars (segSpec (defines (defsOf ss)) (shown.map UInt8.toNat))) := by
  obtain ⟨m, hm, _⟩ := cmap_get_any ss hwf 0 0
  refine ⟨m, fontEnc_tounicode ext os font d c text ss m hf hs hp hparse hm, fun shown => ?_⟩
  obtain ⟨m', hm', hb⟩ := cmap_decode_total_defines ss hwf (shown.map UInt8.toNat)
  rw [hm] at hm'
  have e : m' = m := (Option.some.inj hm').symm
  subst e
  simp only [FontEnc.decode, cmapDecode, hb, Outcome.map, decodeUnits]

/-- **font_decode_text** — the statement of the property at the level of the font dictionary: shown bytes
that are mapped codes with no mapped proper prefix, whose defined targets are the UTF-16 encoding of the
scalar values `cs`, are decoded to exactly `cs`. -/
theorem font_decode_text (ext : Ext) (os : Objects) (font d : Dict) (c text : Bytes) (ss : List Section)
    (hf : UsesToUnicode font) (hs : toUnicodeStream os font = some (d, c))
    (hp : getPlainContent ext ⟨d, c⟩ = .ok text) (hparse : parseCMap text = some ss)
    (hwf : ∀ d ∈ defsOf ss, d.wf)
    (codes : List (List Nat × List Nat)) (hcodes : ∀ p ∈ codes, DefinedCode (defsOf ss) p.1 p.2)
    (cs : List Nat) (hcs : ∀ x ∈ cs, CMapSpec.isScalar x) (henc : codes.flatMap (·.2) = encodeUtf16 cs)
    (shown : Bytes) (hshown : shown.map UInt8.toNat = codes.flatMap (·.1)) :
    ∃ m, fontEnc ext os font = .ok (.cmap m) ∧ (FontEnc.cmap m).decode shown = .ok cs := by
  obtain ⟨m, hfe, hdec⟩ := font_decode_total ext os font d c text ss hf hs hp hparse hwf
  refine ⟨m, hfe, ?_⟩
  rw [hdec shown, hshown, segSpec_prefix_free ss hwf codes hcodes, henc, surrogates_roundtrip cs hcs]

/-- … for any text of the declarative CMap grammar (any white space, comments, hex case, counts, section
and metadata order — `DerivesCMapText`, Spec/CMapText.lean) -/
theorem font_decode_derived (ext : Ext) (os : Objects) (font d : Dict) (c text : Bytes) (ss : List Section)
    (hf : UsesToUnicode font) (hs : toUnicodeStream os font = some (d, c))
    (hp : getPlainContent ext ⟨d, c⟩ = .ok text) (hder : CMapText.DerivesCMapText ss text)
    (hwf : ∀ d ∈ defsOf ss, d.wf) :
    ∃ m, fontEnc ext os font = .ok (.cmap m) ∧
      ∀ shown : Bytes, (FontEnc.cmap m).decode shown =
        .ok (utf16Scalars (segSpec (defines (defsOf ss)) (shown.map UInt8.toNat))) :=
  font_decode_total ext os font d c text ss hf hs hp (CMapText.parseCMap_complete hder) hwf

/-- … and for the canonical writer, in an unfiltered stream -/
theorem font_decode_rendered (ext : Ext) (os : Objects) (font d : Dict) (ss : List Section)
    (hf : UsesToUnicode font) (hs : toUnicodeStream os font = some (d, CMapRender.renderCMap ss))
    (hplain : d.get K_FILTER = none) (hne : ss ≠ []) (hok : ∀ s ∈ ss, SectionOk s)
    (hwf : ∀ d ∈ defsOf ss, d.wf) :
    ∃ m, fontEnc ext os font = .ok (.cmap m) ∧
      ∀ shown : Bytes, (FontEnc.cmap m).decode shown =
        .ok (utf16Scalars (segSpec (defines (defsOf ss)) (shown.map UInt8.toNat))) :=
  font_decode_total ext os font d _ _ ss hf hs (getPlainContent_plain ext d _ hplain) (parse_render ss hne hok) hwf

/-- non-vacuity: a Type0 font with `/Encoding /Identity-H` and a direct ToUnicode stream -/
example : UsesToUnicode [(TYPE, .name K_Font), (K_Encoding, .name [73, 100, 101, 110, 116, 105, 116, 121, 45, 72]),
    (K_ToUnicode, .stream [] [])] :=
  ⟨by decide, Or.inr ⟨[73, 100, 101, 110, 116, 105, 116, 121, 45, 72], by decide, by decide⟩⟩
example : toUnicodeStream [] [(TYPE, .name K_Font), (K_ToUnicode, .stream [] [1, 2])] = some ([], [1, 2]) := rfl

end Lopdf.CMap
