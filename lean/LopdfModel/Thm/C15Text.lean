import LopdfModel.Spec.CMapText
import LopdfModel.Lemmas.CMapGrammar
import LopdfModel.Lemmas.Bytes
/-
  C15 — completeness of `cmap_parser::parse` (model `parseCMap`) with respect to the declarative
  grammar of CMap texts (`DerivesCMapText`): every text the grammar derives — whatever blanks,
  end-of-line bytes, comments, hexadecimal case, counts, section order and metadata order its
  producer chose within the frame — is parsed to exactly the sections it denotes.
-/
namespace Lopdf.CMapText
open Lopdf Lopdf.CMap Lopdf.Gen

/-! ### white space -/

def NotBlank (x : UInt8) : Prop := x ≠ 32 ∧ x ≠ 9

theorem nonws_notblank {x : UInt8} (h : NonWs x) : NotBlank x := ⟨h.1, h.2.1⟩

theorem space0_blank0 (w : Bytes) (x : UInt8) (r : Bytes) (hw : Blank0 w) (hx : NotBlank x) :
    space0 (w ++ x :: r) = x :: r := by
  induction w with
  | nil => simp [space0, hx.1, hx.2]
  | cons b bs ih =>
    have hb := hw b (by simp)
    simp only [List.cons_append, space0, hb, if_true]
    exact ih (fun c hc => hw c (by simp [hc]))

theorem pspace1_blank1 (w : Bytes) (x : UInt8) (r : Bytes) (hw : Blank1 w) (hx : NotBlank x) :
    pspace1 (w ++ x :: r) = .ok () (x :: r) := by
  obtain ⟨h0, hne⟩ := hw
  cases w with
  | nil => exact absurd rfl hne
  | cons b bs =>
    have hb := h0 b (by simp)
    simp only [List.cons_append, pspace1, hb, if_true]
    rw [space0_blank0 bs x r (fun c hc => h0 c (by simp [hc])) hx]

theorem skipToEol_body (body : Bytes) (e : UInt8) (t : Bytes) (hb : ∀ b ∈ body, b ≠ 10 ∧ b ≠ 13) (he : e = 10 ∨ e = 13) :
    skipToEol (body ++ e :: t) = some (e :: t) := by
  induction body with
  | nil => simp [skipToEol, he]
  | cons b bs ih =>
    have := hb b (by simp)
    simp only [List.cons_append, skipToEol, this.1, this.2, or_self, if_false]
    exact ih (fun c hc => hb c (by simp [hc]))

theorem msGo_ms {w : Bytes} (h : MS w) : ∀ (fuel : Nat) (x : UInt8) (r : Bytes), NonWs x → w.length < fuel →
    msGo fuel (w ++ x :: r) = x :: r := by
  induction h with
  | nil =>
    intro fuel x r hx hf
    match fuel, hf with
    | f + 1, _ =>
      obtain ⟨h1, h2, h3, h4, h5⟩ := hx
      simp [msGo, h1, h2, h3, h4, h5]
  | ws b bs hb _ ih =>
    intro fuel x r hx hf
    match fuel, hf with
    | f + 1, hf =>
      simp only [List.cons_append, msGo, hb, if_true]
      exact ih f x r hx (by simp at hf; omega)
  | comment body e bs hbody he _ ih =>
    intro fuel x r hx hf
    match fuel, hf with
    | f + 2, hf =>
      have e1 : (37 :: body ++ e :: bs) ++ x :: r = 37 :: (body ++ e :: (bs ++ x :: r)) := by simp
      have h37 : ¬ ((37 : UInt8) = 32 ∨ (37 : UInt8) = 9 ∨ (37 : UInt8) = 10 ∨ (37 : UInt8) = 13) := by decide
      have hee : e = 32 ∨ e = 9 ∨ e = 10 ∨ e = 13 := by rcases he with h | h <;> simp [h]
      rw [e1]
      simp only [msGo, h37, if_false, if_true, skipToEol_body body e _ hbody he, hee]
      exact ih f x r hx (by simp at hf; omega)
    | 1, hf => simp at hf

theorem ms0_ms (w : Bytes) (x : UInt8) (r : Bytes) (h : MS w) (hx : NonWs x) : multispace0 (w ++ x :: r) = x :: r := by
  unfold multispace0
  exact msGo_ms h _ x r hx (by simp only [List.length_append, List.length_cons]; omega)

theorem pms1_ms1 (w : Bytes) (x : UInt8) (r : Bytes) (h : MS1 w) (hx : NonWs x) : pms1 (w ++ x :: r) = .ok () (x :: r) := by
  unfold pms1
  simp only [ms0_ms w x r h.1 hx]
  have hlt : (x :: r).length < (w ++ x :: r).length := by
    have hne := h.2
    cases w with
    | nil => exact absurd rfl hne
    | cons a as => simp only [List.length_append, List.length_cons]; omega
  rw [if_pos hlt]

theorem pms0_ms (w : Bytes) (x : UInt8) (r : Bytes) (h : MS w) (hx : NonWs x) : pms0 (w ++ x :: r) = .ok () (x :: r) := by
  simp [pms0, ms0_ms w x r h hx]

/-! ### hexadecimal tokens -/

theorem hexDigit_nonws : ∀ a : UInt8, isHexDigit a = true → NonWs a ∧ a ≠ 60 ∧ a ≠ 62 := by
  have : ∀ a : UInt8, isHexDigit a = true →
      (a ≠ 32 ∧ a ≠ 9 ∧ a ≠ 10 ∧ a ≠ 13 ∧ a ≠ 37) ∧ a ≠ 60 ∧ a ≠ 62 := by
    apply Lopdf.forall_uint8; decide +kernel
  exact this

theorem digits_head (n t : Bytes) (hn : AllDigitsC n) : ∃ b u, n ++ t = b :: u ∧ isDigit b = true := by
  obtain ⟨hd, hne⟩ := hn
  cases n with
  | nil => exact absurd rfl hne
  | cons b bs => exact ⟨b, bs ++ t, rfl, hd b (by simp)⟩

theorem digit_nonws : ∀ b : UInt8, isDigit b = true → NonWs b := by
  have : ∀ b : UInt8, isDigit b = true → (b ≠ 32 ∧ b ≠ 9 ∧ b ≠ 10 ∧ b ≠ 13 ∧ b ≠ 37) := by
    apply Lopdf.forall_uint8; decide +kernel
  exact this

theorem digits_headNonWs (n t : Bytes) (hn : AllDigitsC n) : HeadNonWs (n ++ t) := by
  obtain ⟨b, u, e, hb⟩ := digits_head n t hn; exact ⟨b, u, e, digit_nonws b hb⟩

theorem phexChar_pair (a b : UInt8) (r : Bytes) (ha : isHexDigit a = true) (hb : isHexDigit b = true) :
    phexChar (a :: b :: r) = .ok ((hexVal a).toNat * 16 + (hexVal b).toNat) r := by
  simp [phexChar, ha, hb]

theorem phexChar_stop (x : UInt8) (r : Bytes) (hx : isHexDigit x = false) : phexChar (x :: r) = .error := by
  cases r with
  | nil => rfl
  | cons y t => simp [phexChar, hx]

theorem manyUpTo_hexBytes {vs : List Nat} {bs : Bytes} (h : DHexBytes vs bs) : ∀ (n : Nat) (x : UInt8) (r : Bytes),
    vs.length ≤ n → isHexDigit x = false → manyUpTo phexChar n (bs ++ x :: r) = (vs, x :: r) := by
  induction h with
  | nil =>
    intro n x r _ hx
    cases n with
    | zero => rfl
    | succ n => simp [manyUpTo, phexChar_stop x r hx]
  | cons a b vs bs ha hb _ ih =>
    intro n x r hn hx
    cases n with
    | zero => simp at hn
    | succ n =>
      simp only [List.cons_append, manyUpTo, phexChar_pair a b _ ha hb, ih n x r (by simpa using hn) hx]

/-- **source codes, every spelling** (either case, 1–4 bytes) -/
theorem psourceCode_src {c : Nat × Nat} {bs : Bytes} (h : DSrc c bs) (r : Bytes) : psourceCode (bs ++ r) = .ok c r := by
  cases h with
  | mk vs hb hd h1 h4 =>
    have e : 60 :: hb ++ [62] ++ r = 60 :: (hb ++ 62 :: r) := by simp
    have hm := manyUpTo_hexBytes hd CMAP_SRC_MAX 62 r (by simpa [CMAP_SRC_MAX] using h4) (by decide)
    have hmin : ¬ vs.length < CMAP_SRC_MIN := by simp only [CMAP_SRC_MIN]; omega
    rw [e]
    unfold psourceCode
    simp only [t_lt, PR.bind, hm, hmin, if_false, t_gt]

theorem hexBytes_one {h : Nat} {hb : Bytes} (hd : DHexBytes [h] hb) :
    ∃ a b, hb = [a, b] ∧ isHexDigit a = true ∧ isHexDigit b = true ∧ h = (hexVal a).toNat * 16 + (hexVal b).toNat := by
  cases hd with
  | cons a b vs bs ha hb' hrest =>
    cases hrest
    exact ⟨a, b, rfl, ha, hb', rfl⟩

theorem pu16ms_unit' (h1 h2 : Nat) (hb1 hb2 w : Bytes) (x : UInt8) (r : Bytes) (d1 : DHexBytes [h1] hb1)
    (d2 : DHexBytes [h2] hb2) (hw : MS w) (hx : NonWs x) :
    pu16ms (hb1 ++ hb2 ++ w ++ x :: r) = .ok (h1 * 256 + h2) (x :: r) := by
  obtain ⟨a, b, rfl, ha, hb, rfl⟩ := hexBytes_one d1
  obtain ⟨c, d, rfl, hc, hd, rfl⟩ := hexBytes_one d2
  have e : [a, b] ++ [c, d] ++ w ++ x :: r = a :: b :: c :: d :: (w ++ x :: r) := by simp
  rw [e]
  unfold pu16ms
  simp only [phexChar_pair a b _ ha hb, PR.bind, phexChar_pair c d _ hc hd, ms0_ms w x r hw hx]

theorem units_head {us : List Nat} {bs : Bytes} (h : DUnits us bs) (r : Bytes) :
    ∃ y t, bs ++ 62 :: r = y :: t ∧ NonWs y := by
  cases h with
  | nil => exact ⟨62, r, rfl, nonws_gt⟩
  | cons h1 h2 hb1 hb2 w us bs d1 d2 hw hrest =>
    obtain ⟨a, b, rfl, ha, _, _⟩ := hexBytes_one d1
    exact ⟨a, b :: (hb2 ++ (w ++ (bs ++ 62 :: r))), by simp, (hexDigit_nonws a ha).1⟩

theorem pu16ms_stop (r : Bytes) : pu16ms (62 :: r) = .error := by
  simp [pu16ms, phexChar_stop 62 r (by decide), PR.bind]

theorem manyUpTo_units' {us : List Nat} {bs : Bytes} (h : DUnits us bs) : ∀ (n : Nat) (r : Bytes), us.length ≤ n →
    manyUpTo pu16ms n (bs ++ 62 :: r) = (us, 62 :: r) := by
  induction h with
  | nil =>
    intro n r _
    cases n with
    | zero => rfl
    | succ n => simp [manyUpTo, pu16ms_stop]
  | cons h1 h2 hb1 hb2 w us bs d1 d2 hw hrest ih =>
    intro n r hn
    cases n with
    | zero => simp at hn
    | succ n =>
      obtain ⟨y, t, hyt, hy⟩ := units_head hrest r
      have e : hb1 ++ hb2 ++ w ++ bs ++ 62 :: r = hb1 ++ hb2 ++ w ++ (bs ++ 62 :: r) := by simp
      rw [e, hyt]
      simp only [manyUpTo, pu16ms_unit' h1 h2 hb1 hb2 w y t d1 d2 hw hy]
      rw [← hyt, ih n r (by simpa using hn)]

/-- **target strings, every spelling** (either case, white space / comments after each unit) -/
theorem ptargetString_target {us : List Nat} {bs : Bytes} (h : DTarget us bs) (r : Bytes) :
    ptargetString (bs ++ r) = .ok us r := by
  cases h with
  | mk ub hu h1 h256 =>
    have e : 60 :: ub ++ [62] ++ r = 60 :: (ub ++ 62 :: r) := by simp
    have hm := manyUpTo_units' hu CMAP_DST_MAX r (by simpa [CMAP_DST_MAX] using h256)
    have hmin : ¬ us.length < CMAP_DST_MIN := by simp only [CMAP_DST_MIN]; omega
    rw [e]
    unfold ptargetString
    simp only [t_lt, PR.bind, hm, hmin, if_false, t_gt]

theorem src_head {c : Nat × Nat} {bs : Bytes} (h : DSrc c bs) (r : Bytes) : ∃ t, bs ++ r = 60 :: t := by
  cases h with
  | mk vs hb _ _ _ => exact ⟨hb ++ [62] ++ r, by simp⟩

theorem target_head {us : List Nat} {bs : Bytes} (h : DTarget us bs) (r : Bytes) : ∃ t, bs ++ r = 60 :: t := by
  cases h with
  | mk ub _ _ _ => exact ⟨ub ++ [62] ++ r, by simp⟩

theorem notblank_lt : NotBlank 60 := by unfold NotBlank; decide

/-- **code range pairs** -/
theorem pcodeRangePair_pair {p : Nat × Nat × Nat} {bs : Bytes} (h : DPair p bs) (r : Bytes) :
    pcodeRangePair (bs ++ r) = .ok p r := by
  cases h with
  | mk lo hi len s1 w s2 d1 hw d2 =>
    obtain ⟨t, ht⟩ := src_head d2 r
    have e : s1 ++ w ++ s2 ++ r = s1 ++ (w ++ (s2 ++ r)) := by simp
    rw [e]
    unfold pcodeRangePair
    simp only [psourceCode_src d1, PR.bind]
    rw [ht, space0_blank0 w 60 t hw notblank_lt, ← ht, psourceCode_src d2]
    simp

/-! ### arrays of targets -/

theorem ptargetString_not_lt (x : UInt8) (r : Bytes) (hx : x ≠ 60) : ptargetString (x :: r) = .error := by
  simp [ptargetString, t_lt_ne hx, PR.bind]

theorem pspace1_notblank (x : UInt8) (r : Bytes) (hx : NotBlank x) : pspace1 (x :: r) = .error := by
  simp [pspace1, hx.1, hx.2]

theorem more_length {ts : List (List Nat)} {bs : Bytes} (h : DMoreTargets ts bs) : ts.length ≤ bs.length := by
  induction h with
  | nil => simp
  | cons t ts w tb bs hw _ _ ih =>
    have := hw.2
    cases w with
    | nil => exact absurd rfl this
    | cons a as => simp only [List.length_cons, List.length_append]; omega

/-- the further targets of an array up to the closing part `w2 ]` -/
theorem sepListGo_more {ts : List (List Nat)} {bs : Bytes} (h : DMoreTargets ts bs) :
    ∀ (fuel : Nat) (w2 r : Bytes), Blank0 w2 → ts.length ≤ fuel →
    sepListGo fuel (bs ++ (w2 ++ 93 :: r)) = (ts, w2 ++ 93 :: r) := by
  induction h with
  | nil =>
    intro fuel w2 r hw2 _
    cases fuel with
    | zero => rfl
    | succ f =>
      simp only [List.nil_append, sepListGo]
      cases w2 with
      | nil => simp [pspace1_notblank 93 r (by unfold NotBlank; decide)]
      | cons a as =>
        have hb : Blank1 (a :: as) := ⟨hw2, by simp⟩
        rw [pspace1_blank1 (a :: as) 93 r hb (by unfold NotBlank; decide)]
        simp [ptargetString_not_lt 93 r (by decide)]
  | cons t ts w tb bs hw ht _ ih =>
    intro fuel w2 r hw2 hf
    cases fuel with
    | zero => simp at hf
    | succ f =>
      obtain ⟨u, hu⟩ := target_head ht (bs ++ (w2 ++ 93 :: r))
      have e : w ++ tb ++ bs ++ (w2 ++ 93 :: r) = w ++ (tb ++ (bs ++ (w2 ++ 93 :: r))) := by simp
      rw [e, hu]
      simp only [sepListGo, pspace1_blank1 w 60 u hw notblank_lt]
      rw [← hu, ptargetString_target ht]
      simp only [ih f w2 r hw2 (by simpa using hf)]

theorem ptargets_targets {ts : List (List Nat)} {bs : Bytes} (h : DTargets ts bs) (r : Bytes) :
    palt ptargetSingle prangeTargetArray (bs ++ r) = .ok ts r := by
  cases h with
  | single t tb ht => simp [palt, ptargetSingle, ptargetString_target ht, PR.bind]
  | array t ts w1 tb more w2 hw1 ht hm hw2 =>
    obtain ⟨u, hu⟩ := target_head ht (more ++ (w2 ++ 93 :: r))
    have e : 91 :: w1 ++ tb ++ more ++ w2 ++ [93] ++ r = 91 :: (w1 ++ (tb ++ (more ++ (w2 ++ 93 :: r)))) := by simp
    have e1 : ptargetSingle (91 :: (w1 ++ (tb ++ (more ++ (w2 ++ 93 :: r))))) = .error := by
      simp [ptargetSingle, ptargetString_not_lt 91 _ (by decide), PR.bind]
    have hlen := more_length hm
    rw [e]
    simp only [palt, e1]
    unfold prangeTargetArray
    simp only [t_lb, PR.bind]
    rw [hu, space0_blank0 w1 60 u hw1 notblank_lt, ← hu, ptargetString_target ht]
    simp only
    rw [sepListGo_more hm _ w2 r hw2 (by simp only [List.length_append]; omega),
      space0_blank0 w2 93 r hw2 (by unfold NotBlank; decide)]
    simp [t_rb]

theorem targets_head {ts : List (List Nat)} {bs : Bytes} (h : DTargets ts bs) (r : Bytes) :
    ∃ y t, bs ++ r = y :: t ∧ NotBlank y := by
  cases h with
  | single t tb ht => obtain ⟨u, hu⟩ := target_head ht r; exact ⟨60, u, hu, notblank_lt⟩
  | array t ts w1 tb more w2 _ _ _ _ =>
    exact ⟨91, w1 ++ tb ++ more ++ w2 ++ [93] ++ r, by simp, by unfold NotBlank; decide⟩

/-! ### lines -/

theorem pair_head {p : Nat × Nat × Nat} {bs : Bytes} (h : DPair p bs) (r : Bytes) : ∃ t, bs ++ r = 60 :: t := by
  cases h with
  | mk lo hi len s1 w s2 d1 _ _ =>
    obtain ⟨t, ht⟩ := src_head d1 (w ++ s2 ++ r)
    exact ⟨t, by simpa using ht⟩

theorem space0_lt (t : Bytes) : space0 (60 :: t) = 60 :: t := by simp [space0]

/-- **`bfchar` lines, every spelling** -/
theorem pbfCharLine_line {l : (Nat × Nat) × List Nat} {bs : Bytes} (h : DCharLine l bs) (x : UInt8) (r : Bytes)
    (hx : NonWs x) : pbfCharLine (bs ++ x :: r) = .ok l (x :: r) := by
  cases h with
  | mk c t s w tb m hs hw ht hm =>
    obtain ⟨u0, hu0⟩ := src_head hs (w ++ (tb ++ (m ++ x :: r)))
    obtain ⟨u, hu⟩ := target_head ht (m ++ x :: r)
    have e : s ++ w ++ tb ++ m ++ x :: r = s ++ (w ++ (tb ++ (m ++ x :: r))) := by simp
    rw [e]
    unfold pbfCharLine
    rw [hu0, space0_lt, ← hu0, psourceCode_src hs]
    simp only [PR.bind]
    rw [hu, space0_blank0 w 60 u hw notblank_lt, ← hu, ptargetString_target ht]
    simp only [PR.bind, pms1_ms1 m x r hm hx]

/-- **`bfrange` lines, every spelling** (single target or array) -/
theorem pbfRangeLine_line {l : (Nat × Nat × Nat) × List (List Nat)} {bs : Bytes} (h : DRangeLine l bs) (x : UInt8)
    (r : Bytes) (hx : NonWs x) : pbfRangeLine (bs ++ x :: r) = .ok l (x :: r) := by
  cases h with
  | mk p ts pb w tb m hp hw ht hm =>
    obtain ⟨u0, hu0⟩ := pair_head hp (w ++ (tb ++ (m ++ x :: r)))
    obtain ⟨y, u, hu, hy⟩ := targets_head ht (m ++ x :: r)
    have e : pb ++ w ++ tb ++ m ++ x :: r = pb ++ (w ++ (tb ++ (m ++ x :: r))) := by simp
    rw [e]
    unfold pbfRangeLine
    rw [hu0, space0_lt, ← hu0, pcodeRangePair_pair hp]
    simp only [PR.bind]
    rw [hu, space0_blank0 w y u hw hy, ← hu, ptargets_targets ht]
    simp only [PR.bind, pms1_ms1 m x r hm hx]

/-- **`codespacerange` lines, every spelling** -/
theorem pcsLine_line {l : Nat × Nat × Nat} {bs : Bytes} (h : DCsLine l bs) (x : UInt8) (r : Bytes) (hx : NonWs x) :
    pcsLine (bs ++ x :: r) = .ok l (x :: r) := by
  cases h with
  | mk pb m hp hm =>
    obtain ⟨u0, hu0⟩ := pair_head hp (m ++ x :: r)
    have e : pb ++ m ++ x :: r = pb ++ (m ++ x :: r) := by simp
    rw [e]
    unfold pcsLine
    rw [hu0, space0_lt, ← hu0, pcodeRangePair_pair hp]
    simp only [PR.bind, pms1_ms1 m x r hm hx]

/-! ### lists of items -/

theorem dlist_length {α : Type} {D : α → Bytes → Prop} (hpos : ∀ a b, D a b → 0 < b.length)
    {ls : List α} {bs : Bytes} (h : DList D ls bs) : ls.length ≤ bs.length := by
  induction h with
  | nil => simp
  | cons a as b bs ha _ ih => have := hpos a b ha; simp only [List.length_cons, List.length_append]; omega

/-- `many0(p)` reads a derivable list of items and stops at `tail` -/
theorem many0Go_dlist {α : Type} (p : Bytes → PR α) (D : α → Bytes → Prop)
    (hp : ∀ a b, D a b → ∀ (x : UInt8) (rest : Bytes), NonWs x → p (b ++ x :: rest) = .ok a (x :: rest))
    (hhead : ∀ a b, D a b → HeadNonWs b)
    (tail : Bytes) (htail : HeadNonWs tail) (hstop : p tail = .error)
    {ls : List α} {bs : Bytes} (h : DList D ls bs) :
    ∀ (fuel : Nat), ls.length ≤ fuel → many0Go p fuel (bs ++ tail) = .ok ls tail := by
  induction h with
  | nil =>
    intro fuel _
    cases fuel with
    | zero => rfl
    | succ f => simp [many0Go, hstop]
  | cons a as b bs ha hrest ih =>
    intro fuel hf
    cases fuel with
    | zero => simp at hf
    | succ f =>
      have hnext : HeadNonWs (bs ++ tail) := by
        cases hrest with
        | nil => simpa using htail
        | cons a' as' b' bs' ha' _ => simpa using ((hhead a' b' ha').append _).append _
      obtain ⟨x, t, e, hx⟩ := hnext
      obtain ⟨y, t', e', _⟩ := hhead a b ha
      have e0 : b ++ bs ++ tail = b ++ (bs ++ tail) := by simp
      rw [e0, e]
      simp only [many0Go, hp a b ha x t hx]
      have hlen : ¬ (x :: t).length ≥ (b ++ x :: t).length := by rw [e']; simp; omega
      simp only [hlen, if_false]
      rw [← e, ih f (by simpa using hf)]
      simp [PR.bind]

/-- `many1(p)` on a non-empty derivable list -/
theorem pmany1_dlist {α : Type} (p : Bytes → PR α) (D : α → Bytes → Prop)
    (hp : ∀ a b, D a b → ∀ (x : UInt8) (rest : Bytes), NonWs x → p (b ++ x :: rest) = .ok a (x :: rest))
    (hhead : ∀ a b, D a b → HeadNonWs b)
    (tail : Bytes) (htail : HeadNonWs tail) (hstop : p tail = .error)
    {ls : List α} {bs : Bytes} (h : DList D ls bs) (hne : ls ≠ []) :
    pmany1 p (bs ++ tail) = .ok ls tail := by
  cases h with
  | nil => exact absurd rfl hne
  | cons a as b bs ha hrest =>
    have hnext : HeadNonWs (bs ++ tail) := by
      cases hrest with
      | nil => simpa using htail
      | cons a' as' b' bs' ha' _ => simpa using ((hhead a' b' ha').append _).append _
    obtain ⟨x, t, e, hx⟩ := hnext
    obtain ⟨y, t', e', _⟩ := hhead a b ha
    have e0 : b ++ bs ++ tail = b ++ (bs ++ tail) := by simp
    have hpos : ∀ a b, D a b → 0 < b.length := by
      intro a b hab; obtain ⟨y, t, e, _⟩ := hhead a b hab; rw [e]; simp
    rw [e0, e]
    unfold pmany1
    simp only [hp a b ha x t hx, PR.bind]
    have hlen : ¬ (x :: t).length ≥ (b ++ x :: t).length := by rw [e']; simp; omega
    simp only [hlen, if_false]
    rw [← e, many0Go_dlist p D hp hhead tail htail hstop hrest _ (by
      have := dlist_length hpos hrest
      simp only [List.length_append]; omega)]

/-! ### sections -/

theorem takeDigits_digits (n : Bytes) (x : UInt8) (r : Bytes) (hn : ∀ b ∈ n, isDigit b = true) (hx : isDigit x = false) :
    takeDigits (n ++ x :: r) = x :: r := by
  induction n with
  | nil => simp [takeDigits, hx]
  | cons b bs ih =>
    simp only [List.cons_append, takeDigits, hn b (by simp), if_true]
    exact ih (fun c hc => hn c (by simp [hc]))

theorem pdigit1_digits (n : Bytes) (x : UInt8) (r : Bytes) (hn : AllDigitsC n) (hx : isDigit x = false) :
    pdigit1 (n ++ x :: r) = .ok () (x :: r) := by
  obtain ⟨hd, hne⟩ := hn
  cases n with
  | nil => exact absurd rfl hne
  | cons b bs =>
    have := takeDigits_digits (b :: bs) x r hd hx
    simp only [List.cons_append] at this ⊢
    simp only [pdigit1, hd b (by simp), if_true, this]

theorem blank_not_digit {b : UInt8} (h : b = 32 ∨ b = 9) : isDigit b = false := by
  rcases h with rfl | rfl <;> decide

theorem blank1_head (w : Bytes) (hw : Blank1 w) (t : Bytes) : ∃ b u, w ++ t = b :: u ∧ isDigit b = false := by
  obtain ⟨h0, hne⟩ := hw
  cases w with
  | nil => exact absurd rfl hne
  | cons b bs => exact ⟨b, bs ++ t, rfl, blank_not_digit (h0 b (by simp))⟩

theorem headNonWs_notblank {l : Bytes} (h : HeadNonWs l) : ∃ y t, l = y :: t ∧ NotBlank y := by
  obtain ⟨y, t, e, hy⟩ := h; exact ⟨y, t, e, nonws_notblank hy⟩

/-- digits, blanks, a keyword: the start of a section, of the resource dictionary, of `/CMapType n` … -/
theorem digits_blank_kw (n w : Bytes) (kw : String) (t : Bytes) (hn : AllDigitsC n) (hw : Blank1 w)
    (hk : HeadNonWs (strBytes kw)) :
    (pdigit1 >>> pspace1 >>> ptagS kw >>> fun i => PR.ok () i) (n ++ (w ++ (strBytes kw ++ t))) = .ok () t := by
  obtain ⟨b, u, hbu, hb⟩ := blank1_head w hw (strBytes kw ++ t)
  obtain ⟨y, v, hyv, hy⟩ := headNonWs_notblank (hk.append t)
  simp only [pthen]
  rw [hbu, pdigit1_digits n b u hn hb, ← hbu]
  simp only [PR.bind]
  rw [hyv, pspace1_blank1 w y v hw hy, ← hyv]
  simp only [PR.bind, ptagS_append]

/-- **a section of any kind, every spelling**, generic in the line parser -/
theorem psectionOf_d {α : Type} (bk ek : String) (line : Bytes → PR α) (D : α → Bytes → Prop)
    (hp : ∀ a b, D a b → ∀ (x : UInt8) (rest : Bytes), NonWs x → line (b ++ x :: rest) = .ok a (x :: rest))
    (hhead : ∀ a b, D a b → HeadNonWs b)
    (hbk : HeadNonWs (strBytes bk)) (hek : HeadNonWs (strBytes ek))
    (hstop : ∀ r, line (strBytes ek ++ r) = .error)
    {ls : List α} {lb : Bytes} (hl : DList D ls lb) (hne : ls ≠ []) (n w m1 m2 : Bytes)
    (hn : AllDigitsC n) (hw : Blank1 w) (hm1 : MS1 m1) (hm2 : MS1 m2) (x : UInt8) (rest : Bytes) (hx : NonWs x) :
    psectionOf bk ek line (n ++ w ++ strBytes bk ++ m1 ++ lb ++ strBytes ek ++ m2 ++ x :: rest) = .ok ls (x :: rest) := by
  have hlb : HeadNonWs (lb ++ (strBytes ek ++ (m2 ++ x :: rest))) := by
    cases hl with
    | nil => exact absurd rfl hne
    | cons a as b bs ha _ => simpa using ((hhead a b ha).append _).append _
  obtain ⟨y, v, hyv, hy⟩ := hlb
  obtain ⟨b, u, hbu, hb⟩ := blank1_head w hw (strBytes bk ++ (m1 ++ (lb ++ (strBytes ek ++ (m2 ++ x :: rest)))))
  obtain ⟨y2, v2, hyv2, hy2⟩ := headNonWs_notblank (hbk.append (m1 ++ (lb ++ (strBytes ek ++ (m2 ++ x :: rest)))))
  have e : n ++ w ++ strBytes bk ++ m1 ++ lb ++ strBytes ek ++ m2 ++ x :: rest =
      n ++ (w ++ (strBytes bk ++ (m1 ++ (lb ++ (strBytes ek ++ (m2 ++ x :: rest)))))) := by simp
  rw [e]
  unfold psectionOf
  simp only [pthen]
  rw [hbu, pdigit1_digits n b u hn hb, ← hbu]
  simp only [PR.bind]
  rw [hyv2, pspace1_blank1 w y2 v2 hw hy2, ← hyv2]
  simp only [PR.bind, ptagS_append]
  rw [hyv, pms1_ms1 m1 y v hm1 hy, ← hyv]
  simp only [PR.bind]
  rw [pmany1_dlist line D hp hhead (strBytes ek ++ (m2 ++ x :: rest)) (hek.append _) (hstop _) hl hne]
  simp only [PR.bind, ptagS_append, pms1_ms1 m2 x rest hm2 hx]

theorem headNonWs_lt (t : Bytes) : HeadNonWs (60 :: t) := ⟨60, t, rfl, nonws_lt⟩

theorem charLine_head {l : (Nat × Nat) × List Nat} {bs : Bytes} (h : DCharLine l bs) : HeadNonWs bs := by
  cases h with
  | mk c t s w tb m hs _ _ _ =>
    obtain ⟨u, hu⟩ := src_head hs (w ++ tb ++ m)
    have : s ++ w ++ tb ++ m = 60 :: u := by simpa using hu
    rw [this]; exact headNonWs_lt u

theorem rangeLine_head {l : (Nat × Nat × Nat) × List (List Nat)} {bs : Bytes} (h : DRangeLine l bs) : HeadNonWs bs := by
  cases h with
  | mk p ts pb w tb m hp _ _ _ =>
    obtain ⟨u, hu⟩ := pair_head hp (w ++ tb ++ m)
    have : pb ++ w ++ tb ++ m = 60 :: u := by simpa using hu
    rw [this]; exact headNonWs_lt u

theorem csLine_head {l : Nat × Nat × Nat} {bs : Bytes} (h : DCsLine l bs) : HeadNonWs bs := by
  cases h with
  | mk pb m hp _ =>
    obtain ⟨u, hu⟩ := pair_head hp m
    rw [hu]; exact headNonWs_lt u

theorem hn_begincodespacerange : HeadNonWs (strBytes "begincodespacerange") := by
  rw [kwb_begincodespacerange]; exact headNonWs_cons nonws_b _
theorem hn_endcodespacerange : HeadNonWs (strBytes "endcodespacerange") := by
  rw [kwb_endcodespacerange]; exact headNonWs_cons nonws_e _
theorem hn_beginbfchar : HeadNonWs (strBytes "beginbfchar") := by rw [kwb_beginbfchar]; exact headNonWs_cons nonws_b _
theorem hn_endbfchar : HeadNonWs (strBytes "endbfchar") := by rw [kwb_endbfchar]; exact headNonWs_cons nonws_e _
theorem hn_beginbfrange : HeadNonWs (strBytes "beginbfrange") := by rw [kwb_beginbfrange]; exact headNonWs_cons nonws_b _
theorem hn_endbfrange : HeadNonWs (strBytes "endbfrange") := by rw [kwb_endbfrange]; exact headNonWs_cons nonws_e _

/-- a section parser fails on a section that starts with ANOTHER keyword -/
theorem psectionOf_other_kw {α : Type} (bk ek : String) (line : Bytes → PR α) (k : String) (n w t : Bytes)
    (hn : AllDigitsC n) (hw : Blank1 w) (hk : HeadNonWs (strBytes k)) (hne : ∀ r', ptagS bk (strBytes k ++ r') = .error) :
    psectionOf bk ek line (n ++ (w ++ (strBytes k ++ t))) = .error := by
  obtain ⟨b, u, hbu, hb⟩ := blank1_head w hw (strBytes k ++ t)
  obtain ⟨y, v, hyv, hy⟩ := headNonWs_notblank (hk.append t)
  unfold psectionOf
  simp only [pthen]
  rw [hbu, pdigit1_digits n b u hn hb, ← hbu]
  simp only [PR.bind]
  rw [hyv, pspace1_blank1 w y v hw hy, ← hyv]
  simp only [PR.bind, hne]

/-- **The `alt` of the three section parsers reads every section of any kind in every spelling.** -/
theorem psectionAlt_d {s : Section} {bs : Bytes} (h : DSection s bs) (x : UInt8) (rest : Bytes) (hx : NonWs x) :
    palt pcsSection (palt pbfCharSection pbfRangeSection) (bs ++ x :: rest) = .ok s (x :: rest) := by
  cases h with
  | cs ls n w m1 lb m2 hn hw hm1 hne hl hm2 =>
    have := psectionOf_d "begincodespacerange" "endcodespacerange" pcsLine DCsLine
      (fun a b hab x r hx => pcsLine_line hab x r hx) (fun a b hab => csLine_head hab)
      hn_begincodespacerange hn_endcodespacerange
      (fun r => by rw [kwb_endcodespacerange]; exact (line_stops nonws_e (by decide) _).2.2)
      hl hne n w m1 m2 hn hw hm1 hm2 x rest hx
    simp only [palt, pcsSection, this, PR.bind]
  | bfChar ls n w m1 lb m2 hn hw hm1 hne hl hm2 =>
    have e : n ++ w ++ strBytes "beginbfchar" ++ m1 ++ lb ++ strBytes "endbfchar" ++ m2 ++ x :: rest =
        n ++ (w ++ (strBytes "beginbfchar" ++ (m1 ++ lb ++ strBytes "endbfchar" ++ m2 ++ x :: rest))) := by simp
    have e1 : pcsSection (n ++ w ++ strBytes "beginbfchar" ++ m1 ++ lb ++ strBytes "endbfchar" ++ m2 ++ x :: rest) = .error := by
      unfold pcsSection
      rw [e, psectionOf_other_kw _ _ _ "beginbfchar" n w _ hn hw hn_beginbfchar tag_cs_vs_char]
      rfl
    have := psectionOf_d "beginbfchar" "endbfchar" pbfCharLine DCharLine
      (fun a b hab x r hx => pbfCharLine_line hab x r hx) (fun a b hab => charLine_head hab)
      hn_beginbfchar hn_endbfchar
      (fun r => by rw [kwb_endbfchar]; exact (line_stops nonws_e (by decide) _).1)
      hl hne n w m1 m2 hn hw hm1 hm2 x rest hx
    simp only [palt, e1, pbfCharSection, this, PR.bind]
  | bfRange ls n w m1 lb m2 hn hw hm1 hne hl hm2 =>
    have e : n ++ w ++ strBytes "beginbfrange" ++ m1 ++ lb ++ strBytes "endbfrange" ++ m2 ++ x :: rest =
        n ++ (w ++ (strBytes "beginbfrange" ++ (m1 ++ lb ++ strBytes "endbfrange" ++ m2 ++ x :: rest))) := by simp
    have e1 : pcsSection (n ++ w ++ strBytes "beginbfrange" ++ m1 ++ lb ++ strBytes "endbfrange" ++ m2 ++ x :: rest) = .error := by
      unfold pcsSection
      rw [e, psectionOf_other_kw _ _ _ "beginbfrange" n w _ hn hw hn_beginbfrange tag_cs_vs_range]
      rfl
    have e2 : pbfCharSection (n ++ w ++ strBytes "beginbfrange" ++ m1 ++ lb ++ strBytes "endbfrange" ++ m2 ++ x :: rest) = .error := by
      unfold pbfCharSection
      rw [e, psectionOf_other_kw _ _ _ "beginbfrange" n w _ hn hw hn_beginbfrange tag_char_vs_range]
      rfl
    have := psectionOf_d "beginbfrange" "endbfrange" pbfRangeLine DRangeLine
      (fun a b hab x r hx => pbfRangeLine_line hab x r hx) (fun a b hab => rangeLine_head hab)
      hn_beginbfrange hn_endbfrange
      (fun r => by rw [kwb_endbfrange]; exact (line_stops nonws_e (by decide) _).2.1)
      hl hne n w m1 m2 hn hw hm1 hm2 x rest hx
    simp only [palt, e1, e2, pbfRangeSection, this, PR.bind]

theorem section_head {s : Section} {bs : Bytes} (h : DSection s bs) : HeadNonWs bs := by
  have key : ∀ (n t : Bytes), AllDigitsC n → HeadNonWs (n ++ t) := by
    intro n t hn
    obtain ⟨hd, hne⟩ := hn
    cases n with
    | nil => exact absurd rfl hne
    | cons b bs => exact ⟨b, bs ++ t, rfl, digit_nonws b (hd b (by simp))⟩
  cases h with
  | cs ls n w m1 lb m2 hn _ _ _ _ _ =>
    have := key n (w ++ strBytes "begincodespacerange" ++ m1 ++ lb ++ strBytes "endcodespacerange" ++ m2) hn
    simpa using this
  | bfChar ls n w m1 lb m2 hn _ _ _ _ _ =>
    have := key n (w ++ strBytes "beginbfchar" ++ m1 ++ lb ++ strBytes "endbfchar" ++ m2) hn
    simpa using this
  | bfRange ls n w m1 lb m2 hn _ _ _ _ _ =>
    have := key n (w ++ strBytes "beginbfrange" ++ m1 ++ lb ++ strBytes "endbfrange" ++ m2) hn
    simpa using this

/-- **`cmap_codespace_and_mappings`, every spelling**: one or more sections of any kinds in any
order, followed by text that starts with a non-digit, non-blank byte (`endcmap`). -/
theorem psections_d {ss : List Section} {bs : Bytes} (h : DList DSection ss bs) (hne : ss ≠ [])
    {y : UInt8} (hy : NonWs y) (hd : isDigit y = false) (t : Bytes) :
    psections (bs ++ y :: t) = .ok ss (y :: t) := by
  unfold psections
  exact pmany1_dlist _ DSection (fun s b hsb x r hx => psectionAlt_d hsb x r hx) (fun s b hsb => section_head hsb)
    (y :: t) (headNonWs_cons hy t) (psectionAlt_stops hd t) h hne

/-! ### separators in front of a token -/

theorem pspace1_tok (w l : Bytes) (hw : Blank1 w) (hl : HeadNonWs l) : pspace1 (w ++ l) = .ok () l := by
  obtain ⟨y, t, e, hy⟩ := hl; rw [e]; exact pspace1_blank1 w y t hw (nonws_notblank hy)
theorem space0_tok (w l : Bytes) (hw : Blank0 w) (hl : HeadNonWs l) : space0 (w ++ l) = l := by
  obtain ⟨y, t, e, hy⟩ := hl; rw [e]; exact space0_blank0 w y t hw (nonws_notblank hy)
theorem pms1_tok (m l : Bytes) (hm : MS1 m) (hl : HeadNonWs l) : pms1 (m ++ l) = .ok () l := by
  obtain ⟨y, t, e, hy⟩ := hl; rw [e]; exact pms1_ms1 m y t hm hy
theorem ms0_tok (m l : Bytes) (hm : MS m) (hl : HeadNonWs l) : multispace0 (m ++ l) = l := by
  obtain ⟨y, t, e, hy⟩ := hl; rw [e]; exact ms0_ms m y t hm hy

/-! ### metadata -/

theorem nameBody_plain (nm : Bytes) (h : PlainName nm) (b : UInt8) (r : Bytes) (hb : b = 32 ∨ b = 9) :
    nameBody (nm ++ b :: r) = b :: r := by
  induction nm with
  | nil =>
    have h1 : isRegular b = false := by rcases hb with rfl | rfl <;> decide
    have h2 : ¬ (b = 35) := by rcases hb with rfl | rfl <;> decide
    rw [List.nil_append]
    unfold nameBody
    simp only [h2, if_false, h1, Bool.false_eq_true]
  | cons c cs ih =>
    obtain ⟨h1, h2⟩ := h c List.mem_cons_self
    rw [List.cons_append]
    unfold nameBody
    simp only [h2, if_false, h1, if_true]
    exact ih (fun x hx => h x (List.mem_cons_of_mem _ hx))

theorem kw_slash : strBytes "/" = [47] := by decide +kernel

/-! ### the `/CIDSystemInfo` dictionary -/

def PNonWs (x : UInt8) : Prop := WHITESPACE.contains x = false ∧ x ≠ 37

theorem pdfSpaceGo_ps {w : Bytes} (h : PS w) : ∀ (fuel : Nat) (x : UInt8) (r : Bytes), PNonWs x → w.length < fuel →
    pdfSpaceGo fuel (w ++ x :: r) = x :: r := by
  induction h with
  | nil =>
    intro fuel x r hx hf
    match fuel, hf with
    | f + 1, _ => simp only [List.nil_append, pdfSpaceGo, hx.1, Bool.false_eq_true, if_false, hx.2]
  | ws b bs hb _ ih =>
    intro fuel x r hx hf
    match fuel, hf with
    | f + 1, hf =>
      have hc : WHITESPACE.contains b = true := by rcases hb with rfl | rfl | rfl | rfl | rfl | rfl <;> decide
      simp only [List.cons_append, pdfSpaceGo, hc, if_true]
      exact ih f x r hx (by simp at hf; omega)
  | comment body e bs hbody he _ ih =>
    intro fuel x r hx hf
    match fuel, hf with
    | f + 1, hf =>
      have e1 : (37 :: body ++ e :: bs) ++ x :: r = 37 :: (body ++ e :: (bs ++ x :: r)) := by simp
      have h37 : WHITESPACE.contains (37 : UInt8) = false := by decide
      rw [e1]
      simp only [pdfSpaceGo, h37, Bool.false_eq_true, if_false, if_true, skipToEol_body body e _ hbody he]
      exact ih f x r hx (by simp at hf; omega)

theorem pdfSpace_ps (w : Bytes) (x : UInt8) (r : Bytes) (h : PS w) (hx : PNonWs x) : pdfSpace (w ++ x :: r) = x :: r := by
  unfold pdfSpace
  exact pdfSpaceGo_ps h _ x r hx (by simp only [List.length_append, List.length_cons]; omega)

theorem nameBody_stop (nm : Bytes) (h : PlainName nm) (b : UInt8) (r : Bytes) (hb : CMap.isRegular b = false) :
    nameBody (nm ++ b :: r) = b :: r := by
  have h35 : ¬ (b = 35) := by intro e; subst e; revert hb; decide
  induction nm with
  | nil =>
    rw [List.nil_append]
    unfold nameBody
    simp only [h35, if_false, hb, Bool.false_eq_true]
  | cons c cs ih =>
    obtain ⟨h1, h2⟩ := h c List.mem_cons_self
    rw [List.cons_append]
    unfold nameBody
    simp only [h2, if_false, h1, if_true]
    exact ih (fun x hx => h x (List.mem_cons_of_mem _ hx))

/-- first byte of PDF white space, or of what follows it, is not regular -/
theorem ps_head_nonregular (sp : Bytes) (x : UInt8) (r : Bytes) (hsp : PS sp) (hx : CMap.isRegular x = false) :
    ∃ b t, sp ++ x :: r = b :: t ∧ CMap.isRegular b = false ∧ isDigit b = false := by
  have hxd : isDigit x = false := by
    revert hx; revert x
    have : ∀ x : UInt8, CMap.isRegular x = false → isDigit x = false := by apply Lopdf.forall_uint8; decide +kernel
    exact this
  cases hsp with
  | nil => exact ⟨x, r, rfl, hx, hxd⟩
  | ws b bs hb _ =>
    exact ⟨b, bs ++ x :: r, rfl, by rcases hb with rfl | rfl | rfl | rfl | rfl | rfl <;> decide,
      by rcases hb with rfl | rfl | rfl | rfl | rfl | rfl <;> decide⟩
  | comment body e bs _ _ _ => exact ⟨37, body ++ e :: bs ++ x :: r, by simp, by decide, by decide⟩

theorem simpleLit_d (cs : Bytes) (r : Bytes) (h : ∀ c ∈ cs, c ≠ 40 ∧ c ≠ 41 ∧ c ≠ 92 ∧ c ≠ 13 ∧ c ≠ 10) :
    simpleLit (cs ++ 41 :: r) = some r := by
  induction cs with
  | nil => simp [simpleLit]
  | cons c cs ih =>
    obtain ⟨h1, h2, h3, h4, h5⟩ := h c List.mem_cons_self
    have hn : NOT_DIRECT_LITERAL.contains c = false := by
      simp [NOT_DIRECT_LITERAL, h1, h2, h3, h4, h5]
    simp only [List.cons_append, simpleLit, h2, if_false, hn, Bool.false_eq_true]
    exact ih (fun x hx => h x (List.mem_cons_of_mem _ hx))

/-- what may follow an entry: the `/` of the next key or the closing `>>` -/
def EntryStop (x : UInt8) : Prop := x = 47 ∨ x = 62

theorem entryStop_facts {x : UInt8} (h : EntryStop x) :
    PNonWs x ∧ CMap.isRegular x = false ∧ isDigit x = false ∧ x ≠ 46 ∧ NonWs x := by
  rcases h with rfl | rfl <;> (unfold PNonWs NonWs; decide)

theorem psimpleValue_d {v : Bytes} (h : DSimpleValue v) (sp : Bytes) (x : UInt8) (r : Bytes) (hsp : PS sp)
    (hx : EntryStop x) : psimpleValue (v ++ (sp ++ x :: r)) = .ok () (x :: r) := by
  obtain ⟨hp, hreg, hxd, hx46, _⟩ := entryStop_facts hx
  match h with
  | .lit cs hcs =>
    have e : 40 :: cs ++ [41] ++ (sp ++ x :: r) = 40 :: (cs ++ 41 :: (sp ++ x :: r)) := by simp
    rw [e]
    simp only [psimpleValue, if_true, simpleLit_d cs _ hcs, pdfSpace_ps sp x r hsp hp]
  | .int n hn =>
    obtain ⟨d, u, hdu, hd⟩ := digits_head n (sp ++ x :: r) hn
    obtain ⟨b, t, hbt, _, hbd⟩ := ps_head_nonregular sp x r hsp hreg
    have htd : takeDigits (n ++ (sp ++ x :: r)) = sp ++ x :: r := by
      rw [hbt]; exact takeDigits_digits n b t hn.1 hbd
    have h40 : ¬ (d = 40) := by intro e; subst e; simp [isDigit] at hd
    rw [hdu]
    simp only [psimpleValue, h40, if_false, hd, if_true]
    rw [← hdu, htd, pdfSpace_ps sp x r hsp hp]
    simp [hxd, hx46]
  | .name nm hnm =>
    obtain ⟨b, t, hbt, hbr, _⟩ := ps_head_nonregular sp x r hsp hreg
    have h40 : ¬ ((47 : UInt8) = 40) := by decide
    have hd47 : isDigit 47 = false := by decide
    have e : 47 :: nm ++ (sp ++ x :: r) = 47 :: (nm ++ (sp ++ x :: r)) := by simp
    rw [e]
    simp only [psimpleValue, h40, if_false, hd47, Bool.false_eq_true, if_true]
    rw [hbt, nameBody_stop nm hnm b t hbr, ← hbt, pdfSpace_ps sp x r hsp hp]

theorem kw_slash' : strBytes "/" = [47] := by decide +kernel
theorem t_slash (t : Bytes) : ptagS "/" (47 :: t) = .ok () t := by
  have := ptagS_append "/" t; rwa [kw_slash'] at this

theorem value_head {v : Bytes} (h : DSimpleValue v) (t : Bytes) :
    ∃ c u, v ++ t = c :: u ∧ PNonWs c ∧ (CMap.isRegular c = true → isDigit c = true) := by
  match h with
  | .lit cs _ => exact ⟨40, cs ++ [41] ++ t, by simp, by unfold PNonWs; decide, by decide⟩
  | .int n hn =>
    obtain ⟨d, u, e, hd⟩ := digits_head n t hn
    refine ⟨d, u, e, ?_, fun _ => hd⟩
    have : ∀ d : UInt8, isDigit d = true → WHITESPACE.contains d = false ∧ d ≠ 37 := by
      apply Lopdf.forall_uint8; decide +kernel
    exact this d hd
  | .name nm _ => exact ⟨47, nm ++ t, by simp, by unfold PNonWs; decide, by decide⟩

/-- **an entry of the `/CIDSystemInfo` dictionary, every spelling** -/
theorem pdictEntry_d {bs : Bytes} (h : DDictEntry bs) (x : UInt8) (r : Bytes) (hx : EntryStop x) :
    pdictEntry (bs ++ x :: r) = .ok () (x :: r) := by
  cases h with
  | mk nm sp1 v sp2 hnm hsp1 hv hsep hsp2 =>
    obtain ⟨c, u, hcu, hcp, hcreg⟩ := value_head hv (sp2 ++ x :: r)
    have e : 47 :: nm ++ sp1 ++ v ++ sp2 ++ x :: r = 47 :: (nm ++ (sp1 ++ (v ++ (sp2 ++ x :: r)))) := by simp
    -- the name stops at the white space, or at the delimiter that starts the value
    have hstop : ∃ b t, sp1 ++ (v ++ (sp2 ++ x :: r)) = b :: t ∧ CMap.isRegular b = false := by
      cases hsp1 with
      | nil =>
        rcases hsep with h | ⟨t, ht⟩ | ⟨t, ht⟩
        · exact absurd rfl h
        · subst ht; exact ⟨40, t ++ (sp2 ++ x :: r), by simp, by decide⟩
        · subst ht; exact ⟨47, t ++ (sp2 ++ x :: r), by simp, by decide⟩
      | ws b bs hb _ =>
        exact ⟨b, bs ++ (v ++ (sp2 ++ x :: r)), by simp, by rcases hb with rfl | rfl | rfl | rfl | rfl | rfl <;> decide⟩
      | comment body e' bs _ _ _ => exact ⟨37, body ++ e' :: bs ++ (v ++ (sp2 ++ x :: r)), by simp, by decide⟩
    obtain ⟨b, t, hbt, hbr⟩ := hstop
    rw [e]
    unfold pdictEntry pname
    simp only [t_slash, PR.bind]
    rw [hbt, nameBody_stop nm hnm b t hbr, ← hbt, hcu, pdfSpace_ps sp1 c u hsp1 hcp, ← hcu]
    exact psimpleValue_d hv sp2 x r hsp2 hx

theorem entry_head {bs : Bytes} (h : DDictEntry bs) : ∃ t, bs = 47 :: t := by
  cases h with
  | mk nm sp1 v sp2 _ _ _ _ _ => exact ⟨nm ++ sp1 ++ v ++ sp2, by simp⟩

theorem pdictEntry_stop (t : Bytes) : pdictEntry (62 :: t) = .error := by
  have : ptagS "/" (62 :: t) = .error := ptagS_head_ne "/" 47 [] kw_slash' (by decide) t
  simp [pdictEntry, pname, this, PR.bind]

/-- the entries up to `>>` -/
theorem many0Go_entries {el : List Unit} {bs : Bytes} (h : DList (fun (_ : Unit) => DDictEntry) el bs) :
    ∀ (fuel : Nat) (t : Bytes), el.length ≤ fuel → many0Go pdictEntry fuel (bs ++ 62 :: t) = .ok el (62 :: t) := by
  induction h with
  | nil =>
    intro fuel t _
    cases fuel with
    | zero => rfl
    | succ f => simp [many0Go, pdictEntry_stop]
  | cons a as b bs ha hrest ih =>
    intro fuel t hf
    cases fuel with
    | zero => simp at hf
    | succ f =>
      have hnext : ∃ x u, bs ++ 62 :: t = x :: u ∧ EntryStop x := by
        cases hrest with
        | nil => exact ⟨62, t, rfl, Or.inr rfl⟩
        | cons a' as' b' bs' ha' _ =>
          obtain ⟨u, hu⟩ := entry_head ha'
          exact ⟨47, u ++ bs' ++ 62 :: t, by rw [hu]; simp, Or.inl rfl⟩
      obtain ⟨x, u, hxu, hx⟩ := hnext
      obtain ⟨v, hv⟩ := entry_head ha
      have e0 : b ++ bs ++ 62 :: t = b ++ (bs ++ 62 :: t) := by simp
      rw [e0, hxu]
      simp only [many0Go, pdictEntry_d ha x u hx]
      have hlen : ¬ (x :: u).length ≥ (b ++ x :: u).length := by rw [hv]; simp; omega
      simp only [hlen, if_false]
      rw [← hxu, ih f t (by simpa using hf)]
      cases a
      simp [PR.bind]

theorem entries_length {el : List Unit} {bs : Bytes} (h : DList (fun (_ : Unit) => DDictEntry) el bs) :
    el.length ≤ bs.length :=
  dlist_length (fun _ b hb => by obtain ⟨t, ht⟩ := entry_head hb; rw [ht]; simp) h

theorem kw_ltlt : strBytes "<<" = [60, 60] := by decide +kernel
theorem kw_gtgt : strBytes ">>" = [62, 62] := by decide +kernel

/-- `/CIDSystemInfo << … >> def` -/
theorem pcidSystemInfo_d (m0 sp0 ents m1 m2 : Bytes) (el : List Unit) (hm0 : MS m0) (hsp0 : PS sp0)
    (hents : DList (fun (_ : Unit) => DDictEntry) el ents) (hm1 : MS1 m1) (hm2 : MS1 m2)
    (x : UInt8) (r : Bytes) (hx : NonWs x) :
    pcidSystemInfo (strBytes "/CIDSystemInfo" ++ (m0 ++ (60 :: 60 :: (sp0 ++ (ents ++ (62 :: 62 :: (m1 ++ (strBytes "def" ++ (m2 ++ x :: r)))))))))
      = .ok () (x :: r) := by
  have hdict : pdictionary (60 :: 60 :: (sp0 ++ (ents ++ (62 :: 62 :: (m1 ++ (strBytes "def" ++ (m2 ++ x :: r))))))) =
      .ok () (m1 ++ (strBytes "def" ++ (m2 ++ x :: r))) := by
    have h1 : ptagS "<<" (60 :: 60 :: (sp0 ++ (ents ++ (62 :: 62 :: (m1 ++ (strBytes "def" ++ (m2 ++ x :: r))))))) =
        .ok () (sp0 ++ (ents ++ (62 :: 62 :: (m1 ++ (strBytes "def" ++ (m2 ++ x :: r)))))) := by
      have := ptagS_append "<<" (sp0 ++ (ents ++ (62 :: 62 :: (m1 ++ (strBytes "def" ++ (m2 ++ x :: r))))))
      rwa [kw_ltlt] at this
    have h2 : ptagS ">>" (62 :: 62 :: (m1 ++ (strBytes "def" ++ (m2 ++ x :: r)))) = .ok () (m1 ++ (strBytes "def" ++ (m2 ++ x :: r))) := by
      have := ptagS_append ">>" (m1 ++ (strBytes "def" ++ (m2 ++ x :: r)))
      rwa [kw_gtgt] at this
    have hhead : ∃ c u, ents ++ (62 :: 62 :: (m1 ++ (strBytes "def" ++ (m2 ++ x :: r)))) = c :: u ∧ PNonWs c := by
      cases hents with
      | nil => exact ⟨62, _, rfl, by unfold PNonWs; decide⟩
      | cons a as b bs ha _ =>
        obtain ⟨u, hu⟩ := entry_head ha
        exact ⟨47, u ++ bs ++ (62 :: 62 :: (m1 ++ (strBytes "def" ++ (m2 ++ x :: r)))), by rw [hu]; simp, by unfold PNonWs; decide⟩
    obtain ⟨c, u, hcu, hc⟩ := hhead
    have hl := entries_length hents
    unfold pdictionary
    simp only [h1, PR.bind]
    rw [hcu, pdfSpace_ps sp0 c u hsp0 hc, ← hcu,
      many0Go_entries hents _ (62 :: (m1 ++ (strBytes "def" ++ (m2 ++ x :: r)))) (by simp only [List.length_append]; omega)]
    simp only [PR.bind, h2]
  unfold pcidSystemInfo
  simp only [pthen, ptagS_append, PR.bind, pms0]
  rw [ms0_tok m0 _ hm0 ⟨60, _, rfl, nonws_lt⟩]
  simp only [palt, hdict]
  rw [pms1_tok m1 _ hm1 (hn_def.append _)]
  simp only [PR.bind, ptagS_append, pms1_ms1 m2 x r hm2 hx]

theorem meta_head {bs : Bytes} (h : DMeta bs) : ∃ t, bs = 47 :: t := by
  cases h with
  | cid m0 sp0 ents m1 m2 el _ _ _ _ _ =>
    exact ⟨(strBytes "/CIDSystemInfo").tail ++ m0 ++ [60, 60] ++ sp0 ++ ents ++ [62, 62] ++ m1 ++ strBytes "def" ++ m2,
      by rw [kwb_s_CIDSystemInfo]; rfl⟩
  | name w0 nm w1 m _ _ _ _ =>
    exact ⟨(strBytes "/CMapName").tail ++ w0 ++ 47 :: nm ++ w1 ++ strBytes "def" ++ m, by rw [kwb_s_CMapName]; rfl⟩
  | type w0 n w1 m _ _ _ _ =>
    exact ⟨(strBytes "/CMapType").tail ++ w0 ++ n ++ w1 ++ strBytes "def" ++ m, by rw [kwb_s_CMapType]; rfl⟩

theorem pdigit1_tok (n w t : Bytes) (hn : AllDigitsC n) (hw : Blank1 w) : pdigit1 (n ++ (w ++ t)) = .ok () (w ++ t) := by
  obtain ⟨b, u, hbu, hb⟩ := blank1_head w hw t
  rw [hbu]; exact pdigit1_digits n b u hn hb

/-- `/CMapName /name def` -/
theorem pcmapName_d (w0 nm w1 m : Bytes) (hw0 : Blank0 w0) (hnm : PlainName nm) (hw1 : Blank1 w1) (hm : MS1 m)
    (x : UInt8) (r : Bytes) (hx : NonWs x) :
    pcmapName (strBytes "/CMapName" ++ (w0 ++ (47 :: (nm ++ (w1 ++ (strBytes "def" ++ (m ++ x :: r))))))) = .ok () (x :: r) := by
  have h47 : NotBlank 47 := by unfold NotBlank; decide
  have hslash : ∀ t : Bytes, ptagS "/" (47 :: t) = .ok () t := fun t => by
    have := ptagS_append "/" t; rwa [kw_slash] at this
  have hnb : nameBody (nm ++ (w1 ++ (strBytes "def" ++ (m ++ x :: r)))) = w1 ++ (strBytes "def" ++ (m ++ x :: r)) := by
    obtain ⟨hb0, hne⟩ := hw1
    cases w1 with
    | nil => exact absurd rfl hne
    | cons b bs' => exact nameBody_plain nm hnm b _ (hb0 b (by simp))
  unfold pcmapName
  simp only [pthen, ptagS_append, PR.bind, pspace0, space0_blank0 w0 47 _ hw0 h47, pname, hslash, hnb]
  rw [pspace1_tok w1 _ hw1 (hn_def.append _)]
  simp only [PR.bind, ptagS_append, pms1_ms1 m x r hm hx]

/-- `/CMapType n def` -/
theorem pcmapType_d (w0 n w1 m : Bytes) (hw0 : Blank1 w0) (hn : AllDigitsC n) (hw1 : Blank1 w1) (hm : MS1 m)
    (x : UInt8) (r : Bytes) (hx : NonWs x) :
    pcmapType (strBytes "/CMapType" ++ (w0 ++ (n ++ (w1 ++ (strBytes "def" ++ (m ++ x :: r)))))) = .ok () (x :: r) := by
  unfold pcmapType
  simp only [pthen, ptagS_append, PR.bind]
  rw [pspace1_tok w0 _ hw0 (digits_headNonWs n _ hn)]
  simp only [PR.bind]
  rw [pdigit1_tok n w1 _ hn hw1]
  simp only [PR.bind]
  rw [pspace1_tok w1 _ hw1 (hn_def.append _)]
  simp only [PR.bind, ptagS_append, pms1_ms1 m x r hm hx]

/-- **a metadata item, every spelling** -/
theorem pmetaItem_d {bs : Bytes} (h : DMeta bs) (x : UInt8) (r : Bytes) (hx : NonWs x) :
    pmetaItem (bs ++ x :: r) = .ok () (x :: r) := by
  cases h with
  | cid m0 sp0 ents m1 m2 el hm0 hsp0 hents hm1 hm2 =>
    have e : strBytes "/CIDSystemInfo" ++ m0 ++ [60, 60] ++ sp0 ++ ents ++ [62, 62] ++ m1 ++ strBytes "def" ++ m2 ++ x :: r =
        strBytes "/CIDSystemInfo" ++ (m0 ++ (60 :: 60 :: (sp0 ++ (ents ++ (62 :: 62 :: (m1 ++ (strBytes "def" ++ (m2 ++ x :: r)))))))) := by
      simp
    rw [e]
    simp only [pmetaItem, palt, pcidSystemInfo_d m0 sp0 ents m1 m2 el hm0 hsp0 hents hm1 hm2 x r hx]
  | name w0 nm w1 m hw0 hnm hw1 hm =>
    have e : strBytes "/CMapName" ++ w0 ++ 47 :: nm ++ w1 ++ strBytes "def" ++ m ++ x :: r =
        strBytes "/CMapName" ++ (w0 ++ (47 :: (nm ++ (w1 ++ (strBytes "def" ++ (m ++ x :: r)))))) := by simp
    have e1 : pcidSystemInfo (strBytes "/CMapName" ++ (w0 ++ (47 :: (nm ++ (w1 ++ (strBytes "def" ++ (m ++ x :: r))))))) = .error := by
      simp only [pcidSystemInfo, pthen, tag_cid_vs_name, PR.bind]
    rw [e]
    simp only [pmetaItem, palt, e1, pcmapName_d w0 nm w1 m hw0 hnm hw1 hm x r hx]
  | type w0 n w1 m hw0 hn hw1 hm =>
    have e : strBytes "/CMapType" ++ w0 ++ n ++ w1 ++ strBytes "def" ++ m ++ x :: r =
        strBytes "/CMapType" ++ (w0 ++ (n ++ (w1 ++ (strBytes "def" ++ (m ++ x :: r))))) := by simp
    have e1 : pcidSystemInfo (strBytes "/CMapType" ++ (w0 ++ (n ++ (w1 ++ (strBytes "def" ++ (m ++ x :: r)))))) = .error := by
      simp only [pcidSystemInfo, pthen, tag_cid_vs_type, PR.bind]
    have e2 : pcmapName (strBytes "/CMapType" ++ (w0 ++ (n ++ (w1 ++ (strBytes "def" ++ (m ++ x :: r)))))) = .error := by
      simp only [pcmapName, pthen, tag_name_vs_type, PR.bind]
    rw [e]
    simp only [pmetaItem, palt, e1, e2, pcmapType_d w0 n w1 m hw0 hn hw1 hm x r hx]

theorem pmetaItem_stop (y : UInt8) (t : Bytes) (hy : y ≠ 47) : pmetaItem (y :: t) = .error := by
  have e1 := ptagS_head_ne "/CIDSystemInfo" 47 _ (by rw [kwb_s_CIDSystemInfo]) (Ne.symm hy) t
  have e2 := ptagS_head_ne "/CMapName" 47 _ (by rw [kwb_s_CMapName]) (Ne.symm hy) t
  have e3 := ptagS_head_ne "/CMapType" 47 _ (by rw [kwb_s_CMapType]) (Ne.symm hy) t
  simp only [pmetaItem, pcidSystemInfo, pcmapName, pcmapType, palt, pthen, e1, e2, e3, PR.bind]

theorem nonws_slash : NonWs 47 := by unfold NonWs; decide

/-- the metadata items up to the first section -/
theorem pmetaGo_d {ls : List Unit} {bs : Bytes} (h : DList (fun (_ : Unit) => DMeta) ls bs) :
    ∀ (n : Nat) (y : UInt8) (t : Bytes), ls.length ≤ n → NonWs y → y ≠ 47 →
    pmetaGo n (bs ++ y :: t) = .ok ls.length (y :: t) := by
  induction h with
  | nil =>
    intro n y t _ _ hy47
    cases n with
    | zero => rfl
    | succ n => simp [pmetaGo, pmetaItem_stop y t hy47]
  | cons a as b bs ha hrest ih =>
    intro n y t hn hy hy47
    cases n with
    | zero => simp at hn
    | succ n =>
      have hnext : ∃ x u, bs ++ y :: t = x :: u ∧ NonWs x := by
        cases hrest with
        | nil => exact ⟨y, t, rfl, hy⟩
        | cons a' as' b' bs' ha' _ =>
          obtain ⟨u, hu⟩ := meta_head ha'
          exact ⟨47, u ++ bs' ++ y :: t, by rw [hu]; simp, nonws_slash⟩
      obtain ⟨x, u, hxu, hx⟩ := hnext
      obtain ⟨v, hv⟩ := meta_head ha
      have e0 : b ++ bs ++ y :: t = b ++ (bs ++ y :: t) := by simp
      rw [e0, hxu]
      simp only [pmetaGo, pmetaItem_d ha x u hx]
      have hlen : ¬ (x :: u).length ≥ (b ++ x :: u).length := by rw [hv]; simp; omega
      simp only [hlen, if_false]
      rw [← hxu, ih n y t (by simpa using hn) hy hy47]
      simp [PR.bind]

/-! ### the frame -/

theorem kwb_ProcSet : strBytes "/ProcSet" = [47, 80, 114, 111, 99, 83, 101, 116] := by decide +kernel
theorem kwb_Procset : strBytes "/Procset" = [47, 80, 114, 111, 99, 115, 101, 116] := by decide +kernel
theorem tag_ProcSet_vs_Procset (r : Bytes) : ptagS "/ProcSet" (strBytes "/Procset" ++ r) = .error := by
  unfold ptagS; rw [kwb_ProcSet, kwb_Procset]; simp [ptag, List.isPrefixOf]
theorem hn_s_Procset : HeadNonWs (strBytes "/Procset") := by
  rw [kwb_Procset]; exact headNonWs_cons nonws_slash _

/-- the first line: `/CIDInit /ProcSet findresource begin` with free separators -/
theorem frame_procset (m0 b1 ps b2 b3 m1 T : Bytes) (hm0 : MS m0) (hb1 : Blank0 b1)
    (hps : ps = strBytes "/ProcSet" ∨ ps = strBytes "/Procset") (hb2 : Blank1 b2) (hb3 : Blank1 b3) (hm1 : MS1 m1)
    (hT : HeadNonWs T) :
    pcidinitProcset (m0 ++ (strBytes "/CIDInit" ++ (b1 ++ (ps ++ (b2 ++ (strBytes "findresource" ++ (b3 ++
      (strBytes "begin" ++ (m1 ++ T))))))))) = .ok () T := by
  have hps' : HeadNonWs ps := by rcases hps with rfl | rfl; exact hn_s_ProcSet; exact hn_s_Procset
  have hpsalt : ∀ t : Bytes, palt (ptagS "/ProcSet") (ptagS "/Procset") (ps ++ t) = .ok () t := by
    intro t
    rcases hps with rfl | rfl
    · simp only [palt, ptagS_append]
    · simp only [palt, tag_ProcSet_vs_Procset, ptagS_append]
  unfold pcidinitProcset
  simp only [pthen, pms0, pspace0, PR.bind]
  rw [ms0_tok m0 _ hm0 (hn_s_CIDInit.append _)]
  simp only [ptagS_append]
  rw [space0_tok b1 _ hb1 (hps'.append _)]
  simp only [hpsalt]
  rw [pspace1_tok b2 _ hb2 (hn_findresource.append _)]
  simp only [ptagS_append]
  rw [pspace1_tok b3 _ hb3 (hn_begin.append _)]
  simp only [ptagS_append]
  rw [pms1_tok m1 _ hm1 hT]

/-- `<n> dict begin` -/
theorem frame_dict (n b4 b5 m2 T : Bytes) (hn : AllDigitsC n) (hb4 : Blank1 b4) (hb5 : Blank1 b5) (hm2 : MS1 m2)
    (hT : HeadNonWs T) :
    (pdigit1 >>> pspace1 >>> ptagS "dict" >>> pspace1 >>> ptagS "begin" >>> pms1)
      (n ++ (b4 ++ (strBytes "dict" ++ (b5 ++ (strBytes "begin" ++ (m2 ++ T)))))) = .ok () T := by
  simp only [pthen]
  rw [pdigit1_tok n b4 _ hn hb4]
  simp only [PR.bind]
  rw [pspace1_tok b4 _ hb4 (hn_dict.append _)]
  simp only [PR.bind, ptagS_append]
  rw [pspace1_tok b5 _ hb5 (hn_begin.append _)]
  simp only [PR.bind, ptagS_append]
  rw [pms1_tok m2 _ hm2 hT]

/-- `endcmap CMapName currentdict /CMap defineresource pop` -/
theorem frame_end (m4 b6 b7 b8 b9 m5 T : Bytes) (hm4 : MS1 m4) (hb6 : Blank1 b6) (hb7 : Blank1 b7) (hb8 : Blank1 b8)
    (hb9 : Blank1 b9) (hm5 : MS1 m5) (hT : HeadNonWs T) :
    pcmapEnd (strBytes "endcmap" ++ (m4 ++ (strBytes "CMapName" ++ (b6 ++ (strBytes "currentdict" ++ (b7 ++
      (strBytes "/CMap" ++ (b8 ++ (strBytes "defineresource" ++ (b9 ++ (strBytes "pop" ++ (m5 ++ T)))))))))))) = .ok () T := by
  unfold pcmapEnd
  simp only [pthen, ptagS_append, PR.bind]
  rw [pms1_tok m4 _ hm4 (hn_CMapName.append _)]
  simp only [PR.bind, ptagS_append]
  rw [pspace1_tok b6 _ hb6 (hn_currentdict.append _)]
  simp only [PR.bind, ptagS_append]
  rw [pspace1_tok b7 _ hb7 (hn_s_CMap.append _)]
  simp only [PR.bind, ptagS_append]
  rw [pspace1_tok b8 _ hb8 (hn_defineresource.append _)]
  simp only [PR.bind, ptagS_append]
  rw [pspace1_tok b9 _ hb9 (hn_pop.append _)]
  simp only [PR.bind, ptagS_append]
  rw [pms1_tok m5 _ hm5 hT]

theorem secs_head {ss : List Section} {secs : Bytes} (h : DList DSection ss secs) (hne : ss ≠ []) (t : Bytes) :
    ∃ y u, secs ++ t = y :: u ∧ NonWs y ∧ y ≠ 47 ∧ isDigit y = true := by
  cases h with
  | nil => exact absurd rfl hne
  | cons s ss' b bs' hs _ =>
    have key : ∀ (nn tt : Bytes), AllDigitsC nn → ∃ y u, nn ++ tt = y :: u ∧ NonWs y ∧ y ≠ 47 ∧ isDigit y = true := by
      intro nn tt hnn
      obtain ⟨y, u, e, hy⟩ := digits_head nn tt hnn
      exact ⟨y, u, e, digit_nonws y hy, by intro h47; rw [h47] at hy; simp [isDigit] at hy, hy⟩
    cases hs with
    | cs ls n' w m1' lb m2' hn' _ _ _ _ _ =>
      obtain ⟨y, u, e, h1⟩ := key n' (w ++ strBytes "begincodespacerange" ++ m1' ++ lb ++ strBytes "endcodespacerange" ++ m2' ++ bs' ++ t) hn'
      exact ⟨y, u, by simpa using e, h1⟩
    | bfChar ls n' w m1' lb m2' hn' _ _ _ _ _ =>
      obtain ⟨y, u, e, h1⟩ := key n' (w ++ strBytes "beginbfchar" ++ m1' ++ lb ++ strBytes "endbfchar" ++ m2' ++ bs' ++ t) hn'
      exact ⟨y, u, by simpa using e, h1⟩
    | bfRange ls n' w m1' lb m2' hn' _ _ _ _ _ =>
      obtain ⟨y, u, e, h1⟩ := key n' (w ++ strBytes "beginbfrange" ++ m1' ++ lb ++ strBytes "endbfrange" ++ m2' ++ bs' ++ t) hn'
      exact ⟨y, u, by simpa using e, h1⟩

/-- **`cmap_parser::parse`, every text of the grammar.** Whatever blanks, end-of-line bytes,
comments, hexadecimal case, counts, array / single targets, section kinds and order, and metadata
(`/CMapName`, `/CMapType`, 1 to 4 items in any order) the producer chose within the frame,
`parse` returns exactly the sections the text denotes. -/
theorem parseCMap_complete {ss : List Section} {text : Bytes} (h : DerivesCMapText ss text) :
    parseCMap text = some ss := by
  cases h with
  | mk m0 b1 ps b2 b3 m1 n b4 b5 m2 m3 metas secs m4 b6 b7 b8 b9 m5 m6 trail metaL
      hm0 hb1 hps hb2 hb3 hm1 hn hb4 hb5 hm2 hm3 hmetas hml1 hml4 hne hsecs hm4 hb6 hb7 hb8 hb9 hm5 hm6 =>
    -- the text, right-nested, with names for its tails
    generalize hT5 : strBytes "end" ++ (m6 ++ (strBytes "end" ++ trail)) = T5
    generalize hT4 : strBytes "endcmap" ++ (m4 ++ (strBytes "CMapName" ++ (b6 ++ (strBytes "currentdict" ++ (b7 ++
      (strBytes "/CMap" ++ (b8 ++ (strBytes "defineresource" ++ (b9 ++ (strBytes "pop" ++ (m5 ++ T5))))))))))) = T4
    generalize hT3 : metas ++ (secs ++ T4) = T3
    generalize hT2 : strBytes "begincmap" ++ (m3 ++ T3) = T2
    generalize hT1 : n ++ (b4 ++ (strBytes "dict" ++ (b5 ++ (strBytes "begin" ++ (m2 ++ T2))))) = T1
    have e : m0 ++ strBytes "/CIDInit" ++ b1 ++ ps ++ b2 ++ strBytes "findresource" ++ b3 ++ strBytes "begin" ++ m1 ++
         n ++ b4 ++ strBytes "dict" ++ b5 ++ strBytes "begin" ++ m2 ++
         strBytes "begincmap" ++ m3 ++ metas ++ secs ++
         strBytes "endcmap" ++ m4 ++ strBytes "CMapName" ++ b6 ++ strBytes "currentdict" ++ b7 ++ strBytes "/CMap" ++ b8 ++
         strBytes "defineresource" ++ b9 ++ strBytes "pop" ++ m5 ++
         strBytes "end" ++ m6 ++ strBytes "end" ++ trail =
       m0 ++ (strBytes "/CIDInit" ++ (b1 ++ (ps ++ (b2 ++ (strBytes "findresource" ++ (b3 ++ (strBytes "begin" ++ (m1 ++ T1)))))))) := by
      rw [← hT1, ← hT2, ← hT3, ← hT4, ← hT5]
      simp only [List.append_assoc]
    rw [e]
    have hT5h : HeadNonWs T5 := by rw [← hT5]; exact hn_end.append _
    have hT4h : ∃ t4, T4 = 101 :: t4 := by rw [← hT4, kwb_endcmap]; exact ⟨_, rfl⟩
    obtain ⟨t4, ht4⟩ := hT4h
    have hT3h : HeadNonWs T3 := by
      rw [← hT3]
      cases hmetas with
      | nil => simp at hml1
      | cons a as b bs' ha _ =>
        obtain ⟨u, hu⟩ := meta_head ha
        rw [hu]; exact ⟨47, u ++ (bs' ++ (secs ++ T4)), by simp, nonws_slash⟩
    have hT2h : HeadNonWs T2 := by rw [← hT2]; exact hn_begincmap.append _
    have hT1h : HeadNonWs T1 := by rw [← hT1]; exact digits_headNonWs n _ hn
    -- sections and metadata
    have hsec : psections (secs ++ T4) = .ok ss T4 := by
      rw [ht4]; exact psections_d hsecs hne nonws_e (by decide) t4
    obtain ⟨ys, us, hsu, hysN, hys47, _⟩ := secs_head hsecs hne T4
    have hmeta : pmetaGo 4 T3 = .ok metaL.length (secs ++ T4) := by
      rw [← hT3, hsu]; exact pmetaGo_d hmetas 4 ys us hml4 hysN hys47
    have hend : pcmapEnd T4 = .ok () T5 := by
      rw [← hT4]; exact frame_end m4 b6 b7 b8 b9 m5 T5 hm4 hb6 hb7 hb8 hb9 hm5 hT5h
    have hk : ¬ (metaL.length < 1) := by omega
    unfold parseCMap pcmapStream
    rw [frame_procset m0 b1 ps b2 b3 m1 T1 hm0 hb1 hps hb2 hb3 hm1 hT1h]
    simp only [PR.bind]
    unfold presourceDict
    rw [← hT1, frame_dict n b4 b5 m2 T2 hn hb4 hb5 hm2 hT2h]
    simp only [PR.bind]
    unfold pcmapData
    rw [← hT2]
    simp only [pthen, ptagS_append, PR.bind]
    rw [pms1_tok m3 _ hm3 hT3h]
    simp only [PR.bind, pmetadata, hmeta, hk, if_false, hsec, hend]
    rw [← hT5]
    simp only [ptagS_append, PR.bind]
    rw [pms1_tok m6 _ hm6 (hn_end.append _)]
    simp only [PR.bind, ptagS_append, pms0]

end Lopdf.CMapText
