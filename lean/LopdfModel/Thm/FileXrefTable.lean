import LopdfModel.Lemmas.XrefTableRT
/-
  C01/C03 (file level) — **the cross-reference table round trip**: what `Writer::write_xref`
  writes, `parser::xref` reads back as exactly the recorded entries.
-/
namespace Lopdf.FileRT
open Lopdf Gen

theorem XTable_get_insert (t : XTable) (k n : Nat) (v : XEntry) :
    (t.insert k v).get n = if k = n then some v else t.get n := by
  induction t with
  | nil => simp [XTable.insert, XTable.get]
  | cons p rest ih =>
    obtain ⟨k', v'⟩ := p
    by_cases h : k' = k
    · subst h
      by_cases hn : k' = n <;> simp [XTable.insert, XTable.get, hn]
    · by_cases hn : k' = n
      · subst hn
        simp [XTable.insert, XTable.get, h, Ne.symm h]
      · simp [XTable.insert, XTable.get, h, hn, ih]

/-- the entry the reader should hold for object `n` -/
def normalOf (x : XrefMap) (n : Nat) : Option XEntry := (x.get n).map fun p => XEntry.normal p.1 p.2

theorem applyAssigns_get_ids (x : XrefMap) : ∀ (ids : List Nat) (t : XTable) (n : Nat),
    (applyAssigns t (ids.filterMap (idAssign x some))).get n =
      if n ∈ ids then (normalOf x n).orElse (fun _ => t.get n) else t.get n := by
  intro ids
  induction ids with
  | nil => intro t n; simp [applyAssigns]
  | cons i rest ih =>
    intro t n
    simp only [List.filterMap_cons, idAssign]
    cases hx : x.get i with
    | none =>
      simp only [Option.map_none]
      rw [ih]
      by_cases hn : n = i
      · subst hn
        simp [normalOf, hx]
      · simp [hn]
    | some p =>
      obtain ⟨off, g⟩ := p
      simp only [Option.map_some, applyAssigns]
      rw [ih, XTable_get_insert]
      by_cases hn : i = n
      · subst hn
        simp [normalOf, hx]
      · have hn' : ¬ n = i := fun e => hn e.symm
        simp [hn, hn']

theorem range_drop_one (size : Nat) : (List.range size).drop 1 = List.range' 1 (size - 1) := by
  rw [List.range_eq_range', List.drop_range']

/-- the sections `write_xref` emits for a map `x` and `Size = size` -/
def tableSecs (x : XrefMap) (size : Nat) : List (Nat × List (Option (Nat × Nat))) :=
  loopSecs x some (List.range' 1 (size - 1)) 0 [none]

theorem writeXrefTable_eq (x : XrefMap) (size : Nat) :
    writeXrefTable x size = XREF_KW ++ secsBytes (tableSecs x size) := by
  simp only [writeXrefTable, range_drop_one, xrefTableLoop_eq, List.nil_append, tableSecs]

/-- offsets and generations the writer can record (`u32` offsets, `u16` generations) -/
def XrefMapOk (x : XrefMap) : Prop := ∀ n off g, x.get n = some (off, g) → off < 4294967296 ∧ g < 65536

theorem tableSecs_ok (x : XrefMap) (size : Nat) (hx : XrefMapOk x) (hs : size ≤ 4294967295) :
    ∀ sec ∈ tableSecs x size, SecOk sec := by
  intro sec hsec
  obtain ⟨h1, h2⟩ := loopSecs_bounds x some (size - 1) 1 0 [none] (by intro _; rfl) sec hsec
  refine ⟨by omega, ?_⟩
  intro e he
  rcases h2 e he with h | ⟨i, p, hp, rfl⟩
  · simp at h; subst h; trivial
  · obtain ⟨off, g⟩ := p
    exact hx i off g hp

theorem tableSecs_ne_nil (x : XrefMap) (size : Nat) : tableSecs x size ≠ [] := by
  intro h
  have := loopSecs_spec x (some : Nat × Nat → Option (Nat × Nat)) (size - 1) 1 0 [none] (by intro _; rfl)
  unfold tableSecs at h
  rw [h] at this
  simp [assigns, assignsFrom] at this

theorem XTable_keys_insert (t : XTable) (k : Nat) (v : XEntry) :
    (t.insert k v).map (·.1) = if k ∈ t.map (·.1) then t.map (·.1) else t.map (·.1) ++ [k] := by
  induction t with
  | nil => simp [XTable.insert]
  | cons p rest ih =>
    obtain ⟨q, w⟩ := p
    by_cases h : q = k
    · subst h; simp [XTable.insert]
    · have h' : ¬ k = q := fun e => h e.symm
      simp only [XTable.insert, h, if_false, List.map_cons, ih, List.mem_cons, h', false_or]
      split <;> simp

theorem XTable_insert_nodup (t : XTable) (k : Nat) (v : XEntry) (h : (t.map (·.1)).Nodup) :
    ((t.insert k v).map (·.1)).Nodup := by
  rw [XTable_keys_insert]
  split
  · exact h
  · rename_i hk
    rw [List.nodup_append]
    refine ⟨h, by simp, ?_⟩
    intro a ha b hb
    simp at hb
    subst hb
    intro e; subst e; exact hk ha

theorem applyAssigns_nodup : ∀ (l : List (Nat × Option (Nat × Nat))) (t : XTable),
    (t.map (·.1)).Nodup → ((applyAssigns t l).map (·.1)).Nodup := by
  intro l
  induction l with
  | nil => intro t h; exact h
  | cons p rest ih =>
    intro t h
    obtain ⟨k, e⟩ := p
    cases e with
    | none => exact ih t h
    | some v => obtain ⟨off, g⟩ := v; exact ih _ (XTable_insert_nodup t k _ h)

/-- the table `xref` builds from a written table, explicitly -/
theorem xref_table_parse (x : XrefMap) (size : Nat) (rest : Bytes)
    (hx : XrefMapOk x) (hs : size ≤ 4294967295) (hr : NoDigitAhead rest) :
    pXref (writeXrefTable x size ++ rest)
      = .ok (some (applyAssigns [] (assigns (tableSecs x size)), space rest)) := by
  rw [writeXrefTable_eq]
  have h0 : (tag pXref.XREF_WORD (XREF_KW ++ secsBytes (tableSecs x size) ++ rest)).bind
      (fun r => (eol r).map (·.2)) = some (secsBytes (tableSecs x size) ++ rest) := by
    simp [XREF_KW, pXref.XREF_WORD, tag, eol]
  unfold pXref
  rw [h0]
  simp only
  rw [foldSections_secs (tableSecs x size) _ rest [] false (tableSecs_ok x size hx hs) hr
    (by have := secsBytes_length (tableSecs x size); simp only [List.length_append]; omega)
    (Or.inl (tableSecs_ne_nil x size))]

/-- **Cross-reference table round trip (C01/C03).** For every recorded map `x` with `u32`
offsets and `u16` generations and every `Size ≤ u32::MAX`, followed by any text that does not
start with a digit (the writer continues with `trailer`): the parser `xref` accepts what
`write_xref` wrote, consumes exactly the table, and the table it builds holds for every object
number `n` the entry `normal off g` iff `1 ≤ n < size` and the writer recorded `n ↦ (off, g)`;
object 0, gaps and numbers ≥ size get no entry (free entries are never inserted). -/
theorem xref_table_rt (x : XrefMap) (size : Nat) (rest : Bytes)
    (hx : XrefMapOk x) (hs : size ≤ 4294967295) (hr : NoDigitAhead rest) :
    ∃ table, pXref (writeXrefTable x size ++ rest) = .ok (some (table, space rest)) ∧
      ∀ n, table.get n = if 1 ≤ n ∧ n < size then normalOf x n else none := by
  refine ⟨applyAssigns [] (assigns (tableSecs x size)), ?_, ?_⟩
  · exact xref_table_parse x size rest hx hs hr
  · intro n
    unfold tableSecs
    rw [loopSecs_spec x some (size - 1) 1 0 [none] (by intro _; rfl)]
    simp only [assignsFrom, List.cons_append, List.nil_append, applyAssigns]
    rw [applyAssigns_get_ids]
    simp only [List.mem_range'_1, XTable.get]
    by_cases h : 1 ≤ n ∧ n < size
    · have : 1 ≤ n ∧ n < 1 + (size - 1) := by omega
      simp [h, this]
    · have : ¬ (1 ≤ n ∧ n < 1 + (size - 1)) := by omega
      simp [h, this]

/-- reading of the statement as an equivalence on in-use entries -/
theorem xref_table_rt_iff (x : XrefMap) (size : Nat) (rest : Bytes)
    (hx : XrefMapOk x) (hs : size ≤ 4294967295) (hr : NoDigitAhead rest) :
    ∃ table, pXref (writeXrefTable x size ++ rest) = .ok (some (table, space rest)) ∧
      ∀ n off g, 1 ≤ n → n < size → (table.get n = some (.normal off g) ↔ x.get n = some (off, g)) := by
  obtain ⟨table, h1, h2⟩ := xref_table_rt x size rest hx hs hr
  refine ⟨table, h1, ?_⟩
  intro n off g hn1 hn2
  rw [h2 n]
  simp only [hn1, hn2, and_self, if_true, normalOf]
  cases hg : x.get n with
  | none => simp
  | some p => obtain ⟨a, b⟩ := p; simp

/-- the table read back has one binding per object number (it is built by `insert`) -/
theorem xref_table_rt_nodup (x : XrefMap) (size : Nat) (rest : Bytes)
    (hx : XrefMapOk x) (hs : size ≤ 4294967295) (hr : NoDigitAhead rest) :
    ∃ table, pXref (writeXrefTable x size ++ rest) = .ok (some (table, space rest)) ∧
      (table.map (·.1)).Nodup :=
  ⟨_, xref_table_parse x size rest hx hs hr, applyAssigns_nodup _ [] (by simp)⟩

/-- non-vacuity: a sparse map (objects 1, 2 and 5, one with generation 7), `Size = 7`, followed by `trailer` -/
example : XrefMapOk [(1, (15, 0)), (2, (4000000000, 7)), (5, (99, 65535))] ∧ NoDigitAhead TRAILER_KW := by
  constructor
  · intro n off g h
    simp only [XrefMap.get] at h
    repeat' (split at h)
    all_goals (cases h)
    all_goals omega
  · intro b r h; simp [TRAILER_KW] at h; obtain ⟨rfl, _⟩ := h; decide

end Lopdf.FileRT
