import LopdfModel.Thm.C02Composite
import LopdfModel.Spec.GrammarObjStm
/-
  C02 — object streams: every spelling of the content of an unfiltered `/ObjStm` the grammar
  allows (`DerivesObjStm`: index block with free white space, member objects in any spelling of the
  object grammar, separated as tokens are) is read by `ObjectStream::new` (`objStmObjects`) to
  exactly its (number, object) members.
-/
namespace Lopdf.Grammar
open Lopdf Gen
open Lopdf.ObjRt (StopCtx)

/-! ### the index block -/

theorem digit_not_uws : ∀ b : UInt8, isDigit b = true → isUnicodeWs b = false ∧ b ≠ 43 ∧ b < 128 := by
  apply forall_uint8; decide +kernel

theorem uws_ascii : ∀ b : UInt8, (b == 32 || (9 ≤ b && b ≤ 13)) = true → isUnicodeWs b = true ∧ b < 128 := by
  apply forall_uint8; decide +kernel

theorem u32FromStr_digits {n : Nat} {ds : Bytes} (h : DerivesNat n ds) (hn : n ≤ 4294967295) :
    u32FromStr ds = some n := by
  obtain ⟨hne, hd, hv⟩ := derivesNat_facts h
  cases ds with
  | nil => exact absurd rfl hne
  | cons a as =>
    have ha := (digit_not_uws a (hd a (by simp))).2.1
    have hall : (a :: as).all isDigit = true := by
      rw [List.all_eq_true]; exact hd
    have hn' : n ≤ U32_MAX := hn
    unfold u32FromStr
    split
    · rename_i heq; injection heq with e _; exact absurd e ha
    · simp [hall, hv, hn']

theorem spanP_uws_digits (w ds t : Bytes) (hw : AllUws w) {n : Nat} (hd : DerivesNat n ds) :
    (spanP isUnicodeWs (w ++ (ds ++ t))).2 = ds ++ t := by
  obtain ⟨c, r, hcr, hc⟩ := head_digit' hd t
  rw [spanP_append isUnicodeWs w _ (fun b hb => (uws_ascii b (hw b hb)).1)
    (by intro b r' e; rw [hcr] at e; injection e with e _; subst e; exact (digit_not_uws _ hc).1)]
where
  head_digit' {n : Nat} {ds : Bytes} (h : DerivesNat n ds) (z : Bytes) :
      ∃ c r, ds ++ z = c :: r ∧ isDigit c = true := by
    obtain ⟨hne, hd, _⟩ := derivesNat_facts h
    cases ds with
    | nil => exact absurd rfl hne
    | cons a as => exact ⟨a, as ++ z, rfl, hd a (by simp)⟩

theorem spanP_token (ds t : Bytes) {n : Nat} (hd : DerivesNat n ds)
    (ht : ∀ b r, t = b :: r → isUnicodeWs b = true) :
    spanP (fun b => !isUnicodeWs b) (ds ++ t) = (ds, t) :=
  spanP_append _ ds t (fun b hb => by simp [(digit_not_uws b ((derivesNat_facts hd).2.1 b hb)).1])
    (by intro b r e; simp [ht b r e])

theorem splitWs_nil (f : Nat) (w : Bytes) (hw : AllUws w) : splitWs f w = [] := by
  cases f with
  | zero => rfl
  | succ f =>
    have : spanP isUnicodeWs (w ++ []) = (w, []) :=
      spanP_append isUnicodeWs w [] (fun b hb => (uws_ascii b (hw b hb)).1) (by intro b r e; cases e)
    simp only [List.append_nil] at this
    simp [splitWs, this, spanP]

/-- **The index block, every spelling**: the integers, separated by any non-empty white space -/
theorem splitWs_toks {ns : List Nat} {bs : Bytes} (h : DerivesToks ns bs) :
    ∀ (fuel : Nat) (w0 : Bytes), AllUws w0 → ns.length + 1 ≤ fuel →
    (splitWs fuel (w0 ++ bs)).map u32FromStr = ns.map some := by
  induction h with
  | nil => intro fuel w0 hw _; simp [splitWs_nil fuel w0 hw]
  | last n ds hd hn =>
    intro fuel w0 hw hf
    match fuel, hf with
    | f + 1, _ =>
      have h1 := spanP_uws_digits w0 ds [] hw hd
      have h2 := spanP_token ds [] hd (by intro b r e; cases e)
      simp only [List.append_nil] at h1 h2
      obtain ⟨hne, _, _⟩ := derivesNat_facts hd
      cases hds : ds with
      | nil => exact absurd hds hne
      | cons a as =>
        rw [hds] at h1 h2
        simp only [splitWs, h1, h2, splitWs_nil f [] (by intro b hb; simp at hb)]
        simp [← hds, u32FromStr_digits hd hn]
  | cons n ns ds w bs hd hn hw hne _ ih =>
    intro fuel w0 hw0 hf
    match fuel, hf with
    | f + 1, hf =>
      have e : w0 ++ (ds ++ w ++ bs) = w0 ++ (ds ++ (w ++ bs)) := by simp
      have h1 := spanP_uws_digits w0 ds (w ++ bs) hw0 hd
      have h2 := spanP_token ds (w ++ bs) hd (by
        intro b r e
        cases w with
        | nil => exact absurd rfl hne
        | cons x xs => simp only [List.cons_append] at e; injection e with e _; subst e; exact (uws_ascii x (hw x (by simp))).1)
      obtain ⟨hne', _, _⟩ := derivesNat_facts hd
      have ih' := ih f w hw (by simp only [List.length_cons] at hf; omega)
      rw [e]
      cases hds : ds with
      | nil => exact absurd hds hne'
      | cons a as =>
        rw [hds] at h1 h2
        simp only [hds, splitWs, h1, h2, List.map_cons, ih']
        simp [← hds, u32FromStr_digits hd hn]

theorem toks_ascii {ns : List Nat} {bs : Bytes} (h : DerivesToks ns bs) : ∀ b ∈ bs, b < 128 := by
  induction h with
  | nil => intro b hb; simp at hb
  | last n ds hd _ => intro b hb; exact (digit_not_uws b ((derivesNat_facts hd).2.1 b hb)).2.2
  | cons n ns ds w bs hd _ hw _ _ ih =>
    intro b hb
    simp only [List.mem_append] at hb
    rcases hb with (hb | hb) | hb
    · exact (digit_not_uws b ((derivesNat_facts hd).2.1 b hb)).2.2
    · exact (uws_ascii b (hw b hb)).2
    · exact ih b hb

/-! ### the members -/

/-- the text after a member — separating text and the remaining members up to the end of the
stream — is a stop context (soundness of the reference look-ahead, as inside an array) -/
theorem members_stop : ∀ {d pos : Nat} {ms : List (Obj × Nat)} {bs : Bytes}, DerivesMembers d pos ms bs →
    ∀ (sp : Bytes), DerivesSpace sp → StopHead (sp ++ bs) → StopCtx (sp ++ bs)
  | _, _, _, _, .nil d pos, sp, hsp, hstop => by
    exact stopCtx_of_head sp [] hsp hstop (by intro b r e; cases e)
  | _, _, _, _, .cons d pos o ms b sp' bs' ho hsp' hrest hsep, sp, hsp, hstop => by
    obtain ⟨c, r, hcr, hc⟩ := obj_head ho (sp' ++ bs')
    have e : b ++ sp' ++ bs' = b ++ (sp' ++ bs') := by simp
    have hY : After o (sp' ++ bs') := fun hn => members_stop hrest sp' hsp' (hsep hn)
    have hrt := obj_refTailS ho _ hY
    rw [e, hcr]
    rw [hcr] at hrt
    have hf := itemHead_facts c hc
    refine stopCtx_tok sp c r hsp ?_ ⟨hf.1, hf.2.1, hf.2.2.1⟩ hrt
    rw [← hcr, ← e]; exact hstop

/-- every member is read by `parser::direct_object` at its position -/
theorem members_parse : ∀ {d pos : Nat} {ms : List (Obj × Nat)} {bs : Bytes}, DerivesMembers d pos ms bs →
    d ≤ MAX_NESTING → ∀ p ∈ ms, pos ≤ p.2 ∧ p.2 - pos < bs.length ∧ ∃ r, parseDirect (bs.drop (p.2 - pos)) = some (p.1, r)
  | _, _, _, _, .nil d pos, _, p, hp => by simp at hp
  | _, _, _, _, .cons d pos o ms b sp bs' ho hsp hrest hsep, hd, p, hp => by
    have hb := obj_len_pos ho
    rcases List.mem_cons.mp hp with rfl | hp'
    · refine ⟨Nat.le_refl _, by simp only [Nat.sub_self, List.length_append]; omega, ?_⟩
      have hY : After o (sp ++ bs') := fun hn => members_stop hrest sp hsp (hsep hn)
      have h1 := obj_complete ho ((b ++ (sp ++ bs')).length + 1) 0 (sp ++ bs') (by omega)
        (by simp only [List.length_append]; omega) hY
      refine ⟨space (sp ++ bs'), ?_⟩
      simp only [Nat.sub_self, List.drop_zero, List.append_assoc]
      unfold parseDirect
      rw [ObjRt.directObject_of _ _ _ _ _ h1]
    · obtain ⟨h1, h2, r, h3⟩ := members_parse hrest hd p hp'
      refine ⟨by omega, by simp only [List.length_append]; omega, r, ?_⟩
      have e1 : p.2 - pos = (b ++ sp).length + (p.2 - (pos + b.length + sp.length)) := by
        simp only [List.length_append]; omega
      have e2 : b ++ sp ++ bs' = (b ++ sp) ++ bs' := rfl
      rw [e1, e2, List.drop_length_add_append]
      exact h3

/-! ### `ObjectStream::new` -/

/-- (number, object) pairs as the reader records them -/
def memberPairs (l : List (Nat × Obj)) : List (ObjId × Obj) := l.map fun p => ((p.1, 0), p.2)

theorem memberPairs_nodup (l : List (Nat × Obj)) (h : (l.map (·.1)).Nodup) : ((memberPairs l).map (·.1)).Nodup := by
  simp only [memberPairs, List.map_map, List.Nodup, List.pairwise_map] at h ⊢
  exact h.imp (fun hab heq => hab (by simp only [Function.comp] at heq; injection heq))

/-- the members' positions increase strictly (every member has at least one byte) -/
theorem members_positions : ∀ {d pos : Nat} {ms : List (Obj × Nat)} {bs : Bytes}, DerivesMembers d pos ms bs →
    (ms.map (·.2)).Pairwise (· < ·) ∧ ∀ p ∈ ms, pos ≤ p.2
  | _, _, _, _, .nil d pos => by simp
  | _, _, _, _, .cons d pos o ms b sp bs' ho hsp hrest hsep => by
    have hb := obj_len_pos ho
    obtain ⟨h1, h2⟩ := members_positions hrest
    refine ⟨?_, ?_⟩
    · simp only [List.map_cons, List.pairwise_cons]
      refine ⟨?_, h1⟩
      intro q hq
      obtain ⟨p, hp, rfl⟩ := List.mem_map.mp hq
      have := h2 p hp
      omega
    · intro p hp
      rcases List.mem_cons.mp hp with rfl | hp'
      · exact Nat.le_refl _
      · have := h2 p hp'; omega

theorem pairs_complete (content area : Bytes) (first : Nat) (hdrop : ∀ off, content.drop (first + off) = area.drop off)
    (hlen : content.length = first + area.length) :
    ∀ (nums : List Nat) (ms : List (Obj × Nat)) (seen : List Nat), nums.length = ms.length →
    (∀ p ∈ ms, p.2 < area.length ∧ ∃ r, parseDirect (area.drop p.2) = some (p.1, r)) →
    (ms.map (·.2)).Pairwise (· < ·) → (∀ s ∈ seen, ∀ p ∈ ms, s < p.2) →
    objStmObjects.pairs content first ((flatPairs (nums.zip (ms.map (·.2)))).map some) seen =
      memberPairs (nums.zip (ms.map (·.1))) := by
  intro nums
  induction nums with
  | nil => intro ms seen _ _ _ _; simp [flatPairs, objStmObjects.pairs, memberPairs]
  | cons n ns ih =>
    intro ms seen hl hp hpw hseen
    cases ms with
    | nil => simp at hl
    | cons m ms' =>
      obtain ⟨o, off⟩ := m
      obtain ⟨h1, r, h2⟩ := hp (o, off) (by simp)
      simp only [List.map_cons, List.pairwise_cons] at hpw
      have hnew : seen.contains off = false := by
        rw [List.contains_eq_any_beq, List.any_eq_false]
        intro s hs
        have := hseen s hs (o, off) (by simp)
        simp only [beq_iff_eq]
        omega
      have ih' := ih ms' (off :: seen) (by simpa using hl) (fun p hp' => hp p (by simp [hp'])) hpw.2 (by
        intro s hs p hp'
        rcases List.mem_cons.mp hs with rfl | hs'
        · exact hpw.1 p.2 (List.mem_map_of_mem hp')
        · exact hseen s hs' p (by simp [hp']))
      simp only [List.map_cons, List.zip_cons_cons, flatPairs, objStmObjects.pairs, hnew, Bool.false_eq_true, if_false, ih']
      have hlt : ¬ (first + off ≥ content.length) := by omega
      simp only [hlt, if_false, hdrop, h2]
      rfl

theorem dedupLast_nodup (l : List (ObjId × Obj)) (h : (l.map (·.1)).Nodup) : dedupLast l = l := by
  have key : ∀ (l acc : List (ObjId × Obj)), ((acc ++ l).map (·.1)).Nodup →
      l.foldl (fun (acc : List (ObjId × Obj)) (p : ObjId × Obj) =>
        if acc.any (fun q => q.1 == p.1) then acc.map (fun q => if q.1 == p.1 then (q.1, p.2) else q) else acc ++ [p]) acc
        = acc ++ l := by
    intro l
    induction l with
    | nil => intro acc _; simp
    | cons p rest ih =>
      intro acc hnd
      have hno : acc.any (fun q => q.1 == p.1) = false := by
        rw [List.any_eq_false]
        intro q hq
        simp only [beq_iff_eq]
        intro heq
        simp only [List.map_append, List.map_cons] at hnd
        have := (List.nodup_append.mp hnd).2.2 q.1 (List.mem_map_of_mem hq) p.1 (by simp)
        exact this heq
      simp only [List.foldl_cons, hno, Bool.false_eq_true, if_false]
      rw [ih (acc ++ [p]) (by simpa using hnd)]
      simp
  simpa [dedupLast] using key l [] (by simpa using h)

/-- **Object streams, every spelling.** For an unfiltered stream dictionary with integer `First`
(= the length of the index block) and integer `N`, and a content derivable from the object-stream
grammar with pairwise different member numbers, `ObjectStream::new` yields exactly the members:
each number with the object its spelling denotes. -/
theorem objStmObjects_complete {members : List (Nat × Obj)} {first : Nat} {content : Bytes}
    (h : DerivesObjStm members first content) (dct : Dict) (nval : Int)
    (hF : dct.has FILTER = false) (hFirst : dct.get FIRST = some (.int first))
    (hN : dct.get N_KEY = some (.int nval)) (hne : members ≠ [])
    (hnd : (members.map (·.1)).Nodup) :
    objStmObjects dct content = .ok (memberPairs members) := by
  match h with
  | .mk d nums ms w0 tb pre mb hd hl hw0 hpre htoks hmem hnums =>
    have hparse := members_parse hmem hd
    have hms : ∀ p ∈ ms, p.2 < (pre ++ mb).length ∧ ∃ r, parseDirect ((pre ++ mb).drop p.2) = some (p.1, r) := by
      intro p hp
      obtain ⟨h1, h2, r, h3⟩ := hparse p hp
      refine ⟨by simp only [List.length_append]; omega, r, ?_⟩
      have : p.2 = pre.length + (p.2 - pre.length) := by omega
      rw [this, List.drop_length_add_append]; exact h3
    have hcne : ((w0 ++ tb) ++ (pre ++ mb)).isEmpty = false := by
      cases ms with
      | nil =>
        cases nums with
        | nil => simp at hne
        | cons a as => simp at hl
      | cons m ms' =>
        obtain ⟨h1, _⟩ := hms m (by simp)
        cases hpm : pre ++ mb with
        | nil => rw [hpm] at h1; simp at h1
        | cons x xs => simp
    have htake : ((w0 ++ tb) ++ (pre ++ mb)).take (w0 ++ tb).length = w0 ++ tb := List.take_left' rfl
    have hascii : (w0 ++ tb).all (fun b => b < 128) = true := by
      rw [List.all_eq_true]
      intro b hb
      rcases List.mem_append.mp hb with hb | hb
      · simpa using (uws_ascii b (hw0 b hb)).2
      · simpa using toks_ascii htoks b hb
    have hsplit := splitWs_toks htoks ((w0 ++ tb).length + 1) w0 hw0 (by
      have := toks_length htoks
      simp only [List.length_append]; omega)
    have hpairs := pairs_complete ((w0 ++ tb) ++ (pre ++ mb)) (pre ++ mb) (w0 ++ tb).length
      (fun off => List.drop_length_add_append off) (by simp only [List.length_append]) nums ms [] hl hms
      (members_positions hmem).1 (by intro s hs; simp at hs)
    have hdd := dedupLast_nodup (memberPairs (nums.zip (ms.map (·.1)))) (memberPairs_nodup _ hnd)
    have hlt : ¬ (((w0 ++ tb).length : Int) < 0) := by omega
    have hgt : ¬ ((w0 ++ tb).length > ((w0 ++ tb) ++ (pre ++ mb)).length) := by simp
    unfold objStmObjects
    simp only [hF, Bool.false_eq_true, if_false, hcne, hFirst, Option.bind, Obj.asInt, hlt, Int.toNat_natCast,
      hgt, htake, hascii, Bool.not_true, hN, hsplit, hpairs, hdd]
where
  toks_length {ns : List Nat} {bs : Bytes} (h : DerivesToks ns bs) : ns.length ≤ bs.length := by
    induction h with
    | nil => simp
    | last n ds hd _ =>
      have := (derivesNat_facts hd).1
      cases ds with
      | nil => exact absurd rfl this
      | cons a as => simp
    | cons n ns ds w bs hd _ _ hne _ ih =>
      have := (derivesNat_facts hd).1
      cases ds with
      | nil => exact absurd rfl this
      | cons a as => simp only [List.length_cons, List.length_append]; omega

end Lopdf.Grammar
