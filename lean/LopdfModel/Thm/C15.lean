import LopdfModel.Lemmas.CMapBuild
import LopdfModel.Lemmas.CMapGrammar
/-
  C15 — property theorems: ToUnicode CMaps decode text as the CMap defines.

  FULL STATEMENT, proved (`cmap_get`, `cmap_decode`, `cmap_text_get`):
    for every well-formed CMap `ss` (any mix of bfchar / bfrange sections, 1–4-byte codes, single,
    incrementing and array targets, overlapping or adjacent definitions in any order) and every code
    `c` of every length `l`:   get (from_sections ss) c l = ok (defines (defsOf ss) c l),
    and every byte string made of mapped, prefix-free codes decodes to the concatenation of the
    defined targets, surrogate pairs becoming one scalar value.

  History: at the pinned commit the statement was FALSE (findings F-C15-a..e: coalesced equal
  targets, split ranges, index panic, u16 overflow panic, BOM sniffing; refuted here by proved
  counter-witnesses). The defects were fixed in /repo (9416257, 32becda); the model below is the
  fixed code, and the former counter-witnesses are kept as regression theorems (`regress_*`).

  * `rm_inv_insert`, `rm_get_insert`, `rm_run_start`   (Lemmas/RangeMap.lean) — the interval map.
  * `cmap_get`          : the full lookup statement.
  * `cmap_get_no_panic` : `get` never panics, for EVERY CMap `from_sections` accepts (malformed targets too).
  * `segment_exact`     : a byte string of mapped prefix-free codes is cut into exactly these codes.
  * `surrogates_roundtrip`, `decode_exact` : UTF-16 → scalars.
  * `cmap_decode`       : the property end to end on the model.
  * `cmap_parse_render`, `cmap_text_get` : from the bytes of the /ToUnicode stream.
-/
namespace Lopdf.CMap
open Lopdf Lopdf.Gen Lopdf.CMapSpec

set_option linter.unusedSimpArgs false

/-! ### lookups -/

theorem single_arith (u a c : Nat) (hac : a ≤ c) (hc : c < 4294967296)
    (hfit : u + (c - a) < 65536) :
    wrappingAdd c (wrappingSub u a) % U16 = u + (c - a) := by
  unfold wrappingAdd wrappingSub U32 U16; omega

theorem covers_iff {d : Def} {c l : Nat} : d.covers c l = true ↔ d.len = l ∧ d.lo ≤ c ∧ c ≤ d.hi := by
  simp [Def.covers, and_assoc]

theorem get_unmapped {m : UMap} {c l : Nat} (hi : ∀ l, Inv 0 none (m l)) (h : rmVal (m l) c = none) :
    get m c l = .ok none := by
  unfold get
  by_cases hb : badLen l = true
  · simp [hb]
  · simp only [hb, Bool.false_eq_true, if_false]
    rw [rmGetKV_eq_find (hi l)]
    unfold rmVal at h
    cases hf : rmFind (m l) c with
    | none => rfl
    | some r => rw [hf] at h; simp at h

/-- `get` on a code whose stored run is known -/
theorem get_of_find {m : UMap} {c l : Nat} (hi : ∀ l, Inv 0 none (m l)) (hb : badLen l = false)
    {s e : Nat} {t : Target} (hf : rmFind (m l) c = some (s, e, t)) :
    get m c l = targetAt c t := by
  unfold get
  simp only [hb, Bool.false_eq_true, if_false]
  rw [rmGetKV_eq_find (hi l), hf]

theorem dropLast_append_last : ∀ (l : List Nat) (a : Nat), l.getLast? = some a → l.dropLast ++ [a] = l
  | [], a, h => by simp at h
  | [x], a, h => by simp at h; simp [h]
  | x :: y :: t, a, h => by
    have h' : (y :: t).getLast? = some a := by simpa [List.getLast?_cons_cons] using h
    have := dropLast_append_last (y :: t) a h'
    simp only [List.dropLast_cons_cons, List.cons_append, this]

/-- **the stored target of a well-formed definition evaluates to the defined target** for every code
the definition covers — whatever run of the interval map the code ended up in. -/
theorem targetAt_stored (D : Def) (hwf : D.wf) (c : Nat) (hlo : D.lo ≤ c) (hhi : c ≤ D.hi) (hc : c < U32) :
    targetAt c (storedOf D) = .ok (D.target c) := by
  cases D with
  | char code len dst =>
    simp only [Def.lo, Def.hi] at hlo hhi
    have hcc : c = code := by omega
    subst hcc
    obtain ⟨_, _, _, hne, hu⟩ := hwf
    cases dst with
    | nil => exact absurd rfl hne
    | cons u t =>
      cases t with
      | nil =>
        simp only [storedOf, Def.target, targetAt]
        rw [single_arith u c c (Nat.le_refl _) hc (by have := hu u (by simp); omega)]
        simp
      | cons v t' =>
        simp only [storedOf, Def.target, targetAt, Nat.sub_self, Nat.lt_irrefl, if_false]
        cases hg : (u :: v :: t').getLast? with
        | none => simp at hg
        | some last =>
          have hlast : last < 65536 := hu last (List.mem_of_getLast? hg)
          have e0 : (last + 0 % U16) % U16 = last := by unfold U16; omega
          simp only [e0, dropLast_append_last _ last hg]
  | range lo hi len dsts =>
    simp only [Def.lo, Def.hi] at hlo hhi
    obtain ⟨_, _, hlh, _, hne, hts, hshape⟩ := hwf
    have hnlt : ¬ c < lo := by omega
    cases dsts with
    | nil => exact absurd rfl hne
    | cons t rest =>
      cases rest with
      | nil =>
        cases t with
        | nil => exact absurd rfl (hts [] (by simp)).1
        | cons u t' =>
          cases t' with
          | nil =>
            have hfit : u + (hi - lo) < 65536 := hshape u rfl
            simp only [storedOf, Def.target, targetAt, List.getLast?_singleton, List.dropLast_singleton,
              List.nil_append]
            rw [single_arith u lo c hlo hc (by omega)]
          | cons v t'' =>
            simp only [storedOf, Def.target, targetAt, hnlt, if_false]
            cases hg : (u :: v :: t'').getLast? with
            | none => simp at hg
            | some last =>
              have hfit : last + (hi - lo) < 65536 := hshape last hg
              have e0 : (last + (c - lo) % U16) % U16 = last + (c - lo) := by unfold U16; omega
              simp only [e0]
      | cons t2 rest2 =>
        have hlen : (t :: t2 :: rest2).length = hi - lo + 1 := hshape
        simp only [storedOf, Def.target, targetAt, hnlt, if_false]

/-- the stored target of ANY definition never makes `get` panic on a code the definition covers -/
theorem targetAt_stored_no_panic (D : Def) (c : Nat) (hlo : D.lo ≤ c) :
    (targetAt c (storedOf D)).isPanic = false := by
  cases D with
  | char code len dst =>
    simp only [Def.lo] at hlo
    have hn : ¬ c < code := by omega
    cases dst with
    | nil => simp [storedOf, targetAt, Outcome.isPanic]
    | cons u t =>
      cases t with
      | nil => simp [storedOf, targetAt, Outcome.isPanic]
      | cons v t' =>
        simp only [storedOf, targetAt, hn, if_false]
        cases (u :: v :: t').getLast? <;> rfl
  | range lo hi len dsts =>
    simp only [Def.lo] at hlo
    have hn : ¬ c < lo := by omega
    cases dsts with
    | nil => simp [storedOf, targetAt, hn, Outcome.isPanic]
    | cons t rest =>
      cases rest with
      | nil =>
        cases t with
        | nil => simp [storedOf, targetAt, Outcome.isPanic]
        | cons u t' =>
          cases t' with
          | nil => simp [storedOf, targetAt, Outcome.isPanic]
          | cons v t'' =>
            simp only [storedOf, targetAt, hn, if_false]
            cases (u :: v :: t'').getLast? <;> rfl
      | cons t2 rest2 => simp [storedOf, targetAt, hn, Outcome.isPanic]

/-- what `get` computes for every CMap `from_sections` accepts: the stored target of the last covering
definition, evaluated at the code -/
theorem get_eq_stored (ss : List Section) (hok : ∀ d ∈ defsOf ss, putOk d ∧ rangeOk d) (c l : Nat) :
    ∃ m, fromSections ss = some m ∧
      get m c l =
        match lastCovering (defsOf ss) c l with
        | none => .ok none
        | some D => targetAt c (storedOf D) := by
  obtain ⟨m, hm, hinv, hval⟩ := fromSections_val ss hok
  refine ⟨m, hm, ?_⟩
  cases hl : lastCovering (defsOf ss) c l with
  | none =>
    have : rmVal (m l) c = none := by rw [hval, hl]; rfl
    rw [get_unmapped hinv this]
  | some D =>
    have hD := lastCoveringFrom_some hl
    simp only [reduceCtorEq, or_false] at hD
    obtain ⟨hmem, hcov⟩ := hD
    obtain ⟨hlen, _, _⟩ := covers_iff.mp hcov
    have hb : badLen l = false := by
      have := (hok D hmem).1
      subst hlen; exact badLen_false this.2.1 this.2.2
    have hv : rmVal (m l) c = some (storedOf D) := by rw [hval, hl]; rfl
    unfold rmVal at hv
    cases hf : rmFind (m l) c with
    | none => rw [hf] at hv; simp at hv
    | some r =>
      obtain ⟨s, e, t⟩ := r
      rw [hf] at hv
      simp only [Option.map_some, Option.some.injEq] at hv
      subst hv
      rw [get_of_find hinv hb hf]

theorem wf_ok {ds : List Def} (hwf : ∀ d ∈ ds, d.wf) : ∀ d ∈ ds, putOk d ∧ rangeOk d := by
  intro d hd
  have w := hwf d hd
  cases d with
  | char code len dst => exact ⟨⟨Nat.le_refl _, w.1, w.2.1⟩, trivial⟩
  | range lo hi len dsts => exact ⟨⟨w.2.2.1, w.1, w.2.1⟩, w.2.2.1, w.2.2.2.2.1⟩

/-- **cmap_get — the full statement.** For every well-formed CMap (any mix of bfchar and bfrange
sections; 1–4-byte codes; single-unit, multi-unit incrementing and array targets; overlapping or
adjacent definitions in any order) and every code of every length: `from_sections` succeeds and
`get` returns exactly what the CMap defines — the target of the LAST definition covering the code,
the offset within the range added to the last UTF-16 unit, an array target indexed by the offset;
`none` for an unmapped code. No guard. -/
theorem cmap_get (ss : List Section) (hwf : ∀ d ∈ defsOf ss, d.wf) (c l : Nat) (hc : c < U32) :
    ∃ m, fromSections ss = some m ∧ get m c l = .ok (defines (defsOf ss) c l) := by
  obtain ⟨m, hm, hget⟩ := get_eq_stored ss (wf_ok hwf) c l
  refine ⟨m, hm, ?_⟩
  rw [hget]
  unfold defines
  cases hl : lastCovering (defsOf ss) c l with
  | none => rfl
  | some D =>
    have hD := lastCoveringFrom_some hl
    simp only [reduceCtorEq, or_false] at hD
    obtain ⟨hmem, hcov⟩ := hD
    obtain ⟨_, hlo, hhi⟩ := covers_iff.mp hcov
    simp only [Option.bind_some]
    exact targetAt_stored D (hwf D hmem) c hlo hhi hc

/-- non-vacuity of `cmap_get`: ligatures adjacent to each other with EQUAL targets, a later bfchar inside
an incrementing multi-unit range, adjacent equal arrays, a target ending in FFFF, an array with a
surrogate pair, overlapping single-unit ranges — everything the old code got wrong, all well-formed -/
example : ∀ d ∈ defsOf
      [.bfChar [((0x01, 1), [0x66, 0x69]), ((0x02, 1), [0x66, 0x69]), ((0x05, 1), [0x41, 0xFFFF]), ((0x06, 1), [0x41, 0xFFFF])],
       .bfRange [((0x10, 0x13, 1), [[0x41, 0x30]]), ((0x20, 0x21, 1), [[0xD83D, 0xDE00], [0x263a]]),
                 ((0x22, 0x23, 1), [[0xD83D, 0xDE00], [0x263a]]), ((0x30, 0x7e, 1), [[0x30]]), ((0x41, 0x5a, 1), [[0x61]])],
       .bfChar [((0x11, 1), [0x58])]],
    d.wf := by
  intro d hd
  simp [defsOf, defsOfChars, defsOfRanges] at hd
  rcases hd with h | h | h | h | h | h | h | h | h | h <;> subst h <;> simp [Def.wf]

/-- **cmap_get_no_panic** — for EVERY CMap `from_sections` accepts (targets of any shape: empty, arrays
shorter or longer than their range, incrementing targets running past FFFF) and every code of every
length, `get` does not panic: the two `code - start` subtractions cannot underflow, the array is
indexed with `.get`, the `u16` addition wraps. -/
theorem cmap_get_no_panic (ss : List Section) (hok : ∀ d ∈ defsOf ss, putOk d ∧ rangeOk d) (c l : Nat) :
    ∃ m, fromSections ss = some m ∧ (get m c l).isPanic = false := by
  obtain ⟨m, hm, hget⟩ := get_eq_stored ss hok c l
  refine ⟨m, hm, ?_⟩
  rw [hget]
  cases hl : lastCovering (defsOf ss) c l with
  | none => rfl
  | some D =>
    have hD := lastCoveringFrom_some hl
    simp only [reduceCtorEq, or_false] at hD
    obtain ⟨_, hlo, _⟩ := covers_iff.mp hD.2
    exact targetAt_stored_no_panic D c hlo

/-! ### regression: the former counter-witnesses (F-C15-a..d) on the fixed code -/

/-- result of `get` after `from_sections` -/
def getAfter (ss : List Section) (c l : Nat) : Option (Outcome (Option (List Nat))) :=
  (fromSections ss).map fun m => get m c l

/-- F-C15-a (fixed): two adjacent codes mapped to the same ligature both decode to it ("fifi", not "fifj"). -/
def witA : List Section := [.bfChar [((1, 1), [0x66, 0x69]), ((2, 1), [0x66, 0x69])]]
theorem regress_adjacent :
    getAfter witA 2 1 = some (.ok (defines (defsOf witA) 2 1)) ∧ defines (defsOf witA) 2 1 = some [0x66, 0x69] ∧
    (fromSections witA).map (fun m => (bytesToUnits m [1, 2])) = some (.ok [0x66, 0x69, 0x66, 0x69]) := by
  decide

/-- F-C15-b (fixed): a later bfchar inside an incrementing multi-unit range does not shift the rest. -/
def witB : List Section := [.bfRange [((0x10, 0x13, 1), [[0x41, 0x42]])], .bfChar [((0x11, 1), [0x58])]]
theorem regress_split :
    getAfter witB 0x12 1 = some (.ok (some [0x41, 0x44])) ∧ defines (defsOf witB) 0x12 1 = some [0x41, 0x44] := by
  decide

def witB' : List Section :=
  [.bfRange [((0x10, 0x12, 1), [[0x41, 0x41], [0x42, 0x42], [0x43, 0x43]])], .bfChar [((0x10, 1), [0x58])]]
theorem regress_split_array :
    getAfter witB' 0x11 1 = some (.ok (some [0x42, 0x42])) ∧ defines (defsOf witB') 0x11 1 = some [0x42, 0x42] := by
  decide

/-- F-C15-c (fixed): two adjacent array ranges with equal arrays: no index panic, the right entry. -/
def witC : List Section :=
  [.bfRange [((1, 2, 1), [[0x41, 0x41], [0x42, 0x42]]), ((3, 4, 1), [[0x41, 0x41], [0x42, 0x42]])]]
theorem regress_index :
    getAfter witC 3 1 = some (.ok (some [0x41, 0x41])) ∧ defines (defsOf witC) 3 1 = some [0x41, 0x41] := by
  decide

/-- F-C15-d (fixed): equal adjacent targets ending in FFFF: no overflow panic, the defined target. -/
def witD : List Section := [.bfChar [((1, 1), [0x41, 0xFFFF]), ((2, 1), [0x41, 0xFFFF])]]
theorem regress_overflow :
    getAfter witD 2 1 = some (.ok (some [0x41, 0xFFFF])) ∧ defines (defsOf witD) 2 1 = some [0x41, 0xFFFF] := by
  decide

/-- the former witnesses are well-formed CMaps -/
theorem witnesses_wf : (∀ d ∈ defsOf witA, d.wf) ∧ (∀ d ∈ defsOf witB, d.wf) ∧ (∀ d ∈ defsOf witC, d.wf) ∧
    (∀ d ∈ defsOf witD, d.wf) := by
  refine ⟨?_, ?_, ?_, ?_⟩ <;> intro d hd <;>
    simp [witA, witB, witC, witD, defsOf, defsOfChars, defsOfRanges] at hd
  · rcases hd with h | h <;> subst h <;> simp [Def.wf]
  · rcases hd with h | h <;> subst h <;> simp [Def.wf]
  · rcases hd with h | h <;> subst h <;> simp [Def.wf]
  · rcases hd with h | h <;> subst h <;> simp [Def.wf]

/-! ### segmentation of the byte string into codes -/

/-- big-endian value of a code given as its bytes -/
def codeVal (bs : List Nat) : Nat := bs.foldl (fun acc b => acc * 256 + b) 0

theorem codeVal_snoc (bs : List Nat) (b : Nat) : codeVal (bs ++ [b]) = codeVal bs * 256 + b := by
  simp [codeVal, List.foldl_append]

/-- prepend units to a successful result -/
def prependOk (v : List Nat) : Outcome (List Nat) → Outcome (List Nat)
  | .ok r => .ok (v ++ r)
  | .err e => .err e
  | .panic s => .panic s

theorem segLoop_cons (m : UMap) (st : Nat × Nat) (b : Nat) (bs : List Nat) :
    segLoop m st (b :: bs) =
      match segStep m st b with
      | .ok (st', out) =>
        (match segLoop m st' bs with
         | .ok rest => .ok (out ++ rest)
         | .err e => .err e
         | .panic s => .panic s)
      | .err e => .err e
      | .panic s => .panic s := by
  rw [segLoop]; rfl

theorem segStep_hit {m : UMap} {n code b : Nat} {v : List Nat} (hn : n ≠ CMAP_SEG_MAX)
    (hg : get m (code * 256 + b) (n + 1) = .ok (some v)) : segStep m (n, code) b = .ok ((0, 0), v) := by
  simp [segStep, hn, hg]

theorem segStep_miss {m : UMap} {n code b : Nat} (hn : n ≠ CMAP_SEG_MAX)
    (hg : get m (code * 256 + b) (n + 1) = .ok none) :
    segStep m (n, code) b = .ok ((n + 1, code * 256 + b), []) := by
  simp [segStep, hn, hg]

/-- One code: starting in the state reached after the bytes `pre`, if every proper prefix of
`pre ++ suf` of length ≥ 1 that is still to be tried is unmapped and the whole code is mapped
to `v`, the loop consumes exactly `suf`, emits `v` and is back in the initial state. -/
theorem seg_one (m : UMap) (v : List Nat) (rest : List Nat) :
    ∀ (suf pre : List Nat), suf ≠ [] → pre.length + suf.length ≤ 4 →
      (∀ k, 0 < k → k < suf.length → get m (codeVal (pre ++ suf.take k)) (pre.length + k) = .ok none) →
      get m (codeVal (pre ++ suf)) (pre.length + suf.length) = .ok (some v) →
      segLoop m (pre.length, codeVal pre) (suf ++ rest) = prependOk v (segLoop m (0, 0) rest) := by
  intro suf
  induction suf with
  | nil => intro pre h; exact absurd rfl h
  | cons b suf ih =>
    intro pre _ hlen hpre hfull
    have hn : pre.length ≠ CMAP_SEG_MAX := by simp [CMAP_SEG_MAX] at hlen ⊢; omega
    cases suf with
    | nil =>
      -- last byte of the code: mapped
      have hg : get m (codeVal pre * 256 + b) (pre.length + 1) = .ok (some v) := by
        rw [← codeVal_snoc]; simpa using hfull
      show segLoop m (pre.length, codeVal pre) (b :: rest) = _
      rw [segLoop_cons, segStep_hit hn hg]
      dsimp only
      generalize segLoop m (0, 0) rest = r
      cases r <;> rfl
    | cons b2 suf2 =>
      have hg : get m (codeVal pre * 256 + b) (pre.length + 1) = .ok none := by
        have := hpre 1 (by omega) (by simp)
        rw [← codeVal_snoc]; simpa using this
      show segLoop m (pre.length, codeVal pre) (b :: (b2 :: suf2 ++ rest)) = _
      rw [segLoop_cons, segStep_miss hn hg]
      dsimp only
      have e1 : pre.length + 1 = (pre ++ [b]).length := by simp
      have e2 : codeVal pre * 256 + b = codeVal (pre ++ [b]) := (codeVal_snoc pre b).symm
      rw [e1, e2]
      have := ih (pre ++ [b]) (by simp) (by simp at hlen ⊢; omega)
        (fun k hk1 hk2 => by
          have := hpre (k + 1) (by omega) (by simp at hk2 ⊢; omega)
          simpa [List.take_succ_cons, Nat.add_assoc, Nat.add_comm 1 k] using this)
        (by simpa [Nat.add_assoc, Nat.add_comm 1] using hfull)
      rw [this]
      generalize segLoop m (0, 0) rest = r
      cases r <;> rfl

/-- a code (as bytes) with its target, usable for exact segmentation w.r.t. the map `m` -/
def SegOk (m : UMap) (bs v : List Nat) : Prop :=
  bs ≠ [] ∧ bs.length ≤ 4 ∧
  (∀ k, 0 < k → k < bs.length → get m (codeVal (bs.take k)) k = .ok none) ∧
  get m (codeVal bs) bs.length = .ok (some v)

/-- **segment_exact** — for every stored map and every byte string that is the concatenation of
codes (1–4 bytes each) which are mapped and none of whose proper prefixes is mapped
(prefix-free), `bytes_to_string`'s loop cuts the string into exactly these codes and emits
the concatenation of their targets; no length bound on the string. -/
theorem segment_exact (m : UMap) (codes : List (List Nat × List Nat))
    (h : ∀ p ∈ codes, SegOk m p.1 p.2) :
    bytesToUnits m (codes.flatMap (·.1)) = .ok (codes.flatMap (·.2)) := by
  unfold bytesToUnits
  induction codes with
  | nil => simp [segLoop]
  | cons p codes ih =>
    obtain ⟨bs, v⟩ := p
    obtain ⟨h1, h2, h3, h4⟩ := h (bs, v) List.mem_cons_self
    simp only [List.flatMap_cons]
    have := seg_one m v (codes.flatMap (·.1)) bs [] h1 (by simpa using h2)
      (fun k hk1 hk2 => by simpa using h3 k hk1 hk2) (by simpa using h4)
    simp only [List.length_nil, codeVal, List.foldl_nil] at this
    rw [this, ih (fun p hp => h p (List.mem_cons_of_mem _ hp))]
    rfl

/-- non-vacuity of `segment_exact`: a 1-byte and a 2-byte code in one map (prefix-free) -/
example : ∃ m, fromSections [.bfChar [((0x01, 1), [0x41]), ((0x8001, 2), [0x66, 0x69])]] = some m ∧
    SegOk m [0x01] [0x41] ∧ SegOk m [0x80, 0x01] [0x66, 0x69] := by
  refine ⟨_, rfl, ⟨by simp, by simp, ?_, by decide⟩, ⟨by simp, by simp, ?_, by decide⟩⟩
  · intro k h1 h2; simp at h2; omega
  · intro k h1 h2
    have : k = 1 := by simp at h2; omega
    subst this; decide

/-! ### UTF-16: surrogate pairs become one scalar -/

theorem utf16_encode_decode_from (cs : List Nat) (h : ∀ c ∈ cs, isScalar c) :
    utf16Go none (encodeUtf16 cs) = cs := by
  induction cs with
  | nil => rfl
  | cons c cs ih =>
    have hc := h c List.mem_cons_self
    have ih' := ih (fun c' hc' => h c' (List.mem_cons_of_mem _ hc'))
    simp only [encodeUtf16, List.flatMap_cons] at ih' ⊢
    by_cases hlt : c < 0x10000
    · have e : encodeScalar c = [c] := by simp [encodeScalar, hlt]
      rw [e]
      simp only [List.cons_append, List.nil_append]
      unfold utf16Go
      have h1 : isHighSur c = false := by
        unfold isHighSur; unfold isScalar at hc
        simp only [Bool.and_eq_false_iff, decide_eq_false_iff_not]; omega
      have h2 : isLowSur c = false := by
        unfold isLowSur; unfold isScalar at hc
        simp only [Bool.and_eq_false_iff, decide_eq_false_iff_not]; omega
      simp only [h1, h2, Bool.false_eq_true, if_false]
      rw [ih']
    · have e : encodeScalar c = [0xD800 + (c - 0x10000) / 0x400, 0xDC00 + (c - 0x10000) % 0x400] := by
        simp [encodeScalar, hlt]
      rw [e]
      simp only [List.cons_append, List.nil_append]
      unfold isScalar at hc
      have hi1 : isHighSur (0xD800 + (c - 0x10000) / 0x400) = true := by
        unfold isHighSur
        simp only [Bool.and_eq_true, decide_eq_true_eq]; omega
      have lo1 : isLowSur (0xDC00 + (c - 0x10000) % 0x400) = true := by
        unfold isLowSur
        simp only [Bool.and_eq_true, decide_eq_true_eq]; omega
      unfold utf16Go
      simp only [hi1, if_true]
      unfold utf16Go
      simp only [lo1, if_true]
      rw [ih']
      have : surScalar (0xD800 + (c - 0x10000) / 0x400) (0xDC00 + (c - 0x10000) % 0x400) = c := by
        unfold surScalar; omega
      rw [this]

/-- **surrogates_roundtrip** — decoding the UTF-16 encoding of any list of Unicode scalar values
returns that list: every surrogate pair becomes ONE scalar value (and nothing else changes). -/
theorem surrogates_roundtrip (cs : List Nat) (h : ∀ c ∈ cs, isScalar c) :
    utf16Scalars (encodeUtf16 cs) = cs := utf16_encode_decode_from cs h

/-- **decode_exact** — end to end on the model: for a byte string of mapped, prefix-free codes whose
targets together are the UTF-16 encoding of the scalar values `cs`, `decode_text` yields exactly `cs`
(a leading U+FEFF or U+FFFE included: nothing is sniffed, F-C15-e fixed). -/
theorem decode_exact (m : UMap) (codes : List (List Nat × List Nat)) (cs : List Nat)
    (hseg : ∀ p ∈ codes, SegOk m p.1 p.2) (hcs : ∀ c ∈ cs, isScalar c)
    (henc : codes.flatMap (·.2) = encodeUtf16 cs) :
    (match bytesToUnits m (codes.flatMap (·.1)) with
     | .ok us => some (decodeUnits us)
     | _ => none) = some cs := by
  rw [segment_exact m codes hseg, henc]
  simp only [decodeUnits, surrogates_roundtrip cs hcs]

/-- F-C15-e (fixed): a text starting with U+FFFE or U+FEFF is decoded unit by unit like any other. -/
theorem regress_bom :
    decodeUnits [0xFFFE, 0x0041] = [0xFFFE, 0x41] ∧ decodeUnits [0xFEFF, 0x0041] = [0xFEFF, 0x41] := by decide

example : utf16Scalars [0xD83D, 0xDE00, 0x41] = [0x1F600, 0x41] := by decide

/-! ### the property, end to end on the model -/

theorem foldl_code_lt (bs : List Nat) : ∀ acc, (∀ b ∈ bs, b < 256) →
    bs.foldl (fun acc b => acc * 256 + b) acc < (acc + 1) * 256 ^ bs.length := by
  induction bs with
  | nil => intro acc _; simp
  | cons b bs ih =>
    intro acc h
    have hb : b < 256 := h b List.mem_cons_self
    have := ih (acc * 256 + b) (fun x hx => h x (List.mem_cons_of_mem _ hx))
    simp only [List.foldl_cons, List.length_cons]
    have h2 : (acc * 256 + b + 1) * 256 ^ bs.length ≤ ((acc + 1) * 256) * 256 ^ bs.length :=
      Nat.mul_le_mul_right _ (by omega)
    have h3 : ((acc + 1) * 256) * 256 ^ bs.length = (acc + 1) * 256 ^ (bs.length + 1) := by
      rw [Nat.pow_succ, Nat.mul_assoc, Nat.mul_comm 256]
    omega

theorem codeVal_lt_u32 (bs : List Nat) (hb : ∀ b ∈ bs, b < 256) (hl : bs.length ≤ 4) : codeVal bs < U32 := by
  have h := foldl_code_lt bs 0 hb
  have h2 : 256 ^ bs.length ≤ 256 ^ 4 := Nat.pow_le_pow_right (by omega) hl
  unfold codeVal U32
  omega

/-- a code (as bytes) the CMap maps to `v`, none of whose proper prefixes is mapped -/
def DefinedCode (ds : List Def) (bs v : List Nat) : Prop :=
  bs ≠ [] ∧ bs.length ≤ 4 ∧ (∀ b ∈ bs, b < 256) ∧
  (∀ k, 0 < k → k < bs.length → defines ds (codeVal (bs.take k)) k = none) ∧
  defines ds (codeVal bs) bs.length = some v

/-- **cmap_decode — the property on the model.** For every well-formed CMap and every byte string (any
length) made of mapped codes none of whose proper prefixes is mapped, `from_sections` succeeds and
`bytes_to_string`'s loop produces exactly the concatenation of the targets the CMap defines. -/
theorem cmap_decode (ss : List Section) (hwf : ∀ d ∈ defsOf ss, d.wf)
    (codes : List (List Nat × List Nat)) (hcodes : ∀ p ∈ codes, DefinedCode (defsOf ss) p.1 p.2) :
    ∃ m, fromSections ss = some m ∧ bytesToUnits m (codes.flatMap (·.1)) = .ok (codes.flatMap (·.2)) := by
  obtain ⟨m, hm, _⟩ := cmap_get ss hwf 0 0 (by unfold U32; omega)
  refine ⟨m, hm, segment_exact m codes ?_⟩
  intro p hp
  obtain ⟨h1, h2, h3, h4, h5⟩ := hcodes p hp
  have hget : ∀ c l, c < U32 → get m c l = .ok (defines (defsOf ss) c l) := by
    intro c l hc
    obtain ⟨m', hm', hg⟩ := cmap_get ss hwf c l hc
    rw [hm] at hm'
    rw [Option.some.inj hm']; exact hg
  refine ⟨h1, h2, ?_, ?_⟩
  · intro k hk1 hk2
    rw [hget _ _ (codeVal_lt_u32 _ (fun b hb => h3 b (List.mem_of_mem_take hb)) (by simp; omega)), h4 k hk1 hk2]
  · rw [hget _ _ (codeVal_lt_u32 _ h3 h2), h5]

/-- … and the decoded text: if the defined targets are the UTF-16 encoding of the scalar values `cs`,
`decode_text` returns exactly `cs` — every surrogate pair one character. -/
theorem cmap_decode_text (ss : List Section) (hwf : ∀ d ∈ defsOf ss, d.wf)
    (codes : List (List Nat × List Nat)) (hcodes : ∀ p ∈ codes, DefinedCode (defsOf ss) p.1 p.2)
    (cs : List Nat) (hcs : ∀ c ∈ cs, isScalar c) (henc : codes.flatMap (·.2) = encodeUtf16 cs) :
    ∃ m, fromSections ss = some m ∧
      (match bytesToUnits m (codes.flatMap (·.1)) with
       | .ok us => some (decodeUnits us)
       | _ => none) = some cs := by
  obtain ⟨m, hm, hb⟩ := cmap_decode ss hwf codes hcodes
  refine ⟨m, hm, ?_⟩
  rw [hb, henc]
  simp only [decodeUnits, surrogates_roundtrip cs hcs]

/-! ### from the text of the stream -/

/-- **cmap_parse_render** — the grammar model (`cmap_stream` and everything below it) reads back the
canonical writer: for every non-empty list of sections of any kinds and sizes with 1–4-byte codes and
1–256-unit targets, parsing the written stream yields exactly these sections. -/
theorem cmap_parse_render (ss : List Section) (hne : ss ≠ []) (hok : ∀ s ∈ ss, SectionOk s) :
    parseCMap (CMapRender.renderCMap ss) = some ss := parse_render ss hne hok

/-- **cmap_text_get** — from the bytes of the /ToUnicode stream to the looked-up target:
`ToUnicodeCMap::parse` of the written CMap followed by `get` returns what the CMap defines, for every
code of every length. -/
theorem cmap_text_get (ss : List Section) (hne : ss ≠ []) (hok : ∀ s ∈ ss, SectionOk s)
    (hwf : ∀ d ∈ defsOf ss, d.wf) (c l : Nat) (hc : c < U32) :
    ∃ m, (parseCMap (CMapRender.renderCMap ss)).bind fromSections = some m ∧
      get m c l = .ok (defines (defsOf ss) c l) := by
  obtain ⟨m, hm, hg⟩ := cmap_get ss hwf c l hc
  exact ⟨m, by rw [parse_render ss hne hok]; exact hm, hg⟩

/-- non-vacuity: a CMap with all three kinds of sections, an array and a surrogate pair is writable -/
example : ∀ s ∈ ([.csRange [(0, 0xFFFF, 2)], .bfChar [((0x01, 1), [0x66, 0x69]), ((0x0003, 2), [0x41])],
                  .bfRange [((0x10, 0x13, 1), [[0x41, 0x30]]), ((0x20, 0x21, 1), [[0xD83D, 0xDE00], [0x263a]])]] : List Section),
    SectionOk s := by
  intro s hs
  simp only [List.mem_cons, List.mem_nil_iff, or_false] at hs
  rcases hs with h | h | h <;> subst h <;>
    simp [SectionOk, CsLineOk, CharLineOk, RangeLineOk, CodeOk, TargetOk]

/-- the constants regenerated from the source are the documented ones: unmapped codes become
U+FFFD, codes have 1 to 4 bytes, a target string has 1 to 256 UTF-16 units -/
theorem cmap_constants_documented :
    CMAP_REPLACEMENT_CHAR = 0xFFFD ∧ CMAP_MAX_CODE_LEN = 4 ∧ CMAP_BAD_CODE_LEN = 0 ∧ CMAP_NUM_MAPS = 4 ∧
    CMAP_SEG_MAX = 4 ∧ CMAP_SRC_MIN = 1 ∧ CMAP_SRC_MAX = 4 ∧ CMAP_DST_MIN = 1 ∧ CMAP_DST_MAX = 256 := by
  decide

end Lopdf.CMap
