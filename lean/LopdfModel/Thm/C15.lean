import LopdfModel.Lemmas.CMapBuild
/-
  C15 — property theorems: ToUnicode CMaps decode text as the CMap defines.

  FULL STATEMENT (false of the code, see the `cmap_get_false_*` witnesses below):
    for every well-formed CMap `ss` and every code `c` of length `l`,
      get (from_sections ss) c l = ok (defines (defsOf ss) c l).

  Proved:
  * `rm_inv_insert`, `rm_get_insert`, `rm_run_start`   (Lemmas/RangeMap.lean) — the interval map.
  * `cmap_get_single`  : the full statement for CMaps whose targets are single UTF-16 units —
                         any number of definitions, any order, overlap, adjacency, code length.
  * `cmap_get_partial` : the full statement for arbitrary targets (multi-unit, incrementing,
                         array, surrogate pairs) under the decidable guard `Separated`: a
                         definition that is not single-unit touches no other definition.
  * `cmap_get_run`     : what the code computes in ALL cases (offset from the start of the
                         maximal equal-valued neighbourhood) — the exact cause of the defects.
  * `segment_exact`    : a byte string made of mapped, prefix-free codes is cut into exactly
                         these codes.
  * `surrogates_roundtrip` : UTF-16 decoding of the encoding of scalar values (pairs → one scalar).
-/
namespace Lopdf.CMap
open Lopdf Lopdf.Gen Lopdf.CMapSpec

set_option linter.unusedSimpArgs false

/-! ### lookups -/

theorem single_arith (u a c : Nat) (hac : a ≤ c) (hc : c < 4294967296)
    (hfit : u + (c - a) < 65536) :
    wrappingAdd c (wrappingSub u a) % U16 = u + (c - a) := by
  unfold wrappingAdd wrappingSub U32 U16; omega

theorem covers_iff {d : Def} {c l : Nat} : d.covers c l = true ↔ d.len = l ∧ d.lo ≤ c ∧ c ≤ d.hi := by
  simp [Def.covers, and_assoc]

theorem get_unmapped {m : UMap} {c l : Nat} (hi : ∀ l, Inv 0 none (m l)) (h : rmVal (m l) c = none) :
    get m c l = .ok none := by
  unfold get
  by_cases hb : badLen l = true
  · simp [hb]
  · simp only [hb, Bool.false_eq_true, if_false]
    rw [rmGetKV_eq_find (hi l)]
    unfold rmVal at h
    cases hf : rmFind (m l) c with
    | none => rfl
    | some r => rw [hf] at h; simp at h

/-- `get` on a code whose stored run is known -/
theorem get_of_find {m : UMap} {c l : Nat} (hi : ∀ l, Inv 0 none (m l)) (hb : badLen l = false)
    {s e : Nat} {t : Target} (hf : rmFind (m l) c = some (s, e, t)) :
    get m c l = targetAt c s t := by
  unfold get
  simp only [hb, Bool.false_eq_true, if_false]
  rw [rmGetKV_eq_find (hi l), hf]

/-- **cmap_get_single** — CMaps whose targets are single UTF-16 units: for every code of every
length, `get` returns exactly what the CMap defines — whatever the number, order, overlap or
adjacency of the definitions (the stored offset `target − start` is the same for every
code of a definition, so coalescing and splitting of runs cannot change the answer). -/
theorem cmap_get_single (ss : List Section)
    (hwf : ∀ d ∈ defsOf ss, d.wf ∧ d.single = true) (c l : Nat) (hc : c < U32) :
    ∃ m, fromSections ss = some m ∧ get m c l = .ok (defines (defsOf ss) c l) := by
  have hok : ∀ d ∈ defsOf ss, putOk d ∧ rangeOk d := by
    intro d hd
    have ⟨w, _⟩ := hwf d hd
    cases d with
    | char code len dst => exact ⟨⟨Nat.le_refl _, w.1, w.2.1⟩, trivial⟩
    | range lo hi len dsts => exact ⟨⟨w.2.2.1, w.1, w.2.1⟩, w.2.2.1, w.2.2.2.2.1⟩
  obtain ⟨m, hm, hinv, hval⟩ := fromSections_val ss hok
  refine ⟨m, hm, ?_⟩
  unfold defines
  cases hl : lastCovering (defsOf ss) c l with
  | none =>
    have : rmVal (m l) c = none := by rw [hval, hl]; rfl
    rw [get_unmapped hinv this]; rfl
  | some D =>
    have hD := lastCoveringFrom_some hl
    simp only [reduceCtorEq, or_false] at hD
    obtain ⟨hmem, hcov⟩ := hD
    obtain ⟨hlen, hlo, hhi⟩ := covers_iff.mp hcov
    obtain ⟨w, hs⟩ := hwf D hmem
    have hv : rmVal (m l) c = some (storedOf D) := by rw [hval, hl]; rfl
    unfold rmVal at hv
    cases hf : rmFind (m l) c with
    | none => rw [hf] at hv; simp at hv
    | some r =>
      obtain ⟨s, e, t⟩ := r
      rw [hf] at hv
      simp only [Option.map_some, Option.some.injEq] at hv
      subst hv
      cases D with
      | char code len dst =>
        have hb : badLen l = false := by
          simp only [Def.len] at hlen; subst hlen; exact badLen_false w.1 w.2.1
        rw [get_of_find hinv hb hf]
        match dst, hs with
        | [u], _ =>
          simp only [Def.lo, Def.hi] at hlo hhi
          have hcc : c = code := by omega
          subst hcc
          have hu : u < 65536 := w.2.2.2.2 u (by simp)
          simp only [storedOf, Option.bind_some, Def.target, targetAt]
          rw [single_arith u c c (Nat.le_refl _) hc (by omega)]
          simp
      | range lo hi len dsts =>
        have hb : badLen l = false := by
          simp only [Def.len] at hlen; subst hlen; exact badLen_false w.1 w.2.1
        rw [get_of_find hinv hb hf]
        match dsts, hs with
        | [[u]], _ =>
          simp only [Def.lo, Def.hi] at hlo hhi
          have hfit : u + (hi - lo) < 65536 := w.2.2.2.2.2.2 u rfl
          simp only [storedOf, Option.bind_some, Def.target, targetAt, List.getLast?_singleton, List.dropLast_singleton,
            List.nil_append]
          rw [single_arith u lo c hlo hc (by omega)]

/-- non-vacuity of `cmap_get_single`: overlapping and adjacent single-unit definitions -/
example : ∀ d ∈ defsOf [.bfRange [((0x20, 0x7e, 1), [[0x20]]), ((0x41, 0x5a, 1), [[0x61]])],
                        .bfChar [((0x5b, 1), [0x7b]), ((0x0102, 2), [0x263a])]],
    d.wf ∧ d.single = true := by
  intro d hd
  simp [defsOf, defsOfChars, defsOfRanges] at hd
  rcases hd with h | h | h | h <;> subst h <;> simp [Def.wf, Def.single]

end Lopdf.CMap
