import LopdfModel.Lemmas.CMapBuild
import LopdfModel.Lemmas.CMapGrammar
/-
  C15 — property theorems: ToUnicode CMaps decode text as the CMap defines.

  FULL STATEMENT (false of the code, see the `cmap_get_false_*` witnesses below):
    for every well-formed CMap `ss` and every code `c` of length `l`,
      get (from_sections ss) c l = ok (defines (defsOf ss) c l).

  Proved:
  * `rm_inv_insert`, `rm_get_insert`, `rm_run_start`   (Lemmas/RangeMap.lean) — the interval map.
  * `cmap_get_single`  : the full statement for CMaps whose targets are single UTF-16 units —
                         any number of definitions, any order, overlap, adjacency, code length.
  * `cmap_get_partial` : the full statement for arbitrary targets (multi-unit, incrementing,
                         array, surrogate pairs) under the decidable guard `Separated`: a
                         definition that is not single-unit touches no other definition.
  * `cmap_get_run`     : what the code computes in ALL cases (offset from the start of the
                         maximal equal-valued neighbourhood) — the exact cause of the defects.
  * `segment_exact`    : a byte string made of mapped, prefix-free codes is cut into exactly
                         these codes.
  * `surrogates_roundtrip` : UTF-16 decoding of the encoding of scalar values (pairs → one scalar).
-/
namespace Lopdf.CMap
open Lopdf Lopdf.Gen Lopdf.CMapSpec

set_option linter.unusedSimpArgs false

/-! ### lookups -/

theorem single_arith (u a c : Nat) (hac : a ≤ c) (hc : c < 4294967296)
    (hfit : u + (c - a) < 65536) :
    wrappingAdd c (wrappingSub u a) % U16 = u + (c - a) := by
  unfold wrappingAdd wrappingSub U32 U16; omega

theorem covers_iff {d : Def} {c l : Nat} : d.covers c l = true ↔ d.len = l ∧ d.lo ≤ c ∧ c ≤ d.hi := by
  simp [Def.covers, and_assoc]

theorem get_unmapped {m : UMap} {c l : Nat} (hi : ∀ l, Inv 0 none (m l)) (h : rmVal (m l) c = none) :
    get m c l = .ok none := by
  unfold get
  by_cases hb : badLen l = true
  · simp [hb]
  · simp only [hb, Bool.false_eq_true, if_false]
    rw [rmGetKV_eq_find (hi l)]
    unfold rmVal at h
    cases hf : rmFind (m l) c with
    | none => rfl
    | some r => rw [hf] at h; simp at h

/-- `get` on a code whose stored run is known -/
theorem get_of_find {m : UMap} {c l : Nat} (hi : ∀ l, Inv 0 none (m l)) (hb : badLen l = false)
    {s e : Nat} {t : Target} (hf : rmFind (m l) c = some (s, e, t)) :
    get m c l = targetAt c s t := by
  unfold get
  simp only [hb, Bool.false_eq_true, if_false]
  rw [rmGetKV_eq_find (hi l), hf]

/-- **cmap_get_single** — CMaps whose targets are single UTF-16 units: for every code of every
length, `get` returns exactly what the CMap defines — whatever the number, order, overlap or
adjacency of the definitions (the stored offset `target − start` is the same for every
code of a definition, so coalescing and splitting of runs cannot change the answer). -/
theorem cmap_get_single (ss : List Section)
    (hwf : ∀ d ∈ defsOf ss, d.wf ∧ d.single = true) (c l : Nat) (hc : c < U32) :
    ∃ m, fromSections ss = some m ∧ get m c l = .ok (defines (defsOf ss) c l) := by
  have hok : ∀ d ∈ defsOf ss, putOk d ∧ rangeOk d := by
    intro d hd
    have ⟨w, _⟩ := hwf d hd
    cases d with
    | char code len dst => exact ⟨⟨Nat.le_refl _, w.1, w.2.1⟩, trivial⟩
    | range lo hi len dsts => exact ⟨⟨w.2.2.1, w.1, w.2.1⟩, w.2.2.1, w.2.2.2.2.1⟩
  obtain ⟨m, hm, hinv, hval⟩ := fromSections_val ss hok
  refine ⟨m, hm, ?_⟩
  unfold defines
  cases hl : lastCovering (defsOf ss) c l with
  | none =>
    have : rmVal (m l) c = none := by rw [hval, hl]; rfl
    rw [get_unmapped hinv this]; rfl
  | some D =>
    have hD := lastCoveringFrom_some hl
    simp only [reduceCtorEq, or_false] at hD
    obtain ⟨hmem, hcov⟩ := hD
    obtain ⟨hlen, hlo, hhi⟩ := covers_iff.mp hcov
    obtain ⟨w, hs⟩ := hwf D hmem
    have hv : rmVal (m l) c = some (storedOf D) := by rw [hval, hl]; rfl
    unfold rmVal at hv
    cases hf : rmFind (m l) c with
    | none => rw [hf] at hv; simp at hv
    | some r =>
      obtain ⟨s, e, t⟩ := r
      rw [hf] at hv
      simp only [Option.map_some, Option.some.injEq] at hv
      subst hv
      cases D with
      | char code len dst =>
        have hb : badLen l = false := by
          simp only [Def.len] at hlen; subst hlen; exact badLen_false w.1 w.2.1
        rw [get_of_find hinv hb hf]
        match dst, hs with
        | [u], _ =>
          simp only [Def.lo, Def.hi] at hlo hhi
          have hcc : c = code := by omega
          subst hcc
          have hu : u < 65536 := w.2.2.2.2 u (by simp)
          simp only [storedOf, Option.bind_some, Def.target, targetAt]
          rw [single_arith u c c (Nat.le_refl _) hc (by omega)]
          simp
      | range lo hi len dsts =>
        have hb : badLen l = false := by
          simp only [Def.len] at hlen; subst hlen; exact badLen_false w.1 w.2.1
        rw [get_of_find hinv hb hf]
        match dsts, hs with
        | [[u]], _ =>
          simp only [Def.lo, Def.hi] at hlo hhi
          have hfit : u + (hi - lo) < 65536 := w.2.2.2.2.2.2 u rfl
          simp only [storedOf, Option.bind_some, Def.target, targetAt, List.getLast?_singleton, List.dropLast_singleton,
            List.nil_append]
          rw [single_arith u lo c hlo hc (by omega)]

/-- non-vacuity of `cmap_get_single`: overlapping and adjacent single-unit definitions -/
example : ∀ d ∈ defsOf [.bfRange [((0x20, 0x7e, 1), [[0x20]]), ((0x41, 0x5a, 1), [[0x61]])],
                        .bfChar [((0x5b, 1), [0x7b]), ((0x0102, 2), [0x263a])]],
    d.wf ∧ d.single = true := by
  intro d hd
  simp [defsOf, defsOfChars, defsOfRanges] at hd
  rcases hd with h | h | h | h <;> subst h <;> simp [Def.wf, Def.single]

/-! ### what the code computes in general, and the guard under which it is right -/

/-- the value stored for code `x` of length `l` after `from_sections`, in terms of the definitions -/
def storedAt (ds : List Def) (l x : Nat) : Option Target := (lastCovering ds x l).map storedOf

/-- **cmap_get_run** — what `get` computes for EVERY CMap (well-formed or not, any targets):
the target stored for the last covering definition, evaluated with the offset counted from
the start of the maximal neighbourhood of codes carrying an EQUAL stored target
(`reachDown`), not from the start of the definition. All defects F-C15-a..d are instances. -/
theorem cmap_get_run (ss : List Section) (hok : ∀ d ∈ defsOf ss, putOk d ∧ rangeOk d) (c l : Nat) :
    ∃ m, fromSections ss = some m ∧
      get m c l =
        match lastCovering (defsOf ss) c l with
        | none => .ok none
        | some D => targetAt c (reachDown (storedAt (defsOf ss) l) (storedOf D) c) (storedOf D) := by
  obtain ⟨m, hm, hinv, hval⟩ := fromSections_val ss hok
  refine ⟨m, hm, ?_⟩
  have hfun : rmVal (m l) = storedAt (defsOf ss) l := funext fun x => hval x l
  cases hl : lastCovering (defsOf ss) c l with
  | none =>
    have : rmVal (m l) c = none := by rw [hval, hl]; rfl
    rw [get_unmapped hinv this]
  | some D =>
    have hD := lastCoveringFrom_some hl
    simp only [reduceCtorEq, or_false] at hD
    obtain ⟨hmem, hcov⟩ := hD
    obtain ⟨hlen, _, _⟩ := covers_iff.mp hcov
    have hb : badLen l = false := by
      have := (hok D hmem).1
      subst hlen; exact badLen_false this.2.1 this.2.2
    have hv : rmVal (m l) c = some (storedOf D) := by rw [hval, hl]; rfl
    unfold rmVal at hv
    cases hf : rmFind (m l) c with
    | none => rw [hf] at hv; simp at hv
    | some r =>
      obtain ⟨s, e, t⟩ := r
      rw [hf] at hv
      simp only [Option.map_some, Option.some.injEq] at hv
      subst hv
      rw [get_of_find hinv hb hf]
      have hkv : rmGetKV (m l) c = some (s, e, storedOf D) := by rw [rmGetKV_eq_find (hinv l), hf]
      have := (rm_run_start (hinv l) hkv).1
      rw [hfun] at this
      simp only [this]

theorem dropLast_append_last : ∀ (l : List Nat) (a : Nat), l.getLast? = some a → l.dropLast ++ [a] = l
  | [], a, h => by simp at h
  | [x], a, h => by simp at h; simp [h]
  | x :: y :: t, a, h => by
    have h' : (y :: t).getLast? = some a := by simpa [List.getLast?_cons_cons] using h
    have := dropLast_append_last (y :: t) a h'
    simp only [List.dropLast_cons_cons, List.cons_append, this]

/-- If the run starts where the definition starts, a well-formed definition is evaluated correctly. -/
theorem targetAt_own_start (D : Def) (hwf : D.wf) (c : Nat) (hlo : D.lo ≤ c) (hhi : c ≤ D.hi) (hc : c < U32) :
    targetAt c D.lo (storedOf D) = .ok (D.target c) := by
  cases D with
  | char code len dst =>
    simp only [Def.lo, Def.hi] at hlo hhi
    have hcc : c = code := by omega
    subst hcc
    obtain ⟨_, _, _, hne, hu⟩ := hwf
    cases dst with
    | nil => exact absurd rfl hne
    | cons u t =>
      cases t with
      | nil =>
        simp only [storedOf, Def.target, targetAt, Def.lo]
        rw [single_arith u c c (Nat.le_refl _) hc (by have := hu u (by simp); omega)]
        simp
      | cons v t' =>
        simp only [storedOf, Def.target, targetAt, Def.lo, Nat.sub_self]
        cases hg : (u :: v :: t').getLast? with
        | none => simp at hg
        | some last =>
          have hlast : last < 65536 := hu last (List.mem_of_getLast? hg)
          have : ¬ (last + 0 % U16 ≥ U16) := by unfold U16; omega
          simp only [this, if_false]
          have e0 : last + 0 % U16 = last := by unfold U16; omega
          rw [e0, dropLast_append_last _ last hg]
  | range lo hi len dsts =>
    simp only [Def.lo, Def.hi] at hlo hhi
    obtain ⟨_, _, hlh, _, hne, hts, hshape⟩ := hwf
    cases dsts with
    | nil => exact absurd rfl hne
    | cons t rest =>
      cases rest with
      | nil =>
        cases t with
        | nil => exact absurd rfl (hts [] (by simp)).1
        | cons u t' =>
          cases t' with
          | nil =>
            have hfit : u + (hi - lo) < 65536 := hshape u rfl
            simp only [storedOf, Def.target, targetAt, Def.lo, List.getLast?_singleton, List.dropLast_singleton,
              List.nil_append]
            rw [single_arith u lo c hlo hc (by omega)]
          | cons v t'' =>
            simp only [storedOf, Def.target, targetAt, Def.lo]
            cases hg : (u :: v :: t'').getLast? with
            | none => simp at hg
            | some last =>
              have hfit : last + (hi - lo) < 65536 := hshape last hg
              have e0 : (c - lo) % U16 = c - lo := by unfold U16; omega
              have : ¬ (last + (c - lo) ≥ U16) := by unfold U16; omega
              simp only [e0, this, if_false]
      | cons t2 rest2 =>
        have hlen : (t :: t2 :: rest2).length = hi - lo + 1 := hshape
        simp only [storedOf, Def.target, targetAt, Def.lo]
        have hidx : c - lo < (t :: t2 :: rest2).length := by omega
        rw [List.getElem?_eq_getElem hidx]

/-- the value of a single-unit definition does not depend on where the stored run starts -/
theorem targetAt_single (D : Def) (hs : D.single = true) (c s s' : Nat) :
    targetAt c s (storedOf D) = targetAt c s' (storedOf D) := by
  cases D with
  | char code len dst =>
    match dst, hs with
    | [u], _ => rfl
  | range lo hi len dsts =>
    match dsts, hs with
    | [[u]], _ => rfl

/-- two definitions overlap: same code length, a common code -/
def overlapsB (d e : Def) : Bool :=
  decide (d.len = e.len) && decide (d.lo ≤ e.hi) && decide (e.lo ≤ d.hi)

/-- two definitions are adjacent: same code length, one ends right before the other starts -/
def adjacentB (d e : Def) : Bool :=
  decide (d.len = e.len) && (decide (d.hi + 1 = e.lo) || decide (e.hi + 1 = d.lo))

/-- a pair of definitions is harmless: both single-unit, or they do not overlap and — if adjacent —
are stored with different targets (so the interval map cannot coalesce them) -/
def sepPair (d e : Def) : Bool :=
  (d.single && e.single) || (!overlapsB d e && (!adjacentB d e || decide (storedOf d ≠ storedOf e)))

/-- **the guard** (decidable, on the input): every definition that is not single-unit overlaps no
other definition and is not adjacent to a definition with an equal multi-unit / array target.
(Single-unit definitions may overlap each other freely and may be adjacent to anything.) -/
def separated : List Def → Bool
  | [] => true
  | d :: ds => ds.all (sepPair d) && separated ds

theorem sepPair_iff {d e : Def} : sepPair d e = true ↔
    (d.single = true ∧ e.single = true) ∨
    (¬ (d.len = e.len ∧ d.lo ≤ e.hi ∧ e.lo ≤ d.hi) ∧
     ((d.len = e.len ∧ (d.hi + 1 = e.lo ∨ e.hi + 1 = d.lo)) → storedOf d ≠ storedOf e)) := by
  unfold sepPair overlapsB adjacentB
  by_cases h1 : d.single = true <;> by_cases h2 : e.single = true <;> by_cases a : d.len = e.len <;>
    by_cases b : d.lo ≤ e.hi <;> by_cases c : e.lo ≤ d.hi <;> by_cases f : d.hi + 1 = e.lo <;>
    by_cases g : e.hi + 1 = d.lo <;> by_cases k : storedOf d = storedOf e <;> simp [h1, h2, a, b, c, f, g, k]

theorem sepPair_symm {d e : Def} (h : sepPair d e = true) : sepPair e d = true := by
  rw [sepPair_iff] at h ⊢
  rcases h with h | ⟨h, k⟩
  · exact Or.inl ⟨h.2, h.1⟩
  · refine Or.inr ⟨fun ⟨a, b, c⟩ => h ⟨a.symm, c, b⟩, fun ⟨a, b⟩ e => k ⟨a.symm, b.symm⟩ e.symm⟩

theorem separated_mem {ds : List Def} (h : separated ds = true) {a b : Def} (ha : a ∈ ds) (hb : b ∈ ds) :
    a = b ∨ sepPair a b = true := by
  induction ds with
  | nil => cases ha
  | cons d ds ih =>
    simp only [separated, Bool.and_eq_true, List.all_eq_true] at h
    rcases List.mem_cons.mp ha with ha' | ha' <;> rcases List.mem_cons.mp hb with hb' | hb'
    · exact Or.inl (ha'.trans hb'.symm)
    · rw [ha']; exact Or.inr (h.1 b hb')
    · rw [hb']; exact Or.inr (sepPair_symm (h.1 a ha'))
    · exact ih h.2 ha' hb'

theorem lastCoveringFrom_isSome {acc : Option Def} {ds : List Def} {c l : Nat}
    (h : acc.isSome = true ∨ ∃ d ∈ ds, d.covers c l = true) : (lastCoveringFrom acc ds c l).isSome = true := by
  induction ds generalizing acc with
  | nil =>
    rcases h with h | ⟨d, hd, _⟩
    · exact h
    · cases hd
  | cons d ds ih =>
    unfold lastCoveringFrom
    apply ih
    by_cases hc : d.covers c l = true
    · left; simp [hc]
    · rcases h with h | ⟨d', hd', hc'⟩
      · left; simp [hc, h]
      · rcases List.mem_cons.mp hd' with e | e
        · subst e; exact absurd hc' hc
        · right; exact ⟨d', e, hc'⟩

/-- **cmap_get_partial** — the full statement of C15 for ARBITRARY targets (multi-unit strings,
incrementing ranges, arrays, surrogate pairs, mixed with single-unit definitions in any order,
which may overlap each other freely) under the guard `separated`: for every code of every
length, `get` returns exactly what the CMap defines. -/
theorem cmap_get_partial (ss : List Section)
    (hwf : ∀ d ∈ defsOf ss, d.wf) (hsep : separated (defsOf ss) = true) (c l : Nat) (hc : c < U32) :
    ∃ m, fromSections ss = some m ∧ get m c l = .ok (defines (defsOf ss) c l) := by
  have hok : ∀ d ∈ defsOf ss, putOk d ∧ rangeOk d := by
    intro d hd
    have w := hwf d hd
    cases d with
    | char code len dst => exact ⟨⟨Nat.le_refl _, w.1, w.2.1⟩, trivial⟩
    | range lo hi len dsts => exact ⟨⟨w.2.2.1, w.1, w.2.1⟩, w.2.2.1, w.2.2.2.2.1⟩
  obtain ⟨m, hm, hget⟩ := cmap_get_run ss hok c l
  refine ⟨m, hm, ?_⟩
  rw [hget]
  unfold defines
  cases hl : lastCovering (defsOf ss) c l with
  | none => rfl
  | some D =>
    have hD := lastCoveringFrom_some hl
    simp only [reduceCtorEq, or_false] at hD
    obtain ⟨hmem, hcov⟩ := hD
    obtain ⟨hlen, hlo, hhi⟩ := covers_iff.mp hcov
    simp only [Option.bind_some]
    rw [← targetAt_own_start D (hwf D hmem) c hlo hhi hc]
    by_cases hs : D.single = true
    · exact targetAt_single D hs c _ _
    · -- a non-single definition touches nothing: its stored neighbourhood is exactly its own range
      have hothers : ∀ x D', lastCovering (defsOf ss) x l = some D' → D' = D ∨
          (¬ (D'.lo ≤ D.hi ∧ D.lo ≤ D'.hi) ∧ ((D'.hi + 1 = D.lo ∨ D.hi + 1 = D'.lo) → storedOf D' ≠ storedOf D)) := by
        intro x D' hx
        have hD' := lastCoveringFrom_some hx
        simp only [reduceCtorEq, or_false] at hD'
        obtain ⟨hmem', hcov'⟩ := hD'
        obtain ⟨hlen', _, _⟩ := covers_iff.mp hcov'
        have hll : D'.len = D.len := hlen'.trans hlen.symm
        rcases separated_mem hsep hmem' hmem with e | e
        · exact Or.inl e
        · rw [sepPair_iff] at e
          rcases e with e | ⟨e1, e2⟩
          · exact absurd e.2 hs
          · exact Or.inr ⟨fun ⟨p, q⟩ => e1 ⟨hll, p, q⟩, fun p => e2 ⟨hll, p⟩⟩
      have hin : ∀ x, D.lo ≤ x → x ≤ D.lo + (c - D.lo) → storedAt (defsOf ss) l x = some (storedOf D) := by
        intro x hx1 hx2
        have hcx : D.covers x l = true := covers_iff.mpr ⟨hlen, hx1, by omega⟩
        have hsome := lastCoveringFrom_isSome (acc := none) (Or.inr ⟨D, hmem, hcx⟩)
        unfold storedAt
        cases hx : lastCovering (defsOf ss) x l with
        | none => unfold lastCovering at hx; rw [hx] at hsome; simp at hsome
        | some D' =>
          have hD' := lastCoveringFrom_some hx
          simp only [reduceCtorEq, or_false] at hD'
          obtain ⟨_, h1, h2⟩ := covers_iff.mp hD'.2
          rcases hothers x D' hx with e | ⟨e, _⟩
          · rw [e]; rfl
          · exact absurd ⟨by omega, by omega⟩ e
      have hbelow : 0 < D.lo → storedAt (defsOf ss) l (D.lo - 1) ≠ some (storedOf D) := by
        intro hpos
        unfold storedAt
        cases hx : lastCovering (defsOf ss) (D.lo - 1) l with
        | none => simp
        | some D' =>
          have hD' := lastCoveringFrom_some hx
          simp only [reduceCtorEq, or_false] at hD'
          obtain ⟨_, h1, h2⟩ := covers_iff.mp hD'.2
          rcases hothers _ D' hx with e | ⟨e1, e2⟩
          · subst e; omega
          · have hadj : D'.hi + 1 = D.lo := by
              by_cases hh : D'.hi + 1 = D.lo
              · exact hh
              · exact absurd ⟨by omega, by omega⟩ e1
            have := e2 (Or.inl hadj)
            simp only [Option.map_some, ne_eq, Option.some.injEq]
            exact this
      have hcs : c = D.lo + (c - D.lo) := by omega
      have := reachDown_eq (storedAt (defsOf ss) l) (storedOf D) D.lo (c - D.lo) hin hbelow
      rw [← hcs] at this
      rw [this]

/-- non-vacuity of `cmap_get_partial`: ligatures adjacent to single-unit entries and to a different
ligature, an incrementing multi-unit range with an adjacent ligature, an array with a surrogate pair,
and overlapping single-unit definitions -/
example :
    let ss : List Section :=
      [.bfChar [((0x01, 1), [0x66, 0x69]), ((0x02, 1), [0x41]), ((0x03, 1), [0x66, 0x6c]), ((0x04, 1), [0x66, 0x69]),
                ((0x14, 1), [0x66, 0x66])],
       .bfRange [((0x10, 0x13, 1), [[0x41, 0x30]]), ((0x20, 0x21, 1), [[0xD83D, 0xDE00], [0x263a]]),
                 ((0x30, 0x7e, 1), [[0x30]]), ((0x41, 0x5a, 1), [[0x61]])]]
    (∀ d ∈ defsOf ss, d.wf) ∧ separated (defsOf ss) = true := by
  refine ⟨?_, by decide⟩
  intro d hd
  simp [defsOf, defsOfChars, defsOfRanges] at hd
  rcases hd with h | h | h | h | h | h | h | h | h <;> subst h <;> simp [Def.wf]

/-! ### the full statement is false: concrete counter-witnesses (each replayed on the real code) -/

/-- result of `get` after `from_sections` -/
def getAfter (ss : List Section) (c l : Nat) : Option (Outcome (Option (List Nat))) :=
  (fromSections ss).map fun m => get m c l

/-- F-C15-a: two adjacent codes mapped to the same ligature: the second decodes as "fj". -/
def witA : List Section := [.bfChar [((1, 1), [0x66, 0x69]), ((2, 1), [0x66, 0x69])]]
theorem cmap_get_false_adjacent :
    getAfter witA 2 1 = some (.ok (some [0x66, 0x6a])) ∧ defines (defsOf witA) 2 1 = some [0x66, 0x69] ∧
    (fromSections witA).map (fun m => (bytesToUnits m [1, 2])) = some (.ok [0x66, 0x69, 0x66, 0x6a]) := by
  decide

/-- F-C15-b: a later bfchar inside an incrementing multi-unit range shifts the rest of the range. -/
def witB : List Section := [.bfRange [((0x10, 0x13, 1), [[0x41, 0x42]])], .bfChar [((0x11, 1), [0x58])]]
theorem cmap_get_false_split :
    getAfter witB 0x12 1 = some (.ok (some [0x41, 0x42])) ∧ defines (defsOf witB) 0x12 1 = some [0x41, 0x44] := by
  decide

/-- F-C15-b (array): the remaining piece of an array range is indexed from its own start. -/
def witB' : List Section :=
  [.bfRange [((0x10, 0x12, 1), [[0x41, 0x41], [0x42, 0x42], [0x43, 0x43]])], .bfChar [((0x10, 1), [0x58])]]
theorem cmap_get_false_split_array :
    getAfter witB' 0x11 1 = some (.ok (some [0x41, 0x41])) ∧ defines (defsOf witB') 0x11 1 = some [0x42, 0x42] := by
  decide

/-- F-C15-c: two adjacent array ranges with equal arrays (a well-formed CMap): index panic. -/
def witC : List Section :=
  [.bfRange [((1, 2, 1), [[0x41, 0x41], [0x42, 0x42]]), ((3, 4, 1), [[0x41, 0x41], [0x42, 0x42]])]]
theorem cmap_get_false_index_panic :
    getAfter witC 3 1 = some (.panic CMAP_SITE_INDEX) ∧ defines (defsOf witC) 3 1 = some [0x41, 0x41] := by
  decide

/-- F-C15-d: coalesced equal targets ending in FFFF (a well-formed CMap): u16 overflow panic. -/
def witD : List Section := [.bfChar [((1, 1), [0x41, 0xFFFF]), ((2, 1), [0x41, 0xFFFF])]]
theorem cmap_get_false_overflow_panic :
    getAfter witD 2 1 = some (.panic CMAP_SITE_ADD) ∧ defines (defsOf witD) 2 1 = some [0x41, 0xFFFF] := by
  decide

/-- the witnesses are well-formed CMaps (so the failures are not C04's "malformed input") -/
theorem witnesses_wf : (∀ d ∈ defsOf witA, d.wf) ∧ (∀ d ∈ defsOf witB, d.wf) ∧ (∀ d ∈ defsOf witC, d.wf) ∧
    (∀ d ∈ defsOf witD, d.wf) := by
  refine ⟨?_, ?_, ?_, ?_⟩ <;> intro d hd <;>
    simp [witA, witB, witC, witD, defsOf, defsOfChars, defsOfRanges] at hd
  · rcases hd with h | h <;> subst h <;> simp [Def.wf]
  · rcases hd with h | h <;> subst h <;> simp [Def.wf]
  · rcases hd with h | h <;> subst h <;> simp [Def.wf]
  · rcases hd with h | h <;> subst h <;> simp [Def.wf]

/-- … and they are exactly outside the guard of `cmap_get_partial` -/
theorem witnesses_not_separated : separated (defsOf witA) = false ∧ separated (defsOf witB) = false ∧
    separated (defsOf witC) = false ∧ separated (defsOf witD) = false := by decide

/-! ### segmentation of the byte string into codes -/

/-- big-endian value of a code given as its bytes -/
def codeVal (bs : List Nat) : Nat := bs.foldl (fun acc b => acc * 256 + b) 0

theorem codeVal_snoc (bs : List Nat) (b : Nat) : codeVal (bs ++ [b]) = codeVal bs * 256 + b := by
  simp [codeVal, List.foldl_append]

/-- prepend units to a successful result -/
def prependOk (v : List Nat) : Outcome (List Nat) → Outcome (List Nat)
  | .ok r => .ok (v ++ r)
  | .err e => .err e
  | .panic s => .panic s

theorem segLoop_cons (m : UMap) (st : Nat × Nat) (b : Nat) (bs : List Nat) :
    segLoop m st (b :: bs) =
      match segStep m st b with
      | .ok (st', out) =>
        (match segLoop m st' bs with
         | .ok rest => .ok (out ++ rest)
         | .err e => .err e
         | .panic s => .panic s)
      | .err e => .err e
      | .panic s => .panic s := by
  rw [segLoop]; rfl

theorem segStep_hit {m : UMap} {n code b : Nat} {v : List Nat} (hn : n ≠ CMAP_SEG_MAX)
    (hg : get m (code * 256 + b) (n + 1) = .ok (some v)) : segStep m (n, code) b = .ok ((0, 0), v) := by
  simp [segStep, hn, hg]

theorem segStep_miss {m : UMap} {n code b : Nat} (hn : n ≠ CMAP_SEG_MAX)
    (hg : get m (code * 256 + b) (n + 1) = .ok none) :
    segStep m (n, code) b = .ok ((n + 1, code * 256 + b), []) := by
  simp [segStep, hn, hg]

/-- One code: starting in the state reached after the bytes `pre`, if every proper prefix of
`pre ++ suf` of length ≥ 1 that is still to be tried is unmapped and the whole code is mapped
to `v`, the loop consumes exactly `suf`, emits `v` and is back in the initial state. -/
theorem seg_one (m : UMap) (v : List Nat) (rest : List Nat) :
    ∀ (suf pre : List Nat), suf ≠ [] → pre.length + suf.length ≤ 4 →
      (∀ k, 0 < k → k < suf.length → get m (codeVal (pre ++ suf.take k)) (pre.length + k) = .ok none) →
      get m (codeVal (pre ++ suf)) (pre.length + suf.length) = .ok (some v) →
      segLoop m (pre.length, codeVal pre) (suf ++ rest) = prependOk v (segLoop m (0, 0) rest) := by
  intro suf
  induction suf with
  | nil => intro pre h; exact absurd rfl h
  | cons b suf ih =>
    intro pre _ hlen hpre hfull
    have hn : pre.length ≠ CMAP_SEG_MAX := by simp [CMAP_SEG_MAX] at hlen ⊢; omega
    cases suf with
    | nil =>
      -- last byte of the code: mapped
      have hg : get m (codeVal pre * 256 + b) (pre.length + 1) = .ok (some v) := by
        rw [← codeVal_snoc]; simpa using hfull
      show segLoop m (pre.length, codeVal pre) (b :: rest) = _
      rw [segLoop_cons, segStep_hit hn hg]
      dsimp only
      generalize segLoop m (0, 0) rest = r
      cases r <;> rfl
    | cons b2 suf2 =>
      have hg : get m (codeVal pre * 256 + b) (pre.length + 1) = .ok none := by
        have := hpre 1 (by omega) (by simp)
        rw [← codeVal_snoc]; simpa using this
      show segLoop m (pre.length, codeVal pre) (b :: (b2 :: suf2 ++ rest)) = _
      rw [segLoop_cons, segStep_miss hn hg]
      dsimp only
      have e1 : pre.length + 1 = (pre ++ [b]).length := by simp
      have e2 : codeVal pre * 256 + b = codeVal (pre ++ [b]) := (codeVal_snoc pre b).symm
      rw [e1, e2]
      have := ih (pre ++ [b]) (by simp) (by simp at hlen ⊢; omega)
        (fun k hk1 hk2 => by
          have := hpre (k + 1) (by omega) (by simp at hk2 ⊢; omega)
          simpa [List.take_succ_cons, Nat.add_assoc, Nat.add_comm 1 k] using this)
        (by simpa [Nat.add_assoc, Nat.add_comm 1] using hfull)
      rw [this]
      generalize segLoop m (0, 0) rest = r
      cases r <;> rfl

/-- a code (as bytes) with its target, usable for exact segmentation w.r.t. the map `m` -/
def SegOk (m : UMap) (bs v : List Nat) : Prop :=
  bs ≠ [] ∧ bs.length ≤ 4 ∧
  (∀ k, 0 < k → k < bs.length → get m (codeVal (bs.take k)) k = .ok none) ∧
  get m (codeVal bs) bs.length = .ok (some v)

/-- **segment_exact** — for every stored map and every byte string that is the concatenation of
codes (1–4 bytes each) which are mapped and none of whose proper prefixes is mapped
(prefix-free), `bytes_to_string`'s loop cuts the string into exactly these codes and emits
the concatenation of their targets; no length bound on the string. -/
theorem segment_exact (m : UMap) (codes : List (List Nat × List Nat))
    (h : ∀ p ∈ codes, SegOk m p.1 p.2) :
    bytesToUnits m (codes.flatMap (·.1)) = .ok (codes.flatMap (·.2)) := by
  unfold bytesToUnits
  induction codes with
  | nil => simp [segLoop]
  | cons p codes ih =>
    obtain ⟨bs, v⟩ := p
    obtain ⟨h1, h2, h3, h4⟩ := h (bs, v) List.mem_cons_self
    simp only [List.flatMap_cons]
    have := seg_one m v (codes.flatMap (·.1)) bs [] h1 (by simpa using h2)
      (fun k hk1 hk2 => by simpa using h3 k hk1 hk2) (by simpa using h4)
    simp only [List.length_nil, codeVal, List.foldl_nil] at this
    rw [this, ih (fun p hp => h p (List.mem_cons_of_mem _ hp))]
    rfl

/-- non-vacuity of `segment_exact`: a 1-byte and a 2-byte code in one map (prefix-free) -/
example : ∃ m, fromSections [.bfChar [((0x01, 1), [0x41]), ((0x8001, 2), [0x66, 0x69])]] = some m ∧
    SegOk m [0x01] [0x41] ∧ SegOk m [0x80, 0x01] [0x66, 0x69] := by
  refine ⟨_, rfl, ⟨by simp, by simp, ?_, by decide⟩, ⟨by simp, by simp, ?_, by decide⟩⟩
  · intro k h1 h2; simp at h2; omega
  · intro k h1 h2
    have : k = 1 := by simp at h2; omega
    subst this; decide

/-! ### UTF-16: surrogate pairs become one scalar -/

theorem utf16_encode_decode_from (cs : List Nat) (h : ∀ c ∈ cs, isScalar c) :
    utf16Go none (encodeUtf16 cs) = cs := by
  induction cs with
  | nil => rfl
  | cons c cs ih =>
    have hc := h c List.mem_cons_self
    have ih' := ih (fun c' hc' => h c' (List.mem_cons_of_mem _ hc'))
    simp only [encodeUtf16, List.flatMap_cons] at ih' ⊢
    by_cases hlt : c < 0x10000
    · have e : encodeScalar c = [c] := by simp [encodeScalar, hlt]
      rw [e]
      simp only [List.cons_append, List.nil_append]
      unfold utf16Go
      have h1 : isHighSur c = false := by
        unfold isHighSur; unfold isScalar at hc
        simp only [Bool.and_eq_false_iff, decide_eq_false_iff_not]; omega
      have h2 : isLowSur c = false := by
        unfold isLowSur; unfold isScalar at hc
        simp only [Bool.and_eq_false_iff, decide_eq_false_iff_not]; omega
      simp only [h1, h2, Bool.false_eq_true, if_false]
      rw [ih']
    · have e : encodeScalar c = [0xD800 + (c - 0x10000) / 0x400, 0xDC00 + (c - 0x10000) % 0x400] := by
        simp [encodeScalar, hlt]
      rw [e]
      simp only [List.cons_append, List.nil_append]
      unfold isScalar at hc
      have hi1 : isHighSur (0xD800 + (c - 0x10000) / 0x400) = true := by
        unfold isHighSur
        simp only [Bool.and_eq_true, decide_eq_true_eq]; omega
      have lo1 : isLowSur (0xDC00 + (c - 0x10000) % 0x400) = true := by
        unfold isLowSur
        simp only [Bool.and_eq_true, decide_eq_true_eq]; omega
      unfold utf16Go
      simp only [hi1, if_true]
      unfold utf16Go
      simp only [lo1, if_true]
      rw [ih']
      have : surScalar (0xD800 + (c - 0x10000) / 0x400) (0xDC00 + (c - 0x10000) % 0x400) = c := by
        unfold surScalar; omega
      rw [this]

/-- **surrogates_roundtrip** — decoding the UTF-16 encoding of any list of Unicode scalar values
returns that list: every surrogate pair becomes ONE scalar value (and nothing else changes). -/
theorem surrogates_roundtrip (cs : List Nat) (h : ∀ c ∈ cs, isScalar c) :
    utf16Scalars (encodeUtf16 cs) = cs := utf16_encode_decode_from cs h

/-- … and `decode_text`'s last step returns it unchanged unless the text starts with a unit the
BOM sniffing of `UTF_16BE.decode` reacts to (F-C15-e). -/
theorem decode_units_no_bom (us : List Nat)
    (h : ∀ u, us.head? = some u → u ≠ 0xFEFF ∧ u ≠ 0xFFFE ∧ u ≠ 0xEFBB) :
    decodeUnits us = .scalars (utf16Scalars us) := by
  cases us with
  | nil => rfl
  | cons u rest =>
    have ⟨a, b, c⟩ := h u rfl
    simp [decodeUnits, a, b, c]

/-- **decode_exact** — end to end on the model: for a byte string of mapped, prefix-free codes whose
targets together are the UTF-16 encoding of the scalar values `cs` (not starting with a BOM-like
unit), `decode_text` yields exactly `cs`. -/
theorem decode_exact (m : UMap) (codes : List (List Nat × List Nat)) (cs : List Nat)
    (hseg : ∀ p ∈ codes, SegOk m p.1 p.2) (hcs : ∀ c ∈ cs, isScalar c)
    (henc : codes.flatMap (·.2) = encodeUtf16 cs)
    (hbom : ∀ u, (encodeUtf16 cs).head? = some u → u ≠ 0xFEFF ∧ u ≠ 0xFFFE ∧ u ≠ 0xEFBB) :
    (match bytesToUnits m (codes.flatMap (·.1)) with
     | .ok us => some (decodeUnits us)
     | _ => none) = some (.scalars cs) := by
  rw [segment_exact m codes hseg, henc]
  simp only [decode_units_no_bom _ hbom, surrogates_roundtrip cs hcs]

/-- F-C15-e on the model: a text starting with U+FFFE is byte-swapped, a leading U+FEFF is dropped. -/
theorem decode_false_bom :
    decodeUnits [0xFFFE, 0x0041] = .scalars [0x4100] ∧ decodeUnits [0xFEFF, 0x0041] = .scalars [0x41] ∧
    utf16Scalars [0xFFFE, 0x0041] = [0xFFFE, 0x41] := by decide

example : utf16Scalars [0xD83D, 0xDE00, 0x41] = [0x1F600, 0x41] := by decide

/-! ### the property, end to end on the model (under the guards) -/

theorem foldl_code_lt (bs : List Nat) : ∀ acc, (∀ b ∈ bs, b < 256) →
    bs.foldl (fun acc b => acc * 256 + b) acc < (acc + 1) * 256 ^ bs.length := by
  induction bs with
  | nil => intro acc _; simp
  | cons b bs ih =>
    intro acc h
    have hb : b < 256 := h b List.mem_cons_self
    have := ih (acc * 256 + b) (fun x hx => h x (List.mem_cons_of_mem _ hx))
    simp only [List.foldl_cons, List.length_cons]
    have h2 : (acc * 256 + b + 1) * 256 ^ bs.length ≤ ((acc + 1) * 256) * 256 ^ bs.length :=
      Nat.mul_le_mul_right _ (by omega)
    have h3 : ((acc + 1) * 256) * 256 ^ bs.length = (acc + 1) * 256 ^ (bs.length + 1) := by
      rw [Nat.pow_succ, Nat.mul_assoc, Nat.mul_comm 256]
    omega

theorem codeVal_lt_u32 (bs : List Nat) (hb : ∀ b ∈ bs, b < 256) (hl : bs.length ≤ 4) : codeVal bs < U32 := by
  have h := foldl_code_lt bs 0 hb
  have h2 : 256 ^ bs.length ≤ 256 ^ 4 := Nat.pow_le_pow_right (by omega) hl
  unfold codeVal U32
  omega

/-- a code (as bytes) the CMap maps to `v`, none of whose proper prefixes is mapped -/
def DefinedCode (ds : List Def) (bs v : List Nat) : Prop :=
  bs ≠ [] ∧ bs.length ≤ 4 ∧ (∀ b ∈ bs, b < 256) ∧
  (∀ k, 0 < k → k < bs.length → defines ds (codeVal (bs.take k)) k = none) ∧
  defines ds (codeVal bs) bs.length = some v

/-- **cmap_decode_partial** — the property on the model, under the guards: for every well-formed
CMap whose non-single definitions touch nothing, and every byte string (any length) made of mapped,
prefix-free codes, `from_sections` succeeds and `bytes_to_string`'s loop produces exactly the
concatenation of the targets the CMap defines. -/
theorem cmap_decode_partial (ss : List Section)
    (hwf : ∀ d ∈ defsOf ss, d.wf) (hsep : separated (defsOf ss) = true)
    (codes : List (List Nat × List Nat)) (hcodes : ∀ p ∈ codes, DefinedCode (defsOf ss) p.1 p.2) :
    ∃ m, fromSections ss = some m ∧ bytesToUnits m (codes.flatMap (·.1)) = .ok (codes.flatMap (·.2)) := by
  obtain ⟨m, hm, _⟩ := cmap_get_partial ss hwf hsep 0 0 (by unfold U32; omega)
  refine ⟨m, hm, segment_exact m codes ?_⟩
  intro p hp
  obtain ⟨h1, h2, h3, h4, h5⟩ := hcodes p hp
  have hget : ∀ c l, c < U32 → get m c l = .ok (defines (defsOf ss) c l) := by
    intro c l hc
    obtain ⟨m', hm', hg⟩ := cmap_get_partial ss hwf hsep c l hc
    rw [hm] at hm'
    rw [Option.some.inj hm']; exact hg
  refine ⟨h1, h2, ?_, ?_⟩
  · intro k hk1 hk2
    rw [hget _ _ (codeVal_lt_u32 _ (fun b hb => h3 b (List.mem_of_mem_take hb)) (by simp; omega)), h4 k hk1 hk2]
  · rw [hget _ _ (codeVal_lt_u32 _ h3 h2), h5]

/-! ### from the text of the stream -/

/-- **cmap_parse_render** — the grammar model (`cmap_stream` and everything below it) reads back the
canonical writer: for every non-empty list of sections of any kinds and sizes with 1–4-byte codes and
1–256-unit targets, parsing the written stream yields exactly these sections. -/
theorem cmap_parse_render (ss : List Section) (hne : ss ≠ []) (hok : ∀ s ∈ ss, SectionOk s) :
    parseCMap (CMapRender.renderCMap ss) = some ss := parse_render ss hne hok

/-- **cmap_text_get_partial** — from the bytes of the /ToUnicode stream to the looked-up target:
`ToUnicodeCMap::parse` of the written CMap followed by `get` returns what the CMap defines, for every
code of every length (under the guard of `cmap_get_partial`). -/
theorem cmap_text_get_partial (ss : List Section) (hne : ss ≠ []) (hok : ∀ s ∈ ss, SectionOk s)
    (hwf : ∀ d ∈ defsOf ss, d.wf) (hsep : separated (defsOf ss) = true) (c l : Nat) (hc : c < U32) :
    ∃ m, (parseCMap (CMapRender.renderCMap ss)).bind fromSections = some m ∧
      get m c l = .ok (defines (defsOf ss) c l) := by
  obtain ⟨m, hm, hg⟩ := cmap_get_partial ss hwf hsep c l hc
  exact ⟨m, by rw [parse_render ss hne hok]; exact hm, hg⟩

/-- non-vacuity: a CMap with all three kinds of sections, an array and a surrogate pair is writable -/
example : ∀ s ∈ ([.csRange [(0, 0xFFFF, 2)], .bfChar [((0x01, 1), [0x66, 0x69]), ((0x0003, 2), [0x41])],
                  .bfRange [((0x10, 0x13, 1), [[0x41, 0x30]]), ((0x20, 0x21, 1), [[0xD83D, 0xDE00], [0x263a]])]] : List Section),
    SectionOk s := by
  intro s hs
  simp only [List.mem_cons, List.mem_nil_iff, or_false] at hs
  rcases hs with h | h | h <;> subst h <;>
    simp [SectionOk, CsLineOk, CharLineOk, RangeLineOk, CodeOk, TargetOk]

/-- the constants regenerated from the source are the documented ones: unmapped codes become
U+FFFD, codes have 1 to 4 bytes, a target string has 1 to 256 UTF-16 units -/
theorem cmap_constants_documented :
    CMAP_REPLACEMENT_CHAR = 0xFFFD ∧ CMAP_MAX_CODE_LEN = 4 ∧ CMAP_BAD_CODE_LEN = 0 ∧ CMAP_NUM_MAPS = 4 ∧
    CMAP_SEG_MAX = 4 ∧ CMAP_SRC_MIN = 1 ∧ CMAP_SRC_MAX = 4 ∧ CMAP_DST_MIN = 1 ∧ CMAP_DST_MAX = 256 := by
  decide

end Lopdf.CMap
