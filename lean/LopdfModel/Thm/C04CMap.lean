import LopdfModel.Thm.C15
import LopdfModel.Model.CMapParse
/-
  The ToUnicode CMap layer never panics — on ANY input.

  `Thm/C15.lean` proves `cmap_get_no_panic` for the definition lists `from_sections` is meant for
  (code length 1..4, `lo ≤ hi`, at least one target). This file removes the hypotheses: for EVERY
  list of sections `from_sections` accepts — hence for every byte string given to
  `ToUnicodeCMap::parse` — and every code of every length `get` does not panic, and therefore
  `Encoding::bytes_to_string` (segmentation loop + UTF-16 decoding) does not panic on any shown
  bytes. Used by C04 (untrusted bytes) and C13 (`extract_text`).

  * definitions with an unusable code length are ignored by `put` (`buildFrom_filter`);
  * a `bfrange` line with `end < start` or without targets makes `from_sections` fail
    (`fromSectionsFrom_rangeOk`), so every definition that reaches `put` has `lo ≤ hi`;
  * the rest is `build_val` + `targetAt_stored_no_panic` of C15.
-/
namespace Lopdf.CMap
open Lopdf Lopdf.Gen Lopdf.CMapSpec

/-- `from_sections` succeeded, so every `bfrange` line passed its two checks -/
theorem putRangeLines_rangeOk : ∀ (ms : List ((Nat × Nat × Nat) × List (List Nat))) (m m' : UMap),
    putRangeLines m ms = some m' → ∀ d ∈ defsOfRanges ms, rangeOk d := by
  intro ms
  induction ms with
  | nil => intro m m' _ d hd; simp [defsOfRanges] at hd
  | cons line rest ih =>
    intro m m' h d hd
    obtain ⟨⟨lo, hi, l⟩, dsts⟩ := line
    simp only [putRangeLines] at h
    cases hl : putRangeLine m ((lo, hi, l), dsts) with
    | none => rw [hl] at h; simp at h
    | some m1 =>
      rw [hl] at h
      simp only [defsOfRanges, List.map_cons, List.mem_cons] at hd
      rcases hd with rfl | hd
      · simp only [putRangeLine] at hl
        split at hl
        · simp at hl
        · rename_i hle
          cases dsts with
          | nil => simp at hl
          | cons t ts => exact ⟨by omega, by simp⟩
      · exact ih m1 m' h d (by simpa [defsOfRanges] using hd)

theorem fromSectionsFrom_rangeOk : ∀ (ss : List Section) (m m' : UMap),
    fromSectionsFrom m ss = some m' → ∀ d ∈ defsOf ss, rangeOk d := by
  intro ss
  induction ss with
  | nil => intro m m' _ d hd; simp [defsOf] at hd
  | cons s rest ih =>
    intro m m' h d hd
    cases s with
    | csRange rs => exact ih m m' (by simpa [fromSectionsFrom] using h) d (by simpa [defsOf] using hd)
    | bfChar ms =>
      simp only [defsOf, List.mem_append] at hd
      rcases hd with hd | hd
      · simp only [defsOfChars, List.mem_map] at hd
        obtain ⟨⟨⟨c, l⟩, dst⟩, _, rfl⟩ := hd
        trivial
      · exact ih _ m' (by simpa [fromSectionsFrom] using h) d hd
    | bfRange ms =>
      simp only [fromSectionsFrom] at h
      cases hr : putRangeLines m ms with
      | none => rw [hr] at h; simp at h
      | some m1 =>
        rw [hr] at h
        simp only [defsOf, List.mem_append] at hd
        rcases hd with hd | hd
        · exact putRangeLines_rangeOk ms m m1 hr d hd
        · exact ih m1 m' h d hd

/-- usable code length (`put` does something) -/
def goodLen (d : Def) : Bool := decide (1 ≤ d.len) && decide (d.len ≤ 4)

/-- `put` ignores definitions with an unusable code length -/
theorem buildFrom_filter : ∀ (ds : List Def) (m : UMap), buildFrom m ds = buildFrom m (ds.filter goodLen) := by
  intro ds
  induction ds with
  | nil => intro m; rfl
  | cons d rest ih =>
    intro m
    by_cases hg : goodLen d = true
    · simp only [List.filter_cons, hg, if_true, buildFrom]; exact ih _
    · have hb : badLen d.len = true := by
        apply badLen_true
        intro h; apply hg; simp [goodLen, h.1, h.2]
      have : putDef m d = m := by simp [putDef, put, hb]
      simp only [List.filter_cons, hg, buildFrom, this]
      exact ih m

/-- `get` on the maps built from definitions with usable shapes does not panic -/
theorem get_build_no_panic (ds : List Def) (hok : ∀ d ∈ ds, putOk d) (c l : Nat) :
    (get (buildFrom UMap.empty ds) c l).isPanic = false := by
  obtain ⟨hinv, hval⟩ := build_val ds UMap.empty (fun _ _ => none) inv_empty (fun c l => rfl) hok
  cases hl : lastCoveringFrom none ds c l with
  | none =>
    have : rmVal (buildFrom UMap.empty ds l) c = none := by rw [hval, hl]; rfl
    rw [get_unmapped hinv this]; rfl
  | some D =>
    have hD := lastCoveringFrom_some hl
    simp only [reduceCtorEq, or_false] at hD
    obtain ⟨hmem, hcov⟩ := hD
    obtain ⟨hlen, hlo, _⟩ := covers_iff.mp hcov
    have hb : badLen l = false := by
      have := hok D hmem
      subst hlen; exact badLen_false this.2.1 this.2.2
    have hv : rmVal (buildFrom UMap.empty ds l) c = some (storedOf D) := by rw [hval, hl]; rfl
    unfold rmVal at hv
    cases hf : rmFind (buildFrom UMap.empty ds l) c with
    | none => rw [hf] at hv; simp at hv
    | some r =>
      obtain ⟨s, e, t⟩ := r
      rw [hf] at hv
      simp only [Option.map_some, Option.some.injEq] at hv
      subst hv
      rw [get_of_find hinv hb hf]
      exact targetAt_stored_no_panic D c hlo

/-- **`ToUnicodeCMap::get` never panics** — for EVERY list of sections `from_sections` accepts (no
hypothesis on code lengths, ranges or targets) and every code of every length -/
theorem cmap_get_never_panics (ss : List Section) (m : UMap) (h : fromSections ss = some m) (c l : Nat) :
    (get m c l).isPanic = false := by
  have hr := fromSectionsFrom_rangeOk ss UMap.empty m h
  have he := fromSectionsFrom_eq ss UMap.empty hr
  have hm : m = buildFrom UMap.empty (defsOf ss) := by
    unfold fromSections at h; rw [he] at h; exact (Option.some.inj h).symm
  rw [hm, buildFrom_filter]
  apply get_build_no_panic
  intro d hd
  obtain ⟨hmem, hg⟩ := List.mem_filter.mp hd
  simp only [goodLen, Bool.and_eq_true, decide_eq_true_eq] at hg
  refine ⟨?_, hg.1, hg.2⟩
  have := hr d hmem
  cases d with
  | char c l dst => simp [Def.lo, Def.hi]
  | range lo hi l dsts => exact this.1

theorem getOrReplacement_no_panic (m : UMap) (hg : ∀ c l, (get m c l).isPanic = false) (c l : Nat) :
    (getOrReplacement m c l).isPanic = false := by
  unfold getOrReplacement
  have := hg c l
  cases h : get m c l with
  | ok v => cases v <;> rfl
  | err e => rfl
  | panic s => rw [h] at this; simp [Outcome.isPanic] at this

theorem get_cases_no_panic {α} (m : UMap) (hg : ∀ c l, (get m c l).isPanic = false) (c l : Nat)
    (f : List Nat → α) (g : α) :
    (match get m c l with
      | .ok (some v) => (Outcome.ok (f v) : Outcome α)
      | .ok none => .ok g
      | .err e => .err e
      | .panic s => .panic s).isPanic = false := by
  have := hg c l
  cases h : get m c l with
  | ok o => cases o <;> rfl
  | err e => rfl
  | panic s => rw [h] at this; simp [Outcome.isPanic] at this

theorem segStep_no_panic (m : UMap) (hg : ∀ c l, (get m c l).isPanic = false) (st : Nat × Nat) (b : Nat) :
    (segStep m st b).isPanic = false := by
  obtain ⟨n, code⟩ := st
  unfold segStep
  simp only
  by_cases hn : n = CMAP_SEG_MAX
  · simp only [hn, if_true]
    have h1 := getOrReplacement_no_panic m hg code CMAP_SEG_MAX
    cases hr : getOrReplacement m code CMAP_SEG_MAX with
    | ok v => simp only []; exact get_cases_no_panic m hg _ _ _ _
    | err e => rfl
    | panic s => rw [hr] at h1; simp [Outcome.isPanic] at h1
  · simp only [hn, if_false]
    exact get_cases_no_panic m hg _ _ _ _

theorem segLoop_no_panic (m : UMap) (hg : ∀ c l, (get m c l).isPanic = false) :
    ∀ (bs : List Nat) (st : Nat × Nat), (segLoop m st bs).isPanic = false := by
  intro bs
  induction bs with
  | nil =>
    intro st; obtain ⟨n, code⟩ := st
    unfold segLoop
    split
    · exact getOrReplacement_no_panic m hg code n
    · rfl
  | cons b rest ih =>
    intro st
    unfold segLoop
    have h1 := segStep_no_panic m hg st b
    cases hs : segStep m st b with
    | ok p =>
      obtain ⟨st', out⟩ := p
      simp only
      have h2 := ih st'
      cases hr : segLoop m st' rest with
      | ok v => rfl
      | err e => rfl
      | panic s => rw [hr] at h2; simp [Outcome.isPanic] at h2
    | err e => rfl
    | panic s => rw [hs] at h1; simp [Outcome.isPanic] at h1

/-- `ToUnicodeCMap::parse` followed by `Encoding::UnicodeMapEncoding(..).bytes_to_string`:
`none`/`err` = `Err`, `ok` = the decoded scalar values -/
def parseAndDecode (cmapText shown : Bytes) : Outcome (List Nat) :=
  match (parseCMap cmapText).bind fromSections with
  | none => .err "cmap"
  | some m => (bytesToUnits m (shown.map UInt8.toNat)).map decodeUnits

/-- **the CMap layer never panics**: for EVERY byte string as the text of a /ToUnicode stream and
EVERY byte string as shown text, parsing the CMap, building the maps and decoding the text
(segmentation, `get`, `get_or_replacement_char`, UTF-16 decoding) returns a value or an error. -/
theorem cmap_layer_never_panics (cmapText shown : Bytes) (s : String) :
    parseAndDecode cmapText shown ≠ .panic s := by
  unfold parseAndDecode
  split
  · simp
  · rename_i m hm
    cases hp : parseCMap cmapText with
    | none => rw [hp] at hm; simp at hm
    | some ss =>
      rw [hp] at hm
      simp only [Option.bind_some] at hm
      have hg := cmap_get_never_panics ss m hm
      have := segLoop_no_panic m hg (shown.map UInt8.toNat) (0, 0)
      unfold bytesToUnits
      cases hr : segLoop m (0, 0) (shown.map UInt8.toNat) with
      | ok v => simp [Outcome.map]
      | err e => simp [Outcome.map]
      | panic s' => rw [hr] at this; simp [Outcome.isPanic] at this

end Lopdf.CMap
