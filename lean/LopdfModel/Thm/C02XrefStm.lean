import LopdfModel.Thm.C02Xref
/-
  C02 — cross-reference streams: for ANY field widths `W = [w1 w2 w3]` (including `w1 = 0` =
  default type 1, `w3 = 0`, and widths above 4 bytes as long as the values fit 32 bits), any
  `Index` pairs (or none: `[0 Size]`), the content produced by the reference encoder
  (`encodeSubs`: the rows' big-endian fields) is decoded by `decode_xref_stream` to exactly the
  map the rows denote (`streamTableOf`).
-/
namespace Lopdf.Grammar
open Lopdf Gen

/-! ### big-endian fields -/

def beVal (l : Bytes) : Nat := l.foldl (fun acc (b : UInt8) => acc * 256 + b.toNat) 0

theorem foldl_mod (l : Bytes) : ∀ a : Nat,
    l.foldl (fun acc (b : UInt8) => (acc * 256 + b.toNat) % U32) (a % U32) =
      (l.foldl (fun acc (b : UInt8) => acc * 256 + b.toNat) a) % U32 := by
  induction l with
  | nil => intro a; rfl
  | cons b bs ih =>
    intro a
    simp only [List.foldl_cons]
    have : (a % U32 * 256 + b.toNat) % U32 = (a * 256 + b.toNat) % U32 := by simp only [U32]; omega
    rw [this, ih]

theorem beBytes_length (w v : Nat) : (beBytes w v).length = w := by
  induction w generalizing v with
  | zero => rfl
  | succ w ih => simp [beBytes, ih]

theorem beVal_beBytes (w : Nat) : ∀ v : Nat, beVal (beBytes w v) = v % 256 ^ w := by
  induction w with
  | zero => intro v; simp [beBytes, beVal, Nat.mod_one]
  | succ w ih =>
    intro v
    have h1 : beVal (beBytes w (v / 256) ++ [(v % 256).toUInt8]) =
        beVal (beBytes w (v / 256)) * 256 + v % 256 := by
      simp only [beVal, List.foldl_append, List.foldl_cons, List.foldl_nil]
      congr 1
      simp [Nat.toUInt8, UInt8.toNat_ofNat']
    rw [beBytes, h1, ih, Nat.pow_succ, Nat.mul_comm (256 ^ w) 256, Nat.mod_mul]
    omega

/-- **A field of any width**: `w` big-endian bytes of a value that fits the width and 32 bits
are read back as that value. -/
theorem readBE_beBytes (w v : Nat) (rest : Bytes) (h1 : v < 256 ^ w) (h2 : v < 4294967296) :
    readBE w (beBytes w v ++ rest) = some (v, rest) := by
  have hl := beBytes_length w v
  unfold readBE
  have ht : List.take w (beBytes w v ++ rest) = beBytes w v := List.take_left' hl
  have hd : List.drop w (beBytes w v ++ rest) = rest := List.drop_left' hl
  have hlen : ¬ (beBytes w v ++ rest).length < w := by simp [hl]
  rw [if_neg hlen, ht, hd]
  have := foldl_mod (beBytes w v) 0
  simp only [Nat.zero_mod] at this
  rw [this]
  have hv : beVal (beBytes w v) = v := by rw [beVal_beBytes, Nat.mod_eq_of_lt h1]
  unfold beVal at hv
  rw [hv, Nat.mod_eq_of_lt (by simpa [U32] using h2)]

/-! ### rows -/

theorem encodeRows_cons (w1 w2 w3 : Nat) (r : SRow) (rs : List SRow) (rest : Bytes) :
    encodeRows w1 w2 w3 (r :: rs) ++ rest =
      beBytes w1 r.1 ++ (beBytes w2 r.2.1 ++ (beBytes w3 r.2.2 ++ (encodeRows w1 w2 w3 rs ++ rest))) := by
  simp [encodeRows, encodeRow]

theorem rowBindings_cons (n : Nat) (r : SRow) (rs : List SRow) :
    rowBindings n (r :: rs) =
      (match rowEntry r with | some e => [(n, e)] | none => []) ++ rowBindings (n + 1) rs := by
  simp only [rowBindings, numberedRows, List.filterMap_cons]
  cases rowEntry r <;> simp

/-- **The rows of one subsection**: `count` rows starting at object number `s + j`. -/
theorem xrefRows_complete (w1 w2 w3 s : Nat) : ∀ (rows : List SRow) (j : Nat) (rest : Bytes) (x : XTable),
    (∀ r ∈ rows, RowOk w1 w2 w3 r) → s + j + rows.length ≤ 4294967296 →
    xrefRows w1 w2 w3 (s : Int) rows.length j (encodeRows w1 w2 w3 rows ++ rest) x =
      .ok (bindAll x (rowBindings (s + j) rows), rest) := by
  intro rows
  induction rows with
  | nil => intro j rest x _ _; simp [xrefRows, encodeRows, rowBindings, numberedRows, bindAll]
  | cons r rs ih =>
    intro j rest x hok hl
    obtain ⟨t, f2, f3⟩ := r
    obtain ⟨ht, h2a, h2b, h3a, h3b⟩ := hok (t, f2, f3) (by simp)
    simp only at ht h2a h2b h3a h3b
    simp only [List.length_cons] at hl
    have ih' := fun x' => ih (j + 1) rest x' (fun r hr => hok r (by simp [hr])) (by omega)
    have e1 : s + (j + 1) = s + j + 1 := by omega
    rw [encodeRows_cons]
    simp only
    generalize hE : encodeRows w1 w2 w3 rs ++ rest = E at ih' ⊢
    -- the type field
    have hty : (if w1 = 0 then some (1, beBytes w1 t ++ (beBytes w2 f2 ++ (beBytes w3 f3 ++ E)))
        else readBE w1 (beBytes w1 t ++ (beBytes w2 f2 ++ (beBytes w3 f3 ++ E)))) =
        some (t, beBytes w2 f2 ++ (beBytes w3 f3 ++ E)) := by
      by_cases hw : w1 = 0
      · subst hw; simp only [if_true] at ht ⊢; subst ht; simp [beBytes]
      · simp only [hw, if_false] at ht ⊢
        exact readBE_beBytes w1 t _ ht.1 (by omega)
    have hf2 := readBE_beBytes w2 f2 (beBytes w3 f3 ++ E) h2a h2b
    have hf3 := readBE_beBytes w3 f3 E h3a (by omega)
    have hg : (if w3 = 0 then some (0, beBytes w3 f3 ++ E) else readBE w3 (beBytes w3 f3 ++ E)) =
        some (f3, E) := by
      by_cases hw : w3 = 0
      · subst hw
        have : f3 = 0 := by simpa using h3a
        subst this; simp [beBytes]
      · simp only [hw, if_false]; exact hf3
    have hmax : ¬ ((s : Int) + (j : Int) > ((I64_MAX : Nat) : Int)) := by simp only [I64_MAX]; omega
    have hid : (((s : Int) + (j : Int)) % ((U32 : Nat) : Int)).toNat = s + j := by simp only [U32]; omega
    have hm3 : f3 % 65536 = f3 := Nat.mod_eq_of_lt h3b
    have ht2 : t = 0 ∨ t = 1 ∨ t = 2 := by
      by_cases hw : w1 = 0
      · simp only [hw, if_true] at ht; omega
      · simp only [hw, if_false] at ht; omega
    rw [List.length_cons, xrefRows]
    simp only [hty]
    rcases ht2 with rfl | rfl | rfl
    · simp only [if_true, hf2, hf3, ih', rowBindings_cons, rowEntry, e1]
      simp
    · simp only [show ((1 : Nat) = 0) = False by simp, if_false, if_true, hf2, hg, hmax, hid, hm3, ih',
        rowBindings_cons, rowEntry, e1]
      simp [bindAll]
    · simp only [show ((2 : Nat) = 0) = False by simp, show ((2 : Nat) = 1) = False by simp, if_false,
        if_true, hf2, hf3, hmax, hid, hm3, ih', rowBindings_cons, rowEntry, e1]
      simp [bindAll]

/-! ### subsections -/

theorem encodeSubs_cons (w1 w2 w3 : Nat) (s : SSub) (ss : List SSub) (rest : Bytes) :
    encodeSubs w1 w2 w3 (s :: ss) ++ rest = encodeRows w1 w2 w3 s.2 ++ (encodeSubs w1 w2 w3 ss ++ rest) := by
  simp [encodeSubs]

theorem xrefSections_complete (w1 w2 w3 : Nat) : ∀ (subs : List SSub) (rest : Bytes) (x : XTable),
    SubsOk w1 w2 w3 subs →
    xrefSections w1 w2 w3 (indexInts subs) (encodeSubs w1 w2 w3 subs ++ rest) x =
      .ok (bindAll x (streamBindings subs)) := by
  intro subs
  induction subs with
  | nil => intro rest x _; simp [indexInts, xrefSections, streamBindings, bindAll]
  | cons s ss ih =>
    intro rest x hok
    obtain ⟨h1, h2⟩ := hok s (by simp)
    have ih' := fun x' => ih rest x' (fun s' hs' => hok s' (by simp [hs']))
    have hr := xrefRows_complete w1 w2 w3 s.1 s.2 0 (encodeSubs w1 w2 w3 ss ++ rest) x h1 (by omega)
    have hi : indexInts (s :: ss) = (s.1 : Int) :: (s.2.length : Int) :: indexInts ss := by
      simp [indexInts]
    rw [hi, encodeSubs_cons, xrefSections]
    simp only [Int.toNat_natCast, hr, ih', Nat.add_zero]
    simp [streamBindings, bindAll_append]

/-! ### the dictionary -/

theorem intArray_ints (l : List Int) : intArray (.arr (l.map Obj.int)) = some l := by
  simp only [intArray]
  induction l with
  | nil => rfl
  | cons a as ih => simp [List.mapM_cons, Obj.asInt, ih]

theorem encodeRows_length (w1 w2 w3 : Nat) (rows : List SRow) :
    (encodeRows w1 w2 w3 rows).length = rows.length * (w1 + w2 + w3) := by
  induction rows with
  | nil => simp [encodeRows]
  | cons r rs ih =>
    have : encodeRows w1 w2 w3 (r :: rs) = encodeRow w1 w2 w3 r ++ encodeRows w1 w2 w3 rs := by
      simp [encodeRows]
    rw [this, List.length_append, ih]
    simp only [encodeRow, List.length_append, beBytes_length, List.length_cons, Nat.add_mul]
    omega

theorem encodeSubs_length (w1 w2 w3 : Nat) (subs : List SSub) :
    (encodeSubs w1 w2 w3 subs).length = totalRows subs * (w1 + w2 + w3) := by
  induction subs with
  | nil => simp [encodeSubs, totalRows]
  | cons s ss ih =>
    have : encodeSubs w1 w2 w3 (s :: ss) = encodeRows w1 w2 w3 s.2 ++ encodeSubs w1 w2 w3 ss := by
      simp [encodeSubs]
    rw [this, List.length_append, ih, encodeRows_length]
    simp only [totalRows, List.map_cons, List.sum_cons, Nat.add_mul]

theorem anyPositiveCount_false_of_widths (l : List Int) : (false && anyPositiveCount l) = false := rfl

/-- how the `Index` entry of the dictionary names the subsections: explicitly, or — when the
key is absent — the single default subsection `[0 Size]` -/
def IndexDenotes (d : Dict) (size : Int) (subs : List SSub) : Prop :=
  d.get INDEX = some (.arr (indexOf subs)) ∨
  (d.get INDEX = none ∧ ∃ rows : List SRow, subs = [(0, rows)] ∧ (rows.length : Int) = size)

theorem index_resolved (d : Dict) (size : Int) (subs : List SSub) (h : IndexDenotes d size subs) :
    (match (d.get INDEX).bind intArray with | some l => l | none => [0, size]) = indexInts subs := by
  rcases h with h | ⟨h, rows, rfl, hl⟩
  · simp [h, indexOf, intArray_ints]
  · simp [h, indexInts, hl]

/-- **Cross-reference streams, every `W` and `Index`.** For a stream dictionary without filter
whose `Size` is an integer, whose `W` is `[w1 w2 w3]` and whose `Index` names the subsections
(or is absent, for the single subsection `[0 Size]`), and the content the reference encoder
produces from well-formed rows — at least one row, at least one non-zero width —,
`decode_xref_stream` yields exactly the denoted map, `Size` as `u32`, and the dictionary without
`Length`, `W`, `Index` as the trailer. -/
theorem xrefStream_complete (d : Dict) (size : Int) (w1 w2 w3 : Nat) (subs : List SSub)
    (hF : d.has FILTER = false) (hS : d.get SIZE = some (.int size))
    (hW : d.get W_KEY = some (.arr [.int w1, .int w2, .int w3]))
    (hI : IndexDenotes d size subs) (hok : SubsOk w1 w2 w3 subs)
    (hrows : 0 < totalRows subs) (hwid : 0 < w1 + w2 + w3) :
    decodeXrefStream d (encodeSubs w1 w2 w3 subs) =
      .ok (streamTableOf subs, (size % (U32 : Int)).toNat, ((d.remove LENGTH).remove W_KEY).remove INDEX) := by
  have hlen := encodeSubs_length w1 w2 w3 subs
  have hsec := xrefSections_complete w1 w2 w3 subs [] [] hok
  simp only [List.append_nil] at hsec
  have hidx := index_resolved d size subs hI
  have hwa : intArray (.arr [.int w1, .int w2, .int w3]) = some [(w1 : Int), (w2 : Int), (w3 : Int)] :=
    intArray_ints [(w1 : Int), (w2 : Int), (w3 : Int)]
  have hmul : w1 + w2 + w3 ≤ totalRows subs * (w1 + w2 + w3) := Nat.le_mul_of_pos_left _ hrows
  have c1 : ¬ ((w1 : Int) > ((encodeSubs w1 w2 w3 subs).length : Int)) := by rw [hlen]; omega
  have c2 : ¬ ((w2 : Int) > ((encodeSubs w1 w2 w3 subs).length : Int)) := by rw [hlen]; omega
  have c3 : ¬ ((w3 : Int) > ((encodeSubs w1 w2 w3 subs).length : Int)) := by rw [hlen]; omega
  have c0 : ((w1 : Int) == 0 && (w2 : Int) == 0 && (w3 : Int) == 0) = false := by
    cases h1 : ((w1 : Int) == 0) <;> cases h2 : ((w2 : Int) == 0) <;> cases h3 : ((w3 : Int) == 0) <;> simp_all
  have n1 : ¬ ((w1 : Int) < 0) := by omega
  have n2 : ¬ ((w2 : Int) < 0) := by omega
  have n3 : ¬ ((w3 : Int) < 0) := by omega
  have hS' : (d.get SIZE).bind Obj.asInt = some size := by rw [hS]; rfl
  have hW' : (d.get W_KEY).bind intArray = some [(w1 : Int), (w2 : Int), (w3 : Int)] := by rw [hW]; exact hwa
  unfold decodeXrefStream
  simp only [hF, Bool.false_eq_true, if_false, hS', hW']
  simp only [n1, n2, n3, c1, c2, c3, c0, decide_false, Bool.or_false, Bool.false_and, Bool.false_eq_true,
    if_false, Int.toNat_natCast]
  cases hb : (d.get INDEX).bind intArray with
  | none =>
    rw [hb] at hidx
    simp only at hidx
    simp only [hidx, hsec]
    rfl
  | some l =>
    rw [hb] at hidx
    simp only at hidx
    simp only [hidx, hsec]
    rfl

/-- **Look-up in the denoted map**: the last row for the number that denotes an entry. -/
theorem streamTableOf_get (subs : List SSub) (n : Nat) :
    (streamTableOf subs).get n = lastBinding (streamBindings subs) n := by
  rw [streamTableOf, bindAll_get]; cases lastBinding (streamBindings subs) n <;> simp [XTable.get]

/-! ### non-vacuity -/

/-- a stream dictionary carrying the three keys (plus `Type`, `Length`, `Root`, which stay /
are removed as `decode_xref_stream` does) -/
def xrefDict (size : Int) (w1 w2 w3 : Nat) (subs : List SSub) : Dict :=
  [(TYPE, .name [88, 82, 101, 102]), (SIZE, .int size), (W_KEY, .arr [.int w1, .int w2, .int w3]),
   (INDEX, .arr (indexOf subs)), ([82, 111, 111, 116], .ref 1 0)]

theorem xrefDict_facts (size : Int) (w1 w2 w3 : Nat) (subs : List SSub) :
    (xrefDict size w1 w2 w3 subs).has FILTER = false ∧
    (xrefDict size w1 w2 w3 subs).get SIZE = some (.int size) ∧
    (xrefDict size w1 w2 w3 subs).get W_KEY = some (.arr [.int w1, .int w2, .int w3]) ∧
    IndexDenotes (xrefDict size w1 w2 w3 subs) size subs := by
  refine ⟨?_, ?_, ?_, Or.inl ?_⟩ <;>
    simp [xrefDict, Dict.has, Dict.get, TYPE, SIZE, W_KEY, INDEX, FILTER]

/-- `W [0 5 0]`: no type field (default type 1), a five-byte offset field, no generation field;
two `Index` pairs -/
def exSubsA : List SSub := [(3, [(1, 300, 0), (1, 70000, 0)]), (10, [(1, 9, 0)])]
example : SubsOk 0 5 0 exSubsA := by unfold SubsOk exSubsA RowOk; decide
example : encodeSubs 0 5 0 exSubsA = [0, 0, 0, 1, 44, 0, 0, 1, 17, 112, 0, 0, 0, 0, 9] := by decide
example : streamTableOf exSubsA = [(3, .normal 300 0), (4, .normal 70000 0), (10, .normal 9 0)] := by decide
example : decodeXrefStream (xrefDict 11 0 5 0 exSubsA) (encodeSubs 0 5 0 exSubsA) =
    .ok (streamTableOf exSubsA, 11, (((xrefDict 11 0 5 0 exSubsA).remove LENGTH).remove W_KEY).remove INDEX) := by
  obtain ⟨h1, h2, h3, h4⟩ := xrefDict_facts 11 0 5 0 exSubsA
  exact xrefStream_complete _ 11 0 5 0 exSubsA h1 h2 h3 h4 (by unfold SubsOk exSubsA RowOk; decide)
    (by decide) (by decide)

/-- `W [1 2 1]` with a free, an in-use, a compressed row and a later row replacing a number -/
def exSubsB : List SSub := [(0, [(0, 0, 255), (1, 515, 0), (2, 7, 3)]), (1, [(1, 600, 1)])]
example : SubsOk 1 2 1 exSubsB := by unfold SubsOk exSubsB RowOk; decide
example : streamTableOf exSubsB = [(1, .normal 600 1), (2, .compressed 7 3)] := by decide

/-! ### the deviation: rows of an undefined type (finding F-C02-b) -/

/-- `W [1 1 1]`, `Index [0 2]`, rows (3, 0, 0) and (1, 5, 0): the first row has an undefined
type and denotes the null object, the second says object 1 is at offset 5. -/
def exSubsC : List SSub := [(0, [(3, 0, 0), (1, 5, 0)])]
example : encodeSubs 1 1 1 exSubsC = [3, 0, 0, 1, 5, 0] := by decide
example : streamTableOf exSubsC = [(1, .normal 5 0)] := by decide

/-- lopdf (as modelled) reads only the type byte of the undefined-type row, so the next "row"
starts one field too early: it is read as a free entry and object 1 is LOST. -/
theorem unknownType_desync :
    (decodeXrefStream (xrefDict 2 1 1 1 exSubsC) (encodeSubs 1 1 1 exSubsC)).map (·.1) = .ok [] ∧
    streamTableOf exSubsC ≠ [] := by
  constructor
  · decide
  · decide

end Lopdf.Grammar
