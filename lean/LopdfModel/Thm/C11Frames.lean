import LopdfModel.Thm.C11Count
/-
  C11 — property theorems, part 4: frame lemmas for `add_page_contents`, `remove_object` (annotation) and
  `change_page_content` at page level.
-/
namespace Lopdf.Ed
open Lopdf Lopdf.DictL

/-- `get_object_mut(id)` + `as_dict_mut` + `set(key, v)`: either nothing happens (`Err`), or exactly one object —
the dictionary the reference chain of `id` ends in — gets `key := v`; every other key of it is kept -/
theorem setDictEntry_frame (d : Doc) (id : ObjId) (key : Bytes) (v : Obj) :
    ((setDictEntry d id key v).2 = .err ∧ (setDictEntry d id key v).1 = d) ∨
    ∃ t pd, objectMutId d.objects id = some t ∧ d.objects.get t = some (.dict pd) ∧
      (setDictEntry d id key v).1.trailer = d.trailer ∧ (setDictEntry d id key v).1.maxId = d.maxId ∧
      (setDictEntry d id key v).1.objects.get t = some (.dict (Dict.set pd key v)) ∧
      ∀ k, k ≠ t → (setDictEntry d id key v).1.objects.get k = d.objects.get k := by
  unfold setDictEntry
  cases ht : objectMutId d.objects id with
  | none => exact Or.inl ⟨rfl, rfl⟩
  | some t =>
    simp only
    cases hg : d.objects.get t with
    | none => exact Or.inl ⟨rfl, rfl⟩
    | some o =>
      cases o with
      | dict pd =>
        refine Or.inr ⟨t, pd, rfl, hg, rfl, rfl, by simp [Objects.get_set, hg], ?_⟩
        intro k hk; simp [Objects.get_set, Ne.symm hk]
      | _ => exact Or.inl ⟨rfl, rfl⟩

theorem addObject_get (d : Doc) (o : Obj) (k : ObjId) :
    (addObject d o).objects.get k = if (d.maxId + 1, 0) = k then some o else d.objects.get k := by
  simp [addObject, Objects.get_insert]

/-- **frame of `add_page_contents`.** When the call succeeds: `max_id` grew by one; the new id holds the stream
`Stream::new({}, content)` (`Length` = length of the content); exactly one other object changed — the page
dictionary `t` the id resolves to — and in it only `Contents`, which is now the old content list followed by
the reference to the new stream; the trailer and every other object are as before. -/
theorem addPageContents_frame (d : Doc) (pg : ObjId) (content : Bytes) (d' : Doc) (hinv : Inv d)
    (h : addPageContents d pg content = .ok (d', .unit)) :
    ∃ page t pd, getDictionary d.objects pg = some page ∧ d.objects.get t = some (.dict pd) ∧
      d'.trailer = d.trailer ∧ d'.maxId = d.maxId + 1 ∧
      d'.objects.get (d.maxId + 1, 0) = some (streamNew [] content) ∧
      d'.objects.get t = some (.dict (Dict.set pd CONTENTS (.arr (contentsList page ++ [.ref (d.maxId + 1) 0])))) ∧
      (∀ key, key ≠ CONTENTS → Dict.get (Dict.set pd CONTENTS (.arr (contentsList page ++ [.ref (d.maxId + 1) 0]))) key = Dict.get pd key) ∧
      ∀ k, k ≠ t → k ≠ (d.maxId + 1, 0) → d'.objects.get k = d.objects.get k := by
  unfold addPageContents at h
  cases hp : getDictionary d.objects pg with
  | none => rw [hp] at h; cases h
  | some page =>
    rw [hp] at h
    simp only at h
    split at h
    · cases h
    · have e := Outcome.ok.inj h
      have hfresh := fresh_id d hinv
      rcases setDictEntry_frame (addObject d (streamNew [] content)) pg CONTENTS
          (.arr (contentsList page ++ [.ref (d.maxId + 1) 0])) with ⟨he, _⟩ | ⟨t, pd, ht, hg, f1, f2, f3, f4⟩
      · rw [e] at he; cases he
      · rw [e] at f1 f2 f3 f4
        simp only at f1 f2 f3 f4
        have htne : t ≠ (d.maxId + 1, 0) := by
          intro et; rw [et, addObject_get] at hg; simp [streamNew] at hg
        have hg' : d.objects.get t = some (.dict pd) := by
          rw [addObject_get] at hg; simpa [Ne.symm htne] using hg
        refine ⟨page, t, pd, rfl, hg', f1, f2, ?_, f3, ?_, ?_⟩
        · rw [f4 _ (Ne.symm htne), addObject_get]; simp
        · intro key hk; rw [Dict.get_set_c11]; simp [Ne.symm hk]
        · intro k hk1 hk2; rw [f4 k hk1, addObject_get]; simp [Ne.symm hk2]


/-! #### `remove_object` (annotation) -/

/-- an object before / after `remove_object(id)`: untouched, or a dictionary whose `Annots` array lost its
references to `id` and nothing else -/
def AnnotRel (id : ObjId) (o o' : Obj) : Prop :=
  o' = o ∨ ∃ pd a, o = .dict pd ∧ Dict.get pd kAnnots = some (.arr a) ∧
    o' = .dict (Dict.set pd kAnnots (.arr (retainNotRef id a)))

theorem dictSet_set (d : Dict) (k : Bytes) (v v' : Obj) : Dict.set (Dict.set d k v) k v' = Dict.set d k v' := by
  induction d with
  | nil => simp [Dict.set]
  | cons p rest ih =>
    obtain ⟨k0, v0⟩ := p
    simp only [Dict.set]
    by_cases e : k0 = k
    · simp [e, Dict.set]
    · simp [e, Dict.set, ih]

theorem retain_idem (id : ObjId) (a : List Obj) : retainNotRef id (retainNotRef id a) = retainNotRef id a := by
  simp [retainNotRef, List.filter_filter]

theorem annotRel_trans (id : ObjId) {a b c : Obj} (h1 : AnnotRel id a b) (h2 : AnnotRel id b c) : AnnotRel id a c := by
  rcases h1 with rfl | ⟨pd, ar, rfl, hg, rfl⟩
  · exact h2
  · rcases h2 with rfl | ⟨pd2, ar2, e, hg2, rfl⟩
    · exact Or.inr ⟨pd, ar, rfl, hg, rfl⟩
    · cases e
      rw [Dict.get_set_c11] at hg2; simp at hg2; subst hg2
      exact Or.inr ⟨pd, ar, rfl, hg, by rw [dictSet_set, retain_idem]⟩

/-- **frame of `remove_object`**: trailer and `max_id` are untouched, no object appears or disappears, and every
object is what it was — except page dictionaries, whose `Annots` arrays lost their references to `id` (all other
entries, and all other array items in their order, kept). -/
theorem removeAnnot_frame (id : ObjId) : ∀ (pages : List ObjId) (d : Doc),
    (removeAnnot id pages d).1.trailer = d.trailer ∧ (removeAnnot id pages d).1.maxId = d.maxId ∧
    ∀ x, (d.objects.get x = none → (removeAnnot id pages d).1.objects.get x = none) ∧
      ∀ o, d.objects.get x = some o → ∃ o', (removeAnnot id pages d).1.objects.get x = some o' ∧ AnnotRel id o o' := by
  intro pages
  induction pages with
  | nil => intro d; exact ⟨rfl, rfl, fun x => ⟨fun h => h, fun o h => ⟨o, h, Or.inl rfl⟩⟩⟩
  | cons p rest ih =>
    intro d
    have hsame : ∀ x, (d.objects.get x = none → d.objects.get x = none) ∧
        ∀ o, d.objects.get x = some o → ∃ o', d.objects.get x = some o' ∧ AnnotRel id o o' :=
      fun x => ⟨fun h => h, fun o h => ⟨o, h, Or.inl rfl⟩⟩
    simp only [removeAnnot]
    cases ht : objectMutId d.objects p with
    | none => exact ⟨rfl, rfl, hsame⟩
    | some t =>
      simp only
      cases hg : d.objects.get t with
      | none => exact ⟨rfl, rfl, hsame⟩
      | some o =>
        cases o with
        | dict pd =>
          simp only
          cases ha : Dict.get pd kAnnots with
          | none => exact ⟨rfl, rfl, hsame⟩
          | some av =>
            cases av with
            | arr a =>
              simp only
              obtain ⟨i1, i2, i3⟩ := ih { d with objects := d.objects.set t (.dict (Dict.set pd kAnnots (.arr (retainNotRef id a)))) }
              refine ⟨i1, i2, ?_⟩
              intro x
              have hx := i3 x
              simp only [Objects.get_set] at hx
              by_cases e : t = x
              · subst e
                simp only [if_true, hg, Option.map_some] at hx
                refine ⟨fun h => (by rw [hg] at h; cases h), ?_⟩
                intro o ho; rw [hg] at ho; cases ho
                obtain ⟨o', e', r'⟩ := hx.2 _ rfl
                exact ⟨o', e', annotRel_trans id (Or.inr ⟨pd, a, rfl, ha, rfl⟩) r'⟩
              · simp only [e, if_false] at hx; exact hx
            | _ => exact ⟨rfl, rfl, hsame⟩
        | _ => exact ⟨rfl, rfl, hsame⟩

/-! #### `change_page_content` at page level -/

theorem changeContentStream_frame (deflate : Bytes → Bytes) (d : Doc) (sid : ObjId) (content : Bytes) :
    (changeContentStream deflate d sid content).trailer = d.trailer ∧
    (changeContentStream deflate d sid content).maxId = d.maxId ∧
    ∀ k, k ≠ sid → (changeContentStream deflate d sid content).objects.get k = d.objects.get k := by
  unfold changeContentStream
  split
  · refine ⟨rfl, rfl, fun k hk => ?_⟩
    simp [Objects.get_set, Ne.symm hk]
  · exact ⟨rfl, rfl, fun _ _ => rfl⟩

/-- **page level, `Contents` names one stream** (a reference, or a one-element array): after
`change_page_content(page, content)` that stream — and nothing else in the document — changed, and it decodes
to `content` (codec hypothesis `inflate (deflate x) = x`; stream dictionary with distinct keys) -/
theorem changePageContent_one (inflate : Bytes → Option Bytes) (deflate : Bytes → Bytes)
    (hcodec : ∀ x, inflate (deflate x) = some x) (d : Doc) (pg : ObjId) (content : Bytes) (page : Dict)
    (n g : Nat) (sd : Dict) (sc : Bytes)
    (hp : getDictionary d.objects pg = some page)
    (hc : Dict.get page CONTENTS = some (.ref n g) ∨ Dict.get page CONTENTS = some (.arr [.ref n g]))
    (hs : d.objects.get (n, g) = some (.stream sd sc)) (hn : NoDup sd) :
    ∃ d' s', changePageContent deflate d pg content = .ok (d', .unit) ∧
      d'.trailer = d.trailer ∧ d'.maxId = d.maxId ∧
      d'.objects.get (n, g) = some s' ∧ decodeStream inflate s' = some content ∧
      ∀ k, k ≠ (n, g) → d'.objects.get k = d.objects.get k := by
  have hres : changePageContent deflate d pg content = .ok (changeContentStream deflate d (n, g) content, .unit) := by
    unfold changePageContent
    rcases hc with hc | hc <;> simp [hp, hc]
  obtain ⟨f1, f2, f3⟩ := changeContentStream_frame deflate d (n, g) content
  refine ⟨_, plainThenCompress (deflate content) sd content, hres, f1, f2, ?_, change_content_decodes_nodup inflate deflate hcodec sd hn content, f3⟩
  unfold changeContentStream
  simp [hs, Objects.get_set]

theorem decode_streamNew (inflate : Bytes → Option Bytes) (content : Bytes) :
    decodeStream inflate (streamNew [] content) = some content := by
  have hne : (LENGTHE = kFilter) = False := by decide
  simp [streamNew, decodeStream, Dict.set, Dict.get, hne]

/-- **page level, `Contents` is an array of another length** (empty, or two and more streams): a fresh stream
holding `content` is added and the page's `Contents` becomes the reference to it; the old content streams stay
in the document untouched (they are no longer the page's content) -/
theorem changePageContent_many (inflate : Bytes → Option Bytes) (deflate : Bytes → Bytes)
    (d : Doc) (hinv : Inv d) (pg : ObjId) (content : Bytes) (page : Dict) (items : List Obj)
    (hp : getDictionary d.objects pg = some page) (hc : Dict.get page CONTENTS = some (.arr items))
    (hlen : items.length ≠ 1) (hfit : ¬ d.maxId + 1 > U32_MAXE) :
    ∃ d', changePageContent deflate d pg content = .ok (d', .unit) ∧
      d'.trailer = d.trailer ∧ d'.maxId = d.maxId + 1 ∧
      d.objects.get (d.maxId + 1, 0) = none ∧
      (∃ s', d'.objects.get (d.maxId + 1, 0) = some s' ∧ decodeStream inflate s' = some content) ∧
      ((∀ k, k ≠ (d.maxId + 1, 0) → d'.objects.get k = d.objects.get k) ∨
       ∃ t pd, t ≠ (d.maxId + 1, 0) ∧ d.objects.get t = some (.dict pd) ∧
         d'.objects.get t = some (.dict (Dict.set pd CONTENTS (.ref (d.maxId + 1) 0))) ∧
         ∀ k, k ≠ t → k ≠ (d.maxId + 1, 0) → d'.objects.get k = d.objects.get k) := by
  have hfresh := fresh_id d hinv
  have hres : changePageContent deflate d pg content =
      .ok ((setDictEntry (addObject d (streamNew [] content)) pg CONTENTS (.ref (d.maxId + 1) 0)).1, .unit) := by
    unfold changePageContent
    simp only [hp, hc, Option.bind_some]
    cases items with
    | nil => simp [hfit]
    | cons x xs =>
      cases xs with
      | nil => simp at hlen
      | cons y ys => simp [hfit]
  refine ⟨_, hres, ?_⟩
  rcases setDictEntry_frame (addObject d (streamNew [] content)) pg CONTENTS (.ref (d.maxId + 1) 0) with
    ⟨_, he⟩ | ⟨t', pd', _, hg', f1, f2, f3, f4⟩
  · rw [he]
    refine ⟨rfl, rfl, hfresh, ⟨_, by rw [addObject_get]; simp, decode_streamNew inflate content⟩, Or.inl ?_⟩
    intro k hk; rw [addObject_get]; simp [Ne.symm hk]
  · have hne : t' ≠ (d.maxId + 1, 0) := by
      intro e; rw [e, addObject_get] at hg'; simp [streamNew] at hg'
    refine ⟨f1, f2, hfresh, ⟨_, by rw [f4 _ (Ne.symm hne), addObject_get]; simp, decode_streamNew inflate content⟩, Or.inr ⟨t', pd', hne, ?_, f3, ?_⟩⟩
    · rw [addObject_get] at hg'; simpa [Ne.symm hne] using hg'
    · intro k hk hk2; rw [f4 k hk, addObject_get]; simp [Ne.symm hk2]

end Lopdf.Ed
