import LopdfModel.Thm.C17Pages
import LopdfModel.Thm.C17Adjust
/-
  C17 — the property's full pipeline:  add_bookmark* ; adjust_zero_pages ; build_outline ; install ; get_toc.
-/
namespace Lopdf.C17
open Lopdf Gen

/-- **C17, end to end, with `adjust_zero_pages`.**  As `toc_readback_api`, but the zero-page parents
are first fixed up by `adjust_zero_pages`: the table of contents read back is the preorder of the
ADJUSTED forest `adjL (forestOfOps ops)` (bottom-up specification), whose target pages must be in the
page tree. -/
theorem toc_readback_api_adjusted (trailer : Dict) (os : Objects) (cat pid : ObjId) (catd : Dict) (ks : List PT)
    (maxId : Nat) (ops : List (Bm × Option Nat))
    (hroot : (trailer.get ROOT).bind Obj.asRef = some cat)
    (hcatd : os.get cat = some (.dict catd))
    (hpages : (catd.get PAGES).bind Obj.asRef = some pid)
    (hkids : kidsOf os pid = some (PT.idsL ks))
    (hemb : EmbedsL (classify os) ks)
    (hnodup : (PT.allIdsL ks).Nodup)
    (hdepth : PT.heightL ks ≤ PAGE_TREE_DEPTH_LIMIT)
    (hold : ∀ q x, os.get q = some x → q.1 ≤ maxId)
    (hnd : catd.get RD_DESTS = none) (hnn : catd.get RD_NAMES = none)
    (hc : ∀ op ∈ ops, op.1.children = [])
    (hne : forestOfOps ops ≠ [])
    (htarget : ∀ e ∈ BT.preL 1 (adjL (forestOfOps ops)), e.2.2 ∈ PT.leavesL ks)
    (hscalar : ∀ e ∈ BT.preL 1 (adjL (forestOfOps ops)), ∀ c ∈ e.2.1, IsScalar c)
    (hdistinct : ((BT.preL 1 (adjL (forestOfOps ops))).map (fun e => e.2.1)).Nodup)
    (fuelA fuelB : Nat) (hfA : BT.sizeL (forestOfOps ops) ≤ fuelA)
    (hfB : BT.sizeL (adjL (forestOfOps ops)) ≤ fuelB) :
    ∃ s' b, adjustZeroPages fuelA (addAll BmState.empty ops) = some s' ∧
      buildOutline fuelB s' maxId = some (some b) ∧
      getToc trailer (setOutlines (installObjs os b.objs) cat b.root) =
        .ok ((BT.preL 1 (adjL (forestOfOps ops))).map
          (fun e => { level := e.1, title := e.2.1, page := pageIndex (PT.leavesL ks) e.2.2 + 1 })) 0 := by
  obtain ⟨s', hrun, _, _, hrep, _⟩ := adjust_spec ops hc fuelA hfA
  have hne' : adjL (forestOfOps ops) ≠ [] := by
    cases h : forestOfOps ops with
    | nil => exact absurd h hne
    | cons _ _ => simp [adjL]
  obtain ⟨b, hb, htoc⟩ := toc_readback_rep trailer os cat pid catd ks maxId s' _ hrep hroot hcatd hpages hkids hemb
    hnodup hdepth hold hnd hnn hne' htarget hscalar hdistinct fuelB hfB
  exact ⟨s', b, hrun, hb, htoc⟩

end Lopdf.C17
