import LopdfModel.Thm.C01Obj
import LopdfModel.Thm.C14
/-
  C14 — `content_rt`: decoding what `Content::encode` wrote returns the same operations
  (operands up to `norm`: an integral-valued real comes back as the integer), for EVERY list of
  operations whose operands are well-formed direct objects (no references at top level, no
  streams) and whose operators are non-empty over letters, `*`, `'`, `"` and do not begin with
  `true` / `false` / `null` (nor with `BI` when there is no operand).  Built on C01's `obj_rt`
  machinery with the following text `" " ++ …`.
-/
namespace Lopdf.ContentRt
open Lopdf Gen Lopdf.ObjRt

/-! ### small facts -/

theorem opByte_facts : ∀ b : UInt8, isOperatorByte b = true →
    isDigit b = false ∧ b ≠ 43 ∧ b ≠ 45 ∧ b ≠ 46 ∧ b ≠ 47 ∧ b ≠ 40 ∧ b ≠ 60 ∧ b ≠ 91 ∧ b ≠ 37 ∧
    isContentSpace b = false := by
  apply forall_uint8; decide +kernel

theorem ws_cs : ∀ b : UInt8, isWhitespace b = false → isContentSpace b = false := by
  apply forall_uint8; decide +kernel

/-- first byte is not a content blank -/
def HeadNonCs (Y : Bytes) : Prop := ∃ b r, Y = b :: r ∧ isContentSpace b = false

theorem contentSpace_head (Y : Bytes) (h : HeadNonCs Y) : contentSpace Y = Y := by
  obtain ⟨b, r, rfl, hb⟩ := h
  simp [contentSpace, spanP, hb]

theorem contentSpace_nil : contentSpace [] = [] := by simp [contentSpace, spanP]

theorem contentSpace_lf (Y : Bytes) : contentSpace (10 :: Y) = contentSpace Y := by
  simp [contentSpace, spanP, isContentSpace, CONTENT_SPACE]

/-- `tag kw` keeps failing when text that cannot continue the keyword is appended -/
theorem tag_append_none : ∀ (kw op tail : Bytes), tag kw op = none →
    (∀ b r, tail = b :: r → b ∉ kw) → tag kw (op ++ tail) = none := by
  intro kw
  induction kw with
  | nil => intro op tail h _; cases op <;> simp [tag] at h
  | cons x xs ih =>
    intro op tail h ht
    cases op with
    | nil =>
      cases tail with
      | nil => simp [tag]
      | cons b r =>
        have : b ∉ x :: xs := ht b r rfl
        simp only [List.mem_cons, not_or] at this
        simp [tag, Ne.symm this.1]
    | cons y ys =>
      by_cases hxy : x = y
      · subst hxy
        simp only [tag, if_true, List.cons_append] at h ⊢
        exact ih ys tail h (fun b r e hb => ht b r e (List.mem_cons_of_mem _ hb))
      · simp [tag, hxy]

/-- generic first-byte property of written objects -/
theorem head_obj_P (P : UInt8 → Prop) (hP : P 110 ∧ P 102 ∧ P 116 ∧ P 45 ∧ P 47 ∧ P 40 ∧ P 60 ∧ P 91)
    (hPd : ∀ b, isDigit b = true → P b) (L : Bytes → Prop) (o : Obj) (x : Bytes) (h : WF L o) :
    ∃ b r, writeObj o ++ x = b :: r ∧ P b := by
  have hnum : ∀ (neg : Bool) (ds y : Bytes), ds ≠ [] → AllDigits ds → ∃ b r, sgn neg ++ ds ++ y = b :: r ∧ P b := by
    intro neg ds y hne hd
    cases neg
    · obtain ⟨a, as, rfl⟩ := List.exists_cons_of_ne_nil hne
      exact ⟨a, as ++ y, by simp [sgn], hPd a (hd a (by simp))⟩
    · exact ⟨45, ds ++ y, by simp [sgn], hP.2.2.2.1⟩
  cases o with
  | null => exact ⟨110, _, rfl, hP.1⟩
  | bool b =>
    cases b
    · exact ⟨102, _, rfl, hP.2.1⟩
    · exact ⟨116, _, rfl, hP.2.2.1⟩
  | int i =>
    obtain ⟨neg, m, e, _⟩ := writeInt_shape i
    simp only [writeObj, e]
    exact hnum neg _ x (natDigits_ne_nil m) (natDigits_all_digit m)
  | real t =>
    simp only [WF] at h
    simp only [writeObj]
    rcases real_cases t h with ⟨hd, _⟩ | ⟨neg, ds, e, hne, hd, _, _⟩
    · obtain ⟨neg, d1, d2, e, hne, h1, _⟩ := decimal_shape _ hd
      rw [e]
      obtain ⟨b, r, e2, hb⟩ := hnum neg d1 (46 :: d2 ++ x) hne h1
      exact ⟨b, r, by rw [← e2]; simp, hb⟩
    · rw [e]; exact hnum neg ds x hne hd
  | name n => exact ⟨47, _, rfl, hP.2.2.2.2.1⟩
  | str s f =>
    cases f
    · exact ⟨40, _, rfl, hP.2.2.2.2.2.1⟩
    · exact ⟨60, _, rfl, hP.2.2.2.2.2.2.1⟩
  | arr items => exact ⟨91, _, rfl, hP.2.2.2.2.2.2.2⟩
  | dict es => exact ⟨60, _, rfl, hP.2.2.2.2.2.2.1⟩
  | stream es c => simp [WF] at h
  | ref n g =>
    simp only [writeObj, List.append_assoc]
    obtain ⟨b, r, e, hb⟩ := hnum false (natDigits n) ([32] ++ (natDigits g ++ ([32, 82] ++ x)))
      (natDigits_ne_nil n) (natDigits_all_digit n)
    exact ⟨b, r, by rw [← e]; simp [sgn], hb⟩

theorem digit_notB : ∀ b : UInt8, isDigit b = true → b ≠ 66 ∧ b ≠ 37 ∧ isContentSpace b = false := by
  apply forall_uint8; decide +kernel

/-- a written object starts with neither `B`, `%` nor a content blank -/
theorem head_obj_content (L : Bytes → Prop) (o : Obj) (x : Bytes) (h : WF L o) :
    ∃ b r, writeObj o ++ x = b :: r ∧ (b ≠ 66 ∧ b ≠ 37 ∧ isContentSpace b = false) :=
  head_obj_P (fun b => b ≠ 66 ∧ b ≠ 37 ∧ isContentSpace b = false)
    ⟨by decide, by decide, by decide, by decide, by decide, by decide, by decide, by decide⟩ digit_notB L o x h

/-! ### one operand -/

/-- the array / dictionary alternatives of `operand` -/
def compoundOp (inp : Bytes) : PRes Obj :=
  match inp with
  | 91 :: r =>
    (match manyObjects (inp.length + 1) 1 (inp.length + 1) (space r) with
     | none => .failure
     | some (items, r1) =>
       (match r1 with
        | 93 :: r2 => .ok (.arr items) r2
        | _ => .error))
  | 60 :: 60 :: r =>
    (match dictEntries (inp.length + 1) 1 (inp.length + 1) (space r) [] with
     | none => .failure
     | some (es, r1) =>
       (match r1 with
        | 62 :: 62 :: r2 => .ok (.dict es) r2
        | _ => .error))
  | _ => .error

theorem operandObj_compound (inp : Bytes) (h : scalars false inp = none) :
    operandObj inp = compoundOp inp := by
  rw [operandObj.eq_def]
  simp only [scalars] at h
  simp only [compoundOp]
  repeat' split at h
  all_goals (try simp_all)
  split <;> first | rfl | (split <;> simp_all)

theorem follow_blank (o : Obj) (rest : Bytes) : Follow false o (32 :: rest) := by
  have hnd : NoDigitAhead (32 :: rest) := by intro b r e; injection e with e _; subst e; decide
  have hdot : ∀ r, (32 :: rest : Bytes) ≠ 46 :: r := by intro r e; injection e with e _; exact absurd e (by decide)
  cases o <;> simp only [Follow]
  · exact ⟨⟨hnd, hdot⟩, fun h => by cases h⟩
  · exact ⟨hnd, fun _ => ⟨hdot, fun h => by cases h⟩⟩
  · intro b r e; injection e with e _; subst e; decide

/-- an operand in the scope of the theorem: a well-formed direct object that is not a
reference (the `operand` grammar has no `reference` alternative), nested at most MAX_NESTING deep -/
def WFOperand (o : Obj) : Prop := WFObj o ∧ (∀ n g, o ≠ .ref n g) ∧ height o ≤ MAX_NESTING

/-- **one operand**: what `encode` writes for it, and the separating blank, is read back by `operand` -/
theorem operand_rt (o : Obj) (rest : Bytes) (h : WFOperand o) :
    pOperand (writeObj o ++ 32 :: rest) = .ok (norm o) (contentSpace rest) := by
  obtain ⟨hwf, href, hh⟩ := h
  have hobj : operandObj (writeObj o ++ 32 :: rest) = .ok (norm o) (32 :: rest) := by
    by_cases hsc : isScalar o = true
    · exact operandObj_scalar _ _ _
        (scalar_core _ litOK_all false o (32 :: rest) hwf hsc (fun _ => href) (follow_blank o rest))
    · cases o with
      | arr items =>
        simp only [WFObj, WF] at hwf
        simp only [height] at hh
        have hin : writeObj (.arr items) ++ 32 :: rest = 91 :: (writeArr true items ++ 93 :: 32 :: rest) := by
          simp [writeObj]
        rw [hin, operandObj_compound _ (scalars_arr_none false _)]
        have hsp : space (writeArr true items ++ 93 :: 32 :: rest) = writeArr true items ++ 93 :: 32 :: rest := by
          cases items with
          | nil => simpa [writeArr] using space_head (93 :: 32 :: rest) ⟨93, _, rfl, by decide, by decide⟩
          | cons o r =>
            simp only [WFL] at hwf
            rw [writeArr_cons]
            simp only [Bool.not_true, Bool.false_and, Bool.false_eq_true, if_false, List.nil_append, List.append_assoc]
            exact space_head _ (headTok_obj _ o _ hwf.1)
        have hlen : sizeL items ≤ (91 :: (writeArr true items ++ 93 :: 32 :: rest)).length + 1 := by
          have := sizeL_le_length _ items true hwf
          simp; omega
        have hm := arr_core _ litOK_all items ((91 :: (writeArr true items ++ 93 :: 32 :: rest)).length + 1) 1
          ((91 :: (writeArr true items ++ 93 :: 32 :: rest)).length + 1) (32 :: rest) hwf (by omega) hlen
          (by have := length_le_sizeL items; omega)
        simp only [compoundOp, hsp, hm, norm]
      | dict es =>
        simp only [WFObj, WF] at hwf
        simp only [height] at hh
        have hin : writeObj (.dict es) ++ 32 :: rest = 60 :: 60 :: (writeDictBody es ++ 62 :: 62 :: 32 :: rest) := by
          simp [writeObj]
        rw [hin, operandObj_compound _ (scalars_dict_none false _)]
        have hsp := space_head _ (stop_dict es (32 :: rest)).2
        have hlen : sizeD es ≤ (60 :: 60 :: (writeDictBody es ++ 62 :: 62 :: 32 :: rest)).length + 1 := by
          have := sizeD_le_length _ es hwf.2
          simp; omega
        have hm := dict_core _ litOK_all es ((60 :: 60 :: (writeDictBody es ++ 62 :: 62 :: 32 :: rest)).length + 1) 1
          ((60 :: 60 :: (writeDictBody es ++ 62 :: 62 :: 32 :: rest)).length + 1) (32 :: rest) [] hwf.2 (by omega) hlen
          (by have := length_le_sizeD es; omega)
        have hset : setAll [] (normD es) = normD es := by
          have := setAll_nodup (normD es) [] (by simpa [normD_keys] using hwf.1)
          simpa using this
        simp only [compoundOp, hsp, hm, norm, hset]
      | stream es c => simp [WFObj, WF] at hwf
      | null => simp [isScalar] at hsc
      | bool b => simp [isScalar] at hsc
      | int i => simp [isScalar] at hsc
      | real t => simp [isScalar] at hsc
      | name n => simp [isScalar] at hsc
      | str s f => simp [isScalar] at hsc
      | ref n g => simp [isScalar] at hsc
  simp [pOperand, hobj, contentSpace_cons_space]

/-! ### operators -/

/-- what follows an operator in `encode`'s output: nothing, or the newline before the next operation -/
def OpTail (tail : Bytes) : Prop := ∀ b r, tail = b :: r → b = 10

structure WFOperator (opr : Bytes) : Prop where
  ne : opr ≠ []
  alpha : ∀ b ∈ opr, isOperatorByte b = true
  notNull : tag NULL_KW opr = none
  notTrue : tag TRUE_KW opr = none
  notFalse : tag FALSE_KW opr = none

/-- `operand` fails (recoverably) on an operator, so `many0(operand)` stops there -/
theorem operand_on_operator (opr tail : Bytes) (h : WFOperator opr) (ht : OpTail tail) :
    pOperand (opr ++ tail) = .error := by
  have hnotin : ∀ (kw : Bytes), (10 : UInt8) ∉ kw → ∀ b r, tail = b :: r → b ∉ kw := by
    intro kw hk b r e; rw [ht b r e]; exact hk
  have t1 := tag_append_none NULL_KW opr tail h.notNull (hnotin _ (by decide))
  have t2 := tag_append_none TRUE_KW opr tail h.notTrue (hnotin _ (by decide))
  have t3 := tag_append_none FALSE_KW opr tail h.notFalse (hnotin _ (by decide))
  obtain ⟨a, as, rfl⟩ := List.exists_cons_of_ne_nil h.ne
  have ha := opByte_facts a (h.alpha a (by simp))
  simp only [List.cons_append] at t1 t2 t3 ⊢
  obtain ⟨n1, n2, n3⟩ := num_fail false a (as ++ tail) ha.1 ha.2.1 ha.2.2.1 ha.2.2.2.1
  have hsc : scalars false (a :: (as ++ tail)) = none := by
    unfold scalars
    rw [t1, t2, t3, n1, n2, n3]
    have h47 := ha.2.2.2.2.1
    have h40 := ha.2.2.2.2.2.1
    have h60 := ha.2.2.2.2.2.2.1
    have p1 : pName (a :: (as ++ tail)) = none := by
      unfold pName; split
      · rename_i heq; injection heq with e _; exact absurd e h47
      · rfl
    have p2 : pLiteral (a :: (as ++ tail)) = none := by
      unfold pLiteral; split
      · rename_i heq; injection heq with e _; exact absurd e h40
      · rfl
    have p3 : pHexString (a :: (as ++ tail)) = none := by
      unfold pHexString; split
      · rename_i heq; injection heq with e _; exact absurd e h60
      · rfl
    rw [p1, p2, p3]
  have hobj : operandObj (a :: (as ++ tail)) = .error := by
    rw [operandObj_compound _ hsc]
    unfold compoundOp
    split
    · rename_i heq; injection heq with e _; exact absurd e ha.2.2.2.2.2.2.2.1
    · rename_i heq; injection heq with e _; exact absurd e ha.2.2.2.2.2.2.1
    · rfl
  simp [pOperand, hobj]

/-! ### operand lists -/

def encOperands (os : List Obj) : Bytes := (os.map fun o => writeObj o ++ [32]).flatten

theorem encOperands_cons (o : Obj) (r : List Obj) (X : Bytes) :
    encOperands (o :: r) ++ X = writeObj o ++ 32 :: (encOperands r ++ X) := by
  simp [encOperands]

theorem encOperands_length (os : List Obj) : os.length ≤ (encOperands os).length := by
  induction os with
  | nil => simp [encOperands]
  | cons o r ih =>
    have := encOperands_cons o r []
    simp only [List.append_nil] at this
    rw [this]; simp; omega

theorem headNonCs_operands (os : List Obj) (X : Bytes) (h : ∀ o ∈ os, WFOperand o) (hX : HeadNonCs X) :
    HeadNonCs (encOperands os ++ X) := by
  cases os with
  | nil => simpa [encOperands] using hX
  | cons o r =>
    rw [encOperands_cons]
    obtain ⟨b, r', e, _, _, hb⟩ := head_obj_content _ o (32 :: (encOperands r ++ X)) (h o (by simp)).1
    exact ⟨b, r', e, hb⟩

theorem operands_rt : ∀ (os : List Obj) (n : Nat) (X : Bytes), (∀ o ∈ os, WFOperand o) → os.length ≤ n →
    HeadNonCs X → pOperand X = .error →
    manyOperands n (encOperands os ++ X) = some (normL os, X) := by
  intro os
  induction os with
  | nil =>
    intro n X _ _ _ hX
    cases n with
    | zero => simp [encOperands, manyOperands, normL]
    | succ n => simp [encOperands, manyOperands, normL, hX]
  | cons o r ih =>
    intro n X h hn hXh hX
    cases n with
    | zero => simp at hn
    | succ n =>
      have hr : ∀ o ∈ r, WFOperand o := fun o ho => h o (by simp [ho])
      rw [encOperands_cons]
      simp only [manyOperands, operand_rt o _ (h o (by simp)),
        contentSpace_head _ (headNonCs_operands r X hr hXh), ih n X hr (by simpa using hn) hXh hX]
      simp [normL]

/-! ### operations -/

/-- operations in the scope of `content_rt` -/
structure WFOp (op : Operation) : Prop where
  operator : WFOperator op.operator
  notBI : op.operands = [] → tag [66, 73] op.operator = none
  operands : ∀ o ∈ op.operands, WFOperand o

def normOp (op : Operation) : Operation := { operator := op.operator, operands := normL op.operands }

theorem encodeOperation_plain (op : Operation) (h : WFOp op) :
    encodeOperation op = encOperands op.operands ++ op.operator := by
  unfold encodeOperation
  simp only [encOperands]
  split
  · split
    · rename_i d c heq
      have := (h.operands (.stream d c) (by rw [heq]; simp)).1
      simp [WFObj, WF] at this
    · rfl
  · rfl

theorem headNonCs_operator (opr tail : Bytes) (h : WFOperator opr) : HeadNonCs (opr ++ tail) := by
  obtain ⟨a, as, e⟩ := List.exists_cons_of_ne_nil h.ne
  have ha := opByte_facts a (h.alpha a (by rw [e]; simp))
  exact ⟨a, as ++ tail, by rw [e]; simp, ha.2.2.2.2.2.2.2.2.2⟩

theorem headNonCs_operation (op : Operation) (tail : Bytes) (h : WFOp op) :
    HeadNonCs (encodeOperation op ++ tail) := by
  rw [encodeOperation_plain op h, List.append_assoc]
  exact headNonCs_operands _ _ h.operands (headNonCs_operator _ _ h.operator)

/-- **one operation**, followed by the end of the content or the newline `encode` puts between
operations -/
theorem operation_rt (op : Operation) (tail : Bytes) (h : WFOp op) (ht : OpTail tail) :
    pOperation (encodeOperation op ++ tail) = .ok (normOp op) (contentSpace tail) := by
  rw [encodeOperation_plain op h, List.append_assoc]
  have hopX := headNonCs_operator op.operator tail h.operator
  -- no comment, no `BI`
  have hfirst : ∃ b r, encOperands op.operands ++ (op.operator ++ tail) = b :: r ∧ b ≠ 37 ∧
      tag [66, 73] (encOperands op.operands ++ (op.operator ++ tail)) = none := by
    cases hos : op.operands with
    | nil =>
      obtain ⟨a, as, e⟩ := List.exists_cons_of_ne_nil h.operator.ne
      have ha := opByte_facts a (h.operator.alpha a (by rw [e]; simp))
      refine ⟨a, as ++ tail, by simp [encOperands, e], ha.2.2.2.2.2.2.2.2.1, ?_⟩
      simp only [encOperands, List.map_nil, List.flatten_nil, List.nil_append]
      exact tag_append_none _ _ _ (h.notBI hos) (fun b r e' => by rw [ht b r e']; decide)
    | cons o r =>
      rw [encOperands_cons]
      obtain ⟨b, r', e, h66, h37, _⟩ := head_obj_content _ o (32 :: (encOperands r ++ (op.operator ++ tail)))
        (h.operands o (by rw [hos]; simp)).1
      refine ⟨b, r', e, h37, ?_⟩
      rw [e]; simp [tag, Ne.symm h66]
  obtain ⟨b, r, e, h37, hbi⟩ := hfirst
  have hcom : manyComments ((encOperands op.operands ++ (op.operator ++ tail)).length + 1)
      (encOperands op.operands ++ (op.operator ++ tail)) = encOperands op.operands ++ (op.operator ++ tail) := by
    simp only [manyComments]
    rw [e, comment_non37 b r h37]
  have hmany := operands_rt op.operands ((encOperands op.operands ++ (op.operator ++ tail)).length + 1)
    (op.operator ++ tail) h.operands
    (by have := encOperands_length op.operands; simp; omega) hopX
    (operand_on_operator _ _ h.operator ht)
  have hop : pOperator (op.operator ++ tail) = some (op.operator, tail) :=
    operator_rt _ _ h.operator.ne h.operator.alpha (fun b r e' => by rw [ht b r e']; decide)
  unfold pOperation
  simp only [hcom, hbi, hmany, hop, normOp]

theorem pOperation_nil : pOperation [] = .error := by
  have h1 : pOperand [] = .error := by
    have : scalars false [] = none := by
      simp [scalars, tag, NULL_KW, TRUE_KW, FALSE_KW, pReal, optSign, spanP, pInteger, digit1, pName, pLiteral, pHexString]
    simp [pOperand, operandObj_compound [] this, compoundOp]
  simp [pOperation, manyComments, comment, tag, manyOperands, h1, pOperator, spanP]

theorem manyOperations_nil (n : Nat) : manyOperations n [] = .ok [] := by
  cases n with
  | zero => rfl
  | succ n => simp [manyOperations, pOperation_nil]

theorem encodeOperation_length (op : Operation) (h : WFOp op) : 1 ≤ (encodeOperation op).length := by
  rw [encodeOperation_plain op h]
  obtain ⟨a, as, e⟩ := List.exists_cons_of_ne_nil h.operator.ne
  simp [e]; omega

theorem encodeContent_length : ∀ (ops : List Operation), (∀ op ∈ ops, WFOp op) →
    ops.length ≤ (encodeContent ops).length
  | [], _ => by simp [encodeContent]
  | [op], h => by
    have := encodeOperation_length op (h op (by simp))
    simpa [encodeContent] using this
  | op :: op2 :: rest, h => by
    have h1 := encodeOperation_length op (h op (by simp))
    have h2 := encodeContent_length (op2 :: rest) (fun o ho => h o (by simp [ho]))
    simp only [encodeContent, List.length_append, List.length_cons] at h2 ⊢
    omega

theorem headNonCs_content (op : Operation) (rest : List Operation) (h : ∀ o ∈ op :: rest, WFOp o) :
    HeadNonCs (encodeContent (op :: rest)) := by
  cases rest with
  | nil =>
    have := headNonCs_operation op [] (h op (by simp))
    simpa [encodeContent] using this
  | cons op2 r =>
    have := headNonCs_operation op ([10] ++ encodeContent (op2 :: r)) (h op (by simp))
    simpa [encodeContent] using this

theorem operations_rt : ∀ (ops : List Operation) (n : Nat), (∀ op ∈ ops, WFOp op) → ops.length ≤ n →
    manyOperations n (encodeContent ops) = .ok (ops.map normOp)
  | [], n, _, _ => by simpa [encodeContent] using manyOperations_nil n
  | [op], n, h, hn => by
    cases n with
    | zero => simp at hn
    | succ n =>
      have := operation_rt op [] (h op (by simp)) (fun b r e => by cases e)
      simp only [List.append_nil, contentSpace_nil] at this
      simp [encodeContent, manyOperations, this, manyOperations_nil]
  | op :: op2 :: rest, n, h, hn => by
    cases n with
    | zero => simp at hn
    | succ n =>
      have hrest : ∀ o ∈ op2 :: rest, WFOp o := fun o ho => h o (by simp [ho])
      have h1 := operation_rt op (10 :: encodeContent (op2 :: rest)) (h op (by simp))
        (fun b r e => by injection e with e _; exact e.symm)
      rw [contentSpace_lf, contentSpace_head _ (headNonCs_content op2 rest hrest)] at h1
      have ih := operations_rt (op2 :: rest) n hrest (by simpa using hn)
      have e : encodeContent (op :: op2 :: rest) = encodeOperation op ++ 10 :: encodeContent (op2 :: rest) := by
        simp [encodeContent]
      rw [e]
      simp only [manyOperations, h1, ih, List.map_cons]

/-- the normal form of an operation list: operands through `norm` -/
def normOps (ops : List Operation) : List Operation := ops.map normOp

/-- **C14 `content_rt`.** For every list of well-formed operations, decoding the encoded content
returns the same operators with the normal forms of the operands, in the same order. -/
theorem content_rt (ops : List Operation) (h : ∀ op ∈ ops, WFOp op) :
    decodeContent (encodeContent ops) = .ok (normOps ops) := by
  unfold decodeContent
  have hsp : contentSpace (encodeContent ops) = encodeContent ops := by
    cases ops with
    | nil => simp [encodeContent, contentSpace_nil]
    | cons op rest => exact contentSpace_head _ (headNonCs_content op rest h)
  simp only [hsp]
  exact operations_rt ops _ h (by have := encodeContent_length ops h; omega)

/-! ### non-vacuity -/

/-- `/F1 12.5 Tf`, `[(a(b) -3 <00>] TJ`, `q` -/
def sampleOps : List Operation :=
  [{ operator := [84, 102], operands := [.name [70, 49], .real [49, 50, 46, 53]] },
   { operator := [84, 74], operands := [.arr [.str [97, 40, 98] .lit, .int (-3), .str [0] .hex]] },
   { operator := [113], operands := [] }]

theorem sample_wf : ∀ op ∈ sampleOps, WFOp op := by
  intro op hop
  simp only [sampleOps, List.mem_cons, List.not_mem_nil, or_false] at hop
  rcases hop with rfl | rfl | rfl
  · refine ⟨⟨by simp, by decide, by decide, by decide, by decide⟩, by simp, ?_⟩
    intro o ho
    simp only [List.mem_cons, List.not_mem_nil, or_false] at ho
    rcases ho with rfl | rfl
    · exact ⟨by simp [WFObj, WF], by simp, by decide⟩
    · refine ⟨?_, by simp, by decide⟩
      simp only [WFObj, WF]
      exact Or.inl ⟨⟨false, [49, 50], [53], rfl, by simp, by decide, by decide⟩⟩
  · refine ⟨⟨by simp, by decide, by decide, by decide, by decide⟩, by simp, ?_⟩
    intro o ho
    simp only [List.mem_cons, List.not_mem_nil, or_false] at ho
    subst ho
    exact ⟨by simp [WFObj, WF, WFL]; decide, by simp, by decide⟩
  · exact ⟨⟨by simp, by decide, by decide, by decide, by decide⟩, fun _ => by decide, by simp⟩

example : decodeContent (encodeContent sampleOps) = .ok (normOps sampleOps) := content_rt _ sample_wf

/-- the guard on operators is needed: `nullx` after an operand is read as `null` and the operator `x` -/
example : tag NULL_KW ([110, 117, 108, 108, 120] ++ [10]) = some [120, 10] := by decide

end Lopdf.ContentRt
