import LopdfModel.Thm.FileXrefStream
import LopdfModel.Thm.C01
import LopdfModel.Thm.C07
/-
  C01/C03 (file level) — **`startxref` is found**: `Reader::get_xref_start` on the bytes `save`
  produced returns the offset the writer stored (the position of the cross-reference section).
-/
namespace Lopdf.FileRT
open Lopdf Gen

/-! ### `search_substring` (last occurrence) -/

/-- `pat` occurs nowhere in `t` -/
def NoOcc (pat t : Bytes) : Prop := ∀ k, k < t.length → pat.isPrefixOf (t.drop k) = false

theorem NoOcc_tail (pat : Bytes) (b : UInt8) (t : Bytes) (h : NoOcc pat (b :: t)) : NoOcc pat t := by
  intro k hk
  have := h (k + 1) (by simp; omega)
  simpa using this

theorem go_noOcc (pat : Bytes) : ∀ (t : Bytes) (fuel i : Nat) (acc : Option Nat), NoOcc pat t →
    searchLast.go pat fuel t i acc = acc := by
  intro t
  induction t with
  | nil => intro fuel i acc _; cases fuel <;> rfl
  | cons b t ih =>
    intro fuel i acc h
    cases fuel with
    | zero => rfl
    | succ f =>
      have h0 := h 0 (by simp)
      simp only [List.drop_zero] at h0
      simp only [searchLast.go, h0, Bool.false_eq_true, if_false]
      exact ih f (i + 1) acc (NoOcc_tail pat b t h)

theorem go_found (pat : Bytes) : ∀ (u : Bytes) (b : UInt8) (t : Bytes) (fuel i : Nat) (acc : Option Nat),
    pat.isPrefixOf (b :: t) = true → NoOcc pat t → u.length + 1 ≤ fuel →
    searchLast.go pat fuel (u ++ b :: t) i acc = some (i + u.length) := by
  intro u
  induction u with
  | nil =>
    intro b t fuel i acc hp hn hf
    cases fuel with
    | zero => simp at hf
    | succ f =>
      simp only [List.nil_append, searchLast.go, hp, if_true, List.length_nil, Nat.add_zero]
      exact go_noOcc pat t f (i + 1) (some i) hn
  | cons a u ih =>
    intro b t fuel i acc hp hn hf
    cases fuel with
    | zero => simp at hf
    | succ f =>
      simp only [List.cons_append, searchLast.go]
      rw [ih b t f (i + 1) _ hp hn (by simp at hf ⊢; omega)]
      simp only [List.length_cons]
      congr 1; omega

/-- `search_substring` returns the LAST occurrence: if the pattern stands at `pre.length` and
nowhere later, that position is returned whenever the search starts at or before it -/
theorem searchLast_found (pat pre : Bytes) (b : UInt8) (t : Bytes) (start : Nat)
    (hs : start ≤ pre.length) (hp : pat.isPrefixOf (b :: t) = true) (hn : NoOcc pat t) :
    searchLast pat (pre ++ b :: t) start = some pre.length := by
  unfold searchLast
  simp only
  rw [List.drop_append_of_le_length hs]
  rw [go_found pat (pre.drop start) b t _ start none hp hn (by simp)]
  simp only [List.length_drop]
  congr 1; omega

theorem noOcc_short (pat t : Bytes) (h : t.length < pat.length) : NoOcc pat t := by
  intro k _
  cases hb : pat.isPrefixOf (t.drop k) with
  | false => rfl
  | true =>
    have := (List.isPrefixOf_iff_prefix.mp hb).length_le
    simp only [List.length_drop] at this
    omega

theorem noOcc_not_mem (c : UInt8) (p t : Bytes) (h : c ∉ t) : NoOcc (c :: p) t := by
  intro k hk
  rw [List.drop_eq_getElem_cons hk]
  have : t[k] ≠ c := by
    intro e
    apply h
    rw [← e]
    exact List.getElem_mem hk
  simp [List.isPrefixOf, Ne.symm this]

/-! ### the tail of a saved file -/

theorem natDigits_head (n : Nat) : ∃ a as, natDigits n = a :: as ∧ isDigit a = true := by
  cases h : natDigits n with
  | nil => exact absurd h (natDigits_ne_nil n)
  | cons a as => exact ⟨a, as, rfl, natDigits_all_digit n a (by rw [h]; simp)⟩

theorem skipSpaces_digits (n : Nat) (rest : Bytes) : skipSpaces (natDigits n ++ rest) = natDigits n ++ rest := by
  obtain ⟨a, as, h, ha⟩ := natDigits_head n
  have h32 : (a == 32) = false := by
    cases hb : (a == 32) with
    | false => rfl
    | true => have : a = 32 := by simpa using hb
              subst this; simp [isDigit] at ha
  simp [skipSpaces, h, spanP, h32]

theorem natDigits_no_s (n : Nat) : (115 : UInt8) ∉ natDigits n := by
  intro h
  have := natDigits_all_digit n 115 h
  simp [isDigit] at this

/-- `xref_start` on `startxref\n N \n%%EOF` -/
theorem pXrefStart_tail (n : Nat) (hn : n ≤ I64_MAX) :
    pXrefStart (STARTXREF ++ 10 :: (natDigits n ++ EOF_KW)) = some (n : Int) := by
  have hi := int_rt (n : Int) EOF_KW (by omega) (by simpa using hn)
    (by intro b r h; simp [EOF_KW] at h; obtain ⟨rfl, _⟩ := h; decide)
  have hw : writeInt (n : Int) = natDigits n := rfl
  rw [hw] at hi
  have h0 : tag STARTXREF (STARTXREF ++ 10 :: (natDigits n ++ EOF_KW)) = some (10 :: (natDigits n ++ EOF_KW)) := by
    simp [STARTXREF, tag]
  unfold pXrefStart
  rw [h0]
  simp only [Option.bind_some, eol, skipSpaces_digits, hi]
  simp [EOF_KW, skipSpaces, spanP, EOF_MARK, tag]

/-- **`get_xref_start` on a file tail.** Whatever precedes (at least 13 bytes), a file ending in
`"\nstartxref\n" N "\n%%EOF"` with `N < 10^14` yields `N`: the `%%EOF` found is the final one
(last occurrence in the last 512 bytes — nothing follows it), the `startxref` found is the one
written by `save` (last occurrence from 25 bytes before `%%EOF`), and the number parses. -/
theorem getXrefStart_tail (X : Bytes) (n : Nat) (hX : 13 ≤ X.length) (hn : n < 100000000000000) :
    getXrefStart (X ++ STARTXREF_KW ++ natDigits n ++ EOF_KW) = some n := by
  have hd : (natDigits n).length ≤ 14 := natDigits_length_le 14 n (by omega) (by omega)
  have hd1 : 1 ≤ (natDigits n).length := by
    obtain ⟨a, as, h, _⟩ := natDigits_head n
    rw [h]; simp
  -- the two decompositions of the file
  have e1 : X ++ STARTXREF_KW ++ natDigits n ++ EOF_KW
      = (X ++ STARTXREF_KW ++ natDigits n ++ [10]) ++ 37 :: [37, 69, 79, 70] := by
    simp [EOF_KW]
  have e2 : X ++ STARTXREF_KW ++ natDigits n ++ EOF_KW
      = (X ++ [10]) ++ 115 :: ([116, 97, 114, 116, 120, 114, 101, 102] ++ 10 :: (natDigits n ++ EOF_KW)) := by
    simp [STARTXREF_KW]
  have hlen : (X ++ STARTXREF_KW ++ natDigits n ++ EOF_KW).length = X.length + (natDigits n).length + 17 := by
    simp [STARTXREF_KW, EOF_KW]; omega
  have hpre : (X ++ STARTXREF_KW ++ natDigits n ++ [10]).length = X.length + (natDigits n).length + 12 := by
    simp [STARTXREF_KW]; omega
  have hEof : searchLast EOF_MARK (X ++ STARTXREF_KW ++ natDigits n ++ EOF_KW)
      ((X ++ STARTXREF_KW ++ natDigits n ++ EOF_KW).length
        - min (X ++ STARTXREF_KW ++ natDigits n ++ EOF_KW).length 512)
      = some (X.length + (natDigits n).length + 12) := by
    rw [hlen]
    rw [e1, searchLast_found EOF_MARK _ 37 [37, 69, 79, 70] _ (by rw [hpre]; omega) (by decide)
      (noOcc_short _ _ (by decide)), hpre]
  have hSx : searchLast STARTXREF (X ++ STARTXREF_KW ++ natDigits n ++ EOF_KW)
      (X.length + (natDigits n).length + 12 - 25) = some (X.length + 1) := by
    have hno : NoOcc STARTXREF ([116, 97, 114, 116, 120, 114, 101, 102] ++ 10 :: (natDigits n ++ EOF_KW)) := by
      apply noOcc_not_mem
      have := natDigits_no_s n
      simp [EOF_KW, this]
    rw [e2, searchLast_found STARTXREF _ 115 _ _ (by simp; omega)
      (by simp [STARTXREF, List.isPrefixOf]) hno]
    simp
  have hdrop : (X ++ STARTXREF_KW ++ natDigits n ++ EOF_KW).drop (X.length + 1)
      = STARTXREF ++ 10 :: (natDigits n ++ EOF_KW) := by
    rw [e2, List.drop_append_of_le_length (by simp)]
    have : (X ++ [10]).drop (X.length + 1) = [] := by simp
    rw [this]
    simp [STARTXREF]
  unfold getXrefStart
  simp only [hEof, Option.bind_some]
  have hgt : X.length + (natDigits n).length + 12 > 25 := by omega
  simp only [hgt, if_true, hSx, Option.bind_some, hdrop, pXrefStart_tail n (by simp [I64_MAX]; omega),
    Option.map_some]
  have : ¬ ((n : Int) < 0) := by omega
  simp [this]

end Lopdf.FileRT
