import LopdfModel.Model.Sink
/-
  C19 — property theorems, for EVERY sink script and EVERY request list:
  * `delivered_prefix` : the bytes delivered are a prefix of the complete output
  * `ok_delivers_all`  : if saving reports success, exactly the complete output was delivered
  * `no_fail_ok`       : a sink that only splits writes and interrupts (never fails, never
                         accepts 0 bytes) makes saving succeed — chunking is invisible
  * `fail_reported`    : dually, when the run stops early the result is an error, never success
  * `counter_chunk_free`: the byte counter behind the cross-reference offsets equals the total
                         length of the requests issued, whatever the sink did
-/
namespace Lopdf

theorem writeAllS_prefix : ∀ (s : List Resp) (buf : Bytes), (writeAllS s buf).delivered <+: buf := by
  intro s buf
  induction s, buf using writeAllS.induct with
  | case1 buf => simp [writeAllS]
  | case2 r s buf h => simp [writeAllS, h]
  | case3 s buf h => simp [writeAllS, h]
  | case4 s buf h k hk ih =>
    simp only [writeAllS, h, hk, if_false, Bool.false_eq_true]
    have : buf = buf.take k ++ buf.drop k := (List.take_append_drop k _).symm
    conv => rhs; rw [this]
    exact (List.prefix_append_right_inj _).mpr ih
  | case5 s buf h ih => simp only [writeAllS, h, if_false, Bool.false_eq_true]; exact ih
  | case6 s buf h => simp [writeAllS, h]

theorem writeAll_prefix (buf : Bytes) (s : List Resp) : (writeAll buf s).delivered <+: buf :=
  writeAllS_prefix s buf

theorem writeAllS_ok_all : ∀ (s : List Resp) (buf : Bytes), (writeAllS s buf).ok = true →
    (writeAllS s buf).delivered = buf := by
  intro s buf
  induction s, buf using writeAllS.induct with
  | case1 buf => simp [writeAllS]
  | case2 r s buf h => intro _; simp only [writeAllS, h, if_true]; simpa using h
  | case3 s buf h => simp [writeAllS, h]
  | case4 s buf h k hk ih =>
    simp only [writeAllS, h, hk, if_false, Bool.false_eq_true]
    intro hok
    rw [ih hok]; exact List.take_append_drop k _
  | case5 s buf h ih => simp only [writeAllS, h, if_false, Bool.false_eq_true]; exact ih
  | case6 s buf h => simp [writeAllS, h]

theorem writeAll_ok_all (buf : Bytes) (s : List Resp) (h : (writeAll buf s).ok = true) :
    (writeAll buf s).delivered = buf := writeAllS_ok_all s buf h

/-- **Delivered bytes are a prefix of the complete output** — every sink, every failure point. -/
theorem delivered_prefix : ∀ (chunks : List Bytes) (s : List Resp),
    (saveRun chunks s).delivered <+: chunks.flatten := by
  intro chunks
  induction chunks with
  | nil => intro s; simp [saveRun]
  | cons c cs ih =>
    intro s
    simp only [saveRun, List.flatten_cons]
    split
    · rename_i hok
      rw [writeAll_ok_all c s hok]
      exact (List.prefix_append_right_inj _).mpr (ih _)
    · exact List.IsPrefix.trans (writeAll_prefix c s) (List.prefix_append _ _)

/-- **Success means everything was delivered.** -/
theorem ok_delivers_all : ∀ (chunks : List Bytes) (s : List Resp),
    (saveRun chunks s).ok = true → (saveRun chunks s).delivered = chunks.flatten := by
  intro chunks
  induction chunks with
  | nil => intro s _; simp [saveRun]
  | cons c cs ih =>
    intro s
    simp only [saveRun, List.flatten_cons]
    split
    · rename_i hok
      intro h
      rw [writeAll_ok_all c s hok, ih _ h]
    · intro h; simp at h

/-- a response that neither fails nor is a zero-length write -/
def Resp.benign : Resp → Bool
  | .accept k => k != 0
  | .interrupted => true
  | .fail => false

theorem writeAllS_benign : ∀ (s : List Resp) (buf : Bytes), s.all Resp.benign = true →
    (writeAllS s buf).ok = true ∧ (writeAllS s buf).script.all Resp.benign = true := by
  intro s buf
  induction s, buf using writeAllS.induct with
  | case1 buf => intro _; simp [writeAllS]
  | case2 r s buf h => intro hb; simp only [writeAllS, h, if_true]; exact ⟨trivial, hb⟩
  | case3 s buf h => intro hb; simp [Resp.benign] at hb
  | case4 s buf h k hk ih =>
    intro hb
    simp only [writeAllS, h, hk, if_false, Bool.false_eq_true]
    simp only [List.all_cons, Bool.and_eq_true] at hb
    exact ih hb.2
  | case5 s buf h ih =>
    intro hb
    simp only [writeAllS, h, if_false, Bool.false_eq_true]
    simp only [List.all_cons, Bool.and_eq_true] at hb
    exact ih hb.2
  | case6 s buf h => intro hb; simp [Resp.benign] at hb

theorem writeAll_benign (buf : Bytes) (s : List Resp) (h : s.all Resp.benign = true) :
    (writeAll buf s).ok = true ∧ (writeAll buf s).script.all Resp.benign = true := writeAllS_benign s buf h

/-- **Chunking and transient interruptions are invisible**: whatever way the sink splits the
writes (any accept sizes ≥ 1, any number of `Interrupted`), saving succeeds and — by
`ok_delivers_all` — delivers exactly the complete output. -/
theorem no_fail_ok : ∀ (chunks : List Bytes) (s : List Resp), s.all Resp.benign = true →
    (saveRun chunks s).ok = true := by
  intro chunks
  induction chunks with
  | nil => intro s _; simp [saveRun]
  | cons c cs ih =>
    intro s h
    obtain ⟨h1, h2⟩ := writeAll_benign c s h
    simp only [saveRun, h1, if_true]
    exact ih _ h2

theorem chunking_invisible (chunks : List Bytes) (s : List Resp) (h : s.all Resp.benign = true) :
    (saveRun chunks s).delivered = chunks.flatten :=
  ok_delivers_all chunks s (no_fail_ok chunks s h)

/-- **A failure is reported**: if not all requests were issued, the result is an error. -/
theorem fail_reported : ∀ (chunks : List Bytes) (s : List Resp),
    (saveRun chunks s).issued < chunks.length → (saveRun chunks s).ok = false := by
  intro chunks
  induction chunks with
  | nil => intro s h; simp [saveRun] at h
  | cons c cs ih =>
    intro s
    simp only [saveRun, List.length_cons]
    split
    · intro h; exact ih _ (by simp at h ⊢; omega)
    · intro _; rfl

/-- **Offsets do not depend on the sink**: the counter equals the total length of the requests
issued so far, for every script (short writes, interruptions, failures). -/
theorem counter_chunk_free : ∀ (chunks : List Bytes) (s : List Resp),
    (saveRun chunks s).counter = ((chunks.take (saveRun chunks s).issued).map List.length).sum := by
  intro chunks
  induction chunks with
  | nil => intro s; simp [saveRun]
  | cons c cs ih =>
    intro s
    simp only [saveRun]
    split
    · simp [ih]
    · simp

/- Non-vacuity: a sink that splits into 1-byte writes with an interruption, and one that fails. -/
example : (saveRun [[1, 2, 3], [4]] [.accept 1, .interrupted, .accept 1]).delivered = [1, 2, 3, 4] := by decide
example : (saveRun [[1, 2, 3], [4]] [.accept 2, .fail]).ok = false ∧
    (saveRun [[1, 2, 3], [4]] [.accept 2, .fail]).delivered = [1, 2] := by decide

end Lopdf
