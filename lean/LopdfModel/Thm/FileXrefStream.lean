import LopdfModel.Thm.FileXrefTable
import LopdfModel.Thm.C03
/-
  C01/C03 (file level) — **the cross-reference stream round trip**: `decode_xref_stream` applied
  to the dictionary entries (`W = [1 4 2]`, `Index`, `Size`) and the content that
  `Writer::create_xref_steam` produces yields exactly the recorded entries.
-/
namespace Lopdf.FileRT
open Lopdf Gen

/-! ### big-endian fields -/

theorem readBE4 (off : Nat) (rest : Bytes) (h : off < 4294967296) :
    readBE 4 (beBytesW 4 off ++ rest) = some (off, rest) := by
  simp [beBytesW, readBE, U32]
  omega

theorem readBE2 (g : Nat) (rest : Bytes) (h : g < 65536) :
    readBE 2 (beBytesW 2 g ++ rest) = some (g, rest) := by
  simp [beBytesW, readBE, U32]
  omega

theorem readBE1 (rest : Bytes) : readBE 1 (1 :: rest) = some (1, rest) := by
  simp [readBE, U32]

/-! ### rows -/

def rowBytes (es : List (Nat × Nat)) : Bytes :=
  (es.map fun (p : Nat × Nat) => [1] ++ beBytesW 4 p.1 ++ beBytesW 2 p.2).flatten

theorem xrefStreamContent_eq (secs : List (Nat × List (Nat × Nat))) :
    xrefStreamContent secs = (secs.map fun s => rowBytes s.2).flatten := by
  simp only [xrefStreamContent, rowBytes]

def insertAll (t : XTable) : List (Nat × (Nat × Nat)) → XTable
  | [] => t
  | (k, (off, g)) :: rest => insertAll (t.insert k (.normal off g)) rest

theorem insertAll_append (a b : List (Nat × (Nat × Nat))) : ∀ t : XTable,
    insertAll t (a ++ b) = insertAll (insertAll t a) b := by
  induction a with
  | nil => intro t; rfl
  | cons p rest ih => intro t; obtain ⟨k, off, g⟩ := p; simp only [List.cons_append, insertAll, ih]

theorem insertAll_eq_applyAssigns (l : List (Nat × (Nat × Nat))) : ∀ t : XTable,
    insertAll t l = applyAssigns t (l.map fun p => (p.1, some p.2)) := by
  induction l with
  | nil => intro t; rfl
  | cons p rest ih => intro t; obtain ⟨k, off, g⟩ := p; simp only [insertAll, List.map_cons, applyAssigns, ih]

def PairOk (p : Nat × Nat) : Prop := p.1 < 4294967296 ∧ p.2 < 65536

/-- the rows of one `Index` pair read back: entry `j` lands under object number `s + j` -/
theorem xrefRows_rows : ∀ (es : List (Nat × Nat)) (s j : Nat) (rest : Bytes) (t : XTable),
    (∀ p ∈ es, PairOk p) → s + j + es.length ≤ 4294967296 →
    xrefRows 1 4 2 (s : Int) es.length j (rowBytes es ++ rest) t
      = .ok (insertAll t (assignsFrom (s + j) es), rest) := by
  intro es
  induction es with
  | nil => intro s j rest t _ _; simp [xrefRows, rowBytes, insertAll, assignsFrom]
  | cons p es ih =>
    intro s j rest t hok hb
    obtain ⟨off, g⟩ := p
    obtain ⟨h1, h2⟩ := hok (off, g) (by simp)
    simp only at h1 h2
    have e0 : rowBytes ((off, g) :: es) ++ rest = 1 :: (beBytesW 4 off ++ (beBytesW 2 g ++ (rowBytes es ++ rest))) := by
      simp [rowBytes]
    have hb' : s + (j + 1) + es.length ≤ 4294967296 := by simp at hb; omega
    have hle : ¬ ((s : Int) + (j : Int) > (I64_MAX : Int)) := by
      simp [I64_MAX]; simp at hb; omega
    have hid : (((s : Int) + (j : Int)) % (U32 : Int)).toNat = s + j := by
      simp [U32]; simp at hb; omega
    have hg : g % 65536 = g := Nat.mod_eq_of_lt h2
    rw [e0]
    simp only [List.length_cons, xrefRows, Nat.succ_ne_zero, if_false, readBE1, if_true, readBE4 off _ h1,
      readBE2 g _ h2, hle, hid, hg]
    rw [ih s (j + 1) rest _ (fun q hq => hok q (by simp [hq])) hb']
    have : s + (j + 1) = s + j + 1 := by omega
    simp only [assignsFrom, insertAll, this]

/-! ### sections -/

def indexInts (secs : List (Nat × List (Nat × Nat))) : List Int :=
  (secs.map fun s => [(s.1 : Int), (s.2.length : Int)]).flatten

theorem intArray_index (secs : List (Nat × List (Nat × Nat))) :
    intArray (xrefStreamIndex secs) = some (indexInts secs) := by
  simp only [xrefStreamIndex, intArray, indexInts]
  induction secs with
  | nil => rfl
  | cons s rest ih =>
    obtain ⟨st, es⟩ := s
    simp only [List.map_cons, List.flatten_cons, List.cons_append, List.nil_append, List.mapM_cons, Obj.asInt]
    rw [ih]
    rfl

def SSecOk (sec : Nat × List (Nat × Nat)) : Prop :=
  sec.1 + sec.2.length ≤ 4294967296 ∧ ∀ p ∈ sec.2, PairOk p

theorem xrefSections_secs : ∀ (secs : List (Nat × List (Nat × Nat))) (t : XTable),
    (∀ sec ∈ secs, SSecOk sec) →
    xrefSections 1 4 2 (indexInts secs) ((secs.map fun s => rowBytes s.2).flatten) t
      = .ok (insertAll t (assigns secs)) := by
  intro secs
  induction secs with
  | nil => intro t _; simp [indexInts, xrefSections, assigns, insertAll]
  | cons sec more ih =>
    intro t hok
    obtain ⟨s, es⟩ := sec
    obtain ⟨hb, he⟩ := hok (s, es) (by simp)
    simp only at hb he
    have hr := xrefRows_rows es s 0 ((more.map fun s => rowBytes s.2).flatten) t he (by omega)
    simp only [indexInts, List.map_cons, List.flatten_cons, List.cons_append, List.nil_append, xrefSections,
      Int.toNat_natCast, Nat.add_zero] at hr ⊢
    rw [hr]
    simp only
    have := ih (insertAll t (assignsFrom s es)) (fun sec' h' => hok sec' (by simp [h']))
    simp only [indexInts] at this
    rw [this]
    simp only [assigns, List.map_cons, List.flatten_cons, insertAll_append]

/-- the sections `create_xref_steam` emits for a map `x` whose highest number is `last` -/
def streamSecs (x : XrefMap) (last : Nat) : List (Nat × List (Nat × Nat)) :=
  loopSecs x id (List.range' 1 last) 0 []

theorem xrefStreamLoop_secs (x : XrefMap) (n : Nat) :
    xrefStreamLoop x ((List.range (n + 1)).drop 1) 0 [] [] = streamSecs x n := by
  rw [range_drop_one, xrefStreamLoop_eq]
  simp [streamSecs]

theorem streamSecs_ok (x : XrefMap) (last : Nat) (hx : XrefMapOk x) (hs : last ≤ 4294967295) :
    ∀ sec ∈ streamSecs x last, SSecOk sec := by
  intro sec hsec
  obtain ⟨h1, h2⟩ := loopSecs_bounds x (id : Nat × Nat → Nat × Nat) last 1 0 [] (by intro h; exact absurd rfl h) sec hsec
  refine ⟨by omega, ?_⟩
  intro e he
  rcases h2 e he with h | ⟨i, p, hp, hv⟩
  · simp at h
  · obtain ⟨off, g⟩ := p
    subst hv
    exact hx i off g hp

theorem streamSecs_assigns (x : XrefMap) (last : Nat) :
    assigns (streamSecs x last) = (List.range' 1 last).filterMap (idAssign x id) := by
  unfold streamSecs
  rw [loopSecs_spec x (id : Nat × Nat → Nat × Nat) last 1 0 [] (by intro h; exact absurd rfl h)]
  simp [assignsFrom]

theorem insertAll_get_ids (x : XrefMap) (ids : List Nat) (t : XTable) (n : Nat) :
    (insertAll t (ids.filterMap (idAssign x id))).get n =
      if n ∈ ids then (normalOf x n).orElse (fun _ => t.get n) else t.get n := by
  rw [insertAll_eq_applyAssigns, ← applyAssigns_get_ids]
  congr 1
  rw [List.map_filterMap]
  have : (fun i => Option.map (fun (p : Nat × (Nat × Nat)) => (p.1, some p.2)) (idAssign x id i)) = idAssign x some := by
    funext i
    simp only [idAssign]
    cases x.get i <;> simp
  rw [this]

/-- **Cross-reference stream round trip (C01/C03).** Let `d` be a stream dictionary without
`Filter` that carries `Size`, `W = [1 4 2]` and the `Index` array the writer computes for the map
`x` over the object numbers `1..last` (`u32` offsets, `u16` generations, at least one entry —
the writer always lists the cross-reference stream itself). Then `decode_xref_stream` of `d` and
the written content succeeds, and the table holds for every `n` the entry `normal off g` iff
`1 ≤ n ≤ last` and the writer recorded `n ↦ (off, g)`. `Length`, `W`, `Index` are removed from
the returned trailer dictionary and `Size` is returned. -/
theorem xref_stream_rt (x : XrefMap) (last : Nat) (d : Dict) (size : Int)
    (hx : XrefMapOk x) (hs : last ≤ 4294967295)
    (hne : ∃ n, 1 ≤ n ∧ n ≤ last ∧ (x.get n).isSome)
    (hF : d.has FILTER = false) (hS : d.get SIZE = some (.int size))
    (hI : d.get INDEX = some (xrefStreamIndex (streamSecs x last)))
    (hW : d.get W_KEY = some (.arr (XREF_W.map fun (w : Nat) => Obj.int (Int.ofNat w)))) :
    ∃ table, decodeXrefStream d (xrefStreamContent (streamSecs x last))
        = .ok (table, (size % (U32 : Int)).toNat, ((d.remove LENGTH).remove W_KEY).remove INDEX) ∧
      (∀ n, table.get n = if 1 ≤ n ∧ n ≤ last then normalOf x n else none) ∧
      (table.map (·.1)).Nodup := by
  refine ⟨insertAll [] (assigns (streamSecs x last)), ?_, ?_, ?_⟩
  rotate_left 2
  · rw [insertAll_eq_applyAssigns]
    exact applyAssigns_nodup _ [] (by simp)
  · have hlen : 7 ≤ (xrefStreamContent (streamSecs x last)).length := by
      rw [xrefStreamContent_length]
      have hsum : ((streamSecs x last).map fun s => s.2.length).sum = (assigns (streamSecs x last)).length := by
        simp only [assigns]
        generalize streamSecs x last = secs
        induction secs with
        | nil => rfl
        | cons s rest ih =>
          have hl : ∀ (es : List (Nat × Nat)) (a : Nat), (assignsFrom a es).length = es.length := by
            intro es; induction es with
            | nil => intro a; rfl
            | cons e es ihe => intro a; simp [assignsFrom, ihe]
          simp only [List.map_cons, List.sum_cons, List.flatten_cons, List.length_append, hl, ih]
      rw [hsum, streamSecs_assigns]
      obtain ⟨n, hn1, hn2, hn3⟩ := hne
      have hmem : n ∈ List.range' 1 last := by simp [List.mem_range'_1]; omega
      cases hg : x.get n with
      | none => simp [hg] at hn3
      | some e =>
        have : (n, e) ∈ (List.range' 1 last).filterMap (idAssign x id) := by
          rw [List.mem_filterMap]
          exact ⟨n, hmem, by simp [idAssign, hg]⟩
        have := List.length_pos_of_mem this
        omega
    have hw : (some (Obj.arr (XREF_W.map fun (w : Nat) => Obj.int (Int.ofNat w)))).bind intArray
        = some [1, 4, 2] := by
      simp [XREF_W, intArray, Obj.asInt]
    unfold decodeXrefStream
    simp only [hF, Bool.false_eq_true, if_false, hS, hI, hW, Option.bind_some, Obj.asInt, intArray_index, hw]
    have c1 : ¬ ((1 : Int) < 0 ∨ (4 : Int) < 0 ∨ (2 : Int) < 0) := by omega
    have c2 : ((1 : Int) > ((xrefStreamContent (streamSecs x last)).length : Int)) = False := by
      simp; omega
    have c3 : ((4 : Int) > ((xrefStreamContent (streamSecs x last)).length : Int)) = False := by
      simp; omega
    have c4 : ((2 : Int) > ((xrefStreamContent (streamSecs x last)).length : Int)) = False := by
      simp; omega
    have hsec := xrefSections_secs (streamSecs x last) [] (streamSecs_ok x last hx hs)
    rw [← xrefStreamContent_eq] at hsec
    simp [c2, c3, c4, hsec]
  · intro n
    rw [streamSecs_assigns, insertAll_get_ids]
    simp only [List.mem_range'_1, XTable.get]
    by_cases h : 1 ≤ n ∧ n ≤ last
    · have : 1 ≤ n ∧ n < 1 + last := by omega
      simp [h, this]
    · have : ¬ (1 ≤ n ∧ n < 1 + last) := by omega
      simp [h, this]

/-- non-vacuity: objects 1 and 3 recorded (a gap at 2), the dictionary the writer would build -/
example : ∃ table tr, decodeXrefStream
      [(SIZE, .int 4), (INDEX, xrefStreamIndex (streamSecs [(1, (15, 0)), (3, (100, 7))] 3)),
       (W_KEY, .arr (XREF_W.map fun (w : Nat) => Obj.int (Int.ofNat w)))]
      (xrefStreamContent (streamSecs [(1, (15, 0)), (3, (100, 7))] 3)) = .ok (table, 4, tr)
    ∧ table.get 3 = some (.normal 100 7) ∧ table.get 2 = none := by
  obtain ⟨table, h1, h2, _⟩ := xref_stream_rt [(1, (15, 0)), (3, (100, 7))] 3
    [(SIZE, .int 4), (INDEX, xrefStreamIndex (streamSecs [(1, (15, 0)), (3, (100, 7))] 3)),
     (W_KEY, .arr (XREF_W.map fun (w : Nat) => Obj.int (Int.ofNat w)))] 4
    (by intro n off g h
        simp only [XrefMap.get] at h
        repeat' (split at h)
        all_goals (cases h)
        all_goals omega)
    (by omega) ⟨1, by omega, by omega, by simp [XrefMap.get]⟩ (by decide) (by simp [Dict.get]) (by simp [Dict.get, SIZE, INDEX]) (by simp [Dict.get, SIZE, INDEX, W_KEY])
  exact ⟨table, _, h1, by rw [h2]; simp [normalOf, XrefMap.get], by rw [h2]; simp [normalOf, XrefMap.get]⟩

end Lopdf.FileRT
