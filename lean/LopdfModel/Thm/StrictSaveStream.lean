import LopdfModel.Thm.StrictSave
import LopdfModel.Thm.FileRevs
/-
  C03 — `strict_ok` for saves with a cross-reference STREAM: the strict reader accepts the file,
  decodes the stream's rows (W = [1 4 2], the writer's Index), finds it listing itself, and recovers
  exactly the saved objects.
-/
namespace Lopdf.Strict
open Lopdf Gen Lopdf.FileRT Lopdf.ObjRt

/-! ### fields and rows -/

theorem field1 (r : Bytes) : field 1 1 (1 :: r) = (1, r) := by simp [field]

theorem field4 (off : Nat) (r : Bytes) (h : off < 4294967296) : field 4 0 (beBytesW 4 off ++ r) = (off, r) := by
  simp [field, beBytesW]
  omega

theorem field2 (g : Nat) (r : Bytes) (h : g < 65536) : field 2 0 (beBytesW 2 g ++ r) = (g, r) := by
  simp [field, beBytesW]
  omega

/-- pair assignments as strict entries -/
def entsOf (L : List (Nat × (Nat × Nat))) : List Entry := L.map fun p => (p.1, p.2.1, p.2.2)

theorem streamRows_rows : ∀ (es : List (Nat × Nat)) (s : Nat) (rest : Bytes) (acc : List Entry)
    (Ltail : List (Nat × (Nat × Nat))),
    (∀ p ∈ es, PairOk p) →
    ((assignsFrom s es ++ Ltail).map (·.1)).Nodup →
    (∀ k ∈ (assignsFrom s es ++ Ltail).map (·.1), hasNum acc k = false) →
    streamRows 1 4 2 es.length s (rowBytes es ++ rest) acc = .ok (acc ++ entsOf (assignsFrom s es), rest) ∧
      ∀ k ∈ Ltail.map (·.1), hasNum (acc ++ entsOf (assignsFrom s es)) k = false := by
  intro es
  induction es with
  | nil =>
    intro s rest acc Ltail _ _ hk
    simp only [List.length_nil, streamRows, rowBytes, List.map_nil, List.flatten_nil, List.nil_append, assignsFrom,
      entsOf, List.append_nil, true_and]
    simpa [assignsFrom] using hk
  | cons e es ih =>
    intro s rest acc Ltail hok hnd hk
    obtain ⟨off, g⟩ := e
    obtain ⟨h1, h2⟩ := hok (off, g) (by simp)
    simp only at h1 h2
    have hks : hasNum acc s = false := hk s (by simp [assignsFrom])
    simp only [assignsFrom, List.cons_append, List.map_cons, List.nodup_cons] at hnd
    have hk'' : ∀ k ∈ (assignsFrom (s + 1) es ++ Ltail).map (·.1), hasNum (acc ++ [(s, off, g)]) k = false := by
      intro k hkm
      rw [hasNum_append, hk k (by simp only [assignsFrom, List.cons_append, List.map_cons, List.mem_cons]; exact Or.inr hkm)]
      have : s ≠ k := by intro e; subst e; exact hnd.1 hkm
      simp [this]
    have e0 : rowBytes ((off, g) :: es) ++ rest = 1 :: (beBytesW 4 off ++ (beBytesW 2 g ++ (rowBytes es ++ rest))) := by
      simp [rowBytes]
    have hg' : ¬ g > 65535 := by omega
    rw [e0]
    simp only [List.length_cons, streamRows, field1, field4 off _ h1, field2 g _ h2, if_true, hg', if_false, hks,
      Bool.false_eq_true]
    obtain ⟨i1, i2⟩ := ih (s + 1) rest (acc ++ [(s, off, g)]) Ltail (fun q hq => hok q (by simp [hq])) hnd.2 hk''
    rw [i1]
    exact ⟨by simp [assignsFrom, entsOf], by simpa [assignsFrom, entsOf] using i2⟩

theorem streamSections_secs : ∀ (secs : List (Nat × List (Nat × Nat))) (acc : List Entry),
    (∀ sec ∈ secs, SSecOk sec) → ((assigns secs).map (·.1)).Nodup →
    (∀ k ∈ (assigns secs).map (·.1), hasNum acc k = false) →
    streamSections 1 4 2 (indexInts secs) ((secs.map fun s => rowBytes s.2).flatten) acc
      = .ok (acc ++ entsOf (assigns secs)) := by
  intro secs
  induction secs with
  | nil => intro acc _ _ _; simp [indexInts, streamSections, assigns, entsOf]
  | cons sec more ih =>
    intro acc hok hnd hk
    obtain ⟨s, es⟩ := sec
    obtain ⟨_, he⟩ := hok (s, es) (by simp)
    have hassign : assigns ((s, es) :: more) = assignsFrom s es ++ assigns more := by simp [assigns]
    rw [hassign] at hnd hk
    obtain ⟨t1, t2⟩ := streamRows_rows es s ((more.map fun s => rowBytes s.2).flatten) acc (assigns more) he hnd hk
    have hnd' : ((assigns more).map (·.1)).Nodup := by
      simp only [List.map_append] at hnd
      exact (List.nodup_append.mp hnd).2.1
    simp only [indexInts, List.map_cons, List.flatten_cons, List.cons_append, List.nil_append, streamSections,
      Int.toNat_natCast, t1]
    have := ih _ (fun sec' h' => hok sec' (by simp [h'])) hnd' t2
    simp only [indexInts] at this
    rw [this, hassign]
    simp [entsOf]

theorem intList_index (secs : List (Nat × List (Nat × Nat))) :
    intList (some (xrefStreamIndex secs)) = some (indexInts secs) := by
  simp only [xrefStreamIndex, intList, indexInts]
  induction secs with
  | nil => rfl
  | cons s rest ih =>
    obtain ⟨st, es⟩ := s
    simp only [List.map_cons, List.flatten_cons, List.cons_append, List.nil_append, List.mapM_cons]
    rw [ih]
    rfl

theorem rowCount_index (secs : List (Nat × List (Nat × Nat))) :
    rowCount (indexInts secs) = ((secs.map fun s => s.2.length).sum : Nat) := by
  induction secs with
  | nil => rfl
  | cons s rest ih =>
    simp only [indexInts, List.map_cons, List.flatten_cons, List.cons_append, List.nil_append, rowCount,
      List.sum_cons] at ih ⊢
    rw [ih]; simp

theorem index_shape (secs : List (Nat × List (Nat × Nat))) :
    (indexInts secs).length % 2 = 0 ∧ (indexInts secs).any (· < 0) = false := by
  induction secs with
  | nil => simp [indexInts]
  | cons s rest ih =>
    obtain ⟨i1, i2⟩ := ih
    simp only [indexInts, List.map_cons, List.flatten_cons, List.cons_append, List.nil_append, List.length_cons,
      List.any_cons] at i1 i2 ⊢
    refine ⟨by omega, ?_⟩
    rw [i2]
    simp

/-! ### the entries of a written cross-reference stream -/

def streamEntriesOf (x : XrefMap) (last : Nat) : List Entry := entsOf (assigns (streamSecs x last))

theorem keys_sublist_id (x : XrefMap) (l : List Nat) :
    ((l.filterMap (idAssign x (id : Nat × Nat → Nat × Nat))).map (·.1)).Sublist l := by
  induction l with
  | nil => simp
  | cons n rest ih =>
    simp only [List.filterMap_cons, idAssign]
    cases x.get n with
    | none => exact List.Sublist.cons _ ih
    | some e => exact List.Sublist.cons₂ _ ih

theorem assigns_streamSecs_nodup (x : XrefMap) (last : Nat) : ((assigns (streamSecs x last)).map (·.1)).Nodup := by
  rw [streamSecs_assigns]
  exact List.Nodup.sublist (keys_sublist_id x _) (List.nodup_range' 1)

theorem mem_streamEntriesOf (x : XrefMap) (last n off g : Nat) :
    (n, off, g) ∈ streamEntriesOf x last ↔ (1 ≤ n ∧ n ≤ last) ∧ x.get n = some (off, g) := by
  unfold streamEntriesOf entsOf
  rw [streamSecs_assigns]
  simp only [List.mem_map, List.mem_filterMap, List.mem_range'_1, idAssign, Prod.mk.injEq]
  constructor
  · rintro ⟨p, ⟨m, hm, hp⟩, h1, h2, h3⟩
    cases hx : x.get m with
    | none => simp [hx] at hp
    | some e =>
      simp [hx] at hp
      subst hp
      simp only at h1 h2 h3
      subst h1
      exact ⟨by omega, by rw [hx, ← h2, ← h3]⟩
  · rintro ⟨hr, hx⟩
    exact ⟨(n, (off, g)), ⟨n, by omega, by simp [hx]⟩, rfl, rfl, rfl⟩

theorem streamEntriesOf_nodup (x : XrefMap) (last : Nat) : ((streamEntriesOf x last).map (·.1)).Nodup := by
  unfold streamEntriesOf entsOf
  rw [List.map_map]
  exact assigns_streamSecs_nodup x last

/-- the cross-reference stream object is an object the strict reader can read back -/
theorem xrefObj_ok (d : SDoc) (out : Bytes) (d' : SDoc) (hk : d.xrefKind = .stream)
    (h : saveFrom [] d = some (out, d')) (hlen : out.length < 4294967296) (hmax : d.maxId + 2 ≤ 4294967295)
    (hg : GensOk d)
    (htr : WFObj (.dict d.trailer) ∧ height (.dict d.trailer) ≤ MAX_NESTING ∧ NoRealD d.trailer) :
    ObjOK (xrefObj d) := by
  obtain ⟨hout, _⟩ := saveFrom_stream_eq [] d out d' hk h
  obtain ⟨t1, t2, t3⟩ := htr
  simp only [WFObj, WF] at t1
  have hnd : d.trailer.keys.Nodup := t1.1
  have hclen : (xrefStreamContent (streamSecs (xmapStream [] d) (d.maxId + 1))).length ≤ 4294967296 := by
    have : (xrefStreamContent (streamSecs (xmapStream [] d) (d.maxId + 1))).length ≤ out.length := by
      rw [hout]
      simp only [List.length_append, writeIndirect, writeObj]
      omega
    omega
  have hvals : ∀ p ∈ d.trailer, ValOK p.2 := by
    intro p hp
    refine ⟨(WFD_iff d.trailer).mp t1.2 p hp, ?_, (NoRealD_iff d.trailer).mp t3 p hp⟩
    simp only [height] at t2
    exact (heightD_le_iff d.trailer (MAX_NESTING - 1)).mp (by omega) p hp
  have hsv := streamTrailer_values_ok [] d hmax hg hclen hvals
  obtain ⟨_, _, _, _, f5⟩ := streamTrailer_facts [] d hnd (.int 0)
  refine ⟨?_, ?_, (NoRealD_iff _).mpr (fun p hp => (hsv p hp).2.2), f5⟩
  · simp only [WFObj, WF]
    exact ⟨streamTrailer_nodup [] d hnd, (WFD_iff _).mpr (fun p hp => (hsv p hp).1)⟩
  · simp only [height]
    have := (heightD_le_iff (streamTrailer [] d) (MAX_NESTING - 1)).mpr (fun p hp => (hsv p hp).2.1)
    have : 2 ≤ MAX_NESTING := by decide
    omega

/-- **R2 on a written cross-reference stream**, appended to any prefix and read inside any
extension of the file -/
theorem sectionAt_streamP (pre : Bytes) (d : SDoc) (out : Bytes) (d' : SDoc) (R : Bytes) (hk : d.xrefKind = .stream)
    (h : saveFrom pre d = some (out, d')) (hlen : out.length < 4294967296) (hmax : d.maxId + 2 ≤ 4294967295)
    (hg : GensOk d)
    (htr : WFObj (.dict d.trailer) ∧ height (.dict d.trailer) ≤ MAX_NESTING ∧ NoRealD d.trailer)
    (pv : Option Nat) (hprev : prevOf (streamTrailer pre d) = .ok pv) :
    sectionAt (out ++ R) (bodyOf pre d).length
      = .ok (Rev.mk (streamEntriesOf (xmapStream pre d) (d.maxId + 1)) (streamTrailer pre d)
          ((bodyOf pre d).length + (writeIndirect (d.maxId + 1) 0 (xrefObjP pre d)).length) pv
          ((d.maxId + 1 + 1 : Nat) : Int) (some (d.maxId + 1))) := by
  obtain ⟨hout, _⟩ := saveFrom_stream_eq pre d out d' hk h
  have hokx := xrefObjP_ok pre d out d' hk h hlen hmax hg htr
  have hnd : d.trailer.keys.Nodup := by
    have := htr.1; simp only [WFObj, WF] at this; exact this.1
  have hb := body_le_out pre d out d' h
  have hbl : (bodyOf pre d).length < 4294967296 := by omega
  obtain ⟨tail, htail⟩ : ∃ t, t = STARTXREF_KW ++ natDigits (bodyOf pre d).length ++ EOF_KW ++ R := ⟨_, rfl⟩
  have e : out ++ R = bodyOf pre d ++ (writeIndirect (d.maxId + 1) 0 (xrefObjP pre d) ++ tail) := by
    rw [hout, htail]; simp only [xrefObjP, List.append_assoc]
  -- the dictionary
  obtain ⟨f1, f2, f3, f4, f5⟩ := streamTrailer_facts pre d hnd
    (.int (xrefStreamContent (streamSecs (xmapStream pre d) (d.maxId + 1))).length)
  rw [Dict_set_same _ _ _ f5] at f1 f2 f3 f4
  have hT : Dict.get (streamTrailer pre d) kType = some (.name XREF_NAME) := streamTrailer_get_type pre d hnd
  have hF : (Dict.get (streamTrailer pre d) kFilter).isSome = false := f1
  have hS : Dict.get (streamTrailer pre d) kSize = some (.int ((d.maxId + 1 + 1 : Nat) : Int)) := f2
  have hI : Dict.get (streamTrailer pre d) kIndex
      = some (xrefStreamIndex (streamSecs (xmapStream pre d) (d.maxId + 1))) := f3
  have hW : intList (Dict.get (streamTrailer pre d) kW) = some [1, 4, 2] := by
    have : kW = W_KEY := rfl
    rw [this, f4]
    simp [intList, XREF_W]
  -- the object
  have hobj := objectAt_written (bodyOf pre d) tail (d.maxId + 1) 0 (xrefObjP pre d) (fun _ => none) hokx
  rw [← e] at hobj
  have hdrop : (out ++ R).drop (bodyOf pre d).length
      = natDigits (d.maxId + 1) ++ 32 :: (natDigits 0 ++ 32 :: (111 :: 98 :: 106 :: 10 ::
          ((if needSeparator (xrefObjP pre d) then [32] else []) ++ (writeObj (xrefObjP pre d) ++ endObjTail (xrefObjP pre d) tail)))) := by
    rw [e, List.drop_left, writeIndirect_eq]
  obtain ⟨a, as, hda, hdig⟩ := FileRT.natDigits_head (d.maxId + 1)
  have hnx : stripPrefix XREF ((out ++ R).drop (bodyOf pre d).length) = none := by
    rw [hdrop, hda]
    have : ¬ (120 : UInt8) = a := fun e => (digit_not_ws a hdig).2.2 e.symm
    simp [XREF, stripPrefix, this]
  have hle : ¬ (bodyOf pre d).length > (out ++ R).length := by simp only [List.length_append]; omega
  -- rows
  have hsecs := streamSections_secs (streamSecs (xmapStream pre d) (d.maxId + 1)) []
    (streamSecs_ok _ _ (xmapStream_ok pre d hg) (by omega)) (assigns_streamSecs_nodup _ _) (by intro k _; rfl)
  rw [← xrefStreamContent_eq] at hsecs
  obtain ⟨ix1, ix2⟩ := index_shape (streamSecs (xmapStream pre d) (d.maxId + 1))
  have hrows : rowCount (indexInts (streamSecs (xmapStream pre d) (d.maxId + 1))) * (1 + 4 + 2)
      = ((xrefStreamContent (streamSecs (xmapStream pre d) (d.maxId + 1))).length : Int) := by
    rw [rowCount_index, xrefStreamContent_length]
    omega
  have hself : (streamEntriesOf (xmapStream pre d) (d.maxId + 1)).any
      (fun en => en.1 == d.maxId + 1 && en.2.1 == (bodyOf pre d).length) = true := by
    rw [List.any_eq_true]
    refine ⟨(d.maxId + 1, (bodyOf pre d).length, 0), ?_, by simp⟩
    rw [mem_streamEntriesOf]
    refine ⟨by omega, ?_⟩
    simp [xmapStream, XrefMap.get_insert_same, Nat.mod_eq_of_lt hbl]
  unfold sectionAt
  simp only [hle, if_false, hnx, streamSection]
  rw [hdrop, number_natDigits (d.maxId + 1) 32 _ (by omega) (by decide)]
  simp only
  rw [number_natDigits 0 32 _ (by omega) (by decide)]
  simp only [hobj, xrefObjP, hT, hF, hW, hS, hI, intList_index, hprev]
  have c1 : (!XREF_NAME == kXRef) = false := by decide
  have c2 : (decide ((1 : Int) < 0) || decide ((1 : Int) > 8) || decide ((4 : Int) < 0) || decide ((4 : Int) > 8)
      || decide ((2 : Int) < 0) || decide ((2 : Int) > 8)) = false := by decide
  have c3 : ((indexInts (streamSecs (xmapStream pre d) (d.maxId + 1))).length % 2 != 0 ||
      (indexInts (streamSecs (xmapStream pre d) (d.maxId + 1))).any fun x => decide (x < 0)) = false := by
    rw [ix1, ix2]; rfl
  have c4 : (rowCount (indexInts (streamSecs (xmapStream pre d) (d.maxId + 1))) * (1 + 4 + 2) !=
      ((xrefStreamContent (streamSecs (xmapStream pre d) (d.maxId + 1))).length : Int)) = false := by
    rw [hrows]; simp
  have t1 : Int.toNat 1 = 1 := rfl
  have t4 : Int.toNat 4 = 4 := rfl
  have t2 : Int.toNat 2 = 2 := rfl
  simp only [c1, c2, c3, c4, Bool.false_eq_true, if_false, t1, t4, t2, hsecs, List.nil_append]
  have hself' := hself
  unfold streamEntriesOf at hself'
  simp only [hself', if_true, streamEntriesOf]

/-- **R2 on a written cross-reference stream** (plain save) -/
theorem sectionAt_stream (d : SDoc) (out : Bytes) (d' : SDoc) (hk : d.xrefKind = .stream)
    (h : saveFrom [] d = some (out, d')) (hlen : out.length < 4294967296) (hmax : d.maxId + 2 ≤ 4294967295)
    (hg : GensOk d)
    (htr : WFObj (.dict d.trailer) ∧ height (.dict d.trailer) ≤ MAX_NESTING ∧ NoRealD d.trailer)
    (hprev : d.trailer.get PREV = none) :
    sectionAt out (bodyOf [] d).length
      = .ok (Rev.mk (streamEntriesOf (xmapStream [] d) (d.maxId + 1)) (streamTrailer [] d)
          ((bodyOf [] d).length + (writeIndirect (d.maxId + 1) 0 (xrefObj d)).length) none
          ((d.maxId + 1 + 1 : Nat) : Int) (some (d.maxId + 1))) := by
  have hnd : d.trailer.keys.Nodup := by
    have := htr.1; simp only [WFObj, WF] at this; exact this.1
  have hP : prevOf (streamTrailer [] d) = .ok none := by
    have : kPrev = PREV := rfl
    simp only [prevOf, this, streamTrailer_get_other [] d hnd PREV (by decide) (by decide) (by decide) (by decide)
      (by decide) (by decide), hprev]
  have := sectionAt_streamP [] d out d' [] hk h hlen hmax hg htr none hP
  simpa only [List.append_nil, ← xrefObj_eq] using this

/-- the writer's map (object loop) lists exactly the write-order entries -/
theorem xmap_entries_iff (pre : Bytes) (d : SDoc) (hwf : DocWF d) (hbl : (bodyOf pre d).length < 4294967296) (n off g : Nat) :
    (n, off, g) ∈ entriesOf d.objects (hdrOf pre d).length ↔
      (1 ≤ n ∧ n < d.maxId + 1) ∧ (xmapOf pre d).get n = some (off, g) := by
  have hbody : bodyOf pre d = hdrOf pre d ++ bytesOf d.objects := writeObjects_kept _ _ _ hwf.kept
  have hblen : (bodyOf pre d).length = (hdrOf pre d).length + (bytesOf d.objects).length := by rw [hbody]; simp
  constructor
  · intro he
    have hg := entriesOf_get d.objects (hdrOf pre d) [] hwf.nodup hwf.kept _ he
    obtain ⟨⟨p, hp, hp1, hp2⟩, hlt⟩ := mem_of_entriesOf d.objects _ _ he
    simp only at hp1 hp2 hlt hg
    rw [Nat.mod_eq_of_lt (by omega)] at hg
    obtain ⟨hr1, hr2⟩ := hwf.range p hp
    exact ⟨by omega, hg⟩
  · rintro ⟨_, hx⟩
    have hnum : n ∈ d.objects.map (·.1.1) := by
      cases hm : decide (n ∈ d.objects.map (·.1.1)) with
      | true => simpa using hm
      | false =>
        have hm' : n ∉ d.objects.map (·.1.1) := by simpa using hm
        have := writeObjects_get_other d.objects (hdrOf pre d) [] n hm'
        unfold xmapOf at hx
        rw [this] at hx
        simp [XrefMap.get] at hx
    obtain ⟨p, hp, hpn⟩ := List.mem_map.mp hnum
    obtain ⟨e, he, h1, h2⟩ := entriesOf_of_mem d.objects (hdrOf pre d).length p hp
    have hg := entriesOf_get d.objects (hdrOf pre d) [] hwf.nodup hwf.kept e he
    obtain ⟨_, hlt⟩ := mem_of_entriesOf d.objects _ e he
    rw [Nat.mod_eq_of_lt (by omega)] at hg
    have hen : e.1 = n := by rw [h1, hpn]
    rw [hen] at hg
    unfold xmapOf at hx
    rw [hx] at hg
    injection hg with hg
    injection hg with ho hg2
    obtain ⟨e1', e2', e3'⟩ := e
    simp only at hen ho hg2
    subst hen; subst ho; subst hg2
    exact he

/-- **`strict_ok`, cross-reference stream (C03).** As `strict_of_save_table` for documents saved
with a cross-reference stream (`Size = max_id + 2 ≤ u32::MAX`): the strict reader accepts the file
— the `/XRef` stream object lists itself at its own offset, `Length = rows × 7`, every byte is
accounted for — and returns exactly the saved objects, the version, the stream dictionary as
trailer, one revision, and the number of the cross-reference stream. -/
theorem strict_of_save_stream (d : SDoc) (out : Bytes) (d' : SDoc)
    (hk : d.xrefKind = .stream) (h : saveFrom [] d = some (out, d')) (hlen : out.length < 4294967296)
    (hmax : d.maxId + 2 ≤ 4294967295) (hwf : DocWF d)
    (hobjs : ∀ p ∈ d.objects, ObjOK p.2)
    (htr : WFObj (.dict d.trailer) ∧ height (.dict d.trailer) ≤ MAX_NESTING ∧ NoRealD d.trailer)
    (hv1 : ∀ b ∈ d.version, notEol b = true) (hprev : d.trailer.get PREV = none) :
    strictLoad out = .ok { version := d.version, objects := d.objects, trailer := d'.trailer, revisions := 1,
                            xrefStreamIds := [d.maxId + 1] } := by
  obtain ⟨hout, htr'⟩ := saveFrom_stream_eq [] d out d' hk h
  have hmark := saveFrom_mark [] d out d' h
  have hbody : bodyOf [] d = hdrOf [] d ++ bytesOf d.objects := writeObjects_kept _ _ _ hwf.kept
  have hhdr : hdrOf [] d = PDF_KW ++ (d.version ++ 10 :: 37 :: (d.binaryMark ++ [10])) := by simp [hdrOf]
  have hb := body_le_out [] d out d' h
  have hbl : (bodyOf [] d).length < 4294967296 := by omega
  obtain ⟨tail, htail⟩ : ∃ t, t = STARTXREF_KW ++ natDigits (bodyOf [] d).length ++ EOF_KW := ⟨_, rfl⟩
  obtain ⟨wi, hwi⟩ : ∃ w, w = writeIndirect (d.maxId + 1) 0 (xrefObj d) := ⟨_, rfl⟩
  have e1 : out = bodyOf [] d ++ (wi ++ tail) := by
    rw [hout, htail, hwi]; simp only [xrefObj, List.append_assoc]
  have e2 : out = (bodyOf [] d ++ wi) ++ STARTXREF_KW ++ natDigits (bodyOf [] d).length ++ EOF_KW := by
    rw [hout, hwi]; simp only [xrefObj, List.append_assoc]
  have e3 : out = hdrOf [] d ++ (bytesOf d.objects ++ (wi ++ tail)) := by
    rw [e1, hbody]; simp only [List.append_assoc]
  have hlast : lastXref out = .ok (bodyOf [] d).length := by
    rw [e2]; exact lastXref_tail _ _ (by omega)
  have hsec := sectionAt_stream d out d' hk h hlen hmax hwf.gens htr hprev
  rw [← hwi] at hsec
  have hsecEnd : (bodyOf [] d).length + wi.length = (bodyOf [] d ++ wi).length := by simp
  have htl : tailAt out ((bodyOf [] d).length + wi.length) (bodyOf [] d).length = .ok out.length := by
    rw [hsecEnd]
    have := tailAt_tail (bodyOf [] d ++ wi) (bodyOf [] d).length
    rw [← e2] at this
    exact this
  have hhead : headerAt out = .ok (d.version, bytesOf d.objects ++ (wi ++ tail)) := by
    rw [e3, hhdr]
    have := headerAt_saved d.version d.binaryMark (bytesOf d.objects ++ (wi ++ tail)) hv1 hmark
    simpa [List.append_assoc] using this
  have hobjStart : out.length - (bytesOf d.objects ++ (wi ++ tail)).length = (hdrOf [] d).length := by
    rw [e3]; simp only [List.length_append]; omega
  have hsize : sizeOk (Rev.mk (streamEntriesOf (xmapStream [] d) (d.maxId + 1)) (streamTrailer [] d)
      ((bodyOf [] d).length + wi.length) none ((d.maxId + 1 + 1 : Nat) : Int) (some (d.maxId + 1))) = true := by
    simp only [sizeOk, List.all_eq_true, decide_eq_true_eq]
    intro e he
    obtain ⟨n, off, g⟩ := e
    have := ((mem_streamEntriesOf _ _ n off g).mp he).1
    simp only; omega
  -- the entries of the document's objects: all but the stream's own
  have hents_nodup : (((streamEntriesOf (xmapStream [] d) (d.maxId + 1)).filter
      (fun e => some e.1 != some (d.maxId + 1))).map (·.1)).Nodup :=
    List.Nodup.sublist (List.Sublist.map _ List.filter_sublist) (streamEntriesOf_nodup _ _)
  have hiff : ∀ e, e ∈ (streamEntriesOf (xmapStream [] d) (d.maxId + 1)).filter
      (fun e => some e.1 != some (d.maxId + 1)) ↔ e ∈ entriesOf d.objects (hdrOf [] d).length := by
    intro e
    obtain ⟨n, off, g⟩ := e
    rw [List.mem_filter, mem_streamEntriesOf, xmap_entries_iff [] d hwf hbl]
    simp only [bne_iff_ne, ne_eq, Option.some.injEq]
    constructor
    · rintro ⟨⟨hr, hx⟩, hn⟩
      simp only [xmapStream, XrefMap.get_insert_other _ _ _ _ hn] at hx
      exact ⟨by omega, hx⟩
    · rintro ⟨hr, hx⟩
      have hn : n ≠ d.maxId + 1 := by omega
      exact ⟨⟨by omega, by simp only [xmapStream, XrefMap.get_insert_other _ _ _ _ hn]; exact hx⟩, hn⟩
  have hwalk := walk_written (resolveIn out (streamEntriesOf (xmapStream [] d) (d.maxId + 1))) d.objects (hdrOf [] d)
    (wi ++ tail) _ [] (out.length + 1) hobjs hents_nodup hiff
    (by
      have : d.objects.length ≤ (bytesOf d.objects).length := by
        clear hiff hents_nodup hsize hobjStart hhead
        generalize d.objects = os
        induction os with
        | nil => simp [bytesOf]
        | cons q r ih =>
          have := writeIndirect_pos q.1.1 q.1.2 q.2
          simp only [bytesOf, List.map_cons, List.flatten_cons, List.length_append, List.length_cons] at ih ⊢
          omega
      rw [e3]; simp only [List.length_append]; omega)
  rw [← e3] at hwalk
  have hstop : (hdrOf [] d).length + (bytesOf d.objects).length = (bodyOf [] d).length := by
    rw [hbody]; simp
  rw [hstop] at hwalk
  have hrev : revisions out (out.length + 1) (bodyOf [] d).length
      = .ok ([RevData.mk (Rev.mk (streamEntriesOf (xmapStream [] d) (d.maxId + 1)) (streamTrailer [] d)
                ((bodyOf [] d).length + wi.length) none ((d.maxId + 1 + 1 : Nat) : Int) (some (d.maxId + 1)))
              d.objects], d.version, out.length) := by
    unfold revisions
    simp only [hsec, htl, hsize, Bool.not_true, Bool.false_eq_true, if_false, hhead, hobjStart, hwalk,
      List.reverse_nil, List.nil_append]
  have hfresh : d.objects.filter (fun p => !([d.maxId + 1].contains p.1.1)) = d.objects := by
    rw [List.filter_eq_self]
    intro p hp
    have := (hwf.range p hp).2
    have hne : ¬ (p.1.1 = d.maxId + 1) := by omega
    simp [hne]
  have hnd0 : d.trailer.keys.Nodup := by
    have := htr.1; simp only [ObjRt.WFObj, ObjRt.WF] at this; exact this.1
  obtain ⟨_, fS, _, _, f5⟩ := streamTrailer_facts [] d hnd0
    (.int (xrefStreamContent (streamSecs (xmapStream [] d) (d.maxId + 1))).length)
  rw [Dict_set_same _ _ _ f5] at fS
  have hks : Dict.get (streamTrailer [] d) kSize = some (.int ((d.maxId + 1 + 1 : Nat) : Int)) := fS
  have hallsz : ((List.filter (fun p => ![d.maxId + 1].contains p.fst.fst) d.objects).all
      fun p => decide (((p.1.1 : Nat) : Int) < ((d.maxId + 1 + 1 : Nat) : Int))) = true := by
    rw [List.all_eq_true]
    intro p hp
    have := (hwf.range p (List.mem_filter.mp hp).1).2
    simp only [decide_eq_true_eq]; omega
  unfold strictLoad
  simp only [hlast, hrev, bne_self_eq_false, Bool.false_eq_true, if_false, mergeRevs, List.length_singleton,
    List.filterMap_cons, List.filterMap_nil, htr', hks]
  simp only [List.contains_nil, Bool.not_false, List.nil_append, List.append_nil, hallsz, Bool.not_true, Bool.false_eq_true, if_false]
  have hall : ∀ (a b : Nat) (o : Obj), ((a, b), o) ∈ d.objects → ¬ a = d.maxId + 1 := by
    intro a b o hm
    have := (hwf.range _ hm).2
    simp only at this; omega
  simpa using hall

end Lopdf.Strict
