import LopdfModel.Model.Outline
import LopdfModel.Spec.Outline
/-
  C17 — property theorems (see props/C17.json for the reading guide).
-/
namespace Lopdf
open Gen

/-! ## association-list facts -/

theorem Proc.get_put (p : Proc) (k q : ObjId) (d : Dict) :
    (p.put k d).get q = if k = q then some d else p.get q := by
  simp [Proc.put, Proc.get]

theorem Proc.get_modify (p : Proc) (x q : ObjId) (f : Dict → Dict) :
    (p.modify x f).get q = if q = x then (p.get x).map f else p.get q := by
  induction p with
  | nil => simp [Proc.modify, Proc.get]
  | cons e r ih =>
    obtain ⟨k, d⟩ := e
    by_cases hk : k = x
    · subst hk
      by_cases hq : q = k
      · subst hq; simp [Proc.modify, Proc.get]
      · have : ¬ k = q := fun h => hq h.symm
        simp [Proc.modify, Proc.get, hq, this]
    · by_cases hq : q = x
      · subst hq; simp [Proc.modify, Proc.get, hk, ih]
      · simp only [Proc.modify, hk, if_false, Proc.get, ih, hq]

/-! ## the abstract outline an embedded forest must look like -/

def firstId (ts : List BT) (m : Nat) : Option ObjId :=
  match ts with
  | [] => none
  | _ :: _ => some (m + 1, 0)

/-- object id of the last tree of a sibling list whose first tree has number `m + 1` -/
def lastId : List BT → Nat → Option ObjId
  | [], _ => none
  | t :: ts, m =>
    match lastId ts (m + 2 * t.size) with
    | some l => some l
    | none => some (m + 1, 0)

/-- the item dictionary of bookmark `t` whose object number is `m + 1`: exactly the keys the
links require — `Parent`, the previous sibling (if any), first/last child and their number (if any),
the next sibling (if any) — in the order the code sets them. -/
def itemDictOf (parent : ObjId) (t : BT) (m : Nat) (prev next : Option ObjId) : Dict :=
  match t with
  | .node _ title f c _ kids =>
    let d1 := setOpt (baseItem parent title f c (m + 2, 0)) OL_PREV prev
    let d2 := if kids.isEmpty then d1
      else (setOpt (setOpt d1 OL_FIRST (firstId kids (m + 2))) OL_LAST (lastId kids (m + 2))).set OL_COUNT
        (.int kids.length)
    setOpt d2 OL_NEXT next

/- `EmbL g m parent prev ts`: the object lookup `g` holds the forest `ts` as a sibling chain under
`parent`, the first tree having object number `m + 1` and previous sibling `prev`; every bookmark
takes two consecutive numbers (item, action), children follow their parent (preorder numbering). -/
mutual
def EmbN (g : ObjId → Option Dict) (m : Nat) (parent : ObjId) (prev next : Option ObjId) : BT → Prop
  | .node id title f c page kids =>
    g (m + 1, 0) = some (itemDictOf parent (.node id title f c page kids) m prev next) ∧
    g (m + 2, 0) = some (infoDict page) ∧
    EmbL g (m + 2) (m + 1, 0) none kids
def EmbL (g : ObjId → Option Dict) (m : Nat) (parent : ObjId) (prev : Option ObjId) : List BT → Prop
  | [] => True
  | t :: ts =>
    EmbN g m parent prev (firstId ts (m + 2 * t.size)) t ∧
    EmbL g (m + 2 * t.size) parent (some (m + 1, 0)) ts
end

theorem BT.size_pos (t : BT) : 0 < t.size := by
  cases t; simp [BT.size]; omega

theorem BT.sizeL_eq_zero {ts : List BT} (h : BT.sizeL ts = 0) : ts = [] := by
  cases ts with
  | nil => rfl
  | cons t r => have := BT.size_pos t; simp [BT.sizeL] at h; omega

/-- `EmbL` only looks at the object numbers `m+1 … m+2·size`. -/
theorem EmbL_congr : ∀ (n : Nat) (ts : List BT), BT.sizeL ts ≤ n →
    ∀ (g g' : ObjId → Option Dict) (m : Nat) (parent : ObjId) (prev : Option ObjId),
      (∀ k, m < k → k ≤ m + 2 * BT.sizeL ts → g' (k, 0) = g (k, 0)) →
      EmbL g m parent prev ts → EmbL g' m parent prev ts := by
  intro n
  induction n with
  | zero =>
    intro ts h; have := BT.sizeL_eq_zero (Nat.le_zero.mp h); subst this
    intros; simp [EmbL]
  | succ n ih =>
    intro ts hsz g g' m parent prev hg hE
    cases ts with
    | nil => simp [EmbL]
    | cons t r =>
      cases t with
      | node id title f c page kids =>
        simp only [EmbL, EmbN, BT.sizeL, BT.size] at hE hsz hg ⊢
        obtain ⟨⟨h1, h2, h3⟩, h4⟩ := hE
        refine ⟨⟨?_, ?_, ?_⟩, ?_⟩
        · rw [hg (m + 1) (by omega) (by omega)]; exact h1
        · rw [hg (m + 2) (by omega) (by omega)]; exact h2
        · exact ih kids (by omega) g g' (m + 2) _ _ (fun k a b => hg k (by omega) (by omega)) h3
        · exact ih r (by omega) g g' _ _ _ (fun k a b => hg k (by omega) (by omega)) h4

/-! ## the table represents a forest -/

theorem repL_nil_right {t : BmTable} {ids : List Nat} (h : repL t ids [] = true) : ids = [] := by
  cases ids with
  | nil => rfl
  | cons a b => simp [repL] at h

theorem repL_cons_right {t : BmTable} {ids : List Nat} {id : Nat} {title : List Nat} {f : Nat}
    {c : List Bytes} {page : ObjId} {kids ns : List BT}
    (h : repL t ids (.node id title f c page kids :: ns) = true) :
    ∃ i is b, ids = i :: is ∧ t.get i = some b ∧ b.title = title ∧ b.format = f ∧ b.color = c ∧
      b.page = page ∧ repL t b.children kids = true ∧ repL t is ns = true := by
  cases ids with
  | nil => simp [repL] at h
  | cons i is =>
    simp only [repL, repN, Bool.and_eq_true] at h
    obtain ⟨h1, h2⟩ := h
    cases hb : t.get i with
    | none => simp [hb] at h1
    | some b =>
      simp only [hb, Bool.and_eq_true, decide_eq_true_eq] at h1
      obtain ⟨⟨⟨⟨⟨_, a2⟩, a3⟩, a4⟩, a5⟩, a6⟩ := h1
      exact ⟨i, is, b, rfl, hb, a2, a3, a4, a5, a6, h2⟩

theorem repL_length {t : BmTable} : ∀ {ts : List BT} {ids : List Nat}, repL t ids ts = true → ids.length = ts.length := by
  intro ts
  induction ts with
  | nil => intro ids h; simp [repL_nil_right h]
  | cons n ns ih =>
    intro ids h
    cases ids with
    | nil => simp [repL] at h
    | cons i is =>
      simp only [repL, Bool.and_eq_true] at h
      simp [ih h.2]

/-! ## `outline_child` on a represented forest -/

/-- `processed` after the link step -/
def patched (last : Option ObjId) (pr : Proc) (id : ObjId) : Proc :=
  match last with
  | some x => pr.modify x (fun d => d.set OL_NEXT (oref id))
  | none => pr

theorem linkStep_eq (first last : Option ObjId) (pr : Proc) (child : Dict) (id : ObjId)
    (hfl : first.isSome = last.isSome) (hl : ∀ x, last = some x → (pr.get x).isSome = true) :
    linkStep first last pr child id =
      some ((if first.isSome then first else some id),
            patched last pr id,
            setOpt child OL_PREV last) := by
  cases first with
  | none =>
    cases last with
    | none => simp [linkStep, setOpt, patched]
    | some x => simp at hfl
  | some y =>
    cases last with
    | none => simp at hfl
    | some x =>
      have := hl x rfl
      cases hx : pr.get x with
      | none => simp [hx] at this
      | some d => simp [linkStep, hx, setOpt, patched]

theorem patched_get (last : Option ObjId) (pr : Proc) (id q : ObjId) :
    (patched last pr id).get q =
      if last = some q then (pr.get q).map (fun d => d.set OL_NEXT (oref id)) else pr.get q := by
  cases last with
  | none => simp [patched]
  | some x =>
    simp only [patched, Proc.get_modify]
    by_cases h : q = x
    · subst h; simp
    · have : ¬ x = q := fun e => h e.symm
      simp [h, this]

theorem lastId_none_iff (ts : List BT) (m : Nat) : lastId ts m = none ↔ ts = [] := by
  cases ts with
  | nil => simp [lastId]
  | cons t r => simp only [lastId]; split <;> simp

/-- Main invariant of the `outline_child` loop.  For a table that represents the forest `ts`
at the ids `ids`, any fuel ≥ the forest's size, any counter `m`, parent, and any loop state whose
`last` (if present) is an already inserted object with number ≤ m:
the loop finishes, advances the counter by two per bookmark, returns the first and last sibling ids,
leaves every older object alone except that it patches `Next` into `last`, and the objects it
created embed the forest (`EmbL`). -/
theorem ocLoop_spec (t : BmTable) : ∀ (fuel : Nat) (ts : List BT) (ids : List Nat) (m : Nat) (parent : ObjId)
    (first last : Option ObjId) (pr : Proc),
    repL t ids ts = true → BT.sizeL ts ≤ fuel → first.isSome = last.isSome →
    (∀ x, last = some x → x.1 ≤ m ∧ (pr.get x).isSome = true) →
    ∃ pr', ocLoop t fuel m parent ids first last pr =
        some (m + 2 * BT.sizeL ts, (if first.isSome then first else firstId ts m),
              (match lastId ts m with | some l => some l | none => last), pr') ∧
      (∀ q, q.1 ≤ m → last ≠ some q → pr'.get q = pr.get q) ∧
      (∀ x, last = some x → pr'.get x = (pr.get x).map (fun d => setOpt d OL_NEXT (firstId ts m))) ∧
      EmbL pr'.get m parent last ts := by
  intro fuel
  induction fuel with
  | zero =>
    intro ts ids m parent first last pr hrep hsz hfl hl
    have := BT.sizeL_eq_zero (Nat.le_zero.mp hsz); subst this
    have := repL_nil_right hrep; subst this
    refine ⟨pr, ?_, ?_, ?_, ?_⟩
    · cases first <;> simp [ocLoop, BT.sizeL, firstId, lastId]
    · intros; rfl
    · intro x hx; simp [firstId, setOpt]
    · simp [EmbL]
  | succ f ih =>
    intro ts ids m parent first last pr hrep hsz hfl hl
    cases ts with
    | nil =>
      have := repL_nil_right hrep; subst this
      refine ⟨pr, ?_, ?_, ?_, ?_⟩
      · cases first <;> simp [ocLoop, BT.sizeL, firstId, lastId]
      · intros; rfl
      · intro x hx; simp [firstId, setOpt]
      · simp [EmbL]
    | cons tr r =>
      cases tr with
      | node bid title fm col page kids =>
        obtain ⟨i, is, b, hids, hget, htitle, hfm, hcol, hpage, hrk, hrr⟩ := repL_cons_right hrep
        subst hids
        simp only [BT.sizeL, BT.size] at hsz
        have hlk := repL_length hrk
        -- the link step
        have hls := linkStep_eq first last pr (baseItem parent b.title b.format b.color (m + 2, 0)) (m + 1, 0) hfl
          (fun x hx => (hl x hx).2)
        -- common tail: given the state after the children, finish with the remaining siblings
        have finish : ∀ (pr2 : Proc) (m' : Nat) (child2 : Dict),
            m' = m + 2 + 2 * BT.sizeL kids →
            setOpt child2 OL_NEXT (firstId r m') =
              itemDictOf parent (.node bid title fm col page kids) m last (firstId r m') →
            (∀ q, q.1 ≤ m + 2 → pr2.get q = (patched last pr (m + 1, 0)).get q) →
            EmbL pr2.get (m + 2) (m + 1, 0) none kids →
            ∃ pr', ocLoop t f m' parent is (if first.isSome then first else some (m + 1, 0)) (some (m + 1, 0))
                ((pr2.put (m + 1, 0) child2).put (m + 2, 0) (infoDict b.page)) =
              some (m + 2 * (1 + BT.sizeL kids + BT.sizeL r), (if first.isSome then first else some (m + 1, 0)),
                (match lastId r m' with | some l => some l | none => some (m + 1, 0)), pr') ∧
              (∀ q, q.1 ≤ m → last ≠ some q → pr'.get q = pr.get q) ∧
              (∀ x, last = some x → pr'.get x = (pr.get x).map (fun d => setOpt d OL_NEXT (some (m + 1, 0)))) ∧
              EmbL pr'.get m parent last (.node bid title fm col page kids :: r) := by
          intro pr2 m' child2 hm' hchild hfr hek
          have hcall := ih r is m' parent (if first.isSome then first else some (m + 1, 0)) (some (m + 1, 0))
            ((pr2.put (m + 1, 0) child2).put (m + 2, 0) (infoDict b.page)) hrr (by omega)
            (by cases first <;> simp)
            (by intro x hx; cases hx; refine ⟨by simp; omega, ?_⟩; simp [Proc.get_put])
          obtain ⟨pr', hrun, hframe, hpatch, hemb⟩ := hcall
          refine ⟨pr', ?_, ?_, ?_, ?_⟩
          · rw [hrun]
            have e : m' + 2 * BT.sizeL r = m + 2 * (1 + BT.sizeL kids + BT.sizeL r) := by omega
            cases first <;> simp [e]
          · intro q hq hne
            rw [hframe q (by omega) (by intro e; cases e; simp at hq; omega)]
            have h1 : ¬ ((m + 2, 0) : ObjId) = q := by intro e; subst e; simp at hq; omega
            have h2 : ¬ ((m + 1, 0) : ObjId) = q := by intro e; subst e; simp at hq; omega
            simp only [Proc.get_put, h1, h2, if_false]
            rw [hfr q (by omega), patched_get]
            simp [hne]
          · intro x hx
            have hxm := (hl x hx).1
            rw [hframe x (by omega) (by intro e; cases e; simp at hxm; omega)]
            have h1 : ¬ ((m + 2, 0) : ObjId) = x := by intro e; subst e; simp at hxm; omega
            have h2 : ¬ ((m + 1, 0) : ObjId) = x := by intro e; subst e; simp at hxm; omega
            simp only [Proc.get_put, h1, h2, if_false]
            rw [hfr x (by omega), patched_get]
            simp [hx, setOpt]
          · simp only [EmbL, EmbN, BT.size]
            have hm2 : m + 2 * (1 + BT.sizeL kids) = m' := by omega
            rw [hm2]
            refine ⟨⟨?_, ?_, ?_⟩, hemb⟩
            · rw [hpatch (m + 1, 0) rfl]
              have h1 : ¬ ((m + 2, 0) : ObjId) = (m + 1, 0) := by simp
              simp only [Proc.get_put, h1, if_false, if_true, Option.map]
              rw [hchild]
            · rw [hframe (m + 2, 0) (by simp; omega) (by simp)]
              simp [Proc.get_put, hpage]
            · refine EmbL_congr _ kids (Nat.le_refl _) pr2.get pr'.get (m + 2) _ _ ?_ hek
              intro k hk1 hk2
              rw [hframe (k, 0) (by simp; omega) (by simp; omega)]
              have h1 : ¬ ((m + 2, 0) : ObjId) = (k, 0) := by simp; omega
              have h2 : ¬ ((m + 1, 0) : ObjId) = (k, 0) := by simp; omega
              simp only [Proc.get_put, h1, h2, if_false]
        -- unfold one iteration
        rw [ocLoop]
        simp only [hget, hls]
        have hgoal_first : (if first.isSome then first else firstId (.node bid title fm col page kids :: r) m) =
            (if first.isSome then first else some (m + 1, 0)) := by simp [firstId]
        have hgoal_last : ∀ m', m' = m + 2 + 2 * BT.sizeL kids →
            (match lastId (.node bid title fm col page kids :: r) m with | some l => some l | none => last) =
            (match lastId r m' with | some l => some l | none => some (m + 1, 0)) := by
          intro m' hm'
          have : m + 2 * (1 + BT.sizeL kids) = m' := by omega
          simp only [lastId, BT.size, this]
          cases lastId r m' <;> simp
        cases kids with
        | nil =>
          have hbc := repL_nil_right hrk
          simp only [hbc, List.isEmpty_nil, if_true]
          obtain ⟨pr', hrun, h2, h3, h4⟩ := finish (patched last pr (m + 1, 0)) (m + 2)
            (setOpt (baseItem parent b.title b.format b.color (m + 2, 0)) OL_PREV last)
            (by simp [BT.sizeL])
            (by simp [itemDictOf, htitle, hfm, hcol])
            (fun q _ => rfl) (by simp [EmbL])
          refine ⟨pr', ?_, h2, ?_, h4⟩
          ·
            rw [hrun, hgoal_first, hgoal_last (m + 2) (by simp [BT.sizeL])]
            simp [BT.sizeL, BT.size]
          · intro x hx; rw [h3 x hx]; simp [firstId]
        | cons k ks =>
          have hne : b.children.isEmpty = false := by
            cases hb : b.children with
            | nil => rw [hb] at hrk; simp [repL] at hrk
            | cons _ _ => rfl
          simp only [hne]
          obtain ⟨pr2, hrun2, hframe2, _, hemb2⟩ := ih (k :: ks) b.children (m + 2) (m + 1, 0) none none
            (patched last pr (m + 1, 0)) hrk (by omega) rfl (by intro x hx; cases hx)
          simp only [Bool.false_eq_true, if_false, hrun2]
          obtain ⟨pr', hrun, h2, h3, h4⟩ := finish pr2 (m + 2 + 2 * BT.sizeL (k :: ks))
            ((setOpt (setOpt (setOpt (baseItem parent b.title b.format b.color (m + 2, 0)) OL_PREV last) OL_FIRST
              (firstId (k :: ks) (m + 2))) OL_LAST (match lastId (k :: ks) (m + 2) with | some l => some l | none => none)).set
              OL_COUNT (.int b.children.length))
            rfl
            (by
              have : (match lastId (k :: ks) (m + 2) with | some l => some l | none => none) = lastId (k :: ks) (m + 2) := by
                cases lastId (k :: ks) (m + 2) <;> rfl
              simp [itemDictOf, htitle, hfm, hcol, this, hlk])
            (fun q hq => hframe2 q hq (by simp)) hemb2
          refine ⟨pr', ?_, h2, ?_, h4⟩
          · simp only [Option.isSome_none, Bool.false_eq_true, if_false] at hrun ⊢
            rw [hrun, hgoal_first, hgoal_last _ rfl]
            simp [BT.sizeL, BT.size]
          · intro x hx; rw [h3 x hx]; simp [firstId]

/-! ## `build_outline` -/

/-- the outline root dictionary `build_outline` creates -/
def rootDict (ts : List BT) (m : Nat) : Dict :=
  (setOpt (setOpt [] OLR_FIRST (firstId ts m)) OLR_LAST (lastId ts m)).set OLR_COUNT (.int ts.length)

/-- **outline_links.** For every bookmark table that represents a forest `ts` (any depth, fan-out;
`rep_addAll` below shows every sequence of `add_bookmark` calls yields such a table), every old
`max_id` and all sufficient fuel, `build_outline` succeeds, the root gets number `max_id + 1`,
`max_id` advances by `1 + 2·#bookmarks`, the root dictionary has First/Last/Count of the top level,
and the created objects embed the forest: `EmbL` states for every bookmark — at every depth — that its
item dictionary is exactly {Parent = its parent, Title, A → its action [page /Fit] /GoTo, F, C,
Prev = previous sibling iff one exists, First/Last/Count = first/last/number of children iff it has
children, Next = next sibling iff one exists}, siblings in insertion order, preorder numbering. -/
theorem outline_links (s : BmState) (ts : List BT) (maxId fuel : Nat)
    (hrep : repL s.table s.roots ts = true) (hne : ts ≠ []) (hfuel : BT.sizeL ts ≤ fuel) :
    ∃ b, buildOutline fuel s maxId = some (some b) ∧ b.root = (maxId + 1, 0) ∧
      b.maxId = maxId + 1 + 2 * BT.sizeL ts ∧
      b.objs.get (maxId + 1, 0) = some (rootDict ts (maxId + 1)) ∧
      EmbL b.objs.get (maxId + 1) (maxId + 1, 0) none ts := by
  obtain ⟨pr', hrun, _, _, hemb⟩ := ocLoop_spec s.table fuel ts s.roots (maxId + 1) (maxId + 1, 0) none none []
    hrep hfuel rfl (by intro x hx; cases hx)
  have hroots : s.roots.isEmpty = false := by
    have := repL_length hrep
    cases hr : s.roots with
    | nil => rw [hr] at this; cases ts with
      | nil => exact absurd rfl hne
      | cons _ _ => simp at this
    | cons _ _ => rfl
  have hl : (match lastId ts (maxId + 1) with | some l => some l | none => none) = lastId ts (maxId + 1) := by
    cases lastId ts (maxId + 1) <;> rfl
  simp only [Option.isSome_none, Bool.false_eq_true, if_false, hl] at hrun
  refine ⟨{ root := (maxId + 1, 0), maxId := maxId + 1 + 2 * BT.sizeL ts,
             objs := pr'.put (maxId + 1, 0) (rootDict ts (maxId + 1)) }, ?_, rfl, rfl, ?_, ?_⟩
  · simp only [buildOutline, hroots, Bool.false_eq_true, if_false, hrun, rootDict, repL_length hrep]
  · simp [Proc.get_put]
  · refine EmbL_congr _ ts (Nat.le_refl _) pr'.get _ (maxId + 1) _ _ ?_ hemb
    intro k hk _
    have : ¬ ((maxId + 1, 0) : ObjId) = (k, 0) := by simp; omega
    simp [Proc.get_put, this]

/-! ## fresh, pairwise distinct identifiers -/

def Proc.keys (p : Proc) : List ObjId := p.map (·.1)

theorem Proc.keys_modify (p : Proc) (x : ObjId) (f : Dict → Dict) : (p.modify x f).keys = p.keys := by
  induction p with
  | nil => rfl
  | cons e r ih =>
    obtain ⟨k, d⟩ := e
    simp only [Proc.modify]
    split
    · simp [Proc.keys]
    · simp only [Proc.keys, List.map_cons] at ih ⊢; rw [ih]

theorem Proc.keys_put (p : Proc) (k : ObjId) (d : Dict) : (p.put k d).keys = k :: p.keys := rfl

theorem linkStep_keys {first last : Option ObjId} {pr pr1 : Proc} {child c1 : Dict} {id : ObjId}
    {f' : Option ObjId} (h : linkStep first last pr child id = some (f', pr1, c1)) : pr1.keys = pr.keys := by
  unfold linkStep at h
  split at h
  · cases h; rfl
  · split at h
    · split at h
      · cases h
      · cases h; exact Proc.keys_modify _ _ _
    · cases h; rfl

/-- Whatever the table: if the `outline_child` loop finishes, the counter only grows, every key of
`processed` is an old key or a generation-0 id with a number in `(m, m']`, and distinct keys stay
distinct (no identifier is handed out twice, none collides with an existing one). -/
theorem ocLoop_keys (t : BmTable) : ∀ (fuel m : Nat) (parent : ObjId) (ids : List Nat) (first last : Option ObjId)
    (pr : Proc) (m' : Nat) (f' l' : Option ObjId) (pr' : Proc),
    ocLoop t fuel m parent ids first last pr = some (m', f', l', pr') →
    m ≤ m' ∧ (∀ k ∈ pr'.keys, k ∈ pr.keys ∨ (k.2 = 0 ∧ m < k.1 ∧ k.1 ≤ m')) ∧
    ((∀ k ∈ pr.keys, k.1 ≤ m) → pr.keys.Nodup → pr'.keys.Nodup) := by
  intro fuel
  induction fuel with
  | zero =>
    intro m parent ids first last pr m' f' l' pr' h
    cases ids with
    | nil => simp only [ocLoop, Option.some.injEq, Prod.mk.injEq] at h; obtain ⟨rfl, _, _, rfl⟩ := h
             exact ⟨Nat.le_refl _, fun k hk => Or.inl hk, fun _ hn => hn⟩
    | cons i rest => simp [ocLoop] at h
  | succ f ih =>
    intro m parent ids first last pr m' f' l' pr' h
    cases ids with
    | nil => simp only [ocLoop, Option.some.injEq, Prod.mk.injEq] at h; obtain ⟨rfl, _, _, rfl⟩ := h
             exact ⟨Nat.le_refl _, fun k hk => Or.inl hk, fun _ hn => hn⟩
    | cons i rest =>
      rw [ocLoop] at h
      cases hb : t.get i with
      | none => simp [hb] at h
      | some b =>
        simp only [hb] at h
        cases hls : linkStep first last pr (baseItem parent b.title b.format b.color (m + 2, 0)) (m + 1, 0) with
        | none => simp [hls] at h
        | some res =>
          obtain ⟨first', pr1, child1⟩ := res
          have hk1 := linkStep_keys hls
          simp only [hls] at h
          -- the state handed to the remaining siblings, for any `pr2` whose keys are old or in (m+2, m1]
          have tail : ∀ (pr2 : Proc) (m1 : Nat) (child2 : Dict), m + 2 ≤ m1 →
              (∀ k ∈ pr2.keys, k ∈ pr.keys ∨ (k.2 = 0 ∧ m + 2 < k.1 ∧ k.1 ≤ m1)) →
              ((∀ k ∈ pr.keys, k.1 ≤ m) → pr.keys.Nodup → pr2.keys.Nodup) →
              ocLoop t f m1 parent rest first' (some (m + 1, 0))
                ((pr2.put (m + 1, 0) child2).put (m + 2, 0) (infoDict b.page)) = some (m', f', l', pr') →
              m ≤ m' ∧ (∀ k ∈ pr'.keys, k ∈ pr.keys ∨ (k.2 = 0 ∧ m < k.1 ∧ k.1 ≤ m')) ∧
                ((∀ k ∈ pr.keys, k.1 ≤ m) → pr.keys.Nodup → pr'.keys.Nodup) := by
            intro pr2 m1 child2 hm1 hin hnd hrun
            obtain ⟨a1, a2, a3⟩ := ih _ _ _ _ _ _ _ _ _ _ hrun
            refine ⟨by omega, ?_, ?_⟩
            · intro k hk
              rcases a2 k hk with h1 | ⟨h1, h2, h3⟩
              · simp only [Proc.keys_put, List.mem_cons] at h1
                rcases h1 with rfl | rfl | h1
                · right; simp; omega
                · right; simp; omega
                · rcases hin k h1 with h4 | ⟨h4, h5, h6⟩
                  · exact Or.inl h4
                  · right; exact ⟨h4, by omega, by omega⟩
              · right; exact ⟨h1, by omega, h3⟩
            · intro hle hn
              apply a3
              · intro k hk
                simp only [Proc.keys_put, List.mem_cons] at hk
                rcases hk with rfl | rfl | hk
                · simp; omega
                · simp; omega
                · rcases hin k hk with h4 | ⟨_, _, h6⟩
                  · have := hle k h4; omega
                  · exact h6
              · simp only [Proc.keys_put, List.nodup_cons, List.mem_cons]
                refine ⟨?_, ?_, hnd hle hn⟩
                · intro hmem
                  rcases hmem with e | hmem
                  · simp at e
                  · rcases hin _ hmem with h4 | ⟨_, h5, _⟩
                    · have := hle _ h4; simp at this; omega
                    · simp at h5
                · intro hmem
                  rcases hin _ hmem with h4 | ⟨_, h5, _⟩
                  · have := hle _ h4; simp at this; omega
                  · simp at h5
          by_cases hce : b.children.isEmpty = true
          · simp only [hce, if_true] at h
            exact tail pr1 (m + 2) child1 (Nat.le_refl _) (fun k hk => Or.inl (hk1 ▸ hk))
              (fun _ hn => hk1 ▸ hn) h
          · simp only [hce, Bool.false_eq_true, if_false] at h
            cases hin : ocLoop t f (m + 2) (m + 1, 0) b.children none none pr1 with
            | none => simp [hin] at h
            | some res2 =>
              obtain ⟨m1, cf, cl, pr2⟩ := res2
              simp only [hin] at h
              obtain ⟨b1, b2, b3⟩ := ih _ _ _ _ _ _ _ _ _ _ hin
              exact tail pr2 m1 _ b1
                (fun k hk => by
                  rcases b2 k hk with h1 | h1
                  · exact Or.inl (hk1 ▸ h1)
                  · exact Or.inr h1)
                (fun hle hn => b3 (fun k hk => by have := hle k (hk1 ▸ hk); omega) (hk1 ▸ hn)) h

/-- **fresh identifiers.** Every object `build_outline` creates has generation 0 and a number in
`(max_id, new max_id]`, and no identifier is used twice. -/
theorem outline_ids_fresh (s : BmState) (maxId fuel : Nat) (b : Built)
    (h : buildOutline fuel s maxId = some (some b)) :
    maxId < b.maxId ∧ b.objs.keys.Nodup ∧ ∀ k ∈ b.objs.keys, k.2 = 0 ∧ maxId < k.1 ∧ k.1 ≤ b.maxId := by
  unfold buildOutline at h
  split at h
  · cases h
  · cases hrun : ocLoop s.table fuel (maxId + 1) (maxId + 1, 0) s.roots none none [] with
    | none => simp [hrun] at h
    | some res =>
      obtain ⟨m', f', l', pr'⟩ := res
      simp only [hrun, Option.some.injEq] at h
      subst h
      obtain ⟨a1, a2, a3⟩ := ocLoop_keys _ _ _ _ _ _ _ _ _ _ _ _ hrun
      refine ⟨by simp; omega, ?_, ?_⟩
      · simp only [Proc.keys_put, List.nodup_cons]
        refine ⟨?_, a3 (by intro k hk; simp [Proc.keys] at hk) (by simp [Proc.keys])⟩
        intro hmem
        rcases a2 _ hmem with h1 | ⟨_, h2, _⟩
        · simp [Proc.keys] at h1
        · simp at h2
      · intro k hk
        simp only [Proc.keys_put, List.mem_cons] at hk
        rcases hk with rfl | hk
        · simp; omega
        · rcases a2 k hk with h1 | ⟨h1, h2, h3⟩
          · simp [Proc.keys] at h1
          · exact ⟨h1, by omega, h3⟩

/-- installing the built objects: a created id reads back its dictionary, every other id is untouched -/
theorem installObjs_get (os : Objects) (new : Proc) (q : ObjId) :
    (installObjs os new).get q = match new.get q with
      | some d => some (.dict d)
      | none => os.get q := by
  induction new with
  | nil => simp [installObjs, Proc.get]
  | cons e r ih =>
    obtain ⟨k, d⟩ := e
    simp only [installObjs, List.map_cons, List.cons_append, Objects.get, Proc.get] at ih ⊢
    by_cases hk : k = q
    · simp [hk]
    · simp only [hk, if_false]; exact ih

/-! ## titles: encode in `outline_child`, decode in `get_toc` -/

/-- Unicode scalar value = what a Rust `char` can hold -/
def IsScalar (c : Nat) : Prop := c < 0xD800 ∨ (0xDFFF < c ∧ c < 0x110000)

theorem utf16Lossy_cons_plain (u : Nat) (X : List Nat) (h : u < 0xD800 ∨ 0xDFFF < u) :
    utf16Lossy (u :: X) = u :: utf16Lossy X := by
  cases X <;> simp [utf16Lossy, h]

theorem utf16Lossy_cons_pair (hi lo : Nat) (X : List Nat) (h1 : 0xD800 ≤ hi) (h2 : hi < 0xDC00)
    (h3 : 0xDC00 ≤ lo) (h4 : lo ≤ 0xDFFF) :
    utf16Lossy (hi :: lo :: X) = (0x10000 + (hi - 0xD800) * 1024 + (lo - 0xDC00)) :: utf16Lossy X := by
  have a : ¬ (hi < 0xD800 ∨ 0xDFFF < hi) := by omega
  have b : ¬ 0xDC00 ≤ hi := by omega
  simp only [utf16Lossy, a, b, if_false, h3, h4, and_self, if_true]

/-- `from_utf16_lossy (encode_utf16 s) = s` for every string (list of scalar values) -/
theorem utf16_roundtrip : ∀ (cs : List Nat), (∀ c ∈ cs, IsScalar c) → utf16Lossy (utf16Units cs) = cs := by
  intro cs
  induction cs with
  | nil => intro _; rfl
  | cons c cs ih =>
    intro h
    have hc := h c (by simp)
    have ih' := ih (fun x hx => h x (by simp [hx]))
    unfold IsScalar at hc
    by_cases hlt : c < 0x10000
    · simp only [utf16Units, hlt, if_true]
      rw [utf16Lossy_cons_plain c _ (by omega), ih']
    · simp only [utf16Units, hlt, if_false]
      rw [utf16Lossy_cons_pair _ _ _ (by omega) (by omega) (by omega) (by omega), ih']
      simp only [List.cons.injEq, and_true]
      omega

theorem utf16Units_lt : ∀ (cs : List Nat), (∀ c ∈ cs, IsScalar c) → ∀ u ∈ utf16Units cs, u < 65536 := by
  intro cs
  induction cs with
  | nil => intro _ u hu; simp [utf16Units] at hu
  | cons c cs ih =>
    intro h u hu
    have hc := h c (by simp)
    have ih' := ih (fun x hx => h x (by simp [hx]))
    unfold IsScalar at hc
    by_cases hlt : c < 0x10000
    · simp only [utf16Units, hlt, if_true, List.mem_cons] at hu
      rcases hu with rfl | hu
      · omega
      · exact ih' u hu
    · simp only [utf16Units, hlt, if_false, List.mem_cons] at hu
      rcases hu with e | e | hu
      · rw [e]; omega
      · rw [e]; omega
      · exact ih' u hu

theorem toNat_toUInt8 (n : Nat) (h : n < 256) : n.toUInt8.toNat = n := by
  simp [Nat.toUInt8]; omega

theorem pairsBE_unitsBE : ∀ (us : List Nat), (∀ u ∈ us, u < 65536) → pairsBE (unitsBE us) = us := by
  intro us
  induction us with
  | nil => intro _; rfl
  | cons u us ih =>
    intro h
    have hu := h u (by simp)
    simp only [unitsBE, pairsBE]
    rw [ih (fun x hx => h x (by simp [hx])), toNat_toUInt8 _ (by omega), toNat_toUInt8 _ (by omega)]
    congr 1; omega

theorem unitsBE_length (us : List Nat) : (unitsBE us).length = 2 * us.length := by
  induction us with
  | nil => rfl
  | cons u us ih => simp [unitsBE, ih]; omega

/-- the byte-order mark the builder writes is the one the reader tests first -/
theorem bom_agree : OUTLINE_BOM = TOC_BOM_BE := by decide

theorem ascii_bytes_all (t : List Nat) (h : ∀ c ∈ t, c < 128) :
    (t.map Nat.toUInt8).all (fun (x : UInt8) => x < 128) = true := by
  simp only [List.all_eq_true, List.mem_map, forall_exists_index, and_imp, decide_eq_true_eq]
  intro x c hc e; subst e
  rw [UInt8.lt_iff_toNat_lt]; simp [Nat.toUInt8]; have := h c hc; omega

theorem ascii_bytes_back (t : List Nat) (h : ∀ c ∈ t, c < 128) :
    (t.map Nat.toUInt8).map UInt8.toNat = t := by
  induction t with
  | nil => rfl
  | cons c t ih =>
    simp only [List.map_cons]
    rw [ih (fun x hx => h x (by simp [hx])), toNat_toUInt8 c (by have := h c (by simp); omega)]

/-- **title round trip.** Whatever string a bookmark carries (every Unicode scalar value, any
length, including C0 controls, U+FEFF, astral planes), the bytes `outline_child` stores in `Title`
decode in `get_toc` to the same string. -/
theorem title_roundtrip (t : List Nat) (h : ∀ c ∈ t, IsScalar c) : decodeTitle (titleBytes t) = .ok t := by
  unfold titleBytes
  by_cases ha : isAsciiTitle t = true
  · simp only [ha, if_true]
    have hlt : ∀ c ∈ t, c < 128 := by
      simpa [isAsciiTitle, List.all_eq_true] using ha
    have hall := ascii_bytes_all t hlt
    have hback := ascii_bytes_back t hlt
    unfold decodeTitle
    cases t with
    | nil => simp
    | cons a r =>
      cases r with
      | nil =>
        simp only [List.map_cons, List.map_nil] at hall hback ⊢
        simp only [hall, if_true, List.map_cons, List.map_nil, hback]
      | cons b r' =>
        simp only [List.map_cons] at hall hback ⊢
        have ha : a < 128 := hlt a (by simp)
        have hb : b < 128 := hlt b (by simp)
        have h1 : ¬ [a.toUInt8, b.toUInt8] = TOC_BOM_BE := by
          simp only [TOC_BOM_BE, List.cons.injEq, and_true, not_and]
          intro e; have := congrArg UInt8.toNat e; rw [toNat_toUInt8 _ (by omega)] at this; simp at this; omega
        have h2 : ¬ [a.toUInt8, b.toUInt8] = TOC_BOM_LE := by
          simp only [TOC_BOM_LE, List.cons.injEq, and_true, not_and]
          intro e; have := congrArg UInt8.toNat e; rw [toNat_toUInt8 _ (by omega)] at this; simp at this; omega
        simp only [h1, h2, if_false, hall, if_true, hback]
  · simp only [ha, Bool.false_eq_true, if_false]
    have hu := utf16Units_lt t h
    unfold decodeTitle
    simp only [OUTLINE_BOM, List.cons_append, List.nil_append]
    have h1 : [(254 : UInt8), 255] = TOC_BOM_BE := by decide
    have hlen : ¬ ((254 : UInt8) :: 255 :: unitsBE (utf16Units t)).length % 2 ≠ 0 := by
      simp [unitsBE_length]; omega
    simp only [h1, if_true, hlen, if_false, pairsBE_unitsBE _ hu, utf16_roundtrip t h]

/-- distinct titles are stored as distinct byte strings (what `get_toc`'s title-keyed table needs) -/
theorem titleBytes_injective (t1 t2 : List Nat) (h1 : ∀ c ∈ t1, IsScalar c) (h2 : ∀ c ∈ t2, IsScalar c)
    (e : titleBytes t1 = titleBytes t2) : t1 = t2 := by
  have a := title_roundtrip t1 h1
  have b := title_roundtrip t2 h2
  rw [e, b] at a
  cases a; rfl

example : decodeTitle (titleBytes [0x41, 0x0A, 0xE9, 0x1F600, 0xFEFF]) = .ok [0x41, 0x0A, 0xE9, 0x1F600, 0xFEFF] :=
  title_roundtrip _ (by intro c hc; simp at hc; rcases hc with rfl | rfl | rfl | rfl | rfl <;> simp [IsScalar])

/-! ## reading back: `get_outlines` on an embedded forest -/

/-- dictionary stored directly at an id -/
def dictAt (os : Objects) (q : ObjId) : Option Dict :=
  match os.get q with
  | some (.dict d) => some d
  | _ => none

theorem getDictionary_of_dictAt {os : Objects} {q : ObjId} {d : Dict} (h : dictAt os q = some d) :
    getDictionary os q = some d := by
  unfold dictAt at h
  split at h
  · rename_i d' hq
    cases h
    simp [getDictionary, getObject, hq, deref, derefAux, Obj.asDict]
  · cases h

theorem Dict.get_set (d : Dict) (k k' : Bytes) (v : Obj) :
    (Dict.set d k v).get k' = if k = k' then some v else d.get k' := by
  induction d with
  | nil => simp [Dict.set, Dict.get]
  | cons e r ih =>
    obtain ⟨a, b⟩ := e
    by_cases ha : a = k
    · subst ha; by_cases hk : a = k' <;> simp [Dict.set, Dict.get, hk]
    · by_cases hk : a = k'
      · subst hk
        have : ¬ k = a := fun e => ha e.symm
        simp [Dict.set, Dict.get, ha, this]
      · simp [Dict.set, Dict.get, ha, hk, ih]

theorem Dict.get_set_ne (d : Dict) (k k' : Bytes) (v : Obj) (h : k ≠ k') : (Dict.set d k v).get k' = d.get k' := by
  rw [Dict.get_set]; simp [h]
theorem Dict.get_set_eq (d : Dict) (k : Bytes) (v : Obj) : (Dict.set d k v).get k = some v := by
  rw [Dict.get_set]; simp
theorem setOpt_get_ne (d : Dict) (k k' : Bytes) (v : Option ObjId) (h : k ≠ k') : (setOpt d k v).get k' = d.get k' := by
  cases v <;> simp [setOpt, Dict.get_set_ne _ _ _ _ h]
theorem setOpt_get_eq (d : Dict) (k : Bytes) (v : Option ObjId) :
    (setOpt d k v).get k = match v with | some n => some (oref n) | none => d.get k := by
  cases v <;> simp [setOpt, Dict.get_set_eq]
theorem Dict.get_nil (k : Bytes) : Dict.get [] k = none := rfl

theorem itemDict_get_A (parent : ObjId) (id : Nat) (title : List Nat) (f : Nat) (c : List Bytes) (page : ObjId)
    (kids : List BT) (m : Nat) (prev next : Option ObjId) :
    (itemDictOf parent (.node id title f c page kids) m prev next).get RD_A = some (.ref (m + 2) 0) := by
  have e : RD_A = OL_A := by decide
  rw [e]
  simp only [itemDictOf]
  split <;>
    simp (disch := decide) only [setOpt_get_ne, Dict.get_set_ne, Dict.get_set_eq, baseItem, oref]

theorem itemDict_get_title (parent : ObjId) (id : Nat) (title : List Nat) (f : Nat) (c : List Bytes) (page : ObjId)
    (kids : List BT) (m : Nat) (prev next : Option ObjId) :
    (itemDictOf parent (.node id title f c page kids) m prev next).get RD_TITLE =
      some (.str (titleBytes title) .lit) := by
  have e : RD_TITLE = OL_TITLE := by decide
  rw [e]
  simp only [itemDictOf]
  split <;>
    simp (disch := decide) only [setOpt_get_ne, Dict.get_set_ne, Dict.get_set_eq, baseItem, oref]

theorem itemDict_get_first (parent : ObjId) (id : Nat) (title : List Nat) (f : Nat) (c : List Bytes) (page : ObjId)
    (kids : List BT) (m : Nat) (prev next : Option ObjId) :
    (itemDictOf parent (.node id title f c page kids) m prev next).get RD_FIRST =
      (firstId kids (m + 2)).map oref := by
  have e : RD_FIRST = OL_FIRST := by decide
  rw [e]
  simp only [itemDictOf]
  cases kids with
  | nil =>
    simp (disch := decide) only [List.isEmpty_nil, if_true, setOpt_get_ne, Dict.get_set_ne, baseItem, Dict.get_nil,
      firstId, Option.map]
  | cons k ks =>
    simp (disch := decide) only [List.isEmpty_cons, Bool.false_eq_true, if_false, setOpt_get_ne, Dict.get_set_ne,
      setOpt_get_eq, firstId, Option.map]

theorem itemDict_get_next (parent : ObjId) (id : Nat) (title : List Nat) (f : Nat) (c : List Bytes) (page : ObjId)
    (kids : List BT) (m : Nat) (prev next : Option ObjId) :
    (itemDictOf parent (.node id title f c page kids) m prev next).get RD_NEXT = next.map oref := by
  have e : RD_NEXT = OL_NEXT := by decide
  rw [e]
  simp only [itemDictOf, setOpt_get_eq]
  cases next with
  | some n => rfl
  | none =>
    simp only [Option.map]
    split <;>
      simp (disch := decide) only [setOpt_get_ne, Dict.get_set_ne, baseItem, Dict.get_nil]

/-- the reader's key constants (regenerated from src/outlines.rs by the translator) are the ones the
shared `get_outlines` model (`Model/Outlines.lean`, namespace `Q13`) is written with -/
theorem reader_keys_agree :
    RD_A = Q13.K_A ∧ RD_DEST = Q13.K_Dest ∧ RD_TITLE = Q13.K_Title ∧ RD_S = Q13.K_S ∧ RD_GOTO = Q13.K_GoTo ∧
    RD_GOTOR = Q13.K_GoToR ∧ RD_D = Q13.K_D ∧ RD_OUTLINES = Q13.K_Outlines ∧ RD_FIRST = Q13.K_First ∧
    RD_NEXT = Q13.K_Next ∧ RD_DESTS = Q13.K_Dests ∧ RD_NAMES = Q13.K_Names := by decide

/-- `Destination::new(title, page, /Fit)` of a bookmark -/
def destOf (title : List Nat) (page : ObjId) : Q13.Outline :=
  .dest (Q13.mkDest (.str (titleBytes title) .lit) (oref page) (.name OL_FIT))

/- the outline tree `get_outlines` is expected to return for a forest -/
mutual
def outN : BT → List Q13.Outline
  | .node _ title _ _ page kids =>
    destOf title page :: (if kids.isEmpty then [] else [Q13.Outline.sub (outL kids)])
def outL : List BT → List Q13.Outline
  | [] => []
  | t :: ts => outN t ++ outL ts
end

theorem firstId_nil (m : Nat) : firstId [] m = none := rfl
theorem firstId_cons (t : BT) (r : List BT) (m : Nat) : firstId (t :: r) m = some (m + 1, 0) := rfl

theorem outL_cons_isEmpty (t : BT) (r : List BT) : (outL (t :: r)).isEmpty = false := by
  cases t; simp [outL, outN]

theorem EmbL_head {g : ObjId → Option Dict} {m : Nat} {parent : ObjId} {prev : Option ObjId} {t : BT} {r : List BT}
    (h : EmbL g m parent prev (t :: r)) :
    g (m + 1, 0) = some (itemDictOf parent t m prev (firstId r (m + 2 * t.size))) := by
  cases t; simp only [EmbL, EmbN] at h; exact h.1.1

theorem getOutline_item (os : Objects) (parent : ObjId) (id : Nat) (title : List Nat) (f : Nat) (c : List Bytes)
    (page : ObjId) (kids : List BT) (m : Nat) (prev next : Option ObjId) (named : Q13.Named)
    (hinfo : dictAt os (m + 2, 0) = some (infoDict page)) :
    Q13.getOutline os (itemDictOf parent (.node id title f c page kids) m prev next) named =
      .ok (some (destOf title page), named) := by
  have hA := itemDict_get_A parent id title f c page kids m prev next
  have hT := itemDict_get_title parent id title f c page kids m prev next
  have hgd := getDictionary_of_dictAt hinfo
  have hS : (infoDict page).get Q13.K_S = some (.name OL_GOTO) := by
    simp [infoDict, Dict.get, OL_D, OL_S, Q13.K_S]
  have hD : (infoDict page).get Q13.K_D = some (.arr [oref page, .name OL_FIT]) := by
    simp [infoDict, Dict.get, OL_D, Q13.K_D]
  have hgoto : ¬ (OL_GOTO ≠ Q13.K_GoTo ∧ OL_GOTO ≠ Q13.K_GoToR) := by decide
  have eA : Q13.K_A = RD_A := by decide
  have eT : Q13.K_Title = RD_TITLE := by decide
  simp only [Q13.getOutline, Q13.getDictInDict, eA, eT, hA, hgd, hS, Option.bind, Obj.asName, hgoto, if_false, hT, hD]
  simp [Q13.buildOutlineResult, Q13.buildDirect, oref, destOf]

/-! ### one step of the guarded walk on a well-formed item -/

/-- what the `First` phase of an item does when the item is well formed: no children, or a child list
behind a reference not yet in `seen` whose own walk succeeds with a non-empty result -/
inductive FirstPhase (os : Objects) (node : Dict) (acc : List Q13.Outline) (o : Q13.Outline) (named : Q13.Named)
    (seen : List ObjId) : List Q13.Outline → List ObjId → Prop where
  | none (h : node.get Q13.K_First = none) : FirstPhase os node acc o named seen (acc ++ [o]) seen
  | sub (a b : Nat) (d : Dict) (subs : List Q13.Outline) (seen2 : List ObjId)
      (h : node.get Q13.K_First = some (.ref a b)) (hs : (a, b) ∉ seen) (hd : getDictionary os (a, b) = some d)
      (hw : (Q13.walkG os d [] named ((a, b) :: seen)).val = (.ok (subs, named), seen2))
      (hne : subs.isEmpty = false) :
      FirstPhase os node acc o named seen (acc ++ [o] ++ [.sub subs]) seen2

theorem walkG_first (os : Objects) (node : Dict) (acc : List Q13.Outline) (named : Q13.Named) (seen : List ObjId)
    (o : Q13.Outline) (acc2 : List Q13.Outline) (seen2 : List ObjId)
    (hgo : Q13.getOutline os node named = .ok (some o, named))
    (hF : FirstPhase os node acc o named seen acc2 seen2) :
    (node.get Q13.K_Next = none → (Q13.walkG os node acc named seen).val = (.ok (acc2, named), seen2)) ∧
    (∀ a b nd, node.get Q13.K_Next = some (.ref a b) → (a, b) ∉ seen2 → getDictionary os (a, b) = some nd →
      (Q13.walkG os node acc named seen).val = (Q13.walkG os nd acc2 named ((a, b) :: seen2)).val) := by
  have hst : Q13.pushOutline (Q13.getOutline os node named) acc named = (acc ++ [o], named) := by
    rw [hgo]; rfl
  constructor
  · intro hn
    rw [Q13.walkG]
    split
    · rename_i s' hp; rw [hgo] at hp; cases hp
    · extract_lets st fr
      have hfr : fr.val = (.ok (acc2, named), seen2) := by
        simp only [fr, st]
        cases hF with
        | none h =>
          split
          · dsimp only; rw [hst]
          · rename_i h'; rw [h] at h'; cases h'
          · rename_i h'; rw [h] at h'; cases h'
          · rename_i h'; rw [h] at h'; cases h'
        | sub a b d subs seen2 h hs hd hw hne =>
          split
          · rename_i h'; rw [h] at h'; cases h'
          · rename_i h'; rw [h] at h'; cases h'
          · rename_i a' b' h'; rw [h] at h'; cases h'
            split
            · rename_i hin; exact absurd hin hs
            · split
              · rename_i hd'; rw [hd] at hd'; cases hd'
              · rename_i d' hd'; rw [hd] at hd'; cases hd'
                dsimp only
                rw [hst]
                simp only [Q13.wrapSub, hw, hne]
                simp
          · rename_i hx h'; rw [h] at h'; cases h'; exact (hx a b rfl).elim
      split
      · rename_i acc2' named2' hok
        have e1 : fr.val.1 = .ok (acc2, named) := by rw [hfr]
        rw [e1] at hok; cases hok
        split
        · rename_i a b hn'; rw [hn] at hn'; cases hn'
        · rename_i d hn'; rw [hn] at hn'; cases hn'
        · simp only [hfr]
      · rename_i e h; rw [hfr] at h; cases h
      · rename_i e h; rw [hfr] at h; cases h
  · intro a b nd hn hs2 hnd
    rw [Q13.walkG]
    split
    · rename_i s' hp; rw [hgo] at hp; cases hp
    · extract_lets st fr
      have hfr : fr.val = (.ok (acc2, named), seen2) := by
        simp only [fr, st]
        cases hF with
        | none h =>
          split
          · dsimp only; rw [hst]
          · rename_i h'; rw [h] at h'; cases h'
          · rename_i h'; rw [h] at h'; cases h'
          · rename_i h'; rw [h] at h'; cases h'
        | sub a b d subs seen2 h hs hd hw hne =>
          split
          · rename_i h'; rw [h] at h'; cases h'
          · rename_i h'; rw [h] at h'; cases h'
          · rename_i a' b' h'; rw [h] at h'; cases h'
            split
            · rename_i hin; exact absurd hin hs
            · split
              · rename_i hd'; rw [hd] at hd'; cases hd'
              · rename_i d' hd'; rw [hd] at hd'; cases hd'
                dsimp only
                rw [hst]
                simp only [Q13.wrapSub, hw, hne]
                simp
          · rename_i hx h'; rw [h] at h'; cases h'; exact (hx a b rfl).elim
      split
      · rename_i acc2' named2' hok
        have e1 : fr.val.1 = .ok (acc2, named) := by rw [hfr]
        rw [e1] at hok; cases hok
        split
        · rename_i a' b' hn'; rw [hn] at hn'; cases hn'
          have e2 : fr.val.2 = seen2 := by rw [hfr]
          split
          · rename_i hin; rw [e2] at hin; exact absurd hin hs2
          · split
            · rename_i next hd'; rw [hnd] at hd'; cases hd'
              dsimp only
              rw [e2]
            · rename_i hd'; rw [hnd] at hd'; cases hd'
        · rename_i d hn'; rw [hn] at hn'; cases hn'
        · rename_i hx _; exact absurd hn (hx a b)
      · rename_i e h; rw [hfr] at h; cases h
      · rename_i e h; rw [hfr] at h; cases h

/-- **walk.** On any document whose objects embed the sibling list `t :: r` (whatever else the
document holds), started with a `seen` set that only contains earlier object numbers, the guarded
`get_outlines` walk (no fuel: it terminates by its own `seen` guard) never trips the guard — every
item of a built outline is entered exactly once — and appends exactly the outline tree of the
forest: one destination per bookmark, in order, each followed by the sub-list of its children. -/
theorem walk_emb (os : Objects) : ∀ (n : Nat) (t : BT) (r : List BT), BT.sizeL (t :: r) ≤ n →
    ∀ (m : Nat) (parent : ObjId) (prev : Option ObjId) (acc : List Q13.Outline) (named : Q13.Named) (seen : List ObjId),
    EmbL (dictAt os) m parent prev (t :: r) → (∀ q ∈ seen, q.1 ≤ m + 1) →
    ∃ seen', (Q13.walkG os (itemDictOf parent t m prev (firstId r (m + 2 * t.size))) acc named seen).val =
        (.ok (acc ++ outL (t :: r), named), seen') ∧ ∀ q ∈ seen', q.1 ≤ m + 2 * BT.sizeL (t :: r) := by
  intro n
  induction n with
  | zero =>
    intro t r hsz
    have := BT.size_pos t; simp [BT.sizeL] at hsz; omega
  | succ n ih =>
    intro t r hsz m parent prev acc named seen hE hseen
    cases t with
    | node id title f c page kids =>
      have hE' := hE
      simp only [EmbL, EmbN] at hE'
      obtain ⟨⟨_, h2, h3⟩, h4⟩ := hE'
      simp only [BT.sizeL, BT.size] at hsz
      simp only [BT.size]
      have hgo := getOutline_item os parent id title f c page kids m prev (firstId r (m + 2 * (1 + BT.sizeL kids))) named h2
      have eF : Q13.K_First = RD_FIRST := by decide
      have eN : Q13.K_Next = RD_NEXT := by decide
      -- First phase
      have hF : ∃ acc2 seen2, FirstPhase os (itemDictOf parent (.node id title f c page kids) m prev
            (firstId r (m + 2 * (1 + BT.sizeL kids)))) acc (destOf title page) named seen acc2 seen2 ∧
          acc2 = acc ++ outN (.node id title f c page kids) ∧ ∀ q ∈ seen2, q.1 ≤ m + 2 * (1 + BT.sizeL kids) := by
        cases kids with
        | nil =>
          refine ⟨_, _, FirstPhase.none ?_, by simp [outN], fun q hq => by have := hseen q hq; omega⟩
          rw [eF, itemDict_get_first]; rfl
        | cons k ks =>
          have hk := getDictionary_of_dictAt (EmbL_head h3)
          obtain ⟨seen2, hw, hb⟩ := ih k ks (by simp only [BT.sizeL] at hsz ⊢; omega) (m + 2) (m + 1, 0) none []
            named ((m + 2 + 1, 0) :: seen) h3
            (by intro q hq; simp only [List.mem_cons] at hq; rcases hq with rfl | hq
                · simp
                · have := hseen q hq; omega)
          refine ⟨_, seen2, FirstPhase.sub (m + 2 + 1) 0 _ (outL (k :: ks)) seen2 ?_ ?_ hk ?_ (outL_cons_isEmpty k ks), ?_, ?_⟩
          · rw [eF, itemDict_get_first]; rfl
          · intro hin; have := hseen _ hin; simp at this; omega
          · simpa using hw
          · simp [outN]
          · intro q hq; have := hb q hq; simp only [BT.sizeL] at this ⊢; omega
      obtain ⟨acc2, seen2, hFP, hacc2, hb2⟩ := hF
      have hstep := walkG_first os _ acc named seen (destOf title page) acc2 seen2 hgo hFP
      cases r with
      | nil =>
        refine ⟨seen2, ?_, ?_⟩
        · rw [hstep.1 (by rw [eN, itemDict_get_next]; rfl), hacc2]
          simp [outL]
        · intro q hq; have := hb2 q hq; simp only [BT.sizeL, BT.size]; omega
      | cons t2 r' =>
        have hn := getDictionary_of_dictAt (EmbL_head h4)
        simp only [BT.size] at hn h4
        have hnext : (itemDictOf parent (.node id title f c page kids) m prev
            (firstId (t2 :: r') (m + 2 * (1 + BT.sizeL kids)))).get Q13.K_Next =
            some (.ref (m + 2 * (1 + BT.sizeL kids) + 1) 0) := by
          rw [eN, itemDict_get_next]; rfl
        have hns : ((m + 2 * (1 + BT.sizeL kids) + 1, 0) : ObjId) ∉ seen2 := by
          intro hin; have := hb2 _ hin; simp only at this; omega
        rw [hstep.2 _ _ _ hnext hns hn]
        obtain ⟨seen3, hw3, hb3⟩ := ih t2 r' (by simp only [BT.sizeL] at hsz ⊢; omega) (m + 2 * (1 + BT.sizeL kids)) parent
          (some (m + 1, 0)) acc2 named ((m + 2 * (1 + BT.sizeL kids) + 1, 0) :: seen2) h4
          (by intro q hq; simp only [List.mem_cons] at hq; rcases hq with rfl | hq
              · simp
              · have := hb2 q hq; omega)
        refine ⟨seen3, ?_, ?_⟩
        · rw [hw3, hacc2]; simp [outL, List.append_assoc]
        · intro q hq; have := hb3 q hq; simp only [BT.sizeL, BT.size] at this ⊢; omega

/-! ## non-vacuity and the duplicate-title witness -/

def exBm (title : List Nat) (page : ObjId) : Bm :=
  { children := [], title := title, format := 0, color := [], page := page, id := 0 }

/-- four `add_bookmark` calls, the second child of bookmark 1 arriving after bookmark 3 was started -/
def exOps : List (Bm × Option Nat) :=
  [(exBm [65] (3, 0), none), (exBm [66] (3, 0), some 1), (exBm [0xE9, 0x1F600] (4, 0), none), (exBm [67] (4, 0), some 1),
   (exBm [68] (4, 0), some 9)]

/-- the table built by `add_bookmark` represents the forest the calls denote (hypothesis of
`outline_links` / `ocLoop_spec`), here with an interleaved attach and an orphan -/
example : repL (addAll BmState.empty exOps).table (addAll BmState.empty exOps).roots (forestOfOps exOps) = true := by
  decide

example : BT.sizeL (forestOfOps exOps) = 4 := by decide

/-- F-C17-a on the model: two bookmarks titled "I" under different parents; the title-keyed table of
`setup_outline_page_ids` keeps three entries, the duplicate at the FIRST position with the page
and level of the LAST. -/
def dupForest : List BT :=
  [.node 1 [65] 0 [] (3, 0) [.node 2 [73] 0 [] (3, 0) []], .node 3 [66] 0 [] (4, 0) [.node 4 [73] 0 [] (4, 0) []]]

theorem toc_duplicate_titles_collapse :
    Q13.tocIdsList 1 (outL dupForest) [] = some [([65], (3, 0), 1), ([73], (4, 0), 2), ([66], (4, 0), 1)] := by
  decide

end Lopdf
