import LopdfModel.Thm.FileLoadObjectsStream
import LopdfModel.Thm.FileIncrObjects
import LopdfModel.Thm.C01Indirect
/-
  C01 — **`file_rt` for table saves**: the file-level theorems (`Thm/File*.lean`) composed with
  the object-level round trips (`Thm/C01Obj.lean`, `Thm/C01Indirect.lean`): no object-level
  hypothesis is left, only well-formedness of the document.
-/
namespace Lopdf.FileRT
open Lopdf Gen Lopdf.ObjRt

/-- objects the composed theorem covers: every direct object within the nesting limit (no
real numbers — those come back normalised, see `norm`), and streams whose dictionary is such an
object and carries the direct `Length` of the content (what `lopdf` maintains) -/
def ObjOK : Obj → Prop
  | .stream es c => WFObj (.dict es) ∧ height (.dict es) ≤ MAX_NESTING ∧ NoRealD es ∧
      Dict.get es LENGTH = some (.int c.length)
  | o => WFObj o ∧ height o ≤ MAX_NESTING ∧ NoReal o

theorem indirectReadsBack_of_ok (n g : Nat) (o : Obj) (hn : n ≤ U32_MAX) (hg : g ≤ U16_MAX) (h : ObjOK o) :
    IndirectReadsBack n g o := by
  intro len base rest
  cases o with
  | stream es c =>
    obtain ⟨h1, h2, h3, h4⟩ := h
    have hl : ObjRt.lengthOf len (normD es) = some (Int.ofNat c.length) := by
      rw [normD_noReal es h3]
      simp [ObjRt.lengthOf, h4]
    rw [indirect_stream_rt len none base n g es c rest hn hg (Or.inl rfl) h1 h2 hl, normD_noReal es h3,
      set_same es LENGTH _ h4]
  | null => exact indirect_rt_noReal len base n g _ rest hn hg h.1 h.2.1 h.2.2
  | bool b => exact indirect_rt_noReal len base n g _ rest hn hg h.1 h.2.1 h.2.2
  | int i => exact indirect_rt_noReal len base n g _ rest hn hg h.1 h.2.1 h.2.2
  | real t => exact indirect_rt_noReal len base n g _ rest hn hg h.1 h.2.1 h.2.2
  | name nm => exact indirect_rt_noReal len base n g _ rest hn hg h.1 h.2.1 h.2.2
  | str s f => exact indirect_rt_noReal len base n g _ rest hn hg h.1 h.2.1 h.2.2
  | arr items => exact indirect_rt_noReal len base n g _ rest hn hg h.1 h.2.1 h.2.2
  | dict es => exact indirect_rt_noReal len base n g _ rest hn hg h.1 h.2.1 h.2.2
  | ref a b => exact indirect_rt_noReal len base n g _ rest hn hg h.1 h.2.1 h.2.2

/-! ### `Dictionary::set` of an integer keeps a dictionary inside the theorem's domain -/

theorem WFD_set_int (es : List (Bytes × Obj)) (k : Bytes) (i : Int)
    (hi : -(I64_MAX : Int) - 1 ≤ i ∧ i ≤ I64_MAX) (h : WFD (fun _ => True) es) :
    WFD (fun _ => True) (Dict.set es k (.int i)) := by
  induction es with
  | nil => simp [Dict.set, WFD, WF, hi]
  | cons p rest ih =>
    obtain ⟨q, w⟩ := p
    simp only [WFD] at h
    by_cases hq : q = k
    · simp [Dict.set, hq, WFD, WF, hi, h.2]
    · simp [Dict.set, hq, WFD, h.1, ih h.2]

theorem heightD_set_int (es : List (Bytes × Obj)) (k : Bytes) (i : Int) :
    heightD (Dict.set es k (.int i)) ≤ heightD es := by
  induction es with
  | nil => simp [Dict.set, heightD, height]
  | cons p rest ih =>
    obtain ⟨q, w⟩ := p
    by_cases hq : q = k
    · simp [Dict.set, hq, heightD, height]; omega
    · simp only [Dict.set, hq, if_false, heightD]; omega

theorem NoRealD_set_int (es : List (Bytes × Obj)) (k : Bytes) (i : Int) (h : NoRealD es) :
    NoRealD (Dict.set es k (.int i)) := by
  induction es with
  | nil => simp [Dict.set, NoRealD, NoReal]
  | cons p rest ih =>
    obtain ⟨q, w⟩ := p
    simp only [NoRealD] at h
    by_cases hq : q = k
    · simp [Dict.set, hq, NoRealD, NoReal, h.2]
    · simp [Dict.set, hq, NoRealD, h.1, ih h.2]

/-- **`file_rt`, classic cross-reference table (C01).** For EVERY well-formed document — one
object per number within `1..max_id`, `u16` generations, no ObjStm/XRef/Linearized object,
every object a direct object within the nesting limit without real numbers or a stream with such
a dictionary and a direct consistent `Length`, a trailer of that kind without `Prev`/`Encrypt`,
a version text without line breaks in valid UTF-8 — whose save stays below 4 GiB with
`max_id + 1 ≤ u32::MAX`: `load (save d)` succeeds and returns the same version, binary mark,
trailer (with the `Size` that `save` stored), the writer's `startxref` offset, and for every
object id exactly the object `d` holds (nothing for other ids). No hypothesis about parsing is
left: the model of `Reader::read` applied to the model of `Document::save`. -/
theorem file_rt_table (order : Option (List Nat)) (d : SDoc) (out : Bytes) (d' : SDoc)
    (hk : d.xrefKind = .table) (h : saveFrom [] d = some (out, d')) (hlen : out.length < 4294967296)
    (hmax : d.maxId + 1 ≤ 4294967295) (hwf : DocWF d)
    (hobjs : ∀ p ∈ d.objects, ObjOK p.2)
    (htr : WFObj (.dict d.trailer) ∧ height (.dict d.trailer) ≤ MAX_NESTING ∧ NoRealD d.trailer)
    (hv1 : ∀ b ∈ d.version, notEol b = true) (hv2 : validUtf8 d.version = true)
    (hprev : d.trailer.get PREV = none) (henc : d.trailer.has ENCRYPT = false) :
    ∃ L : Loaded, loadDocOrd order out = .ok L ∧ L.version = d.version ∧ L.binaryMark = d.binaryMark ∧
      L.trailer = d'.trailer ∧ L.xrefStart = (bodyOf [] d).length ∧ L.maxId ≤ d.maxId ∧
      (∀ id, L.objects.get id = d.objects.get id) ∧ SortedO L.objects := by
  obtain ⟨_, htr'⟩ := saveFrom_table_eq [] d out d' hk h
  obtain ⟨t1, t2, t3⟩ := htr
  have hD : ∀ rest, DictReadsBack d'.trailer rest := by
    intro rest
    unfold DictReadsBack
    rw [htr']
    have hi : -(I64_MAX : Int) - 1 ≤ ((d.maxId : Int) + 1) ∧ ((d.maxId : Int) + 1) ≤ I64_MAX := by
      simp [I64_MAX]; omega
    apply pDictionary_rt_noReal
    · simp only [WFObj, WF] at t1 ⊢
      exact ⟨Dict_nodup_set d.trailer SIZE _ t1.1, WFD_set_int _ _ _ hi t1.2⟩
    · simp only [height] at t2 ⊢
      have := heightD_set_int d.trailer SIZE ((d.maxId : Int) + 1)
      omega
    · exact NoRealD_set_int _ _ _ t3
  apply load_of_save_table order d out d' hk h hlen hmax hwf (hD _) ?_ hv1 hv2 hprev henc
  intro p hp
  obtain ⟨hr1, hr2⟩ := hwf.range p hp
  exact indirectReadsBack_of_ok _ _ _ (by simp [U32_MAX]; omega)
    (by have := hwf.gens p hp; simp [U16_MAX]; omega) (hobjs p hp)

/-- **`file_rt` as an equation on the object list.** If moreover `d.objects` is in `BTreeMap`
order (strictly ascending ids — what `lopdf` iterates), the loaded object list IS `d.objects`. -/
theorem file_rt_table_eq (order : Option (List Nat)) (d : SDoc) (out : Bytes) (d' : SDoc)
    (hk : d.xrefKind = .table) (h : saveFrom [] d = some (out, d')) (hlen : out.length < 4294967296)
    (hmax : d.maxId + 1 ≤ 4294967295) (hwf : DocWF d) (hsorted : SortedO d.objects)
    (hobjs : ∀ p ∈ d.objects, ObjOK p.2)
    (htr : WFObj (.dict d.trailer) ∧ height (.dict d.trailer) ≤ MAX_NESTING ∧ NoRealD d.trailer)
    (hv1 : ∀ b ∈ d.version, notEol b = true) (hv2 : validUtf8 d.version = true)
    (hprev : d.trailer.get PREV = none) (henc : d.trailer.has ENCRYPT = false) :
    ∃ L : Loaded, loadDocOrd order out = .ok L ∧ L.version = d.version ∧ L.binaryMark = d.binaryMark ∧
      L.trailer = d'.trailer ∧ L.xrefStart = (bodyOf [] d).length ∧ L.maxId ≤ d.maxId ∧
      L.objects = d.objects := by
  obtain ⟨L, h1, h2, h3, h4, h5, h6, h7, h8⟩ :=
    file_rt_table order d out d' hk h hlen hmax hwf hobjs htr hv1 hv2 hprev henc
  exact ⟨L, h1, h2, h3, h4, h5, h6, sorted_ext _ _ h8 hsorted h7⟩

example : SortedO [((1, 0), Obj.null), ((3, 2), .int 5), ((3, 4), .null)] := by
  simp [SortedO, idLt]

/-! ### `file_rt`, cross-reference stream -/

theorem WFD_iff (es : List (Bytes × Obj)) : WFD (fun _ => True) es ↔ ∀ p ∈ es, WF (fun _ => True) p.2 := by
  induction es with
  | nil => simp [WFD]
  | cons p rest ih => obtain ⟨k, v⟩ := p; simp [WFD, ih]

theorem WFL_iff (items : List Obj) : WFL (fun _ => True) items ↔ ∀ o ∈ items, WF (fun _ => True) o := by
  induction items with
  | nil => simp [WFL]
  | cons o rest ih => simp [WFL, ih]

theorem heightD_le_iff (es : List (Bytes × Obj)) (hgt : Nat) : heightD es ≤ hgt ↔ ∀ p ∈ es, height p.2 ≤ hgt := by
  induction es with
  | nil => simp [heightD]
  | cons p rest ih =>
    obtain ⟨k, v⟩ := p
    simp only [heightD, List.mem_cons, forall_eq_or_imp, ← ih]
    omega

theorem heightL_le_iff (items : List Obj) (hgt : Nat) : heightL items ≤ hgt ↔ ∀ o ∈ items, height o ≤ hgt := by
  induction items with
  | nil => simp [heightL]
  | cons o rest ih =>
    simp only [heightL, List.mem_cons, forall_eq_or_imp, ← ih]
    omega

theorem NoRealD_iff (es : List (Bytes × Obj)) : NoRealD es ↔ ∀ p ∈ es, NoReal p.2 := by
  induction es with
  | nil => simp [NoRealD]
  | cons p rest ih => obtain ⟨k, v⟩ := p; simp [NoRealD, ih]

theorem NoRealL_iff (items : List Obj) : NoRealL items ↔ ∀ o ∈ items, NoReal o := by
  induction items with
  | nil => simp [NoRealL]
  | cons o rest ih => simp [NoRealL, ih]

/-- a value is fine for the composed theorem -/
def ValOK (o : Obj) : Prop := WF (fun _ => True) o ∧ height o ≤ MAX_NESTING - 1 ∧ NoReal o

theorem intArr_ok (l : List Obj) (h : ∀ o ∈ l, ∃ n : Nat, o = .int (n : Int) ∧ n ≤ 4294967296) : ValOK (.arr l) := by
  refine ⟨?_, ?_, ?_⟩
  · simp only [WF]
    rw [WFL_iff]
    intro o ho
    obtain ⟨n, rfl, hn⟩ := h o ho
    simp only [WF, I64_MAX]; omega
  · simp only [height]
    have : heightL l ≤ 0 := by
      rw [heightL_le_iff]
      intro o ho
      obtain ⟨n, rfl, _⟩ := h o ho
      simp [height]
    have : 2 ≤ MAX_NESTING := by decide
    omega
  · simp only [NoReal]
    rw [NoRealL_iff]
    intro o ho
    obtain ⟨n, rfl, _⟩ := h o ho
    simp [NoReal]

theorem int_ok (n : Nat) (hn : n ≤ 4294967296) : ValOK (.int (n : Int)) := by
  refine ⟨by simp only [WF, I64_MAX]; omega, by simp [height], by simp [NoReal]⟩

/-- every entry of the dictionary `create_xref_steam` builds comes from the trailer or is one of
the five values the writer sets -/
theorem streamTrailer_values_ok (pre : Bytes) (d : SDoc) (hmax : d.maxId + 2 ≤ 4294967295) (hg : GensOk d)
    (hlen : (xrefStreamContent (streamSecs (xmapStream pre d) (d.maxId + 1))).length ≤ 4294967296)
    (htr : ∀ p ∈ d.trailer, ValOK p.2) : ∀ p ∈ streamTrailer pre d, ValOK p.2 := by
  intro p hp
  unfold streamTrailer at hp
  simp only at hp
  rcases Dict_mem_set _ _ _ _ hp with hp | hp
  · have hp := Dict_mem_remove _ _ _ hp
    rcases Dict_mem_set _ _ _ _ hp with hp | hp
    · rcases Dict_mem_set _ _ _ _ hp with hp | hp
      · rcases Dict_mem_set _ _ _ _ hp with hp | hp
        · rcases Dict_mem_set _ _ _ _ hp with hp | hp
          · exact htr p hp
          · subst hp; exact ⟨by simp [WF], by simp [height], by simp [NoReal]⟩
        · subst hp
          have := int_ok (d.maxId + 1 + 1) (by omega)
          simpa using this
      · subst hp
        apply intArr_ok
        intro o ho
        simp [XREF_W] at ho
        rcases ho with h | h | h <;> subst h
        · exact ⟨1, rfl, by omega⟩
        · exact ⟨4, rfl, by omega⟩
        · exact ⟨2, rfl, by omega⟩
    · subst hp
      apply intArr_ok
      intro o ho
      simp only [List.mem_flatten, List.mem_map] at ho
      obtain ⟨l, ⟨sec, hsec, rfl⟩, ho⟩ := ho
      obtain ⟨hb, _⟩ := streamSecs_ok (xmapStream pre d) (d.maxId + 1) (xmapStream_ok pre d hg) (by omega) sec hsec
      simp only [List.mem_cons, List.mem_nil_iff, or_false] at ho
      rcases ho with h | h <;> subst h
      · exact ⟨sec.1, rfl, by omega⟩
      · exact ⟨sec.2.length, rfl, by omega⟩
  · subst hp
    exact int_ok _ hlen

/-- **`file_rt`, cross-reference stream (C01).** As `file_rt_table` for documents saved with a
cross-reference stream (`Size = max_id + 2 ≤ u32::MAX`): `load (save d)` returns the same version
and binary mark, the stream dictionary minus `Length`/`W`/`Index` as trailer, the writer's
`startxref`, and for every object id the object `d` holds — plus the cross-reference stream
object itself under `(max_id + 1, 0)`. No parsing hypothesis is left. -/
theorem file_rt_stream (order : Option (List Nat)) (d : SDoc) (out : Bytes) (d' : SDoc)
    (hk : d.xrefKind = .stream) (h : saveFrom [] d = some (out, d')) (hlen : out.length < 4294967296)
    (hmax : d.maxId + 2 ≤ 4294967295) (hwf : DocWF d)
    (hobjs : ∀ p ∈ d.objects, ObjOK p.2)
    (htr : WFObj (.dict d.trailer) ∧ height (.dict d.trailer) ≤ MAX_NESTING ∧ NoRealD d.trailer)
    (hv1 : ∀ b ∈ d.version, notEol b = true) (hv2 : validUtf8 d.version = true)
    (hprev : d.trailer.get PREV = none) (henc : d.trailer.has ENCRYPT = false) :
    ∃ L : Loaded, loadDocOrd order out = .ok L ∧ L.version = d.version ∧ L.binaryMark = d.binaryMark ∧
      L.trailer = streamTrailerRead [] d ∧ L.xrefStart = (bodyOf [] d).length ∧ L.maxId ≤ d.maxId + 1 ∧
      ∀ id, L.objects.get id = (objectsWithXref d).get id := by
  obtain ⟨hout, htr'⟩ := saveFrom_stream_eq [] d out d' hk h
  obtain ⟨t1, t2, t3⟩ := htr
  simp only [WFObj, WF] at t1
  have hnd : d.trailer.keys.Nodup := t1.1
  have hclen : (xrefStreamContent (streamSecs (xmapStream [] d) (d.maxId + 1))).length ≤ 4294967296 := by
    have : (xrefStreamContent (streamSecs (xmapStream [] d) (d.maxId + 1))).length ≤ out.length := by
      rw [hout]
      simp only [List.length_append, writeIndirect, writeObj]
      omega
    omega
  have hvals : ∀ p ∈ d.trailer, ValOK p.2 := by
    intro p hp
    refine ⟨(WFD_iff d.trailer).mp t1.2 p hp, ?_, (NoRealD_iff d.trailer).mp t3 p hp⟩
    simp only [height] at t2
    have := (heightD_le_iff d.trailer (MAX_NESTING - 1)).mp (by omega) p hp
    exact this
  have hsv := streamTrailer_values_ok [] d hmax hwf.gens hclen hvals
  have hD : ∀ rest, DictReadsBack d'.trailer rest := by
    intro rest
    unfold DictReadsBack
    rw [htr']
    apply pDictionary_rt_noReal
    · simp only [WFObj, WF]
      exact ⟨streamTrailer_nodup [] d hnd, (WFD_iff _).mpr (fun p hp => (hsv p hp).1)⟩
    · simp only [height]
      have := (heightD_le_iff (streamTrailer [] d) (MAX_NESTING - 1)).mpr (fun p hp => (hsv p hp).2.1)
      have : 2 ≤ MAX_NESTING := by decide
      omega
    · exact (NoRealD_iff _).mpr (fun p hp => (hsv p hp).2.2)
  apply load_of_save_stream_with _ _ (loadDocOrd_arr_nil order) rfl d out d' hk h hlen hmax hwf hnd (hD _) ?_ hv1 hv2 hprev
    henc
  intro p hp
  obtain ⟨hr1, hr2⟩ := hwf.range p hp
  exact indirectReadsBack_of_ok _ _ _ (by simp [U32_MAX]; omega)
    (by have := hwf.gens p hp; simp [U16_MAX]; omega) (hobjs p hp)

/-! ### incremental saves -/

theorem setSize_readsBack (tr : Dict) (n : Nat) (hn : n ≤ 4294967296)
    (htr : WFObj (.dict tr) ∧ height (.dict tr) ≤ MAX_NESTING ∧ NoRealD tr) :
    ∀ rest, DictReadsBack (tr.set SIZE (.int ((n : Int) + 1))) rest := by
  obtain ⟨t1, t2, t3⟩ := htr
  intro rest
  unfold DictReadsBack
  have hi : -(I64_MAX : Int) - 1 ≤ ((n : Int) + 1) ∧ ((n : Int) + 1) ≤ I64_MAX := by
    simp [I64_MAX]; omega
  apply pDictionary_rt_noReal
  · simp only [WFObj, WF] at t1 ⊢
    exact ⟨Dict_nodup_set tr SIZE _ t1.1, WFD_set_int _ _ _ hi t1.2⟩
  · simp only [height] at t2 ⊢
    have := heightD_set_int tr SIZE ((n : Int) + 1)
    omega
  · exact NoRealD_set_int _ _ _ t3

/-- **Loading an incremental save (C07 `incr_load`), no parsing hypothesis left.** `d1` saved
plainly (classic table), then the revision `d2` saved on top by `IncrementalDocument::save` with
`Prev` = offset of the first cross-reference section; both well-formed and real-free, an object
of the new revision that re-uses a number keeps its generation; file < 4 GiB. Then `Reader::read`
on the two-revision file succeeds with the header of the first revision, the new trailer (minus
`Prev`), and for EVERY object id the object of the newest revision that holds it: new objects
override previous ones, untouched previous objects are still there, nothing else appears. -/
theorem file_rt_incr (order : Option (List Nat))
    (d1 d2 : SDoc) (out1 out2 : Bytes) (d1' d2' : SDoc)
    (hk1 : d1.xrefKind = .table) (hk2 : d2.xrefKind = .table)
    (h1 : saveFrom [] d1 = some (out1, d1')) (h2 : saveIncr out1 d2 = some (out2, d2'))
    (hlen : out2.length < 4294967296)
    (hmax1 : d1.maxId + 1 ≤ 4294967295) (hmax2 : d2.maxId + 1 ≤ 4294967295)
    (hwf1 : DocWF d1) (hwf2 : DocWF d2)
    (hobjs1 : ∀ p ∈ d1.objects, ObjOK p.2) (hobjs2 : ∀ p ∈ d2.objects, ObjOK p.2)
    (htr1 : WFObj (.dict d1.trailer) ∧ height (.dict d1.trailer) ≤ MAX_NESTING ∧ NoRealD d1.trailer)
    (htr2 : WFObj (.dict d2.trailer) ∧ height (.dict d2.trailer) ≤ MAX_NESTING ∧ NoRealD d2.trailer)
    (hgen : ∀ p2 ∈ d2.objects, ∀ p1 ∈ d1.objects, p2.1.1 = p1.1.1 → p2.1.2 = p1.1.2)
    (hprev : d2.trailer.get PREV = some (.int ((bodyOf [] d1).length : Int)))
    (hnoprev : d1.trailer.get PREV = none) (hstm : d2.trailer.get XREFSTM = none)
    (henc : d2.trailer.has ENCRYPT = false)
    (hv1 : ∀ b ∈ d1.version, notEol b = true) (hv2 : validUtf8 d1.version = true) :
    ∃ L : Loaded, loadDocOrd order out2 = .ok L ∧ L.version = d1.version ∧ L.binaryMark = d1.binaryMark ∧
      L.trailer = d2'.trailer.remove PREV ∧
      ∀ id, L.objects.get id = (d2.objects.get id).orElse (fun _ => d1.objects.get id) := by
  obtain ⟨_, e1⟩ := saveFrom_table_eq [] d1 out1 d1' hk1 h1
  obtain ⟨_, e2⟩ := saveFrom_table_eq (incrPre out1) d2 out2 d2' hk2 h2
  have hnd : d2.trailer.keys.Nodup := by
    have := htr2.1
    simp only [WFObj, WF] at this
    exact this.1
  have hobj : ∀ (d : SDoc), DocWF d → d.maxId + 1 ≤ 4294967295 → (∀ p ∈ d.objects, ObjOK p.2) →
      ∀ p ∈ d.objects, IndirectReadsBack p.1.1 p.1.2 p.2 := by
    intro d hwf hmax hobjs p hp
    obtain ⟨hr1, hr2⟩ := hwf.range p hp
    exact indirectReadsBack_of_ok _ _ _ (by simp [U32_MAX]; omega)
      (by have := hwf.gens p hp; simp [U16_MAX]; omega) (hobjs p hp)
  exact load_of_incr_save_with _ _ (loadDocOrd_arr_nil order) rfl d1 d2 out1 out2 d1' d2' hk1 hk2 h1 h2 hlen hmax1 hmax2
    hwf1 hwf2 hnd hgen hprev hnoprev hstm henc
    (fun rest => by rw [e1]; exact setSize_readsBack d1.trailer d1.maxId (by omega) htr1 _)
    (fun rest => by rw [e2]; exact setSize_readsBack d2.trailer d2.maxId (by omega) htr2 _)
    (hobj d1 hwf1 hmax1 hobjs1) (hobj d2 hwf2 hmax2 hobjs2) hv1 hv2

/-! ### `file_rt` with real numbers: what comes back is the normal form -/

theorem normD_get (es : List (Bytes × Obj)) (k : Bytes) : Dict.get (normD es) k = (Dict.get es k).map norm := by
  induction es with
  | nil => simp [normD, Dict.get]
  | cons p rest ih =>
    obtain ⟨q, w⟩ := p
    by_cases h : q = k <;> simp [normD, Dict.get, h, ih]

theorem asName_norm (v : Obj) : (norm v).asName = v.asName := by
  cases v with
  | real t =>
    simp only [norm, normReal]
    split
    · rfl
    · split <;> rfl
  | _ => simp [norm, Obj.asName]

/-- what the reader returns for a written object: reals in normal form (an integral real is read
as an integer — `norm`), inside a stream's dictionary too -/
def nfObj : Obj → Obj
  | .stream es c => .stream (normD es) c
  | o => norm o

/-- objects covered by `file_rt_table_norm`: every direct object within the nesting limit, and
streams with such a dictionary carrying the direct `Length` of the content -/
def ObjOKN : Obj → Prop
  | .stream es c => WFObj (.dict es) ∧ height (.dict es) ≤ MAX_NESTING ∧ Dict.get es LENGTH = some (.int c.length)
  | o => WFObj o ∧ height o ≤ MAX_NESTING

theorem nfObj_notObjStm (o : Obj) (h : NotObjStm o) : NotObjStm (nfObj o) := by
  cases o with
  | stream es c =>
    show Dict.getTypeIs (normD es) OBJSTM = false
    have h' : Dict.getTypeIs es OBJSTM = false := h
    unfold Dict.getTypeIs at h' ⊢
    rw [normD_get]
    cases hg : Dict.get es TYPE with
    | none => simp
    | some v => simpa [hg, asName_norm] using h'
  | real t =>
    simp only [nfObj, norm, normReal]
    split
    · trivial
    · split <;> trivial
  | _ => trivial

theorem indirect_nf (n g : Nat) (o : Obj) (hn : n ≤ U32_MAX) (hg : g ≤ U16_MAX) (h : ObjOKN o)
    (len : ObjId → Option Int) (base : Nat) (rest : Bytes) :
    pIndirect len none base (writeIndirect n g o ++ rest) = some ((n, g), .plain (nfObj o)) := by
  cases o with
  | stream es c =>
    obtain ⟨h1, h2, h4⟩ := h
    have hget : Dict.get (normD es) LENGTH = some (.int c.length) := by rw [normD_get, h4]; rfl
    have hl : ObjRt.lengthOf len (normD es) = some (Int.ofNat c.length) := by
      simp [ObjRt.lengthOf, hget]
    rw [indirect_stream_rt len none base n g es c rest hn hg (Or.inl rfl) h1 h2 hl, set_same _ LENGTH _ hget]
    rfl
  | null => exact indirect_rt len none base n g _ rest hn hg (Or.inl rfl) h.1 h.2
  | bool b => exact indirect_rt len none base n g _ rest hn hg (Or.inl rfl) h.1 h.2
  | int i => exact indirect_rt len none base n g _ rest hn hg (Or.inl rfl) h.1 h.2
  | real t => exact indirect_rt len none base n g _ rest hn hg (Or.inl rfl) h.1 h.2
  | name nm => exact indirect_rt len none base n g _ rest hn hg (Or.inl rfl) h.1 h.2
  | str s f => exact indirect_rt len none base n g _ rest hn hg (Or.inl rfl) h.1 h.2
  | arr items => exact indirect_rt len none base n g _ rest hn hg (Or.inl rfl) h.1 h.2
  | dict es => exact indirect_rt len none base n g _ rest hn hg (Or.inl rfl) h.1 h.2
  | ref a b => exact indirect_rt len none base n g _ rest hn hg (Or.inl rfl) h.1 h.2

/-- **`file_rt`, classic table, real numbers included (C01).** For EVERY well-formed document
within the nesting limit — no restriction on real numbers — `load (save d)` succeeds and returns
the same version and binary mark, the trailer in normal form (`normD`), and for every object id
the NORMAL FORM of the object `d` holds: identical except that a real whose `Display` text is
integral (e.g. `3`) is read back as the integer the text denotes — the only place where lopdf's
own writer/reader pair is not the identity. No parsing hypothesis is left. -/
theorem file_rt_table_norm (order : Option (List Nat)) (d : SDoc) (out : Bytes) (d' : SDoc)
    (hk : d.xrefKind = .table) (h : saveFrom [] d = some (out, d')) (hlen : out.length < 4294967296)
    (hmax : d.maxId + 1 ≤ 4294967295) (hwf : DocWF d)
    (hobjs : ∀ p ∈ d.objects, ObjOKN p.2)
    (htr : WFObj (.dict d.trailer) ∧ height (.dict d.trailer) ≤ MAX_NESTING)
    (hv1 : ∀ b ∈ d.version, notEol b = true) (hv2 : validUtf8 d.version = true)
    (hprev : d.trailer.get PREV = none) (henc : d.trailer.has ENCRYPT = false) :
    ∃ L : Loaded, loadDocOrd order out = .ok L ∧ L.version = d.version ∧ L.binaryMark = d.binaryMark ∧
      L.trailer = normD d'.trailer ∧ L.xrefStart = (bodyOf [] d).length ∧ L.maxId ≤ d.maxId ∧
      (∀ id, L.objects.get id = (d.objects.get id).map nfObj) ∧ SortedO L.objects := by
  obtain ⟨_, htr'⟩ := saveFrom_table_eq [] d out d' hk h
  obtain ⟨t1, t2⟩ := htr
  have k1 : ¬ SIZE = PREV := by decide
  have k2 : ¬ SIZE = ENCRYPT := by decide
  have hi : -(I64_MAX : Int) - 1 ≤ ((d.maxId : Int) + 1) ∧ ((d.maxId : Int) + 1) ≤ I64_MAX := by
    simp [I64_MAX]; omega
  have hD : ∀ rest, DictReadsBackN d'.trailer (normD d'.trailer) rest := by
    intro rest
    unfold DictReadsBackN
    rw [htr']
    apply pDictionary_rt
    · simp only [WFObj, WF] at t1 ⊢
      exact ⟨Dict_nodup_set d.trailer SIZE _ t1.1, WFD_set_int _ _ _ hi t1.2⟩
    · simp only [height] at t2 ⊢
      have := heightD_set_int d.trailer SIZE ((d.maxId : Int) + 1)
      omega
  apply load_of_save_table_withN _ _ (loadDocOrd_arr_nil order) rfl nfObj nfObj_notObjStm d out d' (normD d'.trailer)
    hk h hlen hmax hwf (hD _) ?_ ?_ hv1 hv2 ?_ ?_
  · rw [normD_get, htr', Dict.get_set_same]; simp [norm]
  · intro p hp len base rest
    obtain ⟨hr1, hr2⟩ := hwf.range p hp
    exact indirect_nf _ _ _ (by simp [U32_MAX]; omega) (by have := hwf.gens p hp; simp [U16_MAX]; omega)
      (hobjs p hp) len base rest
  · rw [normD_get, htr', Dict_get_set]; simp only [k1, if_false]; rw [hprev]; rfl
  · rw [Dict_has_eq, normD_get, htr', Dict_get_set]; simp only [k2, if_false]
    have : (d.trailer.get ENCRYPT).isSome = false := henc
    cases hg : d.trailer.get ENCRYPT with
    | none => rfl
    | some v => rw [hg] at this; simp at this

/-- a real with an integral text comes back as an integer, a decimal one as itself -/
example : nfObj (.arr [.real [51], .real [51, 46, 53]]) = .arr [.int 3, .real [51, 46, 53]] := by
  rfl

/-- non-vacuity of `ObjOKN` on an object with a real number -/
example : ObjOKN (.arr [.real [51, 46, 53], .int 2]) := by
  refine ⟨?_, ?_⟩
  · simp only [WFObj, WF, WFL, and_true]
    refine ⟨Or.inl ⟨⟨false, [51], [53], rfl, by simp, ?_, ?_⟩⟩, by simp [I64_MAX]⟩
    · intro b hb; simp at hb; subst hb; decide
    · intro b hb; simp at hb; subst hb; decide
  · simp [height, heightL, MAX_NESTING]

/-! ### non-vacuity -/

def exDoc : SDoc := SDoc.mk [49, 46, 53] [187, 173, 192, 222] [] [] 0 .table

theorem nd_le (n : Nat) (h : n < 10000000000) : (natDigits n).length ≤ 10 := natDigits_length_le 10 n (by omega) (by omega)

theorem exDoc_saves : ∃ out d', saveFrom [] exDoc = some (out, d') ∧ out.length < 4294967296 := by
  obtain ⟨out, d', h⟩ := saveFrom_some [] exDoc (by decide)
  refine ⟨out, d', h, ?_⟩
  obtain ⟨hout, _⟩ := saveFrom_table_eq [] exDoc out d' rfl h
  have hb : (bodyOf [] exDoc).length = 15 := by simp [bodyOf, hdrOf, exDoc, writeObjects, PDF_KW]
  have hname : writeName SIZE = [47, 83, 105, 122, 101] := by decide
  have hi : ((exDoc.maxId : Int) + 1) = Int.ofNat 1 := rfl
  have hw : (writeObj (.dict (exDoc.trailer.set SIZE (.int ((exDoc.maxId : Int) + 1))))).length ≤ 30 := by
    have h1 := nd_le 1 (by omega)
    rw [hi]
    simp [exDoc, Dict.set, writeObj, writeDictBody, hname, needSeparator, writeInt]
    omega
  have hx : (writeXrefTable (xmapOf [] exDoc) (exDoc.maxId + 1)).length ≤ 60 := by
    have := xrefEntryLine_length_none
    have h0 := nd_le 0 (by omega)
    have h1 := nd_le 1 (by omega)
    simp [writeXrefTable, exDoc, xrefTableLoop, xrefSectionBytes, XREF_KW, this]
    omega
  have hn := nd_le 15 (by omega)
  rw [hout, hb]
  simp only [List.length_append, hb, TRAILER_KW, STARTXREF_KW, EOF_KW, List.length_cons, List.length_nil]
  omega

/-- the hypotheses of `file_rt_table` are jointly satisfiable (the empty document), so its
conclusion is obtained outright -/
example : ∃ out d' L, saveFrom [] exDoc = some (out, d') ∧ loadDocOrd none out = .ok L ∧
    L.version = [49, 46, 53] ∧ L.binaryMark = [187, 173, 192, 222] := by
  obtain ⟨out, d', h, hlen⟩ := exDoc_saves
  obtain ⟨L, h1, h2, h3, _⟩ := file_rt_table none exDoc out d' rfl h hlen (by decide)
    ⟨by simp [exDoc], by intro p hp; simp [exDoc] at hp, by intro p hp; simp [exDoc] at hp,
      by intro p hp; simp [exDoc] at hp⟩
    (by intro p hp; simp [exDoc] at hp)
    ⟨by simp [exDoc, WFObj, WF, WFD], by simp [exDoc, height, heightD, MAX_NESTING], by simp [exDoc, NoRealD]⟩
    (by intro b hb; simp [exDoc] at hb; rcases hb with h | h | h <;> subst h <;> decide) (by decide)
    (by simp [exDoc, Dict.get]) (by simp [exDoc, Dict.has, Dict.get])
  exact ⟨out, d', L, h, h1, h2, h3⟩

/-- object-side hypotheses are satisfiable by non-trivial objects: a nested dictionary with a
reference and a string, and a stream with its direct `Length` -/
example : ObjOK (.dict [(TYPE, .name [67, 97, 116]), ([75], .arr [.ref 3 0, .str [40, 92] .lit, .int (-7)])]) := by
  refine ⟨?_, ?_, ?_⟩
  · simp [WFObj, WF, WFD, WFL, TYPE, U32_MAX, U16_MAX, I64_MAX]
  · simp [height, heightD, heightL, MAX_NESTING]
  · simp [NoReal, NoRealD, NoRealL]
example : ObjOK (.stream [(LENGTH, .int 2)] [1, 2]) := by
  refine ⟨?_, ?_, ?_, ?_⟩
  · simp [WFObj, WF, WFD, I64_MAX]
  · simp [height, heightD, MAX_NESTING]
  · simp [NoRealD, NoReal]
  · simp [Dict.get]
example : DocWF (SDoc.mk [49, 46, 53] [187] [] [((1, 0), .null), ((3, 2), .int 5)] 4 .table) := by
  refine ⟨by simp, ?_, ?_, ?_⟩
  · intro p hp; simp at hp; rcases hp with h | h <;> subst h <;> simp
  · intro p hp; simp at hp; rcases hp with h | h <;> subst h <;> simp
  · intro p hp; simp at hp; rcases hp with h | h <;> subst h <;> rfl

end Lopdf.FileRT
