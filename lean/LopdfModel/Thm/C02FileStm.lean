import LopdfModel.Thm.C02File
import LopdfModel.Thm.C02XrefStm
/-
  C02 — WHOLE FILES, cross-reference-STREAM style, one revision (no object streams yet): header,
  any body, an `/XRef` stream object (any `W` incl. zero widths, any `Index`, unfiltered) as the
  last section, `startxref`.  Also the table-independent half of the whole-file theorems
  (`loadDoc_of_defined`): whatever produced the cross-reference map, if every number it binds is
  defined by the file at the bound offset, the file loads to exactly these objects.
-/
namespace Lopdf.Grammar
open Lopdf Gen

/-- **the object-loading half of `Reader::read`**, for any cross-reference map `x0` whose
bindings are all of type 1 and defined by the file -/
theorem loadDoc_of_defined (file ver : Bytes) (xs : Nat) (x0 : XTable) (size0 : Nat) (tr0 : Dict)
    (val : Nat → Nat × Obj)
    (g0 : findFrom PDF_KW (file.length + 1) file 0 = some 0) (g1 : pHeader file = some ver)
    (g2 : getXrefStart file = some xs) (g2' : xs ≤ file.length)
    (g3 : xrefAndTrailer (file.drop xs) = .ok (x0, size0, tr0))
    (hprev : tr0.get PREV = none) (henc : tr0.get ENCRYPT = none) (hmax : x0.maxId + 1 < 4294967296)
    (hdef : ∀ k e, x0.get k = some e → ∃ off, e = .normal off (val k).1 ∧ DefinesAt file off k (val k).1 (val k).2) :
    ∃ L, loadDoc file = .ok L ∧ L.version = ver ∧ L.trailer = tr0 ∧ L.xrefStart = xs ∧ L.maxId = x0.maxId ∧
      (∀ k e, x0.get k = some e → L.objects.get (k, (val k).1) = some (val k).2) ∧
      (∀ id : ObjId, (x0.get id.1 = none ∨ id.2 ≠ (val id.1).1) → L.objects.get id = none) := by
  have hobj : ∀ p ∈ x0.sorted, ∃ off, p.2 = .normal off (val p.1).1 ∧ off ≤ file.length ∧
      (∀ len, pIndirect len none off (file.drop off) = some ((p.1, (val p.1).1), .plain (val p.1).2)) ∧
      NotObjStm (val p.1).2 := by
    intro p hp
    obtain ⟨k, e⟩ := p
    obtain ⟨off, h1, h2, sp', ibs, rest, h3, h4, h5, h6⟩ := hdef k e ((mem_sorted_iff _ k e).mp hp)
    refine ⟨off, h1, h2, ?_, h6⟩
    intro len
    rw [h3]
    exact indirect_any h5 sp' rest h4 len none off (by intro e he; cases he)
  have g7 := loadSteps_defined file x0 x0.sorted.length val x0.sorted [] hobj
  have g9 : AllPlain (loadedOf val [] x0.sorted) := allPlain_loadedOf val _ [] (by intro p hp; simp at hp)
  have g6 : tr0.has ENCRYPT = false := by simp [Dict.has, henc]
  obtain ⟨mark, hload⟩ := loadDocWith_of_parts id id file ver _ x0 _ tr0 _
    g0 g1 g2 g2' g3 hprev (by simpa [U32] using hmax) g6 g7 rfl rfl g9
  refine ⟨_, hload, rfl, rfl, rfl, rfl, ?_, ?_⟩
  · intro k e hke
    show Objects.get (asObjects _) (k, (val k).1) = some (val k).2
    rw [asObjects_get, loadedOf_get]
    have : (∃ p ∈ x0.sorted, p.1 = (k, (val k).1).1) ∧ (k, (val k).1).2 = (val (k, (val k).1).1).1 :=
      ⟨⟨(k, e), (mem_sorted_iff _ k e).mpr hke, rfl⟩, rfl⟩
    rw [if_pos this]
    rfl
  · intro id hid
    show Objects.get (asObjects _) id = none
    rw [asObjects_get, loadedOf_get]
    have : ¬ ((∃ p ∈ x0.sorted, p.1 = id.1) ∧ id.2 = (val id.1).1) := by
      rintro ⟨⟨p, hp, h1⟩, h2⟩
      rcases hid with h | h
      · obtain ⟨pk, pe⟩ := p
        have := (mem_sorted_iff _ pk pe).mp hp
        simp only at h1; subst h1
        rw [h] at this; cases this
      · exact h h2
    rw [if_neg this]
    rfl

/-- an indirect object starts with a digit -/
theorem indirect_head_digit {id : ObjId} {o : Obj} {ibs : Bytes} (h : DerivesIndirect id o ibs) (z : Bytes) :
    ∃ c r, ibs ++ z = c :: r ∧ isDigit c = true := by
  match h with
  | .plain d n g o d1 sp1 d2 sp2 sp3 bs sp4 h1 _ _ _ _ _ _ _ _ _ _ =>
    obtain ⟨c, r, hcr, hc⟩ := head_digit h1
      ((sp1 ++ (d2 ++ (sp2 ++ ([111, 98, 106] ++ (sp3 ++ (bs ++ (sp4 ++ [101, 110, 100, 111, 98, 106]))))))) ++ z)
    exact ⟨c, r, by simpa using hcr, hc⟩
  | .stream d n g es d1 sp1 d2 sp2 sp3 sp ebs sp5 bl e data e' sp6 h1 _ _ _ _ _ _ _ _ _ _ _ _ _ _ _ =>
    obtain ⟨c, r, hcr, hc⟩ := head_digit h1
      ((sp1 ++ (d2 ++ (sp2 ++ ([111, 98, 106] ++ (sp3 ++
        (streamSpelling sp ebs sp5 bl e data e' ++ (sp6 ++ [101, 110, 100, 111, 98, 106]))))))) ++ z)
    exact ⟨c, r, by simpa using hcr, hc⟩

/-- **The cross-reference section of the stream style**: an `/XRef` stream object in any
spelling whose data are the reference encoding of the rows is read by `xref_and_trailer` to the
map the rows denote and the stream dictionary (without `Length`, `W`, `Index`) as the trailer. -/
theorem xrefAndTrailer_stream {id : ObjId} {ibs : Bytes} (dct : Dict) (size : Int) (w1 w2 w3 : Nat)
    (subs : List SSub) (rest : Bytes)
    (hX : DerivesIndirect id (.stream dct (encodeSubs w1 w2 w3 subs)) ibs)
    (hF : dct.has FILTER = false) (hS : dct.get SIZE = some (.int size))
    (hW : dct.get W_KEY = some (.arr [.int w1, .int w2, .int w3])) (hI : IndexDenotes dct size subs)
    (hok : SubsOk w1 w2 w3 subs) (hrows : 0 < totalRows subs) (hwid : 0 < w1 + w2 + w3) :
    xrefAndTrailer (ibs ++ rest) =
      .ok (streamTableOf subs, (size % (U32 : Int)).toNat, ((dct.remove LENGTH).remove W_KEY).remove INDEX) := by
  obtain ⟨c, r, hcr, hc⟩ := indirect_head_digit hX rest
  have h1 : pXref (ibs ++ rest) = .ok none := by
    rw [hcr]
    have : tag pXref.XREF_WORD (c :: r) = none := by
      simp only [pXref.XREF_WORD, tag]
      have : (120 : UInt8) ≠ c := by intro e; subst e; simp [isDigit] at hc
      simp [this]
    simp [pXref, this]
  have h2 := indirect_any hX [] rest .nil (fun _ => none) none 0 (by intro e he; cases he)
  simp only [List.nil_append] at h2
  have h3 := xrefStream_complete dct size w1 w2 w3 subs hF hS hW hI hok hrows hwid
  unfold xrefAndTrailer
  simp only [h1, xrefAndTrailer.xrefStreamAlt, h2, h3]

/-- the five facts about a file of the cross-reference-stream style that `Reader::read` needs
before it loads the objects -/
theorem streamFile_parts {id : ObjId} {ibs : Bytes} (ver e0 body : Bytes) (dct : Dict) (size : Int)
    (w1 w2 w3 : Nat) (subs : List SSub) (sp7 e1 s1 ds s2 e2 post : Bytes)
    (hv : ∀ b ∈ ver, b < 128 ∧ notEol b = true) (he0 : IsEol e0)
    (hX : DerivesIndirect id (.stream dct (encodeSubs w1 w2 w3 subs)) ibs)
    (hF : dct.has FILTER = false) (hS : dct.get SIZE = some (.int size))
    (hW : dct.get W_KEY = some (.arr [.int w1, .int w2, .int w3])) (hI : IndexDenotes dct size subs)
    (hok : SubsOk w1 w2 w3 subs) (hrows : 0 < totalRows subs) (hwid : 0 < w1 + w2 + w3)
    (he1 : IsEol e1) (hs1 : AllSp s1) (hds : DerivesNat (PDF_KW ++ (ver ++ (e0 ++ body))).length ds)
    (hs2 : AllSp s2) (he2 : IsEol e2) (hpost : IsFileEnd post)
    (hshort : (STARTXREF ++ (e1 ++ (s1 ++ (ds ++ (s2 ++ e2))))).length ≤ 25)
    (file : Bytes)
    (hfile : file = (PDF_KW ++ (ver ++ (e0 ++ body))) ++ (ibs ++ (sp7 ++ (STARTXREF ++ (e1 ++ (s1 ++ (ds ++
      (s2 ++ (e2 ++ (EOF_MARK ++ post)))))))))) :
    findFrom PDF_KW (file.length + 1) file 0 = some 0 ∧ pHeader file = some ver ∧
    getXrefStart file = some (PDF_KW ++ (ver ++ (e0 ++ body))).length ∧
    (PDF_KW ++ (ver ++ (e0 ++ body))).length ≤ file.length ∧
    xrefAndTrailer (file.drop (PDF_KW ++ (ver ++ (e0 ++ body))).length) =
      .ok (streamTableOf subs, (size % (U32 : Int)).toNat, ((dct.remove LENGTH).remove W_KEY).remove INDEX) := by
  have hlen : (PDF_KW ++ (ver ++ (e0 ++ body))).length ≤ I64MAX := by
    obtain ⟨_, hdig, hval⟩ := derivesNat_facts hds
    have hl : ds.length ≤ 15 := by
      have h1 : 1 ≤ e1.length := by cases he1 <;> simp
      have h2 : 1 ≤ e2.length := by cases he2 <;> simp
      simp only [List.length_append, STARTXREF, List.length_cons, List.length_nil] at hshort
      omega
    have hb := digitsVal_lt_pow ds hdig
    rw [hval] at hb
    have : 10 ^ ds.length ≤ 10 ^ 15 := Nat.pow_le_pow_right (by decide) hl
    simp only [I64MAX]; omega
  have hib : 17 ≤ ibs.length := by
    -- `n g obj … endstream … endobj`: the keywords alone are longer
    match hX with
    | .stream d n g es d1 sp1 d2 sp2 sp3 sp ebs sp5 bl e data e' sp6 _ _ _ _ _ _ _ _ _ _ _ _ _ _ _ _ =>
      simp only [streamSpelling, List.length_append, List.length_cons, List.length_nil]; omega
  have hlong : 25 < ((PDF_KW ++ (ver ++ (e0 ++ body))) ++ (ibs ++ sp7) ++ (STARTXREF ++ (e1 ++ (s1 ++ (ds ++ (s2 ++ e2)))))).length := by
    simp only [List.length_append, PDF_KW, STARTXREF, List.length_cons, List.length_nil]
    omega
  have hfile2 : file = ((PDF_KW ++ (ver ++ (e0 ++ body))) ++ (ibs ++ sp7)) ++ (STARTXREF ++ (e1 ++ (s1 ++ (ds ++
      (s2 ++ (e2 ++ (EOF_MARK ++ post))))))) := by rw [hfile]; simp
  have g2 : getXrefStart file = some (PDF_KW ++ (ver ++ (e0 ++ body))).length := by
    rw [hfile2]
    exact getXrefStart_complete _ _ e1 s1 ds s2 e2 post he1 hs1 hds hlen hs2 he2 hpost hshort hlong
  have hfile3 : file = PDF_KW ++ (ver ++ (e0 ++ (body ++ (ibs ++ (sp7 ++ (STARTXREF ++ (e1 ++ (s1 ++ (ds ++
      (s2 ++ (e2 ++ (EOF_MARK ++ post)))))))))))) := by rw [hfile]; simp
  have g0 : findFrom PDF_KW (file.length + 1) file 0 = some 0 := by
    rw [hfile3]; exact findFrom_prefix PDF_KW _ (by decide)
  have g1 : pHeader file = some ver := by rw [hfile3]; exact header_complete ver e0 _ hv he0
  have g3 : xrefAndTrailer (file.drop (PDF_KW ++ (ver ++ (e0 ++ body))).length) =
      .ok (streamTableOf subs, (size % (U32 : Int)).toNat, ((dct.remove LENGTH).remove W_KEY).remove INDEX) := by
    rw [hfile, List.drop_left]
    exact xrefAndTrailer_stream dct size w1 w2 w3 subs _ hX hF hS hW hI hok hrows hwid
  have g2' : (PDF_KW ++ (ver ++ (e0 ++ body))).length ≤ file.length := by
    rw [hfile]; simp only [List.length_append]; omega
  exact ⟨g0, g1, g2, g2', g3⟩

/-- **Whole files (cross-reference-stream style, one revision, no object streams), every
spelling.**  The file: `%PDF-` version EOL, ANY body, an `/XRef` stream object in any spelling of
the indirect-object grammar — dictionary with integer `Size`, `W [w1 w2 w3]` (any widths, not all
zero), `Index` naming the subsections (or absent), no `Filter`, no `Prev`, no `Encrypt`; data =
the reference encoding of well-formed rows of ANY type —, ANY bytes (`sp7`), the
`startxref` section stating the offset of that object, `%%EOF`.  If every number the rows bind is
bound by a type-1 row and DEFINED by the file at the bound offset, `Reader::read` succeeds and
the document has the version text, the stream dictionary without `Length`/`W`/`Index` as its
trailer, and EXACTLY the objects the file defines. -/
theorem loadDoc_complete_stream {id : ObjId} {ibs : Bytes} (ver e0 body : Bytes) (dct : Dict) (size : Int)
    (w1 w2 w3 : Nat) (subs : List SSub) (sp7 e1 s1 ds s2 e2 post : Bytes) (val : Nat → Nat × Obj)
    (hv : ∀ b ∈ ver, b < 128 ∧ notEol b = true) (he0 : IsEol e0)
    (hX : DerivesIndirect id (.stream dct (encodeSubs w1 w2 w3 subs)) ibs)
    (hF : dct.has FILTER = false) (hS : dct.get SIZE = some (.int size))
    (hW : dct.get W_KEY = some (.arr [.int w1, .int w2, .int w3])) (hI : IndexDenotes dct size subs)
    (hok : SubsOk w1 w2 w3 subs) (hrows : 0 < totalRows subs) (hwid : 0 < w1 + w2 + w3)
    (hprev : (((dct.remove LENGTH).remove W_KEY).remove INDEX).get PREV = none)
    (henc : (((dct.remove LENGTH).remove W_KEY).remove INDEX).get ENCRYPT = none)
    (he1 : IsEol e1) (hs1 : AllSp s1) (hds : DerivesNat (PDF_KW ++ (ver ++ (e0 ++ body))).length ds)
    (hs2 : AllSp s2) (he2 : IsEol e2) (hpost : IsFileEnd post)
    (hshort : (STARTXREF ++ (e1 ++ (s1 ++ (ds ++ (s2 ++ e2))))).length ≤ 25)
    (hmax : (streamTableOf subs).maxId + 1 < 4294967296)
    (file : Bytes)
    (hfile : file = (PDF_KW ++ (ver ++ (e0 ++ body))) ++ (ibs ++ (sp7 ++ (STARTXREF ++ (e1 ++ (s1 ++ (ds ++
      (s2 ++ (e2 ++ (EOF_MARK ++ post))))))))))
    (hdef : ∀ k e, (streamTableOf subs).get k = some e →
      ∃ off, e = .normal off (val k).1 ∧ DefinesAt file off k (val k).1 (val k).2) :
    ∃ L, loadDoc file = .ok L ∧ L.version = ver ∧
      L.trailer = ((dct.remove LENGTH).remove W_KEY).remove INDEX ∧
      L.xrefStart = (PDF_KW ++ (ver ++ (e0 ++ body))).length ∧ L.maxId = (streamTableOf subs).maxId ∧
      (∀ k e, (streamTableOf subs).get k = some e → L.objects.get (k, (val k).1) = some (val k).2) ∧
      (∀ id : ObjId, ((streamTableOf subs).get id.1 = none ∨ id.2 ≠ (val id.1).1) → L.objects.get id = none) := by
  obtain ⟨g0, g1, g2, g2', g3⟩ := streamFile_parts ver e0 body dct size w1 w2 w3 subs sp7 e1 s1 ds s2 e2 post hv he0 hX
    hF hS hW hI hok hrows hwid he1 hs1 hds hs2 he2 hpost hshort file hfile
  exact loadDoc_of_defined file ver _ _ _ _ val g0 g1 g2 g2' g3 hprev henc hmax hdef

end Lopdf.Grammar
