import LopdfModel.Thm.C11Distinct
import LopdfModel.Model.Parse
import LopdfModel.Model.Read
/-
  What the PARSER returns is distinct-keyed at every depth: `inner_dictionary` folds the entries
  with `Dictionary::set` (an `IndexMap` insert — a repeated key overwrites), so every dictionary
  inside a parsed object has pairwise distinct keys. Together with `distinct_run`
  (Thm/C11Distinct) this discharges the `DistinctKeys` hypothesis of the `delete_object`
  theorems for objects that come out of `parser::direct_object`.
-/
namespace Lopdf.Ed
open Lopdf Lopdf.DictL

theorem pReference_nd (inp : Bytes) (o : Obj) (r : Bytes) (h : pReference inp = some (o, r)) : DeepND o := by
  unfold pReference at h
  cases h1 : pUnsigned U32_MAX inp with
  | none => rw [h1] at h; cases h
  | some p1 =>
    rw [h1] at h; simp only [Option.bind_some] at h
    cases h2 : pUnsigned U16_MAX (space p1.2) with
    | none => rw [h2] at h; cases h
    | some p2 =>
      rw [h2] at h; simp only [Option.bind_some] at h
      split at h
      · cases h; simp [DeepND]
      · cases h

theorem parse_nd : ∀ (fuel : Nat),
    (∀ depth inp o r, directObjects fuel depth inp = .ok o r → DeepND o) ∧
    (∀ depth inp o r, directObject fuel depth inp = .ok o r → DeepND o) ∧
    (∀ depth n inp os r, manyObjects fuel depth n inp = some (os, r) → ∀ x ∈ os, DeepND x) ∧
    (∀ depth n inp acc es r, DictND acc → dictEntries fuel depth n inp acc = some (es, r) → DictND es) := by
  intro fuel
  induction fuel with
  | zero =>
    have h1 : ∀ depth inp o r, directObjects 0 depth inp = .ok o r → DeepND o := by
      intro depth inp o r h; simp [directObjects] at h
    have h2 : ∀ depth inp o r, directObject 0 depth inp = .ok o r → DeepND o := by
      intro depth inp o r h; simp [directObject, directObjects] at h
    refine ⟨h1, h2, ?_, ?_⟩
    · intro depth n
      induction n with
      | zero => intro inp os r h; simp [manyObjects] at h; obtain ⟨e1, _⟩ := h; subst e1; intro x hx; cases hx
      | succ n ih =>
        intro inp os r h
        simp only [manyObjects, directObject, directObjects] at h
        simp at h; obtain ⟨e1, _⟩ := h; subst e1; intro x hx; cases hx
    · intro depth n
      induction n with
      | zero => intro inp acc es r ha h; simp [dictEntries] at h; obtain ⟨e1, _⟩ := h; subst e1; exact ha
      | succ n ih =>
        intro inp acc es r ha h
        simp only [dictEntries] at h
        split at h
        · simp only [directObject, directObjects] at h
          simp at h; obtain ⟨e1, _⟩ := h; subst e1; exact ha
        · simp at h; obtain ⟨e1, _⟩ := h; subst e1; exact ha
  | succ f ih =>
    obtain ⟨ih1, ih2, ih3, ih4⟩ := ih
    have h1 : ∀ depth inp o r, directObjects (f + 1) depth inp = .ok o r → DeepND o := by
      intro depth inp o r h
      unfold directObjects at h
      repeat' split at h
      all_goals (first | (cases h; done) | (cases h; simp [DeepND]; done) | skip)
      · -- reference
        rename_i hp
        cases h
        exact pReference_nd _ _ _ hp
      · -- array
        cases h
        rw [deepND_arr]
        exact ih3 _ _ _ _ _ (by assumption)
      · cases h
        rw [deepND_dict]
        exact ih4 _ _ _ _ _ _ dictND_nil (by assumption)
    have h2 : ∀ depth inp o r, directObject (f + 1) depth inp = .ok o r → DeepND o := by
      intro depth inp o r h
      simp only [directObject] at h
      split at h
      · rename_i o' r' ho; cases h; exact h1 _ _ _ _ ho
      · cases h
      · cases h
    refine ⟨h1, h2, ?_, ?_⟩
    · intro depth n
      induction n with
      | zero => intro inp os r h; simp [manyObjects] at h; obtain ⟨e1, _⟩ := h; subst e1; intro x hx; cases hx
      | succ n ihn =>
        intro inp os r h
        simp only [manyObjects] at h
        split at h
        · rename_i o r' ho
          cases hm : manyObjects (f + 1) depth n r' with
          | none => rw [hm] at h; simp at h
          | some p =>
            obtain ⟨os', r''⟩ := p
            rw [hm] at h; simp at h
            obtain ⟨e1, _⟩ := h; subst e1
            intro x hx
            rcases List.mem_cons.mp hx with rfl | hx
            · exact h2 _ _ _ _ ho
            · exact ihn _ _ _ hm x hx
        · simp at h; obtain ⟨e1, _⟩ := h; subst e1; intro x hx; cases hx
        · cases h
    · intro depth n
      induction n with
      | zero => intro inp acc es r ha h; simp [dictEntries] at h; obtain ⟨e1, _⟩ := h; subst e1; exact ha
      | succ n ihn =>
        intro inp acc es r ha h
        simp only [dictEntries] at h
        split at h
        · split at h
          · exact ihn _ _ _ _ (dictND_set ha _ _ (h2 _ _ _ _ (by assumption))) h
          · simp at h; obtain ⟨e1, _⟩ := h; subst e1; exact ha
          · cases h
        · simp at h; obtain ⟨e1, _⟩ := h; subst e1; exact ha

/-- **`parser::direct_object` returns distinct-keyed objects**, for every input. -/
theorem parseDirect_nd (inp : Bytes) (o : Obj) (r : Bytes) (h : parseDirect inp = some (o, r)) : DeepND o := by
  unfold parseDirect at h
  split at h
  · rename_i o' r' ho; cases h; exact (parse_nd _).2.1 _ _ _ _ ho
  · cases h

/-- non-vacuity: `Dictionary::set` on a key that is already there overwrites (so `<</A 1/A 2>>` parses to the ONE entry
`/A 2`; `#eval parseDirect [60,60,47,65,32,49,47,65,32,50,62,62]` = `some (dict [([65], int 2)], [])`) -/
example : Dict.set (Dict.set [] [65] (.int 1)) [65] (.int 2) = [([65], Obj.int 2)] := by rfl

/-! ### the members an object stream contributes -/

theorem pairs_nd (content : Bytes) (first : Nat) : ∀ (n : Nat) (nums : List (Option Nat)) (seen : List Nat), nums.length ≤ n →
    ∀ p ∈ objStmObjects.pairs content first nums seen, DeepND p.2 := by
  intro n
  induction n with
  | zero =>
    intro nums seen hl p hp
    have : nums = [] := List.length_eq_zero_iff.mp (Nat.le_zero.mp hl)
    subst this
    simp [objStmObjects.pairs] at hp
  | succ k ih =>
    intro nums seen hl p hp
    match nums with
    | [] => simp [objStmObjects.pairs] at hp
    | [_] => simp [objStmObjects.pairs] at hp
    | a :: b :: rest =>
      have hr : rest.length ≤ k := by simp at hl; omega
      unfold objStmObjects.pairs at hp
      split at hp
      · exact ih rest _ hr p hp
      · simp only at hp
        split at hp
        · exact ih rest _ hr p hp
        · split at hp
          · exact ih rest _ hr p hp
          · split at hp
            · exact ih rest _ hr p hp
            · split at hp
              · rename_i obj r hpd
                rcases List.mem_cons.mp hp with rfl | hp
                · exact parseDirect_nd _ _ _ hpd
                · exact ih rest _ hr p hp
              · exact ih rest _ hr p hp

theorem dedupLast_vals (P : Obj → Prop) (l : List (ObjId × Obj)) (h : ∀ p ∈ l, P p.2) : ∀ p ∈ dedupLast l, P p.2 := by
  unfold dedupLast
  have : ∀ (l acc : List (ObjId × Obj)), (∀ p ∈ l, P p.2) → (∀ p ∈ acc, P p.2) →
      ∀ p ∈ l.foldl (fun (acc : List (ObjId × Obj)) (p : ObjId × Obj) =>
        if acc.any (fun q => q.1 == p.1) then acc.map (fun q => if q.1 == p.1 then (q.1, p.2) else q) else acc ++ [p]) acc, P p.2 := by
    intro l
    induction l with
    | nil => intro acc _ ha; simpa using ha
    | cons x xs ih =>
      intro acc hl ha
      simp only [List.foldl_cons]
      apply ih _ (fun p hp => hl p (List.mem_cons_of_mem _ hp))
      have hx := hl x List.mem_cons_self
      split
      · intro p hp
        obtain ⟨q, hq, rfl⟩ := List.mem_map.mp hp
        split
        · exact hx
        · exact ha q hq
      · intro p hp
        rcases List.mem_append.mp hp with hp | hp
        · exact ha p hp
        · simp at hp; subst hp; exact hx
  exact this l [] h (by intro p hp; cases hp)

/-- **every member an object stream contributes is distinct-keyed** -/
theorem objStmObjects_nd (d : Dict) (content : Bytes) (l : List (ObjId × Obj)) (h : objStmObjects d content = .ok l) :
    ∀ p ∈ l, DeepND p.2 := by
  unfold objStmObjects at h
  split at h
  · cases h
  split at h
  · cases h; intro p hp; cases hp
  split at h
  · cases h
  split at h
  · cases h
  simp only at h
  split at h
  · cases h
  split at h
  · cases h
  split at h
  · cases h
  cases h
  exact dedupLast_vals DeepND _ (pairs_nd content _ _ _ _ (Nat.le_refl _))

/-! ### indirect objects and the trailer -/

theorem pDictionary_nd (inp : Bytes) (d : Dict) (r : Bytes) (h : pDictionary inp = some (d, r)) : DictND d := by
  unfold pDictionary at h
  split at h
  · simp only at h
    split at h
    · rename_i es r1 he
      split at h
      · cases h; exact (parse_nd _).2.2.2 _ _ _ _ _ _ dictND_nil he
      · cases h
    · cases h
  · cases h

/-- **the trailer dictionary the parser returns is distinct-keyed** -/
theorem pTrailer_nd (inp : Bytes) (d : Dict) (r : Bytes) (h : pTrailer inp = some (d, r)) : DictND d := by
  unfold pTrailer at h
  cases ht : tag TRAILER_WORD inp with
  | none => rw [ht] at h; cases h
  | some r0 =>
    rw [ht] at h; simp only [Option.bind_some] at h
    cases hd : pDictionary (space r0) with
    | none => rw [hd] at h; cases h
    | some p =>
      obtain ⟨d0, r1⟩ := p
      rw [hd] at h; simp at h
      rw [← h.1]; exact pDictionary_nd _ _ _ hd

/-- what an indirect object may be while loading: a finished object, or a stream whose content is still to be read -/
def LObjND : LObj → Prop
  | .plain o => DeepND o
  | .pending d _ => DictND d

theorem pStream_nd (len : ObjId → Option Int) (inp : Bytes) (lo : LObj) (r : Bytes) (h : pStream len inp = .ok lo r) : LObjND lo := by
  unfold pStream at h
  split at h
  · cases h
  · rename_i d r0 hd
    have hdn := pDictionary_nd _ _ _ hd
    split at h
    · cases h
    · split at h
      · cases h
      · (try simp only at h)
        split at h
        · split at h
          · cases h
          · split at h
            · cases h
            · (try simp only at h)
              split at h
              · cases h
                simp only [LObjND]
                rw [deepND_stream]
                exact dictND_set hdn _ _ (by simp [DeepND])
              · cases h
        · cases h; exact hdn

/-- **`_indirect_object` returns a distinct-keyed object** (or a pending stream with a distinct-keyed dictionary) -/
theorem pIndirect_nd (len : ObjId → Option Int) (expected : Option ObjId) (base : Nat) (inp : Bytes) (id : ObjId) (lo : LObj)
    (h : pIndirect len expected base inp = some (id, lo)) : LObjND lo := by
  unfold pIndirect at h
  cases h1 : pUnsigned U32_MAX (space inp) with
  | none => rw [h1] at h; cases h
  | some p1 =>
    rw [h1] at h; simp only [Option.bind_some] at h
    cases h2 : pUnsigned U16_MAX (space p1.2) with
    | none => rw [h2] at h; cases h
    | some p2 =>
      rw [h2] at h; simp only [Option.bind_some] at h
      cases h3 : tag OBJ_WORD (space p2.2) with
      | none => rw [h3] at h; cases h
      | some r3 =>
        rw [h3] at h; simp only [Option.bind_some] at h
        repeat' split at h
        all_goals (first
          | (cases h; done)
          | (cases h; exact pStream_nd _ _ _ _ (by assumption))
          | (cases h; have hp := pStream_nd _ _ _ _ (by assumption); simpa [LObjND] using hp)
          | (cases h; exact (parse_nd _).1 _ _ _ _ (by assumption)))

end Lopdf.Ed
