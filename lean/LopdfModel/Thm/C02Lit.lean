import LopdfModel.Thm.C02Space
/-
  C02 — literal strings: every spelling of the body of a literal string the grammar allows
  (`DerivesLit`: Table 3 escapes, octal escapes of 1–3 digits with the greedy rule, backslash +
  end-of-line continuation in its three forms, an unknown escaped character standing for itself,
  raw bytes, raw LF, balanced raw parentheses nested up to MAX_BRACKET) is read by
  `literal_string` to the denoted bytes.  Raw CR / CR LF: lopdf's reading (finding F-C02-a).
-/
namespace Lopdf.Grammar
open Lopdf Gen

/-! ### escape sequences -/

theorem octChar_none (c : UInt8) (r : Bytes) (h : isOctDigit c = false) : octChar (c :: r) = none := by
  simp [octChar, h]

theorem eol_none (c : UInt8) (r : Bytes) (h13 : c ≠ 13) (h10 : c ≠ 10) : eol (c :: r) = none := by
  unfold eol
  split
  · rename_i heq; injection heq with h _; exact absurd h h13
  · rename_i heq; injection heq with h _; exact absurd h h10
  · rename_i heq; injection heq with h _; exact absurd h h13
  · rfl

theorem escapeSeq_named (c v : UInt8) (r : Bytes) (h : namedEscape c = some v) :
    escapeSeq (c :: r) = some (some v, r) := by
  unfold namedEscape at h
  split at h <;> first
    | (injection h with h; subst h; simp [escapeSeq, octChar, isOctDigit, eol])
    | cases h

theorem escapeSeq_other (c : UInt8) (r : Bytes) (hn : namedEscape c = none) (ho : isOctDigit c = false)
    (h13 : c ≠ 13) (h10 : c ≠ 10) : escapeSeq (c :: r) = some (some c, r) := by
  unfold escapeSeq
  rw [octChar_none c r ho]
  simp only
  rw [eol_none c r h13 h10]
  simp only
  split
  · rename_i heq; injection heq with h _; subst h; simp [namedEscape] at hn
  · rename_i heq; injection heq with h _; subst h; simp [namedEscape] at hn
  · rename_i heq; injection heq with h _; subst h; simp [namedEscape] at hn
  · rename_i heq; injection heq with h _; subst h; simp [namedEscape] at hn
  · rename_i heq; injection heq with h _; subst h; simp [namedEscape] at hn
  · rename_i heq; injection heq with h1 h2; subst h1; subst h2; rfl
  · rename_i heq; cases heq

theorem escapeSeq_oct3 (a b c : UInt8) (r : Bytes) (ha : isOctDigit a = true) (hb : isOctDigit b = true)
    (hc : isOctDigit c = true) : escapeSeq (a :: b :: c :: r) = some (some (oct3 a b c), r) := by
  simp [escapeSeq, octChar, ha, hb, hc, oct3]

theorem escapeSeq_oct2 (a b c : UInt8) (r : Bytes) (ha : isOctDigit a = true) (hb : isOctDigit b = true)
    (hc : isOctDigit c = false) : escapeSeq (a :: b :: c :: r) = some (some (oct2 a b), c :: r) := by
  simp [escapeSeq, octChar, ha, hb, hc, oct2]

theorem escapeSeq_oct1 (a c : UInt8) (r : Bytes) (ha : isOctDigit a = true)
    (hc : isOctDigit c = false) : escapeSeq (a :: c :: r) = some (some (oct1 a), c :: r) := by
  simp [escapeSeq, octChar, ha, hc, oct1]

theorem escapeSeq_lf (r : Bytes) : escapeSeq (10 :: r) = some (none, r) := by
  simp [escapeSeq, octChar, isOctDigit, eol]

theorem escapeSeq_crlf (r : Bytes) : escapeSeq (13 :: 10 :: r) = some (none, r) := by
  simp [escapeSeq, octChar, isOctDigit, eol]

theorem escapeSeq_cr (c : UInt8) (r : Bytes) (hc : c ≠ 10) : escapeSeq (13 :: c :: r) = some (none, c :: r) := by
  simp [escapeSeq, octChar, isOctDigit, eol_cr_other c r hc]

/-! ### one step of `inner_literal_string` -/

theorem innerLit_escB (f d : Nat) (r r' out r'' : Bytes) (b : UInt8) (h : escapeSeq r = some (some b, r'))
    (h2 : innerLit f d r' = (out, r'')) : innerLit (f + 1) d (92 :: r) = (b :: out, r'') := by
  simp [innerLit, h, h2]

theorem innerLit_escN (f d : Nat) (r r' out r'' : Bytes) (h : escapeSeq r = some (none, r'))
    (h2 : innerLit f d r' = (out, r'')) : innerLit (f + 1) d (92 :: r) = (out, r'') := by
  simp [innerLit, h, h2]

theorem innerLit_close (f d : Nat) (rest : Bytes) : innerLit (f + 1) d (41 :: rest) = ([], 41 :: rest) := by
  simp [innerLit]

theorem innerLit_raw (f d : Nat) (b : UInt8) (r out r' : Bytes) (h40 : b ≠ 40) (h41 : b ≠ 41) (h92 : b ≠ 92)
    (h13 : b ≠ 13) (h2 : innerLit f d r = (out, r')) : innerLit (f + 1) d (b :: r) = (b :: out, r') := by
  unfold innerLit
  split
  · rename_i heq; cases heq
  · rename_i r heq; injection heq with e1 _; exact absurd e1 h92
  · rename_i r heq; injection heq with e1 _; exact absurd e1 h13
  · rename_i r heq; injection heq with e1 _; exact absurd e1 h13
  · rename_i r heq; injection heq with e1 e2; subst e1; subst e2; simp [h2]
  · rename_i r heq; injection heq with e1 _; exact absurd e1 h40
  · rename_i heq; injection heq with e1 _; exact absurd e1 h41
  · rename_i heq; injection heq with e1 e2; subst e1; subst e2; simp [h2]

theorem innerLit_crlf (f d : Nat) (r out r' : Bytes) (h2 : innerLit f d r = (out, r')) :
    innerLit (f + 1) d (13 :: 10 :: r) = (13 :: 10 :: out, r') := by
  simp [innerLit, h2]

theorem innerLit_cr (f d : Nat) (c : UInt8) (r out r' : Bytes) (hc : c ≠ 10)
    (h2 : innerLit f d (c :: r) = (out, r')) :
    innerLit (f + 1) d (13 :: c :: r) = (13 :: out, r') := by
  unfold innerLit
  split
  · rename_i heq; cases heq
  · rename_i r heq; injection heq with e1 _; cases e1
  · rename_i r heq; injection heq with _ e2; injection e2 with e2 _; exact absurd e2 hc
  · rename_i r heq; injection heq with _ e2; subst e2; simp [h2]
  · rename_i r heq; injection heq with e1 _; cases e1
  · rename_i r heq; injection heq with e1 _; cases e1
  · rename_i heq; injection heq with e1 _; cases e1
  · rename_i _ _ h13 _ _ _ heq; injection heq with e1 _; exact absurd e1.symm h13

theorem innerLit_nested (f d : Nat) (r inner r2 out r3 : Bytes) (h : innerLit f d r = (inner, 41 :: r2))
    (h2 : innerLit f (d + 1) r2 = (out, r3)) :
    innerLit (f + 1) (d + 1) (40 :: r) = (40 :: inner ++ 41 :: out, r3) := by
  simp [innerLit, h, h2]

/-! ### what follows a spelling inside the string -/

theorem ahead_oct (bs rest : Bytes) (h : NoOctAhead bs) :
    ∃ c r, bs ++ 41 :: rest = c :: r ∧ isOctDigit c = false := by
  cases bs with
  | nil => exact ⟨41, rest, rfl, by decide⟩
  | cons b t => exact ⟨b, t ++ 41 :: rest, rfl, h b t rfl⟩

theorem ahead_lf (bs rest : Bytes) (h : NoLfAhead bs) :
    ∃ c r, bs ++ 41 :: rest = c :: r ∧ c ≠ 10 := by
  cases bs with
  | nil => exact ⟨41, rest, rfl, by decide⟩
  | cons b t => exact ⟨b, t ++ 41 :: rest, rfl, fun hb => h t (by rw [hb])⟩

/-! ### the body -/

/-- **The body of a literal string, every spelling**, up to the closing parenthesis of the
enclosing pair, at any nesting budget `d` the spelling fits in and for any sufficient fuel. -/
theorem innerLit_complete {d : Nat} {s bs : Bytes} (h : DerivesLit d s bs) :
    ∀ (fuel : Nat) (rest : Bytes), bs.length + 1 ≤ fuel →
    innerLit fuel d (bs ++ 41 :: rest) = (s, 41 :: rest) := by
  induction h with
  | nil d =>
    intro fuel rest hf
    match fuel, hf with
    | f + 1, _ => exact innerLit_close f d rest
  | raw d b s bs h40 h41 h92 h13 _ ih =>
    intro fuel rest hf
    match fuel, hf with
    | f + 1, hf =>
      have := ih f rest (by simp at hf ⊢; omega)
      rw [List.cons_append]; exact innerLit_raw f d b _ _ _ h40 h41 h92 h13 this
  | rawCR d s bs hlf _ ih =>
    intro fuel rest hf
    match fuel, hf with
    | f + 1, hf =>
      have := ih f rest (by simp at hf ⊢; omega)
      obtain ⟨c, r, hcr, hc⟩ := ahead_lf bs rest hlf
      rw [List.cons_append, hcr]; exact innerLit_cr f d c r _ _ hc (hcr ▸ this)
  | rawCRLF d s bs _ ih =>
    intro fuel rest hf
    match fuel, hf with
    | f + 1, hf =>
      have := ih f rest (by simp at hf ⊢; omega)
      simp only [List.cons_append]; exact innerLit_crlf f d _ _ _ this
  | named d c v s bs hn _ ih =>
    intro fuel rest hf
    match fuel, hf with
    | f + 1, hf =>
      have := ih f rest (by simp at hf ⊢; omega)
      simp only [List.cons_append]; exact innerLit_escB f d _ _ _ _ _ (escapeSeq_named c v _ hn) this
  | other d c s bs hn ho h13 h10 _ ih =>
    intro fuel rest hf
    match fuel, hf with
    | f + 1, hf =>
      have := ih f rest (by simp at hf ⊢; omega)
      simp only [List.cons_append]; exact innerLit_escB f d _ _ _ _ _ (escapeSeq_other c _ hn ho h13 h10) this
  | octal3 d a b c s bs ha hb hc _ ih =>
    intro fuel rest hf
    match fuel, hf with
    | f + 1, hf =>
      have := ih f rest (by simp at hf ⊢; omega)
      simp only [List.cons_append]
      exact innerLit_escB f d _ _ _ _ _ (escapeSeq_oct3 a b c _ ha hb hc) this
  | octal2 d a b s bs ha hb hno _ ih =>
    intro fuel rest hf
    match fuel, hf with
    | f + 1, hf =>
      have := ih f rest (by simp at hf ⊢; omega)
      obtain ⟨c, r, hcr, hc⟩ := ahead_oct bs rest hno
      simp only [List.cons_append]
      rw [hcr]; exact innerLit_escB f d _ _ _ _ _ (escapeSeq_oct2 a b c r ha hb hc) (hcr ▸ this)
  | octal1 d a s bs ha hno _ ih =>
    intro fuel rest hf
    match fuel, hf with
    | f + 1, hf =>
      have := ih f rest (by simp at hf ⊢; omega)
      obtain ⟨c, r, hcr, hc⟩ := ahead_oct bs rest hno
      simp only [List.cons_append]
      rw [hcr]; exact innerLit_escB f d _ _ _ _ _ (escapeSeq_oct1 a c r ha hc) (hcr ▸ this)
  | contLF d s bs _ ih =>
    intro fuel rest hf
    match fuel, hf with
    | f + 1, hf =>
      have := ih f rest (by simp at hf ⊢; omega)
      simp only [List.cons_append]
      exact innerLit_escN f d _ _ _ _ (escapeSeq_lf _) this
  | contCRLF d s bs _ ih =>
    intro fuel rest hf
    match fuel, hf with
    | f + 1, hf =>
      have := ih f rest (by simp at hf ⊢; omega)
      simp only [List.cons_append]
      exact innerLit_escN f d _ _ _ _ (escapeSeq_crlf _) this
  | contCR d s bs hlf _ ih =>
    intro fuel rest hf
    match fuel, hf with
    | f + 1, hf =>
      have := ih f rest (by simp at hf ⊢; omega)
      obtain ⟨c, r, hcr, hc⟩ := ahead_lf bs rest hlf
      simp only [List.cons_append]
      rw [hcr]; exact innerLit_escN f d _ _ _ _ (escapeSeq_cr c r hc) (hcr ▸ this)
  | nested d inner ibs s bs _ _ ihi iho =>
    intro fuel rest hf
    match fuel, hf with
    | f + 1, hf =>
      simp only [List.length_cons, List.length_append] at hf
      have h1 := ihi f (bs ++ 41 :: rest) (by omega)
      have h2 := iho f rest (by omega)
      have e : (40 :: ibs ++ 41 :: bs) ++ 41 :: rest = 40 :: (ibs ++ 41 :: (bs ++ 41 :: rest)) := by simp
      rw [e]; exact innerLit_nested f d _ inner _ _ _ h1 h2

/-- **Literal strings, every spelling.** Whatever mix of raw bytes, raw end-of-line markers,
Table 3 escapes, octal escapes of one, two or three digits, line continuations, needlessly escaped
characters and balanced raw parentheses (nested at most MAX_BRACKET deep) the producer used,
`literal_string` reads the denoted bytes. (Raw CR / CR LF denote themselves in `DerivesLit` —
lopdf's reading, finding F-C02-a; ISO says LF.) -/
theorem lit_complete (s bs rest : Bytes) (h : DerivesLit MAX_BRACKET s bs) :
    pLiteral (40 :: bs ++ 41 :: rest) = some (s, rest) := by
  simp only [List.cons_append, pLiteral]
  rw [innerLit_complete h _ rest (by simp)]
  rfl

/-- a spelling that nests less deep fits every larger budget -/
theorem derivesLit_mono {d : Nat} {s bs : Bytes} (h : DerivesLit d s bs) :
    ∀ d', d ≤ d' → DerivesLit d' s bs := by
  induction h with
  | nil d => intro d' _; exact .nil d'
  | raw d b s bs h1 h2 h3 h4 _ ih => intro d' hd; exact .raw d' b s bs h1 h2 h3 h4 (ih d' hd)
  | rawCR d s bs h1 _ ih => intro d' hd; exact .rawCR d' s bs h1 (ih d' hd)
  | rawCRLF d s bs _ ih => intro d' hd; exact .rawCRLF d' s bs (ih d' hd)
  | named d c v s bs h1 _ ih => intro d' hd; exact .named d' c v s bs h1 (ih d' hd)
  | other d c s bs h1 h2 h3 h4 _ ih => intro d' hd; exact .other d' c s bs h1 h2 h3 h4 (ih d' hd)
  | octal3 d a b c s bs h1 h2 h3 _ ih => intro d' hd; exact .octal3 d' a b c s bs h1 h2 h3 (ih d' hd)
  | octal2 d a b s bs h1 h2 h3 _ ih => intro d' hd; exact .octal2 d' a b s bs h1 h2 h3 (ih d' hd)
  | octal1 d a s bs h1 h2 _ ih => intro d' hd; exact .octal1 d' a s bs h1 h2 (ih d' hd)
  | contLF d s bs _ ih => intro d' hd; exact .contLF d' s bs (ih d' hd)
  | contCRLF d s bs _ ih => intro d' hd; exact .contCRLF d' s bs (ih d' hd)
  | contCR d s bs h1 _ ih => intro d' hd; exact .contCR d' s bs h1 (ih d' hd)
  | nested d inner ibs s bs _ _ ihi iho =>
    intro d' hd
    match d', hd with
    | d'' + 1, hd => exact .nested d'' inner ibs s bs (ihi d'' (by omega)) (iho (d'' + 1) (by omega))

/-- non-vacuity: `(a\053\7)\` CR LF `(x\)) \q` + raw LF — an octal escape of three digits, one
of one digit before `)`, a continuation, a nested pair with an escaped parenthesis, an unknown
escape, a raw LF -/
example : DerivesLit 1 [97, 43, 7, 40, 120, 41, 41, 113, 10]
    [97, 92, 48, 53, 51, 92, 55, 92, 13, 10, 40, 120, 92, 41, 41, 92, 113, 10] :=
  .raw 1 97 _ _ (by decide) (by decide) (by decide) (by decide)
    (.octal3 1 48 53 51 _ _ (by decide) (by decide) (by decide)
      (.octal1 1 55 _ _ (by decide) (by intro b r h; injection h with h _; subst h; decide)
        (.contCRLF 1 _ _
          (.nested 0 [120, 41] [120, 92, 41] [113, 10] [92, 113, 10]
            (.raw 0 120 _ _ (by decide) (by decide) (by decide) (by decide)
              (.named 0 41 41 _ _ rfl (.nil 0)))
            (.other 1 113 _ _ rfl (by decide) (by decide) (by decide)
              (.raw 1 10 _ _ (by decide) (by decide) (by decide) (by decide) (.nil 1)))))))

end Lopdf.Grammar
