import LopdfModel.Model.Read
/-
  C08 — loading is deterministic under every thread schedule.
  The only schedule-dependent state of `Reader::read` is the ORDER in which the worker threads
  append the per-container blocks of object-stream members (rayon's ordered collects have the
  sequential result). The parallel phase is therefore a pure function of a permutation of the
  blocks:  `mergeBlocks os (π blocks)`.
  * `mergeBlocks_get`        : what the final merge answers for an id
  * `merge_perm_invariant`   : if no object number is a member of two containers, EVERY
                               permutation of the blocks yields the same document (∀ id lookup),
                               in particular the same as the sequential order
  * `merge_order_dependent`  : counter-witness (finding F-C08-a) — with the same number in two
                               containers two schedules give different documents
-/
namespace Lopdf

/-- first binding of `id` in a list of pairs -/
def firstGet (l : List (ObjId × Obj)) (id : ObjId) : Option Obj :=
  match l with
  | [] => none
  | (i, o) :: rest => if i = id then some o else firstGet rest id

theorem firstGet_append (a b : List (ObjId × Obj)) (id : ObjId) :
    firstGet (a ++ b) id = (firstGet a id).orElse (fun _ => firstGet b id) := by
  induction a with
  | nil => simp [firstGet]
  | cons p rest ih =>
    obtain ⟨i, o⟩ := p
    by_cases h : i = id <;> simp [firstGet, h, ih]

theorem LObjects.get_append (x l : LObjects) (k : ObjId) :
    (x ++ l).get k = (x.get k).orElse (fun _ => l.get k) := by
  induction x with
  | nil => simp [LObjects.get]
  | cons p rest ih =>
    obtain ⟨k', v⟩ := p
    by_cases h : k' = k <;> simp [LObjects.get, h, ih]

def orInsert (acc : LObjects) (p : ObjId × Obj) : LObjects :=
  match acc.get p.1 with | some _ => acc | none => acc ++ [(p.1, .plain p.2)]

theorem foldl_orInsert_get (l : List (ObjId × Obj)) : ∀ (os : LObjects) (id : ObjId),
    (l.foldl orInsert os).get id = (os.get id).orElse (fun _ => (firstGet l id).map LObj.plain) := by
  induction l with
  | nil => intro os id; cases h : os.get id <;> simp [firstGet, h]
  | cons p ps ih =>
    intro os id
    obtain ⟨i, o⟩ := p
    simp only [List.foldl_cons]
    rw [ih]
    unfold orInsert
    simp only
    cases hx : os.get i with
    | some v =>
      simp only
      by_cases hk : i = id
      · subst hk; simp [hx]
      · simp [firstGet, hk]
    | none =>
      simp only
      rw [LObjects.get_append]
      by_cases hk : i = id
      · subst hk; simp [hx, LObjects.get, firstGet]
      · cases hxk : os.get id <;> simp [LObjects.get, firstGet, hk]

/-- what the merged document holds for `id`: an object that was loaded directly is never
replaced; otherwise the first member with that id, in block order. -/
theorem mergeBlocks_get (os : LObjects) (blocks : List Block) (id : ObjId) :
    (mergeBlocks os blocks).get id
      = (os.get id).orElse (fun _ => (firstGet (blocks.map (·.2)).flatten id).map LObj.plain) := by
  unfold mergeBlocks
  exact foldl_orInsert_get _ os id

theorem firstGet_flatten (bs : List (List (ObjId × Obj))) (id : ObjId) :
    firstGet bs.flatten id = bs.findSome? (fun b => firstGet b id) := by
  induction bs with
  | nil => simp [firstGet]
  | cons b rest ih =>
    simp only [List.flatten_cons, firstGet_append, List.findSome?_cons, ih]
    cases firstGet b id <;> simp

/-- number of blocks that have `id` as a member -/
def holders (bs : List (List (ObjId × Obj))) (id : ObjId) : Nat :=
  (bs.filter fun b => (firstGet b id).isSome).length

theorem findSome_perm {bs₁ bs₂ : List (List (ObjId × Obj))} (hp : bs₁.Perm bs₂) (id : ObjId) :
    holders bs₁ id ≤ 1 →
    bs₁.findSome? (fun b => firstGet b id) = bs₂.findSome? (fun b => firstGet b id) := by
  induction hp with
  | nil => intro _; rfl
  | cons x _ ih =>
    intro h
    simp only [List.findSome?_cons]
    cases hx : firstGet x id with
    | some v => rfl
    | none =>
      apply ih
      simpa [holders, List.filter_cons, hx] using h
  | swap x y l =>
    intro h
    simp only [List.findSome?_cons]
    cases hx : firstGet x id <;> cases hy : firstGet y id <;> try rfl
    -- both hold the id: contradicts `holders ≤ 1`
    simp [holders, List.filter_cons, hx, hy] at h
  | trans hp1 _ ih1 ih2 =>
    intro h
    rw [ih1 h]
    apply ih2
    have : holders _ id = holders _ id := (hp1.filter _).length_eq
    unfold holders at *
    omega

/-- no object number is a member of two containers -/
def NoCrossDup (blocks : List Block) : Prop := ∀ id, holders (blocks.map (·.2)) id ≤ 1

/-- **Schedule independence.** If no object number is a member of two object-stream containers,
then for EVERY permutation of the per-container blocks — every completion order of the worker
threads — the merged document answers every lookup identically; the sequential reader's order
is one of them. -/
theorem merge_perm_invariant (os : LObjects) (blocks₁ blocks₂ : List Block)
    (hp : blocks₁.Perm blocks₂) (hd : NoCrossDup blocks₁) (id : ObjId) :
    (mergeBlocks os blocks₁).get id = (mergeBlocks os blocks₂).get id := by
  rw [mergeBlocks_get, mergeBlocks_get, firstGet_flatten, firstGet_flatten]
  rw [findSome_perm (hp.map (·.2)) id (hd id)]

example : NoCrossDup [((9, 0), [((3, 0), Obj.int 1), ((4, 0), Obj.null)]), ((12, 0), [((5, 0), Obj.int 2)])] := by
  intro id
  by_cases h3 : ((3, 0) : ObjId) = id
  · subst h3; decide
  · by_cases h4 : ((4, 0) : ObjId) = id
    · subst h4; decide
    · by_cases h5 : ((5, 0) : ObjId) = id
      · subst h5; decide
      · simp [holders, List.filter_cons, firstGet, h3, h4, h5]

/-- counter-witness (finding F-C08-a): object 3 is a member of containers 9 and 12; merging the
blocks in the two possible orders gives two different documents. -/
theorem merge_order_dependent :
    let b9 : Block := ((9, 0), [((3, 0), Obj.int 1)])
    let b12 : Block := ((12, 0), [((3, 0), Obj.int 2)])
    (match (mergeBlocks [] [b9, b12]).get (3, 0) with | some (.plain (.int i)) => i | _ => 0) = 1 ∧
    (match (mergeBlocks [] [b12, b9]).get (3, 0) with | some (.plain (.int i)) => i | _ => 0) = 2 := by
  decide

end Lopdf
