import LopdfModel.Model.Read
/-
  C08 — loading is deterministic under every thread schedule.
  The only schedule-dependent state of `Reader::read` is the ORDER in which the worker threads
  append the per-container blocks of object-stream members (rayon's ordered collects have the
  sequential result). The parallel phase is therefore a pure function of a permutation of the
  blocks:  `mergeBlocks os (π blocks)`.
  * `mergeBlocks_get`        : what the final merge answers for an id
  * `merge_perm_invariant`   : if no object number is a member of two containers, EVERY
                               permutation of the blocks yields the same document (∀ id lookup),
                               in particular the same as the sequential order
  * `merge_order_dependent`  : counter-witness (finding F-C08-a) — with the same number in two
                               containers two schedules give different documents
-/
namespace Lopdf

/-- first binding of `id` in a list of pairs -/
def firstGet (l : List (ObjId × Obj)) (id : ObjId) : Option Obj :=
  match l with
  | [] => none
  | (i, o) :: rest => if i = id then some o else firstGet rest id

theorem firstGet_append (a b : List (ObjId × Obj)) (id : ObjId) :
    firstGet (a ++ b) id = (firstGet a id).orElse (fun _ => firstGet b id) := by
  induction a with
  | nil => simp [firstGet]
  | cons p rest ih =>
    obtain ⟨i, o⟩ := p
    by_cases h : i = id <;> simp [firstGet, h, ih]

theorem LObjects.get_append (x l : LObjects) (k : ObjId) :
    (x ++ l).get k = (x.get k).orElse (fun _ => l.get k) := by
  induction x with
  | nil => simp [LObjects.get]
  | cons p rest ih =>
    obtain ⟨k', v⟩ := p
    by_cases h : k' = k <;> simp [LObjects.get, h, ih]

def orInsert (acc : LObjects) (p : ObjId × Obj) : LObjects :=
  match acc.get p.1 with | some _ => acc | none => acc ++ [(p.1, .plain p.2)]

theorem foldl_orInsert_get (l : List (ObjId × Obj)) : ∀ (os : LObjects) (id : ObjId),
    (l.foldl orInsert os).get id = (os.get id).orElse (fun _ => (firstGet l id).map LObj.plain) := by
  induction l with
  | nil => intro os id; cases h : os.get id <;> simp [firstGet, h]
  | cons p ps ih =>
    intro os id
    obtain ⟨i, o⟩ := p
    simp only [List.foldl_cons]
    rw [ih]
    unfold orInsert
    simp only
    cases hx : os.get i with
    | some v =>
      simp only
      by_cases hk : i = id
      · subst hk; simp [hx]
      · simp [firstGet, hk]
    | none =>
      simp only
      rw [LObjects.get_append]
      by_cases hk : i = id
      · subst hk; simp [hx, LObjects.get, firstGet]
      · cases hxk : os.get id <;> simp [LObjects.get, firstGet, hk]

/-- what the merged document holds for `id`: an object that was loaded directly is never
replaced; otherwise the first member with that id, in block order. -/
theorem mergeBlocks_get (os : LObjects) (blocks : List Block) (id : ObjId) :
    (mergeBlocks os blocks).get id
      = (os.get id).orElse (fun _ => (firstGet (blocks.map (·.2)).flatten id).map LObj.plain) := by
  unfold mergeBlocks
  exact foldl_orInsert_get _ os id

theorem firstGet_flatten (bs : List (List (ObjId × Obj))) (id : ObjId) :
    firstGet bs.flatten id = bs.findSome? (fun b => firstGet b id) := by
  induction bs with
  | nil => simp [firstGet]
  | cons b rest ih =>
    simp only [List.flatten_cons, firstGet_append, List.findSome?_cons, ih]
    cases firstGet b id <;> simp


/-! ### sorting by container number -/

theorem insertBlockSorted_perm (b : Block) (l : List Block) : (insertBlockSorted b l).Perm (b :: l) := by
  induction l with
  | nil => simp [insertBlockSorted]
  | cons c rest ih =>
    unfold insertBlockSorted
    split
    · exact List.Perm.refl _
    · exact (List.Perm.cons c ih).trans (List.Perm.swap b c rest)

theorem sortBlocks_perm (bs : List Block) : (sortBlocks bs).Perm bs := by
  induction bs with
  | nil => exact List.Perm.refl _
  | cons b rest ih =>
    show (insertBlockSorted b (sortBlocks rest)).Perm (b :: rest)
    exact (insertBlockSorted_perm b _).trans (List.Perm.cons b ih)

def keyLe (a b : Block) : Prop := a.1 ≤ b.1

theorem insertBlockSorted_pairwise (b : Block) (l : List Block) (h : l.Pairwise keyLe) :
    (insertBlockSorted b l).Pairwise keyLe := by
  induction l with
  | nil => simp [insertBlockSorted]
  | cons c rest ih =>
    unfold insertBlockSorted
    split
    · rename_i hle
      rw [List.pairwise_cons]
      refine ⟨?_, h⟩
      intro d hd
      rw [List.mem_cons] at hd
      rcases hd with rfl | hd
      · exact hle
      · have := (List.pairwise_cons.mp h).1 d hd
        unfold keyLe at *; omega
    · rename_i hnle
      rw [List.pairwise_cons] at h ⊢
      refine ⟨?_, ih h.2⟩
      intro d hd
      have hd' := (insertBlockSorted_perm b rest).subset hd
      rw [List.mem_cons] at hd'
      rcases hd' with rfl | hd'
      · unfold keyLe; omega
      · exact h.1 d hd'

theorem sortBlocks_pairwise (bs : List Block) : (sortBlocks bs).Pairwise keyLe := by
  induction bs with
  | nil => exact List.Pairwise.nil
  | cons b rest ih => exact insertBlockSorted_pairwise b _ ih

/-- the container numbers of the blocks are pairwise different (they are keys of the
cross-reference table, see `fromStm_keys_nodup`) -/
def DistinctKeys (bs : List Block) : Prop := (bs.map (·.1)).Nodup

theorem eq_of_key_eq {bs : List Block} (hd : DistinctKeys bs) {a b : Block}
    (ha : a ∈ bs) (hb : b ∈ bs) (hk : a.1 = b.1) : a = b := by
  induction bs with
  | nil => cases ha
  | cons c rest ih =>
    unfold DistinctKeys at hd
    rw [List.map_cons, List.nodup_cons] at hd
    rw [List.mem_cons] at ha hb
    rcases ha with rfl | ha <;> rcases hb with rfl | hb
    · rfl
    · exact absurd (List.mem_map.mpr ⟨b, hb, hk.symm⟩) hd.1
    · exact absurd (List.mem_map.mpr ⟨a, ha, hk⟩) hd.1
    · exact ih hd.2 ha hb

/-- sorting erases the arrival order -/
theorem sortBlocks_eq_of_perm {b₁ b₂ : List Block} (hp : b₁.Perm b₂) (hd : DistinctKeys b₁) :
    sortBlocks b₁ = sortBlocks b₂ := by
  apply List.Perm.eq_of_pairwise (le := keyLe) _ (sortBlocks_pairwise b₁) (sortBlocks_pairwise b₂)
    ((sortBlocks_perm b₁).trans (hp.trans (sortBlocks_perm b₂).symm))
  intro a b ha hb hab hba
  have ha' : a ∈ b₁ := (sortBlocks_perm b₁).subset ha
  have hb' : b ∈ b₁ := hp.symm.subset ((sortBlocks_perm b₂).subset hb)
  apply eq_of_key_eq hd ha' hb'
  unfold keyLe at hab hba; omega

/-- **Schedule independence of the merge.** For EVERY permutation of the per-container blocks —
every completion order of the worker threads — the merged object list is the same. -/
theorem merge_schedule_independent (x : XTable) (os : LObjects) (b₁ b₂ : List Block)
    (hp : b₁.Perm b₂) (hd : DistinctKeys b₁) :
    mergeBlocksX x os b₁ = mergeBlocksX x os b₂ := by
  unfold mergeBlocksX
  rw [sortBlocks_eq_of_perm hp hd]

example : DistinctKeys [(9, [((3, 0), Obj.int 1), ((4, 0), Obj.null)]), (12, [((3, 0), Obj.int 2)])] := by
  unfold DistinctKeys; decide

/-- why the sort is needed (finding F-C08-a, repaired by lopdf commit 943080b): object 3 is a
member of containers 9 and 12; an `or_insert` merge in arrival order gives two different
documents for the two schedules. -/
theorem unsorted_merge_order_dependent :
    let b9 : Block := (9, [((3, 0), Obj.int 1)])
    let b12 : Block := (12, [((3, 0), Obj.int 2)])
    (match (mergeBlocks [] [b9, b12]).get (3, 0) with | some (.plain (.int i)) => i | _ => 0) = 1 ∧
    (match (mergeBlocks [] [b12, b9]).get (3, 0) with | some (.plain (.int i)) => i | _ => 0) = 2 := by
  decide

/-! ### the level of `Reader::read` -/

theorem insertSorted_mem (k : Nat) (v : XEntry) (l : XTable) (a : Nat) :
    a ∈ (insertSorted k v l).map (·.1) → a = k ∨ a ∈ l.map (·.1) := by
  induction l with
  | nil => simp [insertSorted]
  | cons p rest ih =>
    obtain ⟨k', v'⟩ := p
    unfold insertSorted
    split
    · intro h; simpa using h
    · split
      · intro h; simp at h ⊢; rcases h with h | h
        · exact Or.inl h
        · exact Or.inr (Or.inr h)
      · intro h
        simp only [List.map_cons, List.mem_cons] at h ⊢
        rcases h with h | h
        · exact Or.inr (Or.inl h)
        · rcases ih h with h | h
          · exact Or.inl h
          · exact Or.inr (Or.inr h)

theorem insertSorted_sorted (k : Nat) (v : XEntry) (l : XTable)
    (h : (l.map (·.1)).Pairwise (· < ·)) : ((insertSorted k v l).map (·.1)).Pairwise (· < ·) := by
  induction l with
  | nil => simp [insertSorted]
  | cons p rest ih =>
    obtain ⟨k', v'⟩ := p
    simp only [List.map_cons, List.pairwise_cons] at h
    unfold insertSorted
    split
    · rename_i hlt
      simp only [List.map_cons, List.pairwise_cons]
      refine ⟨?_, h⟩
      intro a ha
      rw [List.mem_cons] at ha
      rcases ha with rfl | ha
      · exact hlt
      · have := h.1 a ha; omega
    · split
      · rename_i heq
        subst heq
        simp only [List.map_cons, List.pairwise_cons]
        exact h
      · simp only [List.map_cons, List.pairwise_cons]
        refine ⟨?_, ih h.2⟩
        intro a ha
        rcases insertSorted_mem k v rest a ha with rfl | ha
        · omega
        · exact h.1 a ha

/-- the keys of the cross-reference table, in iteration order, are strictly increasing -/
theorem sorted_keys_lt (x : XTable) : ((x.sorted).map (·.1)).Pairwise (· < ·) := by
  unfold XTable.sorted
  induction x with
  | nil => simp
  | cons p rest ih => obtain ⟨k, v⟩ := p; exact insertSorted_sorted k v _ ih

theorem loadStep_shape (buf : Bytes) (x : XTable) (n : Nat) (os : LObjects) (fs : List Block) (e : Nat × XEntry) :
    (∃ os2, loadStep buf x n (.ok (os, fs)) e = .ok (os2, fs)) ∨
    (∃ os2 objs, loadStep buf x n (.ok (os, fs)) e = .ok (os2, fs ++ [(e.1, objs)])) ∨
    (∀ p, loadStep buf x n (.ok (os, fs)) e ≠ .ok p) := by
  simp only [loadStep]
  repeat' split
  all_goals first
    | exact Or.inl ⟨_, rfl⟩
    | exact Or.inr (Or.inl ⟨_, _, rfl⟩)
    | exact Or.inr (Or.inr (fun p h => by cases h))

theorem loadStep_notok (buf : Bytes) (x : XTable) (n : Nat) (l : XTable)
    (acc : Outcome (LObjects × List Block)) (h : ∀ p, acc ≠ .ok p) :
    ∀ p, l.foldl (loadStep buf x n) acc ≠ .ok p := by
  induction l generalizing acc with
  | nil => exact h
  | cons e rest ih =>
    simp only [List.foldl_cons]
    apply ih
    cases acc with
    | ok p => exact absurd rfl (h p)
    | err s => intro p hp; simp [loadStep] at hp
    | panic s => intro p hp; simp [loadStep] at hp

/-- the blocks collected while reading the objects are keyed by a sub-sequence of the
cross-reference keys -/
theorem loadStep_blocks (buf : Bytes) (x : XTable) (n : Nat) (l : XTable) :
    ∀ (os : LObjects) (fs : List Block) (os' : LObjects) (fs' : List Block),
    l.foldl (loadStep buf x n) (.ok (os, fs)) = .ok (os', fs') →
    ∃ ks, fs'.map (·.1) = fs.map (·.1) ++ ks ∧ ks.Sublist (l.map (·.1)) := by
  induction l with
  | nil =>
    intro os fs os' fs' h
    simp only [List.foldl_nil, Outcome.ok.injEq, Prod.mk.injEq] at h
    exact ⟨[], by simp [h.2], List.Sublist.refl _⟩
  | cons e rest ih =>
    intro os fs os' fs' h
    simp only [List.foldl_cons] at h
    rcases loadStep_shape buf x n os fs e with ⟨os2, h1⟩ | ⟨os2, objs, h1⟩ | h1
    · rw [h1] at h
      obtain ⟨ks, hk, hs⟩ := ih _ _ _ _ h
      exact ⟨ks, hk, hs.trans (List.sublist_cons_self _ _)⟩
    · rw [h1] at h
      obtain ⟨ks, hk, hs⟩ := ih _ _ _ _ h
      refine ⟨e.1 :: ks, ?_, ?_⟩
      · rw [hk]; simp
      · simpa using hs
    · exact absurd h (loadStep_notok buf x n rest _ h1 _)

/-- the blocks of a load have pairwise different container numbers -/
theorem fromStm_keys_nodup (buf : Bytes) (x : XTable) (n : Nat) (os : LObjects) (fs : List Block)
    (h : (x.sorted).foldl (loadStep buf x n) (.ok ([], [])) = .ok (os, fs)) : DistinctKeys fs := by
  obtain ⟨ks, hk, hs⟩ := loadStep_blocks buf x n _ _ _ _ _ h
  unfold DistinctKeys
  rw [hk]
  simp only [List.map_nil, List.nil_append]
  have : ks.Pairwise (· < ·) := (sorted_keys_lt x).sublist hs
  exact this.imp (fun h => by omega)

/-- **Schedule independence of `Reader::read`.** Whatever order the per-container blocks arrive
in — `arr` is ANY function that permutes them — the loaded document is the document of the
sequential reader. -/
theorem load_schedule_independent (arr : List Block → List Block) (harr : ∀ bs, (arr bs).Perm bs)
    (file : Bytes) : loadDocWith arr file = loadDocWith id file := by
  have key : ∀ (buf : Bytes) (x : XTable) (n : Nat) (os : LObjects) (fs : List Block),
      (x.sorted).foldl (loadStep buf x n) (.ok ([], [])) = .ok (os, fs) →
      mergeBlocksX x os (arr fs) = mergeBlocksX x os fs := by
    intro buf x n os fs h
    have hd := fromStm_keys_nodup buf x n os fs h
    exact (merge_schedule_independent x os fs (arr fs) (harr fs).symm hd).symm
  unfold loadDocWith
  simp only []
  repeat' split
  all_goals try rfl
  all_goals rw [key _ _ _ _ _ (by assumption)]
  all_goals rfl

/-! ### hook H1 only permutes -/

theorem filterMap_set_none (slots : List (Option Block)) (i : Nat) (b : Block)
    (h : slots[i]? = some (some b)) :
    (slots.filterMap id).Perm (b :: (slots.set i none).filterMap id) := by
  induction slots generalizing i with
  | nil => simp at h
  | cons s t ih =>
    cases i with
    | zero =>
      simp only [List.getElem?_cons_zero, Option.some.injEq] at h
      subst h
      simp
    | succ j =>
      simp only [List.getElem?_cons_succ] at h
      have := ih j h
      cases s with
      | none => simpa using this
      | some c =>
        simp only [List.set_cons_succ, List.filterMap_cons, id]
        exact (List.Perm.cons c this).trans (List.Perm.swap b c _)

theorem permuteGo_perm (order : List Nat) : ∀ slots : List (Option Block),
    (permuteGo slots order).Perm (slots.filterMap id) := by
  induction order with
  | nil => intro slots; exact List.Perm.refl _
  | cons i rest ih =>
    intro slots
    unfold permuteGo
    split
    · rename_i b hb
      exact (List.Perm.cons b (ih _)).trans (filterMap_set_none slots i b hb).symm
    · exact ih slots

/-- whatever order the harness passes through hook H1, the blocks are only permuted -/
theorem permuteBlocks_perm (bs : List Block) (order : List Nat) : (permuteBlocks bs order).Perm bs := by
  unfold permuteBlocks
  refine (permuteGo_perm order _).trans ?_
  have : ((sortBlocks bs).map some).filterMap id = sortBlocks bs := by
    rw [List.filterMap_map]; simp
  rw [this]
  exact sortBlocks_perm bs

/-- every arrival order that hook H1 can produce loads the document of the sequential reader -/
theorem load_order_irrelevant (order : Option (List Nat)) (file : Bytes) :
    loadDocOrd order file = loadDoc file := by
  unfold loadDoc loadDocOrd
  cases order with
  | none => rfl
  | some p => exact load_schedule_independent _ (fun bs => permuteBlocks_perm bs p) file

end Lopdf
