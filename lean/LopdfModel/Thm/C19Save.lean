import LopdfModel.Model.SaveSink
import LopdfModel.Thm.C19
import LopdfModel.Thm.FileRt
import LopdfModel.Thm.FileMaxId
/-
  C19 — the sink theorems composed with the writer / reader model of C01:
  * `saveSink_flat`      : the two-phase run is the flat run of `Thm/C19` on `before ++ after`
  * `saveSink_prefix`    : delivered bytes are a prefix of the bytes `saveFrom` defines
  * `saveSink_ok`        : success ⇒ exactly `saveFrom`'s bytes were delivered and the caller
                           holds the document a complete save leaves
  * `saveSink_benign`    : a sink that only splits / interrupts ⇒ success
  * `saveSink_state`     : after ANY run the caller holds `d` or `d'` — nothing in between
  * `sink_save_loads`    : a successful save to any sink loads back to the document (C01 `file_rt`)
  * `resave_table`, `resave_stream` : after ANY failed (or successful) run, saving what the caller
                           holds to a healthy sink gives a file that loads to the same content
-/
namespace Lopdf
open Gen FileRT Lopdf.ObjRt

theorem saveRunS_fst : ∀ (cs : List Bytes) (s : List Resp), (saveRunS cs s).1 = saveRun cs s := by
  intro cs
  induction cs with
  | nil => intro s; rfl
  | cons c cs ih =>
    intro s
    simp only [saveRunS, saveRun]
    split
    · simp [ih]
    · rfl

/-- the flat run over `a ++ b`: run `a`; if it went through, run `b` on the script left -/
theorem saveRun_append : ∀ (a b : List Bytes) (s : List Resp),
    saveRun (a ++ b) s =
      if (saveRunS a s).1.ok then
        { ok := (saveRun b (saveRunS a s).2).ok,
          delivered := (saveRunS a s).1.delivered ++ (saveRun b (saveRunS a s).2).delivered,
          counter := (saveRunS a s).1.counter + (saveRun b (saveRunS a s).2).counter,
          issued := (saveRunS a s).1.issued + (saveRun b (saveRunS a s).2).issued }
      else (saveRunS a s).1 := by
  intro a
  induction a with
  | nil => intro b s; simp [saveRunS]
  | cons c cs ih =>
    intro b s
    simp only [List.cons_append, saveRun, saveRunS]
    by_cases hw : (writeAll c s).ok = true
    · simp only [hw, if_true]
      rw [ih b (writeAll c s).script]
      by_cases h2 : (saveRunS cs (writeAll c s).script).1.ok = true
      · simp only [h2, if_true, List.append_assoc, SaveRun.mk.injEq, true_and]
        omega
      · simp only [h2, Bool.false_eq_true, if_false]
    · simp only [hw, Bool.false_eq_true, if_false]

/-- **The two-phase run IS the flat run** of the request list `before ++ after`. -/
theorem saveSink_flat (before after : List Bytes) (s : List Resp) :
    (saveSink before after s).ok = (saveRun (before ++ after) s).ok ∧
    (saveSink before after s).delivered = (saveRun (before ++ after) s).delivered := by
  unfold saveSink
  rw [saveRun_append]
  by_cases h : (saveRunS before s).1.ok = true
  · simp [h]
  · simp only [h, Bool.false_eq_true, if_false]
    simp at h
    simp [h]

theorem saveSink_prefix (before after : List Bytes) (s : List Resp) :
    (saveSink before after s).delivered <+: (before ++ after).flatten := by
  rw [(saveSink_flat before after s).2]
  exact delivered_prefix _ s

theorem saveSink_ok_delivered (before after : List Bytes) (s : List Resp)
    (h : (saveSink before after s).ok = true) :
    (saveSink before after s).delivered = (before ++ after).flatten ∧ (saveSink before after s).mutated = true := by
  refine ⟨?_, ?_⟩
  · rw [(saveSink_flat before after s).2]
    exact ok_delivers_all _ s (by rw [← (saveSink_flat before after s).1]; exact h)
  · unfold saveSink at h ⊢
    by_cases h1 : (saveRunS before s).1.ok = true
    · simp [h1]
    · simp [h1] at h

theorem saveSink_benign (before after : List Bytes) (s : List Resp) (h : s.all Resp.benign = true) :
    (saveSink before after s).ok = true := by
  rw [(saveSink_flat before after s).1]
  exact no_fail_ok _ s h

/-- a run that did not reach the mutation point delivered less than the bytes before it, or
failed exactly there: in particular it is an error -/
theorem saveSink_unmutated (before after : List Bytes) (s : List Resp)
    (h : (saveSink before after s).mutated = false) :
    (saveSink before after s).ok = false ∧ (saveSink before after s).delivered <+: before.flatten := by
  unfold saveSink at h ⊢
  by_cases h1 : (saveRunS before s).1.ok = true
  · simp [h1] at h
  · simp only [h1, Bool.false_eq_true, if_false, true_and]
    rw [saveRunS_fst]
    exact delivered_prefix _ s

/-- a run that reached the mutation point delivered all the bytes before it -/
theorem saveSink_mutated (before after : List Bytes) (s : List Resp)
    (h : (saveSink before after s).mutated = true) :
    before.flatten <+: (saveSink before after s).delivered := by
  unfold saveSink at h ⊢
  by_cases h1 : (saveRunS before s).1.ok = true
  · simp only [h1, if_true]
    have := ok_delivers_all before s (by rw [← saveRunS_fst]; exact h1)
    rw [saveRunS_fst, this]
    exact List.prefix_append _ _
  · simp [h1] at h

/-! ### composed with the document -/

/-- `before` / `after` are a cut, at the mutation point, of the bytes `save` writes -/
structure CutOf (pre : Bytes) (d : SDoc) (out : Bytes) (before after : List Bytes) : Prop where
  whole : (before ++ after).flatten = out.drop pre.length
  point : pre.length + before.flatten.length = mutationOffset pre d

/-- **After ANY run the caller holds `d` or `d'`** (the document a complete save leaves). -/
theorem saveSink_state (d d' : SDoc) (before after : List Bytes) (s : List Resp) :
    docAfter d d' (saveSink before after s) = d ∨ docAfter d d' (saveSink before after s) = d' := by
  unfold docAfter
  split
  · exact Or.inr rfl
  · exact Or.inl rfl

/-- **Success ⇒ the complete output and the saved state** — for every document, every cut of the
output into requests, every sink. -/
theorem saveSink_ok (d : SDoc) (out : Bytes) (d' : SDoc) (before after : List Bytes) (s : List Resp)
    (hc : CutOf [] d out before after) (h : (saveSink before after s).ok = true) :
    (saveSink before after s).delivered = out ∧ docAfter d d' (saveSink before after s) = d' := by
  obtain ⟨h1, h2⟩ := saveSink_ok_delivered before after s h
  refine ⟨?_, ?_⟩
  · rw [h1, hc.whole]; rfl
  · simp [docAfter, h2]

/-- **Delivered bytes are a prefix of the file `save` defines** — every sink, every failure. -/
theorem saveSink_prefix_out (d : SDoc) (out : Bytes) (before after : List Bytes) (s : List Resp)
    (hc : CutOf [] d out before after) : (saveSink before after s).delivered <+: out := by
  have := saveSink_prefix before after s
  rw [hc.whole] at this
  exact this

/-- **A save that reports success — through any sink — loads back to the document (table kind).**
`file_rt_table` applied to the delivered bytes. -/
theorem sink_save_loads_table (order : Option (List Nat)) (d : SDoc) (out : Bytes) (d' : SDoc)
    (before after : List Bytes) (s : List Resp) (hc : CutOf [] d out before after)
    (hok : (saveSink before after s).ok = true)
    (hk : d.xrefKind = .table) (h : saveFrom [] d = some (out, d')) (hlen : out.length < 4294967296)
    (hmax : d.maxId + 1 ≤ 4294967295) (hwf : DocWF d)
    (hobjs : ∀ p ∈ d.objects, ObjOK p.2)
    (htr : WFObj (.dict d.trailer) ∧ height (.dict d.trailer) ≤ MAX_NESTING ∧ NoRealD d.trailer)
    (hv1 : ∀ b ∈ d.version, notEol b = true) (hv2 : validUtf8 d.version = true)
    (hprev : d.trailer.get PREV = none) (henc : d.trailer.has ENCRYPT = false) :
    ∃ L : Loaded, loadDocOrd order (saveSink before after s).delivered = .ok L ∧ L.version = d.version ∧
      L.binaryMark = d.binaryMark ∧ L.trailer = d'.trailer ∧
      (∀ id, L.objects.get id = d.objects.get id) := by
  rw [(saveSink_ok d out d' before after s hc hok).1]
  obtain ⟨L, h1, h2, h3, h4, _, _, h7, _⟩ :=
    file_rt_table order d out d' hk h hlen hmax hwf hobjs htr hv1 hv2 hprev henc
  exact ⟨L, h1, h2, h3, h4, h7⟩

/-- the same for the cross-reference-stream kind (`file_rt_stream` applied to the delivered bytes) -/
theorem sink_save_loads_stream (order : Option (List Nat)) (d : SDoc) (out : Bytes) (d' : SDoc)
    (before after : List Bytes) (s : List Resp) (hc : CutOf [] d out before after)
    (hok : (saveSink before after s).ok = true)
    (hk : d.xrefKind = .stream) (h : saveFrom [] d = some (out, d')) (hlen : out.length < 4294967296)
    (hmax : d.maxId + 2 ≤ 4294967295) (hwf : DocWF d)
    (hobjs : ∀ p ∈ d.objects, ObjOK p.2)
    (htr : WFObj (.dict d.trailer) ∧ height (.dict d.trailer) ≤ MAX_NESTING ∧ NoRealD d.trailer)
    (hv1 : ∀ b ∈ d.version, notEol b = true) (hv2 : validUtf8 d.version = true)
    (hprev : d.trailer.get PREV = none) (henc : d.trailer.has ENCRYPT = false) :
    ∃ L : Loaded, loadDocOrd order (saveSink before after s).delivered = .ok L ∧ L.version = d.version ∧
      L.binaryMark = d.binaryMark ∧ (∀ id, L.objects.get id = (objectsWithXref d).get id) := by
  rw [(saveSink_ok d out d' before after s hc hok).1]
  obtain ⟨L, h1, h2, h3, _, _, _, h7⟩ :=
    file_rt_stream order d out d' hk h hlen hmax hwf hobjs htr hv1 hv2 hprev henc
  exact ⟨L, h1, h2, h3, h7⟩

/-! ### saving again after a failure -/

theorem Dict_set_set_same (d : Dict) (k : Bytes) (v : Obj) : (d.set k v).set k v = d.set k v := by
  induction d with
  | nil => simp [Dict.set]
  | cons p rest ih =>
    obtain ⟨k', v'⟩ := p
    by_cases hk : k' = k
    · simp [Dict.set, hk]
    · simp [Dict.set, hk, ih]

theorem saveFrom_table_doc (pre : Bytes) (d : SDoc) (out : Bytes) (d' : SDoc) (hk : d.xrefKind = .table)
    (h : saveFrom pre d = some (out, d')) :
    d' = { d with trailer := d.trailer.set SIZE (.int (d.maxId + 1)) } := by
  unfold saveFrom at h
  split at h
  · cases h
  · simp only [hk] at h
    injection h with h
    injection h with h1 h2
    rw [← h2]
    cases d
    simp only at hk
    simp only [hk]

/-- **Table kind: a second save writes the very same file.** The only thing `save` changes is the
trailer's `Size`, to the value the next save would store again. Hence after ANY run — failed at
any byte, or successful — saving what the caller holds to a healthy sink yields exactly the bytes
`out` of an undisturbed save, which load back to the document by `file_rt_table`. -/
theorem resave_table (d : SDoc) (out : Bytes) (d' : SDoc) (before after : List Bytes) (s : List Resp)
    (hk : d.xrefKind = .table) (h : saveFrom [] d = some (out, d')) :
    saveFrom [] (docAfter d d' (saveSink before after s)) = some (out, d') := by
  rcases saveSink_state d d' before after s with e | e <;> rw [e]
  · exact h
  · have hd := saveFrom_table_doc [] d out d' hk h
    have hout := (saveFrom_table_eq [] d out d' hk h).1
    subst hd
    unfold saveFrom at h ⊢
    split at h
    · cases h
    · rename_i hbm
      simp only [hbm, hk, Dict_set_set_same] at h ⊢
      exact h

theorem saveFrom_stream_doc (pre : Bytes) (d : SDoc) (out : Bytes) (d' : SDoc) (hk : d.xrefKind = .stream)
    (h : saveFrom pre d = some (out, d')) :
    d' = { d with trailer := streamTrailer pre d, maxId := d.maxId + 1 } := by
  have ht := (saveFrom_stream_eq pre d out d' hk h).2
  unfold saveFrom at h
  split at h
  · cases h
  · simp only [hk] at h
    injection h with h
    injection h with h1 h2
    rw [← h2] at ht ⊢
    simp only at ht
    rw [ht]
    cases d
    simp only at hk
    simp only [hk]

theorem saveFrom_some (pre : Bytes) (d : SDoc) (h : (d.binaryMark.all fun b => b ≥ 128) = true) :
    ∃ out d', saveFrom pre d = some (out, d') := by
  unfold saveFrom
  simp only [h, Bool.not_true, Bool.false_eq_true, if_false]
  cases d.xrefKind <;> exact ⟨_, _, rfl⟩

theorem saveFrom_mark (pre : Bytes) (d : SDoc) (out : Bytes) (d' : SDoc) (h : saveFrom pre d = some (out, d')) :
    (d.binaryMark.all fun b => b ≥ 128) = true := by
  unfold saveFrom at h
  split at h
  · cases h
  · rename_i hbm; simpa using hbm

theorem Objects_get_append_left (a b : Objects) (id : ObjId) (h : ∀ p ∈ b, p.1 ≠ id) :
    Objects.get (a ++ b) id = Objects.get a id := by
  induction a with
  | nil =>
    induction b with
    | nil => rfl
    | cons q rest ih =>
      have hq := h q (by simp)
      simp only [List.nil_append, Objects.get] at ih ⊢
      simp only [hq, if_false]
      exact ih (fun p hp => h p (by simp [hp]))
  | cons p rest ih =>
    simp only [List.cons_append, Objects.get]
    split
    · rfl
    · exact ih

/-- **Stream kind: saving again after ANY run loads to the same content.** After a run that did
not reach the mutation point the caller holds `d` itself (`file_rt_stream`). Otherwise the caller
holds `d'` — `max_id` raised by one, the trailer carrying the cross-reference bookkeeping of the
interrupted save — and a save of `d'` to a healthy sink produces a file that loads: same version
and binary mark, and for every id up to the old `max_id` exactly the object `d` holds. The
bookkeeping entries are overwritten (`Type`, `Size`, `W`, `Index`, `Length`), never trusted. -/
theorem resave_stream (order : Option (List Nat)) (d : SDoc) (out : Bytes) (d' : SDoc)
    (before after : List Bytes) (s : List Resp)
    (hk : d.xrefKind = .stream) (h : saveFrom [] d = some (out, d')) (hlen : out.length < 4294967296)
    (hmax : d.maxId + 3 ≤ 4294967295) (hwf : DocWF d)
    (hobjs : ∀ p ∈ d.objects, ObjOK p.2)
    (htr : WFObj (.dict d.trailer) ∧ height (.dict d.trailer) ≤ MAX_NESTING ∧ NoRealD d.trailer)
    (hv1 : ∀ b ∈ d.version, notEol b = true) (hv2 : validUtf8 d.version = true)
    (hprev : d.trailer.get PREV = none) (henc : d.trailer.has ENCRYPT = false) :
    ∃ out2 d2, saveFrom [] (docAfter d d' (saveSink before after s)) = some (out2, d2) ∧
      (out2.length < 4294967296 →
        ∃ L : Loaded, loadDocOrd order out2 = .ok L ∧ L.version = d.version ∧ L.binaryMark = d.binaryMark ∧
          ∀ id : ObjId, id.1 ≤ d.maxId → L.objects.get id = d.objects.get id) := by
  have hxget : ∀ (e : SDoc) (id : ObjId), id.1 ≤ e.maxId →
      (objectsWithXref e).get id = e.objects.get id := by
    intro e id hid
    unfold objectsWithXref
    apply Objects_get_append_left
    intro p hp
    simp only [List.mem_singleton] at hp
    subst hp
    intro heq
    rw [← heq] at hid
    simp only at hid
    omega
  rcases saveSink_state d d' before after s with e | e <;> rw [e]
  · refine ⟨out, d', h, fun _ => ?_⟩
    obtain ⟨L, h1, h2, h3, _, _, _, h7⟩ :=
      file_rt_stream order d out d' hk h hlen (by omega) hwf hobjs htr hv1 hv2 hprev henc
    exact ⟨L, h1, h2, h3, fun id hid => by rw [h7 id, hxget d id hid]⟩
  · have hd := saveFrom_stream_doc [] d out d' hk h
    obtain ⟨out2, d2, h2⟩ := saveFrom_some [] d' (by rw [hd]; exact saveFrom_mark [] d out d' h)
    refine ⟨out2, d2, h2, fun hlen2 => ?_⟩
    obtain ⟨t1, t2, t3⟩ := htr
    have t1' := t1
    simp only [WFObj, WF] at t1'
    have hnd : d.trailer.keys.Nodup := t1'.1
    have hclen : (xrefStreamContent (streamSecs (xmapStream [] d) (d.maxId + 1))).length ≤ 4294967296 := by
      have : (xrefStreamContent (streamSecs (xmapStream [] d) (d.maxId + 1))).length ≤ out.length := by
        rw [(saveFrom_stream_eq [] d out d' hk h).1]
        simp only [List.length_append, writeIndirect, writeObj]
        omega
      omega
    have hvals : ∀ p ∈ d.trailer, ValOK p.2 := by
      intro p hp
      refine ⟨(WFD_iff d.trailer).mp t1'.2 p hp, ?_, (NoRealD_iff d.trailer).mp t3 p hp⟩
      simp only [height] at t2
      exact (heightD_le_iff d.trailer (MAX_NESTING - 1)).mp (by omega) p hp
    have hsv := streamTrailer_values_ok [] d (by omega) hwf.gens hclen hvals
    have hk' : d'.xrefKind = .stream := by rw [hd]; exact hk
    have hwf' : DocWF d' := by
      rw [hd]
      exact ⟨hwf.nodup, fun p hp => ⟨(hwf.range p hp).1, by have := (hwf.range p hp).2; simp only; omega⟩,
        hwf.gens, hwf.kept⟩
    have htr' : WFObj (.dict d'.trailer) ∧ height (.dict d'.trailer) ≤ MAX_NESTING ∧ NoRealD d'.trailer := by
      rw [hd]
      refine ⟨?_, ?_, ?_⟩
      · simp only [WFObj, WF]
        exact ⟨streamTrailer_nodup [] d hnd, (WFD_iff _).mpr (fun p hp => (hsv p hp).1)⟩
      · simp only [height]
        have := (heightD_le_iff (streamTrailer [] d) (MAX_NESTING - 1)).mpr (fun p hp => (hsv p hp).2.1)
        have : 2 ≤ MAX_NESTING := by decide
        omega
      · exact (NoRealD_iff _).mpr (fun p hp => (hsv p hp).2.2)
    have hprev' : d'.trailer.get PREV = none := by
      rw [hd]
      simp only
      rw [streamTrailer_get_other [] d hnd PREV (by decide) (by decide) (by decide) (by decide) (by decide) (by decide)]
      exact hprev
    have henc' : d'.trailer.has ENCRYPT = false := by
      rw [hd]
      simp only
      rw [Dict_has_eq, streamTrailer_get_other [] d hnd ENCRYPT (by decide) (by decide) (by decide) (by decide)
        (by decide) (by decide), ← Dict_has_eq]
      exact henc
    have hmid : d'.maxId = d.maxId + 1 := by rw [hd]
    obtain ⟨L, l1, l2, l3, _, _, _, l7⟩ :=
      file_rt_stream order d' out2 d2 hk' h2 hlen2 (by omega) hwf'
        (by rw [hd]; exact hobjs) htr' (by rw [hd]; exact hv1) (by rw [hd]; exact hv2) hprev' henc'
    refine ⟨L, l1, by rw [l2, hd], by rw [l3, hd], fun id hid => ?_⟩
    rw [l7 id, hxget d' id (by omega), hd]

/-! ### non-vacuity -/

example : (saveSink [[1, 2], [3]] [[4, 5]] [.accept 1, .interrupted, .accept 1, .accept 1, .fail]).mutated = true ∧
    (saveSink [[1, 2], [3]] [[4, 5]] [.accept 1, .interrupted, .accept 1, .accept 1, .fail]).ok = false ∧
    (saveSink [[1, 2], [3]] [[4, 5]] [.accept 1, .interrupted, .accept 1, .accept 1, .fail]).delivered = [1, 2, 3] := by
  decide
example : (saveSink [[1, 2], [3]] [[4, 5]] [.accept 2, .accept 0]).mutated = false := by decide
example : splitRequests [[1, 2], [3], [4, 5]] 3 = some ([[1, 2], [3]], [[4, 5]]) := by decide
example : splitRequests [[1, 2], [3], [4, 5]] 4 = none := by decide

end Lopdf
