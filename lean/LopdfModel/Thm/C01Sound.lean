import LopdfModel.Thm.C01Cycle
import LopdfModel.Thm.C02Composite
/-
  C01 / C14 — SOUNDNESS of the object parser: whatever `_direct_objects` / `_direct_object` /
  `parser::direct_object` return is well-formed (`WFParsed`): integers within i64, references
  within u32 × u16, reals carried as a text of the `real` grammar (`DerivesReal`), dictionaries
  with pairwise distinct keys, arrays / dictionaries nested at most MAX_NESTING − depth deep, never
  a stream.  Consequences: a parsed object whose reals are in `Display` form is in the scope of the
  object round trip and is its own normal form, so writing it and parsing again returns exactly it.
-/
namespace Lopdf.Grammar
open Lopdf Gen
open Lopdf.ObjRt (WF WFL WFD norm normL normD height heightL heightD RealOK normReal)

/-! ### well-formed parsed objects -/

mutual
/-- what the parser can return -/
def WFParsed : Obj → Prop
  | .null => True
  | .bool _ => True
  | .int i => -(I64_MAX : Int) - 1 ≤ i ∧ i ≤ I64_MAX
  | .real t => DerivesReal t
  | .name _ => True
  | .str _ _ => True
  | .arr items => WFParsedL items
  | .dict es => (es.map (·.1)).Nodup ∧ WFParsedD es
  | .stream _ _ => False
  | .ref n g => n ≤ U32_MAX ∧ g ≤ U16_MAX
def WFParsedL : List Obj → Prop
  | [] => True
  | o :: r => WFParsed o ∧ WFParsedL r
def WFParsedD : List (Bytes × Obj) → Prop
  | [] => True
  | (_, v) :: r => WFParsed v ∧ WFParsedD r
end

mutual
/-- every real of the object is in `Display` form `[-]digits.digits*` (what `f32`'s `Display`
prints for a non-integral value, and the writer's `….0` form) -/
def DisplayReals : Obj → Prop
  | .real t => IsDecimal t
  | .arr items => DisplayRealsL items
  | .dict es => DisplayRealsD es
  | _ => True
def DisplayRealsL : List Obj → Prop
  | [] => True
  | o :: r => DisplayReals o ∧ DisplayRealsL r
def DisplayRealsD : List (Bytes × Obj) → Prop
  | [] => True
  | (_, v) :: r => DisplayReals v ∧ DisplayRealsD r
end

/-! ### the scalar parsers -/

theorem spanP_fst_all (p : UInt8 → Bool) (l : Bytes) : ∀ b ∈ (spanP p l).1, p b = true := by
  induction l with
  | nil => intro b hb; simp [spanP] at hb
  | cons a as ih =>
    intro b hb
    simp only [spanP] at hb
    split at hb
    · rename_i ha
      simp only [List.mem_cons] at hb
      rcases hb with rfl | hb
      · exact ha
      · exact ih b hb
    · simp at hb

theorem pUnsigned_sound (mx : Nat) (inp : Bytes) (v : Nat) (r : Bytes) (h : pUnsigned mx inp = some (v, r)) : v ≤ mx := by
  unfold pUnsigned at h
  cases hd : digit1 inp with
  | none => simp [hd] at h
  | some p =>
    obtain ⟨ds, r'⟩ := p
    simp only [hd, Option.bind] at h
    split at h
    · rename_i hle; injection h with h; injection h with h1 _; subst h1; exact hle
    · cases h

theorem pReference_sound (inp : Bytes) (o : Obj) (r : Bytes) (h : pReference inp = some (o, r)) :
    ∃ n g, o = .ref n g ∧ n ≤ U32_MAX ∧ g ≤ U16_MAX := by
  unfold pReference at h
  cases h1 : pUnsigned U32_MAX inp with
  | none => simp [h1] at h
  | some p1 =>
    obtain ⟨n, r1⟩ := p1
    simp only [h1, Option.bind] at h
    cases h2 : pUnsigned U16_MAX (space r1) with
    | none => simp [h2] at h
    | some p2 =>
      obtain ⟨g, r2⟩ := p2
      simp only [h2] at h
      split at h
      · injection h with h; injection h with h3 _
        exact ⟨n, g, h3.symm, pUnsigned_sound _ _ _ _ h1, pUnsigned_sound _ _ _ _ h2⟩
      · cases h

theorem pInteger_sound (inp : Bytes) (i : Int) (r : Bytes) (h : pInteger inp = some (i, r)) :
    -(I64_MAX : Int) - 1 ≤ i ∧ i ≤ I64_MAX := by
  have pos : ∀ v : Nat, v ≤ I64_MAX → -(I64_MAX : Int) - 1 ≤ Int.ofNat v ∧ Int.ofNat v ≤ I64_MAX := by
    intro v hv
    simp only [I64_MAX, Int.ofNat_eq_natCast] at *; omega
  have neg : ∀ v : Nat, v ≤ I64_MAX + 1 → -(I64_MAX : Int) - 1 ≤ -(Int.ofNat v) ∧ -(Int.ofNat v) ≤ I64_MAX := by
    intro v hv
    simp only [I64_MAX, Int.ofNat_eq_natCast] at *; omega
  unfold pInteger at h
  split at h
  · rename_i r0
    cases hd : digit1 r0 with
    | none => simp [hd] at h
    | some p =>
      simp only [hd, Option.bind] at h
      split at h
      · rename_i hle; injection h with h; injection h with h1 _; rw [← h1]; exact pos _ hle
      · cases h
  · rename_i r0
    cases hd : digit1 r0 with
    | none => simp [hd] at h
    | some p =>
      simp only [hd, Option.bind] at h
      split at h
      · rename_i hle; injection h with h; injection h with h1 _; rw [← h1]; exact neg _ hle
      · cases h
  · cases hd : digit1 inp with
    | none => simp [hd] at h
    | some p =>
      simp only [hd, Option.bind] at h
      split at h
      · rename_i hle; injection h with h; injection h with h1 _; rw [← h1]; exact pos _ hle
      · cases h

theorem optSign_sound (inp : Bytes) : IsSign (optSign inp).1 := by
  unfold optSign
  split
  · exact .plus
  · exact .minus
  · exact .none

/-- **`real` returns a text of the real grammar** -/
theorem pReal_sound (inp t r : Bytes) (h : pReal inp = some (t, r)) : DerivesReal t := by
  unfold pReal at h
  have hs := optSign_sound inp
  rcases hso : optSign inp with ⟨sign, r0⟩
  rw [hso] at hs h
  simp only at hs h
  have hd1 := spanP_fst_all isDigit r0
  rcases hsp : spanP isDigit r0 with ⟨d1, rr⟩
  rw [hsp] at hd1 h
  simp only at hd1 h
  split at h
  · rename_i a as r1 heq
    injection heq with e1 e2; subst e1; subst e2
    have hd2 := spanP_fst_all isDigit r1
    rcases hsp2 : spanP isDigit r1 with ⟨d2, r2⟩
    rw [hsp2] at hd2 h
    simp only at hd2 h
    injection h with h; injection h with h1 _
    rw [← h1]
    exact .mk sign (a :: as) d2 hs hd1 hd2 (Or.inl (by simp))
  · rename_i r1 heq
    injection heq with e1 e2; subst e1; subst e2
    have hd2 := spanP_fst_all isDigit r1
    rcases hsp2 : spanP isDigit r1 with ⟨d2, r2⟩
    rw [hsp2] at hd2 h
    simp only at hd2 h
    split at h
    · cases h
    · rename_i ds' r' hnil hpair
      injection hpair with e1 e2; subst e1; subst e2
      injection h with h; injection h with h1 _
      rw [← h1]
      have : sign ++ [46] ++ d2 = sign ++ [] ++ [46] ++ d2 := by simp
      rw [this]
      exact .mk sign [] d2 hs (by intro b hb; simp at hb) hd2 (Or.inr (fun e => hnil e))
  · cases h

/-! ### the scalar alternatives -/

theorem scalars_sound (inp : Bytes) (o : Obj) (r : Bytes) (h : ObjRt.scalars true inp = some (o, r)) :
    WFParsed o ∧ height o = 0 := by
  unfold ObjRt.scalars at h
  split at h
  · injection h with h; injection h with h1 _; subst h1; simp [WFParsed, height]
  · split at h
    · injection h with h; injection h with h1 _; subst h1; simp [WFParsed, height]
    · split at h
      · injection h with h; injection h with h1 _; subst h1; simp [WFParsed, height]
      · split at h
        · rename_i o' r' href
          simp only [if_true] at href
          injection h with h; injection h with h1 _; subst h1
          obtain ⟨n, g, e, hn, hg⟩ := pReference_sound _ _ _ href
          subst e; exact ⟨⟨hn, hg⟩, rfl⟩
        · split at h
          · rename_i t r' hreal
            injection h with h; injection h with h1 _; subst h1
            exact ⟨pReal_sound _ _ _ hreal, rfl⟩
          · split at h
            · rename_i i r' hint
              injection h with h; injection h with h1 _; subst h1
              exact ⟨pInteger_sound _ _ _ hint, rfl⟩
            · split at h
              · injection h with h; injection h with h1 _; subst h1; simp [WFParsed, height]
              · split at h
                · injection h with h; injection h with h1 _; subst h1; simp [WFParsed, height]
                · split at h
                  · injection h with h; injection h with h1 _; subst h1; simp [WFParsed, height]
                  · cases h

/-! ### arrays and dictionaries -/

/-- well-formed and nested at most `MAX_NESTING − depth` deep -/
def Good (depth : Nat) (o : Obj) : Prop := WFParsed o ∧ (depth ≤ MAX_NESTING → depth + height o ≤ MAX_NESTING)
def GoodL (depth : Nat) (os : List Obj) : Prop := WFParsedL os ∧ (depth ≤ MAX_NESTING → depth + heightL os ≤ MAX_NESTING)
def GoodD (depth : Nat) (es : List (Bytes × Obj)) : Prop :=
  WFParsedD es ∧ (depth ≤ MAX_NESTING → depth + heightD es ≤ MAX_NESTING)

theorem wfpd_set (acc : Dict) (k : Bytes) (v : Obj) (h : WFParsedD acc) (hv : WFParsed v) : WFParsedD (acc.set k v) := by
  induction acc with
  | nil => simp [Dict.set, WFParsedD, hv]
  | cons p rest ih =>
    obtain ⟨k', v'⟩ := p
    simp only [WFParsedD] at h
    simp only [Dict.set]
    split
    · simp only [WFParsedD]; exact ⟨hv, h.2⟩
    · simp only [WFParsedD]; exact ⟨h.1, ih h.2⟩

theorem heightD_set (acc : Dict) (k : Bytes) (v : Obj) : heightD (acc.set k v) ≤ max (heightD acc) (height v) := by
  induction acc with
  | nil => simp [Dict.set, heightD]
  | cons p rest ih =>
    obtain ⟨k', v'⟩ := p
    simp only [Dict.set]
    split
    · simp only [heightD]; omega
    · simp only [heightD]; omega

theorem goodD_set (depth : Nat) (acc : Dict) (k : Bytes) (v : Obj) (h : GoodD depth acc) (hv : Good depth v) :
    GoodD depth (acc.set k v) := by
  refine ⟨wfpd_set acc k v h.1 hv.1, fun hd => ?_⟩
  have := heightD_set acc k v
  have h1 := h.2 hd
  have h2 := hv.2 hd
  omega

theorem many_sound (f depth : Nat) (Hd : ∀ inp o r, directObjects f depth inp = .ok o r → Good depth o) :
    ∀ (n : Nat) (inp : Bytes) (os : List Obj) (r : Bytes), manyObjects f depth n inp = some (os, r) → GoodL depth os := by
  intro n
  induction n with
  | zero =>
    intro inp os r h
    simp only [manyObjects] at h
    injection h with h; injection h with h1 _; subst h1
    exact ⟨trivial, fun hd => by simp [heightL]; exact hd⟩
  | succ n ih =>
    intro inp os r h
    rw [manyObjects] at h
    cases hdo : directObjects f depth inp with
    | ok o r1 =>
      have hdir : directObject f depth inp = .ok o (space r1) := ObjRt.directObject_of _ _ _ _ _ hdo
      rw [hdir] at h
      simp only at h
      cases hm : manyObjects f depth n (space r1) with
      | none => simp [hm] at h
      | some p =>
        obtain ⟨os', r'⟩ := p
        simp only [hm, Option.map] at h
        injection h with h; injection h with h1 _; subst h1
        have g1 := Hd _ _ _ hdo
        have g2 := ih _ _ _ hm
        exact ⟨⟨g1.1, g2.1⟩, fun hd => by
          have a := g1.2 hd; have b := g2.2 hd
          simp only [heightL]; omega⟩
    | error =>
      have : directObject f depth inp = .error := by simp [directObject, hdo]
      rw [this] at h
      simp only at h
      injection h with h; injection h with h1 _; subst h1
      exact ⟨trivial, fun hd => by simp [heightL]; exact hd⟩
    | failure =>
      have : directObject f depth inp = .failure := by simp [directObject, hdo]
      rw [this] at h
      cases h

theorem dict_sound (f depth : Nat) (Hd : ∀ inp o r, directObjects f depth inp = .ok o r → Good depth o) :
    ∀ (n : Nat) (inp : Bytes) (acc d : Dict) (r : Bytes), dictEntries f depth n inp acc = some (d, r) →
    GoodD depth acc → GoodD depth d := by
  intro n
  induction n with
  | zero =>
    intro inp acc d r h hacc
    simp only [dictEntries] at h
    injection h with h; injection h with h1 _; subst h1; exact hacc
  | succ n ih =>
    intro inp acc d r h hacc
    rw [dictEntries] at h
    split at h
    · rename_i k r0 _
      cases hdo : directObjects f depth (space r0) with
      | ok v r1 =>
        have hdir : directObject f depth (space r0) = .ok v (space r1) := ObjRt.directObject_of _ _ _ _ _ hdo
        rw [hdir] at h
        simp only at h
        exact ih _ _ _ _ h (goodD_set depth acc k v hacc (Hd _ _ _ hdo))
      | error =>
        have : directObject f depth (space r0) = .error := by simp [directObject, hdo]
        rw [this] at h
        simp only at h
        injection h with h; injection h with h1 _; subst h1; exact hacc
      | failure =>
        have : directObject f depth (space r0) = .failure := by simp [directObject, hdo]
        rw [this] at h
        cases h
    · injection h with h; injection h with h1 _; subst h1; exact hacc

/-- **Soundness of `_direct_objects`.** -/
theorem directObjects_sound : ∀ (f depth : Nat) (inp : Bytes) (o : Obj) (r : Bytes),
    directObjects f depth inp = .ok o r → Good depth o := by
  intro f
  induction f with
  | zero => intro depth inp o r h; simp [directObjects] at h
  | succ f ih =>
    intro depth inp o r h
    cases hs : ObjRt.scalars true inp with
    | some p =>
      obtain ⟨o', r'⟩ := p
      rw [ObjRt.directObjects_scalar f depth inp o' r' hs] at h
      injection h with h1 _; subst h1
      obtain ⟨h1, h2⟩ := scalars_sound inp _ r' hs
      exact ⟨h1, fun hd => by rw [h2]; exact hd⟩
    | none =>
      rw [ObjRt.directObjects_compound f depth inp hs] at h
      unfold ObjRt.compound at h
      split at h
      · -- array
        split at h
        · cases h
        · rename_i hdep
          split at h
          · cases h
          · rename_i items r1 hm
            split at h
            · injection h with h1 _; subst h1
              have g := many_sound f (depth + 1) (fun inp o r hh => ih (depth + 1) inp o r hh) _ _ _ _ hm
              refine ⟨g.1, fun hd => ?_⟩
              have := g.2 (by omega)
              simp only [height]; omega
            · cases h
      · -- dictionary
        split at h
        · cases h
        · rename_i hdep
          split at h
          · cases h
          · rename_i es r1 hm
            split at h
            · injection h with h1 _; subst h1
              have g := dict_sound f (depth + 1) (fun inp o r hh => ih (depth + 1) inp o r hh) _ _ _ _ _ hm
                ⟨trivial, fun hd => by simp [heightD]; exact hd⟩
              have hn := ObjRt.dictEntries_nodup f (depth + 1) f _ [] es _ (by simp) hm
              refine ⟨⟨hn, g.1⟩, fun hd => ?_⟩
              have := g.2 (by omega)
              simp only [height]; omega
            · cases h
      · cases h

/-- **Soundness of `parser::direct_object`**: the object is well-formed and nests at most
MAX_NESTING deep. -/
theorem parseDirect_sound (inp : Bytes) (o : Obj) (r : Bytes) (h : parseDirect inp = some (o, r)) :
    WFParsed o ∧ height o ≤ MAX_NESTING := by
  unfold parseDirect at h
  cases hd : directObjects (inp.length + 1) 0 inp with
  | ok o' r' =>
    rw [ObjRt.directObject_of _ _ _ _ _ hd] at h
    injection h with h; injection h with h1 _; subst h1
    have g := directObjects_sound _ _ _ _ _ hd
    exact ⟨g.1, by have := g.2 (by omega); omega⟩
  | error => simp [directObject, hd] at h
  | failure => simp [directObject, hd] at h

/-! ### which parsed reals are in `Display` form -/

theorem derivesReal_dot {t : Bytes} (h : DerivesReal t) : t.contains 46 = true := by
  cases h with
  | mk sign d1 d2 _ _ _ _ => simp

/-- a text of the real grammar is in `Display` form, or starts with `+`, or has no digit before
the point (`.5`, `-.5`): exactly these parsed reals are outside the scope of the round trip -/
theorem parsedReal_cases {t : Bytes} (h : DerivesReal t) :
    IsDecimal t ∨ (∃ r, t = 43 :: r) ∨ (∃ r, t = 46 :: r) ∨ (∃ r, t = 45 :: 46 :: r) := by
  cases h with
  | mk sign d1 d2 hs h1 h2 hne =>
    cases hs with
    | plus => right; left; exact ⟨d1 ++ [46] ++ d2, by simp⟩
    | none =>
      cases d1 with
      | nil => right; right; left; exact ⟨d2, by simp⟩
      | cons a as => left; exact ⟨⟨false, a :: as, d2, by simp, by simp, h1, h2⟩⟩
    | minus =>
      cases d1 with
      | nil => right; right; right; exact ⟨d2, by simp⟩
      | cons a as => left; exact ⟨⟨true, a :: as, d2, by simp, by simp, h1, h2⟩⟩

/-- every `Display` text is a text of the real grammar -/
theorem derivesReal_of_decimal {t : Bytes} (h : IsDecimal t) : DerivesReal t := by
  obtain ⟨neg, d1, d2, rfl, hne, h1, h2⟩ := h.parts
  cases neg
  · simpa using DerivesReal.mk [] d1 d2 .none h1 h2 (Or.inl hne)
  · simpa using DerivesReal.mk [45] d1 d2 .minus h1 h2 (Or.inl hne)

example : DerivesReal [46, 53] ∧ ¬ IsDecimal [46, 53] := by
  refine ⟨.mk [] [] [53] .none (by intro b hb; simp at hb) (by intro b hb; simp at hb; subst hb; decide) (by simp), ?_⟩
  rintro ⟨neg, d1, d2, h, hne, hd, _⟩
  cases neg
  · cases d1 with
    | nil => exact hne rfl
    | cons a as =>
      simp at h
      have := hd a (by simp); rw [← h.1] at this; simp [isDigit] at this
  · simp at h

/-! ### parsed objects in the scope of the round trip -/

mutual
theorem norm_parsed : ∀ (o : Obj), WFParsed o → norm o = o
  | .real t, h => by
    simp only [WFParsed] at h
    simp only [norm, normReal, derivesReal_dot h, if_true]
  | .arr items, h => by simp only [WFParsed] at h; simp only [norm, normL_parsed items h]
  | .dict es, h => by simp only [WFParsed] at h; simp only [norm, normD_parsed es h.2]
  | .null, _ | .bool _, _ | .int _, _ | .name _, _ | .str _ _, _ | .ref _ _, _ | .stream _ _, _ => by simp only [norm]
theorem normL_parsed : ∀ (items : List Obj), WFParsedL items → normL items = items
  | [], _ => rfl
  | o :: r, h => by simp only [WFParsedL] at h; simp only [normL, norm_parsed o h.1, normL_parsed r h.2]
theorem normD_parsed : ∀ (es : List (Bytes × Obj)), WFParsedD es → normD es = es
  | [], _ => rfl
  | (k, v) :: r, h => by simp only [WFParsedD] at h; simp only [normD, norm_parsed v h.1, normD_parsed r h.2]
end

mutual
theorem wf_of_parsed : ∀ (o : Obj), WFParsed o → DisplayReals o → WF (fun _ => True) o
  | .real t, _, hd => by simp only [DisplayReals] at hd; simp only [WF]; exact Or.inl hd
  | .arr items, h, hd => by
    simp only [WFParsed] at h; simp only [DisplayReals] at hd; simp only [WF]; exact wfL_of_parsed items h hd
  | .dict es, h, hd => by
    simp only [WFParsed] at h; simp only [DisplayReals] at hd; simp only [WF]
    exact ⟨h.1, wfD_of_parsed es h.2 hd⟩
  | .int i, h, _ => by simp only [WFParsed] at h; simp only [WF]; exact h
  | .ref n g, h, _ => by simp only [WFParsed] at h; simp only [WF]; exact h
  | .stream _ _, h, _ => by simp only [WFParsed] at h
  | .str s .lit, _, _ => by simp only [WF]
  | .str s .hex, _, _ => by simp only [WF]
  | .null, _, _ | .bool _, _, _ | .name _, _, _ => by simp only [WF]
theorem wfL_of_parsed : ∀ (items : List Obj), WFParsedL items → DisplayRealsL items → WFL (fun _ => True) items
  | [], _, _ => by simp only [WFL]
  | o :: r, h, hd => by
    simp only [WFParsedL] at h; simp only [DisplayRealsL] at hd; simp only [WFL]
    exact ⟨wf_of_parsed o h.1 hd.1, wfL_of_parsed r h.2 hd.2⟩
theorem wfD_of_parsed : ∀ (es : List (Bytes × Obj)), WFParsedD es → DisplayRealsD es → WFD (fun _ => True) es
  | [], _, _ => by simp only [WFD]
  | (k, v) :: r, h, hd => by
    simp only [WFParsedD] at h; simp only [DisplayRealsD] at hd; simp only [WFD]
    exact ⟨wf_of_parsed v h.1 hd.1, wfD_of_parsed r h.2 hd.2⟩
end

/-- **parse → write → parse (second cycle of a LOADED object).** Whatever object
`parser::direct_object` returned: if its reals are in `Display` form (what lopdf's `f32` prints —
a parsed `.5` or `+1.` is carried as that text by the model and printed differently by lopdf), then
writing it and parsing the written text returns EXACTLY the same object — no normalisation is
left to do, in any admissible following context. Hence a document written from a loaded document
reads back as the same document, object by object. -/
theorem reparse_written (inp : Bytes) (o : Obj) (r : Bytes) (h : parseDirect inp = some (o, r))
    (hd : DisplayReals o) (rest : Bytes) (hstop : ObjRt.Follow true o rest) :
    parseDirect (writeObj o ++ rest) = some (o, space rest) := by
  obtain ⟨hw, hh⟩ := parseDirect_sound inp o r h
  have := ObjRt.parseDirect_rt o rest (wf_of_parsed o hw hd) hh hstop
  rwa [norm_parsed o hw] at this

/-- the same at the level of `_direct_objects`, at any depth and fuel -/
theorem reparse_written_direct (f depth : Nat) (inp : Bytes) (o : Obj) (r : Bytes)
    (h : directObjects f depth inp = .ok o r) (hdep : depth ≤ MAX_NESTING) (hd : DisplayReals o)
    (fuel : Nat) (rest : Bytes) (hfuel : ObjRt.size o ≤ fuel) (hstop : ObjRt.Follow true o rest) :
    directObjects fuel depth (writeObj o ++ rest) = .ok o rest := by
  obtain ⟨hw, hh⟩ := directObjects_sound f depth inp o r h
  have := ObjRt.obj_rt o fuel depth rest (wf_of_parsed o hw hd) (hh hdep) hfuel hstop
  rwa [norm_parsed o hw] at this

/-- non-vacuity: the array `[1 2 3]` read from its spelling with free spacing (`exArr`, through the
completeness theorem) is written and read back unchanged -/
example : parseDirect (writeObj (.arr [.int 1, .int 2, .int 3]) ++ [10, 101]) =
    some (.arr [.int 1, .int 2, .int 3], space [10, 101]) :=
  reparse_written _ _ _
    (parseDirect_complete exArr [10] [101, 110, 100] (by decide) (.ws 10 _ (by decide) .nil)
      (by intro b r e; injection e with e _; subst e; decide) (fun h => by cases h))
    (by simp [DisplayReals, DisplayRealsL]) [10, 101] (by simp [ObjRt.Follow])

end Lopdf.Grammar
