import LopdfModel.Thm.FileNorm
/-
  One revision of either cross-reference style, read inside any extension of the file it ends:
  the kind-generic layer under `History` (C07) — `xrefObj`/`objectsWithXref` generalised over the
  prefix `pre` the revision was appended to.
-/
namespace Lopdf.FileRT
open Lopdf Gen Lopdf.ObjRt

/-- the map a revision's cross-reference section records -/
def revMap (d : SDoc) (pre : Bytes) : XrefMap :=
  match d.xrefKind with | .table => xmapOf pre d | .stream => xmapStream pre d
/-- `Size` of the revision's section -/
def revSize (d : SDoc) : Nat := match d.xrefKind with | .table => d.maxId + 1 | .stream => d.maxId + 2
/-- the objects a reader finds in the revision: the document's, plus the `/XRef` stream object -/
def revObjs (d : SDoc) (pre : Bytes) : Objects :=
  match d.xrefKind with | .table => d.objects | .stream => d.objects ++ [((d.maxId + 1, 0), xrefObjP pre d)]
/-- the trailer the reader obtains from the revision's section (normal form: an integral real is an
integer) -/
def streamTrailerReadN (pre : Bytes) (d : SDoc) : Dict :=
  ((Dict.remove (normD (streamTrailer pre d)) LENGTH).remove W_KEY).remove INDEX

def revTrailer (d : SDoc) (pre : Bytes) (d' : SDoc) : Dict :=
  match d.xrefKind with | .table => normD d'.trailer | .stream => streamTrailerReadN pre d

/-- a revision the history theorems cover (real numbers allowed) -/
structure RevOK (d : SDoc) : Prop where
  hmax : d.maxId + 2 ≤ 4294967295
  wf : DocWF d
  objs : ∀ p ∈ d.objects, ObjOKN p.2
  tr : WFObj (.dict d.trailer) ∧ height (.dict d.trailer) ≤ MAX_NESTING
  nostm : d.trailer.get XREFSTM = none
  noenc : d.trailer.has ENCRYPT = false

/-- what the reader finds for one revision inside the (possibly longer) file `buf` -/
structure RevFacts (buf : Bytes) (d : SDoc) (pre : Bytes) (X : XTable) : Prop where
  get : ∀ n, X.get n = if 1 ≤ n ∧ n < revSize d then normalOf (revMap d pre) n else none
  nodup : (X.map (·.1)).Nodup
  recd : Recorded buf (revMap d pre) (revObjs d pre)
  objsOK : ∀ p ∈ revObjs d pre, ObjOKN p.2 ∧ p.1.1 + 1 < revSize d + 1 ∧ 1 ≤ p.1.1 ∧ p.1.2 < 65536
  complete : ∀ id o, (revObjs d pre).get id = some o → ∃ off, (revMap d pre).get id.1 = some (off, id.2)

theorem xrefObjP_ok (pre : Bytes) (d : SDoc) (out : Bytes) (d' : SDoc) (hk : d.xrefKind = .stream)
    (h : saveFrom pre d = some (out, d')) (hlen : out.length < 4294967296) (hmax : d.maxId + 2 ≤ 4294967295)
    (hg : GensOk d)
    (htr : WFObj (.dict d.trailer) ∧ height (.dict d.trailer) ≤ MAX_NESTING ∧ NoRealD d.trailer) :
    ObjOK (xrefObjP pre d) := by
  obtain ⟨hout, _⟩ := saveFrom_stream_eq pre d out d' hk h
  obtain ⟨t1, t2, t3⟩ := htr
  simp only [WFObj, WF] at t1
  have hnd : d.trailer.keys.Nodup := t1.1
  have hclen : (xrefStreamContent (streamSecs (xmapStream pre d) (d.maxId + 1))).length ≤ 4294967296 := by
    have : (xrefStreamContent (streamSecs (xmapStream pre d) (d.maxId + 1))).length ≤ out.length := by
      rw [hout]
      simp only [List.length_append, writeIndirect, writeObj]
      omega
    omega
  have hvals : ∀ p ∈ d.trailer, ValOK p.2 := by
    intro p hp
    refine ⟨(WFD_iff d.trailer).mp t1.2 p hp, ?_, (NoRealD_iff d.trailer).mp t3 p hp⟩
    simp only [height] at t2
    exact (heightD_le_iff d.trailer (MAX_NESTING - 1)).mp (by omega) p hp
  have hsv := streamTrailer_values_ok pre d hmax hg hclen hvals
  obtain ⟨_, _, _, _, f5⟩ := streamTrailer_facts pre d hnd (.int 0)
  refine ⟨?_, ?_, (NoRealD_iff _).mpr (fun p hp => (hsv p hp).2.2), f5⟩
  · simp only [WFObj, WF]
    exact ⟨streamTrailer_nodup pre d hnd, (WFD_iff _).mpr (fun p hp => (hsv p hp).1)⟩
  · simp only [height]
    have := (heightD_le_iff (streamTrailer pre d) (MAX_NESTING - 1)).mpr (fun p hp => (hsv p hp).2.1)
    have : 2 ≤ MAX_NESTING := by decide
    omega

theorem streamTrailerRead_nodup (pre : Bytes) (d : SDoc) (hnd : d.trailer.keys.Nodup) :
    (streamTrailerRead pre d).keys.Nodup :=
  Dict_nodup_remove _ _ (Dict_nodup_remove _ _ (Dict_nodup_remove _ _
    (Dict_nodup_set _ _ _ (streamTrailer_nodup pre d hnd))))

/-- keys the writers do not touch -/
def FreeKey (k : Bytes) : Prop := ¬ TYPE = k ∧ ¬ SIZE = k ∧ ¬ W_KEY = k ∧ ¬ INDEX = k ∧ ¬ FILTER = k ∧ ¬ LENGTH = k

theorem freeKey_PREV : FreeKey PREV := by unfold FreeKey; decide
theorem freeKey_XREFSTM : FreeKey XREFSTM := by unfold FreeKey; decide
theorem freeKey_ENCRYPT : FreeKey ENCRYPT := by unfold FreeKey; decide

theorem revSize_le (d : SDoc) : revSize d ≤ d.maxId + 2 := by
  unfold revSize; cases d.xrefKind <;> simp

/-- **one revision's cross-reference section, of either style, read inside any extension of the
file it ends** -/
theorem rev_section (d : SDoc) (pre out : Bytes) (d' : SDoc) (hok : RevOK d)
    (h : saveFrom pre d = some (out, d')) (R : Bytes) (hlen : out.length < 4294967296) :
    ∃ table, xrefAndTrailer ((out ++ R).drop (bodyOf pre d).length)
        = .ok (table, revSize d, revTrailer d pre d') ∧
      RevFacts (out ++ R) d pre table ∧ (bodyOf pre d).length < out.length ∧
      (∀ k, FreeKey k → (revTrailer d pre d').get k = (d.trailer.get k).map norm) ∧
      (revTrailer d pre d').keys.Nodup := by
  have hb := body_le_out pre d out d' h
  have hbl : (bodyOf pre d).length < 4294967296 := by omega
  have hnd : d.trailer.keys.Nodup := by
    have := hok.tr.1; simp only [WFObj, WF] at this; exact this.1
  have hrec0 : Recorded (bodyOf pre d) (xmapOf pre d) d.objects :=
    writeObjects_recorded d.objects d.objects (hdrOf pre d) []
      (by intro n off g hg; simp [XrefMap.get] at hg)
      (fun p hp => Objects_get_of_mem d.objects hok.wf.nodup p hp)
      (by unfold bodyOf at hbl; exact hbl)
  have hdocOK : ∀ p ∈ d.objects, ObjOKN p.2 ∧ p.1.1 ≤ d.maxId ∧ 1 ≤ p.1.1 ∧ p.1.2 < 65536 := by
    intro p hp
    obtain ⟨r1, r2⟩ := hok.wf.range p hp
    exact ⟨hok.objs p hp, r2, r1, hok.wf.gens p hp⟩
  have hdocComplete : ∀ id o, d.objects.get id = some o → ∃ off, (xmapOf pre d).get id.1 = some (off, id.2) := by
    intro id o hd
    have hm := Objects_mem_of_get d.objects id o hd
    exact writeObjects_complete d.objects (hdrOf pre d) [] hok.wf.nodup (id, o) hm (hok.wf.kept _ hm)
  cases hk : d.xrefKind with
  | table =>
    obtain ⟨hout, htr⟩ := saveFrom_table_eq pre d out d' hk h
    have hD : ∀ rest, DictReadsBackN d'.trailer (normD d'.trailer) rest := by
      intro rest
      obtain ⟨t1, t2⟩ := hok.tr
      have hi : -(I64_MAX : Int) - 1 ≤ ((d.maxId : Int) + 1) ∧ ((d.maxId : Int) + 1) ≤ I64_MAX := by
        have := hok.hmax; simp [I64_MAX]; omega
      unfold DictReadsBackN
      rw [htr]
      apply pDictionary_rt
      · simp only [WFObj, WF] at t1 ⊢
        exact ⟨Dict_nodup_set d.trailer SIZE _ t1.1, WFD_set_int _ _ _ hi t1.2⟩
      · simp only [height] at t2 ⊢
        have := heightD_set_int d.trailer SIZE ((d.maxId : Int) + 1)
        omega
    have e1 : out ++ R = bodyOf pre d ++ (writeXrefTable (xmapOf pre d) (d.maxId + 1) ++ (TRAILER_KW ++
        (writeObj (.dict d'.trailer) ++ (STARTXREF_KW ++ natDigits (bodyOf pre d).length ++ EOF_KW ++ R)))) := by
      rw [hout, htr]; simp only [List.append_assoc]
    obtain ⟨table, hxt, hget, hnodup⟩ := xrefAndTrailer_tableN (xmapOf pre d) (d.maxId + 1) d'.trailer (normD d'.trailer)
      (STARTXREF_KW ++ natDigits (bodyOf pre d).length ++ EOF_KW ++ R)
      (xmapOf_ok pre d hok.wf.gens) (by have := hok.hmax; omega) (hD _)
      (by rw [normD_get, htr, Dict.get_set_same]; simp [norm])
    refine ⟨table, ?_, ⟨?_, hnodup, ?_, ?_, ?_⟩, ?_, ?_, ?_⟩
    · simp only [revSize, revTrailer, hk]
      rw [e1, List.drop_left]; exact hxt
    · simpa only [revSize, revMap, hk] using hget
    · simp only [revMap, revObjs, hk]
      rw [e1]; exact Recorded_append _ _ _ _ hrec0
    · simp only [revObjs, revSize, hk]
      intro p hp
      obtain ⟨a, b, c, e⟩ := hdocOK p hp
      exact ⟨a, by omega, c, e⟩
    · simpa only [revObjs, revMap, hk] using hdocComplete
    · rw [hout]; simp only [List.length_append, writeXrefTable, XREF_KW, List.length_cons]; omega
    · intro k hk'
      simp only [revTrailer, hk]
      rw [normD_get, htr, Dict_get_set]; simp only [hk'.2.1, if_false]
    · simp only [revTrailer, hk, Dict.keys]
      rw [normD_keys, htr]; exact Dict_nodup_set _ _ _ hnd
  | stream =>
    obtain ⟨hout, htr⟩ := saveFrom_stream_eq pre d out d' hk h
    have hokx := xrefObjP_okN pre d out d' hk h hlen hok.hmax hok.wf.gens hok.tr
    obtain ⟨x1, x2, x4⟩ := hokx
    obtain ⟨n1, n2, n3, n4, n5, _⟩ := normD_streamTrailer_facts pre d hnd hok.hmax hok.wf.gens
    generalize hc : xrefStreamContent (streamSecs (xmapStream pre d) (d.maxId + 1)) = content at hout x4 n5
    obtain ⟨tail, htail⟩ : ∃ t, t = STARTXREF_KW ++ natDigits (bodyOf pre d).length ++ EOF_KW ++ R := ⟨_, rfl⟩
    have e : out ++ R = bodyOf pre d ++ (writeIndirect (d.maxId + 1) 0 (.stream (streamTrailer pre d) content) ++ tail) := by
      rw [hout, htail]; simp only [List.append_assoc]
    have hD : DictReadsBackN (streamTrailer pre d) (normD (streamTrailer pre d))
        (STREAM_KW ++ (content ++ (ENDSTREAM_KW ++ 32 :: (ENDOBJ_TAIL ++ tail)))) :=
      pDictionary_rt _ _ x1 x2
    have hset : Dict.set (normD (streamTrailer pre d)) LENGTH (.int content.length) = normD (streamTrailer pre d) :=
      Dict_set_same _ _ _ n5
    have hxs : (∀ n off g, (xmapStream pre d).get n = some (off, g) → off < 4294967296 ∧ g < 65536) :=
      xmapStream_ok pre d hok.wf.gens
    obtain ⟨table, hdec, hget, hnodup⟩ := xref_stream_rt (xmapStream pre d) (d.maxId + 1)
      (normD (streamTrailer pre d)) ((d.maxId + 1 + 1 : Nat) : Int)
      hxs (by have := hok.hmax; omega)
      ⟨d.maxId + 1, by omega, by omega, by simp [xmapStream, XrefMap.get_insert_same]⟩ n1 n2 n3 n4
    rw [hc] at hdec
    have hmod : ((((d.maxId + 1 + 1 : Nat) : Int)) % (U32 : Int)).toNat = d.maxId + 2 := by
      have := hok.hmax
      simp [U32]; omega
    have hndN : (Dict.keys (normD (streamTrailer pre d))).Nodup := by
      simp only [Dict.keys]; rw [normD_keys]; exact streamTrailer_nodup pre d hnd
    -- objects
    have hnotin : ∀ g, d.objects.get (d.maxId + 1, g) = none := by
      intro g
      cases hg : d.objects.get (d.maxId + 1, g) with
      | none => rfl
      | some o =>
        have := (hok.wf.range _ (Objects_mem_of_get d.objects _ o hg)).2
        simp only at this
        omega
    have hallN : (d.objects ++ [((d.maxId + 1, 0), xrefObjP pre d)]).get (d.maxId + 1, 0) = some (xrefObjP pre d) := by
      simp [Objects_get_append, hnotin 0, Objects.get]
    have hallOther : ∀ k g, k ≠ d.maxId + 1 →
        (d.objects ++ [((d.maxId + 1, 0), xrefObjP pre d)]).get (k, g) = d.objects.get (k, g) := by
      intro k g hk'
      have : ¬ ((d.maxId + 1, 0) : ObjId) = (k, g) := by
        intro e; injection e with e1 _; exact hk' e1.symm
      cases hd : d.objects.get (k, g) <;> simp [Objects_get_append, hd, Objects.get, this]
    have hxtype : NotObjStm (xrefObjP pre d) := by
      show Dict.getTypeIs (streamTrailer pre d) OBJSTM = false
      unfold Dict.getTypeIs
      rw [streamTrailer_get_type pre d hnd]
      simp [Obj.asName, XREF_NAME, OBJSTM]
    have hxo : xrefObjP pre d = .stream (streamTrailer pre d) content := by simp only [xrefObjP, hc]
    refine ⟨table, ?_, ⟨?_, hnodup, ?_, ?_, ?_⟩, ?_, ?_, ?_⟩
    · simp only [revSize, revTrailer, hk]
      rw [e, List.drop_left, xrefAndTrailer_xrefStreamN (d.maxId + 1) (streamTrailer pre d) (normD (streamTrailer pre d))
        content tail (by have := hok.hmax; simp [U32_MAX]; omega) n5 hD, hset, hdec, hmod, streamTrailerReadN]
    · simp only [revSize, revMap, hk]
      intro n
      rw [hget n]
      have : (1 ≤ n ∧ n ≤ d.maxId + 1) ↔ (1 ≤ n ∧ n < d.maxId + 2) := by omega
      simp only [this]
    · simp only [revMap, revObjs, hk]
      intro n off g hx
      by_cases hn : n = d.maxId + 1
      · subst hn
        simp only [xmapStream, XrefMap.get_insert_same] at hx
        injection hx with hx
        injection hx with h1 h2
        subst h1; subst h2
        rw [Nat.mod_eq_of_lt hbl]
        refine ⟨by simp only [List.length_append]; omega, xrefObjP pre d, hallN, hxtype, ?_⟩
        unfold ObjAt
        rw [e, List.drop_left, hxo]
        exact List.prefix_append _ _
      · simp only [xmapStream, XrefMap.get_insert_other _ _ _ _ hn] at hx
        obtain ⟨h1, o, h2, h3, h4⟩ := hrec0 n off g hx
        refine ⟨by simp only [List.length_append]; omega, o, by rw [hallOther n g hn]; exact h2, h3, ?_⟩
        rw [e]
        exact ObjAt_append _ _ _ _ _ _ h4
    · simp only [revObjs, revSize, hk]
      intro p hp
      rw [List.mem_append] at hp
      rcases hp with hp | hp
      · obtain ⟨a, b, c, e'⟩ := hdocOK p hp
        exact ⟨a, by omega, c, e'⟩
      · simp only [List.mem_singleton] at hp
        subst hp
        refine ⟨?_, by simp only; omega, by simp only; omega, by simp only; omega⟩
        show ObjOKN (xrefObjP pre d)
        rw [hxo]
        exact ⟨x1, x2, x4⟩
    · simp only [revObjs, revMap, hk]
      intro id o hd
      by_cases hn : id.1 = d.maxId + 1
      · have hid2 : id.2 = 0 := by
          cases hg : d.objects.get id with
          | some o' =>
            have := (hok.wf.range _ (Objects_mem_of_get d.objects _ o' hg)).2
            simp only at this; omega
          | none =>
            simp only [Objects_get_append, hg, Option.orElse_none, Objects.get] at hd
            split at hd
            · rename_i heq; rw [← heq]
            · cases hd
        refine ⟨(bodyOf pre d).length % 4294967296, ?_⟩
        rw [hn, hid2]
        simp [xmapStream, XrefMap.get_insert_same]
      · have hd' : d.objects.get id = some o := by
          have := hallOther id.1 id.2 hn
          rw [← this]; exact hd
        obtain ⟨off, hx⟩ := hdocComplete id o hd'
        exact ⟨off, by simp only [xmapStream, XrefMap.get_insert_other _ _ _ _ hn]; exact hx⟩
    · rw [hout]; simp only [List.length_append, writeIndirect]; simp; omega
    · intro k hk'
      simp only [revTrailer, hk, streamTrailerReadN]
      have m1 := Dict_nodup_remove _ LENGTH hndN
      have m2 := Dict_nodup_remove _ W_KEY m1
      rw [Dict_get_remove _ _ _ m2, Dict_get_remove _ _ _ m1, Dict_get_remove _ _ _ hndN, normD_get]
      simp only [hk'.2.2.2.1, hk'.2.2.1, hk'.2.2.2.2.2, if_false]
      rw [streamTrailer_get_other pre d hnd k hk'.1 hk'.2.1 hk'.2.2.1 hk'.2.2.2.1 hk'.2.2.2.2.1 hk'.2.2.2.2.2]
    · simp only [revTrailer, hk, streamTrailerReadN]
      exact Dict_nodup_remove _ _ (Dict_nodup_remove _ _ (Dict_nodup_remove _ _ hndN))

end Lopdf.FileRT
