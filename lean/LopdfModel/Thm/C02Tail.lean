import LopdfModel.Thm.C02StartXref
/-
  C02 — the end of the file: `Reader::get_xref_start` (backward search for `%%EOF` in the last
  512 bytes, then for `startxref` in the 25 bytes before it) finds the offset that the
  `startxref` section of the file states, in every spelling of that section.
-/
namespace Lopdf.Grammar
open Lopdf Gen

/-! ### `search_substring` (last occurrence) -/

theorem go_no_occurrence (pat : Bytes) : ∀ (t : Bytes) (fuel i : Nat) (acc : Option Nat), t.length < fuel →
    (∀ j, j < t.length → pat.isPrefixOf (t.drop j) = false) → searchLast.go pat fuel t i acc = acc := by
  intro t
  induction t with
  | nil => intro fuel i acc hf _; cases fuel <;> simp [searchLast.go]
  | cons a as ih =>
    intro fuel i acc hf hno
    cases fuel with
    | zero => simp at hf
    | succ f =>
      have h0 := hno 0 (by simp)
      simp only [List.drop_zero] at h0
      simp only [searchLast.go, h0, Bool.false_eq_true, if_false]
      exact ih f (i + 1) acc (by simp at hf; omega) (fun j hj => by
        have := hno (j + 1) (by simp; omega)
        simpa using this)

/-- the last occurrence: `pat` starts `v`, and does not occur in `v` at any later position -/
theorem go_last (pat v : Bytes) (hp : pat.isPrefixOf v = true) (hne : v ≠ [])
    (hno : ∀ j, 0 < j → j < v.length → pat.isPrefixOf (v.drop j) = false) :
    ∀ (u : Bytes) (fuel i : Nat) (acc : Option Nat), (u ++ v).length < fuel →
    searchLast.go pat fuel (u ++ v) i acc = some (i + u.length) := by
  intro u
  induction u with
  | nil =>
    intro fuel i acc hf
    cases v with
    | nil => exact absurd rfl hne
    | cons x xs =>
      cases fuel with
      | zero => simp at hf
      | succ f =>
        simp only [List.nil_append, searchLast.go, hp, if_true, List.length_nil, Nat.add_zero]
        exact go_no_occurrence pat xs f (i + 1) (some i) (by simp at hf; omega) (fun j hj => by
          have := hno (j + 1) (by omega) (by simp; omega)
          simpa using this)
  | cons a as ih =>
    intro fuel i acc hf
    cases fuel with
    | zero => simp at hf
    | succ f =>
      simp only [List.cons_append, searchLast.go]
      rw [ih f (i + 1) _ (by simp at hf ⊢; omega)]
      simp only [List.length_cons]; congr 1; omega

theorem searchLast_last (pat pre v : Bytes) (start : Nat) (hs : start ≤ pre.length)
    (hp : pat.isPrefixOf v = true) (hne : v ≠ [])
    (hno : ∀ j, 0 < j → j < v.length → pat.isPrefixOf (v.drop j) = false) :
    searchLast pat (pre ++ v) start = some pre.length := by
  unfold searchLast
  have hd : (pre ++ v).drop start = pre.drop start ++ v := by
    rw [List.drop_append_of_le_length hs]
  simp only [hd]
  rw [go_last pat v hp hne hno (pre.drop start) _ start none (by omega)]
  simp only [List.length_drop]; congr 1; omega

/-- no later occurrence when the first byte of the pattern does not occur later at all -/
theorem no_later_of_first (p0 : UInt8) (ps v : Bytes) (h : p0 ∉ v.drop 1) :
    ∀ j, 0 < j → j < v.length → (p0 :: ps).isPrefixOf (v.drop j) = false := by
  intro j hj hl
  cases hd : v.drop j with
  | nil => simp [List.isPrefixOf]
  | cons x xs =>
    by_cases hx : p0 = x
    · exfalso; apply h
      have : x ∈ v.drop j := by rw [hd]; simp
      have hsub : v.drop j = (v.drop 1).drop (j - 1) := by
        rw [List.drop_drop]; congr 1; omega
      rw [hsub] at this
      exact hx ▸ List.mem_of_mem_drop this
    · simp [List.isPrefixOf, hx]

/-! ### the end of the file -/

/-- what may follow `%%EOF`: nothing or one end-of-line marker -/
inductive IsFileEnd : Bytes → Prop where
  | none : IsFileEnd []
  | lf : IsFileEnd [10]
  | cr : IsFileEnd [13]
  | crlf : IsFileEnd [13, 10]

theorem eof_last (post : Bytes) (h : IsFileEnd post) :
    EOF_MARK.isPrefixOf (EOF_MARK ++ post) = true ∧ EOF_MARK ++ post ≠ [] ∧
    (∀ j, 0 < j → j < (EOF_MARK ++ post).length → EOF_MARK.isPrefixOf ((EOF_MARK ++ post).drop j) = false) ∧
    (115 : UInt8) ∉ EOF_MARK ++ post ∧ (EOF_MARK ++ post).length ≤ 7 := by
  have key : ∀ v : Bytes, (∀ j, j < v.length → 0 < j → EOF_MARK.isPrefixOf (v.drop j) = false) →
      ∀ j, 0 < j → j < v.length → EOF_MARK.isPrefixOf (v.drop j) = false := fun v h j hj hl => h j hl hj
  cases h <;> refine ⟨by decide, by decide, key _ (by decide), by decide, by decide⟩

theorem eol_no_s (e : Bytes) (h : IsEol e) : (115 : UInt8) ∉ e := by cases h <;> decide
theorem sp_no_s (s : Bytes) (h : AllSp s) : (115 : UInt8) ∉ s := by
  intro hm; have := h 115 hm; simp at this
theorem digits_no_s {n : Nat} {ds : Bytes} (h : DerivesNat n ds) : (115 : UInt8) ∉ ds := by
  intro hm; have := (derivesNat_facts h).2.1 115 hm; simp [isDigit] at this

/-- **`get_xref_start`, every spelling of the `startxref` section**: whatever precedes it
(`pre`), with the section at most 25 bytes long before `%%EOF` (lopdf searches `startxref` only
that far back) and more than 25 bytes of file in front of `%%EOF`. -/
theorem getXrefStart_complete (n : Nat) (pre e1 s1 ds s2 e2 post : Bytes) (he1 : IsEol e1) (hs1 : AllSp s1)
    (hd : DerivesNat n ds) (hn : n ≤ I64MAX) (hs2 : AllSp s2) (he2 : IsEol e2) (hpost : IsFileEnd post)
    (hshort : (STARTXREF ++ (e1 ++ (s1 ++ (ds ++ (s2 ++ e2))))).length ≤ 25)
    (hlong : 25 < (pre ++ (STARTXREF ++ (e1 ++ (s1 ++ (ds ++ (s2 ++ e2)))))).length) :
    getXrefStart (pre ++ (STARTXREF ++ (e1 ++ (s1 ++ (ds ++ (s2 ++ (e2 ++ (EOF_MARK ++ post)))))))) = some n := by
  obtain ⟨p1, p2, p3, p4, p5⟩ := eof_last post hpost
  -- the file as  A ++ (%%EOF ++ post)  and as  pre ++ (startxref … ++ %%EOF ++ post)
  have eA : pre ++ (STARTXREF ++ (e1 ++ (s1 ++ (ds ++ (s2 ++ (e2 ++ (EOF_MARK ++ post))))))) =
      (pre ++ (STARTXREF ++ (e1 ++ (s1 ++ (ds ++ (s2 ++ e2)))))) ++ (EOF_MARK ++ post) := by simp
  have h1 : searchLast EOF_MARK (pre ++ (STARTXREF ++ (e1 ++ (s1 ++ (ds ++ (s2 ++ (e2 ++ (EOF_MARK ++ post)))))))) 
      ((pre ++ (STARTXREF ++ (e1 ++ (s1 ++ (ds ++ (s2 ++ (e2 ++ (EOF_MARK ++ post)))))))).length -
        min (pre ++ (STARTXREF ++ (e1 ++ (s1 ++ (ds ++ (s2 ++ (e2 ++ (EOF_MARK ++ post)))))))).length 512) =
      some (pre ++ (STARTXREF ++ (e1 ++ (s1 ++ (ds ++ (s2 ++ e2)))))).length := by
    rw [eA]
    exact searchLast_last EOF_MARK _ _ _ (by simp only [List.length_append] at p5 ⊢; omega) p1 p2 p3
  -- `startxref` is the last occurrence at or after eofPos - 25
  have hnoS : (115 : UInt8) ∉ (STARTXREF ++ (e1 ++ (s1 ++ (ds ++ (s2 ++ (e2 ++ (EOF_MARK ++ post))))))).drop 1 := by
    have : (STARTXREF ++ (e1 ++ (s1 ++ (ds ++ (s2 ++ (e2 ++ (EOF_MARK ++ post))))))).drop 1 =
        [116, 97, 114, 116, 120, 114, 101, 102] ++ (e1 ++ (s1 ++ (ds ++ (s2 ++ (e2 ++ (EOF_MARK ++ post)))))) := rfl
    rw [this]
    simp only [List.mem_append, not_or]
    exact ⟨by decide, eol_no_s e1 he1, sp_no_s s1 hs1, digits_no_s hd, sp_no_s s2 hs2, eol_no_s e2 he2,
      by simpa [List.mem_append] using p4⟩
  have h2 : searchLast STARTXREF (pre ++ (STARTXREF ++ (e1 ++ (s1 ++ (ds ++ (s2 ++ (e2 ++ (EOF_MARK ++ post))))))))
      ((pre ++ (STARTXREF ++ (e1 ++ (s1 ++ (ds ++ (s2 ++ e2)))))).length - 25) = some pre.length :=
    searchLast_last STARTXREF pre _ _ (by simp only [List.length_append] at hshort ⊢; omega)
      (by simp [STARTXREF, List.isPrefixOf]) (by simp [STARTXREF])
      (no_later_of_first 115 _ _ hnoS)
  have h3 : pXrefStart ((pre ++ (STARTXREF ++ (e1 ++ (s1 ++ (ds ++ (s2 ++ (e2 ++ (EOF_MARK ++ post)))))))).drop pre.length) =
      some (Int.ofNat n) := by
    rw [List.drop_left]
    exact xrefStart_complete n e1 s1 ds s2 e2 post he1 hs1 hd hn hs2 he2
  unfold getXrefStart
  simp only [h1, Option.bind, hlong, if_true, h2, h3, Option.map]
  simp
  intro hneg; omega

end Lopdf.Grammar
