import LopdfModel.Thm.C12
import LopdfModel.Thm.C17Rep
import LopdfModel.Thm.C17Toc
/-
  C17 (4) — installing the outline leaves the page enumeration alone, and the end-to-end statement:
  add_bookmark* ; build_outline ; install under the catalog ; get_toc  =  preorder of the forest.
-/
namespace Lopdf.C17
open Lopdf Gen

section frame
variable (os os' : Objects) (cat : ObjId) (catd catd' : Dict)

/-- `os'` is `os` with the catalog dictionary replaced and (possibly) objects added at ids `os` does not have -/
structure CatFrame : Prop where
  hcat : os.get cat = some (.dict catd)
  hcat' : os'.get cat = some (.dict catd')
  hother : ∀ q x, q ≠ cat → os.get q = some x → os'.get q = some x

def relCat (x x' : Obj) : Prop := x' = x ∨ (x = .dict catd ∧ x' = .dict catd')

theorem derefAux_nonref (os : Objects) (n : Nat) (o : Obj) (h : ∀ a b, o ≠ .ref a b) : derefAux os n o = some o := by
  cases o <;> first | (exact absurd rfl (h _ _)) | simp [derefAux]

theorem deref_frame (F : CatFrame os os' cat catd catd') : ∀ (n : Nat) (o r : Obj), derefAux os n o = some r →
    ∃ r', derefAux os' n o = some r' ∧ relCat catd catd' r r' := by
  intro n
  induction n with
  | zero =>
    intro o r h
    by_cases hr : ∃ a b, o = .ref a b
    · obtain ⟨a, b, rfl⟩ := hr
      simp only [derefAux] at h
      cases hg : os.get (a, b) <;> simp [hg] at h
    · have hn : ∀ a b, o ≠ .ref a b := fun a b e => hr ⟨a, b, e⟩
      rw [derefAux_nonref os 0 o hn] at h; cases h
      exact ⟨o, derefAux_nonref os' 0 o hn, Or.inl rfl⟩
  | succ n ih =>
    intro o r h
    by_cases hr : ∃ a b, o = .ref a b
    · obtain ⟨a, b, rfl⟩ := hr
      simp only [derefAux] at h
      cases hg : os.get (a, b) with
      | none => simp [hg] at h
      | some o' =>
        simp only [hg] at h
        by_cases hc : (a, b) = cat
        · rw [hc, F.hcat] at hg; cases hg
          rw [derefAux_nonref os n _ (by intro a b e; cases e)] at h; cases h
          refine ⟨.dict catd', ?_, Or.inr ⟨rfl, rfl⟩⟩
          simp only [derefAux, hc, F.hcat']
        · obtain ⟨r', h1, h2⟩ := ih o' r h
          refine ⟨r', ?_, h2⟩
          simp only [derefAux, F.hother (a, b) o' hc hg]
          exact h1
    · have hn : ∀ a b, o ≠ .ref a b := fun a b e => hr ⟨a, b, e⟩
      rw [derefAux_nonref os _ o hn] at h; cases h
      exact ⟨o, derefAux_nonref os' _ o hn, Or.inl rfl⟩

theorem getDictionary_frame (F : CatFrame os os' cat catd catd') (id : ObjId) (d : Dict)
    (h : getDictionary os id = some d) :
    ∃ d', getDictionary os' id = some d' ∧ (d' = d ∨ (d = catd ∧ d' = catd')) := by
  simp only [getDictionary, getObject] at h ⊢
  cases hg : os.get id with
  | none => rw [hg] at h; simp at h
  | some x =>
    rw [hg] at h
    simp only [Option.bind_some, deref] at h ⊢
    cases hd : derefAux os DEREF_LIMIT x with
    | none => rw [hd] at h; simp at h
    | some r =>
      rw [hd] at h
      simp only [Option.bind_some] at h
      have hr : r = .dict d := by cases r <;> simp [Obj.asDict] at h; rw [h]
      subst hr
      by_cases hc : id = cat
      · subst hc
        rw [F.hcat] at hg; cases hg
        rw [derefAux_nonref os _ _ (by intro a b e; cases e)] at hd; cases hd
        refine ⟨catd', ?_, Or.inr ⟨rfl, rfl⟩⟩
        simp [F.hcat', deref, derefAux_nonref os' _ (Obj.dict catd') (by intro a b e; cases e), Obj.asDict]
      · obtain ⟨r', h1, h2⟩ := deref_frame os os' cat catd catd' F _ _ _ hd
        rcases h2 with rfl | ⟨e1, rfl⟩
        · exact ⟨d, by simp [F.hother id x hc hg, h1, Obj.asDict, deref], Or.inl rfl⟩
        · cases e1
          exact ⟨catd', by simp [F.hother id x hc hg, h1, Obj.asDict, deref], Or.inr ⟨rfl, rfl⟩⟩

theorem kidsOf_frame (F : CatFrame os os' cat catd catd') (hk : catd'.get KIDS = catd.get KIDS)
    (id : ObjId) (ks : List Obj) (h : kidsOf os id = some ks) : kidsOf os' id = some ks := by
  simp only [kidsOf] at h ⊢
  cases hd : getDictionary os id with
  | none => rw [hd] at h; simp at h
  | some d =>
    rw [hd] at h
    simp only [Option.bind_some] at h
    obtain ⟨d', h1, h2⟩ := getDictionary_frame os os' cat catd catd' F id d hd
    have hkk : d'.get KIDS = d.get KIDS := by
      rcases h2 with rfl | ⟨rfl, rfl⟩
      · rfl
      · exact hk
    simp only [h1, Option.bind_some, hkk]
    cases hg : d.get KIDS with
    | none => rw [hg] at h; simp at h
    | some k =>
      rw [hg] at h
      simp only [Option.bind_some, deref] at h ⊢
      cases hr : derefAux os DEREF_LIMIT k with
      | none => rw [hr] at h; simp at h
      | some r =>
        rw [hr] at h
        simp only [Option.bind_some] at h
        have : r = .arr ks := by cases r <;> simp [Obj.asArr] at h; rw [h]
        subst this
        obtain ⟨r', h3, h4⟩ := deref_frame os os' cat catd catd' F _ _ _ hr
        rcases h4 with rfl | ⟨e, _⟩
        · simp [h3, Obj.asArr]
        · cases e

theorem classify_frame (F : CatFrame os os' cat catd catd') (hk : catd'.get KIDS = catd.get KIDS)
    (ht : catd'.getType = catd.getType) (kid : Obj) :
    (∀ id, classify os kid = .page id → classify os' kid = .page id) ∧
    (∀ ks, classify os kid = .pages (some ks) → classify os' kid = .pages (some ks)) := by
  unfold classify
  cases hr : kid.asRef with
  | none => simp
  | some id =>
    simp only
    cases hd : getDictionary os id with
    | none => simp
    | some d =>
      obtain ⟨d', h1, h2⟩ := getDictionary_frame os os' cat catd catd' F id d hd
      have htt : d'.getType = d.getType := by
        rcases h2 with rfl | ⟨rfl, rfl⟩
        · rfl
        · exact ht
      simp only [h1, Option.bind_some, htt]
      cases hty : d.getType with
      | none => simp
      | some t =>
        simp only
        by_cases hp : t = PAGE
        · simp [hp]
        · simp only [hp, if_false]
          by_cases hps : t = PAGES
          · simp only [hps, if_true]
            refine ⟨by simp, ?_⟩
            intro ks hks
            simp only [Cls.pages.injEq] at hks
            rw [kidsOf_frame os os' cat catd catd' F hk id ks hks]
          · simp [hps]

mutual
theorem Embeds_frame (F : CatFrame os os' cat catd catd') (hk : catd'.get KIDS = catd.get KIDS)
    (ht : catd'.getType = catd.getType) : ∀ t : PT, Embeds (classify os) t → Embeds (classify os') t
  | .page pid, h => by
    simp only [Embeds] at h ⊢
    exact (classify_frame os os' cat catd catd' F hk ht _).1 _ h
  | .pages pid ks, h => by
    simp only [Embeds] at h ⊢
    exact ⟨(classify_frame os os' cat catd catd' F hk ht _).2 _ h.1, EmbedsL_frame F hk ht ks h.2⟩
theorem EmbedsL_frame (F : CatFrame os os' cat catd catd') (hk : catd'.get KIDS = catd.get KIDS)
    (ht : catd'.getType = catd.getType) : ∀ ts : List PT, EmbedsL (classify os) ts → EmbedsL (classify os') ts
  | [], _ => by simp [EmbedsL]
  | t :: ts, h => by
    simp only [EmbedsL] at h ⊢
    exact ⟨Embeds_frame F hk ht t h.1, EmbedsL_frame F hk ht ts h.2⟩
end

/-- **page enumeration frame.** For a document whose page tree is well formed in the sense of C12
(`pageIter_dfs`), replacing the catalog dictionary by one with the same `Type`, `Kids` and `Pages`
entries and adding objects at unused ids does not change `page_iter`. -/
theorem pageIter_frame (F : CatFrame os os' cat catd catd') (hk : catd'.get KIDS = catd.get KIDS)
    (ht : catd'.getType = catd.getType) (hpg : catd'.get PAGES = catd.get PAGES)
    (trailer : Dict) (pid : ObjId) (ks : List PT)
    (hroot : (trailer.get ROOT).bind Obj.asRef = some cat)
    (hpages : (catd.get PAGES).bind Obj.asRef = some pid)
    (hkids : kidsOf os pid = some (PT.idsL ks))
    (hemb : EmbedsL (classify os) ks)
    (hnodup : (PT.allIdsL ks).Nodup)
    (hdepth : PT.heightL ks ≤ PAGE_TREE_DEPTH_LIMIT) :
    pageIter trailer os' = PT.leavesL ks ∧ pageIter trailer os = PT.leavesL ks := by
  have hc : getDictionary os cat = some catd := by
    simp [getDictionary, getObject, F.hcat, deref, derefAux_nonref os _ (Obj.dict catd) (by intro a b e; cases e), Obj.asDict]
  have hc' : getDictionary os' cat = some catd' := by
    simp [getDictionary, getObject, F.hcat', deref, derefAux_nonref os' _ (Obj.dict catd') (by intro a b e; cases e), Obj.asDict]
  refine ⟨?_, pageIter_dfs trailer os cat pid catd ks hroot hc hpages hkids hemb hnodup hdepth⟩
  exact pageIter_dfs trailer os' cat pid catd' ks hroot hc' (by rw [hpg]; exact hpages)
    (kidsOf_frame os os' cat catd catd' F hk pid _ hkids)
    (EmbedsL_frame os os' cat catd catd' F hk ht ks hemb) hnodup hdepth

end frame

/-! ## end to end -/

theorem EmbL_mono : ∀ (n : Nat) (ts : List BT), BT.sizeL ts ≤ n →
    ∀ (g g' : ObjId → Option Dict) (m : Nat) (parent : ObjId) (prev : Option ObjId),
      (∀ q d, g q = some d → g' q = some d) → EmbL g m parent prev ts → EmbL g' m parent prev ts := by
  intro n
  induction n with
  | zero =>
    intro ts h; have := BT.sizeL_eq_zero (Nat.le_zero.mp h); subst this
    intros; simp [EmbL]
  | succ n ih =>
    intro ts hsz g g' m parent prev hg hE
    cases ts with
    | nil => simp [EmbL]
    | cons t r =>
      cases t with
      | node id title f c page kids =>
        simp only [EmbL, EmbN, BT.sizeL, BT.size] at hE hsz ⊢
        obtain ⟨⟨h1, h2, h3⟩, h4⟩ := hE
        exact ⟨⟨hg _ _ h1, hg _ _ h2, ih kids (by omega) g g' _ _ _ hg h3⟩, ih r (by omega) g g' _ _ _ hg h4⟩

theorem Proc.get_some_mem_keys (p : Proc) (q : ObjId) (d : Dict) (h : p.get q = some d) : q ∈ p.keys := by
  induction p with
  | nil => simp [Proc.get] at h
  | cons e r ih =>
    obtain ⟨k, v⟩ := e
    simp only [Proc.get] at h
    by_cases hk : k = q
    · simp [Proc.keys, hk]
    · simp only [hk, if_false] at h
      have := ih h
      simp only [Proc.keys, List.map_cons, List.mem_cons] at this ⊢
      exact Or.inr this

mutual
theorem leaves_sublist : ∀ t : PT, (PT.leaves t).Sublist (PT.allIds t)
  | .page _ => by simp [PT.leaves, PT.allIds]
  | .pages _ ks => by
    simp only [PT.leaves, PT.allIds]
    exact List.Sublist.cons _ (leavesL_sublist ks)
theorem leavesL_sublist : ∀ ts : List PT, (PT.leavesL ts).Sublist (PT.allIdsL ts)
  | [] => by simp [PT.leavesL, PT.allIdsL]
  | t :: ts => by
    simp only [PT.leavesL, PT.allIdsL]
    exact List.Sublist.append (leaves_sublist t) (leavesL_sublist ts)
end

/-- General form of the end-to-end statement for any bookmark state whose table represents a forest
`ts` (used for plain `add_bookmark` sequences and for sequences followed by `adjust_zero_pages`).
**C17, end to end.**  Take any document whose page tree is well formed (C12: the forest `ks`
of distinct `Page`/`Pages` objects under the catalog's `Pages` node, nesting within the limit), whose
catalog is stored directly, has no `Dests`/`Names`, and whose objects all have numbers ≤ `max_id`.
Take ANY sequence of `add_bookmark(Bookmark::new(title, …, page), parent)` calls (children attached
in any order, possibly to missing parents) with at least one reachable bookmark, such that the
reachable bookmarks have pairwise distinct titles and target pages in the page tree.
Then for all sufficient fuel (`outline_child` has no guard) `build_outline` succeeds and, after `catalog.set("Outlines", root)`,
`get_toc` returns exactly the preorder of the bookmark forest: level, title, page number. -/
theorem toc_readback_rep (trailer : Dict) (os : Objects) (cat pid : ObjId) (catd : Dict) (ks : List PT)
    (maxId : Nat) (s : BmState) (ts : List BT) (hrep : repL s.table s.roots ts = true)
    (hroot : (trailer.get ROOT).bind Obj.asRef = some cat)
    (hcatd : os.get cat = some (.dict catd))
    (hpages : (catd.get PAGES).bind Obj.asRef = some pid)
    (hkids : kidsOf os pid = some (PT.idsL ks))
    (hemb : EmbedsL (classify os) ks)
    (hnodup : (PT.allIdsL ks).Nodup)
    (hdepth : PT.heightL ks ≤ PAGE_TREE_DEPTH_LIMIT)
    (hold : ∀ q x, os.get q = some x → q.1 ≤ maxId)
    (hnd : catd.get RD_DESTS = none) (hnn : catd.get RD_NAMES = none)
    (hne : ts ≠ [])
    (htarget : ∀ e ∈ BT.preL 1 (ts), e.2.2 ∈ PT.leavesL ks)
    (hscalar : ∀ e ∈ BT.preL 1 (ts), ∀ c ∈ e.2.1, IsScalar c)
    (hdistinct : ((BT.preL 1 (ts)).map (fun e => e.2.1)).Nodup)
    (fuelB : Nat) (hfB : BT.sizeL (ts) ≤ fuelB) :
    ∃ b, buildOutline fuelB (s) maxId = some (some b) ∧
      getToc trailer (setOutlines (installObjs os b.objs) cat b.root) =
        .ok ((BT.preL 1 (ts)).map
          (fun e => { level := e.1, title := e.2.1, page := pageIndex (PT.leavesL ks) e.2.2 + 1 })) 0 := by
  obtain ⟨b, hb, hbroot, _, hbrootd, hbemb⟩ := outline_links s ts maxId fuelB hrep hne hfB
  refine ⟨b, hb, ?_⟩
  obtain ⟨_, _, hfresh⟩ := outline_ids_fresh _ _ _ _ hb
  have hnew_gt : ∀ q d, b.objs.get q = some d → maxId < q.1 := fun q d h =>
    (hfresh q (Proc.get_some_mem_keys _ _ _ h)).2.1
  have hold_none : ∀ q x, os.get q = some x → b.objs.get q = none := by
    intro q x hq
    cases hg : b.objs.get q with
    | none => rfl
    | some d => have := hnew_gt q d hg; have := hold q x hq; omega
  have hos1 : ∀ q x, os.get q = some x → (installObjs os b.objs).get q = some x := by
    intro q x hq; rw [installObjs_get, hold_none q x hq]; exact hq
  have hgd1 : getDictionary (installObjs os b.objs) cat = some catd := by
    simp [getDictionary, getObject, hos1 cat _ hcatd, deref,
      derefAux_nonref _ _ (Obj.dict catd) (by intro a b e; cases e), Obj.asDict]
  have hset : setOutlines (installObjs os b.objs) cat b.root =
      (cat, .dict (catd.set CAT_OUTLINES (oref b.root))) :: installObjs os b.objs := by
    simp [setOutlines, hgd1]
  rw [hset, hbroot]
  have F : CatFrame os ((cat, .dict (catd.set CAT_OUTLINES (oref (maxId + 1, 0)))) :: installObjs os b.objs) cat catd
      (catd.set CAT_OUTLINES (oref (maxId + 1, 0))) := by
    refine ⟨hcatd, by simp [Objects.get], ?_⟩
    intro q x hq hx
    have : ¬ cat = q := fun e => hq e.symm
    simp only [Objects.get, this, if_false]
    exact hos1 q x hx
  have hk : (catd.set CAT_OUTLINES (oref (maxId + 1, 0))).get KIDS = catd.get KIDS :=
    Dict.get_set_ne _ _ _ _ (by decide)
  have ht : (catd.set CAT_OUTLINES (oref (maxId + 1, 0))).getType = catd.getType := by
    unfold Dict.getType Dict.has
    rw [Dict.get_set_ne _ CAT_OUTLINES TYPE _ (by decide), Dict.get_set_ne _ CAT_OUTLINES LINEARIZED _ (by decide)]
  have hpg : (catd.set CAT_OUTLINES (oref (maxId + 1, 0))).get PAGES = catd.get PAGES :=
    Dict.get_set_ne _ _ _ _ (by decide)
  have hpi := (pageIter_frame os _ cat catd _ F hk ht hpg trailer pid ks hroot hpages hkids hemb hnodup hdepth).1
  have hcat_le : cat.1 ≤ maxId := hold cat _ hcatd
  have hdict : ∀ q d, b.objs.get q = some d →
      dictAt ((cat, .dict (catd.set CAT_OUTLINES (oref (maxId + 1, 0)))) :: installObjs os b.objs) q = some d := by
    intro q d hq
    have hlt := hnew_gt q d hq
    have : ¬ cat = q := by intro e; subst e; omega
    simp [dictAt, Objects.get, this, installObjs_get, hq]
  refine toc_readback trailer _ (catd.set CAT_OUTLINES (oref (maxId + 1, 0))) (ts) (maxId + 1)
    (PT.leavesL ks) ?_ ?_ ?_ ?_ (hdict _ _ hbrootd) ?_ hne hpi
    (List.Nodup.sublist (leavesL_sublist ks) hnodup) htarget hscalar hdistinct
  · simp [Q13.catalog, hroot, getDictionary, getObject, Objects.get, deref,
      derefAux_nonref _ _ (Obj.dict (catd.set CAT_OUTLINES (oref (maxId + 1, 0)))) (by intro a b e; cases e), Obj.asDict]
  · have e : RD_OUTLINES = CAT_OUTLINES := by decide
    rw [e, Dict.get_set_eq]; rfl
  · rw [Dict.get_set_ne _ _ _ _ (by decide)]; exact hnd
  · rw [Dict.get_set_ne _ _ _ _ (by decide)]; exact hnn
  · exact EmbL_mono _ _ (Nat.le_refl _) _ _ _ _ _ hdict hbemb

/-- **C17, end to end, for the public API.**  Any document with a well-formed page tree (C12), a
directly stored catalog without `Dests`/`Names`, all object numbers ≤ `max_id`; ANY sequence of
`add_bookmark(Bookmark::new(title, …, page), parent)` calls (children attached in any order, possibly
to missing parents) with at least one reachable bookmark, reachable titles pairwise distinct, target
pages in the page tree.  Then for all sufficient fuel (`outline_child` has no guard) `build_outline` succeeds and, after
`catalog.set("Outlines", root)`, `get_toc` returns exactly the preorder of the bookmark forest:
level, title, page number. -/
theorem toc_readback_api (trailer : Dict) (os : Objects) (cat pid : ObjId) (catd : Dict) (ks : List PT)
    (maxId : Nat) (ops : List (Bm × Option Nat))
    (hroot : (trailer.get ROOT).bind Obj.asRef = some cat)
    (hcatd : os.get cat = some (.dict catd))
    (hpages : (catd.get PAGES).bind Obj.asRef = some pid)
    (hkids : kidsOf os pid = some (PT.idsL ks))
    (hemb : EmbedsL (classify os) ks)
    (hnodup : (PT.allIdsL ks).Nodup)
    (hdepth : PT.heightL ks ≤ PAGE_TREE_DEPTH_LIMIT)
    (hold : ∀ q x, os.get q = some x → q.1 ≤ maxId)
    (hnd : catd.get RD_DESTS = none) (hnn : catd.get RD_NAMES = none)
    (hc : ∀ op ∈ ops, op.1.children = [])
    (hne : forestOfOps ops ≠ [])
    (htarget : ∀ e ∈ BT.preL 1 (forestOfOps ops), e.2.2 ∈ PT.leavesL ks)
    (hscalar : ∀ e ∈ BT.preL 1 (forestOfOps ops), ∀ c ∈ e.2.1, IsScalar c)
    (hdistinct : ((BT.preL 1 (forestOfOps ops)).map (fun e => e.2.1)).Nodup)
    (fuelB : Nat) (hfB : BT.sizeL (forestOfOps ops) ≤ fuelB) :
    ∃ b, buildOutline fuelB (addAll BmState.empty ops) maxId = some (some b) ∧
      getToc trailer (setOutlines (installObjs os b.objs) cat b.root) =
        .ok ((BT.preL 1 (forestOfOps ops)).map
          (fun e => { level := e.1, title := e.2.1, page := pageIndex (PT.leavesL ks) e.2.2 + 1 })) 0 :=
  toc_readback_rep trailer os cat pid catd ks maxId _ _ (rep_of_ops ops hc) hroot hcatd hpages hkids hemb hnodup hdepth
    hold hnd hnn hne htarget hscalar hdistinct fuelB hfB

/-! ## non-vacuity of `toc_readback_api` -/

instance (c : Nat) : Decidable (IsScalar c) := by unfold IsScalar; exact inferInstance

def exTrailer : Dict := [(ROOT, .ref 1 0)]
def exCat : Dict := [(TYPE, .name [67, 97, 116, 97, 108, 111, 103]), (PAGES, .ref 2 0)]
def exOs : Objects :=
  [((1, 0), .dict exCat),
   ((2, 0), .dict [(TYPE, .name PAGES), (KIDS, .arr [.ref 3 0, .ref 4 0])]),
   ((3, 0), .dict [(TYPE, .name PAGE)]),
   ((4, 0), .dict [(TYPE, .name PAGE)])]
def exKs : List PT := [.page (3, 0), .page (4, 0)]

theorem exOs_old : ∀ q x, exOs.get q = some x → q.1 ≤ 4 := by
  intro q x h
  simp only [exOs, Objects.get] at h
  repeat' split at h
  all_goals first | (subst_vars; simp) | (simp at h)

/-- the hypotheses of `toc_readback_api` are met by a two-page document and the interleaved
`add_bookmark` sequence `exOps` (with an orphan): the theorem then gives the four-entry table of
contents A(1) > B(1), C(2) ; é😀(2). -/
example : ∃ b, buildOutline 4 (addAll BmState.empty exOps) 4 = some (some b) ∧
    getToc exTrailer (setOutlines (installObjs exOs b.objs) (1, 0) b.root) =
      .ok [⟨1, [65], 1⟩, ⟨2, [66], 1⟩, ⟨2, [67], 2⟩, ⟨1, [0xE9, 0x1F600], 2⟩] 0 := by
  have h := toc_readback_api exTrailer exOs (1, 0) (2, 0) exCat exKs 4 exOps rfl rfl rfl rfl
    (by simp only [exKs, EmbedsL, Embeds]; exact ⟨rfl, rfl, trivial⟩)
    (by decide) (by decide) exOs_old rfl rfl
    (by decide) (by decide) (by decide)
    (by decide)
    (by decide) 4 (by decide)
  exact h

end Lopdf.C17
