import LopdfModel.Thm.C02Space
import LopdfModel.Thm.C02Num
import LopdfModel.Spec.GrammarXref
/-
  C02 — cross-reference tables: every spelling of a table the grammar allows (`DerivesXrefTable`:
  any of the three end-of-line markers after `xref` and after each subsection header, optional
  blank before the latter, any digit counts / leading zeros, each entry with any of the three
  two-byte line ends, any number of subsections) is read by `xref` to exactly the map the table
  denotes (`tableOf`: the in-use entries, a later line for a number replacing an earlier one).
-/
namespace Lopdf.Grammar
open Lopdf Gen

/-! ### the denoted map -/

theorem XTable_get_insert (x : XTable) (k n : Nat) (v : XEntry) :
    (x.insert k v).get n = if k = n then some v else x.get n := by
  induction x with
  | nil => simp [XTable.insert, XTable.get]
  | cons p rest ih =>
    obtain ⟨k', v'⟩ := p
    simp only [XTable.insert]
    by_cases h : k' = k
    · subst h; by_cases h2 : k' = n <;> simp [XTable.get, h2]
    · by_cases h2 : k' = n
      · subst h2; simp [XTable.get, h, Ne.symm h]
      · simp [XTable.get, h, h2, ih]

theorem bindAll_append (x : XTable) (l1 l2 : List (Nat × XEntry)) :
    bindAll x (l1 ++ l2) = bindAll (bindAll x l1) l2 := by
  simp [bindAll, List.foldl_append]

theorem bindAll_get (l : List (Nat × XEntry)) : ∀ (x : XTable) (n : Nat),
    (bindAll x l).get n = (lastBinding l n).orElse (fun _ => x.get n) := by
  induction l with
  | nil => intro x n; simp [bindAll, lastBinding]
  | cons p rest ih =>
    intro x n
    have : bindAll x (p :: rest) = bindAll (x.insert p.1 p.2) rest := rfl
    rw [this, ih, XTable_get_insert]
    simp only [lastBinding, List.reverse_cons, List.find?_append]
    cases h : List.find? (fun p => p.1 == n) rest.reverse with
    | some q => simp
    | none =>
      by_cases hp : p.1 = n <;> simp [hp]

/-- **Look-up in the denoted map**: the last in-use line for the number, in file order. -/
theorem tableOf_get (secs : List TSub) (n : Nat) :
    (tableOf secs).get n = lastBinding (inUseOf secs) n := by
  rw [tableOf, bindAll_get]; cases lastBinding (inUseOf secs) n <;> simp [XTable.get]

/-! ### lexical helpers -/

theorem noDigitAhead_cons (c : UInt8) (r : Bytes) (h : isDigit c = false) : NoDigitAhead (c :: r) := by
  intro b r' he; injection he with h1 _; subst h1; exact h

theorem unsigned_cons {n : Nat} {ds : Bytes} (h : DerivesNat n ds) (mx : Nat) (hn : n ≤ mx)
    (c : UInt8) (r : Bytes) (hc : isDigit c = false) : pUnsigned mx (ds ++ c :: r) = some (n, c :: r) :=
  unsigned_complete h mx hn _ (noDigitAhead_cons c r hc)

theorem unsigned_none (mx : Nat) (y : Bytes) (h : NoDigitAhead y) : pUnsigned mx y = none := by
  cases y with
  | nil => simp [pUnsigned, digit1, spanP]
  | cons b r => simp [pUnsigned, digit1, spanP, h b r rfl]

theorem entry_none_of_nodigit (y : Bytes) (h : NoDigitAhead y) : pXrefEntry y = none := by
  simp [pXrefEntry, unsigned_none _ y h]

theorem section_none_of_nodigit (y : Bytes) (h : NoDigitAhead y) : pXrefSection y = none := by
  simp [pXrefSection, unsigned_none _ y h]

theorem entryEol_complete (e z : Bytes) (h : IsEntryEol e) : xrefEol (e ++ z) = some z := by
  cases h <;> rfl

/-- **One entry, every spelling.** -/
theorem xrefEntry_complete {t : TEntry} {b : Bytes} (h : DerivesXrefEntry t b) (z : Bytes) :
    pXrefEntry (b ++ z) = some (t, z) := by
  cases h with
  | mk off gen inUse d1 d2 e h1 ho h2 hg he =>
    have hg' : gen ≤ U32_MAX := by simp [U32_MAX]; omega
    have ho' : off ≤ U32_MAX := ho
    simp only [List.append_assoc, List.cons_append, List.nil_append]
    unfold pXrefEntry
    rw [unsigned_cons h1 _ ho' 32 _ (by decide)]
    simp only [Option.bind]
    rw [unsigned_cons h2 _ hg' 32 _ (by decide)]
    simp only [entryEol_complete e z he]
    cases inUse <;> simp

theorem head_digit {n : Nat} {ds : Bytes} (h : DerivesNat n ds) (z : Bytes) :
    ∃ d r, ds ++ z = d :: r ∧ isDigit d = true := by
  obtain ⟨hne, hd, _⟩ := derivesNat_facts h
  cases ds with
  | nil => exact absurd rfl hne
  | cons a as => exact ⟨a, as ++ z, rfl, hd a (by simp)⟩

theorem digit_not_ws : ∀ b : UInt8, isDigit b = true → isWhitespace b = false := by
  apply forall_uint8; decide +kernel

theorem entry_first_digit {t : TEntry} {b : Bytes} (h : DerivesXrefEntry t b) (z : Bytes) :
    ∃ d r, b ++ z = d :: r ∧ isDigit d = true := by
  cases h with
  | mk off gen inUse d1 d2 e h1 ho h2 hg he =>
    obtain ⟨d, r, h, hd⟩ := head_digit h1 ([32] ++ d2 ++ [32, if inUse then 110 else 102] ++ e ++ z)
    exact ⟨d, r, by simpa using h, hd⟩

theorem entries_shape {es : List TEntry} {ebs : Bytes} (h : DerivesXrefEntries es ebs) (z : Bytes) :
    (es = [] ∧ ebs = []) ∨ ∃ d r, ebs ++ z = d :: r ∧ isDigit d = true := by
  cases h with
  | nil => left; exact ⟨rfl, rfl⟩
  | cons e es b bs he _ =>
    right
    obtain ⟨d, r, h1, h2⟩ := entry_first_digit he (bs ++ z)
    exact ⟨d, r, by simpa using h1, h2⟩

theorem entries_length {es : List TEntry} {ebs : Bytes} (h : DerivesXrefEntries es ebs) :
    es.length ≤ ebs.length := by
  induction h with
  | nil => simp
  | cons e es b bs he _ ih =>
    obtain ⟨d, r, h1, _⟩ := entry_first_digit he []
    have : 1 ≤ b.length := by
      have := congrArg List.length h1; simp at this; omega
    simp only [List.length_cons, List.length_append]; omega

/-- **The entries of a subsection, every spelling**, up to a text that is not an entry. -/
theorem manyEntries_complete {es : List TEntry} {ebs : Bytes} (h : DerivesXrefEntries es ebs) :
    ∀ (fuel : Nat) (y : Bytes), pXrefEntry y = none → es.length + 1 ≤ fuel →
    manyXrefEntries fuel (ebs ++ y) = (es, y) := by
  induction h with
  | nil =>
    intro fuel y hy hf
    cases fuel with
    | zero => omega
    | succ f => simp [manyXrefEntries, hy]
  | cons e es b bs he _ ih =>
    intro fuel y hy hf
    cases fuel with
    | zero => omega
    | succ f =>
      have := ih f y hy (by simp at hf ⊢; omega)
      simp only [List.append_assoc, manyXrefEntries, xrefEntry_complete he (bs ++ y), this]

/-! ### end-of-line markers -/

theorem eol_general (e y : Bytes) (he : IsEol e) :
    ∃ m r, eol (e ++ y) = some (m, r) ∧ (r = y ∨ (e = [13] ∧ y = 10 :: r)) := by
  cases he with
  | lf => exact ⟨_, y, rfl, Or.inl rfl⟩
  | crlf => exact ⟨_, y, rfl, Or.inl rfl⟩
  | cr =>
    cases y with
    | nil => exact ⟨_, [], rfl, Or.inl rfl⟩
    | cons c t =>
      by_cases hc : c = 10
      · subst hc; exact ⟨_, t, rfl, Or.inr ⟨rfl, rfl⟩⟩
      · exact ⟨_, c :: t, eol_cr_other c t hc, Or.inl rfl⟩

theorem eol_before_digit (e y : Bytes) (he : IsEol e) (hy : ∃ d r, y = d :: r ∧ isDigit d = true) :
    ∃ m, eol (e ++ y) = some (m, y) := by
  obtain ⟨m, r, h1, h2⟩ := eol_general e y he
  rcases h2 with rfl | ⟨_, h2⟩
  · exact ⟨m, h1⟩
  · obtain ⟨d, r', h3, h4⟩ := hy
    rw [h3] at h2; injection h2 with h2 _; subst h2; simp [isDigit] at h4

/-! ### one subsection -/

theorem eol_head (e : Bytes) (he : IsEol e) (z : Bytes) :
    ∃ c r, e ++ z = c :: r ∧ (c = 13 ∨ c = 10) := by
  cases he
  · exact ⟨13, z, rfl, Or.inl rfl⟩
  · exact ⟨10, z, rfl, Or.inr rfl⟩
  · exact ⟨13, 10 :: z, rfl, Or.inl rfl⟩

/-- the header of a subsection, up to the end-of-line marker -/
theorem subHeader_complete (start cnt : Nat) (d1 d2 sp e z : Bytes) (h1 : DerivesNat start d1)
    (h2 : DerivesNat cnt d2) (hc : cnt ≤ 4294967295) (hst : start ≤ 4294967296) (hsp : IsOptSp sp)
    (he : IsEol e) :
    pXrefSection (d1 ++ [32] ++ d2 ++ sp ++ e ++ z) =
      (eol (e ++ z)).map fun (p : Bytes × Bytes) =>
        let (es, r6) := manyXrefEntries (p.2.length + 1) p.2
        ((start, es), r6) := by
  obtain ⟨c, r, hcr, hc13⟩ := eol_head e he z
  have hcd : isDigit c = false := by rcases hc13 with rfl | rfl <;> decide
  have hc32 : c ≠ 32 := by rcases hc13 with rfl | rfl <;> decide
  have hs' : start ≤ USIZE_MAX := by simp [USIZE_MAX]; omega
  have hc' : cnt ≤ U32_MAX := hc
  simp only [List.append_assoc, List.cons_append, List.nil_append]
  unfold pXrefSection
  rw [unsigned_cons h1 _ hs' 32 _ (by decide)]
  simp only [Option.bind]
  cases hsp with
  | none =>
    simp only [List.nil_append]
    rw [hcr, unsigned_cons h2 _ hc' c _ hcd]
    simp only
    split
    · rename_i heq; injection heq with h _; exact absurd h hc32
    · rfl
  | sp =>
    simp only [List.cons_append, List.nil_append]
    rw [unsigned_cons h2 _ hc' 32 _ (by decide)]
    rfl

theorem sub_first_digit {s : TSub} {b : Bytes} (h : DerivesXrefSub s b) (z : Bytes) :
    ∃ d r, b ++ z = d :: r ∧ isDigit d = true := by
  cases h with
  | mk start es d1 d2 sp e ebs h1 _ _ _ _ _ _ =>
    obtain ⟨d, r, h, hd⟩ := head_digit h1 ([32] ++ d2 ++ sp ++ e ++ ebs ++ z)
    exact ⟨d, r, by simpa using h, hd⟩

/-- **One subsection, every spelling**: header and entries, followed by a text `y` that is not
an entry. When the header ends in a lone CR, the subsection is empty and `y` starts with LF,
that LF is taken as part of the marker (`r6` = `y` without it). -/
theorem xrefSub_complete {s : TSub} {b : Bytes} (h : DerivesXrefSub s b) (y : Bytes)
    (hy : pXrefEntry y = none) (hy' : ∀ r, y = 10 :: r → pXrefEntry r = none) :
    ∃ r6, pXrefSection (b ++ y) = some (s, r6) ∧ (r6 = y ∨ y = 10 :: r6) := by
  cases h with
  | mk start es d1 d2 sp e ebs h1 h2 hc hst hsp he hes =>
    have hh := subHeader_complete start es.length d1 d2 sp e (ebs ++ y) h1 h2 hc (by omega) hsp he
    have e1 : d1 ++ [32] ++ d2 ++ sp ++ e ++ ebs ++ y = d1 ++ [32] ++ d2 ++ sp ++ e ++ (ebs ++ y) := by simp
    rw [e1, hh]
    obtain ⟨m, r5, h5, hr5⟩ := eol_general e (ebs ++ y) he
    rw [h5]
    rcases hr5 with rfl | ⟨_, hr5⟩
    · refine ⟨y, ?_, Or.inl rfl⟩
      have hl := entries_length hes
      have := manyEntries_complete hes ((ebs ++ y).length + 1) y hy (by simp only [List.length_append]; omega)
      simp only [List.length_append] at this
      simp [this]
    · rcases entries_shape hes y with ⟨rfl, rfl⟩ | ⟨d, r, h3, h4⟩
      · simp only [List.nil_append] at hr5
        refine ⟨r5, ?_, Or.inr hr5⟩
        have := manyEntries_complete .nil (r5.length + 1) r5 (hy' r5 hr5) (by simp)
        simp only [List.nil_append] at this
        simp [this]
      · rw [h3] at hr5; injection hr5 with hr5 _; subst hr5; simp [isDigit] at h4

/-- a subsection header is never mistaken for one more entry of the previous subsection -/
theorem sub_not_entry {s : TSub} {b : Bytes} (h : DerivesXrefSub s b) (z : Bytes) :
    pXrefEntry (b ++ z) = none := by
  cases h with
  | mk start es d1 d2 sp e ebs h1 h2 hc hst hsp he hes =>
    obtain ⟨c, r, hcr, hc13⟩ := eol_head e he (ebs ++ z)
    have hcd : isDigit c = false := by rcases hc13 with rfl | rfl <;> decide
    have hc32 : c ≠ 32 := by rcases hc13 with rfl | rfl <;> decide
    have hc' : es.length ≤ U32_MAX := hc
    simp only [List.append_assoc, List.cons_append, List.nil_append]
    unfold pXrefEntry
    by_cases hs : start ≤ U32_MAX
    · rw [unsigned_cons h1 _ hs 32 _ (by decide)]
      simp only [Option.bind]
      cases hsp with
      | none =>
        simp only [List.nil_append]
        rw [hcr, unsigned_cons h2 _ hc' c _ hcd]
        simp only
        split
        · rename_i heq; injection heq with h _; exact absurd h hc32
        · rfl
      | sp =>
        simp only [List.cons_append, List.nil_append]
        rw [unsigned_cons h2 _ hc' 32 _ (by decide), hcr]
        simp only
        rcases hc13 with rfl | rfl <;> simp
    · obtain ⟨_, _, hv⟩ := derivesNat_facts h1
      simp [pUnsigned, digit1_complete h1 _ (noDigitAhead_cons 32 _ (by decide)), hv, hs]

/-! ### insertion of a subsection's entries -/

theorem entriesOk {es : List TEntry} {ebs : Bytes} (h : DerivesXrefEntries es ebs) :
    ∀ t ∈ es, t.2.1 ≤ 65535 := by
  induction h with
  | nil => intro t ht; simp at ht
  | cons e es b bs he _ ih =>
    intro t ht
    rcases List.mem_cons.mp ht with rfl | ht
    · cases he; assumption
    · exact ih t ht

def subBindings (start : Nat) (es : List TEntry) : List (Nat × XEntry) :=
  (numbered start es).filterMap fun (p : Nat × TEntry) =>
    if p.2.2.2 then some (p.1, XEntry.normal p.2.1 p.2.2.1) else none

theorem addSection_complete (es : List TEntry) : ∀ (x : XTable) (start idx : Nat),
    (∀ t ∈ es, t.2.1 ≤ 65535) → start + idx + es.length ≤ 4294967296 →
    addSection x start es idx = .ok (bindAll x (subBindings (start + idx) es)) := by
  induction es with
  | nil => intro x start idx _ _; rfl
  | cons t es ih =>
    intro x start idx hg hl
    obtain ⟨off, g, isN⟩ := t
    have hg0 : g ≤ U16_MAX := hg (off, g, isN) (by simp)
    have ih' := fun x' => ih x' start (idx + 1) (fun t ht => hg t (by simp [ht]))
      (by simp only [List.length_cons] at hl; omega)
    have e1 : start + (idx + 1) = start + idx + 1 := by omega
    simp only [List.length_cons] at hl
    cases isN with
    | false =>
      simp only [addSection, Bool.false_eq_true, if_false, ih', e1]
      simp [subBindings, numbered]
    | true =>
      have h1 : ¬ (start + idx ≥ U64) := by simp [U64]; omega
      have h2 : (start + idx) % U32 = start + idx := Nat.mod_eq_of_lt (by simp [U32]; omega)
      simp only [addSection, if_true, hg0, h1, if_false, h2, ih', e1]
      simp [subBindings, numbered, bindAll]

/-! ### the subsections and the table -/

theorem nodigit_of_ws (rest : Bytes) (h : NoDigitAhead (whiteSpace rest)) : NoDigitAhead rest := by
  intro b r he
  subst he
  by_cases hd : isDigit b = true
  · have hw := digit_not_ws b hd
    have := h b r (by simp [whiteSpace, spanP, hw])
    rw [this] at hd; exact absurd hd (by decide)
  · simpa using hd

theorem nodigit_after_lf (r : Bytes) (h : NoDigitAhead (whiteSpace (10 :: r))) : NoDigitAhead r := by
  apply nodigit_of_ws
  have : whiteSpace (10 :: r) = whiteSpace r := by
    simp [whiteSpace, spanP, show isWhitespace 10 = true by decide]
  rwa [this] at h

theorem subs_first_digit {secs : List TSub} {body : Bytes} (h : DerivesXrefSubs secs body) (z : Bytes) :
    ∃ d r, body ++ z = d :: r ∧ isDigit d = true := by
  cases h with
  | one s b hs => exact sub_first_digit hs z
  | cons s ss b bs hs _ =>
    obtain ⟨d, r, h1, h2⟩ := sub_first_digit hs (bs ++ z)
    exact ⟨d, r, by simpa using h1, h2⟩

theorem subs_length {secs : List TSub} {body : Bytes} (h : DerivesXrefSubs secs body) :
    secs.length ≤ body.length := by
  induction h with
  | one s b hs =>
    obtain ⟨d, r, h1, _⟩ := sub_first_digit hs []
    have := congrArg List.length h1; simp at this ⊢; omega
  | cons s ss b bs hs _ ih =>
    obtain ⟨d, r, h1, _⟩ := sub_first_digit hs []
    have := congrArg List.length h1
    simp only [List.length_cons, List.length_append, List.append_nil] at this ⊢; omega

theorem inUseOf_cons (s : TSub) (ss : List TSub) :
    inUseOf (s :: ss) = subBindings s.1 s.2 ++ inUseOf ss := by
  simp [inUseOf, subBindings]

theorem sub_addSection {s : TSub} {b : Bytes} (h : DerivesXrefSub s b) (x : XTable) :
    addSection x s.1 s.2 0 = .ok (bindAll x (subBindings s.1 s.2)) := by
  cases h with
  | mk start es d1 d2 sp e ebs h1 h2 hc hst hsp he hes =>
    have := addSection_complete es x start 0 (entriesOk hes) (by omega)
    simpa using this

/-- **The subsections, every spelling**, followed by a text in which — after any white space —
no digit comes first (e.g. the keyword `trailer`). -/
theorem foldSections_complete {secs : List TSub} {body : Bytes} (h : DerivesXrefSubs secs body) :
    ∀ (fuel : Nat) (x : XTable) (any : Bool) (rest : Bytes), secs.length + 1 ≤ fuel →
    NoDigitAhead (whiteSpace rest) →
    ∃ r', foldSections fuel (body ++ rest) x any = .ok (some (bindAll x (inUseOf secs), r')) ∧
      space r' = space rest := by
  induction h with
  | one s b hs =>
    intro fuel x any rest hf hr
    have hnd := nodigit_of_ws rest hr
    obtain ⟨r6, h6, hr6⟩ := xrefSub_complete hs rest (entry_none_of_nodigit rest hnd)
      (fun r he => entry_none_of_nodigit r (nodigit_after_lf r (he ▸ hr)))
    have hnd6 : NoDigitAhead r6 := by
      rcases hr6 with rfl | he
      · exact hnd
      · exact nodigit_after_lf r6 (he ▸ hr)
    have hsp : space r6 = space rest := by
      rcases hr6 with rfl | he
      · rfl
      · rw [he, space_ws_cons 10 r6 (by decide)]
    refine ⟨r6, ?_, hsp⟩
    match fuel, hf with
    | f + 2, _ =>
      simp only [foldSections, h6, sub_addSection hs x, section_none_of_nodigit r6 hnd6, if_true]
      simp [inUseOf, subBindings]
  | cons s ss b bs hs hss ih =>
    intro fuel x any rest hf hr
    obtain ⟨d, r, hd1, hd2⟩ := subs_first_digit hss rest
    have hne : pXrefEntry (bs ++ rest) = none := by
      cases hss with
      | one s' b' hs' => exact sub_not_entry hs' rest
      | cons s' ss' b' bs' hs' _ =>
        have := sub_not_entry hs' (bs' ++ rest)
        simpa using this
    obtain ⟨r6, h6, hr6⟩ := xrefSub_complete hs (bs ++ rest) hne
      (fun r he => by rw [hd1] at he; injection he with he _; subst he; simp [isDigit] at hd2)
    have hr6' : r6 = bs ++ rest := by
      rcases hr6 with h | he
      · exact h
      · rw [hd1] at he; injection he with he _; subst he; simp [isDigit] at hd2
    subst hr6'
    cases fuel with
    | zero => omega
    | succ f =>
      obtain ⟨r', h1, h2⟩ := ih f (bindAll x (subBindings s.1 s.2)) true rest
        (by simp only [List.length_cons] at hf; omega) hr
      refine ⟨r', ?_, h2⟩
      simp only [List.append_assoc, foldSections, h6, sub_addSection hs x, h1]
      rw [inUseOf_cons, bindAll_append]

/-- **Cross-reference tables, every spelling.** Whatever end-of-line markers, optional blanks,
digit counts and number of subsections the producer used, `xref` yields exactly the map the
table denotes — every in-use entry under its object number, a later line replacing an earlier
one for the same number (`tableOf_get`) — and stops in front of the text that follows (after
its white space), provided no digit comes first there (in a file: the keyword `trailer`). -/
theorem xref_complete (secs : List TSub) (bs rest : Bytes) (h : DerivesXrefTable secs bs)
    (hr : NoDigitAhead (whiteSpace rest)) :
    pXref (bs ++ rest) = .ok (some (tableOf secs, space rest)) := by
  cases h with
  | mk e body he hb =>
    obtain ⟨m, hm⟩ := eol_before_digit e (body ++ rest) he (subs_first_digit hb rest)
    have hl := subs_length hb
    obtain ⟨r', h1, h2⟩ := foldSections_complete hb ((body ++ rest).length + 1) [] false rest
      (by simp; omega) hr
    have e1 : [120, 114, 101, 102] ++ e ++ body ++ rest = 120 :: 114 :: 101 :: 102 :: (e ++ (body ++ rest)) := by
      simp
    rw [e1]
    unfold pXref
    simp only [pXref.XREF_WORD, tag, if_true, Option.bind, hm, Option.map, h1, h2]
    rfl

/-! ### non-vacuity: a two-subsection table with mixed line ends, one-digit and padded fields -/

/-- `0000000000 65535 f` SP LF -/
example : DerivesXrefEntry (0, 65535, false)
    [48, 48, 48, 48, 48, 48, 48, 48, 48, 48, 32, 54, 53, 53, 51, 53, 32, 102, 32, 10] :=
  .mk 0 65535 false [48, 48, 48, 48, 48, 48, 48, 48, 48, 48] [54, 53, 53, 51, 53] [32, 10]
    (derivesNat_lit 0 [48, 48, 48, 48, 48, 48, 48, 48, 48, 48] 9 rfl (by unfold AllDigits; decide) rfl) (by decide)
    (derivesNat_lit 65535 [54, 53, 53, 51, 53] 4 rfl (by unfold AllDigits; decide) rfl) (by decide) .spLf

/-- `xref` CR, `0 1` LF, one free entry; `3 1 ` CR LF, `17 0 n` CR LF -/
theorem exampleTable : DerivesXrefTable [(0, [(0, 65535, false)]), (3, [(17, 0, true)])]
    ([120, 114, 101, 102] ++ [13] ++
      (([48] ++ [32] ++ [49] ++ [] ++ [10] ++
        (([48, 48, 48, 48, 48, 48, 48, 48, 48, 48] ++ [32] ++ [54, 53, 53, 51, 53] ++ [32, 102] ++ [32, 10]) ++ [])) ++
       ([51] ++ [32] ++ [49] ++ [32] ++ [13, 10] ++
        (([49, 55] ++ [32] ++ [48] ++ [32, 110] ++ [13, 10]) ++ [])))) :=
  .mk _ _ _ .cr
    (.cons _ _ _ _
      (.mk 0 [(0, 65535, false)] _ _ _ _ _ (.one 48 (by decide)) (.one 49 (by decide)) (by decide) (by decide) .none .lf
        (.cons _ _ _ _
          (.mk 0 65535 false _ _ _ (derivesNat_lit 0 [48, 48, 48, 48, 48, 48, 48, 48, 48, 48] 9 rfl (by unfold AllDigits; decide) rfl) (by decide)
            (derivesNat_lit 65535 [54, 53, 53, 51, 53] 4 rfl (by unfold AllDigits; decide) rfl) (by decide) .spLf) .nil))
      (.one _ _
        (.mk 3 [(17, 0, true)] _ _ _ _ _ (.one 51 (by decide)) (.one 49 (by decide)) (by decide) (by decide) .sp .crlf
          (.cons _ _ _ _
            (.mk 17 0 true _ _ _ (derivesNat_lit 17 [49, 55] 1 rfl (by unfold AllDigits; decide) rfl) (by decide)
              (.one 48 (by decide)) (by decide) .crLf) .nil))))

example : NoDigitAhead (whiteSpace [10, 116, 114]) := by
  intro b r h; simp [whiteSpace, spanP, isWhitespace, WHITESPACE] at h; obtain ⟨rfl, _⟩ := h; decide
example : tableOf [(0, [(0, 65535, false)]), (3, [(17, 0, true)])] = [(3, .normal 17 0)] := by decide
/-- a later subsection replaces the entry of an earlier one -/
example : tableOf [(3, [(17, 0, true)]), (2, [(9, 0, true), (40, 1, true)])] = [(3, .normal 40 1), (2, .normal 9 0)] := by decide

end Lopdf.Grammar
