import LopdfModel.Thm.ParseDistinct
import LopdfModel.Thm.C08
/-
  The object-loading pass of `Reader::read` collects distinct-keyed objects only: every object it
  stores (finished or pending) and every member of every object-stream block it records — for every
  file, cross-reference table and schedule-independent part of the reader (`loadStep` folded over the
  entries). Composition of `pIndirect_nd` and `objStmObjects_nd`.
-/
namespace Lopdf.Ed
open Lopdf Lopdf.DictL

def LObjsND (os : LObjects) : Prop := ∀ p ∈ os, LObjND p.2
def BlocksND (bs : List Block) : Prop := ∀ b ∈ bs, ∀ p ∈ b.2, DeepND p.2

theorem mem_lobjects_insert (os : LObjects) (id : ObjId) (o : LObj) (p : ObjId × LObj) (h : p ∈ LObjects.insert os id o) :
    p = (id, o) ∨ p ∈ os := by
  induction os with
  | nil => simp [LObjects.insert] at h; exact Or.inl h
  | cons q rest ih =>
    obtain ⟨i, o'⟩ := q
    simp only [LObjects.insert] at h
    split at h
    · rename_i hi
      rcases List.mem_cons.mp h with h | h
      · exact Or.inl (by rw [h, hi])
      · exact Or.inr (List.mem_cons_of_mem _ h)
    · rcases List.mem_cons.mp h with h | h
      · exact Or.inr (h ▸ List.mem_cons_self)
      · rcases ih h with h | h
        · exact Or.inl h
        · exact Or.inr (List.mem_cons_of_mem _ h)

theorem lobjsND_insert {os : LObjects} (h : LObjsND os) (id : ObjId) (o : LObj) (ho : LObjND o) : LObjsND (LObjects.insert os id o) := by
  intro p hp
  rcases mem_lobjects_insert os id o p hp with e | e
  · subst e; exact ho
  · exact h p e

theorem blocksND_snoc {bs : List Block} (h : BlocksND bs) (k : Nat) (objs : List (ObjId × Obj)) (ho : ∀ p ∈ objs, DeepND p.2) :
    BlocksND (bs ++ [(k, objs)]) := by
  intro b hb
  rcases List.mem_append.mp hb with hb | hb
  · exact h b hb
  · simp at hb; subst hb; exact ho

/-- one step of the loading pass keeps both collections distinct-keyed -/
theorem loadStep_nd (buf : Bytes) (x : XTable) (n : Nat) (os : LObjects) (fs : List Block) (e : Nat × XEntry)
    (os' : LObjects) (fs' : List Block) (h1 : LObjsND os) (h2 : BlocksND fs)
    (h : loadStep buf x n (.ok (os, fs)) e = .ok (os', fs')) : LObjsND os' ∧ BlocksND fs' := by
  unfold loadStep at h
  simp only at h
  repeat' split at h
  all_goals (first | (cases h; exact ⟨h1, h2⟩) | (cases h; done) | skip)
  all_goals (cases h)
  all_goals (
    have hlo := pIndirect_nd _ _ _ _ _ _ (by assumption)
    first
    | exact ⟨lobjsND_insert h1 _ _ hlo, blocksND_snoc h2 _ _ (objStmObjects_nd _ _ _ (by assumption))⟩
    | exact ⟨lobjsND_insert h1 _ _ hlo, h2⟩
    | exact ⟨lobjsND_insert h1 _ _ (by simp only [LObjND] at hlo ⊢; rw [deepND_stream]; exact hlo), blocksND_snoc h2 _ _ (by intro p hp; cases hp)⟩)

theorem foldl_loadStep_err (buf : Bytes) (x : XTable) (n : Nat) : ∀ (l : List (Nat × XEntry)) (a : Outcome (LObjects × List Block)),
    (∀ v, a ≠ .ok v) → ∀ v, l.foldl (loadStep buf x n) a ≠ .ok v := by
  intro l
  induction l with
  | nil => intro a ha v; simpa using ha v
  | cons e rest ih =>
    intro a ha v
    simp only [List.foldl_cons]
    apply ih
    intro v'
    cases a with
    | ok w => exact absurd rfl (ha w)
    | err s => simp [loadStep]
    | panic s => simp [loadStep]

/-- **the loading pass collects distinct-keyed objects and members only** -/
theorem loadPass_nd (buf : Bytes) (x : XTable) (n : Nat) : ∀ (l : List (Nat × XEntry)) (os : LObjects) (fs : List Block)
    (os' : LObjects) (fs' : List Block), LObjsND os → BlocksND fs →
    l.foldl (loadStep buf x n) (.ok (os, fs)) = .ok (os', fs') → LObjsND os' ∧ BlocksND fs' := by
  intro l
  induction l with
  | nil => intro os fs os' fs' h1 h2 h; simp at h; obtain ⟨rfl, rfl⟩ := h; exact ⟨h1, h2⟩
  | cons e rest ih =>
    intro os fs os' fs' h1 h2 h
    simp only [List.foldl_cons] at h
    cases hs : loadStep buf x n (.ok (os, fs)) e with
    | ok w =>
      obtain ⟨os1, fs1⟩ := w
      rw [hs] at h
      obtain ⟨a, b⟩ := loadStep_nd buf x n os fs e os1 fs1 h1 h2 hs
      exact ih os1 fs1 os' fs' a b h
    | err s => rw [hs] at h; exact absurd h (foldl_loadStep_err buf x n rest _ (by intro v; simp) _)
    | panic s => rw [hs] at h; exact absurd h (foldl_loadStep_err buf x n rest _ (by intro v; simp) _)

/-! ### after the pass: the merge of the blocks and the completion of pending streams -/

theorem lobjects_get_mem : ∀ (os : LObjects) (id : ObjId) (o : LObj), os.get id = some o → (id, o) ∈ os := by
  intro os
  induction os with
  | nil => intro id o h; simp [LObjects.get] at h
  | cons q rest ih =>
    intro id o h
    obtain ⟨i, o'⟩ := q
    simp only [LObjects.get] at h
    split at h
    · rename_i hi; cases h; subst hi; exact List.mem_cons_self
    · exact List.mem_cons_of_mem _ (ih id o h)

theorem mergeBlocks_nd : ∀ (blocks : List Block) (os : LObjects), LObjsND os → BlocksND blocks → LObjsND (mergeBlocks os blocks) := by
  intro blocks os h1 h2
  unfold mergeBlocks
  have hm : ∀ p ∈ (blocks.map (·.2)).flatten, DeepND p.2 := by
    intro p hp
    obtain ⟨l, hl, hpl⟩ := List.mem_flatten.mp hp
    obtain ⟨b, hb, rfl⟩ := List.mem_map.mp hl
    exact h2 b hb p hpl
  generalize (blocks.map (·.2)).flatten = ms at hm
  induction ms generalizing os with
  | nil => simpa using h1
  | cons m rest ih =>
    simp only [List.foldl_cons]
    apply ih
    · split
      · exact h1
      · intro p hp
        rcases List.mem_append.mp hp with hp | hp
        · exact h1 p hp
        · simp at hp; subst hp; exact hm m List.mem_cons_self
    · intro p hp; exact hm p (List.mem_cons_of_mem _ hp)

/-- the merge of the arrived blocks (sorted by container, filtered by the cross-reference table) keeps the objects distinct-keyed,
for ANY arrival order that only rearranges the recorded blocks -/
theorem mergeBlocksX_nd (x : XTable) (os : LObjects) (arrived : List Block) (h1 : LObjsND os) (h2 : BlocksND arrived) :
    LObjsND (mergeBlocksX x os arrived) := by
  unfold mergeBlocksX
  apply mergeBlocks_nd _ _ h1
  intro b hb p hp
  obtain ⟨b0, hb0, rfl⟩ := List.mem_map.mp hb
  have hb0' : b0 ∈ arrived := (sortBlocks_perm arrived).mem_iff.mp hb0
  simp only [filterBlock] at hp
  exact h2 b0 hb0' p (List.mem_filter.mp hp).1

theorem completeOne_nd (buf : Bytes) (os : LObjects) (id : ObjId) (h : LObjsND os) : LObjsND (completeOne buf os id) := by
  unfold completeOne
  split
  · rename_i v hv
    apply lobjsND_insert h
    unfold completed at hv
    split at hv
    · rename_i d start hg
      have hd : DictND d := h _ (lobjects_get_mem os id _ hg)
      split at hv
      · split at hv
        · cases hv
        · split at hv
          · cases hv
          · cases hv
            simp only [LObjND]
            rw [deepND_stream]
            exact dictND_set hd _ _ (by simp [DeepND])
      · cases hv
    · cases hv
  · exact h

theorem foldl_completeOne_nd (buf : Bytes) : ∀ (ids : List ObjId) (os : LObjects), LObjsND os → LObjsND (ids.foldl (completeOne buf) os) := by
  intro ids
  induction ids with
  | nil => intro os h; exact h
  | cons i rest ih => intro os h; exact ih _ (completeOne_nd buf os i h)

/-! ### the final object map -/

theorem mem_insertSortedO (k : ObjId) (v : Obj) : ∀ (l : Objects) (p : ObjId × Obj), p ∈ insertSortedO k v l → p = (k, v) ∨ p ∈ l := by
  intro l
  induction l with
  | nil => intro p h; simp [insertSortedO] at h; exact Or.inl h
  | cons q rest ih =>
    intro p h
    obtain ⟨k', v'⟩ := q
    simp only [insertSortedO] at h
    split at h
    · rcases List.mem_cons.mp h with h | h
      · exact Or.inl h
      · exact Or.inr h
    · rcases List.mem_cons.mp h with h | h
      · exact Or.inr (h ▸ List.mem_cons_self)
      · rcases ih p h with h | h
        · exact Or.inl h
        · exact Or.inr (List.mem_cons_of_mem _ h)

/-- the object map `Reader::read` returns, as a function of the loaded objects (the last lines of `loadDocWith`) -/
def finalObjects (os2 : LObjects) : Objects :=
  (os2.map fun (p : ObjId × LObj) =>
    match p.2 with
    | .plain o => (p.1, o)
    | .pending d _ => (p.1, Obj.stream d [])).foldr (fun (p : ObjId × Obj) acc => insertSortedO p.1 p.2 acc) []

theorem finalObjects_nd (os2 : LObjects) (h : LObjsND os2) : ObjsND (finalObjects os2) := by
  intro k o hg
  have hm := Lopdf.Ed.mem_of_get _ k o hg
  unfold finalObjects at hm
  have : ∀ (fin : List (ObjId × Obj)), (∀ p ∈ fin, DeepND p.2) →
      ∀ p ∈ fin.foldr (fun (p : ObjId × Obj) acc => insertSortedO p.1 p.2 acc) [], DeepND p.2 := by
    intro fin
    induction fin with
    | nil => intro _ p hp; cases hp
    | cons q rest ih =>
      intro hf p hp
      simp only [List.foldr_cons] at hp
      rcases mem_insertSortedO _ _ _ p hp with e | e
      · rw [e]; exact hf q List.mem_cons_self
      · exact ih (fun r hr => hf r (List.mem_cons_of_mem _ hr)) p e
  refine this _ ?_ (k, o) hm
  intro p hp
  obtain ⟨q, hq, rfl⟩ := List.mem_map.mp hp
  have hq' := h q hq
  cases hqo : q.2 with
  | plain o' => rw [hqo] at hq'; simpa [LObjND] using hq'
  | pending d st => rw [hqo] at hq'; simp only [LObjND] at hq'; simp only; rw [deepND_stream]; exact hq'

/-- **every object of the loaded document is distinct-keyed**: the whole object pipeline of `Reader::read` — loading pass, merge
of the object-stream blocks in ANY arrival order that only rearranges the recorded blocks, completion of the pending streams in
ANY order, final sort — as it stands in `loadDocWith` -/
theorem loadedObjects_nd (buf : Bytes) (x : XTable) (n : Nat) (entries : List (Nat × XEntry)) (os : LObjects) (fs : List Block)
    (arr : List Block → List Block) (arr2 : List ObjId → List ObjId) (harr : ∀ bs, ∀ b ∈ arr bs, b ∈ bs)
    (h : entries.foldl (loadStep buf x n) (.ok ([], [])) = .ok (os, fs)) :
    ObjsND (finalObjects ((arr2 (pendingIds (mergeBlocksX x os (arr fs)))).foldl (completeOne buf) (mergeBlocksX x os (arr fs)))) := by
  obtain ⟨h1, h2⟩ := loadPass_nd buf x n entries [] [] os fs (by intro p hp; cases hp) (by intro b hb; cases hb) h
  apply finalObjects_nd
  apply foldl_completeOne_nd
  apply mergeBlocksX_nd x os _ h1
  intro b hb
  exact h2 b (harr fs b hb)

/-- **…hence every object of a document `Reader::read` returns is distinct-keyed**, for every file and every schedule that only
rearranges the recorded blocks (the identity and the permutations of hook H1 do) -/
theorem loadDocWith_objects_nd (arr : List Block → List Block) (arr2 : List ObjId → List ObjId) (harr : ∀ bs, ∀ b ∈ arr bs, b ∈ bs)
    (file : Bytes) (L : Loaded) (h : loadDocWith arr arr2 file = .ok L) : ObjsND L.objects := by
  unfold loadDocWith at h
  simp only at h
  repeat' split at h
  all_goals (first | (cases h; done) | skip)
  all_goals (cases h)
  all_goals (exact loadedObjects_nd _ _ _ _ _ _ arr arr2 harr (by assumption))

/-- the sequential reader (`loadDoc`: blocks and pending streams in recording order) -/
theorem loadDoc_objects_nd (file : Bytes) (L : Loaded) (h : loadDoc file = .ok L) : ObjsND L.objects := by
  unfold loadDoc loadDocOrd loadDocOrd2 at h
  exact loadDocWith_objects_nd _ _ (by intro bs b hb; simpa using hb) file L h

/-! ### the trailer of a loaded document -/

theorem decodeXrefStream_nd (d : Dict) (c : Bytes) (x : XTable) (n : Nat) (tr : Dict) (hd : DictND d)
    (h : decodeXrefStream d c = .ok (x, n, tr)) : DictND tr := by
  have key : ∀ (o : Outcome XTable) (sz : Nat), (match o with
      | .ok x => (Outcome.ok (x, sz, ((d.remove LENGTH).remove W_KEY).remove INDEX) : Outcome (XTable × Nat × Dict))
      | .err e => .err e | .panic s => .panic s) = .ok (x, n, tr) → DictND tr := by
    intro o sz ho
    cases o with
    | ok x0 => simp at ho; rw [← ho.2.2]; exact dictND_remove (dictND_remove (dictND_remove hd _) _) _
    | err e => simp at ho
    | panic s => simp at ho
  unfold decodeXrefStream at h
  repeat' split at h
  all_goals (first | (cases h; done) | skip)
  all_goals (try (split at h <;> first | (cases h; done) | skip))
  all_goals (first | exact key _ _ h | skip)
  all_goals (simp only at h; split at h)
  all_goals (first | (cases h; done) | exact key _ _ h)

theorem xrefStreamAlt_nd (inp : Bytes) (x : XTable) (n : Nat) (tr : Dict)
    (h : xrefAndTrailer.xrefStreamAlt inp = .ok (x, n, tr)) : DictND tr := by
  unfold xrefAndTrailer.xrefStreamAlt at h
  split at h
  · rename_i d c hp
    have := pIndirect_nd _ _ _ _ _ _ hp
    simp only [LObjND] at this
    exact decodeXrefStream_nd d c x n tr ((deepND_stream d c).mp this) h
  · rename_i d p hp
    have := pIndirect_nd _ _ _ _ _ _ hp
    exact decodeXrefStream_nd d [] x n tr this h
  · cases h

theorem xrefAndTrailer_nd (inp : Bytes) (x : XTable) (n : Nat) (tr : Dict) (h : xrefAndTrailer inp = .ok (x, n, tr)) : DictND tr := by
  unfold xrefAndTrailer at h
  repeat' split at h
  all_goals (first | (cases h; done) | skip)
  all_goals (first
    | exact xrefStreamAlt_nd _ _ _ _ h
    | (cases h; exact pTrailer_nd _ _ _ (by assumption)))

theorem prevLoop_nd (buf : Bytes) : ∀ (fuel : Nat) (p : Option Obj) (seen : List Int) (x : XTable) (tr : Dict) (x' : XTable) (tr' : Dict),
    DictND tr → prevLoop buf fuel p seen x tr = .ok (x', tr') → DictND tr' := by
  intro fuel
  induction fuel with
  | zero => intro p seen x tr x' tr' ht h; simp [prevLoop] at h; rw [← h.2]; exact ht
  | succ k ih =>
    intro p seen x tr x' tr' ht h
    unfold prevLoop at h
    repeat' split at h
    all_goals (first | (cases h; done) | (cases h; exact ht) | skip)
    all_goals (simp only at h; split at h)
    all_goals (first | (cases h; done) | exact ih _ _ _ _ _ _ (dictND_remove ht _) h)

/-- **the trailer of a document `Reader::read` returns is distinct-keyed**, classic trailer or cross-reference stream dictionary,
any `Prev` chain -/
theorem loadDocWith_trailer_nd (arr : List Block → List Block) (arr2 : List ObjId → List ObjId)
    (file : Bytes) (L : Loaded) (h : loadDocWith arr arr2 file = .ok L) : DictND L.trailer := by
  unfold loadDocWith at h
  simp only at h
  repeat' split at h
  all_goals (first | (cases h; done) | skip)
  all_goals (cases h)
  all_goals (exact prevLoop_nd _ _ _ _ _ _ _ _ (dictND_remove (xrefAndTrailer_nd _ _ _ _ (by assumption)) _) (by assumption))

/-- **a loaded document is distinct-keyed** — trailer and every object: the `DistinctKeys` hypothesis of the `delete_object`
theorems holds for every document the reader returns (and, by `distinct_run`, for everything the editing calls make of it) -/
theorem loaded_distinct (arr : List Block → List Block) (arr2 : List ObjId → List ObjId) (harr : ∀ bs, ∀ b ∈ arr bs, b ∈ bs)
    (file : Bytes) (L : Loaded) (h : loadDocWith arr arr2 file = .ok L) : DictND L.trailer ∧ ObjsND L.objects :=
  ⟨loadDocWith_trailer_nd arr arr2 file L h, loadDocWith_objects_nd arr arr2 harr file L h⟩

end Lopdf.Ed
