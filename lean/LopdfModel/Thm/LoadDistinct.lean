import LopdfModel.Thm.ParseDistinct
/-
  The object-loading pass of `Reader::read` collects distinct-keyed objects only: every object it
  stores (finished or pending) and every member of every object-stream block it records — for every
  file, cross-reference table and schedule-independent part of the reader (`loadStep` folded over the
  entries). Composition of `pIndirect_nd` and `objStmObjects_nd`.
-/
namespace Lopdf.Ed
open Lopdf Lopdf.DictL

def LObjsND (os : LObjects) : Prop := ∀ p ∈ os, LObjND p.2
def BlocksND (bs : List Block) : Prop := ∀ b ∈ bs, ∀ p ∈ b.2, DeepND p.2

theorem mem_lobjects_insert (os : LObjects) (id : ObjId) (o : LObj) (p : ObjId × LObj) (h : p ∈ LObjects.insert os id o) :
    p = (id, o) ∨ p ∈ os := by
  induction os with
  | nil => simp [LObjects.insert] at h; exact Or.inl h
  | cons q rest ih =>
    obtain ⟨i, o'⟩ := q
    simp only [LObjects.insert] at h
    split at h
    · rename_i hi
      rcases List.mem_cons.mp h with h | h
      · exact Or.inl (by rw [h, hi])
      · exact Or.inr (List.mem_cons_of_mem _ h)
    · rcases List.mem_cons.mp h with h | h
      · exact Or.inr (h ▸ List.mem_cons_self)
      · rcases ih h with h | h
        · exact Or.inl h
        · exact Or.inr (List.mem_cons_of_mem _ h)

theorem lobjsND_insert {os : LObjects} (h : LObjsND os) (id : ObjId) (o : LObj) (ho : LObjND o) : LObjsND (LObjects.insert os id o) := by
  intro p hp
  rcases mem_lobjects_insert os id o p hp with e | e
  · subst e; exact ho
  · exact h p e

theorem blocksND_snoc {bs : List Block} (h : BlocksND bs) (k : Nat) (objs : List (ObjId × Obj)) (ho : ∀ p ∈ objs, DeepND p.2) :
    BlocksND (bs ++ [(k, objs)]) := by
  intro b hb
  rcases List.mem_append.mp hb with hb | hb
  · exact h b hb
  · simp at hb; subst hb; exact ho

/-- one step of the loading pass keeps both collections distinct-keyed -/
theorem loadStep_nd (buf : Bytes) (x : XTable) (n : Nat) (os : LObjects) (fs : List Block) (e : Nat × XEntry)
    (os' : LObjects) (fs' : List Block) (h1 : LObjsND os) (h2 : BlocksND fs)
    (h : loadStep buf x n (.ok (os, fs)) e = .ok (os', fs')) : LObjsND os' ∧ BlocksND fs' := by
  unfold loadStep at h
  simp only at h
  repeat' split at h
  all_goals (first | (cases h; exact ⟨h1, h2⟩) | (cases h; done) | skip)
  all_goals (cases h)
  all_goals (
    have hlo := pIndirect_nd _ _ _ _ _ _ (by assumption)
    first
    | exact ⟨lobjsND_insert h1 _ _ hlo, blocksND_snoc h2 _ _ (objStmObjects_nd _ _ _ (by assumption))⟩
    | exact ⟨lobjsND_insert h1 _ _ hlo, h2⟩
    | exact ⟨lobjsND_insert h1 _ _ (by simp only [LObjND] at hlo ⊢; rw [deepND_stream]; exact hlo), blocksND_snoc h2 _ _ (by intro p hp; cases hp)⟩)

theorem foldl_loadStep_err (buf : Bytes) (x : XTable) (n : Nat) : ∀ (l : List (Nat × XEntry)) (a : Outcome (LObjects × List Block)),
    (∀ v, a ≠ .ok v) → ∀ v, l.foldl (loadStep buf x n) a ≠ .ok v := by
  intro l
  induction l with
  | nil => intro a ha v; simpa using ha v
  | cons e rest ih =>
    intro a ha v
    simp only [List.foldl_cons]
    apply ih
    intro v'
    cases a with
    | ok w => exact absurd rfl (ha w)
    | err s => simp [loadStep]
    | panic s => simp [loadStep]

/-- **the loading pass collects distinct-keyed objects and members only** -/
theorem loadPass_nd (buf : Bytes) (x : XTable) (n : Nat) : ∀ (l : List (Nat × XEntry)) (os : LObjects) (fs : List Block)
    (os' : LObjects) (fs' : List Block), LObjsND os → BlocksND fs →
    l.foldl (loadStep buf x n) (.ok (os, fs)) = .ok (os', fs') → LObjsND os' ∧ BlocksND fs' := by
  intro l
  induction l with
  | nil => intro os fs os' fs' h1 h2 h; simp at h; obtain ⟨rfl, rfl⟩ := h; exact ⟨h1, h2⟩
  | cons e rest ih =>
    intro os fs os' fs' h1 h2 h
    simp only [List.foldl_cons] at h
    cases hs : loadStep buf x n (.ok (os, fs)) e with
    | ok w =>
      obtain ⟨os1, fs1⟩ := w
      rw [hs] at h
      obtain ⟨a, b⟩ := loadStep_nd buf x n os fs e os1 fs1 h1 h2 hs
      exact ih os1 fs1 os' fs' a b h
    | err s => rw [hs] at h; exact absurd h (foldl_loadStep_err buf x n rest _ (by intro v; simp) _)
    | panic s => rw [hs] at h; exact absurd h (foldl_loadStep_err buf x n rest _ (by intro v; simp) _)

end Lopdf.Ed
