import LopdfModel.Thm.C14Content
import LopdfModel.Thm.C01Cycle
/-
  C14 — inline images.  `Content::encode` writes an operation `BI [stream d c]` as
  `BI <entries of d> ID <c> EI`; `inline_image` reads `BI`, the entries (`inner_dictionary`),
  `ID`, skips `content_space`, takes the number of data bytes computed from the geometry
  entries (`image_data_stream`), and expects `EI`.

  `content_rt_img`: `content_rt` extended to operation lists that contain inline images
  (`WFOpI` = a plain well-formed operation, or a well-formed inline image).  The only inline
  images excluded — besides those the decoder itself rejects — are those whose data start with
  a `content_space` byte (blank, TAB, CR, LF): the decoder skips such bytes after `ID`, so the
  data window shifts (witness `img_ws_witness`).  The decoder never produces such an image
  (`imageDataStream_shape`), so decode → encode → decode is not affected.
-/
namespace Lopdf.InlineRt
open Lopdf Gen Lopdf.ObjRt Lopdf.ContentRt

/-! ### the length `image_data_stream` computes -/

abbrev W_KEY : Bytes := [87, 105, 100, 116, 104]
abbrev H_KEY : Bytes := [72, 101, 105, 103, 104, 116]

def imgLenCore (w h bpc : Option Int) (cs : Option Bytes) (filt : Option Obj) : Option Nat :=
  match w, h with
  | some w, some h =>
    match bpc, cs with
    | some bpc, some cs =>
      let colors : Option Nat :=
        if cs = strBytes "DeviceGray" || cs = strBytes "Gray" then some 1
        else if cs = strBytes "DeviceRGB" || cs = strBytes "RGB" then some 3
        else if cs = strBytes "DeviceRGBA" || cs = strBytes "RGBA" then some 4
        else if cs = strBytes "DeviceCMYK" || cs = strBytes "CMYK" then some 4
        else none
      match colors with
      | none => none
      | some nc =>
        let width := asUsize w; let height := asUsize h; let bits := asUsize bpc
        if nc * bits ≥ USIZE then none else
        if width * (nc * bits) ≥ USIZE then none else
        if width * (nc * bits) + 7 ≥ USIZE then none else
        let stride := (width * (nc * bits) + 7) / 8
        if height * stride ≥ USIZE then none else
        match filt with
        | some _ => none
        | none => some (height * stride)
    | _, _ => none
  | _, _ => none

/-- the number of data bytes of an inline image with dictionary `d`; `none` = the decoder rejects it
(geometry entry missing or not an integer, unknown colour space, a `Filter`, overflow) -/
def imgLen (d : Dict) : Option Nat :=
  imgLenCore ((getAbbr d [87] W_KEY).bind Obj.asInt) ((getAbbr d [72] H_KEY).bind Obj.asInt)
    ((getAbbr d [66, 80, 67] (strBytes "BitsPerComponent")).bind Obj.asInt)
    ((getAbbr d [67, 83] (strBytes "ColorSpace")).bind Obj.asName)
    (getAbbr d [70] imageDataStream.FILTER_KEY)

theorem imageDataStream_eq (inp : Bytes) (d : Dict) :
    imageDataStream inp d =
      match imgLen d with
      | none => .error
      | some length =>
        if inp.length < length then .error
        else .ok (.stream (d.set imageDataStream.LENGTH_KEY (.int (inp.take length).length)) (inp.take length))
          (inp.drop length) := by
  unfold imageDataStream imgLen imgLenCore
  generalize (getAbbr d [87] W_KEY).bind Obj.asInt = w
  generalize (getAbbr d [72] H_KEY).bind Obj.asInt = h
  generalize (getAbbr d [66, 80, 67] (strBytes "BitsPerComponent")).bind Obj.asInt = bpc
  generalize (getAbbr d [67, 83] (strBytes "ColorSpace")).bind Obj.asName = cs
  generalize getAbbr d [70] imageDataStream.FILTER_KEY = filt
  rcases w with _ | w <;> rcases h with _ | h <;> try rfl
  rcases bpc with _ | bpc <;> rcases cs with _ | cs <;> try rfl
  simp only
  split
  · rename_i heq; rw [heq]
  · rename_i nc heq
    rw [heq]
    simp only
    by_cases c1 : nc * asUsize bpc ≥ USIZE
    · simp only [c1, if_true]
    · simp only [c1, if_false]
      by_cases c2 : asUsize w * (nc * asUsize bpc) ≥ USIZE
      · simp only [c2, if_true]
      · simp only [c2, if_false]
        by_cases c3 : asUsize w * (nc * asUsize bpc) + 7 ≥ USIZE
        · simp only [c3, if_true]
        · simp only [c3, if_false]
          by_cases c4 : asUsize h * ((asUsize w * (nc * asUsize bpc) + 7) / 8) ≥ USIZE
          · simp only [c4, if_true]
          · simp only [c4, if_false]
            cases filt <;> rfl

/-- the decoder accepts data `c` followed by anything, and takes exactly `c` -/
theorem imageDataStream_accepts (d : Dict) (c R : Bytes) (h : imgLen d = some c.length) :
    imageDataStream (c ++ R) d =
      .ok (.stream (d.set imageDataStream.LENGTH_KEY (.int c.length)) c) R := by
  rw [imageDataStream_eq, h]
  simp

/-- **shape of what the decoder produces**: the data are exactly the computed number of bytes
of the input, the dictionary gets `Length`. -/
theorem imageDataStream_shape (inp : Bytes) (d : Dict) (st : Obj) (r : Bytes)
    (h : imageDataStream inp d = .ok st r) :
    ∃ c, inp = c ++ r ∧ imgLen d = some c.length ∧
      st = .stream (d.set imageDataStream.LENGTH_KEY (.int c.length)) c := by
  rw [imageDataStream_eq] at h
  split at h
  · cases h
  · rename_i length hl
    split at h
    · cases h
    · rename_i hlt
      injection h with h1 h2
      refine ⟨inp.take length, ?_, ?_, h1.symm⟩
      · rw [← h2]; simp
      · rw [hl]; simp; omega

/-! ### dictionaries: `get` through `norm` and `set` -/

theorem get_normD (d : Dict) (k : Bytes) : Dict.get (normD d) k = (Dict.get d k).map norm := by
  induction d with
  | nil => rfl
  | cons e r ih =>
    obtain ⟨k', v⟩ := e
    by_cases hk : k' = k
    · simp [normD, Dict.get, hk]
    · simp [normD, Dict.get, hk, ih]

theorem getAbbr_normD (d : Dict) (a k : Bytes) : getAbbr (normD d) a k = (getAbbr d a k).map norm := by
  unfold getAbbr
  rw [get_normD, get_normD]
  cases Dict.get d a <;> simp

theorem asInt_norm (x : Option Obj) (i : Int) (h : x.bind Obj.asInt = some i) :
    (x.map norm).bind Obj.asInt = some i := by
  cases x with
  | none => simp at h
  | some o => cases o <;> simp_all [Obj.asInt, norm]

theorem asName_norm (x : Option Obj) (n : Bytes) (h : x.bind Obj.asName = some n) :
    (x.map norm).bind Obj.asName = some n := by
  cases x with
  | none => simp at h
  | some o => cases o <;> simp_all [Obj.asName, norm]

theorem imgLenCore_some (w h bpc : Option Int) (cs : Option Bytes) (filt : Option Obj) (n : Nat)
    (hn : imgLenCore w h bpc cs filt = some n) :
    ∃ w' h' b' c', w = some w' ∧ h = some h' ∧ bpc = some b' ∧ cs = some c' ∧ filt = none := by
  cases w <;> cases h <;> cases bpc <;> cases cs <;> simp [imgLenCore] at hn
  rename_i w' h' b' c'
  refine ⟨w', h', b', c', rfl, rfl, rfl, rfl, ?_⟩
  cases filt with
  | none => rfl
  | some f =>
    exfalso
    revert hn
    simp only
    repeat' split
    all_goals simp

/-- the normal form of the dictionary has the same data length -/
theorem imgLen_norm (d : Dict) (n : Nat) (h : imgLen d = some n) : imgLen (normD d) = some n := by
  unfold imgLen at h ⊢
  obtain ⟨w, hh, b, c, e1, e2, e3, e4, e5⟩ := imgLenCore_some _ _ _ _ _ n h
  rw [getAbbr_normD, getAbbr_normD, getAbbr_normD, getAbbr_normD, getAbbr_normD,
    asInt_norm _ w e1, asInt_norm _ hh e2, asInt_norm _ b e3, asName_norm _ c e4, e5]
  rw [e1, e2, e3, e4, e5] at h
  exact h

/-! ### the entries between `BI` and `ID` -/

/-- `BI`'s entries as `encode` writes them: every key and every value followed by a blank -/
def encEntries (d : Dict) : Bytes := (d.map fun (k, v) => writeName k ++ [32] ++ writeObj v ++ [32]).flatten

theorem encEntries_cons (k : Bytes) (v : Obj) (r : Dict) (X : Bytes) :
    encEntries ((k, v) :: r) ++ X = writeName k ++ 32 :: (writeObj v ++ 32 :: (encEntries r ++ X)) := by
  simp [encEntries]

/-- what ends the entries (`ID`): not white space, `%`, a digit or `/` -/
def EntStop (X : Bytes) : Prop :=
  ∃ b r, X = b :: r ∧ isWhitespace b = false ∧ b ≠ 37 ∧ isDigit b = false ∧ b ≠ 47

theorem entTail_head (r : Dict) (X : Bytes) (hX : EntStop X) :
    ∃ b t, encEntries r ++ X = b :: t ∧ isWhitespace b = false ∧ b ≠ 37 ∧ isDigit b = false := by
  cases r with
  | nil =>
    obtain ⟨b, t, e, h1, h2, h3, _⟩ := hX
    exact ⟨b, t, by simpa [encEntries] using e, h1, h2, h3⟩
  | cons e r =>
    obtain ⟨k, v⟩ := e
    rw [encEntries_cons]
    exact ⟨47, _, rfl, by decide, by decide, by decide⟩

/-- a blank and then the next key / `ID` is an admissible following text for every value -/
theorem follow_blank_ref (o : Obj) (R : Bytes)
    (hR : ∃ b t, R = b :: t ∧ isWhitespace b = false ∧ b ≠ 37 ∧ isDigit b = false) :
    Follow true o (32 :: R) := by
  obtain ⟨b, t, rfl, h1, h2, h3⟩ := hR
  have hnd : NoDigitAhead (32 :: b :: t) := by intro b' r e; injection e with e _; subst e; decide
  have hdot : ∀ r, (32 :: b :: t : Bytes) ≠ 46 :: r := by intro r e; injection e with e _; exact absurd e (by decide)
  have href : refTail (32 :: b :: t) = none := by
    unfold refTail
    rw [space_sp_head _ ⟨b, t, rfl, h1, h2⟩]
    exact refTailS_nondigit b t h3
  cases o <;> simp only [Follow]
  · exact ⟨⟨hnd, hdot⟩, fun _ => href⟩
  · exact ⟨hnd, fun _ => ⟨hdot, fun _ => href⟩⟩
  · intro b' r e; injection e with e _; subst e; decide

/-- `inner_dictionary` at depth 0 reads the entries back -/
theorem entries_rt : ∀ (es : Dict) (fuel n : Nat) (X : Bytes) (acc : Dict), WFD (fun _ => True) es →
    heightD es ≤ MAX_NESTING → sizeD es ≤ fuel → es.length ≤ n → EntStop X →
    dictEntries fuel 0 n (encEntries es ++ X) acc = some (setAll acc (normD es), X) := by
  intro es
  induction es with
  | nil =>
    intro fuel n X acc _ _ _ _ hX
    obtain ⟨b, r, rfl, _, _, _, h47⟩ := hX
    have : pName (b :: r) = none := by
      unfold pName; split
      · rename_i heq; injection heq with e _; exact absurd e h47
      · rfl
    simpa [encEntries, normD, setAll] using dictEntries_noname fuel 0 n (b :: r) acc this
  | cons e r ih =>
    intro fuel n X acc hwf hh hs hn hX
    obtain ⟨k, v⟩ := e
    cases n with
    | zero => simp at hn
    | succ n =>
      simp only [WFD] at hwf
      simp only [heightD] at hh
      simp only [sizeD] at hs
      have hR := entTail_head r X hX
      have ho := obj_core _ litOK_all v fuel 0 (32 :: (encEntries r ++ X)) hwf.1
        (by have := Nat.le_max_left (height v) (heightD r); omega) (by omega)
        (follow_blank_ref v _ hR)
      have hsp : space (32 :: (encEntries r ++ X)) = encEntries r ++ X := by
        obtain ⟨b, t, e, h1, h2, _⟩ := hR
        exact space_sp_head _ ⟨b, t, e, h1, h2⟩
      have hr := ih fuel n X (acc.set k (norm v)) hwf.2
        (by have := Nat.le_max_right (height v) (heightD r); omega) (by omega) (by simpa using hn) hX
      have hstop : NameStop (32 :: (writeObj v ++ 32 :: (encEntries r ++ X))) := by
        intro b t e; injection e with e _; subst e; decide
      rw [encEntries_cons, dictEntries_succ_ok fuel 0 n _ acc k _ _ (norm v) (name_rt k _ hstop)
        (by rw [space_sp_head _ (headTok_obj _ v _ hwf.1)]; exact directObject_of _ _ _ _ _ ho), hsp, hr]
      simp [normD, setAll]

theorem sizeD_le_encEntries (es : Dict) (h : WFD (fun _ => True) es) : sizeD es ≤ (encEntries es).length := by
  induction es with
  | nil => simp [sizeD]
  | cons e r ih =>
    obtain ⟨k, v⟩ := e
    simp only [WFD] at h
    have h1 := size_le_length _ v h.1
    have h2 := ih h.2
    have := encEntries_cons k v r []
    simp only [List.append_nil] at this
    rw [this]
    simp only [sizeD, List.length_append, List.length_cons]
    omega

/-! ### one inline image -/

/-- inline images in the scope of the theorem -/
structure WFImage (d : Dict) (c : Bytes) : Prop where
  values : WFD (fun _ => True) d
  keys : (d.map (·.1)).Nodup
  nesting : heightD d ≤ MAX_NESTING
  /-- the decoder accepts the dictionary and computes exactly the length of the data -/
  length : imgLen d = some c.length
  /-- the data do not start with a `content_space` byte (the decoder would skip it) -/
  head : ∀ b r, c = b :: r → isContentSpace b = false

def imageOp (d : Dict) (c : Bytes) : Operation := { operator := [66, 73], operands := [.stream d c] }

/-- normal form of an inline image: values through `norm`, `Length` set to the data length -/
def normImage (d : Dict) (c : Bytes) : Operation :=
  imageOp (Dict.set (normD d) imageDataStream.LENGTH_KEY (.int c.length)) c

theorem encodeOperation_image (d : Dict) (c : Bytes) :
    encodeOperation (imageOp d c) = 66 :: 73 :: 32 :: (encEntries d ++ (73 :: 68 :: 32 :: (c ++ [32, 69, 73]))) := by
  simp [encodeOperation, imageOp, encEntries]

theorem contentSpace_data (c : Bytes) (R : Bytes) (h : ∀ b r, c = b :: r → isContentSpace b = false) :
    contentSpace (32 :: (c ++ 32 :: 69 :: 73 :: R)) = c ++ 69 :: 73 :: R ∨
    contentSpace (32 :: (c ++ 32 :: 69 :: 73 :: R)) = c ++ 32 :: 69 :: 73 :: R := by
  rw [contentSpace_cons_space]
  cases c with
  | nil => left; simp [contentSpace_cons_space, contentSpace_head _ ⟨69, _, rfl, by decide⟩]
  | cons b r => right; exact contentSpace_head _ ⟨b, _, rfl, h b r rfl⟩

/-- what `operation` does on an encoded inline image up to the data: `BI`, the entries, `ID` are
read back for EVERY data `c`; what remains is `image_data_stream` on the text after `ID ` and `EI`. -/
theorem image_prefix (d : Dict) (c tail : Bytes) (hv : WFD (fun _ => True) d) (hk : (d.map (·.1)).Nodup)
    (hn : heightD d ≤ MAX_NESTING) :
    pOperation (encodeOperation (imageOp d c) ++ tail) =
      match imageDataStream (contentSpace (32 :: (c ++ 32 :: 69 :: 73 :: tail))) (normD d) with
      | .ok st r3 =>
        (match tag [69, 73] (contentSpace r3) with
         | some r4 => .ok { operator := [66, 73], operands := [st] } (contentSpace r4)
         | none => .failure)
      | .panic s => .panic s
      | _ => .failure := by
  rw [encodeOperation_image]
  have e : 66 :: 73 :: 32 :: (encEntries d ++ (73 :: 68 :: 32 :: (c ++ [32, 69, 73]))) ++ tail =
      66 :: 73 :: 32 :: (encEntries d ++ (73 :: 68 :: 32 :: (c ++ 32 :: 69 :: 73 :: tail))) := by simp
  rw [e]
  have hX : EntStop (73 :: 68 :: 32 :: (c ++ 32 :: 69 :: 73 :: tail)) :=
    ⟨73, _, rfl, by decide, by decide, by decide, by decide⟩
  obtain ⟨b, t, hbt, hb1, _, _⟩ := entTail_head d _ hX
  have hcs : contentSpace (32 :: (encEntries d ++ (73 :: 68 :: 32 :: (c ++ 32 :: 69 :: 73 :: tail)))) =
      encEntries d ++ (73 :: 68 :: 32 :: (c ++ 32 :: 69 :: 73 :: tail)) := by
    rw [contentSpace_cons_space]
    exact contentSpace_head _ ⟨b, t, hbt, ws_cs b hb1⟩
  have hent := entries_rt d ((encEntries d ++ (73 :: 68 :: 32 :: (c ++ 32 :: 69 :: 73 :: tail))).length + 1)
    ((encEntries d ++ (73 :: 68 :: 32 :: (c ++ 32 :: 69 :: 73 :: tail))).length + 1) _ [] hv hn
    (by have := sizeD_le_encEntries d hv; simp; omega)
    (by have := sizeD_le_encEntries d hv; have := length_le_sizeD d; simp; omega) hX
  have hset : setAll [] (normD d) = normD d := by
    have := setAll_nodup (normD d) [] (by simpa [normD_keys] using hk)
    simpa using this
  rw [hset] at hent
  have hcom : ∀ n, manyComments (n + 1) (66 :: 73 :: 32 :: (encEntries d ++ (73 :: 68 :: 32 :: (c ++ 32 :: 69 :: 73 :: tail)))) =
      66 :: 73 :: 32 :: (encEntries d ++ (73 :: 68 :: 32 :: (c ++ 32 :: 69 :: 73 :: tail))) := by
    intro n
    simp only [manyComments]
    rw [comment_non37 66 _ (by decide)]
  unfold pOperation
  rw [hcom]
  simp only [tag, if_true, hcs]
  unfold inlineImageImpl
  simp only [hent, tag, if_true]
  generalize imageDataStream (contentSpace (32 :: (c ++ 32 :: 69 :: 73 :: tail))) (normD d) = res
  cases res with
  | ok st r3 =>
    simp only
    generalize tag [69, 73] (contentSpace r3) = tg
    cases tg <;> rfl
  | error => rfl
  | failure => rfl
  | panic s => rfl

/-- **one inline image**, whatever follows `EI` -/
theorem image_rt (d : Dict) (c tail : Bytes) (h : WFImage d c) :
    pOperation (encodeOperation (imageOp d c) ++ tail) = .ok (normImage d c) (contentSpace tail) := by
  rw [image_prefix d c tail h.values h.keys h.nesting]
  have hlen := imgLen_norm d _ h.length
  have himg : ∃ R', imageDataStream (contentSpace (32 :: (c ++ 32 :: 69 :: 73 :: tail))) (normD d) =
      .ok (.stream (Dict.set (normD d) imageDataStream.LENGTH_KEY (.int c.length)) c) R' ∧
      contentSpace R' = 69 :: 73 :: tail := by
    rcases contentSpace_data c tail h.head with e1 | e1
    · exact ⟨_, by rw [e1]; exact imageDataStream_accepts _ c _ hlen, contentSpace_head _ ⟨69, _, rfl, by decide⟩⟩
    · exact ⟨_, by rw [e1]; exact imageDataStream_accepts _ c _ hlen,
        by rw [contentSpace_cons_space]; exact contentSpace_head _ ⟨69, _, rfl, by decide⟩⟩
  obtain ⟨R', himg1, himg2⟩ := himg
  simp only [himg1, himg2, tag, if_true, normImage, imageOp]

/-! ### operation lists with inline images -/

/-- operations in the scope of `content_rt_img`: plain well-formed operations and well-formed inline images -/
inductive WFOpI : Operation → Prop
  | plain (op : Operation) : WFOp op → WFOpI op
  | image (d : Dict) (c : Bytes) : WFImage d c → WFOpI (imageOp d c)

/-- normal form of an operation: operands through `norm`; an inline image gets its `Length` -/
def normOpI (op : Operation) : Operation :=
  match op.operands with
  | [.stream d c] => if op.operator = [66, 73] then normImage d c else normOp op
  | _ => normOp op

def normOpsI (ops : List Operation) : List Operation := ops.map normOpI

theorem normOpI_plain (op : Operation) (h : WFOp op) : normOpI op = normOp op := by
  unfold normOpI
  split
  · rename_i d c heq
    have := (h.operands (.stream d c) (by rw [heq]; simp)).1
    simp [WFObj, WF] at this
  · rfl

theorem normOpI_image (d : Dict) (c : Bytes) : normOpI (imageOp d c) = normImage d c := by
  simp [normOpI, imageOp]

/-- one operation of either kind, in the form the list induction uses -/
theorem operationI_rt (op : Operation) (tail : Bytes) (h : WFOpI op) (ht : OpTail tail) :
    pOperation (encodeOperation op ++ tail) = .ok (normOpI op) (contentSpace tail) ∧
    HeadNonCs (encodeOperation op ++ tail) ∧ 1 ≤ (encodeOperation op).length := by
  cases h with
  | plain _ hw =>
    exact ⟨by rw [normOpI_plain op hw]; exact operation_rt op tail hw ht, headNonCs_operation op tail hw,
      encodeOperation_length op hw⟩
  | image d c hw =>
    refine ⟨by rw [normOpI_image]; exact image_rt d c tail hw, ?_, ?_⟩
    · rw [encodeOperation_image]; exact ⟨66, _, rfl, by decide⟩
    · rw [encodeOperation_image]; simp

theorem encodeContentI_length : ∀ (ops : List Operation), (∀ op ∈ ops, WFOpI op) →
    ops.length ≤ (encodeContent ops).length
  | [], _ => by simp [encodeContent]
  | [op], h => by
    have := (operationI_rt op [] (h op (by simp)) (fun b r e => by cases e)).2.2
    simpa [encodeContent] using this
  | op :: op2 :: rest, h => by
    have h1 := (operationI_rt op [] (h op (by simp)) (fun b r e => by cases e)).2.2
    have h2 := encodeContentI_length (op2 :: rest) (fun o ho => h o (by simp [ho]))
    simp only [encodeContent, List.length_append, List.length_cons] at h2 ⊢
    omega

theorem headNonCs_contentI (op : Operation) (rest : List Operation) (h : ∀ o ∈ op :: rest, WFOpI o) :
    HeadNonCs (encodeContent (op :: rest)) := by
  cases rest with
  | nil =>
    have := (operationI_rt op [] (h op (by simp)) (fun b r e => by cases e)).2.1
    simpa [encodeContent] using this
  | cons op2 r =>
    have := (operationI_rt op (10 :: encodeContent (op2 :: r)) (h op (by simp))
      (fun b r e => by injection e with e _; exact e.symm)).2.1
    simpa [encodeContent] using this

theorem operationsI_rt : ∀ (ops : List Operation) (n : Nat), (∀ op ∈ ops, WFOpI op) → ops.length ≤ n →
    manyOperations n (encodeContent ops) = .ok (ops.map normOpI)
  | [], n, _, _ => by simpa [encodeContent] using manyOperations_nil n
  | [op], n, h, hn => by
    cases n with
    | zero => simp at hn
    | succ n =>
      have := (operationI_rt op [] (h op (by simp)) (fun b r e => by cases e)).1
      simp only [List.append_nil, contentSpace_nil] at this
      simp [encodeContent, manyOperations, this, manyOperations_nil]
  | op :: op2 :: rest, n, h, hn => by
    cases n with
    | zero => simp at hn
    | succ n =>
      have hrest : ∀ o ∈ op2 :: rest, WFOpI o := fun o ho => h o (by simp [ho])
      have h1 := (operationI_rt op (10 :: encodeContent (op2 :: rest)) (h op (by simp))
        (fun b r e => by injection e with e _; exact e.symm)).1
      rw [contentSpace_lf, contentSpace_head _ (headNonCs_contentI op2 rest hrest)] at h1
      have ih := operationsI_rt (op2 :: rest) n hrest (by simpa using hn)
      have e : encodeContent (op :: op2 :: rest) = encodeOperation op ++ 10 :: encodeContent (op2 :: rest) := by
        simp [encodeContent]
      rw [e]
      simp only [manyOperations, h1, ih, List.map_cons]

/-- **C14 `content_rt_img`.** For every list of operations each of which is a plain well-formed
operation or a well-formed inline image, decoding the encoded content returns the normal forms,
in order. -/
theorem content_rt_img (ops : List Operation) (h : ∀ op ∈ ops, WFOpI op) :
    decodeContent (encodeContent ops) = .ok (normOpsI ops) := by
  unfold decodeContent
  have hsp : contentSpace (encodeContent ops) = encodeContent ops := by
    cases ops with
    | nil => simp [encodeContent, contentSpace_nil]
    | cons op rest => exact contentSpace_head _ (headNonCs_contentI op rest h)
  simp only [hsp]
  exact operationsI_rt ops _ h (by have := encodeContentI_length ops h; omega)

/-- a single inline image -/
theorem image_content_rt (d : Dict) (c : Bytes) (h : WFImage d c) :
    decodeContent (encodeContent [imageOp d c]) = .ok [normImage d c] := by
  have := content_rt_img [imageOp d c] (by intro op hop; simp at hop; subst hop; exact WFOpI.image d c h)
  simpa [normOpsI, normOpI_image] using this

/-! ### what the decoder produces is in the scope (decode → encode → decode) -/

theorem get_set_ne (d : Dict) (k k' : Bytes) (v : Obj) (h : k ≠ k') : Dict.get (Dict.set d k v) k' = Dict.get d k' := by
  induction d with
  | nil => simp [Dict.set, Dict.get, h]
  | cons e r ih =>
    obtain ⟨k0, v0⟩ := e
    by_cases h0 : k0 = k
    · subst h0; simp [Dict.set, Dict.get, h]
    · simp only [Dict.set, h0, if_false, Dict.get, ih]

theorem get_set_same (d : Dict) (k : Bytes) (v : Obj) : Dict.get (Dict.set d k v) k = some v := by
  induction d with
  | nil => simp [Dict.set, Dict.get]
  | cons e r ih =>
    obtain ⟨k0, v0⟩ := e
    by_cases h0 : k0 = k
    · simp [Dict.set, Dict.get, h0]
    · simp only [Dict.set, h0, if_false, Dict.get, ih]

theorem set_same_get (d : Dict) (k : Bytes) (v : Obj) (h : Dict.get d k = some v) : Dict.set d k v = d := by
  induction d with
  | nil => simp [Dict.get] at h
  | cons e r ih =>
    obtain ⟨k', v'⟩ := e
    by_cases hk : k' = k
    · subst hk
      simp only [Dict.get, if_true] at h
      injection h with h
      subst h
      simp [Dict.set]
    · simp only [Dict.get, hk, if_false] at h
      simp [Dict.set, hk, ih h]

theorem getAbbr_set_ne (d : Dict) (K a k : Bytes) (v : Obj) (h1 : K ≠ a) (h2 : K ≠ k) :
    getAbbr (Dict.set d K v) a k = getAbbr d a k := by
  simp only [getAbbr, get_set_ne d K a v h1, get_set_ne d K k v h2]

theorem key_facts : imageDataStream.LENGTH_KEY ≠ [87] ∧ imageDataStream.LENGTH_KEY ≠ W_KEY ∧
    imageDataStream.LENGTH_KEY ≠ [72] ∧ imageDataStream.LENGTH_KEY ≠ H_KEY ∧
    imageDataStream.LENGTH_KEY ≠ [66, 80, 67] ∧ imageDataStream.LENGTH_KEY ≠ strBytes "BitsPerComponent" ∧
    imageDataStream.LENGTH_KEY ≠ [67, 83] ∧ imageDataStream.LENGTH_KEY ≠ strBytes "ColorSpace" ∧
    imageDataStream.LENGTH_KEY ≠ [70] ∧ imageDataStream.LENGTH_KEY ≠ imageDataStream.FILTER_KEY := by
  decide +kernel

/-- setting `Length` does not change the computed data length -/
theorem imgLen_set (d : Dict) (v : Obj) : imgLen (Dict.set d imageDataStream.LENGTH_KEY v) = imgLen d := by
  obtain ⟨k1, k2, k3, k4, k5, k6, k7, k8, k9, k10⟩ := key_facts
  simp only [imgLen, getAbbr_set_ne d _ _ _ v k1 k2, getAbbr_set_ne d _ _ _ v k3 k4,
    getAbbr_set_ne d _ _ _ v k5 k6, getAbbr_set_ne d _ _ _ v k7 k8, getAbbr_set_ne d _ _ _ v k9 k10]

theorem contentSpace_out (x : Bytes) : ∀ b r, contentSpace x = b :: r → isContentSpace b = false := by
  induction x with
  | nil => intro b r h; simp [contentSpace, spanP] at h
  | cons a t ih =>
    intro b r h
    by_cases ha : isContentSpace a = true
    · have : contentSpace (a :: t) = contentSpace t := by simp [contentSpace, spanP, ha]
      rw [this] at h; exact ih b r h
    · have ha' : isContentSpace a = false := by simpa using ha
      have : contentSpace (a :: t) = a :: t := by simp [contentSpace, spanP, ha']
      rw [this] at h; injection h with h _; subst h; exact ha'

/-- **every inline image the decoder returns** has the shape `BI [stream d' c]` with distinct
keys, `Length = |c|`, exactly the computed number of data bytes, and data that do not start
with a `content_space` byte — i.e. it meets every clause of `WFImage` that is about inline
images (the remaining clauses, well-formed values and nesting, are about the entry values). -/
theorem inline_decoded_shape (inp : Bytes) (op : Operation) (r : Bytes) (h : inlineImageImpl inp = .ok op r) :
    ∃ d c, op = imageOp d c ∧ (d.map (·.1)).Nodup ∧ imgLen d = some c.length ∧
      Dict.get d imageDataStream.LENGTH_KEY = some (.int c.length) ∧
      (∀ b t, c = b :: t → isContentSpace b = false) := by
  unfold inlineImageImpl at h
  simp only at h
  split at h
  · cases h
  · rename_i d0 r1 hd
    split at h
    · cases h
    · rename_i r2 _
      split at h
      · rename_i st r3 hst
        split at h
        · rename_i r4 _
          injection h with h1 _
          obtain ⟨c, hc, hl, hs⟩ := imageDataStream_shape _ _ _ _ hst
          refine ⟨Dict.set d0 imageDataStream.LENGTH_KEY (.int c.length), c, ?_, ?_, ?_, ?_, ?_⟩
          · rw [← h1, hs]; rfl
          · exact set_nodup _ _ _ (dictEntries_nodup _ _ _ _ [] d0 r1 (by simp) hd)
          · rw [imgLen_set]; exact hl
          · exact get_set_same _ _ _
          · intro b t e
            subst e
            exact contentSpace_out r2 b (t ++ r3) (by rw [hc]; rfl)
        · cases h
      · cases h
      · cases h

/-- for an image that already carries the right `Length` (every decoded image), the normal form
only normalises the values -/
theorem normImage_fixed (d : Dict) (c : Bytes) (h : Dict.get d imageDataStream.LENGTH_KEY = some (.int c.length)) :
    normImage d c = imageOp (normD d) c := by
  unfold normImage
  rw [set_same_get (normD d) _ _ (by rw [get_normD, h]; rfl)]

/-- **decode → encode → decode.** Whatever inline image the decoder returned: if its entry
values are well-formed direct objects, encoding it and decoding again returns the same image
(values in normal form). -/
theorem image_redecode (inp : Bytes) (op : Operation) (r : Bytes) (h : inlineImageImpl inp = .ok op r) :
    ∃ d c, op = imageOp d c ∧ (WFD (fun _ => True) d → heightD d ≤ MAX_NESTING →
      decodeContent (encodeContent [op]) = .ok [imageOp (normD d) c]) := by
  obtain ⟨d, c, e, hk, hl, hg, hh⟩ := inline_decoded_shape inp op r h
  refine ⟨d, c, e, fun hv hn => ?_⟩
  rw [e, image_content_rt d c ⟨hv, hk, hn, hl, hh⟩, normImage_fixed d c hg]

/-! ### non-vacuity and the exclusions -/

def GRAY : Bytes := [71, 114, 97, 121]
theorem gray_eq : strBytes "Gray" = GRAY := by decide +kernel

/-- `/W 2 /H 1 /BPC 8 /CS /Gray /D [0 1.5]`, two data bytes -/
def sampleDict : Dict :=
  [([87], .int 2), ([72], .int 1), ([66, 80, 67], .int 8), ([67, 83], .name GRAY),
   ([68], .arr [.int 0, .real [49, 46, 53]])]

theorem sampleDict_len : imgLen sampleDict = some 2 := by decide +kernel

theorem sample_image_wf : WFImage sampleDict [255, 32] := by
  refine ⟨?_, by decide, by decide, sampleDict_len, ?_⟩
  · simp only [sampleDict, WFD, WF, WFL, RealOK, and_true, true_and]
    refine ⟨by decide, by decide, by decide, by decide, ?_⟩
    exact Or.inl ⟨⟨false, [49], [53], rfl, by simp, by decide, by decide⟩⟩
  · intro b r e; injection e with e _; subst e; decide

example : decodeContent (encodeContent [imageOp sampleDict [255, 32]]) = .ok [normImage sampleDict [255, 32]] :=
  image_content_rt _ _ sample_image_wf

/-- a mixed list: `q`, the image, `Q` -/
example : decodeContent (encodeContent
      [{ operator := [113], operands := [] }, imageOp sampleDict [255, 32], { operator := [81], operands := [] }]) =
    .ok (normOpsI [{ operator := [113], operands := [] }, imageOp sampleDict [255, 32], { operator := [81], operands := [] }]) := by
  apply content_rt_img
  intro op hop
  simp only [List.mem_cons, List.not_mem_nil, or_false] at hop
  rcases hop with rfl | rfl | rfl
  · exact WFOpI.plain _ ⟨⟨by simp, by decide, by decide, by decide, by decide⟩, fun _ => by decide, by simp⟩
  · exact WFOpI.image _ _ sample_image_wf
  · exact WFOpI.plain _ ⟨⟨by simp, by decide, by decide, by decide, by decide⟩, fun _ => by decide, by simp⟩

/-- one grey pixel -/
def pixelDict : Dict := [([87], .int 1), ([72], .int 1), ([66, 80, 67], .int 8), ([67, 83], .name GRAY)]
theorem pixelDict_len : imgLen pixelDict = some 1 := by decide +kernel

/-- **exclusion 1 (needed): data that start with a `content_space` byte.** The one-pixel image
whose data byte is a blank meets every clause of `WFImage` except `head`; `encode` writes
`… ID   EI`, the decoder skips all three blanks after `ID`, takes `E` as the data and fails on
`I` — inside `cut`, so the whole content is a parse failure. -/
theorem img_ws_witness : decodeContent (encodeContent [imageOp pixelDict [32]]) = .err "failure" := by
  have hp := image_prefix pixelDict [32] [] (by simp [pixelDict, WFD, WF]; decide) (by decide) (by decide)
  have hcs : contentSpace (32 :: ([32] ++ 32 :: 69 :: 73 :: [])) = [69, 73] := by decide
  have hn : normD pixelDict = pixelDict := rfl
  have himg : imageDataStream [69, 73] pixelDict =
      .ok (.stream (Dict.set pixelDict imageDataStream.LENGTH_KEY (.int 1)) [69]) [73] := by
    rw [imageDataStream_eq, pixelDict_len]; rfl
  rw [hcs, hn, himg] at hp
  have hfail : pOperation (encodeOperation (imageOp pixelDict [32]) ++ []) = .failure := by
    rw [hp]; rfl
  simp only [List.append_nil] at hfail
  have hsp : contentSpace (encodeContent [imageOp pixelDict [32]]) = encodeContent [imageOp pixelDict [32]] := by
    simp only [encodeContent, encodeOperation_image]
    exact contentSpace_head _ ⟨66, _, rfl, by decide⟩
  unfold decodeContent
  simp only [hsp]
  simp only [encodeContent, manyOperations, hfail]

/-- **exclusion 2: images the decoder rejects** (here: no geometry entries at all) — `encode`
writes them, `decode` fails; they are outside `WFImage` through `length`. -/
theorem img_rejected_witness : decodeContent (encodeContent [imageOp [] []]) = .err "failure" := by
  have hp := image_prefix [] [] [] (by simp [WFD]) (by simp) (by decide)
  have hfail : pOperation (encodeOperation (imageOp [] []) ++ []) = .failure := by
    rw [hp]; rfl
  simp only [List.append_nil] at hfail
  have hsp : contentSpace (encodeContent [imageOp [] []]) = encodeContent [imageOp [] []] := by
    simp only [encodeContent, encodeOperation_image]
    exact contentSpace_head _ ⟨66, _, rfl, by decide⟩
  unfold decodeContent
  simp only [hsp]
  simp only [encodeContent, manyOperations, hfail]

end Lopdf.InlineRt
