import LopdfModel.Lemmas.Lex
import LopdfModel.Spec.GrammarTokens
/-
  C02 — numbers: every spelling of an unsigned numeral / integer / real the grammar allows
  (`DerivesNat`, `DerivesInt`, `DerivesReal`: optional sign, any number of leading zeros,
  `4.`, `.5`, `-.5`, `+1.50`) is read by `digit1`/`unsigned_int`/`integer`/`real` to the value
  it denotes, whatever follows (anything that does not start with a digit).
-/
namespace Lopdf.Grammar
open Lopdf Gen

theorem derivesNat_facts {n : Nat} {ds : Bytes} (h : DerivesNat n ds) :
    ds ≠ [] ∧ AllDigits ds ∧ digitsVal ds = n := by
  induction h with
  | one d hd =>
    refine ⟨by simp, ?_, by simp [digitsVal]⟩
    intro b hb; simp at hb; subst hb; exact hd
  | snoc n ds d _ hd ih =>
    obtain ⟨_, h2, h3⟩ := ih
    refine ⟨by simp, ?_, by rw [digitsVal_append, h3]⟩
    intro b hb
    rcases List.mem_append.mp hb with hb | hb
    · exact h2 b hb
    · simp at hb; subst hb; exact hd

/-- the grammar is total on digit strings: every non-empty digit string denotes its value -/
theorem derivesNat_of_digits : ∀ (k : Nat) (ds : Bytes), ds.length = k + 1 → AllDigits ds →
    DerivesNat (digitsVal ds) ds := by
  intro k
  induction k with
  | zero =>
    intro ds hl hd
    match ds, hl with
    | [d], _ =>
      have := DerivesNat.one d (hd d (by simp))
      simpa [digitsVal] using this
  | succ k ih =>
    intro ds hl hd
    have hne : ds ≠ [] := by intro h; subst h; simp at hl
    have hsplit : ds = ds.dropLast ++ [ds.getLast hne] := (List.dropLast_concat_getLast hne).symm
    have h1 : ds.dropLast.length = k + 1 := by simp [hl]
    have h2 : AllDigits ds.dropLast := fun b hb => hd b (List.dropLast_subset ds hb)
    have h3 : isDigit (ds.getLast hne) = true := hd _ (List.getLast_mem hne)
    have := DerivesNat.snoc _ _ _ (ih ds.dropLast h1 h2) h3
    rw [← digitsVal_append, ← hsplit] at this
    exact this

/-- convenience for concrete numerals -/
theorem derivesNat_lit (n : Nat) (ds : Bytes) (k : Nat) (hl : ds.length = k + 1) (hd : AllDigits ds)
    (hv : digitsVal ds = n) : DerivesNat n ds := hv ▸ derivesNat_of_digits k ds hl hd

theorem digit1_complete {n : Nat} {ds : Bytes} (h : DerivesNat n ds) (rest : Bytes)
    (hr : NoDigitAhead rest) : digit1 (ds ++ rest) = some (ds, rest) := by
  obtain ⟨hne, hd, _⟩ := derivesNat_facts h
  unfold digit1
  rw [spanP_append isDigit ds rest hd hr]
  cases ds with
  | nil => exact absurd rfl hne
  | cons a b => rfl

/-- **Unsigned numerals, every spelling** (object and generation numbers, cross-reference
fields): any number of leading zeros, value within the bound of the target type. -/
theorem unsigned_complete {n : Nat} {ds : Bytes} (h : DerivesNat n ds) (mx : Nat) (hn : n ≤ mx)
    (rest : Bytes) (hr : NoDigitAhead rest) : pUnsigned mx (ds ++ rest) = some (n, rest) := by
  obtain ⟨_, _, hv⟩ := derivesNat_facts h
  simp [pUnsigned, digit1_complete h rest hr, hv, hn]

theorem first_digit_not_sign {n : Nat} {ds : Bytes} (h : DerivesNat n ds) (rest : Bytes) :
    ∀ d r, ds ++ rest = d :: r → isDigit d = true ∧ d ≠ 43 ∧ d ≠ 45 ∧ d ≠ 46 := by
  intro d r he
  obtain ⟨hne, hd, _⟩ := derivesNat_facts h
  cases ds with
  | nil => exact absurd rfl hne
  | cons a b =>
    simp at he
    obtain ⟨rfl, _⟩ := he
    have ha := hd a (by simp)
    refine ⟨ha, ?_, ?_, ?_⟩ <;> (intro hc; subst hc; simp [isDigit] at ha)

/-- **Integers, every spelling.** Optional `+`/`-`, any number of leading zeros, value within
`i64`: `integer` reads the denoted number, followed by any text not starting with a digit. -/
theorem int_complete (i : Int) (bs rest : Bytes) (h : DerivesInt i bs) (hr : NoDigitAhead rest) :
    pInteger (bs ++ rest) = some (i, rest) := by
  cases h with
  | unsigned n ds hd hn =>
    obtain ⟨_, _, hv⟩ := derivesNat_facts hd
    have hfirst := first_digit_not_sign hd rest
    have hn' : n ≤ I64_MAX := hn
    unfold pInteger
    split
    · rename_i r heq; exact absurd rfl (hfirst _ _ heq).2.1
    · rename_i r heq; exact absurd rfl (hfirst _ _ heq).2.2.1
    · simp [digit1_complete hd rest hr, hv, hn']
  | plus n ds hd hn =>
    obtain ⟨_, _, hv⟩ := derivesNat_facts hd
    have hn' : n ≤ I64_MAX := hn
    simp [pInteger, digit1_complete hd rest hr, hv, hn']
  | minus n ds hd hn =>
    obtain ⟨_, _, hv⟩ := derivesNat_facts hd
    have hn' : n ≤ I64_MAX + 1 := hn
    simp [pInteger, digit1_complete hd rest hr, hv, hn']

example : DerivesInt (-7) [45, 48, 48, 55] :=
  .minus 7 _ (.snoc 0 _ 55 (.snoc 0 _ 48 (.one 48 (by decide)) (by decide)) (by decide)) (by decide)
example : DerivesInt 9223372036854775807
    [43, 48, 57, 50, 50, 51, 51, 55, 50, 48, 51, 54, 56, 53, 52, 55, 55, 53, 56, 48, 55] :=
  .plus _ _ (derivesNat_of_digits 19 [48, 57, 50, 50, 51, 51, 55, 50, 48, 51, 54, 56, 53, 52, 55, 55, 53, 56, 48, 55]
    rfl (by unfold AllDigits; decide)) (by decide)

theorem optSign_digit (a : UInt8) (r : Bytes) (h : a ≠ 43 ∧ a ≠ 45) : optSign (a :: r) = ([], a :: r) := by
  unfold optSign
  split
  · rename_i heq; injection heq with e _; exact absurd e h.1
  · rename_i heq; injection heq with e _; exact absurd e h.2
  · rfl

/-- the unsigned part `d1 . d2` -/
theorem real_unsigned (d1 d2 rest : Bytes) (h1 : AllDigits d1) (h2 : AllDigits d2)
    (hne : d1 ≠ [] ∨ d2 ≠ []) (hr : NoDigitAhead rest) (sign : Bytes) :
    (match spanP isDigit (d1 ++ [46] ++ d2 ++ rest) with
      | (e1@(_ :: _), 46 :: r1) =>
        let (e2, r2) := spanP isDigit r1
        some (sign ++ e1 ++ [46] ++ e2, r2)
      | ([], 46 :: r1) =>
        match spanP isDigit r1 with
        | ([], _) => none
        | (e2, r2) => some (sign ++ [46] ++ e2, r2)
      | _ => none) = some (sign ++ d1 ++ [46] ++ d2, rest) := by
  have hdot : ∀ b r, ([46] ++ d2 ++ rest : Bytes) = b :: r → isDigit b = false := by
    intro b r h; simp at h; obtain ⟨rfl, _⟩ := h; decide
  have s1 : spanP isDigit (d1 ++ [46] ++ d2 ++ rest) = (d1, 46 :: (d2 ++ rest)) := by
    have := spanP_append isDigit d1 _ h1 hdot
    simpa using this
  have s2 : spanP isDigit (d2 ++ rest) = (d2, rest) := spanP_append isDigit d2 rest h2 hr
  rw [s1]
  cases d1 with
  | cons a as => simp [s2]
  | nil =>
    cases d2 with
    | nil => simp at hne
    | cons c cs => simp only [List.cons_append] at s2; simp [s2]

/-- **Reals, every spelling.** Optional sign, digits before and/or after one decimal point
(`4.`, `.5`, `-.5`, `+1.50`, leading zeros): `real` matches exactly the spelling (the text that
`f32::from_str` then converts), followed by any text not starting with a digit. -/
theorem real_complete (bs rest : Bytes) (h : DerivesReal bs) (hr : NoDigitAhead rest) :
    pReal (bs ++ rest) = some (bs, rest) := by
  cases h with
  | mk sign d1 d2 hs h1 h2 hne =>
    have key := real_unsigned d1 d2 rest h1 h2 hne hr
    cases hs with
    | plus =>
      unfold pReal
      simp only [List.cons_append, List.nil_append, List.append_assoc, optSign] at key ⊢
      exact key [43]
    | minus =>
      unfold pReal
      simp only [List.cons_append, List.nil_append, List.append_assoc, optSign] at key ⊢
      exact key [45]
    | none =>
      have hsign : optSign (d1 ++ [46] ++ d2 ++ rest) = ([], d1 ++ [46] ++ d2 ++ rest) := by
        cases d1 with
        | nil => simp [optSign]
        | cons a as =>
          have ha := h1 a (by simp)
          exact optSign_digit a _ (by constructor <;> (intro hc; subst hc; simp [isDigit] at ha))
      unfold pReal
      simp only [List.nil_append] at hsign key ⊢
      rw [hsign]
      exact key []

example : DerivesReal [45, 46, 53] :=
  .mk [45] [] [53] .minus (by intro b hb; simp at hb) (by intro b hb; simp at hb; subst hb; decide) (by simp)
example : DerivesReal [43, 48, 49, 46, 53, 48] :=
  .mk [43] [48, 49] [53, 48] .plus (by intro b hb; simp at hb; rcases hb with h | h <;> subst h <;> decide)
    (by intro b hb; simp at hb; rcases hb with h | h <;> subst h <;> decide) (by simp)
example : DerivesReal [52, 46] :=
  .mk [] [52] [] .none (by intro b hb; simp at hb; subst hb; decide) (by intro b hb; simp at hb) (by simp)

end Lopdf.Grammar
