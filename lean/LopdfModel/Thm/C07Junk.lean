import LopdfModel.Model.SaveIncrJ
import LopdfModel.Thm.C02FileJunk
import LopdfModel.Thm.C07
/-
  C07 / C02 — an incremental update of a file with bytes in front of the `%PDF-` header (since fix
  d1108ac the appended section counts its offsets from the header, as the reader does):
  `saveIncrJ (junk ++ P) d` is `junk ++ saveIncr P d`, and it LOADS EXACTLY AS the update of the
  file without the junk — so every theorem about `saveIncr` histories (C07 `file_rt_history`,
  `prev_view_unchanged`, C03 `strict_of_history` for the part after the junk) carries over.
-/
namespace Lopdf.Grammar
open Lopdf Gen

theorem findFrom_at_head (pat rest : Bytes) (i : Nat) (hp : pat ≠ []) :
    findFrom pat ((pat ++ rest).length + 1) (pat ++ rest) i = some i := by
  cases hpr : pat ++ rest with
  | nil => cases pat with | nil => exact absurd rfl hp | cons a b => simp at hpr
  | cons x xs =>
    simp only [findFrom, List.length_cons]
    have : pat.isPrefixOf (x :: xs) = true := by
      rw [← hpr]
      exact List.isPrefixOf_iff_prefix.mpr (List.prefix_append _ _)
    simp [this]

/-- a file in which `%PDF-` is found at offset 0 begins with it -/
theorem findFrom_ne_zero : ∀ (b : Bytes) (fuel i : Nat), 1 ≤ i → findFrom PDF_KW fuel b i ≠ some 0 := by
  intro b
  induction b with
  | nil => intro fuel i _; cases fuel <;> simp [findFrom]
  | cons y ys ih =>
    intro fuel i hi
    cases fuel with
    | zero => simp [findFrom]
    | succ f =>
      simp only [findFrom]
      split
      · intro e; injection e with e; omega
      · exact ih f (i + 1) (by omega)

theorem starts_with_of_findFrom_zero (file : Bytes) (h : findFrom PDF_KW (file.length + 1) file 0 = some 0) :
    ∃ rest, file = PDF_KW ++ rest := by
  cases file with
  | nil => simp [findFrom] at h
  | cons x xs =>
    by_cases hp : PDF_KW.isPrefixOf (x :: xs) = true
    · obtain ⟨t, ht⟩ := List.isPrefixOf_iff_prefix.mp hp
      exact ⟨t, ht.symm⟩
    · rw [findFrom] at h
      simp only [hp, Bool.false_eq_true, if_false] at h
      exact absurd h (findFrom_ne_zero xs _ (0 + 1) (by omega))

/-- **Incremental update after junk.** -/
theorem incr_update_after_junk (junk P : Bytes) (d : SDoc) (out : Bytes) (d' : SDoc)
    (h37 : (37 : UInt8) ∉ junk)
    (hP : findFrom PDF_KW (P.length + 1) P 0 = some 0)
    (h : saveIncr P d = some (out, d')) :
    saveIncrJ (junk ++ P) d = some (junk ++ out, d') ∧ loadDoc (junk ++ out) = loadDoc out := by
  obtain ⟨rest, hrest⟩ := starts_with_of_findFrom_zero P hP
  have hpre : P <+: out := incr_prefix P d out d' h
  obtain ⟨tail, htail⟩ := hpre
  have hout0 : findFrom PDF_KW (out.length + 1) out 0 = some 0 := by
    rw [← htail, hrest, List.append_assoc]
    exact findFrom_at_head PDF_KW (rest ++ tail) 0 (by decide)
  have hoff : headerOffset (junk ++ P) = junk.length := by
    unfold headerOffset
    have hno := no_occurrence_of_first 37 [80, 68, 70, 45] junk P h37
    have hskip := findFrom_skip PDF_KW junk P ((junk ++ P).length + 1) 0 (by simp only [List.length_append]; omega) hno
    rw [hskip]
    have e : (junk ++ P).length + 1 - junk.length = P.length + 1 := by simp only [List.length_append]; omega
    rw [e, hrest]
    have := findFrom_at_head PDF_KW rest (0 + junk.length) (by decide)
    rw [this]; simp
  refine ⟨?_, ?_⟩
  · unfold saveIncrJ
    rw [hoff]
    simp only [List.drop_left, List.take_left, h]
  · exact loadDoc_junk_prefix_nopercent junk out h37 hout0

example : (37 : UInt8) ∉ ([33, 80, 83, 45, 65, 100, 111, 98, 101, 10] : Bytes) := by decide   -- "!PS-Adobe\n" (after a leading byte other than %)

end Lopdf.Grammar
